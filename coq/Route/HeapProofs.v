(* HeapProofs — proofs about the object-level model Heap.v / Heap2.v (C03).

   Part 1  ownership: every operation preserves [good mark] (well-formed heap, every
           writable node and its children array allocated at or after [mark]) and is an
           [ext mark] step: nothing below [mark] changes, every logged in-place write
           targets an address >= mark.
   Part 2  histories: the mark is the allocation pointer at the last snapshot point;
           every handed-out roots array lies below it; abs of it never changes. *)
From Coq Require Import FMapPositive.
From FoxBase Require Import Bytes.
From FoxRoute Require Import Node Tree Heap Heap2.

Local Open Scope positive_scope.

(* ---------- monad plumbing ---------- *)
Lemma bind_ok {A B} (m : M A) (k : A -> M B) s b s'' :
  bind m k s = Ok (b, s'') -> exists a s', m s = Ok (a, s') /\ k a s' = Ok (b, s'').
Proof. unfold bind. destruct (m s) as [[a s']| |]; try discriminate. eauto. Qed.

Lemma ret_ok {A} (a b : A) s s' : ret a s = Ok (b, s') -> b = a /\ s' = s.
Proof. unfold ret. intros H; inversion H; auto. Qed.

Lemma opt_get_ok {A} (o : option A) a s s' : opt_get o s = Ok (a, s') -> o = Some a /\ s' = s.
Proof. destruct o; simpl; unfold ret, panic; intros H; inversion H; auto. Qed.

(* ---------- invariants ---------- *)
Definition V (s : st) (a : addr) : Prop := a < s_next s.

Record wf (s : st) : Prop := {
  wf_node : forall a o, find_node s a = Some o -> V s a /\ V s (n_arr o);
  wf_arr : forall a l, find_arr s a = Some l -> V s a /\ Forall (V s) l;
  wf_root : V s (s_root s) }.

(* a node the transaction may edit in place: it and its children array were allocated at or after mark *)
Definition own (mark : addr) (s : st) (a : addr) : Prop :=
  mark <= a /\ exists o, find_node s a = Some o /\ mark <= n_arr o.

Record good (mark : addr) (s : st) : Prop := {
  g_wf : wf s;
  g_mark : mark <= s_next s;
  g_wr : Forall (own mark s) (s_wr s) }.

Record ext (mark : addr) (s s' : st) : Prop := {
  e_next : s_next s <= s_next s';
  e_node : forall a, a < mark -> find_node s' a = find_node s a;
  e_arr : forall a, a < mark -> find_arr s' a = find_arr s a;
  e_pers : forall a o, find_node s a = Some o -> exists o', find_node s' a = Some o' /\ n_arr o' = n_arr o;
  e_log : exists l, s_log s' = (l ++ s_log s)%list /\ Forall (fun t => mark <= t) l }.

Lemma ext_refl mark s : ext mark s s.
Proof. constructor; auto; try lia. - eauto. - exists []; auto. Qed.

Lemma ext_trans mark s1 s2 s3 : ext mark s1 s2 -> ext mark s2 s3 -> ext mark s1 s3.
Proof.
  intros [n1 a1 b1 p1 (l1 & L1 & F1)] [n2 a2 b2 p2 (l2 & L2 & F2)]. constructor.
  - lia.
  - intros a H. rewrite a2, a1; auto.
  - intros a H. rewrite b2, b1; auto.
  - intros a o H. destruct (p1 _ _ H) as (o' & H' & E'). destruct (p2 _ _ H') as (o'' & H'' & E''). exists o''. split; congruence.
  - exists (l2 ++ l1)%list. split. + rewrite L2, L1, app_assoc. reflexivity. + apply Forall_app; auto.
Qed.

Lemma ext_weaken m m' s s' : m <= m' -> ext m' s s' -> ext m s s'.
Proof.
  intros L [n a b p (l & Ll & F)]. constructor; auto.
  - intros x H. apply a. lia.
  - intros x H. apply b. lia.
  - exists l. split; auto. eapply Forall_impl; [|exact F]. simpl. intros; lia.
Qed.

Lemma V_ext mark s s' a : ext mark s s' -> V s a -> V s' a.
Proof. intros E H. unfold V in *. pose proof (e_next _ _ _ E). lia. Qed.

Lemma FV_ext mark s s' l : ext mark s s' -> Forall (V s) l -> Forall (V s') l.
Proof. intros E H. eapply Forall_impl; [|exact H]. intros a. apply (V_ext mark); auto. Qed.

Lemma own_ext mark s s' a : ext mark s s' -> own mark s a -> own mark s' a.
Proof.
  intros E [L (o & H & La)]. split; auto. destruct (e_pers _ _ _ E _ _ H) as (o' & H' & Ea).
  exists o'. split; auto. congruence.
Qed.

Definition optO (mark : addr) (s : st) (o : option addr) : Prop :=
  match o with Some a => own mark s a | None => True end.
Lemma optO_ext mark s s' o : ext mark s s' -> optO mark s o -> optO mark s' o.
Proof. destruct o; simpl; auto. apply own_ext. Qed.

Lemma own_V mark s a : wf s -> own mark s a -> V s a.
Proof. intros W [_ (o & H & _)]. apply (wf_node _ W _ _ H). Qed.

(* ---------- finite-map facts ---------- *)
Lemma pm_gss {A} a (v : A) m : PM.find a (PM.add a v m) = Some v.
Proof. apply PM.gss. Qed.
Lemma pm_gso {A} a b (v : A) m : a <> b -> PM.find a (PM.add b v m) = PM.find a m.
Proof. intros. apply PM.gso. auto. Qed.

(* heap-only view of the setters *)
Lemma find_node_set_heap s n a nx x : find_node (set_heap s n a nx) x = PM.find x n. Proof. reflexivity. Qed.
Lemma find_arr_set_heap s n a nx x : find_arr (set_heap s n a nx) x = PM.find x a. Proof. reflexivity. Qed.

Lemma wf_same_heap s s' :
  s_nodes s' = s_nodes s -> s_arrs s' = s_arrs s -> s_next s' = s_next s -> s_root s' = s_root s -> wf s -> wf s'.
Proof.
  intros Hn Ha Hx Hr [wn wa wr]. unfold V, find_node, find_arr in *.
  constructor; unfold V, find_node, find_arr; rewrite ?Hn, ?Ha, ?Hx, ?Hr; auto.
Qed.

Lemma ext_same_heap mark s s' :
  s_nodes s' = s_nodes s -> s_arrs s' = s_arrs s -> s_next s' = s_next s -> s_log s' = s_log s -> ext mark s s'.
Proof.
  intros Hn Ha Hx Hl. constructor; unfold find_node, find_arr; rewrite ?Hn, ?Ha, ?Hx; auto; try lia.
  - eauto.
  - exists []. rewrite Hl. auto.
Qed.

Lemma own_same_heap mark s s' a : s_nodes s' = s_nodes s -> own mark s a -> own mark s' a.
Proof. intros Hn [L (o & H & La)]. split; auto. exists o. unfold find_node in *. rewrite Hn. auto. Qed.

(* a change of tXn fields other than the heap, the root and the writable set *)
Lemma good_meta mark s sz mp d : good mark s -> good mark (set_meta s sz mp d) /\ ext mark s (set_meta s sz mp d).
Proof.
  intros [W M Wr]. split.
  - constructor; simpl; auto.
    apply (wf_same_heap s); auto.
  - apply ext_same_heap; auto.
Qed.

(* ---------- proof helpers: transport the stable facts along an ext step ---------- *)
Ltac adv E :=
  match type of E with HeapProofs.ext _ ?s ?s' =>
    repeat match goal with
    | X : V s _ |- _ => apply (V_ext _ _ _ _ E) in X
    | X : Forall (V s) _ |- _ => apply (FV_ext _ _ _ _ E) in X
    | X : HeapProofs.own _ s _ |- _ => apply (own_ext _ _ _ _ E) in X
    | X : optO _ s _ |- _ => apply (optO_ext _ _ _ _ E) in X
    end
  end.
Ltac chain E0 E :=
  let T := fresh "E" in pose proof (ext_trans _ _ _ _ E0 E) as T; adv E; clear E0 E; rename T into E0.
Ltac fin := repeat match goal with |- _ /\ _ => split end; simpl; auto using ext_refl.
Ltac mbind H a s1 H1 := apply bind_ok in H; destruct H as (a & s1 & H1 & H).

Section Inv.
Variable evict : N -> list addr -> list addr.
Hypothesis evict_sub : forall c w a, In a (evict c w) -> In a w.
Variable mark : addr.

Notation good := (good mark). Notation ext := (ext mark). Notation own := (own mark).

(* ---------- primitives ---------- *)
Lemma get_node_ok a s o s' : get_node a s = Ok (o, s') -> s' = s /\ find_node s a = Some o.
Proof. unfold get_node, find_node. destruct (PM.find a (s_nodes s)); intros H; inversion H; auto. Qed.

Lemma get_arr_ok a s l s' : get_arr a s = Ok (l, s') -> s' = s /\ find_arr s a = Some l.
Proof. unfold get_arr, find_arr. destruct (PM.find a (s_arrs s)); intros H; inversion H; auto. Qed.

Lemma get_root_ok s r s' : get_root s = Ok (r, s') -> s' = s /\ r = s_root s.
Proof. unfold get_root. intros H; inversion H; auto. Qed.
Lemma get_cache_ok s r s' : get_cache s = Ok (r, s') -> s' = s /\ r = s_cache s.
Proof. unfold get_cache. intros H; inversion H; auto. Qed.

Lemma alloc_node_ok o s a s' :
  good s -> V s (n_arr o) -> alloc_node o s = Ok (a, s') ->
  good s' /\ ext s s' /\ V s' a /\ mark <= a /\ find_node s' a = Some o.
Proof.
  intros [W M Wr] Va H. unfold alloc_node in H. inversion H; subst; clear H.
  assert (Hfresh : forall x o', find_node s x = Some o' -> x <> s_next s).
  { intros x o' Hx. pose proof (proj1 (wf_node _ W _ _ Hx)). unfold V in *. lia. }
  assert (E : ext s (set_heap s (PM.add (s_next s) o (s_nodes s)) (s_arrs s) (Pos.succ (s_next s)))).
  { constructor; simpl; try lia.
    - intros x Hx. rewrite find_node_set_heap. apply pm_gso. lia.
    - auto.
    - intros x o' Hx. exists o'. split; auto. rewrite find_node_set_heap, pm_gso; eauto.
    - exists []; auto. }
  split; [|split; [exact E|]].
  - constructor; simpl; try lia.
    + constructor; unfold V; simpl.
      * intros x o'. rewrite find_node_set_heap. destruct (Pos.eq_dec x (s_next s)) as [->|Hn].
        -- rewrite pm_gss. intros Ho; inversion Ho; subst. unfold V in Va. lia.
        -- rewrite pm_gso by auto. intros Hx. destruct (wf_node _ W _ _ Hx). unfold V in *. lia.
      * intros x l Hx. destruct (wf_arr _ W _ _ Hx) as [Vx Fl]. unfold V in *. split; [lia|].
        eapply Forall_impl; [|exact Fl]. simpl. intros; lia.
      * pose proof (wf_root _ W). unfold V in *. lia.
    + eapply Forall_impl; [|exact Wr]. intros x. apply own_ext. exact E.
  - unfold V; simpl. split; [lia|]. split; [lia|]. rewrite find_node_set_heap. apply pm_gss.
Qed.

Lemma alloc_arr_ok l s a s' :
  good s -> Forall (V s) l -> alloc_arr l s = Ok (a, s') ->
  good s' /\ ext s s' /\ V s' a /\ mark <= a /\ find_arr s' a = Some l.
Proof.
  intros [W M Wr] Vl H. unfold alloc_arr in H. inversion H; subst; clear H.
  assert (E : ext s (set_heap s (s_nodes s) (PM.add (s_next s) l (s_arrs s)) (Pos.succ (s_next s)))).
  { constructor; simpl; try lia.
    - auto.
    - intros x Hx. rewrite find_arr_set_heap. apply pm_gso. lia.
    - intros x o' Hx. exists o'. auto.
    - exists []; auto. }
  split; [|split; [exact E|]].
  - constructor; simpl; try lia.
    + constructor; unfold V; simpl.
      * intros x o' Hx. destruct (wf_node _ W _ _ Hx). unfold V in *. lia.
      * intros x l'. rewrite find_arr_set_heap. destruct (Pos.eq_dec x (s_next s)) as [->|Hn].
        -- rewrite pm_gss. intros Ho; inversion Ho; subst. split; [lia|].
           eapply Forall_impl; [|exact Vl]. unfold V. simpl. intros; lia.
        -- rewrite pm_gso by auto. intros Hx. destruct (wf_arr _ W _ _ Hx) as [Vx Fl]. unfold V in *. split; [lia|].
           eapply Forall_impl; [|exact Fl]. simpl. intros; lia.
      * pose proof (wf_root _ W). unfold V in *. lia.
    + eapply Forall_impl; [|exact Wr]. intros x. apply own_ext. exact E.
  - unfold V; simpl. split; [lia|]. split; [lia|]. rewrite find_arr_set_heap. apply pm_gss.
Qed.

Lemma Forall_set_nth {A} (P : A -> Prop) l i v : Forall P l -> P v -> Forall P (set_nth l i v).
Proof.
  intros H Hv. revert i. induction H; intros [|i]; simpl; auto.
Qed.
Lemma Forall_del_nth {A} (P : A -> Prop) l i : Forall P l -> Forall P (del_nth l i).
Proof. intros H. revert i. induction H; intros [|i]; simpl; auto. Qed.

(* an in-place write of array a *)
Lemma write_arr_gen a l' s :
  good s -> mark <= a -> (exists l, find_arr s a = Some l) -> Forall (V s) l' ->
  let s' := set_heap_w s (s_nodes s) (PM.add a l' (s_arrs s)) a in
  good s' /\ ext s s'.
Proof.
  intros [W M Wr] La (l & Hl) Vl s'.
  assert (E : ext s s').
  { constructor; simpl; try lia.
    - auto.
    - intros x Hx. unfold s', find_arr. simpl. apply pm_gso. lia.
    - intros x o' Hx. exists o'. auto.
    - exists [a]. split; auto. }
  split; [|exact E].
  constructor; simpl; try lia.
  - constructor; unfold V; simpl.
    + intros x o' Hx. apply (wf_node _ W _ _ Hx).
    + intros x l0. unfold s', find_arr. simpl. destruct (Pos.eq_dec x a) as [->|Hn].
      * rewrite pm_gss. intros Ho; inversion Ho; subst. split; auto. apply (wf_arr _ W _ _ Hl).
      * rewrite pm_gso by auto. intros Hx. apply (wf_arr _ W _ _ Hx).
    + apply (wf_root _ W).
  - eapply Forall_impl; [|exact Wr]. intros x. apply own_ext. exact E.
Qed.

Lemma write_slot_ok a i v s u s' :
  good s -> mark <= a -> V s v -> write_slot a i v s = Ok (u, s') -> good s' /\ ext s s'.
Proof.
  intros G La Vv H. unfold write_slot in H.
  destruct (PM.find a (s_arrs s)) as [l|] eqn:Hl; try discriminate.
  destruct (Nat.ltb i (List.length l)); try discriminate. inversion H; subst; clear H.
  apply write_arr_gen; eauto.
  apply Forall_set_nth; auto. apply (wf_arr _ (g_wf _ _ G) _ _ Hl).
Qed.

Lemma write_arr_ok a l' s u s' :
  good s -> mark <= a -> Forall (V s) l' -> write_arr a l' s = Ok (u, s') -> good s' /\ ext s s'.
Proof.
  intros G La Vv H. unfold write_arr in H.
  destruct (PM.find a (s_arrs s)) as [l|] eqn:Hl; try discriminate. inversion H; subst; clear H.
  apply write_arr_gen; eauto.
Qed.

Lemma set_key_ok a k s u s' :
  good s -> mark <= a -> set_key a k s = Ok (u, s') -> good s' /\ ext s s'.
Proof.
  intros [W M Wr] La H. unfold set_key in H.
  destruct (PM.find a (s_nodes s)) as [o|] eqn:Ho; try discriminate. inversion H; subst; clear H.
  match goal with |- good ?x /\ _ => set (s' := x) end.
  assert (E : ext s s').
  { constructor; simpl; try lia.
    - intros x Hx. unfold s', find_node. simpl. apply pm_gso. lia.
    - auto.
    - intros x o' Hx. unfold s', find_node. simpl. destruct (Pos.eq_dec x a) as [->|Hn].
      + rewrite pm_gss. eexists; split; eauto. simpl. unfold find_node in Hx. congruence.
      + rewrite pm_gso by auto. eauto.
    - exists [a]. split; auto. }
  split; [|exact E].
  constructor; simpl; try lia.
  - constructor; unfold V; simpl.
    + intros x o'. unfold s', find_node. simpl. destruct (Pos.eq_dec x a) as [->|Hn].
      * rewrite pm_gss. intros Hx; inversion Hx; subst; simpl. apply (wf_node _ W _ _ Ho).
      * rewrite pm_gso by auto. intros Hx. apply (wf_node _ W _ _ Hx).
    + intros x l0 Hx. apply (wf_arr _ W _ _ Hx).
    + apply (wf_root _ W).
  - eapply Forall_impl; [|exact Wr]. intros x. apply own_ext. exact E.
Qed.

Lemma set_root_ok r s u s' : good s -> V s r -> set_root r s = Ok (u, s') -> good s' /\ ext s s'.
Proof.
  intros [W M Wr] Vr H. unfold set_root in H. inversion H; subst; clear H. split.
  - constructor; simpl; auto.
    destruct W as [wn wa wr]. constructor; auto.
  - apply ext_same_heap; auto.
Qed.

Lemma bump_size_ok d s u s' : good s -> bump_size d s = Ok (u, s') -> good s' /\ ext s s'.
Proof. intros G H. unfold bump_size in H. inversion H; subst. apply good_meta; auto. Qed.
Lemma put_size_ok d s u s' : good s -> put_size d s = Ok (u, s') -> good s' /\ ext s s'.
Proof. intros G H. unfold put_size in H. inversion H; subst. apply good_meta; auto. Qed.
Lemma upd_maxp_ok d s u s' : good s -> upd_maxp d s = Ok (u, s') -> good s' /\ ext s s'.
Proof. intros G H. unfold upd_maxp in H. inversion H; subst. apply good_meta; auto. Qed.
Lemma upd_depth_ok d s u s' : good s -> upd_depth d s = Ok (u, s') -> good s' /\ ext s s'.
Proof. intros G H. unfold upd_depth in H. inversion H; subst. apply good_meta; auto. Qed.

(* ---------- the writable set ---------- *)
Lemma take_out_in a l l' : take_out a l = Some l' -> In a l /\ (forall x, In x l' -> In x l).
Proof.
  revert l'. induction l as [|x r IH]; simpl; intros l' H; try discriminate.
  destruct (Pos.eqb_spec x a) as [->|Hn].
  - inversion H; subst. auto.
  - destruct (take_out a r) as [r'|]; try discriminate. inversion H; subst.
    destruct (IH _ eq_refl) as [I1 I2]. split; auto. simpl. intros y [->|Hy]; auto.
Qed.

Lemma good_set_wr s w c : good s -> Forall (own s) w -> good (set_wr s w c) /\ ext s (set_wr s w c).
Proof.
  intros [W M Wr] Fw. split.
  - constructor; simpl; auto.
    apply (wf_same_heap s); auto.
  - apply ext_same_heap; auto.
Qed.

Lemma Forall_sub {A} (P : A -> Prop) l l' : (forall x, In x l' -> In x l) -> Forall P l -> Forall P l'.
Proof. intros S F. rewrite Forall_forall in *. auto. Qed.

Lemma w_get_ok a s b s' :
  good s -> w_get evict a s = Ok (b, s') -> good s' /\ ext s s' /\ (b = true -> own s' a).
Proof.
  intros G H. unfold w_get in H. pose proof (g_wr _ _ G) as Wr.
  destruct (take_out a (s_wr s)) as [w'|] eqn:T; inversion H; subst; clear H.
  - destruct (take_out_in _ _ _ T) as [I1 I2].
    assert (Oa : own s a) by (rewrite Forall_forall in Wr; auto).
    assert (Fw : Forall (own s) (evict (s_clock s) (a :: w'))).
    { eapply Forall_sub; [apply evict_sub|]. constructor; auto. eapply Forall_sub; eauto. }
    destruct (good_set_wr s _ (N.succ (s_clock s)) G Fw) as [G' E'].
    split; [exact G'|]. split; [exact E'|]. intros _. eapply own_ext; eauto.
  - assert (Fw : Forall (own s) (evict (s_clock s) (s_wr s))).
    { eapply Forall_sub; [apply evict_sub|]. auto. }
    destruct (good_set_wr s _ (N.succ (s_clock s)) G Fw) as [G' E'].
    split; [exact G'|]. split; [exact E'|]. discriminate.
Qed.

Lemma w_add_ok a s u s' : good s -> own s a -> w_add evict a s = Ok (u, s') -> good s' /\ ext s s'.
Proof.
  intros G Oa H. unfold w_add in H. inversion H; subst; clear H. pose proof (g_wr _ _ G) as Wr.
  apply good_set_wr; auto. eapply Forall_sub; [apply evict_sub|]. constructor; auto.
  destruct (take_out a (s_wr s)) as [w'|] eqn:T; auto.
  destruct (take_out_in _ _ _ T) as [I1 I2]. eapply Forall_sub; eauto.
Qed.

Lemma w_reset_ok s u s' : good s -> w_reset s = Ok (u, s') -> good s' /\ ext s s'.
Proof. intros G H. unfold w_reset in H. inversion H; subst. apply good_set_wr; auto. Qed.

Lemma w_add_if_cache_ok a s u s' : good s -> own s a -> w_add_if_cache evict a s = Ok (u, s') -> good s' /\ ext s s'.
Proof.
  intros G Oa H. unfold w_add_if_cache in H. apply bind_ok in H. destruct H as (c & s1 & H1 & H2).
  apply get_cache_ok in H1. destruct H1 as [-> _]. destruct c.
  - eapply w_add_ok; eauto.
  - apply ret_ok in H2. destruct H2 as [_ ->]. split; auto. apply ext_refl.
Qed.

(* ---------- node helpers ---------- *)
Lemma key_of_ok a s k s' : key_of a s = Ok (k, s') -> s' = s.
Proof.
  unfold key_of. intros H. mbind H o s1 H1. apply get_node_ok in H1. destruct H1 as [-> _].
  apply ret_ok in H. tauto.
Qed.

Lemma keys_of_ok l s ks s' : keys_of l s = Ok (ks, s') -> s' = s.
Proof.
  revert s ks s'. induction l as [|a r IH]; simpl; intros s ks s' H.
  - apply ret_ok in H. tauto.
  - mbind H k s1 H1. apply key_of_ok in H1. subst s1. mbind H ks' s2 H2. apply IH in H2. subst s2.
    apply ret_ok in H. tauto.
Qed.

Lemma nth_error_Forall {A} (P : A -> Prop) l i x : Forall P l -> nth_error l i = Some x -> P x.
Proof. intros F H. apply nth_error_In in H. rewrite Forall_forall in F. auto. Qed.

Lemma get_edge_ok n c s r s' :
  good s -> get_edge n c s = Ok (r, s') -> s' = s /\ (forall nx, r = Some nx -> V s nx).
Proof.
  intros G H. unfold get_edge in H.
  mbind H o s1 H1. apply get_node_ok in H1. destruct H1 as [-> Ho].
  mbind H ch s1 H1. apply get_arr_ok in H1. destruct H1 as [-> Hch].
  mbind H ks s1 H1. apply keys_of_ok in H1. subst s1.
  pose proof (proj2 (wf_arr _ (g_wf _ _ G) _ _ Hch)) as Fch.
  destruct (find_idx_from 0 c ks); apply ret_ok in H; destruct H as [-> ->]; split; auto.
  - intros nx Hn. eapply nth_error_Forall; eauto.
  - discriminate.
Qed.

Lemma update_edge_ok n nd s u s' :
  good s -> own s n -> V s nd -> update_edge n nd s = Ok (u, s') -> good s' /\ ext s s'.
Proof.
  intros G On Vn H. unfold update_edge in H.
  mbind H k s1 H1. apply key_of_ok in H1. subst s1.
  destruct k as [|c k]; [discriminate|].
  mbind H o s1 H1. apply get_node_ok in H1. destruct H1 as [-> Ho].
  mbind H ch s1 H1. apply get_arr_ok in H1. destruct H1 as [-> Hch].
  mbind H ks s1 H1. apply keys_of_ok in H1. subst s1.
  destruct (find_idx_from 0 c ks); [|discriminate].
  destruct On as [_ (o' & Ho' & La)]. assert (o' = o) by congruence. subst o'.
  eapply write_slot_ok; eauto.
Qed.

Lemma clone_ok n s a s' :
  good s -> clone n s = Ok (a, s') -> good s' /\ ext s s' /\ own s' a /\ V s' a.
Proof.
  intros G H. unfold clone in H.
  mbind H o s1 H1. apply get_node_ok in H1. destruct H1 as [-> Ho].
  mbind H ch s1 H1. apply get_arr_ok in H1. destruct H1 as [-> Hch].
  pose proof (proj2 (wf_arr _ (g_wf _ _ G) _ _ Hch)) as Fch.
  mbind H a1 s1 H1. destruct (alloc_arr_ok _ _ _ _ G Fch H1) as (G1 & E1 & V1 & L1 & _).
  pose proof (fun pf => alloc_node_ok _ _ _ _ G1 pf H) as X. simpl in X.
  destruct (X V1) as (G2 & E2 & V2 & L2 & F2).
  split; auto. split; [eapply ext_trans; eauto|]. split; auto.
  split; auto. eexists; split; eauto.
Qed.

Lemma new_node_from_ref_ok k r arr s a s' :
  good s -> V s arr -> new_node_from_ref k r arr s = Ok (a, s') ->
  good s' /\ ext s s' /\ V s' a /\ mark <= a /\ (mark <= arr -> own s' a).
Proof.
  intros G Va H. unfold new_node_from_ref in H.
  pose proof (fun pf => alloc_node_ok _ _ _ _ G pf H) as X. simpl in X.
  destruct (X Va) as (G2 & E2 & V2 & L2 & F2).
  split; auto. split; auto. split; auto. split; auto. intros La. split; auto. eexists; split; eauto.
Qed.

Lemma ins_sorted_in x l y : In y (ins_sorted x l) -> y = x \/ In y l.
Proof.
  induction l as [|m r IH]; simpl.
  - intros [<-|[]]; auto.
  - destruct (key_ltb (fst m) (fst x)); simpl.
    + intros [<-|H]; auto. destruct (IH H); auto.
    + intros [<-|H]; auto.
Qed.
Lemma sort_pairs_in l y : In y (sort_pairs l) -> In y l.
Proof.
  unfold sort_pairs. induction l as [|x r IH]; simpl; auto.
  intros H. apply ins_sorted_in in H. destruct H; auto.
Qed.
Lemma sorted_sub (ks : list bytes) (ch : list addr) x : In x (map snd (sort_pairs (combine ks ch))) -> In x ch.
Proof.
  intros H. apply in_map_iff in H. destruct H as ([k y] & <- & H). apply sort_pairs_in in H.
  apply in_combine_r in H. auto.
Qed.

Lemma new_node_ok k r arr s a s' :
  good s -> mark <= arr -> new_node k r arr s = Ok (a, s') -> good s' /\ ext s s' /\ V s' a /\ own s' a.
Proof.
  intros G La H. unfold new_node in H.
  mbind H ch s1 H1. apply get_arr_ok in H1. destruct H1 as [-> Hch].
  destruct (wf_arr _ (g_wf _ _ G) _ _ Hch) as [Varr Fch].
  mbind H ks s1 H1. apply keys_of_ok in H1. subst s1.
  mbind H u s1 H1.
  assert (Fs : Forall (V s) (map snd (sort_pairs (combine ks ch)))).
  { rewrite Forall_forall in *. intros x Hx. apply Fch. eapply sorted_sub; eauto. }
  destruct (write_arr_ok _ _ _ _ _ G La Fs H1) as (G1 & E1). adv E1.
  destruct (new_node_from_ref_ok _ _ _ _ _ _ G1 Varr H) as (G2 & E2 & V2 & L2 & O2).
  split; auto. split; [eapply ext_trans; eauto|]. split; auto.
Qed.

(* ---------- roots ---------- *)
Lemma method_index_at_ok ra m s r s' : method_index_at ra m s = Ok (r, s') -> s' = s.
Proof.
  unfold method_index_at. intros H.
  repeat match type of H with (if ?b then _ else _) _ = _ => destruct b; [apply ret_ok in H; tauto|] end.
  mbind H rs s1 H1. apply get_arr_ok in H1. destruct H1 as [-> _].
  mbind H ks s1 H1. apply keys_of_ok in H1. subst s1. apply ret_ok in H. tauto.
Qed.
Lemma h_method_index_ok m s r s' : h_method_index m s = Ok (r, s') -> s' = s.
Proof.
  unfold h_method_index. intros H. mbind H ra s1 H1. apply get_root_ok in H1. destruct H1 as [-> _].
  eapply method_index_at_ok; eauto.
Qed.
Lemma get_roots_ok s rs s' : good s -> get_roots s = Ok (rs, s') -> s' = s /\ Forall (V s) rs.
Proof.
  intros G H. unfold get_roots in H. mbind H ra s1 H1. apply get_root_ok in H1. destruct H1 as [-> ->].
  apply get_arr_ok in H. destruct H as [-> Hr]. split; auto. apply (wf_arr _ (g_wf _ _ G) _ _ Hr).
Qed.

Lemma add_root_ok n s u s' : good s -> V s n -> add_root n s = Ok (u, s') -> good s' /\ ext s s'.
Proof.
  intros G Vn H. unfold add_root in H.
  mbind H rs s1 H1. destruct (get_roots_ok _ _ _ G H1) as [-> Frs]; clear H1.
  mbind H a s1 H1.
  assert (F : Forall (V s) (rs ++ [n])) by (apply Forall_app; auto).
  destruct (alloc_arr_ok _ _ _ _ G F H1) as (G1 & E1 & V1 & L1 & _).
  destruct (set_root_ok _ _ _ _ G1 V1 H) as (G2 & E2).
  split; auto. eapply ext_trans; eauto.
Qed.

Lemma update_root_ok n s b s' : good s -> V s n -> update_root n s = Ok (b, s') -> good s' /\ ext s s'.
Proof.
  intros G Vn H. unfold update_root in H.
  mbind H k s1 H1. apply key_of_ok in H1. subst s1.
  mbind H idx s1 H1. apply h_method_index_ok in H1. subst s1.
  destruct idx as [i|].
  - mbind H rs s1 H1. destruct (get_roots_ok _ _ _ G H1) as [-> Frs]; clear H1.
    destruct (Nat.ltb i (List.length rs)); [|discriminate].
    mbind H a s1 H1.
    assert (F : Forall (V s) (set_nth rs i n)) by (apply Forall_set_nth; auto).
    destruct (alloc_arr_ok _ _ _ _ G F H1) as (G1 & E1 & V1 & L1 & _).
    mbind H u s2 H2. destruct (set_root_ok _ _ _ _ G1 V1 H2) as (G2 & E2).
    apply ret_ok in H. destruct H as [_ ->]. split; auto. eapply ext_trans; eauto.
  - apply ret_ok in H. destruct H as [_ ->]. split; auto. apply ext_refl.
Qed.

Lemma remove_root_ok m s b s' : good s -> remove_root m s = Ok (b, s') -> good s' /\ ext s s'.
Proof.
  intros G H. unfold remove_root in H.
  mbind H idx s1 H1. apply h_method_index_ok in H1. subst s1.
  destruct idx as [i|].
  - mbind H rs s1 H1. destruct (get_roots_ok _ _ _ G H1) as [-> Frs]; clear H1.
    destruct (Nat.ltb i (List.length rs)); [|discriminate].
    mbind H a s1 H1.
    assert (F : Forall (V s) (del_nth rs i)) by (apply Forall_del_nth; auto).
    destruct (alloc_arr_ok _ _ _ _ G F H1) as (G1 & E1 & V1 & L1 & _).
    mbind H u s2 H2. destruct (set_root_ok _ _ _ _ G1 V1 H2) as (G2 & E2).
    apply ret_ok in H. destruct H as [_ ->]. split; auto. eapply ext_trans; eauto.
  - apply ret_ok in H. destruct H as [_ ->]. split; auto. apply ext_refl.
Qed.

(* ---------- copyOnWriteSearch ---------- *)
Lemma cow_loop_ok fuel : forall cur p pp ppp rest from cm cmin depth s r s',
  good s -> V s cur -> optO mark s p -> optO mark s pp -> optO mark s ppp ->
  cow_loop evict fuel cur p pp ppp rest from cm cmin depth s = Ok (r, s') ->
  good s' /\ ext s s' /\ V s' (r_matched r) /\ optO mark s' (r_p r) /\ optO mark s' (r_pp r) /\ optO mark s' (r_ppp r).
Proof.
  induction fuel as [|f IH]; intros cur p pp ppp rest from cm cmin depth s r s' G Vc Op Opp Oppp H; simpl in H.
  - discriminate.
  - destruct rest as [|c rest0].
    + apply ret_ok in H. destruct H as [-> ->]. simpl. split; auto. split; [apply ext_refl|]. auto.
    + mbind H next s1 H1. destruct (get_edge_ok _ _ _ _ _ G H1) as [-> Vnx]. clear H1.
      destruct next as [nx|].
      * specialize (Vnx _ eq_refl).
        mbind H hit s1 H1. destruct (w_get_ok _ _ _ _ G H1) as (G1 & E1 & Ohit). clear H1.
        pose proof E1 as E0. adv E1.
        mbind H p' s2 H2.
        assert (X : good s2 /\ ext s1 s2 /\ own s2 p').
        { destruct hit.
          - apply ret_ok in H2. destruct H2 as [-> ->]. split; auto. split; [apply ext_refl|]. auto.
          - mbind H2 cp s3 H3. destruct (clone_ok _ _ _ _ G1 H3) as (G3 & E3 & O3 & V3). clear H3.
            pose proof E3 as E13. adv E3.
            mbind H2 u s4 H4. destruct (w_add_if_cache_ok _ _ _ _ G3 O3 H4) as (G4 & E4). clear H4.
            chain E13 E4.
            mbind H2 u2 s5 H5.
            assert (Y : good s5 /\ ext s4 s5).
            { destruct p as [q|].
              - simpl in Op. eapply (update_edge_ok q cp); eauto.
              - mbind H5 b s6 H6. destruct (update_root_ok _ _ _ _ G4 V3 H6) as (G6 & E6).
                apply ret_ok in H5. destruct H5 as [_ ->]. auto. }
            destruct Y as (G5 & E5). chain E13 E5.
            apply ret_ok in H2. destruct H2 as [-> ->]. auto. }
        destruct X as (G2 & E2 & Op'). chain E0 E2.
        mbind H key s3 H3. apply key_of_ok in H3. subst s3.
        destruct (match_key key (c :: rest0)) as [[n rest'] brk].
        destruct brk.
        -- apply ret_ok in H. destruct H as [-> ->]. fin.
        -- destruct (IH _ (Some p') _ _ _ _ _ _ _ _ _ _ G2 Vnx Op' Op Opp H) as (G9 & E9 & R).
           split; auto. split; [eapply ext_trans; eauto|]. auto.
      * apply ret_ok in H. destruct H as [-> ->]. simpl. split; auto. split; [apply ext_refl|]. auto.
Qed.

Lemma cow_search_ok rootNode path s r s' :
  good s -> V s rootNode -> cow_search evict rootNode path s = Ok (r, s') ->
  good s' /\ ext s s' /\ V s' (r_matched r) /\ optO mark s' (r_p r) /\ optO mark s' (r_pp r) /\ optO mark s' (r_ppp r).
Proof. intros G Vr H. unfold cow_search in H. eapply cow_loop_ok; eauto; simpl; auto. Qed.

(* ---------- insert / update ---------- *)
Ltac meta1 H G E0 :=
  let u := fresh "mu" in let s1 := fresh "ms" in let H1 := fresh "mH" in
  let G1 := fresh "mG" in let E1 := fresh "mE" in
  mbind H u s1 H1;
  first [ destruct (bump_size_ok _ _ _ _ G H1) as (G1 & E1)
        | destruct (upd_maxp_ok _ _ _ _ G H1) as (G1 & E1)
        | destruct (upd_depth_ok _ _ _ _ G H1) as (G1 & E1)
        | destruct (put_size_ok _ _ _ _ G H1) as (G1 & E1) ];
  clear H1; chain E0 E1; clear G; rename G1 into G.

Lemma patch_ok {A} po n (x : A) s y s' :
  good s -> optO mark s po -> V s n ->
  (p <- opt_get po ;; update_edge p n ;;; ret x) s = Ok (y, s') -> good s' /\ ext s s'.
Proof.
  intros G Op Vn H. mbind H p s1 H1. apply opt_get_ok in H1. destruct H1 as [-> ->]. simpl in Op.
  mbind H u s1 H1. destruct (update_edge_ok _ _ _ _ _ G Op Vn H1) as (G1 & E1).
  apply ret_ok in H. destruct H as [_ ->]. auto.
Qed.

Lemma h_new_leaf_ok ri cm suffix s c add s' :
  good s -> h_new_leaf ri cm suffix s = Ok ((c, add), s') -> good s' /\ ext s s' /\ V s' c.
Proof.
  intros G H. unfold h_new_leaf in H.
  destruct (Nat.ltb 0 (ri_hostsplit ri) && Nat.ltb cm (ri_hostsplit ri))%bool.
  - mbind H e s1 H1. destruct (alloc_arr_ok [] _ _ _ G (Forall_nil _) H1) as (G1 & E0 & V1 & L1 & _). clear H1.
    mbind H pc s2 H2. destruct (new_node_ok _ _ _ _ _ _ G1 L1 H2) as (G2 & E2 & V2 & _). clear H2. chain E0 E2.
    mbind H a s3 H3.
    assert (F : Forall (V s2) [pc]) by auto.
    destruct (alloc_arr_ok _ _ _ _ G2 F H3) as (G3 & E3 & V3 & L3 & _). clear H3. chain E0 E3.
    mbind H c0 s4 H4. destruct (new_node_ok _ _ _ _ _ _ G3 L3 H4) as (G4 & E4 & V4 & _). clear H4. chain E0 E4.
    apply ret_ok in H. destruct H as [H ->]. inversion H; subst. fin.
  - mbind H e s1 H1. destruct (alloc_arr_ok [] _ _ _ G (Forall_nil _) H1) as (G1 & E0 & V1 & L1 & _). clear H1.
    mbind H c0 s2 H2. destruct (new_node_ok _ _ _ _ _ _ G1 L1 H2) as (G2 & E2 & V2 & _). clear H2. chain E0 E2.
    apply ret_ok in H. destruct H as [H ->]. inversion H; subst. fin.
Qed.

Lemma h_insert_ok method ri s out s' :
  good s -> h_insert evict method ri s = Ok (out, s') -> good s' /\ ext s s'.
Proof.
  intros G H. unfold h_insert in H.
  mbind H idx s1 H1. apply h_method_index_ok in H1. subst s1.
  mbind H rootNode s1 H1.
  assert (X : good s1 /\ ext s s1 /\ V s1 rootNode).
  { destruct idx as [i|].
    - mbind H1 rs s2 H2. destruct (get_roots_ok _ _ _ G H2) as [-> F]. clear H2.
      apply opt_get_ok in H1. destruct H1 as [Hn ->]. fin. eapply nth_error_Forall; eauto.
    - mbind H1 e s2 H2. destruct (alloc_arr_ok [] _ _ _ G (Forall_nil _) H2) as (G2 & E0 & V2 & L2 & _). clear H2.
      mbind H1 rn s3 H3. pose proof (fun pf => alloc_node_ok _ _ _ _ G2 pf H3) as X. simpl in X.
      destruct (X V2) as (G3 & E3 & V3 & L3 & _). clear X H3. chain E0 E3.
      mbind H1 u s4 H4. destruct (add_root_ok _ _ _ _ G3 V3 H4) as (G4 & E4). clear H4. chain E0 E4.
      apply ret_ok in H1. destruct H1 as [-> ->]. fin. }
  destruct X as (G1 & E0 & Vr). clear G H1.
  mbind H r s2 H2. destruct (cow_search_ok _ _ _ _ _ G1 Vr H2) as (G2 & E2 & Vm & Op & Opp & Oppp). clear H2 G1. chain E0 E2.
  mbind H mo s3 H3. apply get_node_ok in H3. destruct H3 as [-> Hmo].
  pose proof (proj2 (wf_node _ (g_wf _ _ G2) _ _ Hmo)) as Varr.
  destruct (classify r (List.length (n_key mo))) as [[]|]; [| | | |discriminate].
  - (* exactMatch *)
    destruct (n_route mo).
    + apply ret_ok in H. destruct H as [_ ->]. fin.
    + mbind H n s3 H3. destruct (new_node_from_ref_ok _ _ _ _ _ _ G2 Varr H3) as (G3 & E3 & V3 & _). clear H3 G2. chain E0 E3.
      repeat meta1 H G3 E0.
      destruct (patch_ok _ _ _ _ _ _ G3 Op V3 H) as (G4 & E4). split; auto. eapply ext_trans; eauto.
  - (* incompleteMatchToEndOfEdge *)
    mbind H cadd s3 H3. destruct cadd as [child add].
    destruct (h_new_leaf_ok _ _ _ _ _ _ _ G2 H3) as (G3 & E3 & V3). clear H3.
    assert (Hmo3 : exists o', find_node s3 (r_matched r) = Some o' /\ n_arr o' = n_arr mo) by (apply (e_pers _ _ _ E3 _ _ Hmo)).
    clear G2. chain E0 E3.
    mbind H ch s4 H4. apply get_arr_ok in H4. destruct H4 as [-> Hch].
    pose proof (proj2 (wf_arr _ (g_wf _ _ G3) _ _ Hch)) as Fch.
    mbind H a s4 H4.
    assert (F : Forall (V s3) (ch ++ [child])) by (apply Forall_app; auto).
    destruct (alloc_arr_ok _ _ _ _ G3 F H4) as (G4 & E4 & V4 & L4 & _). clear H4 G3. chain E0 E4.
    mbind H n s5 H5. destruct (new_node_ok _ _ _ _ _ _ G4 L4 H5) as (G5 & E5 & V5 & O5). clear H5 G4. chain E0 E5.
    repeat meta1 H G5 E0.
    destruct (Pos.eqb (r_matched r) rootNode).
    + mbind H u s6 H6. destruct (set_key_ok _ _ _ _ _ G5 (proj1 O5) H6) as (G6 & E6). clear H6 G5. chain E0 E6.
      mbind H u2 s7 H7. destruct (w_add_if_cache_ok _ _ _ _ G6 O5 H7) as (G7 & E7). clear H7 G6. chain E0 E7.
      mbind H b s8 H8. destruct (update_root_ok _ _ _ _ G7 V5 H8) as (G8 & E8). clear H8 G7. chain E0 E8.
      apply ret_ok in H. destruct H as [_ ->]. fin.
    + destruct (patch_ok _ _ _ _ _ _ G5 Op V5 H) as (G6 & E6). split; auto. eapply ext_trans; eauto.
  - (* incompleteMatchToMiddleOfEdge *)
    destruct (prefix_conflict _ _).
    + apply ret_ok in H. destruct H as [_ ->]. fin.
    + mbind H cadd s3 H3. destruct cadd as [n1 add].
      destruct (h_new_leaf_ok _ _ _ _ _ _ _ G2 H3) as (G3 & E3 & V3). clear H3 G2. chain E0 E3.
      mbind H n2 s4 H4. destruct (new_node_from_ref_ok _ _ _ _ _ _ G3 Varr H4) as (G4 & E4 & V4 & _). clear H4 G3. chain E0 E4.
      mbind H a s5 H5.
      assert (F : Forall (V s4) [n1; n2]) by auto.
      destruct (alloc_arr_ok _ _ _ _ G4 F H5) as (G5 & E5 & V5 & L5 & _). clear H5 G4. chain E0 E5.
      mbind H n3 s6 H6. destruct (new_node_ok _ _ _ _ _ _ G5 L5 H6) as (G6 & E6 & V6 & _). clear H6 G5. chain E0 E6.
      repeat meta1 H G6 E0.
      destruct (patch_ok _ _ _ _ _ _ G6 Op V6 H) as (G7 & E7). split; auto. eapply ext_trans; eauto.
  - (* keyEndMidEdge *)
    mbind H child s3 H3. destruct (new_node_from_ref_ok _ _ _ _ _ _ G2 Varr H3) as (G3 & E3 & V3 & _). clear H3 G2. chain E0 E3.
    mbind H a s4 H4.
    assert (F : Forall (V s3) [child]) by auto.
    destruct (alloc_arr_ok _ _ _ _ G3 F H4) as (G4 & E4 & V4 & L4 & _). clear H4 G3. chain E0 E4.
    mbind H parent s5 H5. destruct (new_node_ok _ _ _ _ _ _ G4 L4 H5) as (G5 & E5 & V5 & _). clear H5 G4. chain E0 E5.
    repeat meta1 H G5 E0.
    destruct (patch_ok _ _ _ _ _ _ G5 Op V5 H) as (G6 & E6). split; auto. eapply ext_trans; eauto.
Qed.

Lemma h_update_ok method ri s out s' :
  good s -> h_update evict method ri s = Ok (out, s') -> good s' /\ ext s s'.
Proof.
  intros G H. unfold h_update in H.
  mbind H idx s1 H1. apply h_method_index_ok in H1. subst s1.
  destruct idx as [i|]; [|apply ret_ok in H; destruct H as [_ ->]; fin].
  mbind H rs s2 H2. destruct (get_roots_ok _ _ _ G H2) as [-> F]. clear H2.
  mbind H rn s2 H2. apply opt_get_ok in H2. destruct H2 as [Hn ->].
  assert (Vr : V s rn) by (eapply nth_error_Forall; eauto).
  mbind H r s2 H2. destruct (cow_search_ok _ _ _ _ _ G Vr H2) as (G2 & E0 & Vm & Op & Opp & Oppp). clear H2 G.
  mbind H mo s3 H3. apply get_node_ok in H3. destruct H3 as [-> Hmo].
  pose proof (proj2 (wf_node _ (g_wf _ _ G2) _ _ Hmo)) as Varr.
  destruct (is_exact r _); [destruct (n_route mo)|]; try (apply ret_ok in H; destruct H as [_ ->]; fin).
  mbind H n s3 H3. destruct (new_node_from_ref_ok _ _ _ _ _ _ G2 Varr H3) as (G3 & E3 & V3 & _). clear H3 G2. chain E0 E3.
  destruct (patch_ok _ _ _ _ _ _ G3 Op V3 H) as (G4 & E4). split; auto. eapply ext_trans; eauto.
Qed.

(* ---------- remove ---------- *)
Lemma recreate_parent_edge_ok parent matched s a s' :
  good s -> recreate_parent_edge parent matched s = Ok (a, s') -> good s' /\ ext s s' /\ V s' a /\ mark <= a.
Proof.
  intros G H. unfold recreate_parent_edge in H.
  mbind H o s1 H1. apply get_node_ok in H1. destruct H1 as [-> Ho].
  mbind H ch s1 H1. apply get_arr_ok in H1. destruct H1 as [-> Hch].
  pose proof (proj2 (wf_arr _ (g_wf _ _ G) _ _ Hch)) as Fch.
  destruct (Nat.eqb _ _); [|discriminate].
  assert (F : Forall (V s) (rm matched ch)).
  { unfold rm. rewrite Forall_forall in *. intros x Hx. apply filter_In in Hx. apply Fch. tauto. }
  destruct (alloc_arr_ok _ _ _ _ G F H) as (G1 & E1 & V1 & L1 & _). fin.
Qed.

Lemma rebuild_parent_ok o edges may_merge slash s a s' :
  good s -> mark <= edges -> rebuild_parent o edges may_merge slash s = Ok (a, s') ->
  good s' /\ ext s s' /\ V s' a /\ mark <= a /\ (may_merge = false -> own s' a).
Proof.
  intros G Le H. unfold rebuild_parent in H.
  mbind H el s1 H1. apply get_arr_ok in H1. destruct H1 as [-> Hel].
  assert (NN : forall s a s', good s -> new_node (n_key o) (n_route o) edges s = Ok (a, s') ->
               good s' /\ ext s s' /\ V s' a /\ mark <= a /\ (may_merge = false -> own s' a)).
  { intros s0 a0 s0' G0 H0. destruct (new_node_ok _ _ _ _ _ _ G0 Le H0) as (G1 & E1 & V1 & O1). fin. apply O1. }
  destruct el as [|c [|c2 el]]; eauto.
  mbind H co s1 H1. apply get_node_ok in H1. destruct H1 as [-> Hco].
  pose proof (proj2 (wf_node _ (g_wf _ _ G) _ _ Hco)) as Varr.
  destruct may_merge; simpl in H; eauto.
  destruct (negb (is_some (n_route o)) && negb (slash && starts_with "/" (n_key co)))%bool; eauto.
  destruct (new_node_from_ref_ok _ _ _ _ _ _ G Varr H) as (G1 & E1 & V1 & L1 & _). fin. discriminate.
Qed.

Lemma finish_root_ok method parent s b s' :
  good s -> own s parent -> finish_root evict method parent s = Ok (b, s') -> good s' /\ ext s s'.
Proof.
  intros G Op H. unfold finish_root in H.
  mbind H po s1 H1. apply get_node_ok in H1. destruct H1 as [-> Hpo].
  mbind H pch s1 H1. apply get_arr_ok in H1. destruct H1 as [-> Hpch].
  destruct (is_nil pch && is_removable method)%bool.
  - eapply remove_root_ok; eauto.
  - pose proof (own_V _ _ _ (g_wf _ _ G) Op) as Vp.
    mbind H w1 s1 H1. destruct (set_key_ok _ _ _ _ _ G (proj1 Op) H1) as (G1 & E0). clear H1 G. adv E0.
    mbind H w2 s2 H2. destruct (w_add_if_cache_ok _ _ _ _ G1 Op H2) as (G2 & E2). clear H2 G1. chain E0 E2.
    mbind H w3 s3 H3. destruct (update_root_ok _ _ _ _ G2 Vp H3) as (G3 & E3). clear H3 G2. chain E0 E3.
    apply ret_ok in H. destruct H as [_ ->]. fin.
Qed.

Lemma h_remove_ok method path s out s' :
  good s -> h_remove evict method path s = Ok (out, s') -> good s' /\ ext s s'.
Proof.
  intros G H. unfold h_remove in H.
  mbind H idx s1 H1. apply h_method_index_ok in H1. subst s1.
  destruct idx as [i|]; [|apply ret_ok in H; destruct H as [_ ->]; fin].
  mbind H rs s2 H2. destruct (get_roots_ok _ _ _ G H2) as [-> F]. clear H2.
  mbind H rn s2 H2. apply opt_get_ok in H2. destruct H2 as [Hn ->].
  assert (Vr : V s rn) by (eapply nth_error_Forall; eauto).
  mbind H r s2 H2. destruct (cow_search_ok _ _ _ _ _ G Vr H2) as (G2 & E0 & Vm & Op & Opp & Oppp). clear H2 G.
  mbind H mo s3 H3. apply get_node_ok in H3. destruct H3 as [-> Hmo].
  pose proof (proj2 (wf_node _ (g_wf _ _ G2) _ _ Hmo)) as Varr.
  destruct (is_exact r _); [destruct (n_route mo) as [rt|]|]; try (apply ret_ok in H; destruct H as [_ ->]; fin).
  meta1 H G2 E0.
  mbind H mch s3 H3. apply get_arr_ok in H3. destruct H3 as [-> Hmch].
  destruct mch as [|c [|c2 mch]].
  - (* no children: rebuild the parent *)
    mbind H p s3 H3. apply opt_get_ok in H3. destruct H3 as [Hp ->]. rewrite Hp in Op. simpl in Op.
    mbind H po s3 H3. apply get_node_ok in H3. destruct H3 as [-> Hpo].
    mbind H pe s3 H3. destruct (recreate_parent_edge_ok _ _ _ _ _ G2 H3) as (G3 & E3 & V3 & L3). clear H3 G2. chain E0 E3.
    mbind H rs' s4 H4. destruct (get_roots_ok _ _ _ G3 H4) as [-> F']. clear H4.
    mbind H cur_root s4 H4. apply opt_get_ok in H4. destruct H4 as [Hcr ->].
    mbind H pel s4 H4. apply get_arr_ok in H4. destruct H4 as [-> Hpel].
    destruct (is_nil pel && negb (is_some (n_route po)) && negb (Pos.eqb p cur_root))%bool.
    + mbind H pp s4 H4. apply opt_get_ok in H4. destruct H4 as [Hpp ->]. rewrite Hpp in Opp. simpl in Opp.
      mbind H ppo s4 H4. apply get_node_ok in H4. destruct H4 as [-> Hppo].
      mbind H pe2 s4 H4. destruct (recreate_parent_edge_ok _ _ _ _ _ G3 H4) as (G4 & E4 & V4 & L4). clear H4 G3. chain E0 E4.
      mbind H parent s5 H5. destruct (rebuild_parent_ok _ _ _ _ _ _ _ G4 L4 H5) as (G5 & E5 & V5 & L5 & O5). clear H5 G4. chain E0 E5.
      destruct (Pos.eqb pp cur_root); simpl in O5.
      * mbind H b s6 H6. destruct (finish_root_ok _ _ _ _ _ G5 (O5 eq_refl) H6) as (G6 & E6). clear H6 G5. chain E0 E6.
        apply ret_ok in H. destruct H as [_ ->]. fin.
      * destruct (patch_ok _ _ _ _ _ _ G5 Oppp V5 H) as (G6 & E6). split; auto. eapply ext_trans; eauto.
    + mbind H parent s5 H5. destruct (rebuild_parent_ok _ _ _ _ _ _ _ G3 L3 H5) as (G5 & E5 & V5 & L5 & O5). clear H5 G3. chain E0 E5.
      destruct (Pos.eqb p cur_root); simpl in O5.
      * mbind H b s6 H6. destruct (finish_root_ok _ _ _ _ _ G5 (O5 eq_refl) H6) as (G6 & E6). clear H6 G5. chain E0 E6.
        apply ret_ok in H. destruct H as [_ ->]. fin.
      * destruct (patch_ok _ _ _ _ _ _ G5 Opp V5 H) as (G6 & E6). split; auto. eapply ext_trans; eauto.
  - (* one child: merge *)
    mbind H co s3 H3. apply get_node_ok in H3. destruct H3 as [-> Hco].
    pose proof (proj2 (wf_node _ (g_wf _ _ G2) _ _ Hco)) as Varr2.
    mbind H n s3 H3. destruct (new_node_from_ref_ok _ _ _ _ _ _ G2 Varr2 H3) as (G3 & E3 & V3 & _). clear H3 G2. chain E0 E3.
    destruct (patch_ok _ _ _ _ _ _ G3 Op V3 H) as (G4 & E4). split; auto. eapply ext_trans; eauto.
  - (* several children: keep the node without its route *)
    mbind H n s3 H3. destruct (new_node_from_ref_ok _ _ _ _ _ _ G2 Varr H3) as (G3 & E3 & V3 & _). clear H3 G2. chain E0 E3.
    destruct (patch_ok _ _ _ _ _ _ G3 Op V3 H) as (G4 & E4). split; auto. eapply ext_trans; eauto.
Qed.

(* ---------- truncate ---------- *)
Lemma h_routes_ok fuel : forall a s r s', h_routes fuel a s = Ok (r, s') -> s' = s.
Proof.
  induction fuel as [|f IH]; intros a s r s' H; simpl in H; [discriminate|].
  mbind H o s1 H1. apply get_node_ok in H1. destruct H1 as [-> _].
  mbind H ch s1 H1. apply get_arr_ok in H1. destruct H1 as [-> _].
  mbind H rs s1 H1.
  assert (s1 = s).
  { clear H. revert rs s1 H1. induction ch as [|x t IHt]; intros rs s1 H1.
    - apply ret_ok in H1. tauto.
    - mbind H1 r0 s2 H2. apply IH in H2. subst s2. mbind H1 more s3 H3. apply IHt in H3. subst s3.
      apply ret_ok in H1. tauto. }
  subst s1. apply ret_ok in H. tauto.
Qed.

Lemma new_empty_root_ok k s a s' :
  good s -> new_empty_root k s = Ok (a, s') -> good s' /\ ext s s' /\ V s' a.
Proof.
  intros G H. unfold new_empty_root in H.
  mbind H e s1 H1. destruct (alloc_arr_ok [] _ _ _ G (Forall_nil _) H1) as (G1 & E0 & V1 & L1 & _). clear H1.
  pose proof (fun pf => alloc_node_ok _ _ _ _ G1 pf H) as X. simpl in X.
  destruct (X V1) as (G2 & E2 & V2 & _). split; auto. split; auto. eapply ext_trans; eauto.
Qed.

Lemma trunc_loop_ok fuel nr methods : forall s u s',
  good s -> mark <= nr -> trunc_loop fuel nr methods s = Ok (u, s') -> good s' /\ ext s s'.
Proof.
  induction methods as [|m more IH]; intros s u s' G Ln H; simpl in H.
  - apply ret_ok in H. destruct H as [_ ->]. fin.
  - mbind H idx s1 H1. apply method_index_at_ok in H1. subst s1.
    destruct idx as [i|]; [|eauto].
    mbind H l s1 H1. apply get_arr_ok in H1. destruct H1 as [-> Hl].
    pose proof (proj2 (wf_arr _ (g_wf _ _ G) _ _ Hl)) as Fl.
    mbind H root s1 H1. apply opt_get_ok in H1. destruct H1 as [Hroot ->].
    mbind H rts s1 H1. apply h_routes_ok in H1. subst s1.
    pose proof (ext_refl mark s) as E0.
    meta1 H G E0.
    mbind H w1 s2 H2.
    assert (X : good s2 /\ HeapProofs.ext mark ms s2).
    { destruct (negb (is_removable m)).
      - mbind H2 nn s3 H3. destruct (new_empty_root_ok _ _ _ _ G H3) as (G3 & E3 & V3).
        destruct (write_slot_ok _ _ _ _ _ _ G3 Ln V3 H2) as (G4 & E4). split; auto. eapply ext_trans; eauto.
      - eapply (write_arr_ok nr (del_nth l i)); eauto. apply Forall_del_nth; auto. }
    destruct X as (G2 & E2). chain E0 E2.
    destruct (IH _ _ _ G2 Ln H) as (G3 & E3). split; auto. eapply ext_trans; eauto.
Qed.

Lemma new_empty_roots_ok ks : forall s l s',
  good s -> new_empty_roots ks s = Ok (l, s') -> good s' /\ ext s s' /\ Forall (V s') l.
Proof.
  induction ks as [|k r IH]; intros s l s' G H; simpl in H.
  - apply ret_ok in H. destruct H as [-> ->]. fin.
  - mbind H a s1 H1. destruct (new_empty_root_ok _ _ _ _ G H1) as (G1 & E0 & V1). clear H1.
    mbind H more s2 H2. destruct (IH _ _ _ G1 H2) as (G2 & E2 & F2). clear H2. chain E0 E2.
    apply ret_ok in H. destruct H as [-> ->]. fin.
Qed.

Lemma h_truncate_ok fuel methods s u s' :
  good s -> h_truncate fuel methods s = Ok (u, s') -> good s' /\ ext s s'.
Proof.
  intros G H. unfold h_truncate in H.
  assert (Hne : forall s u s', good s ->
     (rs <- get_roots ;; nr <- alloc_arr rs ;; trunc_loop fuel nr methods ;;; set_root nr) s = Ok (u, s') ->
     good s' /\ HeapProofs.ext mark s s').
  { clear. intros s u s' G H.
    mbind H rs s1 H1. destruct (get_roots_ok _ _ _ G H1) as [-> F]. clear H1.
    mbind H nr s1 H1. destruct (alloc_arr_ok _ _ _ _ G F H1) as (G1 & E0 & V1 & L1 & _). clear H1.
    mbind H w1 s2 H2. destruct (trunc_loop_ok _ _ _ _ _ _ G1 L1 H2) as (G2 & E2). clear H2. chain E0 E2.
    destruct (set_root_ok _ _ _ _ G2 V1 H) as (G3 & E3). split; auto. eapply ext_trans; eauto. }
  destruct methods as [|m ms]; [|eauto].
  mbind H l s1 H1. destruct (new_empty_roots_ok _ _ _ _ G H1) as (G1 & E0 & F1). clear H1.
  mbind H nr s2 H2. destruct (alloc_arr_ok _ _ _ _ G1 F1 H2) as (G2 & E2 & V2 & L2 & _). clear H2. chain E0 E2.
  mbind H w1 s3 H3. destruct (set_root_ok _ _ _ _ G2 V2 H3) as (G3 & E3). clear H3. chain E0 E3.
  destruct (put_size_ok _ _ _ _ G3 H) as (G4 & E4). split; auto. eapply ext_trans; eauto.
Qed.

(* ---------- one operation of a write transaction ---------- *)
Lemma run_op_ok fuel o s res s' :
  good s -> run_op evict fuel o s = Ok (res, s') -> good s' /\ ext s s'.
Proof.
  intros G H. destruct o as [m pat valid psl hs rid|m pat valid psl hs rid|m pat valid|ms]; simpl in H.
  - destruct (negb (valid_method_handle m) || negb valid)%bool.
    + apply ret_ok in H. destruct H as [_ ->]. fin.
    + mbind H out s1 H1. destruct (h_insert_ok _ _ _ _ _ G H1) as (G1 & E1).
      destruct out as [|p|a].
      * apply ret_ok in H. destruct H as [_ ->]. fin.
      * apply ret_ok in H. destruct H as [_ ->]. fin.
      * mbind H rts s2 H2. apply h_routes_ok in H2. subst s2. apply ret_ok in H. destruct H as [_ ->]. fin.
  - destruct (is_nil m || negb valid)%bool.
    + apply ret_ok in H. destruct H as [_ ->]. fin.
    + mbind H b s1 H1. destruct (h_update_ok _ _ _ _ _ G H1) as (G1 & E1).
      apply ret_ok in H. destruct H as [_ ->]. fin.
  - destruct (is_nil m || negb valid)%bool.
    + apply ret_ok in H. destruct H as [_ ->]. fin.
    + mbind H r s1 H1. destruct (h_remove_ok _ _ _ _ _ G H1) as (G1 & E1).
      destruct r; apply ret_ok in H; destruct H as [_ ->]; fin.
  - mbind H u s1 H1. destruct (h_truncate_ok _ _ _ _ _ G H1) as (G1 & E1).
    apply ret_ok in H. destruct H as [_ ->]. fin.
Qed.

End Inv.

(* ================= Part 2: histories ================= *)

(* objects below m only point below m *)
Definition closed (m : addr) (s : st) : Prop :=
  (forall a o, a < m -> find_node s a = Some o -> n_arr o < m) /\
  (forall a l, a < m -> find_arr s a = Some l -> Forall (fun x => x < m) l).

Lemma closed_of_wf s : wf s -> closed (s_next s) s.
Proof.
  intros W. split.
  - intros a o _ H. apply (wf_node _ W _ _ H).
  - intros a l _ H. apply (wf_arr _ W _ _ H).
Qed.

Lemma closed_ext m s s' : closed m s -> ext m s s' -> closed m s'.
Proof.
  intros [C1 C2] E. split.
  - intros a o L H. rewrite (e_node _ _ _ E) in H by auto. eauto.
  - intros a l L H. rewrite (e_arr _ _ _ E) in H by auto. eauto.
Qed.

Lemma abs_node_frozen m s s' : closed m s -> ext m s s' ->
  forall f a, a < m -> abs_node f s' a = abs_node f s a.
Proof.
  intros [C1 C2] E. induction f as [|f IH]; intros a L; simpl; auto.
  rewrite (e_node _ _ _ E) by auto.
  destruct (find_node s a) as [o|] eqn:Ho; auto.
  pose proof (C1 _ _ L Ho) as La.
  rewrite (e_arr _ _ _ E) by auto.
  destruct (find_arr s (n_arr o)) as [ch|] eqn:Hch; auto.
  pose proof (C2 _ _ La Hch) as Fch.
  match goal with |- match ?x with _ => _ end = match ?y with _ => _ end => assert (X : x = y) end.
  { clear Hch. induction Fch as [|x t Hx Ft IHt]; auto. rewrite IH by auto. rewrite IHt. auto. }
  rewrite X. auto.
Qed.

Lemma abs_frozen m s s' f r : closed m s -> ext m s s' -> r < m -> abs f s' r = abs f s r.
Proof.
  intros C E L. unfold abs. rewrite (e_arr _ _ _ E) by auto.
  destruct (find_arr s r) as [l|] eqn:Hl; auto.
  pose proof (proj2 C _ _ L Hl) as Fl. clear Hl.
  induction Fl as [|x t Hx Ft IHt]; simpl; auto.
  rewrite (abs_node_frozen m s s' C E) by auto. rewrite IHt. auto.
Qed.

Record winv (m : addr) (w : world) : Prop := {
  wi_good : good m (w_st w);
  wi_closed : closed m (w_st w);
  wi_pub : p_root (w_pub w) < m;
  wi_handed : Forall (fun r => r < m) (w_handed w) }.

(* a new mark at a point where the writable set is empty *)
Lemma good_remark m s : good m s -> s_wr s = [] -> good (s_next s) s.
Proof. intros [W M Wr] Hw. constructor; auto. - lia. - rewrite Hw. auto. Qed.

Lemma good_reset_wr m s : good m s -> good m (reset_wr s) /\ ext m s (reset_wr s).
Proof. intros G. unfold reset_wr. apply good_set_wr; auto. Qed.

Lemma Forall_lt_weaken (m m' : addr) l : m <= m' -> Forall (fun r => r < m) l -> Forall (fun r => r < m') l.
Proof. intros L F. eapply Forall_impl; [|exact F]. simpl. intros; lia. Qed.

Lemma good_begin m s p c : good m s -> p_root p < m -> good m (begin_st s p c) /\ ext m s (begin_st s p c).
Proof.
  intros [W M Wr] L. split.
  - constructor; simpl; auto. destruct W as [wn wa wr]. constructor; auto. unfold V in *. simpl. lia.
  - apply ext_same_heap; auto.
Qed.

(* re-mark at the allocation pointer: a snapshot point *)
Lemma winv_remark m s pub handed opn :
  good m s -> s_wr s = [] -> p_root pub < s_next s -> Forall (fun r => r < s_next s) handed ->
  winv (s_next s) {| w_st := s; w_pub := pub; w_open := opn; w_handed := handed |}.
Proof.
  intros G Hw Lp Fh. constructor; simpl; auto.
  - eapply good_remark; eauto.
  - apply closed_of_wf. apply (g_wf _ _ G).
Qed.

Section Hist.
Variable evict : N -> list addr -> list addr.
Hypothesis evict_sub : forall c w a, In a (evict c w) -> In a w.
Variable fuel : nat.

Lemma step_inv m w e : winv m w ->
  exists m', m <= m' /\ winv m' (fst (fst (step evict fuel true w e))) /\
             ext m (w_st w) (w_st (fst (fst (step evict fuel true w e)))) /\
             (forall r, In r (w_handed w) -> In r (w_handed (fst (fst (step evict fuel true w e))))).
Proof.
  intros [G C Lp Fh]. destruct w as [s pub opn handed]. simpl in *.
  pose proof (g_mark _ _ G) as Mn.
  assert (Same : exists m', m <= m' /\ winv m' {| w_st := s; w_pub := pub; w_open := opn; w_handed := handed |} /\
                 ext m s s /\ (forall r, In r handed -> In r handed)).
  { exists m. split; [lia|]. split; [constructor; auto|]. split; [apply ext_refl|auto]. }
  destruct e as [| | |o|o| | |]; simpl.
  - (* EBegin *)
    destruct opn; simpl; auto.
    destruct (good_begin m s pub true G Lp) as (G1 & E1).
    exists m. split; [lia|]. split; [|split; auto].
    constructor; simpl; auto; try (eapply closed_ext; eauto).
  - (* ECommit *)
    destruct opn; simpl; auto.
    destruct (good_reset_wr m s G) as (G1 & E1).
    exists (s_next (reset_wr s)). split; [simpl; lia|]. split; [|split; auto].
    apply winv_remark with (m := m); simpl; auto.
    + apply (wf_root _ (g_wf _ _ G)).
    + eapply Forall_lt_weaken; [|exact Fh]. lia.
  - (* EAbort *)
    exists m. split; [lia|]. split; [constructor; auto|]. split; [apply ext_refl|auto].
  - (* EOp *)
    destruct opn; simpl; auto.
    destruct (run_op evict fuel o s) as [[[out rm] s']| |] eqn:R; simpl; auto.
    destruct (run_op_ok evict evict_sub m fuel o s _ _ G R) as (G1 & E1).
    exists m. split; [lia|]. split; [|split; auto].
    constructor; simpl; auto; try (eapply closed_ext; eauto).
  - (* EDirect *)
    destruct opn; simpl; auto.
    destruct (good_begin m s pub (direct_cache o) G Lp) as (G0 & E0).
    destruct (run_op evict fuel o (begin_st s pub (direct_cache o))) as [[[out rm] s']| |] eqn:R; simpl; auto.
    destruct (run_op_ok evict evict_sub m fuel o _ _ _ G0 R) as (G1 & E1).
    assert (E : ext m s s') by (eapply ext_trans; eauto).
    assert (Keep : exists m', m <= m' /\ winv m' {| w_st := s'; w_pub := pub; w_open := false; w_handed := handed |} /\
                   ext m s s' /\ (forall r, In r handed -> In r handed)).
    { exists m. split; [lia|]. split; [|split; auto]. constructor; simpl; auto; try (eapply closed_ext; eauto). }
    destruct out; simpl; auto.
    destruct (good_reset_wr m s' G1) as (G2 & E2).
    exists (s_next (reset_wr s')). pose proof (g_mark _ _ G1). split; [simpl; lia|]. split; [|split; auto].
    + apply winv_remark with (m := m); simpl; auto.
      * apply (wf_root _ (g_wf _ _ G1)).
      * eapply Forall_lt_weaken; [|exact Fh]. lia.
    + eapply ext_trans; eauto.
  - (* ESnapIter *)
    destruct opn; simpl; auto.
    destruct (good_reset_wr m s G) as (G1 & E1).
    exists (s_next (reset_wr s)). split; [simpl; lia|]. split; [|split; auto].
    + apply winv_remark with (m := m); simpl; auto.
      * lia.
      * apply Forall_app. split; [eapply Forall_lt_weaken; [|exact Fh]; lia|].
        constructor; auto. apply (wf_root _ (g_wf _ _ G)).
    + intros r Hr. apply in_or_app. auto.
  - (* ESnapClone *)
    destruct opn; simpl; auto.
    destruct (good_reset_wr m s G) as (G1 & E1).
    exists (s_next (reset_wr s)). split; [simpl; lia|]. split; [|split; auto].
    + apply winv_remark with (m := m); simpl; auto.
      * lia.
      * apply Forall_app. split; [eapply Forall_lt_weaken; [|exact Fh]; lia|].
        constructor; auto. apply (wf_root _ (g_wf _ _ G)).
    + intros r Hr. apply in_or_app. auto.
  - (* EObsPub *)
    exists m. split; [lia|]. split; [|split; [apply ext_refl|]].
    + constructor; simpl; auto. apply Forall_app. auto.
    + intros r Hr. apply in_or_app. auto.
Qed.

Lemma run_inv es : forall m w, winv m w ->
  exists m', m <= m' /\ winv m' (run evict fuel true w es) /\
             ext m (w_st w) (w_st (run evict fuel true w es)) /\
             (forall r, In r (w_handed w) -> In r (w_handed (run evict fuel true w es))).
Proof.
  induction es as [|e r IH]; intros m w I; simpl.
  - exists m. split; [lia|]. split; auto. split; [apply ext_refl|auto].
  - destruct (step_inv m w e I) as (m1 & L1 & I1 & E1 & H1).
    destruct (IH _ _ I1) as (m2 & L2 & I2 & E2 & H2).
    exists m2. split; [lia|]. split; auto. split; auto.
    eapply ext_trans; [exact E1|]. eapply ext_weaken; eauto.
Qed.

End Hist.

(* ---------- the initial router ---------- *)
Lemma init_run :
  (l <- new_empty_roots common_verbs ;; nr <- alloc_arr l ;; set_root nr) empty_st = Ok (tt, init_st).
Proof. vm_compute. reflexivity. Qed.

Lemma good_empty : good 1 empty_st.
Proof.
  constructor; simpl; auto; try lia. constructor; unfold V, find_node, find_arr; simpl.
  - intros a o H. rewrite PM.gempty in H. discriminate.
  - intros a l H. rewrite PM.gempty in H. discriminate.
  - lia.
Qed.

Lemma good_init : good 1 init_st.
Proof.
  pose proof init_run as H.
  mbind H l s1 H1. destruct (new_empty_roots_ok 1 _ _ _ _ good_empty H1) as (G1 & E1 & F1).
  mbind H nr s2 H2. destruct (alloc_arr_ok 1 _ _ _ _ G1 F1 H2) as (G2 & E2 & V2 & _).
  destruct (set_root_ok 1 _ _ _ _ G2 V2 H) as (G3 & _). exact G3.
Qed.

Lemma winv_init : winv (s_next init_st) init_world.
Proof.
  unfold init_world. apply winv_remark with (m := 1); auto.
  - apply good_init.
  - simpl. apply (wf_root _ (g_wf _ _ good_init)).
Qed.

(* ================= the theorems of C03 (statements repeated in Props_C03.v) ================= *)

Definition evict_ok (evict : N -> list addr -> list addr) : Prop := forall c w a, In a (evict c w) -> In a w.

(* ownership invariant, one operation: nothing allocated before the mark changes, and every
   in-place write (log) targets an address at or after the mark *)
Theorem writes_only_fresh_op evict fuel mark o s res s' :
  evict_ok evict -> good mark s -> run_op evict fuel o s = Ok (res, s') ->
  good mark s' /\
  (forall a, a < mark -> find_node s' a = find_node s a /\ find_arr s' a = find_arr s a) /\
  (exists l, s_log s' = (l ++ s_log s)%list /\ Forall (fun t => mark <= t) l).
Proof.
  intros Hev G H. destruct (run_op_ok evict Hev mark fuel o s res s' G H) as (G1 & E1).
  split; auto. split.
  - intros a L. split; [apply (e_node _ _ _ E1)|apply (e_arr _ _ _ E1)]; auto.
  - apply (e_log _ _ _ E1).
Qed.

(* histories: at any point there is a mark m (the allocation pointer at the last snapshot point) such
   that every roots array handed out so far and everything reachable from it lies below m, and every
   later in-place write targets an address >= m *)
Theorem writes_only_fresh_hist evict fuel es1 es2 :
  evict_ok evict ->
  let w1 := run evict fuel true init_world es1 in
  let w2 := run evict fuel true w1 es2 in
  exists m, Forall (fun r => r < m) (w_handed w1) /\ closed m (w_st w1) /\
            exists l, s_log (w_st w2) = (l ++ s_log (w_st w1))%list /\ Forall (fun t => m <= t) l.
Proof.
  intros Hev w1 w2.
  destruct (run_inv evict Hev fuel es1 _ _ winv_init) as (m1 & L1 & I1 & _ & _).
  destruct (run_inv evict Hev fuel es2 _ _ I1) as (m2 & L2 & I2 & E2 & _).
  exists m1. split; [apply (wi_handed _ _ I1)|]. split; [apply (wi_closed _ _ I1)|]. apply (e_log _ _ _ E2).
Qed.

Theorem snapshot_frozen_thm evict fuel es1 es2 r f :
  evict_ok evict ->
  let w1 := run evict fuel true init_world es1 in
  let w2 := run evict fuel true w1 es2 in
  In r (w_handed w1) -> abs f (w_st w2) r = abs f (w_st w1) r.
Proof.
  intros Hev w1 w2 Hr.
  destruct (run_inv evict Hev fuel es1 _ _ winv_init) as (m1 & L1 & I1 & _ & _).
  destruct (run_inv evict Hev fuel es2 _ _ I1) as (m2 & L2 & I2 & E2 & _).
  eapply abs_frozen; [apply (wi_closed _ _ I1)|exact E2|].
  pose proof (wi_handed _ _ I1) as F. rewrite Forall_forall in F. auto.
Qed.

Lemma run_app evict fuel b w es1 es2 : run evict fuel b w (es1 ++ es2) = run evict fuel b (run evict fuel b w es1) es2.
Proof. revert w. induction es1 as [|e r IH]; intros w; simpl; auto. Qed.

(* the list of handed-out roots is only a record: it does not influence the run *)
Definition same_core (w w' : world) : Prop := w_st w = w_st w' /\ w_pub w = w_pub w' /\ w_open w = w_open w'.

Lemma step_core evict fuel b w w' e : same_core w w' ->
  same_core (fst (fst (step evict fuel b w e))) (fst (fst (step evict fuel b w' e))).
Proof.
  intros (Hs & Hp & Ho). destruct w as [s p o h], w' as [s' p' o' h']. simpl in *. subst s' p' o'.
  unfold same_core. destruct e; simpl; try (destruct o; simpl); auto;
    repeat match goal with |- context [match ?x with _ => _ end] => destruct x; simpl; auto end.
Qed.

Lemma run_core evict fuel b es : forall w w', same_core w w' ->
  same_core (run evict fuel b w es) (run evict fuel b w' es).
Proof. induction es as [|e r IH]; intros w w' H; simpl; auto. apply IH. apply step_core. auto. Qed.

(* the published tree at any point is such a snapshot (what requests are served from) *)
Theorem published_frozen_thm evict fuel es1 es2 f :
  evict_ok evict ->
  let w1 := run evict fuel true init_world es1 in
  let w2 := run evict fuel true w1 es2 in
  abs f (w_st w2) (p_root (w_pub w1)) = abs f (w_st w1) (p_root (w_pub w1)).
Proof.
  intros Hev w1 w2.
  pose proof (snapshot_frozen_thm evict fuel (es1 ++ [EObsPub]) es2 (p_root (w_pub w1)) f Hev) as H.
  rewrite run_app in H. simpl in H. fold w1 in H.
  match type of H with _ -> abs _ (w_st (run _ _ _ ?w _)) _ = _ =>
    assert (C : same_core w w1) by (unfold same_core; simpl; auto) end.
  apply (run_core evict fuel true es2) in C. destruct C as (Cs & _). fold w2 in Cs.
  rewrite Cs in H. apply H. apply in_or_app. simpl. auto.
Qed.

(* the roots of the open write transaction at any point, IF a snapshot is taken there *)

(* ---------- what the reset protects against ----------
   The same model WITHOUT `t.writable = nil` in snapshot(): Begin; Handle GET /a; Iter(); Handle GET /b.
   The second Handle finds the new GET root in the writable set and patches its children array in
   place; the Iter taken in between now shows /b as well. *)
Definition refute_hist1 : list ev :=
  [EBegin; EOp (WHandle m_get (S2B "/a") true 0 0 1); ESnapIter].
Definition refute_hist2 : list ev := [EOp (WHandle m_get (S2B "/b") true 0 0 2)].

Example snapshot_frozen_needs_reset :
  let ev := lru_evict 10 in
  let w1 := run ev 10 false init_world refute_hist1 in
  let w2 := run ev 10 false w1 refute_hist2 in
  exists r, In r (w_handed w1) /\ abs 10 (w_st w2) r <> abs 10 (w_st w1) r.
Proof.
  intros ev w1 w2. exists (s_root (w_st w1)). split.
  - vm_compute. left. reflexivity.
  - vm_compute. discriminate.
Qed.

(* and the same history with the code as it is keeps the snapshot (non-vacuity of the theorem) *)
Example snapshot_frozen_example :
  let ev := lru_evict 10 in
  let w1 := run ev 10 true init_world refute_hist1 in
  let w2 := run ev 10 true w1 refute_hist2 in
  w_handed w1 <> [] /\ abs 10 (w_st w2) (s_root (w_st w1)) = abs 10 (w_st w1) (s_root (w_st w1)) /\
  abs 10 (w_st w2) (s_root (w_st w2)) <> abs 10 (w_st w1) (s_root (w_st w1)).
Proof. vm_compute. split; [discriminate|]. split; [reflexivity|discriminate]. Qed.

Lemma lru_evict_ok cap : evict_ok (lru_evict cap).
Proof.
  unfold evict_ok, lru_evict. intros _ w a H. revert w H. induction cap as [|n IH]; intros [|x w]; simpl; try tauto.
  intros [->|H]; auto.
Qed.

(* ================= Part 3: the heap operations refine the pure ones ================= *)

Definition all3 {A B C} (R : A -> B -> C -> Prop) :=
  fix go (la : list A) (lb : list B) (lc : list C) {struct lb} : Prop :=
    match la, lb, lc with
    | [], [], [] => True
    | a :: la', b :: lb', c :: lc' => R a b c /\ go la' lb' lc'
    | _, _, _ => False
    end.

(* rep s a n fp: the node object at a represents the pure tree n; fp = the node and array addresses used *)
Fixpoint rep (s : st) (a : addr) (n : node) (fp : list addr) {struct n} : Prop :=
  match n with
  | Node k r kids =>
      exists o ch fps,
        find_node s a = Some o /\ n_key o = k /\ n_route o = r /\
        find_arr s (n_arr o) = Some ch /\
        all3 (fun c kd f => rep s c kd f) ch kids fps /\
        fp = a :: n_arr o :: List.concat fps
  end.
Definition reps (s : st) := all3 (fun c kd f => rep s c kd f).

Lemma node_ind2 (P : node -> Prop) :
  (forall k r kids, Forall P kids -> P (Node k r kids)) -> forall n, P n.
Proof. intros H. fix IH 1. intros [k r kids]. apply H. induction kids; constructor; auto. Qed.

(* ---------- all3 ---------- *)
Section All3.
Context {A B C : Type}.
Variable R : A -> B -> C -> Prop.

Lemma all3_len la lb lc : all3 R la lb lc -> List.length la = List.length lb /\ List.length lc = List.length lb.
Proof.
  revert la lc. induction lb as [|b lb IH]; intros [|a la] [|c lc] H; simpl in *; try tauto.
  destruct H as [_ H]. destruct (IH _ _ H). split; congruence.
Qed.

Lemma all3_nth la lb lc i b : all3 R la lb lc -> nth_error lb i = Some b ->
  exists a c, nth_error la i = Some a /\ nth_error lc i = Some c /\ R a b c.
Proof.
  revert la lc i. induction lb as [|b0 lb IH]; intros [|a la] [|c lc] i H Hi; simpl in *; try tauto;
    try (destruct i; discriminate).
  destruct H as [H0 H]. destruct i as [|i]; simpl in *.
  - inversion Hi; subst. eauto.
  - eauto.
Qed.

Lemma all3_nth_a la lb lc i a : all3 R la lb lc -> nth_error la i = Some a ->
  exists b c, nth_error lb i = Some b /\ nth_error lc i = Some c /\ R a b c.
Proof.
  revert la lc i. induction lb as [|b0 lb IH]; intros [|a0 la] [|c lc] i H Hi; simpl in *; try tauto;
    try (destruct i; discriminate).
  destruct H as [H0 H]. destruct i as [|i]; simpl in *.
  - inversion Hi; subst. eauto.
  - eauto.
Qed.

Lemma all3_set la lb lc i a b c : all3 R la lb lc -> R a b c ->
  all3 R (set_nth la i a) (set_nth lb i b) (set_nth lc i c).
Proof.
  revert la lc i. induction lb as [|b0 lb IH]; intros [|a0 la] [|c0 lc] i H Hr; simpl in *; try tauto;
    destruct i as [|i]; simpl; try tauto.
  destruct H as [H0 H]. split; auto.
Qed.

Lemma all3_app la lb lc la' lb' lc' : all3 R la lb lc -> all3 R la' lb' lc' ->
  all3 R (la ++ la') (lb ++ lb') (lc ++ lc').
Proof.
  revert la lc. induction lb as [|b0 lb IH]; intros [|a0 la] [|c0 lc] H H'; simpl in *; try tauto.
  destruct H. split; auto.
Qed.

Lemma all3_del la lb lc i : all3 R la lb lc -> all3 R (del_nth la i) (del_nth lb i) (del_nth lc i).
Proof.
  revert la lc i. induction lb as [|b0 lb IH]; intros [|a0 la] [|c0 lc] i H; simpl in *; try tauto;
    destruct i as [|i]; simpl; try tauto.
  destruct H as [H0 H]. split; auto.
Qed.
End All3.

Lemma all3_impl {A B C} (R R' : A -> B -> C -> Prop) la lb lc :
  all3 R la lb lc -> (forall a b c, In a la -> In b lb -> In c lc -> R a b c -> R' a b c) -> all3 R' la lb lc.
Proof.
  revert la lc. induction lb as [|b0 lb IH]; intros [|a0 la] [|c0 lc] H Hi; simpl in *; try tauto.
  destruct H as [H0 H]. split.
  - apply Hi; auto.
  - apply IH; auto; intros; apply Hi; simpl; auto.
Qed.

(* ---------- rep: unfolding, frame, bounds ---------- *)
Lemma rep_unfold s a k r kids fp :
  rep s a (Node k r kids) fp <->
  exists o ch fps, find_node s a = Some o /\ n_key o = k /\ n_route o = r /\
                   find_arr s (n_arr o) = Some ch /\ reps s ch kids fps /\ fp = a :: n_arr o :: List.concat fps.
Proof. reflexivity. Qed.

Definition same_at (s s' : st) (x : addr) : Prop := find_node s' x = find_node s x /\ find_arr s' x = find_arr s x.

Lemma in_lconcat_nth {A} (l : list (list A)) x f i : nth_error l i = Some f -> In x f -> In x (List.concat l).
Proof. intros H Hx. apply in_concat. exists f. split; auto. eapply nth_error_In; eauto. Qed.

Lemma rep_frame s s' : forall n a fp, rep s a n fp -> (forall x, In x fp -> same_at s s' x) -> rep s' a n fp.
Proof.
  induction n as [k r kids IH] using node_ind2. intros a fp H Hs.
  apply rep_unfold in H. destruct H as (o & ch & fps & Ho & Hk & Hr & Hch & Hkids & ->).
  apply rep_unfold. exists o, ch, fps.
  destruct (Hs a) as [E1 _]; [simpl; auto|].
  destruct (Hs (n_arr o)) as [_ E2]; [simpl; auto|].
  repeat split; try congruence.
  assert (Hs' : forall x, In x (List.concat fps) -> same_at s s' x) by (intros x Hx; apply Hs; simpl; auto).
  clear Hs Ho Hch E1 E2. unfold reps in *.
  revert ch fps Hkids Hs'. induction IH as [|kd kids Hkd Hrest IHk]; intros [|c ch] [|f fps] Hkids Hs'; simpl in *; try tauto.
  destruct Hkids as [H1 H2]. split.
  - apply Hkd; auto. intros x Hx. apply Hs'. apply in_or_app. auto.
  - apply IHk; auto. intros x Hx. apply Hs'. apply in_or_app. auto.
Qed.

Lemma reps_frame s s' ch kids fps : reps s ch kids fps -> (forall x, In x (List.concat fps) -> same_at s s' x) -> reps s' ch kids fps.
Proof.
  unfold reps. revert ch fps. induction kids as [|kd kids IH]; intros [|c ch] [|f fps] H Hs; simpl in *; try tauto.
  destruct H as [H1 H2]. split.
  - eapply rep_frame; eauto. intros x Hx. apply Hs. apply in_or_app. auto.
  - apply IH; auto. intros x Hx. apply Hs. apply in_or_app. auto.
Qed.

Lemma rep_lt s : wf s -> forall n a fp, rep s a n fp -> Forall (V s) fp.
Proof.
  intros W. induction n as [k r kids IH] using node_ind2. intros a fp H.
  apply rep_unfold in H. destruct H as (o & ch & fps & Ho & Hk & Hr & Hch & Hkids & ->).
  destruct (wf_node _ W _ _ Ho) as [Va Varr]. constructor; auto. constructor; auto.
  clear Ho Hch Va Varr. unfold reps in *.
  revert ch fps Hkids. induction IH as [|kd kids Hkd Hrest IHk]; intros [|c ch] [|f fps] Hkids; simpl in *; try tauto; auto.
  destruct Hkids as [H1 H2]. apply Forall_app. split; eauto.
Qed.

Lemma reps_lt s ch kids fps : wf s -> reps s ch kids fps -> Forall (V s) (List.concat fps).
Proof.
  intros W. unfold reps. revert ch fps. induction kids as [|kd kids IH]; intros [|c ch] [|f fps] H; simpl in *; try tauto; auto.
  destruct H as [H1 H2]. apply Forall_app. split; eauto using rep_lt.
Qed.

Lemma rep_key s a n fp : rep s a n fp -> exists o, find_node s a = Some o /\ n_key o = nkey n /\ n_route o = nroute n.
Proof. destruct n as [k r kids]. intros H. apply rep_unfold in H. destruct H as (o & ch & fps & Ho & Hk & Hr & _). eauto. Qed.

Lemma rep_head s a n fp : rep s a n fp -> exists t, fp = a :: t.
Proof. destruct n as [k r kids]. intros H. apply rep_unfold in H. destruct H as (o & ch & fps & _ & _ & _ & _ & _ & ->). eauto. Qed.

(* ---------- reading keys and edges through rep ---------- *)
Lemma keys_of_reps s ch kids fps : reps s ch kids fps -> keys_of ch s = Ok (map nkey kids, s).
Proof.
  unfold reps. revert ch fps. induction kids as [|kd kids IH]; intros [|c ch] [|f fps] H; simpl in *; try tauto.
  destruct H as [H1 H2]. destruct (rep_key _ _ _ _ H1) as (o & Ho & Hk & _).
  unfold bind, key_of, get_node, bind. unfold find_node in Ho. rewrite Ho. unfold ret. simpl.
  rewrite (IH _ _ H2). rewrite Hk. reflexivity.
Qed.

Lemma find_idx_child i c kids : find_idx_from i c (map nkey kids) = find_child_from i c kids.
Proof. revert i. induction kids as [|k kids IH]; intros i; simpl; auto. destruct (starts_with c (nkey k)); auto. Qed.

(* ---------- list facts ---------- *)
Lemma nth_set_nth_eq {A} (l : list A) i v x : nth_error l i = Some x -> nth_error (set_nth l i v) i = Some v.
Proof. revert i. induction l as [|y l IH]; intros [|i] H; simpl in *; try discriminate; auto. Qed.
Lemma nth_set_nth_ne {A} (l : list A) i k v : i <> k -> nth_error (set_nth l i v) k = nth_error l k.
Proof. revert i k. induction l as [|y l IH]; intros [|i] [|k] H; simpl in *; auto; try congruence. Qed.
Lemma set_nth_len {A} (l : list A) i v : List.length (set_nth l i v) = List.length l.
Proof. revert i. induction l as [|y l IH]; intros [|i]; simpl; auto. Qed.
Lemma set_nth_same {A} (l : list A) i x : nth_error l i = Some x -> set_nth l i x = l.
Proof. revert i. induction l as [|y l IH]; intros [|i] H; simpl in *; try discriminate; auto.
  - inversion H; auto. - f_equal; auto. Qed.
Lemma set_nth_replace (l : list node) i v : set_nth l i v = replace_nth l i v.
Proof. revert i. induction l as [|y l IH]; intros [|i]; simpl; auto. f_equal; auto. Qed.
Lemma del_nth_remove (l : list node) i : del_nth l i = remove_nth l i.
Proof. revert i. induction l as [|y l IH]; intros [|i]; simpl; auto. f_equal; auto. Qed.

Lemma in_concat_set_nth {A} (l : list (list A)) j f' x :
  In x (List.concat (set_nth l j f')) -> In x f' \/ In x (List.concat l).
Proof.
  revert j. induction l as [|g l IH]; intros [|j] Hx; simpl in *; try tauto.
  - apply in_app_or in Hx. destruct Hx; auto. right. apply in_or_app. auto.
  - apply in_app_or in Hx. destruct Hx as [Hx|Hx].
    + right. apply in_or_app. auto.
    + destruct (IH _ Hx); auto. right. apply in_or_app. auto.
Qed.

Lemma NoDup_app_inv {A} (l1 l2 : list A) : NoDup (l1 ++ l2) -> NoDup l1 /\ NoDup l2 /\ (forall x, In x l1 -> ~ In x l2).
Proof.
  induction l1 as [|a l1 IH]; simpl; intros H.
  - split; [constructor|]. split; auto.
  - inversion H; subst. destruct (IH H3) as (N1 & N2 & D). split.
    + constructor; auto. intros Hi. apply H2. apply in_or_app. auto.
    + split; auto. intros x [->|Hx]; auto. intros Hi. apply H2. apply in_or_app. auto.
Qed.
Lemma NoDup_app_intro {A} (l1 l2 : list A) : NoDup l1 -> NoDup l2 -> (forall x, In x l1 -> ~ In x l2) -> NoDup (l1 ++ l2).
Proof.
  induction l1 as [|a l1 IH]; simpl; intros N1 N2 D; auto.
  inversion N1; subst. constructor.
  - intros Hi. apply in_app_or in Hi. destruct Hi; auto. apply (D a); auto.
  - apply IH; auto.
Qed.

(* replacing the j-th block by one made of elements of the old block and elements foreign to the whole list *)
Lemma NoDup_concat_set_nth {A} (l : list (list A)) j f f' :
  NoDup (List.concat l) -> nth_error l j = Some f -> NoDup f' ->
  (forall x, In x f' -> In x f \/ ~ In x (List.concat l)) ->
  NoDup (List.concat (set_nth l j f')).
Proof.
  revert j. induction l as [|g l IH]; intros [|j] N H N' S; simpl in *; try discriminate.
  - inversion H; subst. apply NoDup_app_inv in N. destruct N as (N1 & N2 & D).
    apply NoDup_app_intro; auto. intros x Hx Hl. destruct (S x Hx) as [Hf|Hn].
    + apply (D x); auto.
    + apply Hn. apply in_or_app. auto.
  - apply NoDup_app_inv in N. destruct N as (N1 & N2 & D).
    apply NoDup_app_intro; auto.
    + apply IH; auto. intros x Hx. destruct (S x Hx) as [Hf|Hn]; auto.
      right. intros Hi. apply Hn. apply in_or_app. auto.
    + intros x Hg Hx. destruct (in_concat_set_nth _ _ _ _ Hx) as [Hf'|Hr].
      * destruct (S x Hf') as [Hf|Hn].
        -- apply (D x); auto. eapply in_lconcat_nth; eauto.
        -- apply Hn. apply in_or_app. auto.
      * apply (D x); auto.
Qed.

Lemma in_concat_set_nth_r {A} (l : list (list A)) j f' x k g :
  k <> j -> nth_error l k = Some g -> In x g -> In x (List.concat (set_nth l j f')).
Proof.
  intros Hk Hg Hx. apply (in_lconcat_nth _ x g k); auto. rewrite nth_set_nth_ne; auto.
Qed.

(* distinct blocks of a duplicate-free concatenation are disjoint *)
Lemma NoDup_concat_disj {A} (l : list (list A)) i j f g x :
  NoDup (List.concat l) -> i <> j -> nth_error l i = Some f -> nth_error l j = Some g -> In x f -> ~ In x g.
Proof.
  revert i j. induction l as [|h l IH]; intros [|i] [|j] N Hij Hf Hg Hx; simpl in *; try discriminate; try congruence.
  - inversion Hf; subst. apply NoDup_app_inv in N. destruct N as (_ & _ & D). intros Hi. apply (D x); auto.
    eapply in_lconcat_nth; eauto.
  - inversion Hg; subst. apply NoDup_app_inv in N. destruct N as (_ & _ & D). intros Hi. apply (D x); auto.
    eapply in_lconcat_nth; eauto.
  - apply NoDup_app_inv in N. destruct N as (_ & N2 & _). apply (IH i j); auto.
Qed.
Lemma NoDup_concat_nth {A} (l : list (list A)) i f : NoDup (List.concat l) -> nth_error l i = Some f -> NoDup f.
Proof.
  revert i. induction l as [|h l IH]; intros [|i] N Hf; simpl in *; try discriminate.
  - inversion Hf; subst. apply NoDup_app_inv in N. tauto.
  - apply NoDup_app_inv in N. destruct N as (_ & N2 & _). eauto.
Qed.

(* ---------- sorting: the in-place sort of newNode vs Node.sort_nodes ---------- *)
From Coq Require Import Permutation.

Lemma nat_N_ltb (x y : ascii) : Nat.ltb (nat_of_ascii x) (nat_of_ascii y) = N.ltb (N_of_ascii x) (N_of_ascii y).
Proof.
  unfold nat_of_ascii. destruct (N.ltb_spec (N_of_ascii x) (N_of_ascii y)) as [H|H];
    destruct (Nat.ltb_spec (N.to_nat (N_of_ascii x)) (N.to_nat (N_of_ascii y))) as [H'|H']; auto; lia.
Qed.

Lemma key_ltb_eq a b : key_ltb a b = bytes_ltb a b.
Proof.
  revert b. induction a as [|x a IH]; intros [|y b]; simpl; auto.
  rewrite !nat_N_ltb. destruct (N.ltb _ _); auto. destruct (N.ltb _ _); auto.
Qed.

Section SortAll3.
Context {C : Type}.
Variable R : addr -> node -> C -> Prop.

(* insertion into three parallel lists, driven by the node keys *)
Fixpoint ins3 (a : addr) (b : node) (c : list addr) (la : list addr) (lb : list node) (lc : list (list addr))
  : list addr * list node * list (list addr) :=
  match la, lb, lc with
  | a0 :: la', b0 :: lb', c0 :: lc' =>
      if bytes_ltb (nkey b0) (nkey b) then let '(x, y, z) := ins3 a b c la' lb' lc' in (a0 :: x, b0 :: y, c0 :: z)
      else (a :: la, b :: lb, c :: lc)
  | _, _, _ => ([a], [b], [c])
  end.
End SortAll3.

Lemma snd_combine {A B} (la : list A) (lb : list B) : List.length la = List.length lb -> map snd (combine la lb) = lb.
Proof. revert lb. induction la as [|a la IH]; intros [|b lb] H; simpl in *; try discriminate; auto. f_equal; auto. Qed.

Lemma ins3_spec (R : addr -> node -> list addr -> Prop) a b c : forall la lb lc,
  all3 R la lb lc -> R a b c ->
  let '(x, y, z) := ins3 a b c la lb lc in
  all3 R x y z /\ y = insert_sorted b lb /\
  combine (map nkey y) x = ins_sorted (nkey b, a) (combine (map nkey lb) la) /\
  Permutation (List.concat z) (c ++ List.concat lc).
Proof.
  intros la lb. revert la. induction lb as [|b0 lb IH]; intros [|a0 la] [|c0 lc] H Hr; simpl in *; try tauto.
  - repeat split; auto.
  - destruct H as [H0 H]. rewrite key_ltb_eq. destruct (bytes_ltb (nkey b0) (nkey b)) eqn:Hlt.
    + specialize (IH la lc H Hr). destruct (ins3 a b c la lb lc) as [[x y] z].
      destruct IH as (I1 & I2 & I3 & I4). simpl. repeat split; auto; try congruence.
      rewrite I4. rewrite !app_assoc. apply Permutation_app_tail. apply Permutation_app_comm.
    + simpl. repeat split; auto.
Qed.

Fixpoint sort3 (la : list addr) (lb : list node) (lc : list (list addr)) : list addr * list node * list (list addr) :=
  match la, lb, lc with
  | a :: la', b :: lb', c :: lc' => let '(x, y, z) := sort3 la' lb' lc' in ins3 a b c x y z
  | _, _, _ => ([], [], [])
  end.

Lemma sort3_spec (R : addr -> node -> list addr -> Prop) : forall la lb lc,
  all3 R la lb lc ->
  let '(x, y, z) := sort3 la lb lc in
  all3 R x y z /\ y = sort_nodes lb /\
  combine (map nkey y) x = sort_pairs (combine (map nkey lb) la) /\
  Permutation (List.concat z) (List.concat lc).
Proof.
  intros la lb. revert la. induction lb as [|b lb IH]; intros [|a la] [|c lc] H; simpl in *; try tauto.
  - repeat split; auto.
  - destruct H as [H0 H]. specialize (IH la lc H). destruct (sort3 la lb lc) as [[x y] z].
    destruct IH as (I1 & I2 & I3 & I4).
    pose proof (ins3_spec R a b c x y z I1 H0) as S. destruct (ins3 a b c x y z) as [[x' y'] z'].
    destruct S as (S1 & S2 & S3 & S4). repeat split; auto.
    + rewrite S2, I2. reflexivity.
    + rewrite S3, I3. reflexivity.
    + rewrite S4. apply Permutation_app_head. auto.
Qed.

(* the form used for newNode: the sorted address list, the sorted children, and a permuted footprint list *)
Lemma sort_reps s la lb lc : reps s la lb lc ->
  exists lc', reps s (map snd (sort_pairs (combine (map nkey lb) la))) (sort_nodes lb) lc' /\
              Permutation (List.concat lc') (List.concat lc).
Proof.
  intros H. pose proof (sort3_spec _ la lb lc H) as S. destruct (sort3 la lb lc) as [[x y] z].
  destruct S as (S1 & S2 & S3 & S4). exists z. subst y. split; auto.
  rewrite <- S3. rewrite snd_combine; auto.
  destruct (all3_len _ _ _ _ S1) as [L1 L2]. rewrite map_length. auto.
Qed.

(* ---------- exact effects of the primitives ---------- *)
Definition meta_same (s s' : st) : Prop :=
  s_root s' = s_root s /\ s_size s' = s_size s /\ s_maxp s' = s_maxp s /\ s_depth s' = s_depth s /\ s_cache s' = s_cache s.
Definition heap_same (s s' : st) : Prop := s_nodes s' = s_nodes s /\ s_arrs s' = s_arrs s /\ s_next s' = s_next s.

Lemma meta_same_refl s : meta_same s s. Proof. unfold meta_same. tauto. Qed.
Lemma meta_same_trans s1 s2 s3 : meta_same s1 s2 -> meta_same s2 s3 -> meta_same s1 s3.
Proof. unfold meta_same. intros (a&b&c&d&e) (a'&b'&c'&d'&e'). repeat split; congruence. Qed.

Lemma heap_same_at s s' x : heap_same s s' -> same_at s s' x.
Proof. intros (Hn & Ha & _). unfold same_at, find_node, find_arr. rewrite Hn, Ha. auto. Qed.

(* writes are confined to W and to addresses allocated after s *)
Definition frame (s s' : st) (W : list addr) : Prop :=
  s_next s <= s_next s' /\ forall x, x < s_next s -> ~ In x W -> same_at s s' x.

Lemma frame_refl s W : frame s s W.
Proof. split; [lia|]. intros. split; auto. Qed.
Lemma frame_heap_same s s' W : heap_same s s' -> frame s s' W.
Proof. intros H. split; [destruct H as (_ & _ & ->); lia|]. intros. apply heap_same_at; auto. Qed.
Lemma same_at_trans s1 s2 s3 x : same_at s1 s2 x -> same_at s2 s3 x -> same_at s1 s3 x.
Proof. unfold same_at. intros [a b] [c d]. split; congruence. Qed.
Lemma frame_trans s s1 s2 W W1 W2 :
  frame s s1 W1 -> frame s1 s2 W2 ->
  (forall x, x < s_next s -> In x W1 \/ In x W2 -> In x W) -> frame s s2 W.
Proof.
  intros [L1 F1] [L2 F2] S. split; [lia|]. intros x Lx Nx.
  eapply same_at_trans; [apply F1|apply F2]; auto; try lia; intros Hi; apply Nx; apply S; auto.
Qed.

Lemma alloc_node_eff o s a s' : alloc_node o s = Ok (a, s') ->
  a = s_next s /\ s_next s' = Pos.succ (s_next s) /\ find_node s' a = Some o /\
  (forall x, x <> a -> find_node s' x = find_node s x) /\ (forall x, find_arr s' x = find_arr s x) /\ meta_same s s'.
Proof.
  unfold alloc_node. intros H. inversion H; subst; clear H. unfold find_node, find_arr, meta_same. simpl.
  repeat split; auto. - apply pm_gss. - intros x Hx. apply pm_gso. auto.
Qed.
Lemma alloc_arr_eff l s a s' : alloc_arr l s = Ok (a, s') ->
  a = s_next s /\ s_next s' = Pos.succ (s_next s) /\ find_arr s' a = Some l /\
  (forall x, x <> a -> find_arr s' x = find_arr s x) /\ (forall x, find_node s' x = find_node s x) /\ meta_same s s'.
Proof.
  unfold alloc_arr. intros H. inversion H; subst; clear H. unfold find_node, find_arr, meta_same. simpl.
  repeat split; auto. - apply pm_gss. - intros x Hx. apply pm_gso. auto.
Qed.
Lemma write_slot_eff a i v s u s' : write_slot a i v s = Ok (u, s') ->
  exists l, find_arr s a = Some l /\ (i < List.length l)%nat /\ find_arr s' a = Some (set_nth l i v) /\
  (forall x, x <> a -> find_arr s' x = find_arr s x) /\ (forall x, find_node s' x = find_node s x) /\
  s_next s' = s_next s /\ meta_same s s'.
Proof.
  unfold write_slot. intros H. destruct (PM.find a (s_arrs s)) as [l|] eqn:Hl; [|discriminate].
  destruct (Nat.ltb_spec i (List.length l)); [|discriminate]. inversion H; subst; clear H.
  exists l. unfold find_node, find_arr, meta_same. simpl. repeat split; auto. - apply pm_gss. - intros x Hx. apply pm_gso. auto.
Qed.
Lemma write_arr_eff a l' s u s' : write_arr a l' s = Ok (u, s') ->
  (exists l, find_arr s a = Some l) /\ find_arr s' a = Some l' /\
  (forall x, x <> a -> find_arr s' x = find_arr s x) /\ (forall x, find_node s' x = find_node s x) /\
  s_next s' = s_next s /\ meta_same s s'.
Proof.
  unfold write_arr. intros H. destruct (PM.find a (s_arrs s)) as [l|] eqn:Hl; [|discriminate].
  inversion H; subst; clear H.
  unfold find_node, find_arr, meta_same. simpl. repeat split; eauto. - apply pm_gss. - intros x Hx. apply pm_gso. auto.
Qed.
Lemma set_key_eff a k s u s' : set_key a k s = Ok (u, s') ->
  exists o, find_node s a = Some o /\ find_node s' a = Some {| n_key := k; n_route := n_route o; n_arr := n_arr o |} /\
  (forall x, x <> a -> find_node s' x = find_node s x) /\ (forall x, find_arr s' x = find_arr s x) /\
  s_next s' = s_next s /\ meta_same s s'.
Proof.
  unfold set_key. intros H. destruct (PM.find a (s_nodes s)) as [o|] eqn:Ho; [|discriminate].
  inversion H; subst; clear H. exists o.
  unfold find_node, find_arr, meta_same. simpl. repeat split; auto. - apply pm_gss. - intros x Hx. apply pm_gso. auto.
Qed.

Lemma w_get_eff ev a s b s' : w_get ev a s = Ok (b, s') -> heap_same s s' /\ meta_same s s'.
Proof. unfold w_get. intros H. destruct (take_out a (s_wr s)); inversion H; subst; unfold heap_same, meta_same; simpl; tauto. Qed.
Lemma w_add_if_cache_eff ev a s u s' : w_add_if_cache ev a s = Ok (u, s') -> heap_same s s' /\ meta_same s s'.
Proof.
  unfold w_add_if_cache, bind, get_cache, w_add, ret. destruct (s_cache s); intros H; inversion H; subst;
    unfold heap_same, meta_same; simpl; tauto.
Qed.
Lemma set_root_eff r s u s' : set_root r s = Ok (u, s') ->
  heap_same s s' /\ s_root s' = r /\ s_size s' = s_size s /\ s_maxp s' = s_maxp s /\ s_depth s' = s_depth s /\ s_cache s' = s_cache s.
Proof. unfold set_root. intros H. inversion H; subst. unfold heap_same. simpl. tauto. Qed.

(* ---------- rep under allocation-only / heap-preserving steps ---------- *)
Lemma frame_old s s' W x : frame s s' W -> x < s_next s -> ~ In x W -> same_at s s' x.
Proof. intros [_ F]. auto. Qed.

Lemma rep_frame' s s' W a n fp : wf s -> frame s s' W -> rep s a n fp -> (forall x, In x fp -> ~ In x W) -> rep s' a n fp.
Proof.
  intros Wf F H D. eapply rep_frame; eauto. intros x Hx. eapply frame_old; eauto.
  pose proof (rep_lt s Wf _ _ _ H) as L. rewrite Forall_forall in L. apply L. auto.
Qed.
Lemma reps_frame' s s' W ch kids fps : wf s -> frame s s' W -> reps s ch kids fps ->
  (forall x, In x (List.concat fps) -> ~ In x W) -> reps s' ch kids fps.
Proof.
  intros Wf F H D. eapply reps_frame; eauto. intros x Hx. eapply frame_old; eauto.
  pose proof (reps_lt s _ _ _ Wf H) as L. rewrite Forall_forall in L. apply L. auto.
Qed.

(* ---------- one level of the copy-on-write descent ---------- *)
Ltac spl := repeat match goal with |- _ /\ _ => split end.

Definition sub_fresh (s : st) (fp fp' : list addr) : Prop := forall x, In x fp' -> In x fp \/ s_next s <= x.

(* after the rest of the operation, node q (same object) represents kids' *)
Definition inplace_res (s s' : st) (q : addr) (qo : nobj) (fps : list (list addr)) (kids' : list node) : Prop :=
  exists ch' fps', find_node s' q = Some qo /\ find_arr s' (n_arr qo) = Some ch' /\ reps s' ch' kids' fps' /\
     NoDup (q :: n_arr qo :: List.concat fps') /\
     sub_fresh s (List.concat fps) (List.concat fps') /\
     frame s s' (n_arr qo :: List.concat fps) /\ good 1 s'.

Lemma sub_fresh_trans s s1 a b c : s_next s <= s_next s1 -> sub_fresh s a b -> sub_fresh s1 b c -> sub_fresh s a c.
Proof. intros L H1 H2 x Hx. destruct (H2 x Hx) as [Hb|Hl]; [auto|right; lia]. Qed.

Lemma good1_wf s : good 1 s -> wf s. Proof. apply g_wf. Qed.

Lemma in_concat_set_nth_inv {A} (l : list (list A)) j f f' x :
  nth_error l j = Some f -> In x (List.concat l) -> In x f \/ In x (List.concat (set_nth l j f')).
Proof.
  revert j. induction l as [|g l IH]; intros [|j] H Hx; simpl in *; try discriminate.
  - inversion H; subst. apply in_app_or in Hx. destruct Hx; auto. right. apply in_or_app. auto.
  - apply in_app_or in Hx. destruct Hx as [Hx|Hx].
    + right. apply in_or_app. auto.
    + destruct (IH _ H Hx); auto. right. apply in_or_app. auto.
Qed.

Section Descend.
Variable evict : N -> list addr -> list addr.
Hypothesis evict_sub : forall c w a, In a (evict c w) -> In a w.

(* the clone-or-reuse block of copyOnWriteSearch below an in-place parent p *)
Definition relink (p cur : addr) : M addr :=
  hit <- w_get evict cur ;;
  (if hit then ret cur
   else cp <- clone cur ;; w_add_if_cache evict cp ;;; (update_edge p cp) ;;; ret cp).

Lemma descend s p po pch kidsP fpsP j cur n fpn cn p' s1 :
  good 1 s ->
  find_node s p = Some po -> find_arr s (n_arr po) = Some pch -> reps s pch kidsP fpsP ->
  NoDup (p :: n_arr po :: List.concat fpsP) ->
  nth_error kidsP j = Some n -> nth_error pch j = Some cur -> nth_error fpsP j = Some fpn ->
  hd_byte (nkey n) = Some cn -> find_child_from 0 cn kidsP = Some j ->
  relink p cur s = Ok (p', s1) ->
  exists co co' cch fpsn,
    find_node s cur = Some co /\ find_arr s (n_arr co) = Some cch /\ reps s cch (nchildren n) fpsn /\
    fpn = cur :: n_arr co :: List.concat fpsn /\
    find_node s1 p' = Some co' /\ n_key co' = nkey n /\ n_route co' = nroute n /\
    find_arr s1 (n_arr co') = Some cch /\ reps s1 cch (nchildren n) fpsn /\
    let fpn' := p' :: n_arr co' :: List.concat fpsn in
    find_node s1 p = Some po /\ find_arr s1 (n_arr po) = Some (set_nth pch j p') /\
    reps s1 (set_nth pch j p') kidsP (set_nth fpsP j fpn') /\
    NoDup (p :: n_arr po :: List.concat (set_nth fpsP j fpn')) /\
    frame s s1 [n_arr po] /\ sub_fresh s fpn fpn' /\ meta_same s s1 /\ good 1 s1.
Proof.
  intros G Hpo Hpch HrP ND Hj Hcur Hfj Hcn Hfc H.
  pose proof (good1_wf _ G) as Wf.
  destruct (all3_nth _ _ _ _ _ _ HrP Hj) as (cur0 & fpn0 & Hc0 & Hf0 & Hrep).
  assert (cur0 = cur) by congruence. assert (fpn0 = fpn) by congruence. subst cur0 fpn0.
  destruct n as [kn rn kidsn]. simpl in *.
  apply rep_unfold in Hrep. destruct Hrep as (co & cch & fpsn & Hco & Hk & Hr & Hcch & Hkids & Hfp).
  unfold relink in H. mbind H hit s2 H2.
  destruct (w_get_eff _ _ _ _ _ H2) as (HS2 & MS2).
  destruct (w_get_ok evict evict_sub 1 _ _ _ _ G H2) as (G2 & _ & _). clear H2.
  assert (F2 : frame s s2 [n_arr po]) by (apply frame_heap_same; auto).
  assert (SA2 : forall x, same_at s s2 x) by (intros; apply heap_same_at; auto).
  destruct hit.
  - (* already writable: reuse *)
    apply ret_ok in H. destruct H as [-> ->].
    exists co, co, cch, fpsn.
    assert (Hco2 : find_node s2 cur = Some co) by (rewrite (proj1 (SA2 cur)); auto).
    assert (Hcch2 : find_arr s2 (n_arr co) = Some cch) by (rewrite (proj2 (SA2 _)); auto).
    assert (Hkids2 : reps s2 cch kidsn fpsn) by (eapply reps_frame; eauto).
    rewrite (set_nth_same pch j cur) by auto. rewrite <- Hfp. rewrite (set_nth_same fpsP j fpn) by auto.
    assert (Hpo2 : find_node s2 p = Some po) by (rewrite (proj1 (SA2 p)); auto).
    assert (Hpch2 : find_arr s2 (n_arr po) = Some pch) by (rewrite (proj2 (SA2 _)); auto).
    assert (HrP2 : reps s2 pch kidsP fpsP) by (eapply reps_frame; eauto).
    assert (SF : sub_fresh s fpn fpn) by (intros x Hx; auto).
    spl; auto.
  - (* clone and link into the parent *)
    mbind H cp s3 H3. unfold clone in H3.
    mbind H3 co2 s4 H4. apply get_node_ok in H4. destruct H4 as [-> Hco2]. rewrite (proj1 (SA2 cur)) in Hco2.
    assert (co2 = co) by congruence. subst co2.
    mbind H3 cch2 s4 H4. apply get_arr_ok in H4. destruct H4 as [-> Hcch2]. rewrite (proj2 (SA2 _)) in Hcch2.
    assert (cch2 = cch) by congruence. subst cch2.
    mbind H3 A' s4 H4.
    pose proof (proj2 (wf_arr _ Wf _ _ Hcch)) as Fcch.
    assert (Fcch2 : Forall (V s2) cch).
    { eapply Forall_impl; [|exact Fcch]. unfold V. destruct HS2 as (_ & _ & ->). auto. }
    destruct (alloc_arr_ok 1 _ _ _ _ G2 Fcch2 H4) as (G4 & _ & V4 & _ & _).
    destruct (alloc_arr_eff _ _ _ _ H4) as (EA & N4 & FA & OA & ON4 & MS4). clear H4.
    pose proof (fun pf => alloc_node_ok 1 _ _ _ _ G4 pf H3) as X. simpl in X.
    destruct (X V4) as (G5 & _ & V5 & _ & _). clear X.
    destruct (alloc_node_eff _ _ _ _ H3) as (EC & N5 & FC & OC & OA5 & MS5). clear H3.
    mbind H u s6 H6. destruct (w_add_if_cache_eff _ _ _ _ _ H6) as (HS6 & MS6).
    assert (O5 : own 1 s3 cp).
    { split; [lia|]. eexists. split; [exact FC|]. simpl. lia. }
    destruct (w_add_if_cache_ok evict evict_sub 1 _ _ _ _ G5 O5 H6) as (G6 & _). clear H6.
    assert (Nx2 : s_next s2 = s_next s) by (destruct HS2 as (_ & _ & ->); auto).
    assert (LA : s_next s <= A') by lia. assert (LC : s_next s < cp) by lia.
    (* everything allocated before is unchanged in s6 *)
    assert (Old : forall x, x < s_next s -> same_at s s6 x).
    { intros x Lx. eapply same_at_trans; [apply SA2|]. eapply same_at_trans; [|apply heap_same_at; exact HS6].
      split.
      - rewrite OC by lia. apply ON4.
      - rewrite OA5. apply OA. lia. }
    assert (Lfp : Forall (V s) (p :: n_arr po :: List.concat fpsP)).
    { destruct (wf_node _ Wf _ _ Hpo). constructor; auto. constructor; auto. eapply reps_lt; eauto. }
    assert (Lp : p < s_next s) by (inversion Lfp; auto).
    assert (LAp : n_arr po < s_next s) by (inversion Lfp as [|? ? ? T]; inversion T; auto).
    assert (Hpo6 : find_node s6 p = Some po) by (rewrite (proj1 (Old p Lp)); auto).
    assert (Hpch6 : find_arr s6 (n_arr po) = Some pch) by (rewrite (proj2 (Old _ LAp)); auto).
    assert (HrP6 : reps s6 pch kidsP fpsP).
    { eapply reps_frame; eauto. intros x Hx. apply Old. pose proof (reps_lt _ _ _ _ Wf HrP) as L.
      rewrite Forall_forall in L. apply L. auto. }
    assert (FC6 : find_node s6 cp = Some {| n_key := n_key co; n_route := n_route co; n_arr := A' |})
      by (rewrite (proj1 (heap_same_at _ _ cp HS6)); auto).
    assert (FA6 : find_arr s6 A' = Some cch).
    { rewrite (proj2 (heap_same_at _ _ A' HS6)). rewrite OA5. auto. }
    (* the write into the parent's array *)
    mbind H u2 s7 H7. apply ret_ok in H. destruct H as [-> <-].
    assert (Op6 : own 1 s6 p) by (split; [lia|]; exists po; split; auto; lia).
    assert (Vcp6 : V s6 cp).
    { unfold V. destruct HS6 as (_ & _ & ->). unfold V in V5. auto. }
    destruct (update_edge_ok 1 _ _ _ _ _ G6 Op6 Vcp6 H7) as (G7 & _).
    unfold update_edge in H7.
    mbind H7 kk s8 H8. unfold key_of in H8. mbind H8 o8 s9 H9. apply get_node_ok in H9. destruct H9 as [-> Ho8].
    apply ret_ok in H8. destruct H8 as [-> ->]. rewrite FC6 in Ho8. inversion Ho8; subst o8; clear Ho8. simpl in H7.
    rewrite Hk in H7. destruct kn as [|c0 kn']; [discriminate|]. simpl in Hcn. inversion Hcn; subst c0; clear Hcn.
    mbind H7 o8 s8 H8. apply get_node_ok in H8. destruct H8 as [-> Ho8]. assert (o8 = po) by congruence. subst o8.
    mbind H7 ch8 s8 H8. apply get_arr_ok in H8. destruct H8 as [-> Hch8]. assert (ch8 = pch) by congruence. subst ch8.
    mbind H7 ks s8 H8. rewrite (keys_of_reps _ _ _ _ HrP6) in H8. inversion H8; subst ks s8; clear H8.
    rewrite find_idx_child, Hfc in H7.
    destruct (write_slot_eff _ _ _ _ _ _ H7) as (l & Hl & Li & FW & OW & NW & NxW & MSW). clear H7.
    assert (l = pch) by congruence. subst l.
    assert (Old7 : forall x, x < s_next s -> x <> n_arr po -> same_at s s1 x).
    { intros x Lx Nx. eapply same_at_trans; [apply Old; auto|]. split; [apply NW|apply OW; auto]. }
    exists co, {| n_key := n_key co; n_route := n_route co; n_arr := A' |}, cch, fpsn. simpl.
    assert (Dfp : NoDup (List.concat fpsP)) by (inversion ND as [|? ? ? T]; inversion T; auto).
    assert (NPin : ~ In p (List.concat fpsP) /\ ~ In (n_arr po) (List.concat fpsP)).
    { inversion ND as [|? ? Hp T]; inversion T as [|? ? Ha T']; subst. split; auto. intros Hi. apply Hp. simpl. auto. }
    assert (Hpne : n_arr po <> p).
    { inversion ND as [|? ? Hp T]. intros Hi. apply Hp. simpl. auto. }
    assert (Kids7 : reps s1 cch kidsn fpsn).
    { apply (reps_frame s s1 _ _ _ Hkids). intros x Hx. apply Old7.
      - pose proof (reps_lt _ _ _ _ Wf Hkids) as L. rewrite Forall_forall in L. apply L. auto.
      - intros ->. apply (proj2 NPin). eapply in_lconcat_nth; eauto. rewrite Hfp. simpl. auto. }
    assert (FC7 : find_node s1 cp = Some {| n_key := n_key co; n_route := n_route co; n_arr := A' |}) by (rewrite NW; auto).
    assert (FA7 : find_arr s1 A' = Some cch) by (rewrite OW; auto; lia).
    assert (R1 : find_node s1 p = Some po) by (rewrite NW; auto).
    assert (R2 : reps s1 (set_nth pch j cp) kidsP (set_nth fpsP j (cp :: A' :: List.concat fpsn))).
    { rewrite <- (set_nth_same kidsP j _ Hj). apply all3_set.
      * apply (reps_frame s s1 _ _ _ HrP). intros x Hx. apply Old7.
        -- pose proof (reps_lt _ _ _ _ Wf HrP) as L. rewrite Forall_forall in L. apply L. auto.
        -- intros ->. apply (proj2 NPin). auto.
      * apply rep_unfold. eexists _, cch, fpsn. spl; eauto. }
    assert (R3 : NoDup (p :: n_arr po :: List.concat (set_nth fpsP j (cp :: A' :: List.concat fpsn)))).
    { assert (ND' : NoDup (List.concat (set_nth fpsP j (cp :: A' :: List.concat fpsn)))).
      { eapply NoDup_concat_set_nth; eauto.
        - pose proof (NoDup_concat_nth _ _ _ Dfp Hfj) as Nf. rewrite Hfp in Nf.
          inversion Nf as [|? ? H1 T]; inversion T as [|? ? H2 T']; subst.
          pose proof (reps_lt _ _ _ _ Wf Hkids) as L. rewrite Forall_forall in L.
          constructor; [|constructor; auto].
          + intros [Hi|Hi]; [lia|]. apply L in Hi. unfold V in Hi. lia.
          + intros Hi. apply L in Hi. unfold V in Hi. lia.
        - intros x [<-|[<-|Hx]].
          + right. intros Hi. pose proof (reps_lt _ _ _ _ Wf HrP) as L. rewrite Forall_forall in L. apply L in Hi. unfold V in Hi. lia.
          + right. intros Hi. pose proof (reps_lt _ _ _ _ Wf HrP) as L. rewrite Forall_forall in L. apply L in Hi. unfold V in Hi. lia.
          + left. rewrite Hfp. simpl. auto. }
      assert (Sub : forall x, In x (List.concat (set_nth fpsP j (cp :: A' :: List.concat fpsn))) ->
                    In x (List.concat fpsP) \/ s_next s <= x).
      { intros x Hx. destruct (in_concat_set_nth _ _ _ _ Hx) as [[<-|[<-|Hi]]|Hi]; auto; try (right; lia).
        left. eapply in_lconcat_nth; eauto. rewrite Hfp. simpl. auto. }
      constructor; [|constructor; auto].
      * intros [Hi|Hi]; [auto|]. destruct (Sub _ Hi) as [Hi'|Hi']; [apply (proj1 NPin); auto|lia].
      * intros Hi. destruct (Sub _ Hi) as [Hi'|Hi']; [apply (proj2 NPin); auto|lia]. }
    assert (N6 : s_next s6 = s_next s3) by (destruct HS6 as (_ & _ & ->); auto).
    assert (R4 : frame s s1 [n_arr po]).
    { split; [lia|]. intros x Lx Nx. apply Old7; auto. intros ->. apply Nx. simpl. auto. }
    assert (R5 : sub_fresh s fpn (cp :: A' :: List.concat fpsn)).
    { intros x [<-|[<-|Hx]]; try (right; lia). left. rewrite Hfp. simpl. auto. }
    assert (R6 : meta_same s s1).
    { eapply meta_same_trans; [exact MS2|]. eapply meta_same_trans; [exact MS4|].
      eapply meta_same_trans; [exact MS5|]. eapply meta_same_trans; [exact MS6|]. exact MSW. }
    spl; auto.
Qed.

End Descend.

Lemma all3_set_frame {A B C} (R R' : A -> B -> C -> Prop) la lb lc j a b c :
  all3 R la lb lc ->
  (forall k x y z, k <> j -> nth_error la k = Some x -> nth_error lb k = Some y -> nth_error lc k = Some z -> R x y z -> R' x y z) ->
  R' a b c -> all3 R' (set_nth la j a) (set_nth lb j b) (set_nth lc j c).
Proof.
  revert la lc j. induction lb as [|b0 lb IH]; intros [|a0 la] [|c0 lc] j H Hk Hr; simpl in *; try tauto;
    destruct j as [|j]; simpl; try tauto.
  - destruct H as [H0 H]. split; auto.
    clear IH. revert la lc H Hk. induction lb as [|b1 lb IH]; intros [|a1 la] [|c1 lc] H Hk; simpl in *; try tauto.
    destruct H as [H1 H]. split.
    + apply (Hk 1%nat); auto.
    + apply IH; auto. intros k x y z Hne Hx Hy Hz. destruct k as [|k]; [congruence|].
      apply (Hk (S (S k))); auto.
  - destruct H as [H0 H]. split.
    + apply (Hk 0%nat); auto.
    + apply IH; auto. intros k x y z Hne Hx Hy Hz. apply (Hk (S k)); auto.
Qed.

Lemma ascend s1 s' p po pch1 kidsP fpsP1 j p' co' fpsn kn rn kidsn kids' :
  good 1 s1 ->
  find_node s1 p = Some po -> find_arr s1 (n_arr po) = Some pch1 -> reps s1 pch1 kidsP fpsP1 ->
  NoDup (p :: n_arr po :: List.concat fpsP1) ->
  nth_error pch1 j = Some p' -> nth_error kidsP j = Some (Node kn rn kidsn) ->
  nth_error fpsP1 j = Some (p' :: n_arr co' :: List.concat fpsn) ->
  n_key co' = kn -> n_route co' = rn ->
  inplace_res s1 s' p' co' fpsn kids' ->
  inplace_res s1 s' p po fpsP1 (set_nth kidsP j (Node kn rn kids')).
Proof.
  intros G Hpo Hpch HrP ND Hp' Hj Hfj Hk Hr (ch' & fps' & Hco' & Hch' & Hkids' & ND' & SF & Fr & G').
  pose proof (good1_wf _ G) as Wf.
  assert (Lall : Forall (V s1) (List.concat fpsP1)) by (eapply reps_lt; eauto).
  rewrite Forall_forall in Lall.
  destruct (wf_node _ Wf _ _ Hpo) as [Lp LA].
  assert (Np : ~ In p (n_arr po :: List.concat fpsP1)) by (inversion ND; auto).
  assert (NA : ~ In (n_arr po) (List.concat fpsP1)) by (inversion ND as [|? ? ? T]; inversion T; auto).
  assert (Dfp : NoDup (List.concat fpsP1)) by (inversion ND as [|? ? ? T]; inversion T; auto).
  set (fold := p' :: n_arr co' :: List.concat fpsn) in *.
  set (fnew := p' :: n_arr co' :: List.concat fps').
  assert (InOld : forall x, In x fold -> In x (List.concat fpsP1)) by (intros x Hx; eapply in_lconcat_nth; eauto).
  assert (Sub : forall x, In x fnew -> In x fold \/ s_next s1 <= x).
  { intros x [<-|[<-|Hx]]; [left; simpl; auto|left; simpl; auto|].
    destruct (SF x Hx); [left; simpl; auto|auto]. }
  assert (Wsub : forall x, In x (n_arr co' :: List.concat fpsn) -> In x fold) by (intros x Hx; simpl; auto).
  exists pch1, (set_nth fpsP1 j fnew).
  assert (E1 : find_node s' p = Some po).
  { rewrite (proj1 (frame_old _ _ _ p Fr Lp ltac:(intros Hi; apply Np; right; apply InOld; apply Wsub; auto))). auto. }
  assert (E2 : find_arr s' (n_arr po) = Some pch1).
  { rewrite (proj2 (frame_old _ _ _ (n_arr po) Fr LA ltac:(intros Hi; apply NA; apply InOld; apply Wsub; auto))). auto. }
  assert (E3 : reps s' pch1 (set_nth kidsP j (Node kn rn kids')) (set_nth fpsP1 j fnew)).
  { rewrite <- (set_nth_same pch1 j p' Hp'). eapply all3_set_frame; [exact HrP| |].
    - intros k x y z Hne Hx Hy Hz Hrep. eapply rep_frame'; eauto.
      intros a Ha Hi. apply Wsub in Hi.
      exact (NoDup_concat_disj _ _ _ _ _ _ Dfp Hne Hz Hfj Ha Hi).
    - apply rep_unfold. exists co', ch', fps'. spl; auto. }
  assert (NDc : NoDup (List.concat (set_nth fpsP1 j fnew))).
  { eapply NoDup_concat_set_nth; eauto. intros x Hx. destruct (Sub x Hx); auto.
    right. intros Hi. apply Lall in Hi. unfold V in Hi. lia. }
  assert (Sub2 : forall x, In x (List.concat (set_nth fpsP1 j fnew)) -> In x (List.concat fpsP1) \/ s_next s1 <= x).
  { intros x Hx. destruct (in_concat_set_nth _ _ _ _ Hx) as [Hi|Hi]; auto. destruct (Sub x Hi); auto. }
  spl; auto.
  - constructor; [|constructor; auto].
    + intros [Hi|Hi]; [apply Np; simpl; auto|]. destruct (Sub2 _ Hi) as [Hi'|Hi']; [apply Np; simpl; auto|unfold V in Lp; lia].
    + intros Hi. destruct (Sub2 _ Hi) as [Hi'|Hi']; [auto|unfold V in LA; lia].
  - destruct Fr as [Ln F]. split; auto. intros x Lx Nx. apply F; auto. intros Hi. apply Nx. right. apply InOld. apply Wsub. auto.
Qed.

(* an in-place result seen from an earlier state *)
Lemma inplace_res_pre s s1 s' q qo fps fps1 kids' W0 :
  frame s s1 W0 -> (forall x, In x W0 -> In x (n_arr qo :: List.concat fps)) ->
  sub_fresh s (List.concat fps) (List.concat fps1) ->
  inplace_res s1 s' q qo fps1 kids' -> inplace_res s s' q qo fps kids'.
Proof.
  intros F0 HW SF0 (ch' & fps' & Hq & Hch' & Hkids' & ND' & SF & Fr & G').
  exists ch', fps'. spl; auto.
  - eapply sub_fresh_trans; eauto. apply (proj1 F0).
  - eapply frame_trans; eauto. intros x Lx [Hi|Hi]; auto.
    destruct Hi as [<-|Hi]; [simpl; auto|]. destruct (SF0 x Hi) as [Hi'|Hi']; [simpl; auto|lia].
Qed.

(* ---------- the inner loop of copyOnWriteSearch vs common_prefix ---------- *)
Lemma match_key_spec key : forall rest n r b,
  match_key key rest = (n, r, b) ->
  n = List.length (common_prefix rest key) /\ r = skipn n rest /\
  (n <= List.length key)%nat /\ (n <= List.length rest)%nat /\
  (b = true -> (n < List.length key)%nat /\ (n < List.length rest)%nat) /\
  (b = false -> n = List.length key \/ n = List.length rest).
Proof.
  induction key as [|k key IH]; intros [|c rest] n r b H; simpl in H.
  - inversion H; subst. simpl. spl; auto; try lia; try discriminate.
  - inversion H; subst. simpl. spl; auto; try lia; try discriminate.
  - inversion H; subst. simpl. spl; auto; try lia; try discriminate.
  - simpl. destruct (Ascii.eqb_spec k c) as [->|Hne].
    + destruct (match_key key rest) as [[n0 r0] b0] eqn:E. inversion H; subst.
      destruct (IH _ _ _ _ E) as (I1 & I2 & I3 & I4 & I5 & I6).
      rewrite Ascii.eqb_refl. simpl. spl; auto; try lia.
      * intros Hb. destruct (I5 Hb). lia.
      * intros Hb. destruct (I6 Hb); lia.
    + inversion H; subst. assert (Ascii.eqb c k = false) by (apply Ascii.eqb_neq; auto).
      rewrite H0. simpl. spl; auto; try lia; try discriminate.
Qed.

Lemma skipn_nil_iff {A} (l : list A) n : (n <= List.length l)%nat -> (skipn n l = [] <-> n = List.length l).
Proof.
  revert n. induction l as [|x l IH]; intros [|n] L; simpl in *; try lia; split; intros H; auto; try lia; try discriminate.
  - f_equal. apply IH; auto. lia.
  - apply IH; auto; lia.
Qed.

(* ---------- building and linking new nodes ---------- *)
Lemma nnfr_rep s k r A kidsc ch fpsc x s1 :
  good 1 s -> find_arr s A = Some ch -> reps s ch kidsc fpsc ->
  new_node_from_ref k r A s = Ok (x, s1) ->
  x = s_next s /\ s_next s1 = Pos.succ (s_next s) /\
  rep s1 x (Node k r kidsc) (x :: A :: List.concat fpsc) /\
  (forall y, y < s_next s -> same_at s s1 y) /\ meta_same s s1 /\ good 1 s1.
Proof.
  intros G HA Hr H. pose proof (good1_wf _ G) as Wf. unfold new_node_from_ref in H.
  destruct (wf_arr _ Wf _ _ HA) as [VA _].
  pose proof (fun pf => alloc_node_ok 1 _ _ _ _ G pf H) as X. simpl in X. destruct (X VA) as (G1 & _). clear X.
  destruct (alloc_node_eff _ _ _ _ H) as (E & Nx & F & O & OA & MS).
  assert (Old : forall y, y < s_next s -> same_at s s1 y).
  { intros y Ly. split; [apply O; lia|apply OA]. }
  spl; auto.
  apply rep_unfold. eexists _, ch, fpsc. spl; eauto.
  - simpl. rewrite OA. auto.
  - eapply reps_frame; eauto. intros y Hy. apply Old.
    pose proof (reps_lt _ _ _ _ Wf Hr) as L. rewrite Forall_forall in L. apply L. auto.
Qed.

Lemma new_node_rep s k r a l kids fps x s1 :
  good 1 s -> find_arr s a = Some l -> reps s l kids fps -> ~ In a (List.concat fps) ->
  new_node k r a s = Ok (x, s1) ->
  exists fps', x = s_next s /\ s_next s1 = Pos.succ (s_next s) /\
    rep s1 x (Node k r (sort_nodes kids)) (x :: a :: List.concat fps') /\
    Permutation (List.concat fps') (List.concat fps) /\
    (forall y, y < s_next s -> y <> a -> same_at s s1 y) /\ meta_same s s1 /\ good 1 s1.
Proof.
  intros G Ha Hr Na H. pose proof (good1_wf _ G) as Wf. unfold new_node in H.
  mbind H ch s2 H2. apply get_arr_ok in H2. destruct H2 as [-> Hch]. assert (ch = l) by congruence. subst ch.
  mbind H ks s2 H2. rewrite (keys_of_reps _ _ _ _ Hr) in H2. inversion H2; subst ks s2; clear H2.
  mbind H u s2 H2.
  destruct (wf_arr _ Wf _ _ Ha) as [Va Fl].
  assert (Fs : Forall (V s) (map snd (sort_pairs (combine (map nkey kids) l)))).
  { rewrite Forall_forall in *. intros y Hy. apply Fl. eapply sorted_sub; eauto. }
  destruct (write_arr_ok 1 _ _ _ _ _ G ltac:(lia) Fs H2) as (G2 & _).
  destruct (write_arr_eff _ _ _ _ _ H2) as (_ & FW & OW & NW & NxW & MSW). clear H2.
  destruct (sort_reps _ _ _ _ Hr) as (fps' & Hr' & Perm).
  assert (Old2 : forall y, y <> a -> same_at s s2 y) by (intros y Hy; split; [apply NW|apply OW; auto]).
  assert (Hr2 : reps s2 (map snd (sort_pairs (combine (map nkey kids) l))) (sort_nodes kids) fps').
  { eapply reps_frame; eauto. intros y Hy. apply Old2. intros ->. apply Na.
    eapply Permutation_in; eauto. }
  destruct (nnfr_rep _ _ _ _ _ _ _ _ _ G2 FW Hr2 H) as (Ex & Nx & Rx & Oldx & MSx & Gx).
  exists fps'. rewrite NxW in *. spl; auto.
  - intros y Ly Hy. eapply same_at_trans; [apply Old2; auto|apply Oldx; auto].
  - eapply meta_same_trans; eauto.
Qed.

(* p.updateEdge(x): replacing the i-th child of an in-place node *)
Lemma patch_child s q qo qch kids fps i c fc c0 x xn fx s' :
  good 1 s -> find_node s q = Some qo -> find_arr s (n_arr qo) = Some qch -> reps s qch kids fps ->
  NoDup (q :: n_arr qo :: List.concat fps) ->
  nth_error kids i = Some c -> nth_error fps i = Some fc ->
  hd_byte (nkey c) = Some c0 -> find_child_from 0 c0 kids = Some i ->
  rep s x xn fx -> hd_byte (nkey xn) = Some c0 -> NoDup fx ->
  (forall y, In y fx -> In y fc \/ ~ In y (q :: n_arr qo :: List.concat fps)) ->
  update_edge q x s = Ok (tt, s') ->
  find_node s' q = Some qo /\ find_arr s' (n_arr qo) = Some (set_nth qch i x) /\
  reps s' (set_nth qch i x) (set_nth kids i xn) (set_nth fps i fx) /\
  NoDup (q :: n_arr qo :: List.concat (set_nth fps i fx)) /\
  (forall y, y <> n_arr qo -> same_at s s' y) /\ s_next s' = s_next s /\ meta_same s s' /\ good 1 s'.
Proof.
  intros G Hq Hqch Hr ND Hi Hfi Hc0 Hfc Hx Hx0 NDx Sub H.
  pose proof (good1_wf _ G) as Wf.
  assert (Np : ~ In q (n_arr qo :: List.concat fps)) by (inversion ND; auto).
  assert (NA : ~ In (n_arr qo) (List.concat fps)) by (inversion ND as [|? ? ? T]; inversion T; auto).
  assert (Dfp : NoDup (List.concat fps)) by (inversion ND as [|? ? ? T]; inversion T; auto).
  assert (Oq : own 1 s q) by (split; [lia|]; exists qo; split; auto; lia).
  pose proof (rep_lt _ Wf _ _ _ Hx) as Lx. destruct (rep_head _ _ _ _ Hx) as (tx & Efx).
  assert (Vx : V s x) by (rewrite Efx in Lx; inversion Lx; auto).
  destruct (update_edge_ok 1 _ _ _ _ _ G Oq Vx H) as (G' & _).
  unfold update_edge in H.
  mbind H kk s2 H2. unfold key_of in H2. mbind H2 o2 s3 H3. apply get_node_ok in H3. destruct H3 as [-> Ho2].
  apply ret_ok in H2. destruct H2 as [-> ->].
  destruct (rep_key _ _ _ _ Hx) as (xo & Hxo & Kx & _). assert (o2 = xo) by congruence. subst o2.
  rewrite Kx in H. destruct (nkey xn) as [|c1 kx] eqn:Ekx; [discriminate|]. simpl in Hx0. inversion Hx0; subst c1; clear Hx0.
  mbind H o2 s2 H2. apply get_node_ok in H2. destruct H2 as [-> Ho2']. assert (o2 = qo) by congruence. subst o2.
  mbind H ch2 s2 H2. apply get_arr_ok in H2. destruct H2 as [-> Hch2]. assert (ch2 = qch) by congruence. subst ch2.
  mbind H ks s2 H2. rewrite (keys_of_reps _ _ _ _ Hr) in H2. inversion H2; subst ks s2; clear H2.
  rewrite find_idx_child, Hfc in H.
  destruct (write_slot_eff _ _ _ _ _ _ H) as (l & Hl & Li & FW & OW & NW & NxW & MSW). clear H.
  assert (l = qch) by congruence. subst l.
  assert (Old : forall y, y <> n_arr qo -> same_at s s' y) by (intros y Hy; split; [apply NW|apply OW; auto]).
  assert (NAx : ~ In (n_arr qo) fx).
  { intros Hi'. destruct (Sub _ Hi') as [Hf|Hn]; [|apply Hn; simpl; auto].
    apply NA. eapply in_lconcat_nth; eauto. }
  assert (Sub2 : forall y, In y (List.concat (set_nth fps i fx)) -> In y (List.concat fps) \/ In y fx).
  { intros y Hy. destruct (in_concat_set_nth _ _ _ _ Hy); auto. }
  spl; auto.
  - rewrite NW. auto.
  - eapply all3_set_frame; [exact Hr| |].
    + intros k a b z Hne Ha Hb Hz Hrep. eapply rep_frame; eauto. intros y Hy. apply Old.
      intros ->. apply NA. eapply in_lconcat_nth; eauto.
    + eapply rep_frame; eauto. intros y Hy. apply Old. intros ->. auto.
  - assert (NDc : NoDup (List.concat (set_nth fps i fx))).
    { eapply NoDup_concat_set_nth; eauto. intros y Hy. destruct (Sub y Hy) as [?|Hn]; auto.
      right. intros Hi'. apply Hn. simpl. auto. }
    constructor; [|constructor; auto].
    + intros [Hi'|Hi']; [apply Np; simpl; auto|]. destruct (Sub2 _ Hi') as [Hi''|Hi''].
      * apply Np. simpl. auto.
      * destruct (Sub _ Hi'') as [Hf|Hn]; [|apply Hn; simpl; auto]. apply Np. right. eapply in_lconcat_nth; eauto.
    + intros Hi'. destruct (Sub2 _ Hi') as [Hi''|Hi'']; auto.
Qed.

Lemma inplace_res_refl s q qo qch kids fps :
  good 1 s -> find_node s q = Some qo -> find_arr s (n_arr qo) = Some qch -> reps s qch kids fps ->
  NoDup (q :: n_arr qo :: List.concat fps) -> inplace_res s s q qo fps kids.
Proof.
  intros G Hq Hch Hr ND. exists qch, fps. spl; auto.
  - intros x Hx. auto.
  - apply frame_refl.
Qed.

Lemma get_edge_rep s a k r kids fp c :
  rep s a (Node k r kids) fp ->
  exists o ch fps, find_node s a = Some o /\ find_arr s (n_arr o) = Some ch /\ reps s ch kids fps /\
    get_edge a c s = Ok (match find_child (Node k r kids) c with Some i => nth_error ch i | None => None end, s).
Proof.
  intros H. apply rep_unfold in H. destruct H as (o & ch & fps & Ho & Hk & Hr & Hch & Hkids & Hfp).
  exists o, ch, fps. spl; auto.
  unfold get_edge, bind, get_node, get_arr. unfold find_node in Ho. unfold find_arr in Hch. rewrite Ho, Hch.
  rewrite (keys_of_reps _ _ _ _ Hkids). rewrite find_idx_child. unfold find_child. simpl.
  destruct (find_child_from 0 c kids); reflexivity.
Qed.

Lemma find_child_from_hd i c kids j n : find_child_from i c kids = Some j -> nth_error kids (j - i) = Some n ->
  exists t, nkey n = c :: t.
Proof.
  revert i j. induction kids as [|k kids IH]; intros i j H Hn; simpl in H; try discriminate.
  destruct (starts_with c (nkey k)) eqn:E.
  - inversion H; subst. replace (j - j)%nat with 0%nat in Hn by lia. simpl in Hn. inversion Hn; subst.
    unfold starts_with in E. destruct (nkey n) as [|x t]; [discriminate|]. apply Ascii.eqb_eq in E. subst. eauto.
  - assert (Hlt : (i < j)%nat).
    { clear -H. revert i H. induction kids as [|k' kids IH]; intros i H; simpl in H; try discriminate.
      destruct (starts_with c (nkey k')); [inversion H; lia|]. apply IH in H. lia. }
    apply (IH (S i) j H). replace (j - i)%nat with (S (j - S i)) in Hn by lia. simpl in Hn. auto.
Qed.

Lemma find_child_hd c kids j n : find_child_from 0 c kids = Some j -> nth_error kids j = Some n -> hd_byte (nkey n) = Some c.
Proof.
  intros H Hn. destruct (find_child_from_hd 0 c kids j n H) as (t & E).
  - rewrite Nat.sub_0_r. auto.
  - rewrite E. reflexivity.
Qed.

Section Sim.
Variable evict : N -> list addr -> list addr.
Hypothesis evict_sub : forall c w a, In a (evict c w) -> In a w.

(* the part of tXn.update after copyOnWriteSearch *)
Definition K_upd (rt : route) (r : sres) : M bool :=
  mo <- get_node (r_matched r) ;;
  match is_exact r (List.length (n_key mo)), n_route mo with
  | true, Some _ =>
      n <- new_node_from_ref (n_key mo) (Some rt) (n_arr mo) ;;
      p <- opt_get (r_p r) ;; update_edge p n ;;; ret true
  | _, _ => ret false
  end.

Lemma upd_base rt s1 p' co' cch kids fpsn i c nx c0 r out s' :
  good 1 s1 -> find_node s1 p' = Some co' -> find_arr s1 (n_arr co') = Some cch -> reps s1 cch kids fpsn ->
  NoDup (p' :: n_arr co' :: List.concat fpsn) ->
  nth_error kids i = Some c -> nth_error cch i = Some nx ->
  hd_byte (nkey c) = Some c0 -> find_child_from 0 c0 kids = Some i ->
  r_matched r = nx -> r_p r = Some p' ->
  K_upd rt r s1 = Ok (out, s') ->
  meta_same s1 s' /\
  if is_exact r (List.length (nkey c)) && is_leaf c
  then out = true /\ inplace_res s1 s' p' co' fpsn (set_nth kids i (Node (nkey c) (Some rt) (nchildren c)))
  else out = false /\ s' = s1.
Proof.
  intros G Hp' Hcch Hr ND Hi Hnx Hc0 Hfc Hm Hp H.
  destruct (all3_nth _ _ _ _ _ _ Hr Hi) as (nx0 & fc & Hnx0 & Hfi & Hrep).
  assert (nx0 = nx) by congruence. subst nx0.
  destruct c as [kc rc kidsc]. simpl in *.
  pose proof Hrep as Hrep0. apply rep_unfold in Hrep. destruct Hrep as (mo & mch & fpsc & Hmo & Hk & Hrr & Hmch & Hkidsc & Hfc').
  unfold K_upd in H. rewrite Hm in H. mbind H mo2 s2 H2. apply get_node_ok in H2. destruct H2 as [-> Hmo2].
  assert (mo2 = mo) by congruence. subst mo2. rewrite Hk in H. rewrite Hrr in H. unfold is_leaf. simpl.
  destruct (is_exact r (List.length kc)); simpl.
  2:{ apply ret_ok in H. destruct H as [-> ->]. split; [apply meta_same_refl|auto]. }
  destruct rc as [rold|]; simpl.
  2:{ apply ret_ok in H. destruct H as [-> ->]. split; [apply meta_same_refl|auto]. }
  mbind H x s2 H2.
  destruct (nnfr_rep _ _ _ _ _ _ _ _ _ G Hmch Hkidsc H2) as (Ex & Nx & Rx & Oldx & MSx & Gx). clear H2.
  subst x. set (x := s_next s1) in *.
  pose proof (good1_wf _ G) as Wf.
  assert (Lall : Forall (V s1) (p' :: n_arr co' :: List.concat fpsn)).
  { destruct (wf_node _ Wf _ _ Hp'). constructor; auto. constructor; auto. eapply reps_lt; eauto. }
  rewrite Forall_forall in Lall.
  assert (SA : forall y, In y (p' :: n_arr co' :: List.concat fpsn) -> same_at s1 s2 y).
  { intros y Hy. apply Oldx. apply Lall. auto. }
  rewrite Hp in H. mbind H q s3 H3. apply opt_get_ok in H3. destruct H3 as [Hq ->]. inversion Hq; subst q; clear Hq.
  mbind H u s3 H3. apply ret_ok in H. destruct H as [-> <-]. destruct u.
  assert (Hp2 : find_node s2 p' = Some co') by (rewrite (proj1 (SA p' ltac:(simpl; auto))); auto).
  assert (Hcch2 : find_arr s2 (n_arr co') = Some cch) by (rewrite (proj2 (SA _ ltac:(simpl; auto))); auto).
  assert (Hr2 : reps s2 cch kids fpsn) by (eapply reps_frame; eauto; intros y Hy; apply SA; simpl; auto).
  assert (NDx : NoDup (x :: n_arr mo :: List.concat fpsc)).
  { assert (Dfp : NoDup (List.concat fpsn)) by (inversion ND as [|? ? ? T]; inversion T; auto).
    pose proof (NoDup_concat_nth _ _ _ Dfp Hfi) as Nf. rewrite Hfc' in Nf. inversion Nf as [|? ? N1 N2].
    constructor; auto. intros Hi'. assert (V s1 x).
    { apply Lall. right. right. eapply in_lconcat_nth; eauto. rewrite Hfc'. right. auto. }
    unfold V, x in *. lia. }
  destruct (patch_child s2 p' co' cch kids fpsn i (Node kc (Some rold) kidsc) fc c0 x (Node kc (Some rt) kidsc)
              (x :: n_arr mo :: List.concat fpsc) s' Gx Hp2 Hcch2 Hr2 ND Hi Hfi Hc0 Hfc Rx Hc0 NDx) as (P1 & P2 & P3 & P4 & P5 & P6 & P7 & P8); auto.
  { intros y [<-|Hy].
    - right. intros Hi'. apply Lall in Hi'. unfold V, x in *. lia.
    - left. rewrite Hfc'. right. auto. }
  split; [eapply meta_same_trans; eauto|]. split; auto.
  exists (set_nth cch i x), (set_nth fpsn i (x :: n_arr mo :: List.concat fpsc)). spl; auto.
  - intros y Hy. destruct (in_concat_set_nth _ _ _ _ Hy) as [[<-|Hi']|Hi']; auto; [right; unfold x; lia|].
    left. eapply in_lconcat_nth; eauto. rewrite Hfc'. right. auto.
  - split; [lia|]. intros y Ly Ny. eapply same_at_trans; [apply Oldx; auto|]. apply P5. intros ->. apply Ny. simpl. auto.
Qed.

(* one iteration of the loop below an in-place parent, in the form used by the simulations *)
Lemma cow_loop_unfold fuel cur p pp ppp c rest0 from cm cmin depth {A} (K : sres -> M A) s :
  (r <- cow_loop evict (S fuel) cur (Some p) pp ppp (c :: rest0) from cm cmin depth ;; K r) s =
  match get_edge cur c s with
  | Ok (None, s0) => K {| r_matched := cur; r_p := Some p; r_pp := pp; r_ppp := ppp; r_rest := c :: rest0; r_from := from;
                          r_cm := cm; r_cmin := cmin; r_depth := depth |} s0
  | Ok (Some nx, s0) =>
      match relink evict p cur s0 with
      | Ok (p', s1) =>
          match key_of nx s1 with
          | Ok (key, s2) =>
              let '(n, rest', brk) := match_key key (c :: rest0) in
              if brk then K {| r_matched := nx; r_p := Some p'; r_pp := Some p; r_ppp := pp; r_rest := rest'; r_from := c :: rest0;
                               r_cm := cm + n; r_cmin := n; r_depth := S depth |} s2
              else (r <- cow_loop evict fuel nx (Some p') (Some p) pp rest' (c :: rest0) (cm + n) n (S depth) ;; K r) s2
          | Panic => Panic | Oof => Oof
          end
      | Panic => Panic | Oof => Oof
      end
  | Panic => Panic | Oof => Oof
  end.
Proof.
  simpl. unfold relink, bind, ret.
  destruct (get_edge cur c s) as [[[nx|] s0]| |]; auto.
  destruct (w_get evict cur s0) as [[hit s1]| |]; auto.
  destruct hit.
  - destruct (key_of nx s1) as [[key s2]| |]; auto.
    destruct (match_key key (c :: rest0)) as [[n rest'] brk]. destruct brk; auto.
  - destruct (clone cur s1) as [[cp s2]| |]; auto.
    destruct (w_add_if_cache evict cp s2) as [[u s3]| |]; auto.
    destruct (update_edge p cp s3) as [[u2 s4]| |]; auto.
    destruct (key_of nx s4) as [[key s5]| |]; auto.
    destruct (match_key key (c :: rest0)) as [[n rest'] brk]. destruct brk; auto.
Qed.

Lemma upd_sim rt fuel : forall s p po pch kidsP fpsP j cur n fpn cn pp ppp rest from cm depth out s',
  good 1 s ->
  find_node s p = Some po -> find_arr s (n_arr po) = Some pch -> reps s pch kidsP fpsP ->
  NoDup (p :: n_arr po :: List.concat fpsP) ->
  nth_error kidsP j = Some n -> nth_error pch j = Some cur -> nth_error fpsP j = Some fpn ->
  hd_byte (nkey n) = Some cn -> find_child_from 0 cn kidsP = Some j ->
  rest <> [] ->
  (r <- cow_loop evict fuel cur (Some p) pp ppp rest from cm (List.length (nkey n)) depth ;; K_upd rt r) s = Ok (out, s') ->
  meta_same s s' /\
  match upd fuel rt n rest with
  | Some n' => out = true /\ inplace_res s s' p po fpsP (set_nth kidsP j n')
  | None => out = false /\ inplace_res s s' p po fpsP kidsP
  end.
Proof.
  induction fuel as [|f IH]; intros s p po pch kidsP fpsP j cur n fpn cn pp ppp rest from cm depth out s'
    G Hpo Hpch HrP ND Hj Hcur Hfj Hcn Hfc Hne H.
  - simpl in H. discriminate.
  - destruct rest as [|c rest0]; [congruence|]. rewrite cow_loop_unfold in H.
    destruct (all3_nth _ _ _ _ _ _ HrP Hj) as (cur0 & fpn0 & Hc0 & Hf0 & Hrep).
    assert (cur0 = cur) by congruence. assert (fpn0 = fpn) by congruence. subst cur0 fpn0.
    destruct n as [kn rn kidsn].
    destruct (get_edge_rep _ _ _ _ _ _ c Hrep) as (co & cch & fpsn & Hco & Hcch & Hkids & GE).
    rewrite GE in H. cbn [upd]. unfold find_child in *. cbn [nchildren nkey nroute] in *.
    destruct (find_child_from 0 c kidsn) as [i|] eqn:Hfi.
    2:{ (* no edge: not found *)
      unfold K_upd in H. simpl in H. mbind H mo s2 H2. apply get_node_ok in H2. destruct H2 as [-> _].
      apply ret_ok in H. destruct H as [-> ->].
      split; [apply meta_same_refl|]. split; auto. eapply inplace_res_refl; eauto. }
    destruct (nth_error cch i) as [nx|] eqn:Hnx.
    2:{ (* impossible: the index is within the children *)
      destruct (nth_error kidsn i) as [cc|] eqn:Hcc.
      - destruct (all3_nth _ _ _ _ _ _ Hkids Hcc) as (? & ? & Hx & _). congruence.
      - unfold K_upd in H. simpl in H. mbind H mo s2 H2. apply get_node_ok in H2. destruct H2 as [-> _].
        apply ret_ok in H. destruct H as [-> ->].
        split; [apply meta_same_refl|]. split; auto. eapply inplace_res_refl; eauto. }
    destruct (all3_nth_a _ _ _ _ _ _ Hkids Hnx) as (c1 & fc & Hc1 & Hfc1 & Hrepc).
    rewrite Hc1.
    destruct (relink evict p cur s) as [[p' s1]| |] eqn:RL; try discriminate.
    destruct (descend evict evict_sub s p po pch kidsP fpsP j cur (Node kn rn kidsn) fpn cn p' s1
                G Hpo Hpch HrP ND Hj Hcur Hfj Hcn Hfc RL)
      as (co2 & co' & cch2 & fpsn2 & Hco2 & Hcch2 & Hkids2 & Hfpn & Hp' & Hk' & Hr' & Hcch' & Hkids' & Hpo1 & Hpch1 & HrP1 & ND1 & Fr1 & SF1 & MS1 & G1).
    assert (co2 = co) by congruence. subst co2. assert (cch2 = cch) by congruence. subst cch2.
    simpl in Hk', Hr', Hkids2, Hkids'.
    (* the child we descend into, in s1 *)
    destruct (all3_nth _ _ _ _ _ _ Hkids' Hc1) as (nx1 & fc1 & Hnx1 & Hfc1' & Hrepc1).
    assert (nx1 = nx) by congruence. subst nx1.
    destruct (rep_key _ _ _ _ Hrepc1) as (nxo & Hnxo & Knx & Rnx).
    assert (KO : key_of nx s1 = Ok (nkey c1, s1)).
    { unfold key_of, bind, get_node. unfold find_node in Hnxo. rewrite Hnxo. unfold ret. rewrite Knx. auto. }
    rewrite KO in H.
    destruct (match_key (nkey c1) (c :: rest0)) as [[m rest'] brk] eqn:MK.
    destruct (match_key_spec _ _ _ _ _ MK) as (Em & Er & Lm1 & Lm2 & Bt & Bf).
    set (lcp := List.length (common_prefix (c :: rest0) (nkey c1))) in *.
    assert (ND' : NoDup (p' :: n_arr co' :: List.concat fpsn2)).
    { assert (Dc : NoDup (List.concat (set_nth fpsP j (p' :: n_arr co' :: List.concat fpsn2))))
        by (inversion ND1 as [|? ? ? T]; inversion T; auto).
      eapply NoDup_concat_nth; [exact Dc|]. eapply nth_set_nth_eq; eauto. }
    assert (Hc0' : hd_byte (nkey c1) = Some c) by (eapply find_child_hd; eauto).
    (* lifting a result below p' to p *)
    assert (Lift : forall kids', inplace_res s1 s' p' co' fpsn2 kids' ->
                   inplace_res s s' p po fpsP (set_nth kidsP j (Node kn rn kids'))).
    { intros kids' IR.
      apply (inplace_res_pre s s1 s' p po fpsP (set_nth fpsP j (p' :: n_arr co' :: List.concat fpsn2)) _ [n_arr po] Fr1).
      - intros x [<-|[]]. simpl. auto.
      - intros x Hx. destruct (in_concat_set_nth _ _ _ _ Hx) as [Hi|Hi]; auto.
        destruct (SF1 x Hi) as [Hi'|Hi']; auto. left. eapply in_lconcat_nth; eauto.
      - eapply ascend; eauto.
        + eapply nth_set_nth_eq; eauto.
        + eapply nth_set_nth_eq; eauto. }
    assert (LiftId : inplace_res s1 s' p' co' fpsn2 kidsn -> inplace_res s s' p po fpsP kidsP).
    { intros IR. pose proof (Lift _ IR) as L. rewrite (set_nth_same kidsP j _ Hj) in L. exact L. }
    destruct brk.
    + (* mismatch inside the edge: not found *)
      destruct (Bt eq_refl) as [B1 B2].
      unfold K_upd in H. simpl in H. mbind H mo s2 H2. apply get_node_ok in H2. destruct H2 as [-> _].
      assert (Hrest' : rest' <> []).
      { rewrite Er. intros E. apply skipn_nil_iff in E; auto. lia. }
      destruct rest' as [|x rest'']; [congruence|]. simpl in H.
      apply ret_ok in H. destruct H as [-> ->].
      assert (E1 : Nat.eqb lcp (List.length (nkey c1)) = false) by (apply Nat.eqb_neq; lia).
      rewrite E1. split; [exact MS1|]. split; auto.
      apply LiftId. eapply inplace_res_refl; eauto.
    + destruct rest' as [|x rest''].
      * (* the path ends inside or at the end of this edge *)
        assert (Em2 : m = List.length (c :: rest0)).
        { symmetry in Er. apply skipn_nil_iff in Er; auto. }
        destruct f as [|f']; [simpl in H; discriminate|]. simpl in H.
        unfold bind at 1 in H. unfold ret at 1 in H.
        match type of H with K_upd _ ?rr _ = _ =>
          destruct (upd_base rt s1 p' co' cch kidsn fpsn2 i c1 nx c rr out s' G1 Hp' Hcch' Hkids' ND' Hc1 Hnx Hc0' Hfi eq_refl eq_refl H)
            as (MS2 & Res)
        end.
        unfold is_exact in Res. simpl in Res.
        assert (E2 : Nat.eqb lcp (List.length (c :: rest0)) = true) by (apply Nat.eqb_eq; lia).
        rewrite E2. rewrite Em in Res.
        split; [eapply meta_same_trans; eauto|].
        destruct (Nat.eqb lcp (List.length (nkey c1))) eqn:E1; simpl in Res.
        -- unfold is_leaf in Res. destruct (nroute c1) as [rold|]; simpl in Res.
           ++ destruct Res as [-> IR]. split; auto. rewrite <- set_nth_replace. apply Lift. auto.
           ++ destruct Res as [-> ->]. split; auto.
              apply LiftId. eapply inplace_res_refl; eauto.
        -- destruct Res as [-> ->]. split; auto.
           apply LiftId. eapply inplace_res_refl; eauto.
      * (* the whole edge matched and the path goes on *)
        destruct (Bf eq_refl) as [B|B].
        2:{ exfalso. assert (skipn m (c :: rest0) = []) by (apply skipn_nil_iff; auto). congruence. }
        assert (E1 : Nat.eqb lcp (List.length (nkey c1)) = true) by (apply Nat.eqb_eq; lia).
        assert (E2 : Nat.eqb lcp (List.length (c :: rest0)) = false).
        { apply Nat.eqb_neq. intros E. assert (skipn m (c :: rest0) = []) by (apply skipn_nil_iff; auto; lia). congruence. }
        rewrite E1, E2.
        rewrite B in H.
        destruct (IH s1 p' co' cch kidsn fpsn2 i nx c1 fc1 c (Some p) pp (x :: rest'') (c :: rest0) (cm + List.length (nkey c1))%nat (S depth) out s'
                    G1 Hp' Hcch' Hkids' ND' Hc1 Hnx Hfc1' Hc0' Hfi ltac:(discriminate) H) as (MS2 & Res).
        split; [eapply meta_same_trans; eauto|].
        replace (skipn lcp (c :: rest0)) with (x :: rest'') by (rewrite Er, Em; auto).
        destruct (upd f rt c1 (x :: rest'')) as [c'|].
        -- destruct Res as [-> IR]. split; auto. rewrite <- set_nth_replace. apply Lift. auto.
        -- destruct Res as [-> IR]. split; auto.
Qed.

End Sim.

(* ---------- the roots level ---------- *)
Lemma all3_skipn {A B C} (R : A -> B -> C -> Prop) k : forall la lb lc,
  all3 R la lb lc -> all3 R (skipn k la) (skipn k lb) (skipn k lc).
Proof.
  induction k as [|k IH]; intros la lb lc H; simpl; auto.
  destruct la, lb, lc; simpl in *; try tauto. apply IH. tauto.
Qed.

Lemma find_eq_key i m l : find_eq_from i m (map nkey l) = find_key_from i m l.
Proof. revert i. induction l as [|x l IH]; intros i; simpl; auto. destruct (bytes_eqb (nkey x) m); auto. Qed.

Lemma method_index_at_rep s ra rs roots fps m :
  find_arr s ra = Some rs -> reps s rs roots fps ->
  method_index_at ra m s = Ok (method_index roots m, s).
Proof.
  intros Hra Hr. unfold method_index_at, method_index.
  destruct (bytes_eqb m m_get); [reflexivity|]. destruct (bytes_eqb m m_post); [reflexivity|].
  destruct (bytes_eqb m m_put); [reflexivity|]. destruct (bytes_eqb m m_delete); [reflexivity|].
  unfold bind, get_arr. unfold find_arr in Hra. rewrite Hra.
  rewrite (keys_of_reps s (skipn 4 rs) (skipn 4 roots) (skipn 4 fps)).
  - unfold ret. rewrite find_eq_key. reflexivity.
  - apply all3_skipn. exact Hr.
Qed.

Lemma h_method_index_rep s rs roots fps m :
  find_arr s (s_root s) = Some rs -> reps s rs roots fps ->
  h_method_index m s = Ok (method_index roots m, s).
Proof. intros. unfold h_method_index, bind, get_root. eapply method_index_at_rep; eauto. Qed.

Definition roots_ok (rs : list node) : Prop :=
  forall i r, nth_error rs i = Some r -> method_index rs (nkey r) = Some i.

Section Roots.
Variable evict : N -> list addr -> list addr.
Hypothesis evict_sub : forall c w a, In a (evict c w) -> In a w.

Definition relink_root (cur : addr) : M addr :=
  hit <- w_get evict cur ;;
  (if hit then ret cur
   else cp <- clone cur ;; w_add_if_cache evict cp ;;; (update_root cp ;;; ret tt) ;;; ret cp).

Lemma descend_root s rs roots fps i cur n fpn p' s1 :
  good 1 s ->
  find_arr s (s_root s) = Some rs -> reps s rs roots fps -> NoDup (List.concat fps) -> ~ In (s_root s) (List.concat fps) ->
  nth_error roots i = Some n -> nth_error rs i = Some cur -> nth_error fps i = Some fpn ->
  method_index roots (nkey n) = Some i ->
  relink_root cur s = Ok (p', s1) ->
  exists co co' cch fpsn,
    find_node s cur = Some co /\ find_arr s (n_arr co) = Some cch /\ reps s cch (nchildren n) fpsn /\
    fpn = cur :: n_arr co :: List.concat fpsn /\
    find_node s1 p' = Some co' /\ n_key co' = nkey n /\ n_route co' = nroute n /\
    find_arr s1 (n_arr co') = Some cch /\ reps s1 cch (nchildren n) fpsn /\
    let fpn' := p' :: n_arr co' :: List.concat fpsn in
    find_arr s1 (s_root s1) = Some (set_nth rs i p') /\
    reps s1 (set_nth rs i p') roots (set_nth fps i fpn') /\
    NoDup (List.concat (set_nth fps i fpn')) /\ ~ In (s_root s1) (List.concat (set_nth fps i fpn')) /\
    (forall x, x < s_next s -> same_at s s1 x) /\ s_next s <= s_next s1 /\ sub_fresh s fpn fpn' /\
    s_size s1 = s_size s /\ s_maxp s1 = s_maxp s /\ s_depth s1 = s_depth s /\ good 1 s1 /\
    NoDup fpn' /\ ~ In (s_root s1) fpn' .
Proof.
  intros G Hrs Hr ND NR Hi Hcur Hfi MI H.
  pose proof (good1_wf _ G) as Wf.
  destruct (all3_nth _ _ _ _ _ _ Hr Hi) as (cur0 & fpn0 & Hc0 & Hf0 & Hrep).
  assert (cur0 = cur) by congruence. assert (fpn0 = fpn) by congruence. subst cur0 fpn0.
  destruct n as [kn rn kidsn]. simpl in *.
  apply rep_unfold in Hrep. destruct Hrep as (co & cch & fpsn & Hco & Hk & Hrr & Hcch & Hkids & Hfp).
  pose proof (NoDup_concat_nth _ _ _ ND Hfi) as NDf.
  assert (Lall : Forall (V s) (List.concat fps)) by (eapply reps_lt; eauto). rewrite Forall_forall in Lall.
  unfold relink_root in H. mbind H hit s2 H2.
  destruct (w_get_eff _ _ _ _ _ H2) as (HS2 & MS2).
  destruct (w_get_ok evict evict_sub 1 _ _ _ _ G H2) as (G2 & _ & _). clear H2.
  assert (SA2 : forall x, same_at s s2 x) by (intros; apply heap_same_at; auto).
  assert (Nx2 : s_next s2 = s_next s) by (destruct HS2 as (_ & _ & ->); auto).
  destruct MS2 as (R2 & Z2 & P2 & D2 & C2).
  destruct hit.
  - apply ret_ok in H. destruct H as [-> ->].
    exists co, co, cch, fpsn.
    rewrite (set_nth_same rs i cur) by auto. rewrite <- Hfp. rewrite (set_nth_same fps i fpn) by auto.
    assert (A1 : find_node s2 cur = Some co) by (rewrite (proj1 (SA2 cur)); auto).
    assert (A2 : find_arr s2 (n_arr co) = Some cch) by (rewrite (proj2 (SA2 _)); auto).
    assert (A3 : reps s2 cch kidsn fpsn) by (eapply reps_frame; eauto).
    assert (A4 : find_arr s2 (s_root s2) = Some rs) by (rewrite R2, (proj2 (SA2 _)); auto).
    assert (A5 : reps s2 rs roots fps) by (eapply reps_frame; eauto).
    assert (A6 : ~ In (s_root s2) (List.concat fps)) by (rewrite R2; auto).
    assert (A7 : sub_fresh s fpn fpn) by (intros x Hx; auto).
    assert (A8 : ~ In (s_root s2) fpn) by (intros Hx; apply A6; eapply in_lconcat_nth; eauto).
    pose proof A8 as A8'. rewrite Hfp in A8'. pose proof NDf as NDf'. rewrite Hfp in NDf'.
    spl; auto; try lia.
  - mbind H cp s3 H3. unfold clone in H3.
    mbind H3 co2 s4 H4. apply get_node_ok in H4. destruct H4 as [-> Hco2]. rewrite (proj1 (SA2 cur)) in Hco2.
    assert (co2 = co) by congruence. subst co2.
    mbind H3 cch2 s4 H4. apply get_arr_ok in H4. destruct H4 as [-> Hcch2]. rewrite (proj2 (SA2 _)) in Hcch2.
    assert (cch2 = cch) by congruence. subst cch2.
    mbind H3 A' s4 H4.
    pose proof (proj2 (wf_arr _ Wf _ _ Hcch)) as Fcch.
    assert (Fcch2 : Forall (V s2) cch).
    { eapply Forall_impl; [|exact Fcch]. unfold V. rewrite Nx2. auto. }
    destruct (alloc_arr_ok 1 _ _ _ _ G2 Fcch2 H4) as (G4 & _ & V4 & _ & _).
    destruct (alloc_arr_eff _ _ _ _ H4) as (EA & N4 & FA & OA & ON4 & MS4). clear H4.
    pose proof (fun pf => alloc_node_ok 1 _ _ _ _ G4 pf H3) as X. simpl in X.
    destruct (X V4) as (G5 & _ & V5 & _ & _). clear X.
    destruct (alloc_node_eff _ _ _ _ H3) as (EC & N5 & FC & OC & OA5 & MS5). clear H3.
    mbind H u s6 H6. destruct (w_add_if_cache_eff _ _ _ _ _ H6) as (HS6 & MS6).
    assert (O5 : own 1 s3 cp) by (split; [lia|]; eexists; split; [exact FC|]; simpl; lia).
    destruct (w_add_if_cache_ok evict evict_sub 1 _ _ _ _ G5 O5 H6) as (G6 & _). clear H6.
    assert (N6 : s_next s6 = s_next s3) by (destruct HS6 as (_ & _ & ->); auto).
    mbind H u2 s7 H7. apply ret_ok in H. destruct H as [-> <-].
    mbind H7 b s8 H8. apply ret_ok in H7. destruct H7 as [_ <-].
    assert (Vcp6 : V s6 cp) by (unfold V in *; lia).
    destruct (update_root_ok 1 _ _ _ _ G6 Vcp6 H8) as (G8 & _).
    (* state s6: old heap + the clone *)
    assert (Old6 : forall x, x < s_next s -> same_at s s6 x).
    { intros x Lx. eapply same_at_trans; [apply SA2|]. eapply same_at_trans; [|apply heap_same_at; exact HS6].
      split; [rewrite OC by lia; apply ON4|rewrite OA5; apply OA; lia]. }
    assert (FC6 : find_node s6 cp = Some {| n_key := n_key co; n_route := n_route co; n_arr := A' |})
      by (rewrite (proj1 (heap_same_at _ _ cp HS6)); auto).
    assert (FA6 : find_arr s6 A' = Some cch) by (rewrite (proj2 (heap_same_at _ _ A' HS6)), OA5; auto).
    destruct MS4 as (R4 & Z4 & P4 & D4 & _). destruct MS5 as (R5 & Z5 & P5 & D5 & _). destruct MS6 as (R6 & Z6 & P6 & D6 & _).
    assert (Rt6 : s_root s6 = s_root s) by congruence.
    destruct (wf_arr _ Wf _ _ Hrs) as [VR Frs].
    assert (Hrs6 : find_arr s6 (s_root s6) = Some rs).
    { rewrite Rt6. rewrite (proj2 (Old6 _ VR)). auto. }
    assert (Hr6 : reps s6 rs roots fps).
    { eapply reps_frame; eauto. intros x Hx. apply Old6. apply Lall. auto. }
    (* update_root cp *)
    unfold update_root in H8.
    mbind H8 kk s9 H9. unfold key_of in H9. mbind H9 o9 s10 H10. apply get_node_ok in H10. destruct H10 as [-> Ho9].
    apply ret_ok in H9. destruct H9 as [-> ->]. rewrite FC6 in Ho9. inversion Ho9; subst o9; clear Ho9. simpl in H8.
    mbind H8 idx s9 H9. rewrite (h_method_index_rep _ _ _ _ _ Hrs6 Hr6) in H9. inversion H9; subst idx s9; clear H9.
    rewrite Hk, MI in H8.
    mbind H8 rs' s9 H9. unfold get_roots, bind, get_root, get_arr in H9. unfold find_arr in Hrs6. rewrite Hrs6 in H9.
    inversion H9; subst rs' s9; clear H9. fold (find_arr s6 (s_root s6)) in Hrs6.
    destruct (Nat.ltb i (List.length rs)); [|discriminate].
    mbind H8 AR s9 H9.
    destruct (alloc_arr_eff _ _ _ _ H9) as (EAR & N9 & FAR & OAR & ON9 & MS9). clear H9.
    mbind H8 u3 s10 H10. apply ret_ok in H8. destruct H8 as [_ <-].
    destruct (set_root_eff _ _ _ _ H10) as (HS10 & R10 & Z10 & P10 & D10 & C10). clear H10.
    assert (N10 : s_next s1 = s_next s9) by (destruct HS10 as (_ & _ & ->); auto).
    assert (Old10 : forall x, x < s_next s -> same_at s s1 x).
    { intros x Lx. eapply same_at_trans; [apply Old6; auto|]. eapply same_at_trans; [|apply heap_same_at; exact HS10].
      split; [apply ON9|apply OAR; lia]. }
    assert (B1 : find_node s1 cp = Some {| n_key := n_key co; n_route := n_route co; n_arr := A' |}).
    { rewrite (proj1 (heap_same_at _ _ cp HS10)), ON9. auto. }
    assert (B2 : find_arr s1 A' = Some cch).
    { rewrite (proj2 (heap_same_at _ _ A' HS10)), OAR by lia. auto. }
    assert (B3 : reps s1 cch kidsn fpsn).
    { eapply reps_frame; eauto. intros x Hx. apply Old10. apply Lall. eapply in_lconcat_nth; eauto. rewrite Hfp. simpl. auto. }
    assert (B4 : find_arr s1 (s_root s1) = Some (set_nth rs i cp)).
    { rewrite R10. rewrite (proj2 (heap_same_at _ _ AR HS10)). auto. }
    exists co, {| n_key := n_key co; n_route := n_route co; n_arr := A' |}, cch, fpsn. simpl.
    assert (B5 : reps s1 (set_nth rs i cp) roots (set_nth fps i (cp :: A' :: List.concat fpsn))).
    { rewrite <- (set_nth_same roots i _ Hi). apply all3_set.
      - apply (reps_frame s s1 _ _ _ Hr). intros x Hx. apply Old10. apply Lall. auto.
      - apply rep_unfold. eexists _, cch, fpsn. spl; eauto. }
    assert (Lk : forall x, In x (List.concat fpsn) -> x < s_next s).
    { intros x Hx. apply Lall. eapply in_lconcat_nth; eauto. rewrite Hfp. simpl. auto. }
    assert (B6' : NoDup (cp :: A' :: List.concat fpsn)).
    { rewrite Hfp in NDf. inversion NDf as [|? ? H1 T]; inversion T as [|? ? H2 T'].
      constructor; [|constructor; auto].
      + intros [Hx|Hx]; [lia|]. apply Lk in Hx. lia.
      + intros Hx. apply Lk in Hx. lia. }
    assert (B6 : NoDup (List.concat (set_nth fps i (cp :: A' :: List.concat fpsn)))).
    { eapply NoDup_concat_set_nth; eauto.
      intros x [<-|[<-|Hx]].
      + right. intros Hx. apply Lall in Hx. unfold V in Hx. lia.
      + right. intros Hx. apply Lall in Hx. unfold V in Hx. lia.
      + left. rewrite Hfp. simpl. auto. }
    assert (Sub : forall x, In x (List.concat (set_nth fps i (cp :: A' :: List.concat fpsn))) -> x < AR).
    { intros x Hx. destruct (in_concat_set_nth _ _ _ _ Hx) as [[<-|[<-|Hx']]|Hx']; try lia.
      - apply Lk in Hx'. lia.
      - apply Lall in Hx'. unfold V in Hx'. lia. }
    assert (B7 : ~ In (s_root s1) (List.concat (set_nth fps i (cp :: A' :: List.concat fpsn)))).
    { rewrite R10. intros Hx. apply Sub in Hx. lia. }
    assert (B8 : sub_fresh s fpn (cp :: A' :: List.concat fpsn)).
    { intros x [<-|[<-|Hx]]; try (right; lia). left. rewrite Hfp. simpl. auto. }
    assert (B9 : ~ In (s_root s1) (cp :: A' :: List.concat fpsn)).
    { rewrite R10. intros [Hx|[Hx|Hx]]; try lia. apply Lk in Hx. lia. }
    destruct MS9 as (_ & Z9 & P9 & D9 & _).
    spl; auto; try lia; try congruence.
Qed.

End Roots.

Definition trep (s : st) (T : txn) : Prop :=
  exists rs fps, find_arr s (s_root s) = Some rs /\ reps s rs (t_roots T) fps /\
                 NoDup (List.concat fps) /\ ~ In (s_root s) (List.concat fps) /\
                 s_size s = t_size T /\ s_maxp s = t_maxparams T /\ s_depth s = t_depth T.

Lemma ascend_root s1 s' rs1 roots fps1 i p' co' fpsn kn rn kidsn kids' :
  good 1 s1 ->
  find_arr s1 (s_root s1) = Some rs1 -> reps s1 rs1 roots fps1 -> NoDup (List.concat fps1) ->
  ~ In (s_root s1) (List.concat fps1) ->
  nth_error rs1 i = Some p' -> nth_error roots i = Some (Node kn rn kidsn) ->
  nth_error fps1 i = Some (p' :: n_arr co' :: List.concat fpsn) ->
  n_key co' = kn -> n_route co' = rn ->
  inplace_res s1 s' p' co' fpsn kids' ->
  find_arr s' (s_root s1) = Some rs1 /\
  exists fps', reps s' rs1 (set_nth roots i (Node kn rn kids')) fps' /\ NoDup (List.concat fps') /\
               ~ In (s_root s1) (List.concat fps') /\ good 1 s'.
Proof.
  intros G Hrs Hr ND NR Hp' Hi Hfi Hk Hrr (ch' & fps' & Hco' & Hch' & Hkids' & ND' & SF & Fr & G').
  pose proof (good1_wf _ G) as Wf.
  assert (Lall : Forall (V s1) (List.concat fps1)) by (eapply reps_lt; eauto). rewrite Forall_forall in Lall.
  destruct (wf_arr _ Wf _ _ Hrs) as [VR _].
  set (fold := p' :: n_arr co' :: List.concat fpsn) in *.
  set (fnew := p' :: n_arr co' :: List.concat fps').
  assert (InOld : forall x, In x fold -> In x (List.concat fps1)) by (intros x Hx; eapply in_lconcat_nth; eauto).
  assert (Sub : forall x, In x fnew -> In x fold \/ s_next s1 <= x).
  { intros x [<-|[<-|Hx]]; [left; simpl; auto|left; simpl; auto|].
    destruct (SF x Hx); [left; simpl; auto|auto]. }
  assert (Wsub : forall x, In x (n_arr co' :: List.concat fpsn) -> In x fold) by (intros x Hx; simpl; auto).
  split.
  { rewrite (proj2 (frame_old _ _ _ (s_root s1) Fr VR ltac:(intros Hx; apply NR; apply InOld; apply Wsub; auto))). auto. }
  exists (set_nth fps1 i fnew).
  assert (Sub2 : forall x, In x (List.concat (set_nth fps1 i fnew)) -> In x (List.concat fps1) \/ s_next s1 <= x).
  { intros x Hx. destruct (in_concat_set_nth _ _ _ _ Hx) as [Hx'|Hx']; auto. destruct (Sub x Hx'); auto. }
  spl; auto.
  - rewrite <- (set_nth_same rs1 i p' Hp'). eapply all3_set_frame; [exact Hr| |].
    + intros k x y z Hne Hx Hy Hz Hrep. eapply rep_frame'; eauto.
      intros a Ha Hin. apply Wsub in Hin.
      exact (NoDup_concat_disj _ _ _ _ _ _ ND Hne Hz Hfi Ha Hin).
    + apply rep_unfold. exists co', ch', fps'. spl; auto.
  - apply (NoDup_concat_set_nth fps1 i fold fnew ND Hfi).
    + exact ND'.
    + intros x Hx. destruct (Sub x Hx); auto. right. intros Hin. apply Lall in Hin. unfold V in Hin. lia.
  - intros Hx. destruct (Sub2 _ Hx) as [Hx'|Hx']; auto. unfold V in VR. lia.
Qed.

Section Upd.
Variable evict : N -> list addr -> list addr.
Hypothesis evict_sub : forall c w a, In a (evict c w) -> In a w.

Lemma cow_loop_unfold_root fuel cur c rest0 from cm cmin depth {A} (K : sres -> M A) s :
  (r <- cow_loop evict (S fuel) cur None None None (c :: rest0) from cm cmin depth ;; K r) s =
  match get_edge cur c s with
  | Ok (None, s0) => K {| r_matched := cur; r_p := None; r_pp := None; r_ppp := None; r_rest := c :: rest0; r_from := from;
                          r_cm := cm; r_cmin := cmin; r_depth := depth |} s0
  | Ok (Some nx, s0) =>
      match relink_root evict cur s0 with
      | Ok (p', s1) =>
          match key_of nx s1 with
          | Ok (key, s2) =>
              let '(n, rest', brk) := match_key key (c :: rest0) in
              if brk then K {| r_matched := nx; r_p := Some p'; r_pp := None; r_ppp := None; r_rest := rest'; r_from := c :: rest0;
                               r_cm := cm + n; r_cmin := n; r_depth := S depth |} s2
              else (r <- cow_loop evict fuel nx (Some p') None None rest' (c :: rest0) (cm + n) n (S depth) ;; K r) s2
          | Panic => Panic | Oof => Oof
          end
      | Panic => Panic | Oof => Oof
      end
  | Panic => Panic | Oof => Oof
  end.
Proof.
  simpl. unfold relink_root, bind, ret.
  destruct (get_edge cur c s) as [[[nx|] s0]| |]; auto.
  destruct (w_get evict cur s0) as [[hit s1]| |]; auto.
  destruct hit.
  - destruct (key_of nx s1) as [[key s2]| |]; auto.
    destruct (match_key key (c :: rest0)) as [[n rest'] brk]. destruct brk; auto.
  - destruct (clone cur s1) as [[cp s2]| |]; auto.
    destruct (w_add_if_cache evict cp s2) as [[u s3]| |]; auto.
    destruct (update_root cp s3) as [[u2 s4]| |]; auto.
    destruct (key_of nx s4) as [[key s5]| |]; auto.
    destruct (match_key key (c :: rest0)) as [[n rest'] brk]. destruct brk; auto.
Qed.

Definition upd_child (f : nat) (rt : route) (c1 : node) (rest : bytes) : option node :=
  let lcp := List.length (common_prefix rest (nkey c1)) in
  if Nat.eqb lcp (List.length (nkey c1)) then
    if Nat.eqb lcp (List.length rest) then
      match nroute c1 with Some _ => Some (Node (nkey c1) (Some rt) (nchildren c1)) | None => None end
    else upd f rt c1 (skipn lcp rest)
  else None.

Lemma upd_step f rt k r kids c rest0 :
  upd (S f) rt (Node k r kids) (c :: rest0) =
  match find_child_from 0 c kids with
  | None => None
  | Some i => match nth_error kids i with
              | None => None
              | Some c1 => option_map (fun c' => Node k r (replace_nth kids i c')) (upd_child f rt c1 (c :: rest0))
              end
  end.
Proof.
  cbn [upd]. unfold find_child, upd_child. cbn [nchildren nkey nroute].
  destruct (find_child_from 0 c kids) as [i|]; auto.
  destruct (nth_error kids i) as [c1|]; auto.
  destruct (Nat.eqb _ (List.length (nkey c1))); auto.
  destruct (Nat.eqb _ (List.length (c :: rest0))).
  - destruct (nroute c1); auto.
  - destruct (upd f rt c1 _); auto.
Qed.

(* the part of an iteration after the clone-or-reuse block, below an in-place node p' *)
Lemma upd_below rt f s1 p' co' cch kidsn fpsn i nx c1 fc1 c rest0 pp' ppp' cm depth out s' :
  good 1 s1 -> find_node s1 p' = Some co' -> find_arr s1 (n_arr co') = Some cch -> reps s1 cch kidsn fpsn ->
  NoDup (p' :: n_arr co' :: List.concat fpsn) ->
  nth_error kidsn i = Some c1 -> nth_error cch i = Some nx -> nth_error fpsn i = Some fc1 ->
  find_child_from 0 c kidsn = Some i ->
  match key_of nx s1 with
  | Ok (key, s2) =>
      let '(n, rest', brk) := match_key key (c :: rest0) in
      if brk then K_upd rt {| r_matched := nx; r_p := Some p'; r_pp := pp'; r_ppp := ppp'; r_rest := rest'; r_from := c :: rest0;
                              r_cm := cm + n; r_cmin := n; r_depth := S depth |} s2
      else (r <- cow_loop evict f nx (Some p') pp' ppp' rest' (c :: rest0) (cm + n) n (S depth) ;; K_upd rt r) s2
  | Panic => Panic | Oof => Oof
  end = Ok (out, s') ->
  meta_same s1 s' /\
  match upd_child f rt c1 (c :: rest0) with
  | Some c' => out = true /\ inplace_res s1 s' p' co' fpsn (set_nth kidsn i c')
  | None => out = false /\ inplace_res s1 s' p' co' fpsn kidsn
  end.
Proof.
  intros G1 Hp' Hcch' Hkids' ND' Hc1 Hnx Hfc1' Hfi H.
  destruct (all3_nth _ _ _ _ _ _ Hkids' Hc1) as (nx1 & fc1' & Hnx1 & Hfc1'' & Hrepc1).
  assert (nx1 = nx) by congruence. subst nx1. assert (fc1' = fc1) by congruence. subst fc1'.
  destruct (rep_key _ _ _ _ Hrepc1) as (nxo & Hnxo & Knx & Rnx).
  assert (KO : key_of nx s1 = Ok (nkey c1, s1)).
  { unfold key_of, bind, get_node. unfold find_node in Hnxo. rewrite Hnxo. unfold ret. rewrite Knx. auto. }
  rewrite KO in H.
  destruct (match_key (nkey c1) (c :: rest0)) as [[m rest'] brk] eqn:MK.
  destruct (match_key_spec _ _ _ _ _ MK) as (Em & Er & Lm1 & Lm2 & Bt & Bf).
  unfold upd_child.
  set (lcp := List.length (common_prefix (c :: rest0) (nkey c1))) in *. cbv zeta.
  assert (Hc0' : hd_byte (nkey c1) = Some c) by (eapply find_child_hd; eauto).
  assert (Same : inplace_res s1 s1 p' co' fpsn kidsn) by (eapply inplace_res_refl; eauto).
  destruct brk.
  - destruct (Bt eq_refl) as [B1 B2].
    unfold K_upd in H. simpl in H. mbind H mo s2 H2. apply get_node_ok in H2. destruct H2 as [-> _].
    assert (Hrest' : rest' <> []).
    { rewrite Er. intros E. apply skipn_nil_iff in E; auto. lia. }
    destruct rest' as [|x rest'']; [congruence|]. simpl in H.
    apply ret_ok in H. destruct H as [-> ->].
    assert (E1 : Nat.eqb lcp (List.length (nkey c1)) = false) by (apply Nat.eqb_neq; lia).
    rewrite E1. split; [apply meta_same_refl|]. split; auto.
  - destruct rest' as [|x rest''].
    + assert (Em2 : m = List.length (c :: rest0)).
      { symmetry in Er. apply skipn_nil_iff in Er; auto. }
      destruct f as [|f']; [simpl in H; discriminate|]. simpl in H.
      unfold bind at 1 in H. unfold ret at 1 in H.
      match type of H with K_upd _ ?rr _ = _ =>
        destruct (upd_base rt s1 p' co' cch kidsn fpsn i c1 nx c rr out s' G1 Hp' Hcch' Hkids' ND' Hc1 Hnx Hc0' Hfi eq_refl eq_refl H)
          as (MS2 & Res)
      end.
      unfold is_exact in Res. simpl in Res.
      assert (E2 : Nat.eqb lcp (List.length (c :: rest0)) = true) by (apply Nat.eqb_eq; lia).
      rewrite E2. rewrite Em in Res. split; auto.
      destruct (Nat.eqb lcp (List.length (nkey c1))) eqn:E1; simpl in Res.
      * unfold is_leaf in Res. destruct (nroute c1) as [rold|]; simpl in Res.
        -- destruct Res as [-> IR]. split; auto.
        -- destruct Res as [-> ->]. split; auto.
      * destruct Res as [-> ->]. split; auto.
    + destruct (Bf eq_refl) as [B|B].
      2:{ exfalso. assert (skipn m (c :: rest0) = []) by (apply skipn_nil_iff; auto). congruence. }
      assert (E1 : Nat.eqb lcp (List.length (nkey c1)) = true) by (apply Nat.eqb_eq; lia).
      assert (E2 : Nat.eqb lcp (List.length (c :: rest0)) = false).
      { apply Nat.eqb_neq. intros E. assert (skipn m (c :: rest0) = []) by (apply skipn_nil_iff; auto; lia). congruence. }
      rewrite E1, E2. rewrite B in H.
      destruct (upd_sim evict evict_sub rt f s1 p' co' cch kidsn fpsn i nx c1 fc1 c pp' ppp' (x :: rest'') (c :: rest0)
                  (cm + List.length (nkey c1))%nat (S depth) out s'
                  G1 Hp' Hcch' Hkids' ND' Hc1 Hnx Hfc1' Hc0' Hfi ltac:(discriminate) H) as (MS2 & Res).
      split; auto.
      replace (skipn lcp (c :: rest0)) with (x :: rest'') by (rewrite Er, Em; auto).
      exact Res.
Qed.

Theorem h_update_refines m ri s T b s' :
  good 1 s -> trep s T -> roots_ok (t_roots T) ->
  h_update evict m ri s = Ok (b, s') ->
  match update T m ri with
  | ROk T' => b = true /\ trep s' T'
  | _ => b = false /\ trep s' T
  end.
Proof.
  intros G (rs & fps & Hrs & Hr & ND & NR & Zs & Ps & Ds) RO H.
  assert (TR : trep s T) by (exists rs, fps; spl; auto).
  unfold h_update in H. unfold update.
  mbind H idx s0 H0. rewrite (h_method_index_rep _ _ _ _ _ Hrs Hr) in H0. inversion H0; subst idx s0; clear H0.
  destruct (method_index (t_roots T) m) as [i|] eqn:MI.
  2:{ apply ret_ok in H. destruct H as [-> ->]. auto. }
  mbind H rs' s0 H0. unfold get_roots, bind, get_root, get_arr in H0. unfold find_arr in Hrs. rewrite Hrs in H0.
  inversion H0; subst rs' s0; clear H0. fold (find_arr s (s_root s)) in Hrs.
  mbind H rn s0 H0. apply opt_get_ok in H0. destruct H0 as [Hrn ->].
  destruct (all3_nth_a _ _ _ _ _ _ Hr Hrn) as (root & fpr & Hroot & Hfpr & Hrep).
  rewrite Hroot. unfold cow_search in H.
  set (rt := ri_route ri) in *. set (path := rpat rt) in *.
  change (fun r => mo <- get_node (r_matched r);; _) with (K_upd rt) in H.
  destruct root as [kr rr kidsr].
  destruct path as [|c rest0] eqn:Epath.
  - (* empty pattern *)
    simpl in H. unfold bind at 1 in H. unfold ret at 1 in H. unfold K_upd in H. simpl in H.
    mbind H mo s0 H0. apply get_node_ok in H0. destruct H0 as [-> Hmo].
    unfold is_exact in H. cbn [r_rest r_cmin] in H.
    destruct (Nat.eqb 0 (List.length (n_key mo))); [destruct (n_route mo)|];
      try (apply ret_ok in H; destruct H as [-> ->]; simpl; auto).
    mbind H x s0 H0. mbind H q s1 H1. simpl in H1. discriminate.
  - rewrite cow_loop_unfold_root in H.
    destruct (get_edge_rep _ _ _ _ _ _ c Hrep) as (co & cch & fpsn & Hco & Hcch & Hkids & GE).
    rewrite GE in H. simpl List.length. rewrite upd_step. unfold find_child in *. cbn [nchildren nkey nroute] in *.
    destruct (find_child_from 0 c kidsr) as [i'|] eqn:Hfi.
    2:{ unfold K_upd in H. simpl in H. mbind H mo s2 H2. apply get_node_ok in H2. destruct H2 as [-> _].
        apply ret_ok in H. destruct H as [-> ->]. auto. }
    destruct (nth_error cch i') as [nx|] eqn:Hnx.
    2:{ destruct (nth_error kidsr i') as [cc|] eqn:Hcc.
        - destruct (all3_nth _ _ _ _ _ _ Hkids Hcc) as (? & ? & Hx & _). congruence.
        - unfold K_upd in H. simpl in H. mbind H mo s2 H2. apply get_node_ok in H2. destruct H2 as [-> _].
          apply ret_ok in H. destruct H as [-> ->]. auto. }
    destruct (all3_nth_a _ _ _ _ _ _ Hkids Hnx) as (c1 & fc & Hc1 & Hfc1 & Hrepc).
    rewrite Hc1.
    destruct (relink_root evict rn s) as [[p' s1]| |] eqn:RL; try discriminate.
    destruct (descend_root evict evict_sub s rs (t_roots T) fps i rn (Node kr rr kidsr) fpr p' s1
                G Hrs Hr ND NR Hroot Hrn Hfpr (RO _ _ Hroot) RL)
      as (co2 & co' & cch2 & fpsn2 & Hco2 & Hcch2 & Hkids2 & Hfpn & Hp' & Hk' & Hr' & Hcch' & Hkids' & Hrs1 & Hr1 & ND1 & NR1 & Old1 & Nx1 & SF1 & Z1 & P1 & D1 & G1 & NDp' & NRp').
    assert (co2 = co) by congruence. subst co2. assert (cch2 = cch) by congruence. subst cch2.
    cbn [nchildren nkey nroute] in *.
    destruct (all3_nth _ _ _ _ _ _ Hkids' Hc1) as (nx1 & fc1 & Hnx1 & Hfc1' & Hrepc1).
    assert (nx1 = nx) by congruence. subst nx1.
    destruct (upd_below rt _ s1 p' co' cch kidsr fpsn2 i' nx c1 fc1 c rest0 None None 0%nat 0%nat b s'
                G1 Hp' Hcch' Hkids' NDp' Hc1 Hnx Hfc1' Hfi H) as (MS & Res).
    simpl List.length in *.
    destruct MS as (Rt' & Z' & P' & D' & _).
    assert (Fin : forall kids', inplace_res s1 s' p' co' fpsn2 kids' ->
                  trep s' {| t_roots := replace_nth (t_roots T) i (Node kr rr kids'); t_size := t_size T;
                             t_maxparams := t_maxparams T; t_depth := t_depth T |}).
    { intros kids' IR.
      destruct (ascend_root s1 s' _ _ _ i p' co' fpsn2 kr rr kidsr kids' G1 Hrs1 Hr1 ND1 NR1
                  ltac:(eapply nth_set_nth_eq; eauto) Hroot ltac:(eapply nth_set_nth_eq; eauto) Hk' Hr' IR)
        as (Hrs' & fps' & Hr'' & ND'' & NR'' & G').
      exists (set_nth rs i p'), fps'. rewrite Rt'. simpl. rewrite <- set_nth_replace. spl; auto; congruence. }
    destruct (upd_child (S (List.length rest0)) rt c1 (c :: rest0)) as [c'|]; simpl.
    + destruct Res as [-> IR]. split; auto.
      rewrite <- (set_nth_replace kidsr i' c'). apply Fin. auto.
    + destruct Res as [-> IR]. split; auto.
      pose proof (Fin _ IR) as F. rewrite <- set_nth_replace in F. rewrite (set_nth_same _ _ _ Hroot) in F.
      destruct T; exact F.
Qed.

End Upd.

(* ---------- insert ---------- *)
Lemma good_set_meta s sz mp d : good 1 s -> good 1 (set_meta s sz mp d).
Proof. intros G. apply good_meta. auto. Qed.

Lemma perm_nil_concat (l : list (list addr)) : Permutation (List.concat l) [] -> List.concat l = [].
Proof. intros H. apply Permutation_nil. apply Permutation_sym. auto. Qed.

(* a fresh leaf (or host node + path leaf): everything it uses is allocated now *)
Lemma new_leaf_rep ri cm suffix s c add s1 :
  good 1 s -> h_new_leaf ri cm suffix s = Ok ((c, add), s1) ->
  add = snd (new_leaf ri cm suffix) /\
  exists fpc, rep s1 c (fst (new_leaf ri cm suffix)) fpc /\ NoDup fpc /\ (forall x, In x fpc -> s_next s <= x) /\
    (forall y, y < s_next s -> same_at s s1 y) /\ s_next s <= s_next s1 /\ meta_same s s1 /\ good 1 s1.
Proof.
  intros G H. unfold h_new_leaf, new_leaf in *.
  destruct (Nat.ltb 0 (ri_hostsplit ri) && Nat.ltb cm (ri_hostsplit ri))%bool.
  - (* host node above the path leaf *)
    mbind H e s2 H2.
    destruct (alloc_arr_ok 1 [] _ _ _ G (Forall_nil _) H2) as (G2 & _).
    destruct (alloc_arr_eff _ _ _ _ H2) as (Ee & N2 & Fe & Oe & One & MS2). clear H2.
    mbind H pc s3 H3.
    assert (R0 : reps s2 [] [] []) by (simpl; auto).
    destruct (new_node_rep _ _ _ _ _ _ _ _ _ G2 Fe R0 ltac:(simpl; tauto) H3) as (fps3 & Epc & N3 & Rpc & Perm3 & Old3 & MS3 & G3). clear H3.
    apply perm_nil_concat in Perm3. rewrite Perm3 in Rpc.
    mbind H a s4 H4.
    assert (Vpc : Forall (V s3) [pc]) by (constructor; auto; unfold V; lia).
    destruct (alloc_arr_ok 1 _ _ _ _ G3 Vpc H4) as (G4 & _).
    destruct (alloc_arr_eff _ _ _ _ H4) as (Ea & N4 & Fa & Oa & Ona & MS4). clear H4.
    mbind H c0 s5 H5. apply ret_ok in H. destruct H as [H <-]. inversion H; subst c0 add; clear H.
    assert (Rpc4 : rep s4 pc (Node (skipn (ri_hostsplit ri - cm) suffix) (Some (ri_route ri)) []) [pc; e]).
    { eapply rep_frame; [exact Rpc|]. intros x Hx. split; [apply Ona|apply Oa]. simpl in Hx. lia. }
    assert (R4 : reps s4 [pc] [Node (skipn (ri_hostsplit ri - cm) suffix) (Some (ri_route ri)) []] [[pc; e]]) by (simpl; auto).
    destruct (new_node_rep _ _ _ _ _ _ _ _ _ G4 Fa R4 ltac:(simpl; lia) H5) as (fps5 & Ec & N5 & Rc & Perm5 & Old5 & MS5 & G5). clear H5.
    split; auto. simpl in Perm5. try rewrite app_nil_r in Perm5.
    exists (c :: a :: List.concat fps5). spl; auto.
    + constructor; [|constructor].
      * intros [Hx|Hx]; [lia|]. apply (Permutation_in _ Perm5) in Hx. simpl in Hx. lia.
      * intros Hx. apply (Permutation_in _ Perm5) in Hx. simpl in Hx. lia.
      * eapply Permutation_NoDup; [apply Permutation_sym; exact Perm5|]. constructor; [simpl; lia|]. constructor; auto. constructor.
    + intros x [<-|[<-|Hx]]; try lia. apply (Permutation_in _ Perm5) in Hx. simpl in Hx. lia.
    + intros y Ly. eapply same_at_trans; [|apply Old5; lia].
      eapply same_at_trans; [|split; [apply Ona|apply Oa; lia]].
      eapply same_at_trans; [|apply Old3; lia]. split; [apply One|apply Oe; lia].
    + lia.
    + eapply meta_same_trans; [exact MS2|]. eapply meta_same_trans; [exact MS3|]. eapply meta_same_trans; eauto.
  - mbind H e s2 H2.
    destruct (alloc_arr_ok 1 [] _ _ _ G (Forall_nil _) H2) as (G2 & _).
    destruct (alloc_arr_eff _ _ _ _ H2) as (Ee & N2 & Fe & Oe & One & MS2). clear H2.
    mbind H c0 s3 H3. apply ret_ok in H. destruct H as [H <-]. inversion H; subst c0 add; clear H.
    assert (R0 : reps s2 [] [] []) by (simpl; auto).
    destruct (new_node_rep _ _ _ _ _ _ _ _ _ G2 Fe R0 ltac:(simpl; tauto) H3) as (fps3 & Epc & N3 & Rpc & Perm3 & Old3 & MS3 & G3). clear H3.
    apply perm_nil_concat in Perm3. rewrite Perm3 in Rpc. simpl in Rpc.
    split; auto. exists [c; e]. spl; auto.
    + constructor; [simpl; lia|]. constructor; auto. constructor.
    + intros x [<-|[<-|[]]]; lia.
    + intros y Ly. eapply same_at_trans; [|apply Old3; lia]. split; [apply One|apply Oe; lia].
    + lia.
    + eapply meta_same_trans; eauto.
Qed.

(* the case analysis of Tree.ins on the child c reached from a fully matched node *)
Definition ins_child (f : nat) (ri : rinfo) (c : node) (cm depth : nat) (rest : bytes) : ins_res :=
  let cp := common_prefix rest (nkey c) in
  let lcp := List.length cp in
  if Nat.eqb lcp (List.length (nkey c)) then
    if Nat.eqb lcp (List.length rest) then
      match nroute c with
      | Some r => InsErr (ErrExist (rpat r))
      | None => InsOk (Node (nkey c) (Some (ri_route ri)) (nchildren c)) 0
      end
    else ins f ri c (cm + lcp) (S depth) (skipn lcp rest)
  else if Nat.eqb lcp (List.length rest) then
    InsOk (Tree.new_node cp (Some (ri_route ri)) [Node (skipn lcp (nkey c)) (nroute c) (nchildren c)]) (S depth + 1)
  else
    let cm' := (cm + lcp)%nat in
    if prefix_conflict (Nat.leb cm' (ri_hostsplit ri)) cp then InsErr (ErrConflict (route_conflict c))
    else
      let '(n1, add) := new_leaf ri cm' (skipn lcp rest) in
      let n2 := Node (skipn lcp (nkey c)) (nroute c) (nchildren c) in
      InsOk (Tree.new_node cp None [n1; n2]) (S depth + add).

Lemma ins_step f ri k r kids cm depth c0 rest0 :
  ins (S f) ri (Node k r kids) cm depth (c0 :: rest0) =
  match find_child_from 0 c0 kids with
  | None => let '(child, add) := new_leaf ri cm (c0 :: rest0) in
            InsOk (Tree.new_node k r (kids ++ [child])) (depth + add)
  | Some i =>
      match nth_error kids i with
      | None => InsErr (ErrConflict [])
      | Some c => match ins_child f ri c cm depth (c0 :: rest0) with
                  | InsOk c' d => InsOk (Node k r (replace_nth kids i c')) d
                  | InsErr e => InsErr e
                  end
      end
  end.
Proof.
  cbn [ins]. unfold find_child, ins_child. cbn [nchildren nkey nroute].
  destruct (find_child_from 0 c0 kids) as [i|]; auto.
  destruct (nth_error kids i) as [c|]; auto.
  destruct (Nat.eqb _ (List.length (nkey c))).
  - destruct (Nat.eqb _ (List.length (c0 :: rest0))).
    + destruct (nroute c); auto.
    + destruct (ins f ri c _ _ _); auto.
  - destruct (Nat.eqb _ (List.length (c0 :: rest0))); auto.
    destruct (prefix_conflict _ _); auto.
    destruct (new_leaf ri _ _); auto.
Qed.

(* linking a freshly built subtree x into slot i of the in-place node q, after allocations only *)
Lemma install s s4 q qo qch kids fps i c fc c0 x xn fx s' :
  good 1 s -> find_node s q = Some qo -> find_arr s (n_arr qo) = Some qch -> reps s qch kids fps ->
  NoDup (q :: n_arr qo :: List.concat fps) ->
  nth_error kids i = Some c -> nth_error fps i = Some fc ->
  hd_byte (nkey c) = Some c0 -> find_child_from 0 c0 kids = Some i ->
  (forall y, y < s_next s -> same_at s s4 y) -> s_next s <= s_next s4 -> good 1 s4 ->
  rep s4 x xn fx -> hd_byte (nkey xn) = Some c0 -> NoDup fx ->
  (forall y, In y fx -> In y fc \/ s_next s <= y) ->
  update_edge q x s4 = Ok (tt, s') ->
  inplace_res s s' q qo fps (set_nth kids i xn) /\ meta_same s4 s'.
Proof.
  intros G Hq Hqch Hr ND Hi Hfi Hc0 Hfc Old Nx G4 Hx Hx0 NDx Sub H.
  pose proof (good1_wf _ G) as Wf.
  assert (Lall : Forall (V s) (q :: n_arr qo :: List.concat fps)).
  { destruct (wf_node _ Wf _ _ Hq). constructor; auto. constructor; auto. eapply reps_lt; eauto. }
  rewrite Forall_forall in Lall.
  assert (SA : forall y, In y (q :: n_arr qo :: List.concat fps) -> same_at s s4 y) by (intros y Hy; apply Old; apply Lall; auto).
  assert (Hq4 : find_node s4 q = Some qo) by (rewrite (proj1 (SA q ltac:(simpl; auto))); auto).
  assert (Hqch4 : find_arr s4 (n_arr qo) = Some qch) by (rewrite (proj2 (SA _ ltac:(simpl; auto))); auto).
  assert (Hr4 : reps s4 qch kids fps) by (eapply reps_frame; eauto; intros y Hy; apply SA; simpl; auto).
  destruct (patch_child s4 q qo qch kids fps i c fc c0 x xn fx s' G4 Hq4 Hqch4 Hr4 ND Hi Hfi Hc0 Hfc Hx Hx0 NDx)
    as (P1 & P2 & P3 & P4 & P5 & P6 & P7 & P8); auto.
  { intros y Hy. destruct (Sub y Hy) as [?|Ly]; auto. right. intros Hin. apply Lall in Hin. unfold V in Hin. lia. }
  split; auto.
  exists (set_nth qch i x), (set_nth fps i fx). spl; auto.
  - intros y Hy. destruct (in_concat_set_nth _ _ _ _ Hy) as [Hin|Hin]; auto.
    destruct (Sub y Hin) as [?|?]; auto. left. eapply in_lconcat_nth; eauto.
  - split; [lia|]. intros y Ly Ny. eapply same_at_trans; [apply Old; auto|]. apply P5. intros ->. apply Ny. simpl. auto.
Qed.

Lemma find_child_from_lt c kids : forall b i, find_child_from b c kids = Some i -> (i < b + List.length kids)%nat.
Proof.
  induction kids as [|k kids IH]; intros b i H; simpl in H; [discriminate|].
  destruct (starts_with c (nkey k)); [inversion H; subst; simpl; lia|]. apply IH in H. simpl. lia.
Qed.

(* the part of tXn.insert after copyOnWriteSearch *)
Section Ins.
Variable evict : N -> list addr -> list addr.
Hypothesis evict_sub : forall c w a, In a (evict c w) -> In a w.

Definition K_ins (method : bytes) (rootNode : addr) (ri : rinfo) (r : sres) : M ins_out :=
  mo <- get_node (r_matched r) ;;
  match classify r (List.length (n_key mo)) with
  | None => panic
  | Some ExactMatch =>
      match n_route mo with
      | Some rt => ret (IExist (rpat rt))
      | None =>
          n <- new_node_from_ref (n_key mo) (Some (ri_route ri)) (n_arr mo) ;;
          bump_size 1 ;;; upd_maxp (ri_pslen ri) ;;;
          p <- opt_get (r_p r) ;; update_edge p n ;;; ret IOk
      end
  | Some KeyEndMidEdge =>
      let cp := common_prefix (r_from r) (n_key mo) in
      let suffix := skipn (List.length cp) (n_key mo) in
      child <- new_node_from_ref suffix (n_route mo) (n_arr mo) ;;
      a <- alloc_arr [child] ;;
      parent <- new_node cp (Some (ri_route ri)) a ;;
      bump_size 1 ;;; upd_maxp (ri_pslen ri) ;;; upd_depth (r_depth r + 1) ;;;
      p <- opt_get (r_p r) ;; update_edge p parent ;;; ret IOk
  | Some IncToEnd =>
      '(child, add) <- h_new_leaf ri (r_cm r) (r_rest r) ;;
      ch <- get_arr (n_arr mo) ;;
      a <- alloc_arr (ch ++ [child]) ;;
      n <- new_node (n_key mo) (n_route mo) a ;;
      bump_size 1 ;;; upd_depth (r_depth r + add) ;;; upd_maxp (ri_pslen ri) ;;;
      if Pos.eqb (r_matched r) rootNode then
        set_key n method ;;; w_add_if_cache evict n ;;; update_root n ;;; ret IOk
      else p <- opt_get (r_p r) ;; update_edge p n ;;; ret IOk
  | Some IncToMiddle =>
      let cp := common_prefix (r_from r) (n_key mo) in
      if prefix_conflict (Nat.leb (r_cm r) (ri_hostsplit ri)) cp then ret (IConflict (r_matched r))
      else
        let suffix := skipn (List.length cp) (n_key mo) in
        '(n1, add) <- h_new_leaf ri (r_cm r) (r_rest r) ;;
        n2 <- new_node_from_ref suffix (n_route mo) (n_arr mo) ;;
        a <- alloc_arr [n1; n2] ;;
        n3 <- new_node cp None a ;;
        bump_size 1 ;;; upd_depth (r_depth r + add) ;;; upd_maxp (ri_pslen ri) ;;;
        p <- opt_get (r_p r) ;; update_edge p n3 ;;; ret IOk
  end.

Lemma h_insert_unfold method ri :
  h_insert evict method ri =
  (idx <- h_method_index method ;;
   rootNode <- (match idx with
                | None => e <- alloc_arr [] ;;
                          rn <- alloc_node {| n_key := method; n_route := None; n_arr := e |} ;;
                          add_root rn ;;; ret rn
                | Some i => rs <- get_roots ;; opt_get (nth_error rs i)
                end) ;;
   r <- cow_search evict rootNode (rpat (ri_route ri)) ;; K_ins method rootNode ri r).
Proof. reflexivity. Qed.

(* what a step of insert below an in-place node q (child i) must establish *)
Definition ins_post (s s' : st) (q : addr) (qo : nobj) (fps : list (list addr)) (kids : list node) (i : nat)
           (ri : rinfo) (res : ins_res) (out : ins_out) : Prop :=
  s_root s' = s_root s /\ s_cache s' = s_cache s /\
  match res with
  | InsOk c' d =>
      out = IOk /\ inplace_res s s' q qo fps (set_nth kids i c') /\
      s_size s' = (s_size s + 1)%Z /\ s_maxp s' = Nat.max (s_maxp s) (ri_pslen ri) /\ s_depth s' = Nat.max (s_depth s) d
  | InsErr (ErrExist p) =>
      out = IExist p /\ inplace_res s s' q qo fps kids /\
      s_size s' = s_size s /\ s_maxp s' = s_maxp s /\ s_depth s' = s_depth s
  | InsErr (ErrConflict ps) =>
      exists a cn fpa, out = IConflict a /\ rep s' a cn fpa /\ route_conflict cn = ps /\
      inplace_res s s' q qo fps kids /\
      s_size s' = s_size s /\ s_maxp s' = s_maxp s /\ s_depth s' = s_depth s
  end.

Lemma hd_new_node k r l : hd_byte (nkey (Tree.new_node k r l)) = hd_byte k.
Proof. reflexivity. Qed.

(* incompleteMatchToEndOfEdge below an in-place node q: the matched child gets one more edge *)
Lemma ins_base_end method rootNode ri s q qo qch kids fps i n nx c0 r out s' :
  good 1 s -> find_node s q = Some qo -> find_arr s (n_arr qo) = Some qch -> reps s qch kids fps ->
  NoDup (q :: n_arr qo :: List.concat fps) ->
  nth_error kids i = Some n -> nth_error qch i = Some nx ->
  hd_byte (nkey n) = Some c0 -> find_child_from 0 c0 kids = Some i ->
  r_matched r = nx -> r_p r = Some q -> r_rest r <> [] -> r_cmin r = List.length (nkey n) -> nx <> rootNode ->
  K_ins method rootNode ri r s = Ok (out, s') ->
  ins_post s s' q qo fps kids i ri
    (let '(child, add) := new_leaf ri (r_cm r) (r_rest r) in
     InsOk (Tree.new_node (nkey n) (nroute n) (nchildren n ++ [child])) (r_depth r + add)) out.
Proof.
  intros G Hq Hqch Hr ND Hi Hnx Hc0 Hfc Hm Hp Hrest Hcmin Hroot H.
  pose proof (good1_wf _ G) as Wf.
  destruct (all3_nth _ _ _ _ _ _ Hr Hi) as (nx0 & fc & Hnx0 & Hfi & Hrep).
  assert (nx0 = nx) by congruence. subst nx0.
  destruct n as [kn rn kidsn]. cbn [nkey nroute nchildren] in *.
  pose proof Hrep as Hrep0. apply rep_unfold in Hrep. destruct Hrep as (mo & mch & fpsn & Hmo & Hk & Hrr & Hmch & Hkidsn & Hfc').
  assert (Lfc : forall y, In y fc -> y < s_next s).
  { intros y Hy. pose proof (rep_lt _ Wf _ _ _ Hrep0) as L. rewrite Forall_forall in L. apply L. auto. }
  unfold K_ins in H. rewrite Hm in H. mbind H mo2 s0 H0. apply get_node_ok in H0. destruct H0 as [-> Hmo2].
  assert (mo2 = mo) by congruence. subst mo2. rewrite Hk, Hrr in H.
  unfold classify in H. destruct (r_rest r) as [|x0 rest0] eqn:Erest; [congruence|].
  rewrite Hcmin, Nat.eqb_refl in H. simpl orb in H. cbv iota in H.
  mbind H cadd s1 H1. destruct cadd as [child add].
  destruct (new_leaf_rep _ _ _ _ _ _ _ G H1) as (Eadd & fpc & Rc & NDc & Fc & Old1 & Nx1 & MS1 & G1). clear H1.
  destruct (new_leaf ri (r_cm r) (x0 :: rest0)) as [childn add'] eqn:Enl. simpl in Eadd, Rc. subst add'.
  assert (Vmch : n_arr mo < s_next s) by (apply Lfc; rewrite Hfc'; simpl; auto).
  mbind H ch s2 H2. apply get_arr_ok in H2. destruct H2 as [-> Hch]. rewrite (proj2 (Old1 _ Vmch)) in Hch.
  assert (ch = mch) by congruence. subst ch.
  mbind H a s2 H2.
  assert (Lfps : forall y, In y (List.concat fpsn) -> y < s_next s) by (intros y Hy; apply Lfc; rewrite Hfc'; simpl; auto).
  assert (Hkidsn1 : reps s1 mch kidsn fpsn) by (eapply reps_frame; eauto; intros y Hy; apply Old1; auto).
  pose proof (rep_lt _ (good1_wf _ G1) _ _ _ Rc) as Lc1. rewrite Forall_forall in Lc1.
  destruct (rep_head _ _ _ _ Rc) as (tc & Efpc).
  assert (Vch1 : Forall (V s1) (mch ++ [child])).
  { apply Forall_app. split.
    - eapply Forall_impl; [|exact (proj2 (wf_arr _ Wf _ _ Hmch))]. unfold V. intros; lia.
    - constructor; auto. apply Lc1. rewrite Efpc. simpl. auto. }
  destruct (alloc_arr_ok 1 _ _ _ _ G1 Vch1 H2) as (G2 & _).
  destruct (alloc_arr_eff _ _ _ _ H2) as (Ea & N2 & Fa & Oa & Ona & MS2). clear H2.
  assert (R2 : reps s2 (mch ++ [child]) (kidsn ++ [childn]) (fpsn ++ [fpc])).
  { apply all3_app.
    - eapply reps_frame; eauto. intros y Hy. split; [apply Ona|apply Oa]. apply Lfps in Hy. lia.
    - simpl. split; auto. eapply rep_frame; eauto. intros y Hy. split; [apply Ona|apply Oa]. apply Lc1 in Hy. unfold V in Hy. lia. }
  mbind H nn s3 H3.
  assert (Na : ~ In a (List.concat (fpsn ++ [fpc]))).
  { rewrite concat_app. simpl. rewrite app_nil_r. intros Hin. apply in_app_or in Hin. destruct Hin as [Hin|Hin].
    - apply Lfps in Hin. lia. - apply Lc1 in Hin. unfold V in Hin. lia. }
  destruct (new_node_rep _ _ _ _ _ _ _ _ _ G2 Fa R2 Na H3) as (fps3 & Enn & N3 & Rnn & Perm3 & Old3 & MS3 & G3). clear H3.
  rewrite concat_app in Perm3. simpl in Perm3. rewrite app_nil_r in Perm3.
  (* the three bookkeeping updates *)
  cbn [bind bump_size upd_depth upd_maxp] in H.
  match type of H with _ ?sm = _ => set (s4 := sm) in * end.
  assert (G4 : good 1 s4) by (unfold s4; repeat apply good_set_meta; auto).
  assert (SA34 : forall y, same_at s3 s4 y) by (intros y; split; reflexivity).
  assert (E34 : Pos.eqb nx rootNode = false) by (apply Pos.eqb_neq; auto).
  rewrite E34, Hp in H.
  mbind H q0 s5 H5. apply opt_get_ok in H5. destruct H5 as [Hq0 ->]. inversion Hq0; subst q0; clear Hq0.
  mbind H u s5 H5. apply ret_ok in H. destruct H as [-> <-]. destruct u.
  assert (Old4 : forall y, y < s_next s -> same_at s s4 y).
  { intros y Ly. eapply same_at_trans; [apply Old1; auto|]. eapply same_at_trans; [split; [apply Ona|apply Oa; lia]|].
    eapply same_at_trans; [apply Old3; lia|]. apply SA34. }
  assert (Rnn4 : rep s4 nn (Node kn rn (sort_nodes (kidsn ++ [childn]))) (nn :: a :: List.concat fps3)).
  { apply (rep_frame s3 s4 _ _ _ Rnn). intros y _. apply SA34. }
  assert (NDnn : NoDup (nn :: a :: List.concat fps3)).
  { assert (NDo : NoDup (List.concat fpsn ++ fpc)).
    { apply NoDup_app_intro; auto.
      - assert (Dfp : NoDup (List.concat fps)) by (inversion ND as [|? ? ? T]; inversion T; auto).
        pose proof (NoDup_concat_nth _ _ _ Dfp Hfi) as Nf. rewrite Hfc' in Nf.
        inversion Nf as [|? ? ? T]; inversion T; auto.
      - intros y Hy Hin. apply Lfps in Hy. apply Fc in Hin. lia. }
    constructor; [|constructor].
    - intros [Hin|Hin]; [lia|]. apply (Permutation_in _ Perm3) in Hin. apply in_app_or in Hin. destruct Hin as [Hin|Hin].
      + apply Lfps in Hin. lia. + apply Lc1 in Hin. unfold V in Hin. lia.
    - intros Hin. apply (Permutation_in _ Perm3) in Hin. apply in_app_or in Hin. destruct Hin as [Hin|Hin].
      + apply Lfps in Hin. lia. + apply Lc1 in Hin. unfold V in Hin. lia.
    - eapply Permutation_NoDup; [apply Permutation_sym; exact Perm3|auto]. }
  destruct (install s s4 q qo qch kids fps i (Node kn rn kidsn) fc c0 nn _ _ s' G Hq Hqch Hr ND Hi Hfi Hc0 Hfc Old4
              ltac:(unfold s4; simpl; lia) G4 Rnn4 Hc0 NDnn) as (IR & MS5); auto.
  { intros y [<-|[<-|Hin]]; try (right; lia).
    apply (Permutation_in _ Perm3) in Hin. apply in_app_or in Hin. destruct Hin as [Hin|Hin].
    - left. rewrite Hfc'. simpl. auto. - right. apply Fc. auto. }
  destruct MS1 as (A1 & A2 & A3 & A4 & A5). destruct MS2 as (B1 & B2 & B3 & B4 & B5).
  destruct MS3 as (C1 & C2 & C3 & C4 & C5). destruct MS5 as (D1 & D2 & D3 & D4 & D5).
  unfold ins_post. unfold s4 in *. simpl in D1, D2, D3, D4, D5.
  spl; auto; try congruence; try lia.
Qed.

Lemma common_prefix_hd c0 rest0 t : hd_byte (common_prefix (c0 :: rest0) (c0 :: t)) = Some c0.
Proof. simpl. rewrite Ascii.eqb_refl. reflexivity. Qed.

Lemma skipn_len_lt {A} (l : list A) n : (n < List.length l)%nat -> skipn n l <> [].
Proof. intros L E. apply skipn_nil_iff in E; lia. Qed.

(* exactMatch / keyEndMidEdge / incompleteMatchToMiddleOfEdge at the child nx of an in-place node q *)
Lemma ins_base_mid f method rootNode ri s q qo qch kids fps i c1 nx c0 rest0 r cm depth out s' :
  good 1 s -> find_node s q = Some qo -> find_arr s (n_arr qo) = Some qch -> reps s qch kids fps ->
  NoDup (q :: n_arr qo :: List.concat fps) ->
  nth_error kids i = Some c1 -> nth_error qch i = Some nx ->
  find_child_from 0 c0 kids = Some i ->
  let rest := c0 :: rest0 in
  let lcp := List.length (common_prefix rest (nkey c1)) in
  r_matched r = nx -> r_p r = Some q -> r_from r = rest -> r_cmin r = lcp -> r_rest r = skipn lcp rest ->
  r_depth r = S depth -> r_cm r = (cm + lcp)%nat ->
  ~ (lcp = List.length (nkey c1) /\ (lcp < List.length rest)%nat) ->
  K_ins method rootNode ri r s = Ok (out, s') ->
  ins_post s s' q qo fps kids i ri (ins_child f ri c1 cm depth rest) out.
Proof.
  intros G Hq Hqch Hr ND Hi Hnx Hfc rest lcp Hm Hp Hfrom Hcmin Hrest Hdepth Hcm Hnot H.
  pose proof (good1_wf _ G) as Wf.
  assert (Hc0 : hd_byte (nkey c1) = Some c0) by (eapply find_child_hd; eauto).
  destruct (all3_nth _ _ _ _ _ _ Hr Hi) as (nx0 & fc & Hnx0 & Hfi & Hrep).
  assert (nx0 = nx) by congruence. subst nx0.
  destruct c1 as [kc rc kidsc]. cbn [nkey nroute nchildren] in *.
  destruct kc as [|k0 kc']; [discriminate|]. simpl in Hc0. inversion Hc0; subst k0; clear Hc0.
  pose proof Hrep as Hrep0. apply rep_unfold in Hrep. destruct Hrep as (mo & mch & fpsc & Hmo & Hk & Hrr & Hmch & Hkidsc & Hfc').
  assert (Lfc : forall y, In y fc -> y < s_next s).
  { intros y Hy. pose proof (rep_lt _ Wf _ _ _ Hrep0) as L. rewrite Forall_forall in L. apply L. auto. }
  assert (Lfps : forall y, In y (List.concat fpsc) -> y < s_next s) by (intros y Hy; apply Lfc; rewrite Hfc'; simpl; auto).
  assert (NDfc : NoDup (nx :: n_arr mo :: List.concat fpsc)).
  { assert (Dfp : NoDup (List.concat fps)) by (inversion ND as [|? ? ? T]; inversion T; auto).
    pose proof (NoDup_concat_nth _ _ _ Dfp Hfi) as Nf. rewrite Hfc' in Nf. auto. }
  assert (Llcp1 : (lcp <= List.length (c0 :: kc'))%nat /\ (lcp <= List.length rest)%nat).
  { unfold lcp, rest. clear. generalize (c0 :: rest0) (c0 :: kc'). induction l as [|x l IH]; intros [|y l']; simpl; try lia.
    destruct (Ascii.eqb x y); simpl; try lia. specialize (IH l'). lia. }
  destruct Llcp1 as [Ll1 Ll2].
  assert (Hcp0 : hd_byte (common_prefix rest (c0 :: kc')) = Some c0) by (apply common_prefix_hd).
  unfold K_ins in H. rewrite Hm in H. mbind H mo2 s0 H0. apply get_node_ok in H0. destruct H0 as [-> Hmo2].
  assert (mo2 = mo) by congruence. subst mo2. rewrite Hk, Hrr in H. rewrite Hfrom in H.
  unfold ins_child. cbn [nkey nroute nchildren]. fold rest. fold lcp.
  unfold classify in H. rewrite Hrest, Hcmin, Hp in H.
  destruct (Nat.eqb_spec lcp (List.length (c0 :: kc'))) as [E1|E1].
  - (* the whole edge matched: only the exact match is possible here *)
    assert (E2 : lcp = List.length rest) by lia.
    rewrite <- E2 at 1. rewrite Nat.eqb_refl.
    assert (Esk : skipn lcp rest = []) by (apply skipn_nil_iff; auto).
    rewrite Esk in H. cbv iota in H.
    destruct rc as [rold|].
    + apply ret_ok in H. destruct H as [-> ->]. unfold ins_post. spl; auto. eapply inplace_res_refl; eauto.
    + mbind H x s1 H1.
      destruct (nnfr_rep _ _ _ _ _ _ _ _ _ G Hmch Hkidsc H1) as (Ex & Nx & Rx & Oldx & MSx & Gx). clear H1.
      cbn [bind bump_size upd_maxp] in H.
      match type of H with _ ?sm = _ => set (s4 := sm) in * end.
      assert (G4 : good 1 s4) by (unfold s4; repeat apply good_set_meta; auto).
      mbind H q0 s5 H5. apply opt_get_ok in H5. destruct H5 as [Hq0 ->]. inversion Hq0; subst q0; clear Hq0.
      mbind H u s5 H5. apply ret_ok in H. destruct H as [-> <-]. destruct u.
      assert (Old4 : forall y, y < s_next s -> same_at s s4 y).
      { intros y Ly. eapply same_at_trans; [apply Oldx; auto|]. split; reflexivity. }
      assert (Rx4 : rep s4 x (Node (c0 :: kc') (Some (ri_route ri)) kidsc) (x :: n_arr mo :: List.concat fpsc)).
      { apply (rep_frame s1 s4 _ _ _ Rx). intros y _. split; reflexivity. }
      assert (NDx : NoDup (x :: n_arr mo :: List.concat fpsc)).
      { inversion NDfc as [|? ? M1 M2]. constructor; auto. intros Hin. assert (x < s_next s).
        { apply Lfc. rewrite Hfc'. right. auto. } lia. }
      destruct (install s s4 q qo qch kids fps i (Node (c0 :: kc') None kidsc) fc c0 x _ _ s' G Hq Hqch Hr ND Hi Hfi eq_refl Hfc Old4
                  ltac:(unfold s4; simpl; lia) G4 Rx4 eq_refl NDx) as (IR & MS5); auto.
      { intros y [<-|Hin]; [right; lia|]. left. rewrite Hfc'. right. auto. }
      destruct MSx as (C1 & C2 & C3 & C4 & C5). destruct MS5 as (D1 & D2 & D3 & D4 & D5).
      unfold ins_post. unfold s4 in *. simpl in D1, D2, D3, D4, D5.
      spl; auto; try congruence; try lia.
  - assert (E1' : Nat.ltb lcp (List.length (c0 :: kc')) = true) by (apply Nat.ltb_lt; lia).
    destruct (Nat.eqb_spec lcp (List.length rest)) as [E2|E2].
    + (* keyEndMidEdge *)
      assert (Esk : skipn lcp rest = []) by (apply skipn_nil_iff; auto).
      rewrite Esk in H. fold lcp in H.
      destruct (Nat.eqb_spec lcp (List.length (c0 :: kc'))); [lia|]. rewrite E1' in H.
      cbv zeta in H. fold lcp in H.
      mbind H child s1 H1.
      destruct (nnfr_rep _ _ _ _ _ _ _ _ _ G Hmch Hkidsc H1) as (Ex & Nx & Rx & Oldx & MSx & Gx). clear H1.
      mbind H a s2 H2.
      assert (Vc : Forall (V s1) [child]) by (constructor; auto; unfold V; lia).
      destruct (alloc_arr_ok 1 _ _ _ _ Gx Vc H2) as (G2 & _).
      destruct (alloc_arr_eff _ _ _ _ H2) as (Ea & N2 & Fa & Oa & Ona & MS2). clear H2.
      set (childn := Node (skipn lcp (c0 :: kc')) rc kidsc) in *.
      assert (R2 : reps s2 [child] [childn] [child :: n_arr mo :: List.concat fpsc]).
      { simpl. split; auto. apply (rep_frame s1 s2 _ _ _ Rx). intros y Hy. split; [apply Ona|apply Oa].
        destruct Hy as [<-|[<-|Hy]]; try lia. - assert (n_arr mo < s_next s) by (apply Lfc; rewrite Hfc'; simpl; auto). lia.
        - apply Lfps in Hy. lia. }
      mbind H parent s3 H3.
      assert (Na : ~ In a (List.concat [child :: n_arr mo :: List.concat fpsc])).
      { simpl. rewrite app_nil_r. intros [Hin|[Hin|Hin]]; try lia.
        - assert (n_arr mo < s_next s) by (apply Lfc; rewrite Hfc'; simpl; auto). lia.
        - apply Lfps in Hin. lia. }
      destruct (new_node_rep _ _ _ _ _ _ _ _ _ G2 Fa R2 Na H3) as (fps3 & Enn & N3 & Rnn & Perm3 & Old3 & MS3 & G3). clear H3.
      simpl in Perm3. rewrite app_nil_r in Perm3.
      cbn [bind bump_size upd_maxp upd_depth] in H.
      match type of H with _ ?sm = _ => set (s4 := sm) in * end.
      assert (G4 : good 1 s4) by (unfold s4; repeat apply good_set_meta; auto).
      mbind H q0 s5 H5. apply opt_get_ok in H5. destruct H5 as [Hq0 ->]. inversion Hq0; subst q0; clear Hq0.
      mbind H u s5 H5. apply ret_ok in H. destruct H as [-> <-]. destruct u.
      assert (Old4 : forall y, y < s_next s -> same_at s s4 y).
      { intros y Ly. eapply same_at_trans; [apply Oldx; auto|]. eapply same_at_trans; [split; [apply Ona|apply Oa; lia]|].
        eapply same_at_trans; [apply Old3; lia|]. split; reflexivity. }
      assert (Rnn4 : rep s4 parent (Node (common_prefix rest (c0 :: kc')) (Some (ri_route ri)) (sort_nodes [childn])) (parent :: a :: List.concat fps3)).
      { apply (rep_frame s3 s4 _ _ _ Rnn). intros y _. split; reflexivity. }
      assert (NDnn : NoDup (parent :: a :: List.concat fps3)).
      { assert (NDo : NoDup (child :: n_arr mo :: List.concat fpsc)).
        { inversion NDfc as [|? ? M1 M2]. constructor; auto. intros Hin. assert (child < s_next s).
          { apply Lfc. rewrite Hfc'. right. auto. } lia. }
        assert (Lo : forall y, In y (child :: n_arr mo :: List.concat fpsc) -> y < a).
        { intros y [<-|Hy]; [lia|]. assert (y < s_next s) by (apply Lfc; rewrite Hfc'; right; auto). lia. }
        constructor; [|constructor].
        - intros [Hin|Hin]; [lia|]. apply (Permutation_in _ Perm3) in Hin. apply Lo in Hin. lia.
        - intros Hin. apply (Permutation_in _ Perm3) in Hin. apply Lo in Hin. lia.
        - eapply Permutation_NoDup; [apply Permutation_sym; exact Perm3|auto]. }
      destruct (install s s4 q qo qch kids fps i (Node (c0 :: kc') rc kidsc) fc c0 parent _ _ s' G Hq Hqch Hr ND Hi Hfi eq_refl Hfc Old4
                  ltac:(unfold s4; simpl; lia) G4 Rnn4 Hcp0 NDnn) as (IR & MS5); auto.
      { intros y [<-|[<-|Hin]]; try (right; lia).
        apply (Permutation_in _ Perm3) in Hin. destruct Hin as [<-|Hin]; [right; lia|]. left. rewrite Hfc'. right. auto. }
      destruct MSx as (A1 & A2 & A3 & A4 & A5). destruct MS2 as (B1 & B2 & B3 & B4 & B5).
      destruct MS3 as (C1 & C2 & C3 & C4 & C5). destruct MS5 as (D1 & D2 & D3 & D4 & D5).
      unfold ins_post. unfold s4 in *. simpl in D1, D2, D3, D4, D5. rewrite Hdepth in *.
      spl; auto; try congruence; try lia.
    + (* incompleteMatchToMiddleOfEdge *)
      assert (Hne : skipn lcp rest <> []) by (apply skipn_len_lt; lia).
      destruct (skipn lcp rest) as [|x0 rest'] eqn:Esk; [congruence|].
      destruct (Nat.eqb_spec lcp (List.length (c0 :: kc'))); [lia|]. simpl orb in H. cbv iota in H. rewrite E1' in H.
      cbv zeta in H. fold lcp in H. rewrite Hcm in H.
      destruct (prefix_conflict (Nat.leb (cm + lcp) (ri_hostsplit ri)) (common_prefix rest (c0 :: kc'))).
      * apply ret_ok in H. destruct H as [-> ->]. unfold ins_post. spl; auto.
        exists nx, (Node (c0 :: kc') rc kidsc), fc. spl; auto. eapply inplace_res_refl; eauto.
      * mbind H cadd s1 H1. destruct cadd as [n1 add].
        destruct (new_leaf_rep _ _ _ _ _ _ _ G H1) as (Eadd & fpc & Rc & NDc & Fc & Old1 & Nx1 & MS1 & G1). clear H1.
        destruct (new_leaf ri (cm + lcp) (x0 :: rest')) as [n1n add'] eqn:Enl. simpl in Eadd, Rc. subst add'.
        pose proof (rep_lt _ (good1_wf _ G1) _ _ _ Rc) as Lc1. rewrite Forall_forall in Lc1.
        destruct (rep_head _ _ _ _ Rc) as (tc & Efpc).
        assert (Vmch : n_arr mo < s_next s) by (apply Lfc; rewrite Hfc'; simpl; auto).
        assert (Hmch1 : find_arr s1 (n_arr mo) = Some mch) by (rewrite (proj2 (Old1 _ Vmch)); auto).
        assert (Hkidsc1 : reps s1 mch kidsc fpsc) by (eapply reps_frame; eauto; intros y Hy; apply Old1; auto).
        mbind H n2 s2 H2.
        destruct (nnfr_rep _ _ _ _ _ _ _ _ _ G1 Hmch1 Hkidsc1 H2) as (Ex & Nx & Rx & Oldx & MSx & Gx). clear H2.
        mbind H a s3 H3.
        assert (Vc : Forall (V s2) [n1; n2]).
        { constructor; [|constructor; auto; unfold V; lia]. assert (V s1 n1) by (apply Lc1; rewrite Efpc; simpl; auto). unfold V in *. lia. }
        destruct (alloc_arr_ok 1 _ _ _ _ Gx Vc H3) as (G3 & _).
        destruct (alloc_arr_eff _ _ _ _ H3) as (Ea & N3 & Fa & Oa & Ona & MS3). clear H3.
        set (n2n := Node (skipn lcp (c0 :: kc')) rc kidsc) in *.
        assert (R3 : reps s3 [n1; n2] [n1n; n2n] [fpc; n2 :: n_arr mo :: List.concat fpsc]).
        { simpl. spl; auto.
          - apply (rep_frame s1 s3 _ _ _ Rc). intros y Hy. eapply same_at_trans; [apply Oldx|split; [apply Ona|apply Oa]].
            + apply Lc1 in Hy. auto. + apply Lc1 in Hy. unfold V in Hy. lia.
          - apply (rep_frame s2 s3 _ _ _ Rx). intros y Hy. split; [apply Ona|apply Oa].
            destruct Hy as [<-|[<-|Hy]]; try lia. apply Lfps in Hy. lia. }
        mbind H n3 s4' H4.
        assert (Na : ~ In a (List.concat [fpc; n2 :: n_arr mo :: List.concat fpsc])).
        { simpl. rewrite app_nil_r. intros Hin. apply in_app_or in Hin. destruct Hin as [Hin|[Hin|[Hin|Hin]]]; try lia.
          - apply Lc1 in Hin. unfold V in Hin. lia. - apply Lfps in Hin. lia. }
        destruct (new_node_rep _ _ _ _ _ _ _ _ _ G3 Fa R3 Na H4) as (fps4 & Enn & N4 & Rnn & Perm4 & Old4' & MS4 & G4'). clear H4.
        simpl in Perm4. rewrite app_nil_r in Perm4.
        cbn [bind bump_size upd_maxp upd_depth] in H.
        match type of H with _ ?sm = _ => set (s4 := sm) in * end.
        assert (G4 : good 1 s4) by (unfold s4; repeat apply good_set_meta; auto).
        mbind H q0 s5 H5. apply opt_get_ok in H5. destruct H5 as [Hq0 ->]. inversion Hq0; subst q0; clear Hq0.
        mbind H u s5 H5. apply ret_ok in H. destruct H as [-> <-]. destruct u.
        assert (Old4 : forall y, y < s_next s -> same_at s s4 y).
        { intros y Ly. eapply same_at_trans; [apply Old1; auto|]. eapply same_at_trans; [apply Oldx; lia|].
          eapply same_at_trans; [split; [apply Ona|apply Oa; lia]|].
          eapply same_at_trans; [apply Old4'; lia|]. split; reflexivity. }
        assert (Rnn4 : rep s4 n3 (Node (common_prefix rest (c0 :: kc')) None (sort_nodes [n1n; n2n])) (n3 :: a :: List.concat fps4)).
        { apply (rep_frame s4' s4 _ _ _ Rnn). intros y _. split; reflexivity. }
        assert (Lo : forall y, In y (fpc ++ n2 :: n_arr mo :: List.concat fpsc) -> y < a).
        { intros y Hy. apply in_app_or in Hy. destruct Hy as [Hy|[<-|Hy]]; try lia.
          - apply Lc1 in Hy. unfold V in Hy. lia.
          - assert (y < s_next s) by (apply Lfc; rewrite Hfc'; right; auto). lia. }
        assert (NDnn : NoDup (n3 :: a :: List.concat fps4)).
        { assert (NDo : NoDup (fpc ++ n2 :: n_arr mo :: List.concat fpsc)).
          { apply NoDup_app_intro; auto.
            - inversion NDfc as [|? ? M1 M2]. constructor; auto. intros Hin. assert (n2 < s_next s).
              { apply Lfc. rewrite Hfc'. right. auto. } lia.
            - intros y Hy Hin. pose proof (Fc _ Hy) as Ly. destruct Hin as [<-|Hin].
              + apply Lc1 in Hy. unfold V in Hy. lia.
              + assert (y < s_next s) by (apply Lfc; rewrite Hfc'; right; auto). lia. }
          constructor; [|constructor].
          - intros [Hin|Hin]; [lia|]. apply (Permutation_in _ Perm4) in Hin. apply Lo in Hin. lia.
          - intros Hin. apply (Permutation_in _ Perm4) in Hin. apply Lo in Hin. lia.
          - eapply Permutation_NoDup; [apply Permutation_sym; exact Perm4|auto]. }
        destruct (install s s4 q qo qch kids fps i (Node (c0 :: kc') rc kidsc) fc c0 n3 _ _ s' G Hq Hqch Hr ND Hi Hfi eq_refl Hfc Old4
                    ltac:(unfold s4; simpl; lia) G4 Rnn4 Hcp0 NDnn) as (IR & MS5); auto.
        { intros y [<-|[<-|Hin]]; try (right; lia).
          apply (Permutation_in _ Perm4) in Hin. apply in_app_or in Hin. destruct Hin as [Hin|[<-|Hin]].
          - right. apply Fc. auto. - right. lia. - left. rewrite Hfc'. right. auto. }
        destruct MS1 as (Z1 & Z2 & Z3 & Z4 & Z5).
        destruct MSx as (A1 & A2 & A3 & A4 & A5). destruct MS3 as (B1 & B2 & B3 & B4 & B5).
        destruct MS4 as (C1 & C2 & C3 & C4 & C5). destruct MS5 as (D1 & D2 & D3 & D4 & D5).
        unfold ins_post. unfold s4 in *. simpl in D1, D2, D3, D4, D5. rewrite Hdepth in *.
        spl; auto; try congruence; try lia.
Qed.

(* a result below the relinked child p' of p, seen from p and from the state before the relink *)
Lemma lift_inplace s s1 s' p po pch kidsP fpsP j cur fpn p' co' fpsn2 kn rn kidsn kids' :
  frame s s1 [n_arr po] -> sub_fresh s fpn (p' :: n_arr co' :: List.concat fpsn2) ->
  nth_error fpsP j = Some fpn -> nth_error pch j = Some cur -> nth_error kidsP j = Some (Node kn rn kidsn) ->
  good 1 s1 -> find_node s1 p = Some po -> find_arr s1 (n_arr po) = Some (set_nth pch j p') ->
  reps s1 (set_nth pch j p') kidsP (set_nth fpsP j (p' :: n_arr co' :: List.concat fpsn2)) ->
  NoDup (p :: n_arr po :: List.concat (set_nth fpsP j (p' :: n_arr co' :: List.concat fpsn2))) ->
  n_key co' = kn -> n_route co' = rn ->
  inplace_res s1 s' p' co' fpsn2 kids' ->
  inplace_res s s' p po fpsP (set_nth kidsP j (Node kn rn kids')).
Proof.
  intros Fr1 SF1 Hfj Hcur Hj G1 Hpo1 Hpch1 HrP1 ND1 Hk' Hr' IR.
  apply (inplace_res_pre s s1 s' p po fpsP (set_nth fpsP j (p' :: n_arr co' :: List.concat fpsn2)) _ [n_arr po] Fr1).
  - intros x [<-|[]]. simpl. auto.
  - intros x Hx. destruct (in_concat_set_nth _ _ _ _ Hx) as [Hi|Hi]; auto.
    destruct (SF1 x Hi) as [Hi'|Hi']; auto. left. eapply in_lconcat_nth; eauto.
  - eapply ascend; eauto.
    + eapply nth_set_nth_eq; eauto.
    + eapply nth_set_nth_eq; eauto.
Qed.

Definition ins_lift (kn : bytes) (rn : option route) (kidsn : list node) (i : nat) (res : ins_res) : ins_res :=
  match res with InsOk c' d => InsOk (Node kn rn (set_nth kidsn i c')) d | InsErr e => InsErr e end.

Lemma ins_post_lift s s1 s' p po pch kidsP fpsP j cur fpn p' co' fpsn2 kn rn kidsn i ri res out :
  frame s s1 [n_arr po] -> sub_fresh s fpn (p' :: n_arr co' :: List.concat fpsn2) ->
  nth_error fpsP j = Some fpn -> nth_error pch j = Some cur -> nth_error kidsP j = Some (Node kn rn kidsn) ->
  good 1 s1 -> find_node s1 p = Some po -> find_arr s1 (n_arr po) = Some (set_nth pch j p') ->
  reps s1 (set_nth pch j p') kidsP (set_nth fpsP j (p' :: n_arr co' :: List.concat fpsn2)) ->
  NoDup (p :: n_arr po :: List.concat (set_nth fpsP j (p' :: n_arr co' :: List.concat fpsn2))) ->
  n_key co' = kn -> n_route co' = rn -> meta_same s s1 ->
  ins_post s1 s' p' co' fpsn2 kidsn i ri res out ->
  ins_post s s' p po fpsP kidsP j ri (ins_lift kn rn kidsn i res) out.
Proof.
  intros Fr1 SF1 Hfj Hcur Hj G1 Hpo1 Hpch1 HrP1 ND1 Hk' Hr' (M1 & M2 & M3 & M4 & M5) (R & C & P).
  assert (L : forall kids', inplace_res s1 s' p' co' fpsn2 kids' -> inplace_res s s' p po fpsP (set_nth kidsP j (Node kn rn kids')))
    by (intros; eapply lift_inplace; eauto).
  assert (LI : inplace_res s1 s' p' co' fpsn2 kidsn -> inplace_res s s' p po fpsP kidsP).
  { intros IR. pose proof (L _ IR) as X. rewrite (set_nth_same kidsP j _ Hj) in X. exact X. }
  unfold ins_post, ins_lift. split; [congruence|]. split; [congruence|].
  destruct res as [c' d|[ex|ps]].
  - destruct P as (-> & IR & Z & Mp & D). spl; auto; congruence.
  - destruct P as (-> & IR & Z & Mp & D). spl; auto; congruence.
  - destruct P as (a & cn & fpa & -> & Ra & Rc & IR & Z & Mp & D). exists a, cn, fpa. spl; auto; congruence.
Qed.

Definition ins_sim_stmt (method : bytes) (rootNode : addr) (ri : rinfo) (fuel : nat) : Prop :=
  forall s p po pch kidsP fpsP j cur n fpn cn pp ppp rest from cm depth out s',
  good 1 s ->
  find_node s p = Some po -> find_arr s (n_arr po) = Some pch -> reps s pch kidsP fpsP ->
  NoDup (p :: n_arr po :: List.concat fpsP) ->
  nth_error kidsP j = Some n -> nth_error pch j = Some cur -> nth_error fpsP j = Some fpn ->
  hd_byte (nkey n) = Some cn -> find_child_from 0 cn kidsP = Some j ->
  rest <> [] -> ~ In rootNode (List.concat fpsP) ->
  (r <- cow_loop evict fuel cur (Some p) pp ppp rest from cm (List.length (nkey n)) depth ;; K_ins method rootNode ri r) s = Ok (out, s') ->
  ins_post s s' p po fpsP kidsP j ri (ins fuel ri n cm depth rest) out.

Lemma ins_below method rootNode ri f s1 p' co' cch kidsn fpsn i nx c1 fc1 c rest0 pp' ppp' cm depth out s' :
  ins_sim_stmt method rootNode ri f ->
  good 1 s1 -> find_node s1 p' = Some co' -> find_arr s1 (n_arr co') = Some cch -> reps s1 cch kidsn fpsn ->
  NoDup (p' :: n_arr co' :: List.concat fpsn) ->
  nth_error kidsn i = Some c1 -> nth_error cch i = Some nx -> nth_error fpsn i = Some fc1 ->
  find_child_from 0 c kidsn = Some i -> ~ In rootNode (List.concat fpsn) ->
  match key_of nx s1 with
  | Ok (key, s2) =>
      let '(n, rest', brk) := match_key key (c :: rest0) in
      if brk then K_ins method rootNode ri
                    {| r_matched := nx; r_p := Some p'; r_pp := pp'; r_ppp := ppp'; r_rest := rest'; r_from := c :: rest0;
                       r_cm := cm + n; r_cmin := n; r_depth := S depth |} s2
      else (r <- cow_loop evict f nx (Some p') pp' ppp' rest' (c :: rest0) (cm + n) n (S depth) ;; K_ins method rootNode ri r) s2
  | Panic => Panic | Oof => Oof
  end = Ok (out, s') ->
  ins_post s1 s' p' co' fpsn kidsn i ri (ins_child f ri c1 cm depth (c :: rest0)) out.
Proof.
  intros IH G1 Hp' Hcch' Hkids' ND' Hc1 Hnx Hfc1' Hfi Hroot H.
  destruct (all3_nth _ _ _ _ _ _ Hkids' Hc1) as (nx1 & fc1' & Hnx1 & Hfc1'' & Hrepc1).
  assert (nx1 = nx) by congruence. subst nx1. assert (fc1' = fc1) by congruence. subst fc1'.
  destruct (rep_key _ _ _ _ Hrepc1) as (nxo & Hnxo & Knx & Rnx).
  assert (KO : key_of nx s1 = Ok (nkey c1, s1)).
  { unfold key_of, bind, get_node. unfold find_node in Hnxo. rewrite Hnxo. unfold ret. rewrite Knx. auto. }
  rewrite KO in H.
  destruct (match_key (nkey c1) (c :: rest0)) as [[m rest'] brk] eqn:MK.
  destruct (match_key_spec _ _ _ _ _ MK) as (Em & Er & Lm1 & Lm2 & Bt & Bf).
  assert (Hc0' : hd_byte (nkey c1) = Some c) by (eapply find_child_hd; eauto).
  destruct brk.
  - destruct (Bt eq_refl) as [B1 B2].
    eapply (ins_base_mid f); eauto; cbn [r_matched r_p r_from r_cmin r_rest r_depth r_cm]; auto; try congruence.
    rewrite <- Em. lia.
  - destruct rest' as [|x rest''].
    + assert (Em2 : m = List.length (c :: rest0)).
      { symmetry in Er. apply skipn_nil_iff in Er; auto. }
      destruct f as [|f']; [simpl in H; discriminate|]. simpl in H.
      unfold bind at 1 in H. unfold ret at 1 in H.
      eapply (ins_base_mid (S f')); eauto; cbn [r_matched r_p r_from r_cmin r_rest r_depth r_cm]; auto; try congruence.
      rewrite <- Em. lia.
    + destruct (Bf eq_refl) as [B|B].
      2:{ exfalso. assert (skipn m (c :: rest0) = []) by (apply skipn_nil_iff; auto). congruence. }
      unfold ins_child. rewrite <- Em.
      assert (E1 : Nat.eqb m (List.length (nkey c1)) = true) by (apply Nat.eqb_eq; lia).
      assert (E2 : Nat.eqb m (List.length (c :: rest0)) = false).
      { apply Nat.eqb_neq. intros E. assert (skipn m (c :: rest0) = []) by (apply skipn_nil_iff; auto; lia). congruence. }
      rewrite E1, E2. rewrite <- Er. rewrite B in H.
      replace m with (List.length (nkey c1)) by auto.
      eapply IH; eauto. discriminate.
Qed.

Lemma ins_sim method rootNode ri fuel : ins_sim_stmt method rootNode ri fuel.
Proof.
  induction fuel as [|f IH]; intros s p po pch kidsP fpsP j cur n fpn cn pp ppp rest from cm depth out s'
    G Hpo Hpch HrP ND Hj Hcur Hfj Hcn Hfc Hne Hroot H.
  - simpl in H. discriminate.
  - destruct rest as [|c rest0]; [congruence|]. rewrite cow_loop_unfold in H.
    destruct (all3_nth _ _ _ _ _ _ HrP Hj) as (cur0 & fpn0 & Hc0 & Hf0 & Hrep).
    assert (cur0 = cur) by congruence. assert (fpn0 = fpn) by congruence. subst cur0 fpn0.
    destruct n as [kn rn kidsn].
    destruct (get_edge_rep _ _ _ _ _ _ c Hrep) as (co & cch & fpsn & Hco & Hcch & Hkids & GE).
    rewrite GE in H. rewrite ins_step. unfold find_child in *. cbn [nchildren nkey nroute] in *.
    assert (Hcurne : cur <> rootNode).
    { intros ->. apply Hroot. eapply in_lconcat_nth; eauto. destruct (rep_head _ _ _ _ Hrep) as (t & ->). simpl. auto. }
    destruct (find_child_from 0 c kidsn) as [i|] eqn:Hfi.
    2:{ match type of H with K_ins _ _ _ ?rr _ = _ =>
          exact (ins_base_end method rootNode ri s p po pch kidsP fpsP j (Node kn rn kidsn) cur cn rr out s'
                   G Hpo Hpch HrP ND Hj Hcur Hcn Hfc eq_refl eq_refl ltac:(discriminate) eq_refl Hcurne H)
        end. }
    destruct (nth_error cch i) as [nx|] eqn:Hnx.
    2:{ destruct (nth_error kidsn i) as [cc|] eqn:Hcc.
        - destruct (all3_nth _ _ _ _ _ _ Hkids Hcc) as (? & ? & Hx & _). congruence.
        - exfalso. apply find_child_from_lt in Hfi. apply nth_error_None in Hcc. lia. }
    destruct (all3_nth_a _ _ _ _ _ _ Hkids Hnx) as (c1 & fc & Hc1 & Hfc1 & Hrepc).
    rewrite Hc1.
    destruct (relink evict p cur s) as [[p' s1]| |] eqn:RL; try discriminate.
    destruct (descend evict evict_sub s p po pch kidsP fpsP j cur (Node kn rn kidsn) fpn cn p' s1
                G Hpo Hpch HrP ND Hj Hcur Hfj Hcn Hfc RL)
      as (co2 & co' & cch2 & fpsn2 & Hco2 & Hcch2 & Hkids2 & Hfpn & Hp' & Hk' & Hr' & Hcch' & Hkids' & Hpo1 & Hpch1 & HrP1 & ND1 & Fr1 & SF1 & MS1 & G1).
    assert (co2 = co) by congruence. subst co2. assert (cch2 = cch) by congruence. subst cch2.
    cbn [nchildren nkey nroute] in *.
    destruct (all3_nth _ _ _ _ _ _ Hkids' Hc1) as (nx1 & fc1 & Hnx1 & Hfc1' & Hrepc1).
    assert (nx1 = nx) by congruence. subst nx1.
    assert (ND' : NoDup (p' :: n_arr co' :: List.concat fpsn2)).
    { assert (Dc : NoDup (List.concat (set_nth fpsP j (p' :: n_arr co' :: List.concat fpsn2))))
        by (inversion ND1 as [|? ? ? T]; inversion T; auto).
      eapply NoDup_concat_nth; [exact Dc|]. eapply nth_set_nth_eq; eauto. }
    assert (Hroot' : ~ In rootNode (List.concat fpsn2)).
    { intros Hin. apply Hroot. eapply in_lconcat_nth; eauto. rewrite Hfpn. simpl. auto. }
    pose proof (ins_below method rootNode ri f s1 p' co' cch kidsn fpsn2 i nx c1 fc1 c rest0 (Some p) pp cm depth out s'
                  IH G1 Hp' Hcch' Hkids' ND' Hc1 Hnx Hfc1' Hfi Hroot' H) as Post.
    pose proof (ins_post_lift s s1 s' p po pch kidsP fpsP j cur fpn p' co' fpsn2 kn rn kidsn i ri _ out
                  Fr1 SF1 Hfj Hcur Hj G1 Hpo1 Hpch1 HrP1 ND1 Hk' Hr' MS1 Post) as PL.
    unfold ins_lift in PL. destruct (ins_child f ri c1 cm depth (c :: rest0)) as [c' d|e].
    + rewrite <- set_nth_replace. exact PL.
    + exact PL.
Qed.

End Ins.

(* ---------- insert at the roots level ---------- *)
Definition roots_rep (s : st) (roots : list node) : Prop :=
  exists rs fps, find_arr s (s_root s) = Some rs /\ reps s rs roots fps /\
                 NoDup (List.concat fps) /\ ~ In (s_root s) (List.concat fps).

Lemma trep_roots s T : trep s T <->
  roots_rep s (t_roots T) /\ s_size s = t_size T /\ s_maxp s = t_maxparams T /\ s_depth s = t_depth T.
Proof.
  unfold trep, roots_rep. split.
  - intros (rs & fps & A & B & C & D & E). split; [exists rs, fps|]; tauto.
  - intros ((rs & fps & A & B & C & D) & E). exists rs, fps. tauto.
Qed.

(* method roots: found under their own key, never routes themselves, and the four common verbs are present *)
Definition roots_wf (rs : list node) : Prop :=
  roots_ok rs /\ (4 <= List.length rs)%nat /\ (forall r, In r rs -> nroute r = None).

Lemma find_key_from_spec m l : forall b i, find_key_from b m l = Some i ->
  (b <= i)%nat /\ exists r, nth_error l (i - b) = Some r /\ nkey r = m.
Proof.
  induction l as [|x l IH]; intros b i H; simpl in H; [discriminate|].
  destruct (bytes_eqb_spec (nkey x) m) as [E|E].
  - inversion H; subst. split; [lia|]. replace (i - i)%nat with 0%nat by lia. simpl. eauto.
  - destruct (IH _ _ H) as (L & r & Hr & Hk). split; [lia|]. exists r. split; auto.
    replace (i - b)%nat with (S (i - S b)) by lia. simpl. auto.
Qed.

Lemma method_index_common m rs i : method_index rs m = Some i -> (i < 4)%nat -> m = nth i common_verbs [].
Proof.
  unfold method_index. intros H L.
  destruct (bytes_eqb_spec m m_get) as [->|]; [inversion H; reflexivity|].
  destruct (bytes_eqb_spec m m_post) as [->|]; [inversion H; reflexivity|].
  destruct (bytes_eqb_spec m m_put) as [->|]; [inversion H; reflexivity|].
  destruct (bytes_eqb_spec m m_delete) as [->|]; [inversion H; reflexivity|].
  apply find_key_from_spec in H. lia.
Qed.

Lemma nth_skipn {A} (l : list A) k j : nth_error (skipn k l) j = nth_error l (k + j).
Proof. revert l. induction k as [|k IH]; intros [|x l]; simpl; auto. destruct j; auto. Qed.

Lemma method_index_custom m rs i : method_index rs m = Some i -> (4 <= i)%nat -> exists r, nth_error rs i = Some r /\ nkey r = m.
Proof.
  unfold method_index. intros H L.
  destruct (bytes_eqb m m_get); [inversion H; lia|]. destruct (bytes_eqb m m_post); [inversion H; lia|].
  destruct (bytes_eqb m m_put); [inversion H; lia|]. destruct (bytes_eqb m m_delete); [inversion H; lia|].
  apply find_key_from_spec in H. destruct H as (_ & r & Hr & Hk). exists r. split; auto.
  rewrite nth_skipn in Hr. replace (4 + (i - 4))%nat with i in Hr by lia. auto.
Qed.

Lemma method_index_key rs m i r : roots_ok rs -> method_index rs m = Some i -> nth_error rs i = Some r -> nkey r = m.
Proof.
  intros RO H Hr. destruct (Nat.lt_ge_cases i 4) as [L|L].
  - rewrite (method_index_common _ _ _ H L). apply (method_index_common _ rs); auto.
  - destruct (method_index_custom _ _ _ H L) as (r' & Hr' & Hk). congruence.
Qed.

Section InsRoot.
Variable evict : N -> list addr -> list addr.
Hypothesis evict_sub : forall c w a, In a (evict c w) -> In a w.

(* incompleteMatchToEndOfEdge at the method root itself: n.key = method; writable.Add(n); updateRoot(n) *)
Lemma ins_root_end method ri s rs roots fps i rn kr rr kidsr r out s' :
  good 1 s -> find_arr s (s_root s) = Some rs -> reps s rs roots fps -> NoDup (List.concat fps) ->
  ~ In (s_root s) (List.concat fps) ->
  nth_error roots i = Some (Node kr rr kidsr) -> nth_error rs i = Some rn ->
  method_index roots method = Some i -> kr = method ->
  r_matched r = rn -> r_p r = None -> r_rest r <> [] ->
  K_ins evict method rn ri r s = Ok (out, s') ->
  let '(child, add) := new_leaf ri (r_cm r) (r_rest r) in
  out = IOk /\ roots_rep s' (set_nth roots i (Tree.new_node kr rr (kidsr ++ [child]))) /\ good 1 s' /\
  s_size s' = (s_size s + 1)%Z /\ s_maxp s' = Nat.max (s_maxp s) (ri_pslen ri) /\
  s_depth s' = Nat.max (s_depth s) (r_depth r + add).
Proof.
  intros G Hrs Hr ND NR Hi Hrn MI Ekr Hm Hp Hrest H.
  pose proof (good1_wf _ G) as Wf.
  destruct (all3_nth _ _ _ _ _ _ Hr Hi) as (rn0 & fc & Hrn0 & Hfi & Hrep).
  assert (rn0 = rn) by congruence. subst rn0.
  pose proof Hrep as Hrep0. apply rep_unfold in Hrep. destruct Hrep as (mo & mch & fpsn & Hmo & Hk & Hrr & Hmch & Hkidsn & Hfc').
  assert (Lall : Forall (V s) (List.concat fps)) by (eapply reps_lt; eauto). rewrite Forall_forall in Lall.
  assert (Lfc : forall y, In y fc -> y < s_next s) by (intros y Hy; apply Lall; eapply in_lconcat_nth; eauto).
  assert (Lfps : forall y, In y (List.concat fpsn) -> y < s_next s) by (intros y Hy; apply Lfc; rewrite Hfc'; simpl; auto).
  destruct (wf_arr _ Wf _ _ Hrs) as [VR Frs].
  unfold K_ins in H. rewrite Hm in H. mbind H mo2 s0 H0. apply get_node_ok in H0. destruct H0 as [-> Hmo2].
  assert (mo2 = mo) by congruence. subst mo2. rewrite Hk, Hrr in H.
  unfold classify in H. destruct (r_rest r) as [|x0 rest0] eqn:Erest; [congruence|].
  rewrite Hp in H. rewrite Bool.orb_true_r in H. cbv iota in H.
  mbind H cadd s1 H1. destruct cadd as [child add].
  destruct (new_leaf_rep _ _ _ _ _ _ _ G H1) as (Eadd & fpc & Rc & NDc & Fc & Old1 & Nx1 & MS1 & G1). clear H1.
  destruct (new_leaf ri (r_cm r) (x0 :: rest0)) as [childn add'] eqn:Enl. simpl in Eadd, Rc. subst add'.
  assert (Vmch : n_arr mo < s_next s) by (apply Lfc; rewrite Hfc'; simpl; auto).
  mbind H ch s2 H2. apply get_arr_ok in H2. destruct H2 as [-> Hch]. rewrite (proj2 (Old1 _ Vmch)) in Hch.
  assert (ch = mch) by congruence. subst ch.
  mbind H a s2 H2.
  assert (Hkidsn1 : reps s1 mch kidsr fpsn) by (eapply reps_frame; eauto; intros y Hy; apply Old1; auto).
  pose proof (rep_lt _ (good1_wf _ G1) _ _ _ Rc) as Lc1. rewrite Forall_forall in Lc1.
  destruct (rep_head _ _ _ _ Rc) as (tc & Efpc).
  assert (Vch1 : Forall (V s1) (mch ++ [child])).
  { apply Forall_app. split.
    - eapply Forall_impl; [|exact (proj2 (wf_arr _ Wf _ _ Hmch))]. unfold V. intros; lia.
    - constructor; auto. apply Lc1. rewrite Efpc. simpl. auto. }
  destruct (alloc_arr_ok 1 _ _ _ _ G1 Vch1 H2) as (G2 & _).
  destruct (alloc_arr_eff _ _ _ _ H2) as (Ea & N2 & Fa & Oa & Ona & MS2). clear H2.
  assert (R2 : reps s2 (mch ++ [child]) (kidsr ++ [childn]) (fpsn ++ [fpc])).
  { apply all3_app.
    - eapply reps_frame; eauto. intros y Hy. split; [apply Ona|apply Oa]. apply Lfps in Hy. lia.
    - simpl. split; auto. eapply rep_frame; eauto. intros y Hy. split; [apply Ona|apply Oa]. apply Lc1 in Hy. unfold V in Hy. lia. }
  mbind H nn s3 H3.
  assert (Na : ~ In a (List.concat (fpsn ++ [fpc]))).
  { rewrite concat_app. simpl. rewrite app_nil_r. intros Hin. apply in_app_or in Hin. destruct Hin as [Hin|Hin].
    - apply Lfps in Hin. lia. - apply Lc1 in Hin. unfold V in Hin. lia. }
  destruct (new_node_rep _ _ _ _ _ _ _ _ _ G2 Fa R2 Na H3) as (fps3 & Enn & N3 & Rnn & Perm3 & Old3 & MS3 & G3). clear H3.
  rewrite concat_app in Perm3. simpl in Perm3. rewrite app_nil_r in Perm3.
  cbn [bind bump_size upd_depth upd_maxp] in H.
  match type of H with _ ?sm = _ => set (s4 := sm) in * end.
  assert (G4 : good 1 s4) by (unfold s4; repeat apply good_set_meta; auto).
  rewrite Pos.eqb_refl in H.
  assert (Old4 : forall y, y < s_next s -> same_at s s4 y).
  { intros y Ly. eapply same_at_trans; [apply Old1; auto|]. eapply same_at_trans; [split; [apply Ona|apply Oa; lia]|].
    eapply same_at_trans; [apply Old3; lia|]. split; reflexivity. }
  (* n.key = method *)
  mbind H u5 s5 H5.
  destruct (set_key_ok 1 _ _ _ _ _ G4 ltac:(lia) H5) as (G5 & _).
  destruct (set_key_eff _ _ _ _ _ H5) as (o5 & Ho5 & Fn5 & On5 & Oa5 & Nx5 & MS5). clear H5.
  pose proof Rnn as Rnn0. apply rep_unfold in Rnn. destruct Rnn as (no & nch & nfps & Hno & Hnk & Hnr & Hnch & Hnkids & Hnfp).
  assert (o5 = no) by (unfold s4 in Ho5; simpl in Ho5; unfold find_node in *; simpl in *; congruence). subst o5.
  inversion Hnfp as [[Ea' Efp3]]. 
  assert (Lo : forall y, In y (List.concat fps3) -> y < a).
  { intros y Hy. apply (Permutation_in _ Perm3) in Hy. apply in_app_or in Hy. destruct Hy as [Hy|Hy].
    - apply Lfps in Hy. lia. - apply Lc1 in Hy. unfold V in Hy. lia. }
  assert (Rnn5 : rep s5 nn (Node method rr (sort_nodes (kidsr ++ [childn]))) (nn :: a :: List.concat fps3)).
  { apply rep_unfold. eexists _, nch, nfps. spl; [exact Fn5| | | | |]; simpl; auto.
    - rewrite Oa5. unfold s4. simpl. exact Hnch.
    - eapply reps_frame; [exact Hnkids|]. intros y Hy. split.
      + rewrite On5; [reflexivity|]. rewrite <- Efp3 in Hy. apply Lo in Hy. lia.
      + rewrite Oa5. reflexivity. }
  mbind H u6 s6 H6. destruct (w_add_if_cache_eff _ _ _ _ _ H6) as (HS6 & MS6).
  assert (O5 : own 1 s5 nn).
  { split; [lia|]. eexists. split; [exact Fn5|]. simpl. lia. }
  destruct (w_add_if_cache_ok evict evict_sub 1 _ _ _ _ G5 O5 H6) as (G6 & _). clear H6.
  mbind H b s7 H7. apply ret_ok in H. destruct H as [-> <-].
  assert (Vnn6 : V s6 nn).
  { unfold V. destruct HS6 as (_ & _ & ->). rewrite Nx5. unfold s4. simpl. lia. }
  destruct (update_root_ok 1 _ _ _ _ G6 Vnn6 H7) as (G7 & _).
  (* the roots in s6 *)
  assert (Old6 : forall y, y < s_next s -> same_at s s6 y).
  { intros y Ly. eapply same_at_trans; [apply Old4; auto|]. eapply same_at_trans; [|apply heap_same_at; exact HS6].
    split; [apply On5; lia|apply Oa5]. }
  destruct MS1 as (A1 & A2 & A3 & A4 & A5). destruct MS2 as (B1 & B2 & B3 & B4 & B5).
  destruct MS3 as (C1 & C2 & C3 & C4 & C5). destruct MS5 as (D1 & D2 & D3 & D4 & D5). destruct MS6 as (E1 & E2 & E3 & E4 & E5).
  unfold s4 in *. simpl in D1, D2, D3, D4, D5, Nx5.
  assert (Rt6 : s_root s6 = s_root s) by congruence.
  assert (Hrs6 : find_arr s6 (s_root s6) = Some rs) by (rewrite Rt6, (proj2 (Old6 _ VR)); auto).
  assert (Hr6 : reps s6 rs roots fps) by (eapply reps_frame; eauto; intros y Hy; apply Old6; apply Lall; auto).
  assert (Fn6 : find_node s6 nn = Some {| n_key := method; n_route := n_route no; n_arr := n_arr no |})
    by (rewrite (proj1 (heap_same_at _ _ nn HS6)); auto).
  unfold update_root in H7.
  mbind H7 kk s9 H9. unfold key_of in H9. mbind H9 o9 s10 H10. apply get_node_ok in H10. destruct H10 as [-> Ho9].
  apply ret_ok in H9. destruct H9 as [-> ->]. rewrite Fn6 in Ho9. inversion Ho9; subst o9; clear Ho9. simpl in H7.
  mbind H7 idx s9 H9. rewrite (h_method_index_rep _ _ _ _ _ Hrs6 Hr6) in H9. inversion H9; subst idx s9; clear H9.
  rewrite MI in H7.
  mbind H7 rs' s9 H9. unfold get_roots, bind, get_root, get_arr in H9. unfold find_arr in Hrs6. rewrite Hrs6 in H9.
  inversion H9; subst rs' s9; clear H9. fold (find_arr s6 (s_root s6)) in Hrs6.
  destruct (Nat.ltb i (List.length rs)); [|discriminate].
  mbind H7 AR s9 H9.
  destruct (alloc_arr_eff _ _ _ _ H9) as (EAR & N9 & FAR & OAR & ON9 & MS9). clear H9.
  mbind H7 u3 s10 H10. apply ret_ok in H7. destruct H7 as [_ <-].
  destruct (set_root_eff _ _ _ _ H10) as (HS10 & R10 & Z10 & P10 & D10 & C10). clear H10.
  assert (N6 : s_next s6 = s_next s5) by (destruct HS6 as (_ & _ & ->); auto).
  assert (SA : forall y, y < AR -> same_at s6 s' y).
  { intros y Ly. eapply same_at_trans; [|apply heap_same_at; exact HS10]. split; [apply ON9|apply OAR; lia]. }
  assert (Rnn' : rep s' nn (Node method rr (sort_nodes (kidsr ++ [childn]))) (nn :: a :: List.concat fps3)).
  { eapply rep_frame; [exact Rnn5|]. intros y Hy. eapply same_at_trans; [apply heap_same_at; exact HS6|]. apply SA.
    destruct Hy as [<-|[<-|Hy]]; try lia. apply Lo in Hy. lia. }
  destruct MS9 as (F1 & F2 & F3 & F4 & F5).
  split; auto. split.
  - exists (set_nth rs i nn), (set_nth fps i (nn :: a :: List.concat fps3)). spl.
    + rewrite R10. rewrite (proj2 (heap_same_at _ _ AR HS10)). auto.
    + subst kr. unfold Tree.new_node. apply all3_set; auto.
      eapply reps_frame; [exact Hr|]. intros y Hy. eapply same_at_trans; [apply Old6; apply Lall; auto|].
      apply SA. apply Lall in Hy. unfold V in Hy. lia.
    + eapply NoDup_concat_set_nth; eauto.
      * assert (NDo : NoDup (List.concat fpsn ++ fpc)).
        { apply NoDup_app_intro; auto.
          - pose proof (NoDup_concat_nth _ _ _ ND Hfi) as Nf. rewrite Hfc' in Nf.
            inversion Nf as [|? ? ? T]; inversion T; auto.
          - intros y Hy Hin. apply Lfps in Hy. apply Fc in Hin. lia. }
        constructor; [|constructor].
        -- intros [Hin|Hin]; [lia|]. apply Lo in Hin. lia.
        -- intros Hin. apply Lo in Hin. lia.
        -- eapply Permutation_NoDup; [apply Permutation_sym; exact Perm3|auto].
      * intros y [<-|[<-|Hin]].
        -- right. intros Hin. apply Lall in Hin. unfold V in Hin. lia.
        -- right. intros Hin. apply Lall in Hin. unfold V in Hin. lia.
        -- apply (Permutation_in _ Perm3) in Hin. apply in_app_or in Hin. destruct Hin as [Hin|Hin].
           ++ left. rewrite Hfc'. simpl. auto.
           ++ right. intros Hin'. apply Lall in Hin'. apply Fc in Hin. unfold V in Hin'. lia.
    + rewrite R10. intros Hin. destruct (in_concat_set_nth _ _ _ _ Hin) as [[Hx|[Hx|Hx]]|Hx]; try lia.
      * apply Lo in Hx. lia.
      * apply Lall in Hx. unfold V in Hx. lia.
  - spl; auto; try congruence; try lia.
Qed.

End InsRoot.

(* ---------- pure facts about the roots list ---------- *)
Lemma find_key_from_app m l x : forall b,
  find_key_from b m (l ++ [x]) =
  match find_key_from b m l with
  | Some i => Some i
  | None => if bytes_eqb (nkey x) m then Some (b + List.length l)%nat else None
  end.
Proof.
  induction l as [|y l IH]; intros b; simpl.
  - rewrite Nat.add_0_r. reflexivity.
  - destruct (bytes_eqb (nkey y) m); auto. rewrite IH. destruct (find_key_from (S b) m l); auto.
    replace (S b + List.length l)%nat with (b + S (List.length l))%nat by lia. auto.
Qed.

Lemma skipn_app_le {A} (l l' : list A) k : (k <= List.length l)%nat -> skipn k (l ++ l') = skipn k l ++ l'.
Proof. revert l. induction k as [|k IH]; intros [|x l] L; simpl in *; auto; try lia. apply IH. lia. Qed.

Lemma method_index_app rs x m : (4 <= List.length rs)%nat ->
  method_index (rs ++ [x]) m =
  match method_index rs m with
  | Some i => Some i
  | None => if bytes_eqb (nkey x) m then Some (List.length rs) else None
  end.
Proof.
  intros L. unfold method_index.
  destruct (bytes_eqb m m_get); auto. destruct (bytes_eqb m m_post); auto.
  destruct (bytes_eqb m m_put); auto. destruct (bytes_eqb m m_delete); auto.
  rewrite skipn_app_le by auto. rewrite find_key_from_app.
  destruct (find_key_from 4 m (skipn 4 rs)); auto.
  rewrite skipn_length. replace (4 + (List.length rs - 4))%nat with (List.length rs) by lia. auto.
Qed.

Lemma roots_wf_app_new rs m : roots_wf rs -> method_index rs m = None -> roots_wf (rs ++ [empty_root m]).
Proof.
  intros (RO & L & RN) MI. split; [|split].
  - intros i r Hr. rewrite method_index_app by auto.
    destruct (Nat.lt_ge_cases i (List.length rs)) as [Li|Li].
    + rewrite nth_error_app1 in Hr by auto. rewrite (RO _ _ Hr). auto.
    + rewrite nth_error_app2 in Hr by auto. destruct (i - List.length rs)%nat as [|k] eqn:E; simpl in Hr.
      * inversion Hr; subst r. simpl. rewrite MI. rewrite bytes_eqb_refl. f_equal. lia.
      * destruct k; discriminate.
  - rewrite app_length. simpl. lia.
  - intros r Hr. apply in_app_or in Hr. destruct Hr as [Hr|[<-|[]]]; auto.
Qed.

Lemma roots_wf_set rs i r r' : roots_wf rs -> nth_error rs i = Some r -> nkey r' = nkey r -> nroute r' = None ->
  roots_wf (set_nth rs i r').
Proof.
  intros (RO & L & RN) Hi Hk Hr.
  assert (MI : forall m, method_index (set_nth rs i r') m = method_index rs m).
  { intros m. unfold method_index.
    destruct (bytes_eqb m m_get); auto. destruct (bytes_eqb m m_post); auto.
    destruct (bytes_eqb m m_put); auto. destruct (bytes_eqb m m_delete); auto.
    rewrite <- !find_eq_key. rewrite <- !skipn_map. f_equal. f_equal.
    clear -Hi Hk. revert i Hi. induction rs as [|x rs IHr]; intros [|i] Hi; simpl in *; try discriminate; auto.
    - inversion Hi; subst. rewrite Hk. reflexivity.
    - f_equal. auto. }
  split; [|split].
  - intros k x Hx. rewrite MI. destruct (Nat.eq_dec k i) as [->|Hne].
    + erewrite nth_set_nth_eq in Hx by eauto. inversion Hx; subst. rewrite Hk. apply RO. auto.
    + rewrite nth_set_nth_ne in Hx by auto. apply RO. auto.
  - rewrite set_nth_len. auto.
  - intros x Hx. apply In_nth_error in Hx. destruct Hx as (k & Hx). destruct (Nat.eq_dec k i) as [->|Hne].
    + erewrite nth_set_nth_eq in Hx by eauto. inversion Hx; subst. auto.
    + rewrite nth_set_nth_ne in Hx by auto. apply RN. eapply nth_error_In; eauto.
Qed.

Lemma ins_key f ri n cm depth rest n' d : ins f ri n cm depth rest = InsOk n' d -> nkey n' = nkey n /\ nroute n' = nroute n.
Proof.
  destruct f as [|f]; [discriminate|]. destruct rest as [|c rest0]; [discriminate|]. destruct n as [k r kids].
  rewrite ins_step. destruct (find_child_from 0 c kids) as [i|].
  - destruct (nth_error kids i) as [c1|]; [|discriminate].
    destruct (ins_child f ri c1 cm depth (c :: rest0)); [|discriminate]. intros H; inversion H; subst. auto.
  - destruct (new_leaf ri cm (c :: rest0)). intros H; inversion H; subst. auto.
Qed.

Section InsTop.
Variable evict : N -> list addr -> list addr.
Hypothesis evict_sub : forall c w a, In a (evict c w) -> In a w.

Definition ins_top_post (s s' : st) (roots : list node) (i : nat) (ri : rinfo) (res : ins_res) (out : ins_out) : Prop :=
  good 1 s' /\
  match res with
  | InsOk root' d =>
      out = IOk /\ roots_rep s' (set_nth roots i root') /\
      s_size s' = (s_size s + 1)%Z /\ s_maxp s' = Nat.max (s_maxp s) (ri_pslen ri) /\ s_depth s' = Nat.max (s_depth s) d
  | InsErr (ErrExist p) =>
      out = IExist p /\ roots_rep s' roots /\ s_size s' = s_size s /\ s_maxp s' = s_maxp s /\ s_depth s' = s_depth s
  | InsErr (ErrConflict ps) =>
      exists a cn fpa, out = IConflict a /\ rep s' a cn fpa /\ route_conflict cn = ps /\
      roots_rep s' roots /\ s_size s' = s_size s /\ s_maxp s' = s_maxp s /\ s_depth s' = s_depth s
  end.

Lemma insert_at_root m ri s rs roots fps i rn root out s' :
  good 1 s -> find_arr s (s_root s) = Some rs -> reps s rs roots fps -> NoDup (List.concat fps) ->
  ~ In (s_root s) (List.concat fps) -> roots_wf roots ->
  method_index roots m = Some i -> nth_error roots i = Some root -> nth_error rs i = Some rn ->
  (r <- cow_search evict rn (rpat (ri_route ri)) ;; K_ins evict m rn ri r) s = Ok (out, s') ->
  rpat (ri_route ri) <> [] /\
  ins_top_post s s' roots i ri (ins (S (List.length (rpat (ri_route ri)))) ri root 0 0 (rpat (ri_route ri))) out.
Proof.
  intros G Hrs Hr ND NR (RO & L4 & RN) MI Hroot Hrn H.
  destruct (all3_nth _ _ _ _ _ _ Hr Hroot) as (rn0 & fpr & Hrn0 & Hfpr & Hrep).
  assert (rn0 = rn) by congruence. subst rn0.
  pose proof (method_index_key _ _ _ _ RO MI Hroot) as Ekr.
  pose proof (RN _ (nth_error_In _ _ Hroot)) as Err.
  destruct root as [kr rr kidsr]. cbn [nkey nroute] in Ekr, Err. subst rr.
  unfold cow_search in H. set (path := rpat (ri_route ri)) in *.
  destruct path as [|c rest0].
  - (* empty pattern: the Go code dereferences a nil parent *)
    exfalso. simpl in H. unfold bind at 1 in H. unfold ret at 1 in H. unfold K_ins in H. cbn [r_matched r_from r_p r_depth r_cm r_rest] in H.
    mbind H mo s0 H0. apply get_node_ok in H0. destruct H0 as [-> Hmo].
    apply rep_unfold in Hrep. destruct Hrep as (mo' & mch & fpsn & Hmo' & Hk & Hrr & _).
    assert (mo' = mo) by congruence. subst mo'. rewrite Hrr in H.
    unfold classify in H. cbn [r_rest r_cmin] in H.
    destruct (Nat.eqb 0 (List.length (n_key mo))).
    + mbind H x s1 H1. cbn [bind bump_size upd_maxp] in H. mbind H q s2 H2. discriminate.
    + destruct (Nat.ltb 0 (List.length (n_key mo))); [|discriminate].
      mbind H x s1 H1. mbind H a s2 H2. mbind H pa s3 H3. cbn [bind bump_size upd_maxp upd_depth] in H.
      mbind H q s4 H4. discriminate.
  - split; [discriminate|]. rewrite cow_loop_unfold_root in H.
    destruct (get_edge_rep _ _ _ _ _ _ c Hrep) as (co & cch & fpsn & Hco & Hcch & Hkids & GE).
    rewrite GE in H. simpl List.length. rewrite ins_step. unfold find_child in *. cbn [nchildren nkey nroute] in *.
    destruct (find_child_from 0 c kidsr) as [i'|] eqn:Hfi.
    2:{ (* the new edge is added at the method root *)
      match type of H with K_ins _ _ _ _ ?rr _ = _ =>
        pose proof (ins_root_end evict evict_sub m ri s rs roots fps i rn kr None kidsr rr out s'
                      G Hrs Hr ND NR Hroot Hrn MI Ekr eq_refl eq_refl ltac:(discriminate) H) as P
      end.
      cbn [r_cm r_rest r_depth] in P. destruct (new_leaf ri 0 (c :: rest0)) as [child add].
      destruct P as (-> & RR & G' & Z & P & D). unfold ins_top_post. spl; auto. }
    destruct (nth_error cch i') as [nx|] eqn:Hnx.
    2:{ destruct (nth_error kidsr i') as [cc|] eqn:Hcc.
        - destruct (all3_nth _ _ _ _ _ _ Hkids Hcc) as (? & ? & Hx & _). congruence.
        - exfalso. apply find_child_from_lt in Hfi. apply nth_error_None in Hcc. lia. }
    destruct (all3_nth_a _ _ _ _ _ _ Hkids Hnx) as (c1 & fc & Hc1 & Hfc1 & Hrepc).
    rewrite Hc1.
    destruct (relink_root evict rn s) as [[p' s1]| |] eqn:RL; try discriminate.
    destruct (descend_root evict evict_sub s rs roots fps i rn (Node kr None kidsr) fpr p' s1
                G Hrs Hr ND NR Hroot Hrn Hfpr (RO _ _ Hroot) RL)
      as (co2 & co' & cch2 & fpsn2 & Hco2 & Hcch2 & Hkids2 & Hfpn & Hp' & Hk' & Hr' & Hcch' & Hkids' & Hrs1 & Hr1 & ND1 & NR1 & Old1 & Nx1 & SF1 & Z1 & P1 & D1 & G1 & NDp' & NRp').
    assert (co2 = co) by congruence. subst co2. assert (cch2 = cch) by congruence. subst cch2.
    cbn [nchildren nkey nroute] in *.
    destruct (all3_nth _ _ _ _ _ _ Hkids' Hc1) as (nx1 & fc1 & Hnx1 & Hfc1' & Hrepc1).
    assert (nx1 = nx) by congruence. subst nx1.
    assert (Hroot' : ~ In rn (List.concat fpsn2)).
    { pose proof (NoDup_concat_nth _ _ _ ND Hfpr) as Nf. rewrite Hfpn in Nf. inversion Nf as [|? ? Hx _]. intros Hin. apply Hx. simpl. auto. }
    pose proof (ins_below evict m rn ri _ s1 p' co' cch kidsr fpsn2 i' nx c1 fc1 c rest0 None None 0%nat 0%nat out s'
                  (ins_sim evict evict_sub m rn ri _) G1 Hp' Hcch' Hkids' NDp' Hc1 Hnx Hfc1' Hfi Hroot' H) as (Rt & Ch & Post).
    assert (Fin : forall kids', inplace_res s1 s' p' co' fpsn2 kids' ->
                  roots_rep s' (set_nth roots i (Node kr None kids')) /\ good 1 s').
    { intros kids' IR.
      destruct (ascend_root s1 s' _ _ _ i p' co' fpsn2 kr None kidsr kids' G1 Hrs1 Hr1 ND1 NR1
                  ltac:(eapply nth_set_nth_eq; eauto) Hroot ltac:(eapply nth_set_nth_eq; eauto) Hk' Hr' IR)
        as (Hrs' & fps' & Hr'' & ND'' & NR'' & G').
      split; auto. exists (set_nth rs i p'), fps'. rewrite Rt. spl; auto. }
    assert (FinId : inplace_res s1 s' p' co' fpsn2 kidsr -> roots_rep s' roots /\ good 1 s').
    { intros IR. destruct (Fin _ IR) as [X Y]. rewrite (set_nth_same roots i _ Hroot) in X. auto. }
    unfold ins_top_post.
    destruct (ins_child _ ri c1 0 0 (c :: rest0)) as [c' d|[ex|ps]].
    + destruct Post as (-> & IR & Z & Mp & D). destruct (Fin _ IR) as [X Y]. rewrite <- set_nth_replace.
      spl; auto; congruence.
    + destruct Post as (-> & IR & Z & Mp & D). destruct (FinId IR) as [X Y]. spl; auto; congruence.
    + destruct Post as (a & cn & fpa & -> & Ra & Rc & IR & Z & Mp & D). destruct (FinId IR) as [X Y].
      split; auto. exists a, cn, fpa. spl; auto; congruence.
Qed.

End InsTop.

Section InsThm.
Variable evict : N -> list addr -> list addr.
Hypothesis evict_sub : forall c w a, In a (evict c w) -> In a w.

Theorem h_insert_refines m ri s T out s' :
  good 1 s -> trep s T -> roots_wf (t_roots T) ->
  h_insert evict m ri s = Ok (out, s') ->
  good 1 s' /\
  match insert T m ri with
  | ROk T' => out = IOk /\ trep s' T' /\ roots_wf (t_roots T')
  | RExist p => out = IExist p /\ trep s' T
  | RConflict ps => exists a cn fpa, out = IConflict a /\ rep s' a cn fpa /\ route_conflict cn = ps /\ trep s' T
  | RNotFound => False
  end.
Proof.
  intros G TR WF H. pose proof TR as TR0. apply trep_roots in TR. destruct TR as ((rs & fps & Hrs & Hr & ND & NR) & Zs & Ps & Ds).
  rewrite h_insert_unfold in H. unfold insert.
  mbind H idx s0 H0. rewrite (h_method_index_rep _ _ _ _ _ Hrs Hr) in H0. inversion H0; subst idx s0; clear H0.
  destruct (method_index (t_roots T) m) as [i|] eqn:MI.
  - mbind H rn s0 H0. mbind H0 rs' s1 H1. unfold get_roots, bind, get_root, get_arr in H1. unfold find_arr in Hrs. rewrite Hrs in H1.
    inversion H1; subst rs' s1; clear H1. fold (find_arr s (s_root s)) in Hrs.
    apply opt_get_ok in H0. destruct H0 as [Hrn ->].
    destruct (all3_nth_a _ _ _ _ _ _ Hr Hrn) as (root & fpr & Hroot & Hfpr & Hrep).
    rewrite Hroot.
    pose proof (insert_at_root evict evict_sub m ri s rs (t_roots T) fps i rn root out s' G Hrs Hr ND NR WF MI Hroot Hrn H) as (_ & G' & P).
    split; auto.
    destruct (ins (S (List.length (rpat (ri_route ri)))) ri root 0 0 (rpat (ri_route ri))) as [root' d|[ex|ps]] eqn:EI.
    + destruct P as (-> & RR & Z & Mp & D). split; auto. rewrite <- set_nth_replace. split.
      * apply trep_roots. simpl. spl; auto; try congruence; try lia.
      * simpl. destruct (ins_key _ _ _ _ _ _ _ _ EI) as [K1 K2].
        eapply roots_wf_set; eauto. rewrite K2. destruct WF as (_ & _ & RN). apply RN. eapply nth_error_In; eauto.
    + destruct P as (-> & RR & Z & Mp & D). split; auto. apply trep_roots. spl; auto; congruence.
    + destruct P as (a & cn & fpa & -> & Ra & Rc & RR & Z & Mp & D). exists a, cn, fpa. spl; auto.
      apply trep_roots. spl; auto; congruence.
  - (* a new method root *)
    pose proof (good1_wf _ G) as Wf. destruct WF as (RO & L4 & RN).
    mbind H rn s0 H0.
    mbind H0 e s1 H1.
    destruct (alloc_arr_ok 1 [] _ _ _ G (Forall_nil _) H1) as (G1 & _ & V1 & _).
    destruct (alloc_arr_eff _ _ _ _ H1) as (Ee & N1 & Fe & Oe & One & MS1). clear H1.
    mbind H0 rn0 s2 H2.
    pose proof (fun pf => alloc_node_ok 1 _ _ _ _ G1 pf H2) as X. simpl in X. destruct (X V1) as (G2 & _ & V2 & _). clear X.
    destruct (alloc_node_eff _ _ _ _ H2) as (En & N2 & Fn & On & Oa2 & MS2). clear H2.
    mbind H0 u s3 H3. apply ret_ok in H0. destruct H0 as [<- <-].
    destruct (add_root_ok 1 _ _ _ _ G2 V2 H3) as (G3 & _).
    destruct MS1 as (A1 & A2 & A3 & A4 & A5). destruct MS2 as (B1 & B2 & B3 & B4 & B5).
    assert (Lall : Forall (V s) (List.concat fps)) by (eapply reps_lt; eauto). rewrite Forall_forall in Lall.
    destruct (wf_arr _ Wf _ _ Hrs) as [VR Frs].
    assert (Old2 : forall y, y < s_next s -> same_at s s2 y).
    { intros y Ly. split; [rewrite On by lia; apply One|rewrite Oa2; apply Oe; lia]. }
    unfold add_root in H3. mbind H3 rs' s4 H4. unfold get_roots, bind, get_root, get_arr in H4.
    assert (Hrs2 : find_arr s2 (s_root s2) = Some rs) by (rewrite B1, A1, (proj2 (Old2 _ VR)); auto).
    unfold find_arr in Hrs2. rewrite Hrs2 in H4. inversion H4; subst rs' s4; clear H4.
    mbind H3 AR s4 H4.
    destruct (alloc_arr_eff _ _ _ _ H4) as (EAR & N4 & FAR & OAR & ON4 & MS4). clear H4.
    destruct (set_root_eff _ _ _ _ H3) as (HS5 & R5 & Z5 & P5 & D5 & C5). clear H3.
    destruct MS4 as (C1 & C2 & C3 & C4 & C5').
    assert (SA : forall y, y < AR -> same_at s2 s0 y).
    { intros y Ly. eapply same_at_trans; [|apply heap_same_at; exact HS5]. split; [apply ON4|apply OAR; lia]. }
    assert (Hrs0 : find_arr s0 (s_root s0) = Some (rs ++ [rn])) by (rewrite R5, (proj2 (heap_same_at _ _ AR HS5)); auto).
    assert (Hr0 : reps s0 (rs ++ [rn]) (t_roots T ++ [empty_root m]) (fps ++ [[rn; e]])).
    { apply all3_app.
      - eapply reps_frame; [exact Hr|]. intros y Hy. eapply same_at_trans; [apply Old2; apply Lall; auto|].
        apply SA. apply Lall in Hy. unfold V in Hy. lia.
      - simpl. split; auto. eexists _, [], []. spl.
        + rewrite (proj1 (SA rn ltac:(lia))). exact Fn.
        + reflexivity. + reflexivity.
        + simpl. rewrite (proj2 (SA e ltac:(lia))). rewrite Oa2. exact Fe.
        + simpl. auto.
        + reflexivity. }
    assert (ND0 : NoDup (List.concat (fps ++ [[rn; e]]))).
    { rewrite concat_app. simpl. apply NoDup_app_intro; auto.
      - constructor; [simpl; lia|]. constructor; auto. constructor.
      - intros y Hy [<-|[<-|[]]]; apply Lall in Hy; unfold V in Hy; lia. }
    assert (NR0 : ~ In (s_root s0) (List.concat (fps ++ [[rn; e]]))).
    { rewrite R5, concat_app. simpl. intros Hin. apply in_app_or in Hin. destruct Hin as [Hin|[Hin|[Hin|[]]]]; try lia.
      apply Lall in Hin. unfold V in Hin. lia. }
    assert (WF0 : roots_wf (t_roots T ++ [empty_root m])) by (apply roots_wf_app_new; [split; auto|auto]).
    assert (MI0 : method_index (t_roots T ++ [empty_root m]) m = Some (List.length (t_roots T))).
    { rewrite method_index_app by auto. rewrite MI. simpl. rewrite bytes_eqb_refl. auto. }
    destruct (all3_len _ _ _ _ Hr) as [Lrs _].
    assert (Hroot0 : nth_error (t_roots T ++ [empty_root m]) (List.length (t_roots T)) = Some (empty_root m)).
    { rewrite nth_error_app2 by lia. rewrite Nat.sub_diag. reflexivity. }
    assert (Hrn0 : nth_error (rs ++ [rn]) (List.length (t_roots T)) = Some rn).
    { rewrite nth_error_app2 by lia. rewrite <- Lrs, Nat.sub_diag. reflexivity. }
    rewrite Hroot0.
    pose proof (insert_at_root evict evict_sub m ri s0 _ _ _ _ rn _ out s' G3 Hrs0 Hr0 ND0 NR0 WF0 MI0 Hroot0 Hrn0 H) as (Hpne & G' & P).
    split; auto.
    destruct (ins (S (List.length (rpat (ri_route ri)))) ri (empty_root m) 0 0 (rpat (ri_route ri))) as [root' d|[ex|ps]] eqn:EI.
    + destruct P as (-> & RR & Z & Mp & D). split; auto. rewrite <- set_nth_replace. split.
      * apply trep_roots. simpl. spl; auto; try congruence; try lia.
      * simpl. destruct (ins_key _ _ _ _ _ _ _ _ EI) as [K1 K2].
        eapply roots_wf_set; eauto.
    + exfalso. clear -EI. destruct (rpat (ri_route ri)) as [|c r0]; simpl in EI; [discriminate|].
      destruct (new_leaf ri 0 (c :: r0)); discriminate.
    + exfalso. clear -EI Hpne. destruct (rpat (ri_route ri)) as [|c r0]; [congruence|]. simpl in EI.
      destruct (new_leaf ri 0 (c :: r0)); discriminate.
Qed.

End InsThm.

(* ---------- remove ---------- *)
(* the exact-match case of Tree.rem at the child c (index i) of a non-root node n *)
Definition rem_exact (n : node) (i : nat) (c : node) (r : route) : rem_res :=
  let updn (c' : node) := Node (nkey n) (nroute n) (replace_nth (nchildren n) i c') in
  let edges := remove_nth (nchildren n) i in
  match nchildren c with
  | _ :: _ :: _ => RemReplace (updn (Node (nkey c) None (nchildren c))) r
  | [g] => RemReplace (updn (merge_child c g)) r
  | [] => match edges with
          | [] => if negb (is_leaf n) then RemSplit r else RemReplace (rebuild n false edges false) r
          | _ => RemReplace (rebuild n false edges false) r
          end
  end.

Definition rem_child (f : nat) (n : node) (i : nat) (c : node) (rest : bytes) : rem_res :=
  let lcp := List.length (common_prefix rest (nkey c)) in
  let updn (c' : node) := Node (nkey n) (nroute n) (replace_nth (nchildren n) i c') in
  let edges := remove_nth (nchildren n) i in
  if Nat.eqb lcp (List.length (nkey c)) then
    if Nat.eqb lcp (List.length rest) then
      match nroute c with
      | None => RemNotFound
      | Some r => rem_exact n i c r
      end
    else
      match rem f c false (skipn lcp rest) with
      | RemNotFound => RemNotFound
      | RemReplace c' r => RemReplace (updn c') r
      | RemSplit r => RemReplace (rebuild n false edges true) r
      | RemRoot _ _ => RemNotFound
      end
  else RemNotFound.

Lemma rem_step f k r kids c0 rest0 :
  rem (S f) (Node k r kids) false (c0 :: rest0) =
  match find_child_from 0 c0 kids with
  | None => RemNotFound
  | Some i => match nth_error kids i with
              | None => RemNotFound
              | Some c => rem_child f (Node k r kids) i c (c0 :: rest0)
              end
  end.
Proof.
  cbn [rem]. unfold find_child, rem_child, rem_exact. cbn [nchildren nkey nroute].
  destruct (find_child_from 0 c0 kids) as [i|]; auto.
  destruct (nth_error kids i) as [c|]; auto.
  destruct (Nat.eqb _ (List.length (nkey c))); auto.
  destruct (Nat.eqb _ (List.length (c0 :: rest0))).
  - destruct (nroute c); auto. destruct (nchildren c) as [|g [|g2 l]]; auto.
    destruct (remove_nth kids i); auto. simpl. destruct (negb (is_leaf (Node k r kids))); auto.
  - destruct (rem f c false _); auto.
Qed.

(* ---------- heap pieces of remove ---------- *)
Lemma rm_del_nth (l : list addr) i x : NoDup l -> nth_error l i = Some x -> rm x l = del_nth l i.
Proof.
  revert i. induction l as [|y l IH]; intros [|i] ND H; simpl in *; try discriminate.
  - inversion H; subst. rewrite Pos.eqb_refl. simpl. inversion ND as [|? ? Hn ND']; subst.
    unfold rm. clear -Hn. induction l as [|z l IH]; simpl; auto.
    destruct (Pos.eqb_spec z x) as [->|Hne]; simpl.
    + exfalso. apply Hn. simpl. auto.
    + f_equal. apply IH. intros Hi. apply Hn. simpl. auto.
  - inversion ND as [|? ? Hn ND']; subst. destruct (Pos.eqb_spec y x) as [->|Hne]; simpl.
    + exfalso. apply Hn. eapply nth_error_In; eauto.
    + f_equal. apply IH; auto.
Qed.

Lemma heads_in s ch kids fps : reps s ch kids fps -> forall k c, nth_error ch k = Some c ->
  exists f, nth_error fps k = Some f /\ In c f.
Proof.
  intros H k c Hk. destruct (all3_nth_a _ _ _ _ _ _ H Hk) as (n & f & _ & Hf & Hr).
  exists f. split; auto. destruct (rep_head _ _ _ _ Hr) as (t & ->). simpl. auto.
Qed.

Lemma heads_nodup s ch kids fps : reps s ch kids fps -> NoDup (List.concat fps) -> NoDup ch.
Proof.
  unfold reps. revert kids fps. induction ch as [|c ch IH]; intros [|k kids] [|f fps] H ND; simpl in *; try tauto; try constructor.
  - destruct H as [Hr H]. apply NoDup_app_inv in ND. destruct ND as (_ & _ & D).
    intros Hin. apply In_nth_error in Hin. destruct Hin as (j & Hj).
    destruct (heads_in s ch kids fps H j c Hj) as (g & Hg & Hc).
    destruct (rep_head _ _ _ _ Hr) as (t & ->). apply (D c); [simpl; auto|]. eapply in_lconcat_nth; eauto.
  - destruct H as [Hr H]. apply NoDup_app_inv in ND. eapply IH; eauto. tauto.
Qed.

Lemma del_nth_len {A} (l : list A) i x : nth_error l i = Some x -> S (List.length (del_nth l i)) = List.length l.
Proof. revert i. induction l as [|y l IH]; intros [|i] H; simpl in *; try discriminate; auto. Qed.

Lemma in_concat_del_nth {A} (l : list (list A)) i x : In x (List.concat (del_nth l i)) -> In x (List.concat l).
Proof.
  revert i. induction l as [|y l IH]; intros [|i] H; simpl in *; auto.
  - apply in_or_app. auto.
  - apply in_app_or in H. apply in_or_app. destruct H; eauto.
Qed.

Lemma NoDup_concat_del_nth {A} (l : list (list A)) i : NoDup (List.concat l) -> NoDup (List.concat (del_nth l i)).
Proof.
  revert i. induction l as [|y l IH]; intros [|i] H; simpl in *; auto.
  - apply NoDup_app_inv in H. tauto.
  - apply NoDup_app_inv in H. destruct H as (N1 & N2 & D). apply NoDup_app_intro; auto.
    intros x Hx Hin. apply (D x Hx). eapply in_concat_del_nth; eauto.
Qed.

(* recreateParentEdge: a fresh array with the children of q minus the i-th *)
Lemma recreate_rep s q qo qch kids fps i x pe s1 :
  good 1 s -> find_node s q = Some qo -> find_arr s (n_arr qo) = Some qch -> reps s qch kids fps ->
  NoDup (List.concat fps) -> nth_error qch i = Some x ->
  recreate_parent_edge q x s = Ok (pe, s1) ->
  pe = s_next s /\ s_next s1 = Pos.succ (s_next s) /\ find_arr s1 pe = Some (del_nth qch i) /\
  (forall y, y < s_next s -> same_at s s1 y) /\ meta_same s s1 /\ good 1 s1 /\
  reps s1 (del_nth qch i) (del_nth kids i) (del_nth fps i).
Proof.
  intros G Hq Hqch Hr ND Hi H. pose proof (good1_wf _ G) as Wf.
  unfold recreate_parent_edge in H.
  mbind H o s2 H2. apply get_node_ok in H2. destruct H2 as [-> Ho]. assert (o = qo) by congruence. subst o.
  mbind H ch s2 H2. apply get_arr_ok in H2. destruct H2 as [-> Hch]. assert (ch = qch) by congruence. subst ch.
  rewrite (rm_del_nth qch i x (heads_nodup _ _ _ _ Hr ND) Hi) in H.
  rewrite (del_nth_len _ _ _ Hi) in H. rewrite Nat.eqb_refl in H.
  assert (F : Forall (V s) (del_nth qch i)) by (apply Forall_del_nth; apply (wf_arr _ Wf _ _ Hqch)).
  destruct (alloc_arr_ok 1 _ _ _ _ G F H) as (G1 & _).
  destruct (alloc_arr_eff _ _ _ _ H) as (E & Nx & Fa & Oa & On & MS).
  assert (Old : forall y, y < s_next s -> same_at s s1 y) by (intros y Ly; split; [apply On|apply Oa; lia]).
  spl; auto.
  eapply reps_frame; [apply all3_del; exact Hr|]. intros y Hy. apply Old.
  apply in_concat_del_nth in Hy. pose proof (reps_lt _ _ _ _ Wf Hr) as L. rewrite Forall_forall in L. apply L. auto.
Qed.

(* rebuild_parent: the node for [edges] under the key/route of X: merged with its single child, or newNode *)
Lemma rebuild_parent_rep s o X pe el ekids efps may_merge slash x s1 :
  good 1 s -> find_arr s pe = Some el -> reps s el ekids efps -> NoDup (List.concat efps) ->
  ~ In pe (List.concat efps) -> n_key o = nkey X -> n_route o = nroute X ->
  rebuild_parent o pe may_merge slash s = Ok (x, s1) ->
  exists fx, rep s1 x (rebuild X (negb may_merge) ekids slash) fx /\ NoDup fx /\
    (forall y, In y fx -> y = x \/ y = pe \/ In y (List.concat efps)) /\
    x = s_next s /\ s_next s1 = Pos.succ (s_next s) /\
    (forall y, y < s_next s -> y <> pe -> same_at s s1 y) /\ meta_same s s1 /\ good 1 s1 /\
    (may_merge = false -> own 1 s1 x) /\ In x fx.
Proof.
  intros G Hpe Hr ND Npe Hk Hrt H. pose proof (good1_wf _ G) as Wf.
  assert (Lall : Forall (V s) (List.concat efps)) by (eapply reps_lt; eauto). rewrite Forall_forall in Lall.
  unfold rebuild_parent in H. mbind H el2 s2 H2. apply get_arr_ok in H2. destruct H2 as [-> Hel2].
  assert (el2 = el) by congruence. subst el2.
  assert (NN : new_node (n_key o) (n_route o) pe s = Ok (x, s1) ->
               exists fx, rep s1 x (Tree.new_node (nkey X) (nroute X) ekids) fx /\ NoDup fx /\
                 (forall y, In y fx -> y = x \/ y = pe \/ In y (List.concat efps)) /\
                 x = s_next s /\ s_next s1 = Pos.succ (s_next s) /\
                 (forall y, y < s_next s -> y <> pe -> same_at s s1 y) /\ meta_same s s1 /\ good 1 s1 /\
                 (may_merge = false -> own 1 s1 x) /\ In x fx).
  { intros H0. destruct (wf_arr _ Wf _ _ Hpe) as [Vpe _].
    destruct (new_node_ok 1 _ _ _ _ _ _ G ltac:(lia) H0) as (_ & _ & _ & Ox).
    destruct (new_node_rep _ _ _ _ _ _ _ _ _ G Hpe Hr Npe H0) as (fps' & Ex & Nx & Rx & Perm & Old & MS & G1).
    exists (x :: pe :: List.concat fps'). rewrite Hk, Hrt in Rx. spl; auto.
    - constructor; [|constructor].
      + intros [Hin|Hin]; [unfold V in Vpe; lia|]. apply (Permutation_in _ Perm) in Hin. apply Lall in Hin. unfold V in Hin. lia.
      + intros Hin. apply (Permutation_in _ Perm) in Hin. auto.
      + eapply Permutation_NoDup; [apply Permutation_sym; exact Perm|auto].
    - intros y [<-|[<-|Hin]]; auto. right. right. eapply Permutation_in; eauto.
    - simpl. auto. }
  unfold rebuild.
  destruct el as [|c [|c2 el]]; destruct ekids as [|g [|g2 ekids]]; destruct efps as [|fg [|fg2 efps]]; simpl in Hr; try tauto;
    try (destruct (NN H) as (fx & R & Rest); exists fx; split; [exact R|exact Rest]).
  destruct Hr as [Hrg _].
  mbind H co s2 H2. apply get_node_ok in H2. destruct H2 as [-> Hco].
  destruct g as [kg rg kidsg]. pose proof Hrg as Hrg0. apply rep_unfold in Hrg.
  destruct Hrg as (co' & gch & fpsg & Hco' & Hkg & Hrg' & Hgch & Hkidsg & Hfg).
  assert (co' = co) by congruence. subst co'.
  unfold is_leaf. cbn [nkey nroute nchildren]. rewrite <- Hrt. rewrite Hkg in H.
  assert (Ebool : (may_merge && negb (is_some (n_route o)) && negb (slash && starts_with "/" kg))%bool =
                  (negb (match n_route o with Some _ => true | None => false end) && negb (negb may_merge) && negb (slash && starts_with "/" kg))%bool).
  { destruct may_merge, (n_route o), (slash && starts_with "/" kg)%bool; reflexivity. }
  rewrite Ebool in H.
  destruct (negb (match n_route o with Some _ => true | None => false end) && negb (negb may_merge) && negb (slash && starts_with "/" kg))%bool eqn:Ec.
  - (* merged with the single remaining child *)
    destruct (nnfr_rep _ _ _ _ _ _ _ _ _ G Hgch Hkidsg H) as (Ex & Nx & Rx & Oldx & MSx & Gx).
    exists (x :: n_arr co :: List.concat fpsg). unfold merge_child. cbn [nkey nroute nchildren].
    rewrite Hk, Hrg' in Rx. simpl in ND. rewrite app_nil_r in ND. rewrite Hfg in ND.
    spl; auto.
    + inversion ND as [|? ? N1 N2]. constructor; auto. intros Hin.
      assert (Vx : V s x) by (apply Lall; simpl; rewrite app_nil_r, Hfg; right; auto). unfold V in Vx. lia.
    + intros y [<-|Hin]; auto. right. right. simpl. rewrite app_nil_r, Hfg. right. auto.
    + intros Em. subst may_merge. rewrite Bool.andb_false_r in Ec. discriminate.
    + simpl. auto.
  - destruct (NN H) as (fx & R & Rest). exists fx. rewrite Hrt. split; [exact R|exact Rest].
Qed.

Lemma all3_nil_iff {A B C} (R : A -> B -> C -> Prop) la lb lc : all3 R la lb lc -> (la = [] <-> lb = []).
Proof. destruct la, lb, lc; simpl; try tauto; intros _; split; discriminate. Qed.

Section RemRoot.
Variable evict : N -> list addr -> list addr.
Hypothesis evict_sub : forall c w a, In a (evict c w) -> In a w.

(* the rebuilt parent is the method root: drop the root, or n.key = method; writable.Add(n); updateRoot(n) *)
Lemma finish_root_rep method s rs roots fps ri oldroot fr x k r ks fx b s' :
  good 1 s -> find_arr s (s_root s) = Some rs -> reps s rs roots fps -> NoDup (List.concat fps) ->
  ~ In (s_root s) (List.concat fps) ->
  method_index roots method = Some ri -> nth_error roots ri = Some oldroot -> nth_error fps ri = Some fr ->
  rep s x (Node k r ks) fx -> own 1 s x -> NoDup fx -> ~ In x (List.concat fps) ->
  (forall y, In y fx -> In y fr \/ ~ In y (List.concat fps)) -> ~ In (s_root s) fx ->
  finish_root evict method x s = Ok (b, s') ->
  b = true /\ good 1 s' /\ s_size s' = s_size s /\ s_maxp s' = s_maxp s /\ s_depth s' = s_depth s /\
  s_cache s' = s_cache s /\
  if (is_nil ks && is_removable method)%bool then roots_rep s' (del_nth roots ri)
  else roots_rep s' (set_nth roots ri (Node method r ks)).
Proof.
  intros G Hrs Hr ND NR MI Hold Hfr Hx Ox NDx Nxf Sub NRx H.
  pose proof (good1_wf _ G) as Wf.
  assert (Lall : Forall (V s) (List.concat fps)) by (eapply reps_lt; eauto). rewrite Forall_forall in Lall.
  pose proof (rep_lt _ Wf _ _ _ Hx) as Lx. rewrite Forall_forall in Lx.
  destruct (wf_arr _ Wf _ _ Hrs) as [VR Frs].
  pose proof Hx as Hx0. apply rep_unfold in Hx. destruct Hx as (xo & xch & xfps & Hxo & Hxk & Hxr & Hxch & Hxkids & Hfx).
  unfold finish_root in H.
  mbind H po s0 H0. apply get_node_ok in H0. destruct H0 as [-> Hpo]. assert (po = xo) by congruence. subst po.
  mbind H pch s0 H0. apply get_arr_ok in H0. destruct H0 as [-> Hpch]. assert (pch = xch) by congruence. subst pch.
  assert (Enil : is_nil xch = is_nil ks).
  { destruct (all3_nil_iff _ _ _ _ Hxkids) as [A B]. destruct xch, ks; simpl; auto.
    all: try (specialize (A eq_refl); discriminate); try (specialize (B eq_refl); discriminate). }
  rewrite Enil in H.
  destruct (is_nil ks && is_removable method)%bool.
  - (* removeRoot *)
    destruct (remove_root_ok 1 _ _ _ _ G H) as (G' & _).
    unfold remove_root in H.
    mbind H idx s0 H0. rewrite (h_method_index_rep _ _ _ _ _ Hrs Hr) in H0. inversion H0; subst idx s0; clear H0.
    rewrite MI in H.
    mbind H rs' s0 H0. unfold get_roots, bind, get_root, get_arr in H0. unfold find_arr in Hrs. rewrite Hrs in H0.
    inversion H0; subst rs' s0; clear H0. fold (find_arr s (s_root s)) in Hrs.
    destruct (Nat.ltb ri (List.length rs)); [|discriminate].
    mbind H AR s0 H0. destruct (alloc_arr_eff _ _ _ _ H0) as (EAR & N0 & FAR & OAR & ON0 & MS0). clear H0.
    mbind H u s1 H1. apply ret_ok in H. destruct H as [-> <-].
    destruct (set_root_eff _ _ _ _ H1) as (HS1 & R1 & Z1 & P1 & D1 & C1). clear H1.
    destruct MS0 as (A1 & A2 & A3 & A4 & A5).
    assert (SA : forall y, y < AR -> same_at s s' y).
    { intros y Ly. eapply same_at_trans; [|apply heap_same_at; exact HS1]. split; [apply ON0|apply OAR; lia]. }
    spl; auto; try congruence.
    exists (del_nth rs ri), (del_nth fps ri). spl.
    + rewrite R1, (proj2 (heap_same_at _ _ AR HS1)). auto.
    + eapply reps_frame; [apply all3_del; exact Hr|]. intros y Hy. apply SA. apply in_concat_del_nth in Hy.
      apply Lall in Hy. unfold V in Hy. lia.
    + apply NoDup_concat_del_nth. auto.
    + rewrite R1. intros Hin. apply in_concat_del_nth in Hin. apply Lall in Hin. unfold V in Hin. lia.
  - (* n.key = method; updateRoot *)
    mbind H u5 s5 H5.
    destruct (set_key_ok 1 _ _ _ _ _ G ltac:(lia) H5) as (G5 & _).
    destruct (set_key_eff _ _ _ _ _ H5) as (o5 & Ho5 & Fn5 & On5 & Oa5 & Nx5 & MS5). clear H5.
    assert (o5 = xo) by congruence. subst o5.
    assert (Nxt : ~ In x (n_arr xo :: List.concat xfps)) by (rewrite Hfx in NDx; inversion NDx; auto).
    assert (Rx5 : rep s5 x (Node method r ks) fx).
    { apply rep_unfold. eexists _, xch, xfps. spl; [exact Fn5| | | | |]; simpl; auto.
      - rewrite Oa5. auto.
      - eapply reps_frame; [exact Hxkids|]. intros y Hy. split; [|apply Oa5].
        apply On5. intros ->. apply Nxt. simpl. auto. }
    mbind H u6 s6 H6. destruct (w_add_if_cache_eff _ _ _ _ _ H6) as (HS6 & MS6).
    assert (O5 : own 1 s5 x).
    { split; [lia|]. eexists. split; [exact Fn5|]. simpl. lia. }
    destruct (w_add_if_cache_ok evict evict_sub 1 _ _ _ _ G5 O5 H6) as (G6 & _). clear H6.
    mbind H b0 s7 H7. apply ret_ok in H. destruct H as [-> <-].
    assert (Vx : V s x) by (apply Lx; rewrite Hfx; simpl; auto).
    assert (Vx6 : V s6 x). { unfold V in *. destruct HS6 as (_ & _ & ->). rewrite Nx5. auto. }
    destruct (update_root_ok 1 _ _ _ _ G6 Vx6 H7) as (G7 & _).
    assert (Old6 : forall y, y <> x -> same_at s s6 y).
    { intros y Hy. eapply same_at_trans; [|apply heap_same_at; exact HS6]. split; [apply On5; auto|apply Oa5]. }
    destruct MS5 as (D1 & D2 & D3 & D4 & D5). destruct MS6 as (E1 & E2 & E3 & E4 & E5).
    assert (Rt6 : s_root s6 = s_root s) by congruence.
    assert (NRx' : s_root s <> x) by (intros E; apply NRx; rewrite E, Hfx; simpl; auto).
    assert (Hrs6 : find_arr s6 (s_root s6) = Some rs) by (rewrite Rt6, (proj2 (Old6 _ NRx')); auto).
    assert (Hr6 : reps s6 rs roots fps).
    { eapply reps_frame; [exact Hr|]. intros y Hy. apply Old6. intros ->. auto. }
    assert (Fn6 : find_node s6 x = Some {| n_key := method; n_route := n_route xo; n_arr := n_arr xo |})
      by (rewrite (proj1 (heap_same_at _ _ x HS6)); auto).
    unfold update_root in H7.
    mbind H7 kk s9 H9. unfold key_of in H9. mbind H9 o9 s10 H10. apply get_node_ok in H10. destruct H10 as [-> Ho9].
    apply ret_ok in H9. destruct H9 as [-> ->]. rewrite Fn6 in Ho9. inversion Ho9; subst o9; clear Ho9. simpl in H7.
    mbind H7 idx s9 H9. rewrite (h_method_index_rep _ _ _ _ _ Hrs6 Hr6) in H9. inversion H9; subst idx s9; clear H9.
    rewrite MI in H7.
    mbind H7 rs' s9 H9. unfold get_roots, bind, get_root, get_arr in H9. unfold find_arr in Hrs6. rewrite Hrs6 in H9.
    inversion H9; subst rs' s9; clear H9. fold (find_arr s6 (s_root s6)) in Hrs6.
    destruct (Nat.ltb_spec ri (List.length rs)) as [Lri|]; [|discriminate].
    mbind H7 AR s9 H9.
    destruct (alloc_arr_eff _ _ _ _ H9) as (EAR & N9 & FAR & OAR & ON9 & MS9). clear H9.
    mbind H7 u3 s10 H10. apply ret_ok in H7. destruct H7 as [_ <-].
    destruct (set_root_eff _ _ _ _ H10) as (HS10 & R10 & Z10 & P10 & D10 & C10). clear H10.
    destruct MS9 as (F1 & F2 & F3 & F4 & F5).
    assert (N6 : s_next s6 = s_next s) by (destruct HS6 as (_ & _ & ->); auto).
    assert (SA : forall y, y < AR -> same_at s6 s' y).
    { intros y Ly. eapply same_at_trans; [|apply heap_same_at; exact HS10]. split; [apply ON9|apply OAR; lia]. }
    assert (Rx' : rep s' x (Node method r ks) fx).
    { eapply rep_frame; [exact Rx5|]. intros y Hy. eapply same_at_trans; [apply heap_same_at; exact HS6|]. apply SA.
      apply Lx in Hy. unfold V in Hy. lia. }
    destruct (nth_error rs ri) as [oldr|] eqn:Holdr; [|apply nth_error_None in Holdr; lia].
    spl; auto; try congruence.
    exists (set_nth rs ri x), (set_nth fps ri fx). spl.
    + rewrite R10, (proj2 (heap_same_at _ _ AR HS10)). auto.
    + apply all3_set; auto. eapply reps_frame; [exact Hr6|]. intros y Hy. apply SA. apply Lall in Hy. unfold V in Hy. lia.
    + eapply NoDup_concat_set_nth; eauto.
    + rewrite R10. intros Hin. destruct (in_concat_set_nth _ _ _ _ Hin) as [Hy|Hy].
      * apply Lx in Hy. unfold V in Hy. lia.
      * apply Lall in Hy. unfold V in Hy. lia.
Qed.

End RemRoot.

Section Rem.
Variable evict : N -> list addr -> list addr.
Hypothesis evict_sub : forall c w a, In a (evict c w) -> In a w.

(* the part of tXn.remove after copyOnWriteSearch (i = index of the method root) *)
Definition K_rem (method : bytes) (i : nat) (r : sres) : M (option route) :=
  mo <- get_node (r_matched r) ;;
  match is_exact r (List.length (n_key mo)), n_route mo with
  | true, Some rt =>
      bump_size (-1) ;;;
      mch <- get_arr (n_arr mo) ;;
      match mch with
      | _ :: _ :: _ =>
          n <- new_node_from_ref (n_key mo) None (n_arr mo) ;;
          p <- opt_get (r_p r) ;; update_edge p n ;;; ret (Some rt)
      | [c] =>
          co <- get_node c ;;
          n <- new_node_from_ref (n_key mo ++ n_key co) (n_route co) (n_arr co) ;;
          p <- opt_get (r_p r) ;; update_edge p n ;;; ret (Some rt)
      | [] =>
          p <- opt_get (r_p r) ;; po <- get_node p ;;
          pe <- recreate_parent_edge p (r_matched r) ;;
          rs' <- get_roots ;; cur_root <- opt_get (nth_error rs' i) ;;
          let parent_is_root := Pos.eqb p cur_root in
          pel <- get_arr pe ;;
          if is_nil pel && negb (is_some (n_route po)) && negb parent_is_root then
            pp <- opt_get (r_pp r) ;; ppo <- get_node pp ;;
            pe2 <- recreate_parent_edge pp p ;;
            let pp_is_root := Pos.eqb pp cur_root in
            parent <- rebuild_parent ppo pe2 (negb pp_is_root) true ;;
            if pp_is_root then b <- finish_root evict method parent ;; ret (if b then Some rt else None)
            else ppp <- opt_get (r_ppp r) ;; update_edge ppp parent ;;; ret (Some rt)
          else
            parent <- rebuild_parent po pe (negb parent_is_root) false ;;
            if parent_is_root then b <- finish_root evict method parent ;; ret (if b then Some rt else None)
            else pp <- opt_get (r_pp r) ;; update_edge pp parent ;;; ret (Some rt)
      end
  | _, _ => ret None
  end.

(* what is above the in-place node q: an in-place parent, or the roots array *)
Inductive gctx :=
| GNode (gp : addr) (gpo : nobj) (gpch : list addr) (kidsG : list node) (fpsG : list (list addr)) (jj : nat)
| GRoot (rs : list addr) (roots : list node) (fps : list (list addr)).

Definition g_isroot (g : gctx) : bool := match g with GRoot _ _ _ => true | _ => false end.

Definition gctx_ok (s : st) (method : bytes) (idx : nat) (q : addr) (Q : node) (fq : list addr) (cr : addr)
           (gpp : option addr) (g : gctx) : Prop :=
  match g with
  | GNode gp gpo gpch kidsG fpsG jj =>
      find_node s gp = Some gpo /\ find_arr s (n_arr gpo) = Some gpch /\ reps s gpch kidsG fpsG /\
      NoDup (gp :: n_arr gpo :: List.concat fpsG) /\
      nth_error gpch jj = Some q /\ nth_error kidsG jj = Some Q /\ nth_error fpsG jj = Some fq /\
      (exists cq, hd_byte (nkey Q) = Some cq /\ find_child_from 0 cq kidsG = Some jj) /\
      gpp = Some gp /\ q <> cr
  | GRoot rs roots fps =>
      find_arr s (s_root s) = Some rs /\ reps s rs roots fps /\ NoDup (List.concat fps) /\
      ~ In (s_root s) (List.concat fps) /\
      nth_error rs idx = Some q /\ nth_error roots idx = Some Q /\ nth_error fps idx = Some fq /\
      method_index roots method = Some idx /\ q = cr
  end.

Definition gpost (s s' : st) (method : bytes) (idx : nat) (Q' : node) (g : gctx) : Prop :=
  match g with
  | GNode gp gpo gpch kidsG fpsG jj => inplace_res s s' gp gpo fpsG (set_nth kidsG jj Q') /\ s_root s' = s_root s
  | GRoot rs roots fps =>
      good 1 s' /\
      if (is_nil (nchildren Q') && is_removable method)%bool then roots_rep s' (del_nth roots idx)
      else roots_rep s' (set_nth roots idx (Node method (nroute Q') (nchildren Q')))
  end.

Definition rem_post (s s' : st) (method : bytes) (idx : nat) (q : addr) (qo : nobj) (fpsQ : list (list addr))
           (kidsQ : list node) (i : nat) (Q : node) (g : gctx) (res : rem_res) (out : option route) : Prop :=
  s_maxp s' = s_maxp s /\ s_depth s' = s_depth s /\ s_cache s' = s_cache s /\
  match res with
  | RemNotFound => out = None /\ inplace_res s s' q qo fpsQ kidsQ /\ s_size s' = s_size s /\ s_root s' = s_root s
  | RemReplace n' r => out = Some r /\ inplace_res s s' q qo fpsQ (set_nth kidsQ i n') /\
                       s_size s' = (s_size s - 1)%Z /\ s_root s' = s_root s
  | RemSplit r => out = Some r /\ s_size s' = (s_size s - 1)%Z /\
                  gpost s s' method idx (rebuild Q (g_isroot g) (remove_nth kidsQ i) true) g
  | RemRoot _ _ => False
  end.

Lemma h_remove_unfold method path :
  h_remove evict method path =
  (idx <- h_method_index method ;;
   match idx with
   | None => ret None
   | Some i => rs <- get_roots ;; rn <- opt_get (nth_error rs i) ;;
               r <- cow_search evict rn path ;; K_rem method i r
   end).
Proof. reflexivity. Qed.

Lemma del_nth_nil_single {A} (l : list A) i x : nth_error l i = Some x -> del_nth l i = [] -> l = [x].
Proof.
  destruct l as [|y [|z l]]; destruct i as [|i]; simpl; intros H E; try discriminate;
    try (inversion H; auto; fail); try (destruct i; discriminate).
Qed.

Lemma is_nil_del {A B} (la : list A) (lb : list B) i : List.length la = List.length lb -> is_nil (del_nth la i) = is_nil (del_nth lb i).
Proof.
  revert lb i. induction la as [|a la IH]; intros [|b lb] [|i] L; simpl in *; try discriminate; auto.
  destruct la, lb; simpl in *; auto; discriminate.
Qed.

(* the exact match at the child nx (index i') of n' (in place, index i of q, in place below g) *)
Lemma rem_base method idx s q qo qch kidsQ fpsQ i n' no nch kn rn kidsn fpsn i' c nx c0 cn kq rq g cr rsx r out s' :
  good 1 s ->
  (* q *)
  find_node s q = Some qo -> find_arr s (n_arr qo) = Some qch -> reps s qch kidsQ fpsQ ->
  NoDup (q :: n_arr qo :: List.concat fpsQ) -> n_key qo = kq -> n_route qo = rq ->
  nth_error qch i = Some n' -> nth_error kidsQ i = Some (Node kn rn kidsn) ->
  nth_error fpsQ i = Some (n' :: n_arr no :: List.concat fpsn) ->
  hd_byte kn = Some cn -> find_child_from 0 cn kidsQ = Some i ->
  (* n' *)
  find_node s n' = Some no -> n_key no = kn -> n_route no = rn ->
  find_arr s (n_arr no) = Some nch -> reps s nch kidsn fpsn ->
  nth_error kidsn i' = Some c -> nth_error nch i' = Some nx ->
  hd_byte (nkey c) = Some c0 -> find_child_from 0 c0 kidsn = Some i' ->
  (* the search result *)
  r_matched r = nx -> r_p r = Some n' -> r_pp r = Some q ->
  (* the method root *)
  find_arr s (s_root s) = Some rsx -> nth_error rsx idx = Some cr -> n' <> cr ->
  ~ In (s_root s) (q :: n_arr qo :: List.concat fpsQ) ->
  gctx_ok s method idx q (Node kq rq kidsQ) (q :: n_arr qo :: List.concat fpsQ) cr (r_ppp r) g ->
  K_rem method idx r s = Ok (out, s') ->
  rem_post s s' method idx q qo fpsQ kidsQ i (Node kq rq kidsQ) g
    (if is_exact r (List.length (nkey c)) then
       match nroute c with Some rt => rem_exact (Node kn rn kidsn) i' c rt | None => RemNotFound end
     else RemNotFound) out.
Proof.
  intros G Hq Hqch HrQ NDQ Hkq Hrq Hn' HN HfN Hcn HfcQ Hno Hnk Hnr Hnch Hrn Hc Hnx Hc0 Hfc Hm Hp Hpp
         Hrsx Hcr Hncr NRQ GC H.
  pose proof (good1_wf _ G) as Wf.
  destruct (all3_nth _ _ _ _ _ _ Hrn Hc) as (nx0 & fc & Hnx0 & Hfi' & Hrepc).
  assert (nx0 = nx) by congruence. subst nx0.
  destruct c as [kc rc kidsc]. cbn [nkey nroute nchildren] in *.
  pose proof Hrepc as Hrepc0. apply rep_unfold in Hrepc.
  destruct Hrepc as (mo & mch & fpsc & Hmo & Hk & Hrr & Hmch & Hkidsc & Hfc').
  assert (Same : inplace_res s s q qo fpsQ kidsQ) by (eapply inplace_res_refl; eauto).
  unfold K_rem in H. rewrite Hm in H. mbind H mo2 s0 H0. apply get_node_ok in H0. destruct H0 as [-> Hmo2].
  assert (mo2 = mo) by congruence. subst mo2. rewrite Hk, Hrr in H.
  unfold rem_post.
  destruct (is_exact r (List.length kc)).
  2:{ apply ret_ok in H. destruct H as [-> ->]. spl; auto. }
  destruct rc as [rt|].
  2:{ apply ret_ok in H. destruct H as [-> ->]. spl; auto. }
  cbn [bind bump_size] in H.
  match type of H with _ ?sm = _ => set (sb := sm) in * end.
  assert (Gb : good 1 sb) by (unfold sb; apply good_set_meta; auto).
  assert (SAb : forall y, same_at s sb y) by (intros y; split; reflexivity).
  mbind H mch2 s0 H0. apply get_arr_ok in H0. destruct H0 as [-> Hmch2].
  assert (mch2 = mch) by (unfold sb, find_arr in Hmch2; simpl in Hmch2; unfold find_arr in Hmch; congruence). subst mch2.
  (* facts about the footprints *)
  assert (Lall : Forall (V s) (q :: n_arr qo :: List.concat fpsQ)).
  { destruct (wf_node _ Wf _ _ Hq). constructor; auto. constructor; auto. eapply reps_lt; eauto. }
  rewrite Forall_forall in Lall.
  assert (DQ : NoDup (List.concat fpsQ)) by (inversion NDQ as [|? ? ? T]; inversion T; auto).
  pose proof (NoDup_concat_nth _ _ _ DQ HfN) as NDN.
  assert (Dn : NoDup (List.concat fpsn)) by (inversion NDN as [|? ? ? T]; inversion T; auto).
  pose proof (NoDup_concat_nth _ _ _ Dn Hfi') as NDc. rewrite Hfc' in NDc.
  assert (InN : forall y, In y (List.concat fpsn) -> In y (List.concat fpsQ)).
  { intros y Hy. eapply in_lconcat_nth; eauto. simpl. auto. }
  assert (Lc : forall y, In y fc -> y < s_next s).
  { intros y Hy. apply Lall. right. right. apply InN. eapply in_lconcat_nth; eauto. }
  unfold rem_exact. cbn [nkey nroute nchildren].
  assert (Lk : List.length mch = List.length kidsc) by (destruct (all3_len _ _ _ _ Hkidsc); auto).
  destruct mch as [|c1 [|c2 mch]]; destruct kidsc as [|g1 [|g2 kidsc]]; simpl in Lk; try discriminate.
  - (* no children: rebuild the parent of the removed leaf *)
    rewrite Hp in H. mbind H p0 s0 H0. apply opt_get_ok in H0. destruct H0 as [E0 ->]. inversion E0; subst p0; clear E0.
    mbind H po s0 H0. apply get_node_ok in H0. destruct H0 as [-> Hpo].
    assert (po = no) by (unfold sb, find_node in Hpo; simpl in Hpo; unfold find_node in Hno; congruence). subst po.
    mbind H pe s1 H1.
    assert (Hnob : find_node sb n' = Some no) by exact Hno.
    assert (Hnchb : find_arr sb (n_arr no) = Some nch) by exact Hnch.
    assert (Hrnb : reps sb nch kidsn fpsn) by (eapply reps_frame; eauto).
    destruct (recreate_rep _ _ _ _ _ _ _ _ _ _ Gb Hnob Hnchb Hrnb Dn Hnx H1) as (Epe & N1 & Fpe & Old1 & MS1 & G1 & Rpe). clear H1.
    assert (Nb : s_next sb = s_next s) by reflexivity.
    mbind H rs' s2 H2. unfold get_roots, bind, get_root, get_arr in H2.
    destruct MS1 as (A1 & A2 & A3 & A4 & A5).
    assert (VR : s_root s < s_next s) by (apply (wf_arr _ Wf _ _ Hrsx)).
    assert (Hrs1 : find_arr s1 (s_root s1) = Some rsx).
    { rewrite A1. unfold sb at 1. simpl. rewrite (proj2 (Old1 _ ltac:(rewrite Nb; exact VR))). exact Hrsx. }
    unfold find_arr in Hrs1. rewrite Hrs1 in H2. inversion H2; subst rs' s2; clear H2. fold (find_arr s1 (s_root s1)) in Hrs1.
    mbind H cr0 s2 H2. apply opt_get_ok in H2. destruct H2 as [E0 ->]. assert (cr0 = cr) by congruence. subst cr0. clear E0.
    assert (Epc : Pos.eqb n' cr = false) by (apply Pos.eqb_neq; auto). rewrite Epc in H.
    mbind H pel s2 H2. apply get_arr_ok in H2. destruct H2 as [-> Hpel]. assert (pel = del_nth nch i') by congruence. subst pel.
    assert (Enil : is_nil (del_nth nch i') = is_nil (remove_nth kidsn i')).
    { rewrite <- del_nth_remove. apply is_nil_del. destruct (all3_len _ _ _ _ Hrn); auto. }
    rewrite Enil in H. rewrite Hnr in H. simpl negb in H. rewrite Bool.andb_true_r in H.
    unfold is_leaf. cbn [nroute].
    assert (Eleaf : is_some rn = match rn with Some _ => true | None => false end) by (destruct rn; reflexivity).
    rewrite Eleaf in H.
    assert (Old01 : forall y, y < s_next s -> same_at s s1 y).
    { intros y Ly. eapply same_at_trans; [apply SAb|]. apply Old1. rewrite Nb. auto. }
    assert (Lfn : forall y, In y (List.concat fpsn) -> y < s_next s) by (intros y Hy; apply Lall; right; right; auto).
    assert (Npe : ~ In pe (List.concat (del_nth fpsn i'))).
    { intros Hin. apply in_concat_del_nth in Hin. apply Lfn in Hin. lia. }
    assert (NDdel : NoDup (List.concat (del_nth fpsn i'))) by (apply NoDup_concat_del_nth; auto).
    destruct (is_nil (remove_nth kidsn i') && negb (match rn with Some _ => true | None => false end))%bool eqn:Esplit.
    + (* n' was a hostname/path split node: it disappears from q, which is rebuilt *)
      apply Bool.andb_true_iff in Esplit. destruct Esplit as [En Eleaf2].
      destruct (remove_nth kidsn i') as [|e0 el0] eqn:Eedges; [|discriminate]. rewrite Eleaf2.
      rewrite Hpp in H. mbind H pp0 s2 H2. apply opt_get_ok in H2. destruct H2 as [E0 ->]. inversion E0; subst pp0; clear E0.
      mbind H ppo s2 H2. apply get_node_ok in H2. destruct H2 as [-> Hppo].
      assert (Vq : q < s_next s) by (apply Lall; simpl; auto).
      assert (VAq : n_arr qo < s_next s) by (apply Lall; simpl; auto).
      assert (ppo = qo) by (rewrite (proj1 (Old01 _ Vq)) in Hppo; congruence). subst ppo.
      mbind H pe2 s2 H2.
      assert (Hq1 : find_node s1 q = Some qo) by (rewrite (proj1 (Old01 _ Vq)); auto).
      assert (Hqch1 : find_arr s1 (n_arr qo) = Some qch) by (rewrite (proj2 (Old01 _ VAq)); auto).
      assert (HrQ1 : reps s1 qch kidsQ fpsQ).
      { eapply reps_frame; [exact HrQ|]. intros y Hy. apply Old01. apply Lall. simpl. auto. }
      destruct (recreate_rep _ _ _ _ _ _ _ _ _ _ G1 Hq1 Hqch1 HrQ1 DQ Hn' H2) as (Epe2 & N2 & Fpe2 & Old2 & MS2 & G2 & Rpe2). clear H2.
      mbind H parent s3 H3.
      assert (Npe2 : ~ In pe2 (List.concat (del_nth fpsQ i))).
      { intros Hin. apply in_concat_del_nth in Hin. assert (pe2 < s_next s) by (apply Lall; simpl; auto). lia. }
      destruct (rebuild_parent_rep _ _ (Node kq rq kidsQ) _ _ _ _ _ _ _ _ G2 Fpe2 Rpe2 (NoDup_concat_del_nth _ i DQ) Npe2 Hkq Hrq H3)
        as (fx & Rx & NDx & Subx & Ex & N3 & Old3 & MS3 & G3 & Ownx & Inx). clear H3.
      rewrite del_nth_remove in Rx.
      assert (Old03 : forall y, y < s_next s -> same_at s s3 y).
      { intros y Ly. eapply same_at_trans; [apply Old01; auto|]. eapply same_at_trans; [apply Old2; lia|]. apply Old3; lia. }
      destruct MS2 as (B1 & B2 & B3 & B4 & B5). destruct MS3 as (C1 & C2 & C3 & C4 & C5).
      assert (Subx' : forall y, In y fx -> In y (q :: n_arr qo :: List.concat fpsQ) \/ s_next s <= y).
      { intros y Hy. destruct (Subx y Hy) as [->|[->|Hin]]; try (right; lia).
        left. right. right. eapply in_concat_del_nth; eauto. }
      destruct g as [gp gpo gpch kidsG fpsG jj|rs roots fps]; simpl in GC.
      * (* q has an in-place parent *)
        destruct GC as (Hgp & Hgch & HrG & NDG & Hgq & HgQ & Hgf & (cq & Hcq & HfcG) & Hppp & Hqcr).
        assert (Eqc : Pos.eqb q cr = false) by (apply Pos.eqb_neq; auto). rewrite Eqc in *. simpl negb in *.
        rewrite Hppp in H. mbind H g0 s4 H4. apply opt_get_ok in H4. destruct H4 as [E0 ->]. inversion E0; subst g0; clear E0.
        mbind H u s4 H4. apply ret_ok in H. destruct H as [-> <-]. destruct u.
        assert (Hxhd : hd_byte (nkey (rebuild (Node kq rq kidsQ) false (remove_nth kidsQ i) true)) = Some cq).
        { cbn [nkey] in Hcq. unfold rebuild. destruct (remove_nth kidsQ i) as [|e1 [|e2 el]]; cbn [nkey nroute]; auto.
          destruct (negb (is_leaf (Node kq rq kidsQ)) && negb false && negb (true && starts_with "/" (nkey e1)))%bool; cbn [nkey]; auto.
          unfold merge_child. cbn [nkey]. destruct kq; [discriminate|]. exact Hcq. }
        destruct (install s s3 gp gpo gpch kidsG fpsG jj _ _ cq parent _ fx s' G Hgp Hgch HrG NDG HgQ Hgf Hcq HfcG Old03
                    ltac:(lia) G3 Rx Hxhd NDx Subx' H4) as (IR & MS4).
        destruct MS4 as (D1 & D2 & D3 & D4 & D5).
        unfold sb in *. cbn [s_size s_root s_maxp s_depth s_cache set_meta gpost] in *.
        spl; auto; try congruence; try lia.
      * (* q is the method root *)
        destruct GC as (Hrs & Hrrs & NDr & NRr & Hrqq & HrQ' & Hrf & MI & Hqcr). subst cr.
        rewrite Pos.eqb_refl in *. simpl negb in *.
        mbind H b s4 H4.
        assert (VRr : s_root s < s_next s) by exact VR.
        assert (Lr : Forall (V s) (List.concat fps)) by (eapply reps_lt; [exact Wf|exact Hrrs]). rewrite Forall_forall in Lr.
        assert (Rt3 : s_root s3 = s_root s) by (rewrite C1, B1, A1; reflexivity).
        assert (Hrs3 : find_arr s3 (s_root s3) = Some rs) by (rewrite Rt3, (proj2 (Old03 _ VRr)); auto).
        assert (Hrr3 : reps s3 rs roots fps).
        { eapply reps_frame; [exact Hrrs|]. intros y Hy. apply Old03. apply Lr. auto. }
        cbn [gpost g_isroot]. destruct (rebuild (Node kq rq kidsQ) true (remove_nth kidsQ i) true) as [pk pr pks] eqn:Ereb.
        destruct (finish_root_rep evict evict_sub method s3 rs roots fps idx _ _ parent _ _ _ fx b s4
                    G3 Hrs3 Hrr3 NDr ltac:(rewrite Rt3; exact NRr) MI HrQ' Hrf Rx (Ownx eq_refl) NDx) as (Eb & G4 & Z4 & P4 & D4 & Ch4 & RR); auto.
        { intros Hin. apply Lr in Hin. unfold V in Hin. lia. }
        { intros y Hy. destruct (Subx' y Hy) as [Hin|Ly]; auto. right. intros Hin. apply Lr in Hin. unfold V in Hin. lia. }
        { rewrite Rt3. intros Hin. destruct (Subx' _ Hin) as [Hin'|Ly]; auto. lia. }
        subst b. apply ret_ok in H. destruct H as [-> <-].
        unfold sb in *. cbn [s_size s_root s_maxp s_depth s_cache set_meta gpost] in *.
        spl; auto; try congruence; try lia.
    + (* the parent n' keeps going with one edge less (or is merged with its last child) *)
      assert (Epure : match remove_nth kidsn i' with
                      | [] => if negb (match rn with Some _ => true | None => false end) then RemSplit rt
                              else RemReplace (rebuild (Node kn rn kidsn) false (remove_nth kidsn i') false) rt
                      | _ :: _ => RemReplace (rebuild (Node kn rn kidsn) false (remove_nth kidsn i') false) rt
                      end = RemReplace (rebuild (Node kn rn kidsn) false (remove_nth kidsn i') false) rt).
      { destruct (remove_nth kidsn i'); auto. simpl in Esplit. rewrite Esplit. auto. }
      rewrite Epure. clear Epure.
      mbind H parent s3 H3.
      destruct (rebuild_parent_rep _ _ (Node kn rn kidsn) _ _ _ _ _ _ _ _ G1 Fpe Rpe NDdel Npe Hnk Hnr H3)
        as (fx & Rx & NDx & Subx & Ex & N3 & Old3 & MS3 & G3 & Ownx & Inx). clear H3.
      rewrite del_nth_remove in Rx. simpl negb in Rx.
      rewrite Hpp in H. mbind H pp0 s4 H4. apply opt_get_ok in H4. destruct H4 as [E0 ->]. inversion E0; subst pp0; clear E0.
      mbind H u s4 H4. apply ret_ok in H. destruct H as [-> <-]. destruct u.
      assert (Old03 : forall y, y < s_next s -> same_at s s3 y).
      { intros y Ly. eapply same_at_trans; [apply Old01; auto|]. apply Old3; lia. }
      assert (Hxhd : hd_byte (nkey (rebuild (Node kn rn kidsn) false (remove_nth kidsn i') false)) = Some cn).
      { unfold rebuild. destruct (remove_nth kidsn i') as [|e1 [|e2 el]]; cbn [nkey nroute]; auto.
        destruct (negb (is_leaf (Node kn rn kidsn)) && negb false && negb (false && starts_with "/" (nkey e1)))%bool; cbn [nkey]; auto.
        unfold merge_child. cbn [nkey]. destruct kn; [discriminate|]. exact Hcn. }
      destruct (install s s3 q qo qch kidsQ fpsQ i _ _ cn parent _ fx s' G Hq Hqch HrQ NDQ HN HfN Hcn HfcQ Old03
                  ltac:(lia) G3 Rx Hxhd NDx) as (IR & MS4); auto.
      { intros y Hy. destruct (Subx y Hy) as [->|[->|Hin]]; try (right; lia).
        left. right. right. eapply in_concat_del_nth; eauto. }
      destruct MS3 as (C1 & C2 & C3 & C4 & C5). destruct MS4 as (D1 & D2 & D3 & D4 & D5).
      unfold sb in *. cbn [s_size s_root s_maxp s_depth s_cache set_meta] in *.
      spl; auto; try congruence; try lia.
  - (* one child: merge it into the removed node's place *)
    destruct fpsc as [|fg [|fg2 fpsc]]; simpl in Hkidsc; try tauto.
    destruct Hkidsc as [Hg1 _]. destruct g1 as [kg rg kidsg]. pose proof Hg1 as Hg10. apply rep_unfold in Hg1.
    destruct Hg1 as (co & gch & fpsg & Hco & Hkg & Hrg & Hgch & Hkidsg & Hfg).
    mbind H co2 s1 H1. apply get_node_ok in H1. destruct H1 as [-> Hco2].
    assert (co2 = co) by (unfold sb, find_node in Hco2; simpl in Hco2; unfold find_node in Hco; congruence). subst co2.
    mbind H x s1 H1. rewrite Hkg, Hrg in H1.
    assert (Hgchb : find_arr sb (n_arr co) = Some gch) by exact Hgch.
    assert (Hkidsgb : reps sb gch kidsg fpsg) by (eapply reps_frame; eauto).
    destruct (nnfr_rep _ _ _ _ _ _ _ _ _ Gb Hgchb Hkidsgb H1) as (Ex & Nx & Rx & Oldx & MSx & Gx). clear H1.
    rewrite Hp in H. mbind H p0 s2 H2. apply opt_get_ok in H2. destruct H2 as [E0 ->]. inversion E0; subst p0; clear E0.
    mbind H u s2 H2. apply ret_ok in H. destruct H as [-> <-]. destruct u.
    simpl in Hfc', NDc. rewrite app_nil_r in Hfc', NDc. rewrite Hfg in NDc.
    assert (NDx : NoDup (x :: n_arr co :: List.concat fpsg)).
    { inversion NDc as [|? ? _ T]; inversion T as [|? ? _ T2]. inversion T2 as [|? ? M1 M2].
      constructor; auto. intros Hin. assert (x < s_next s).
      { apply Lc. rewrite Hfc', Hfg. right. right. right. auto. } unfold sb in Ex. simpl in Ex. lia. }
    assert (NDn' : NoDup (n' :: n_arr no :: List.concat fpsn)) by exact NDN.
    assert (Hrnb : reps sb nch kidsn fpsn) by (eapply reps_frame; eauto).
    destruct (install sb s1 n' no nch kidsn fpsn i' (Node kc (Some rt) [Node kg rg kidsg]) fc c0 x _ _ s' Gb Hno Hnch
                Hrnb NDn' Hc Hfi' Hc0 Hfc Oldx ltac:(lia) Gx Rx) as (IR & MS2); auto.
    { cbn [nkey]. destruct kc; [discriminate|]. exact Hc0. }
    { intros y [<-|Hin]; [right; lia|]. left. rewrite Hfc', Hfg. right. right. right. auto. }
    assert (HqB : find_node sb q = Some qo) by exact Hq.
    assert (HqchB : find_arr sb (n_arr qo) = Some qch) by exact Hqch.
    assert (HrQB : reps sb qch kidsQ fpsQ) by (eapply reps_frame; eauto).
    pose proof (ascend sb s' q qo qch kidsQ fpsQ i n' no fpsn kn rn kidsn _ Gb HqB HqchB HrQB NDQ Hn' HN HfN Hnk Hnr IR) as IRq.
    assert (IRs : inplace_res s s' q qo fpsQ (set_nth kidsQ i (Node kn rn (set_nth kidsn i' (Node (kc ++ kg) rg kidsg))))).
    { apply (inplace_res_pre s sb s' q qo fpsQ fpsQ _ []); auto.
      - apply frame_heap_same. unfold sb, heap_same. simpl. auto.
      - intros y [].
      - intros y Hy. auto. }
    destruct MSx as (C1 & C2 & C3 & C4 & C5). destruct MS2 as (D1 & D2 & D3 & D4 & D5).
    unfold merge_child. cbn [nkey nroute nchildren]. rewrite <- set_nth_replace.
    unfold sb in *. cbn [s_size s_root s_maxp s_depth s_cache set_meta] in *.
    spl; auto; try congruence; try lia.
  - (* several children: the node stays, without its route *)
    mbind H x s1 H1.
    assert (Hmchb : find_arr sb (n_arr mo) = Some (c1 :: c2 :: mch)) by exact Hmch.
    assert (Hkidscb : reps sb (c1 :: c2 :: mch) (g1 :: g2 :: kidsc) fpsc) by (eapply reps_frame; eauto).
    destruct (nnfr_rep _ _ _ _ _ _ _ _ _ Gb Hmchb Hkidscb H1) as (Ex & Nx & Rx & Oldx & MSx & Gx). clear H1.
    rewrite Hp in H. mbind H p0 s2 H2. apply opt_get_ok in H2. destruct H2 as [E0 ->]. inversion E0; subst p0; clear E0.
    mbind H u s2 H2. apply ret_ok in H. destruct H as [-> <-]. destruct u.
    assert (NDx : NoDup (x :: n_arr mo :: List.concat fpsc)).
    { inversion NDc as [|? ? M1 M2]. constructor; auto. intros Hin. assert (x < s_next s).
      { apply Lc. rewrite Hfc'. right. auto. } unfold sb in Ex. simpl in Ex. lia. }
    assert (NDn' : NoDup (n' :: n_arr no :: List.concat fpsn)) by exact NDN.
    assert (Hrnb : reps sb nch kidsn fpsn) by (eapply reps_frame; eauto).
    destruct (install sb s1 n' no nch kidsn fpsn i' (Node kc (Some rt) (g1 :: g2 :: kidsc)) fc c0 x _ _ s' Gb Hno Hnch
                Hrnb NDn' Hc Hfi' Hc0 Hfc Oldx ltac:(lia) Gx Rx) as (IR & MS2); auto.
    { intros y [<-|Hin]; [right; lia|]. left. rewrite Hfc'. right. auto. }
    assert (HqB : find_node sb q = Some qo) by exact Hq.
    assert (HqchB : find_arr sb (n_arr qo) = Some qch) by exact Hqch.
    assert (HrQB : reps sb qch kidsQ fpsQ) by (eapply reps_frame; eauto).
    pose proof (ascend sb s' q qo qch kidsQ fpsQ i n' no fpsn kn rn kidsn _ Gb HqB HqchB HrQB NDQ Hn' HN HfN Hnk Hnr IR) as IRq.
    assert (IRs : inplace_res s s' q qo fpsQ (set_nth kidsQ i (Node kn rn (set_nth kidsn i' (Node kc None (g1 :: g2 :: kidsc)))))).
    { apply (inplace_res_pre s sb s' q qo fpsQ fpsQ _ []); auto.
      - apply frame_heap_same. unfold sb, heap_same. simpl. auto.
      - intros y [].
      - intros y Hy. auto. }
    destruct MSx as (C1 & C2 & C3 & C4 & C5). destruct MS2 as (D1 & D2 & D3 & D4 & D5).
    rewrite <- set_nth_replace.
    unfold sb in *. cbn [s_size s_root s_maxp s_depth s_cache set_meta] in *.
    spl; auto; try congruence; try lia.
Qed.

(* the context above q after a relink inside q (q's footprint block changed, q itself did not) *)
Lemma gctx_step method idx s s1 q qo qch1 kq rq kidsQ fpsQ fpsQ1 cr gpp g :
  good 1 s -> good 1 s1 ->
  gctx_ok s method idx q (Node kq rq kidsQ) (q :: n_arr qo :: List.concat fpsQ) cr gpp g ->
  frame s s1 [n_arr qo] -> sub_fresh s (List.concat fpsQ) (List.concat fpsQ1) -> meta_same s s1 ->
  find_node s1 q = Some qo -> n_key qo = kq -> n_route qo = rq ->
  find_arr s1 (n_arr qo) = Some qch1 -> reps s1 qch1 kidsQ fpsQ1 ->
  NoDup (q :: n_arr qo :: List.concat fpsQ1) ->
  exists g1, gctx_ok s1 method idx q (Node kq rq kidsQ) (q :: n_arr qo :: List.concat fpsQ1) cr gpp g1 /\
             g_isroot g1 = g_isroot g /\
             (forall s' Q', gpost s1 s' method idx Q' g1 -> gpost s s' method idx Q' g).
Proof.
  intros G G1 GC Fr SF MS Hq1 Hkq Hrq Hqch1 HrQ1 NDQ1.
  pose proof (good1_wf _ G) as Wf.
  set (fq := q :: n_arr qo :: List.concat fpsQ) in *. set (fq1 := q :: n_arr qo :: List.concat fpsQ1).
  assert (Sub : forall y, In y fq1 -> In y fq \/ s_next s <= y).
  { intros y [<-|[<-|Hy]]; [left; simpl; auto|left; simpl; auto|]. destruct (SF y Hy); [left; simpl; auto|auto]. }
  assert (Rq1 : rep s1 q (Node kq rq kidsQ) fq1).
  { apply rep_unfold. exists qo, qch1, fpsQ1. spl; auto. }
  destruct g as [gp gpo gpch kidsG fpsG jj|rs roots fps]; simpl in GC.
  - destruct GC as (Hgp & Hgch & HrG & NDG & Hgq & HgQ & Hgf & Hcq & Hppp & Hqcr).
    assert (Lall : Forall (V s) (gp :: n_arr gpo :: List.concat fpsG)).
    { destruct (wf_node _ Wf _ _ Hgp). constructor; auto. constructor; auto. eapply reps_lt; eauto. }
    rewrite Forall_forall in Lall.
    assert (Np : ~ In gp (n_arr gpo :: List.concat fpsG)) by (inversion NDG; auto).
    assert (NA : ~ In (n_arr gpo) (List.concat fpsG)) by (inversion NDG as [|? ? ? T]; inversion T; auto).
    assert (DG : NoDup (List.concat fpsG)) by (inversion NDG as [|? ? ? T]; inversion T; auto).
    assert (InQ : forall y, In y fq -> In y (List.concat fpsG)) by (intros y Hy; eapply in_lconcat_nth; eauto).
    assert (AqIn : In (n_arr qo) (List.concat fpsG)) by (apply InQ; simpl; auto).
    assert (SA : forall y, In y (gp :: n_arr gpo :: List.concat fpsG) -> y <> n_arr qo -> same_at s s1 y).
    { intros y Hy Hne. apply (frame_old s s1 [n_arr qo] y Fr).
      - apply Lall. auto.
      - intros [E|[]]. congruence. }
    exists (GNode gp gpo gpch kidsG (set_nth fpsG jj fq1) jj). simpl.
    assert (E1 : find_node s1 gp = Some gpo).
    { rewrite (proj1 (SA gp ltac:(simpl; auto) ltac:(intros E; apply Np; right; rewrite E; auto))). auto. }
    assert (E2 : find_arr s1 (n_arr gpo) = Some gpch).
    { rewrite (proj2 (SA _ ltac:(simpl; auto) ltac:(intros E; apply NA; rewrite E; auto))). auto. }
    assert (E3 : reps s1 gpch kidsG (set_nth fpsG jj fq1)).
    { rewrite <- (set_nth_same gpch jj q Hgq). rewrite <- (set_nth_same kidsG jj _ HgQ).
      eapply all3_set_frame; [exact HrG| |exact Rq1].
      intros k x y z Hne Hx Hy Hz Hrep. eapply rep_frame; [exact Hrep|]. intros a Ha. apply SA.
      - right. right. eapply in_lconcat_nth; eauto.
      - intros ->. exact (NoDup_concat_disj _ _ _ _ _ _ DG Hne Hz Hgf Ha ltac:(simpl; auto)). }
    assert (Sub2 : forall y, In y (List.concat (set_nth fpsG jj fq1)) -> In y (List.concat fpsG) \/ s_next s <= y).
    { intros y Hy. destruct (in_concat_set_nth _ _ _ _ Hy) as [Hi|Hi]; auto. destruct (Sub y Hi); auto. }
    assert (E4 : NoDup (gp :: n_arr gpo :: List.concat (set_nth fpsG jj fq1))).
    { assert (NDc : NoDup (List.concat (set_nth fpsG jj fq1))).
      { eapply NoDup_concat_set_nth; eauto. intros y Hy. destruct (Sub y Hy); auto.
        right. intros Hin. assert (V s y) by (apply Lall; simpl; auto). unfold V in H0. lia. }
      constructor; [|constructor; auto].
      - intros [Hi|Hi]; [apply Np; simpl; auto|]. destruct (Sub2 _ Hi) as [Hi'|Hi']; [apply Np; simpl; auto|].
        assert (V s gp) by (apply Lall; simpl; auto). unfold V in H. lia.
      - intros Hi. destruct (Sub2 _ Hi) as [Hi'|Hi']; auto.
        assert (V s (n_arr gpo)) by (apply Lall; simpl; auto). unfold V in H. lia. }
    split; [spl; auto; eapply nth_set_nth_eq; eauto|]. split; auto.
    intros s' Q' [IR Rt]. destruct MS as (M1 & _). split; [|congruence].
    apply (inplace_res_pre s s1 s' gp gpo fpsG (set_nth fpsG jj fq1) _ [n_arr qo] Fr); auto.
    intros y [<-|[]]. simpl. auto.
  - destruct GC as (Hrs & Hrr & NDr & NRr & Hrqq & HrQ' & Hrf & MI & Hqcr).
    assert (Lall : Forall (V s) (List.concat fps)) by (eapply reps_lt; eauto). rewrite Forall_forall in Lall.
    destruct (wf_arr _ Wf _ _ Hrs) as [VR _].
    assert (InQ : forall y, In y fq -> In y (List.concat fps)) by (intros y Hy; eapply in_lconcat_nth; eauto).
    destruct MS as (M1 & M2 & M3 & M4 & M5).
    assert (SA : forall y, y < s_next s -> y <> n_arr qo -> same_at s s1 y).
    { intros y Hy Hne. apply (frame_old s s1 [n_arr qo] y Fr); auto. intros [E|[]]. congruence. }
    exists (GRoot rs roots (set_nth fps idx fq1)). simpl.
    assert (NRq : s_root s <> n_arr qo) by (intros E; apply NRr; rewrite E; apply InQ; simpl; auto).
    assert (E1 : find_arr s1 (s_root s1) = Some rs) by (rewrite M1, (proj2 (SA _ VR NRq)); auto).
    assert (E2 : reps s1 rs roots (set_nth fps idx fq1)).
    { rewrite <- (set_nth_same rs idx q Hrqq). rewrite <- (set_nth_same roots idx _ HrQ').
      eapply all3_set_frame; [exact Hrr| |exact Rq1].
      intros k x y z Hne Hx Hy Hz Hrep. eapply rep_frame; [exact Hrep|]. intros a Ha. apply SA.
      - apply Lall. eapply in_lconcat_nth; eauto.
      - intros ->. exact (NoDup_concat_disj _ _ _ _ _ _ NDr Hne Hz Hrf Ha ltac:(simpl; auto)). }
    assert (Sub2 : forall y, In y (List.concat (set_nth fps idx fq1)) -> In y (List.concat fps) \/ s_next s <= y).
    { intros y Hy. destruct (in_concat_set_nth _ _ _ _ Hy) as [Hi|Hi]; auto. destruct (Sub y Hi); auto. }
    assert (E3 : NoDup (List.concat (set_nth fps idx fq1))).
    { eapply NoDup_concat_set_nth; eauto. intros y Hy. destruct (Sub y Hy); auto.
      right. intros Hin. apply Lall in Hin. unfold V in Hin. lia. }
    assert (E4 : ~ In (s_root s1) (List.concat (set_nth fps idx fq1))).
    { rewrite M1. intros Hi. destruct (Sub2 _ Hi); auto. unfold V in VR. lia. }
    split; [spl; auto; eapply nth_set_nth_eq; eauto|]. split; auto.
Qed.

Definition rem_sim_stmt (method : bytes) (idx : nat) (fuel : nat) : Prop :=
  forall s q qo qch kidsQ fpsQ i cur n fpn cn kq rq g cr rsx pp ppp rest from cm depth out s',
  good 1 s ->
  find_node s q = Some qo -> find_arr s (n_arr qo) = Some qch -> reps s qch kidsQ fpsQ ->
  NoDup (q :: n_arr qo :: List.concat fpsQ) -> n_key qo = kq -> n_route qo = rq ->
  nth_error kidsQ i = Some n -> nth_error qch i = Some cur -> nth_error fpsQ i = Some fpn ->
  hd_byte (nkey n) = Some cn -> find_child_from 0 cn kidsQ = Some i ->
  find_arr s (s_root s) = Some rsx -> nth_error rsx idx = Some cr -> ~ In cr (List.concat fpsQ) ->
  ~ In (s_root s) (q :: n_arr qo :: List.concat fpsQ) ->
  gctx_ok s method idx q (Node kq rq kidsQ) (q :: n_arr qo :: List.concat fpsQ) cr pp g ->
  rest <> [] ->
  (r <- cow_loop evict fuel cur (Some q) pp ppp rest from cm (List.length (nkey n)) depth ;; K_rem method idx r) s = Ok (out, s') ->
  rem_post s s' method idx q qo fpsQ kidsQ i (Node kq rq kidsQ) g (rem fuel n false rest) out.

Lemma rem_below method idx f s1 q qo qch1 kidsQ fpsQ1 i n' no nch kn rn kidsn fpsn cn kq rq g cr rsx
      i' nx c1 fc1 c rest0 gpp cm depth out s' :
  rem_sim_stmt method idx f ->
  good 1 s1 ->
  find_node s1 q = Some qo -> find_arr s1 (n_arr qo) = Some qch1 -> reps s1 qch1 kidsQ fpsQ1 ->
  NoDup (q :: n_arr qo :: List.concat fpsQ1) -> n_key qo = kq -> n_route qo = rq ->
  nth_error qch1 i = Some n' -> nth_error kidsQ i = Some (Node kn rn kidsn) ->
  nth_error fpsQ1 i = Some (n' :: n_arr no :: List.concat fpsn) ->
  hd_byte kn = Some cn -> find_child_from 0 cn kidsQ = Some i ->
  find_node s1 n' = Some no -> n_key no = kn -> n_route no = rn ->
  find_arr s1 (n_arr no) = Some nch -> reps s1 nch kidsn fpsn ->
  nth_error kidsn i' = Some c1 -> nth_error nch i' = Some nx -> nth_error fpsn i' = Some fc1 ->
  find_child_from 0 c kidsn = Some i' ->
  find_arr s1 (s_root s1) = Some rsx -> nth_error rsx idx = Some cr -> ~ In cr (List.concat fpsQ1) ->
  ~ In (s_root s1) (q :: n_arr qo :: List.concat fpsQ1) ->
  gctx_ok s1 method idx q (Node kq rq kidsQ) (q :: n_arr qo :: List.concat fpsQ1) cr gpp g ->
  match key_of nx s1 with
  | Ok (key, s2) =>
      let '(n, rest', brk) := match_key key (c :: rest0) in
      if brk then K_rem method idx
                    {| r_matched := nx; r_p := Some n'; r_pp := Some q; r_ppp := gpp; r_rest := rest'; r_from := c :: rest0;
                       r_cm := cm + n; r_cmin := n; r_depth := S depth |} s2
      else (r <- cow_loop evict f nx (Some n') (Some q) gpp rest' (c :: rest0) (cm + n) n (S depth) ;; K_rem method idx r) s2
  | Panic => Panic | Oof => Oof
  end = Ok (out, s') ->
  rem_post s1 s' method idx q qo fpsQ1 kidsQ i (Node kq rq kidsQ) g (rem_child f (Node kn rn kidsn) i' c1 (c :: rest0)) out.
Proof.
  intros IH G1 Hq Hqch HrQ NDQ Hkq Hrq Hn' HN HfN Hcn HfcQ Hno Hnk Hnr Hnch Hrn Hc1 Hnx Hfc1 Hfi Hrsx Hcr Ncr NRQ GC H.
  destruct (all3_nth _ _ _ _ _ _ Hrn Hc1) as (nx1 & fc1' & Hnx1 & Hfc1'' & Hrepc1).
  assert (nx1 = nx) by congruence. subst nx1. assert (fc1' = fc1) by congruence. subst fc1'.
  destruct (rep_key _ _ _ _ Hrepc1) as (nxo & Hnxo & Knx & Rnx).
  assert (KO : key_of nx s1 = Ok (nkey c1, s1)).
  { unfold key_of, bind, get_node. unfold find_node in Hnxo. rewrite Hnxo. unfold ret. rewrite Knx. auto. }
  rewrite KO in H.
  destruct (match_key (nkey c1) (c :: rest0)) as [[m rest'] brk] eqn:MK.
  destruct (match_key_spec _ _ _ _ _ MK) as (Em & Er & Lm1 & Lm2 & Bt & Bf).
  assert (Hc0' : hd_byte (nkey c1) = Some c) by (eapply find_child_hd; eauto).
  assert (Same : inplace_res s1 s1 q qo fpsQ1 kidsQ) by (eapply inplace_res_refl; eauto).
  assert (DQ : NoDup (List.concat fpsQ1)) by (inversion NDQ as [|? ? ? T]; inversion T; auto).
  pose proof (NoDup_concat_nth _ _ _ DQ HfN) as NDN.
  assert (InN : forall y, In y (n' :: n_arr no :: List.concat fpsn) -> In y (List.concat fpsQ1)) by (intros y Hy; eapply in_lconcat_nth; eauto).
  assert (Hncr : n' <> cr) by (intros E; apply Ncr; apply InN; rewrite E; simpl; auto).
  unfold rem_child. cbn [nkey nroute nchildren]. rewrite <- Em.
  destruct brk.
  - destruct (Bt eq_refl) as [B1 B2].
    unfold K_rem in H. cbn [r_matched] in H. mbind H mo s2 H2. apply get_node_ok in H2. destruct H2 as [-> _].
    assert (Hrest' : rest' <> []) by (rewrite Er; apply skipn_len_lt; auto).
    destruct rest' as [|x rest'']; [congruence|]. unfold is_exact in H. cbn [r_rest] in H.
    apply ret_ok in H. destruct H as [-> ->].
    assert (E1 : Nat.eqb m (List.length (nkey c1)) = false) by (apply Nat.eqb_neq; lia).
    rewrite E1. unfold rem_post. spl; auto.
  - destruct rest' as [|x rest''].
    + assert (Em2 : m = List.length (c :: rest0)) by (symmetry in Er; apply skipn_nil_iff in Er; auto).
      destruct f as [|f']; [simpl in H; discriminate|]. simpl in H.
      unfold bind at 1 in H. unfold ret at 1 in H.
      match type of H with K_rem _ _ ?rr _ = _ =>
        pose proof (rem_base method idx s1 q qo qch1 kidsQ fpsQ1 i n' no nch kn rn kidsn fpsn i' c1 nx c cn kq rq g cr rsx rr out s'
                      G1 Hq Hqch HrQ NDQ Hkq Hrq Hn' HN HfN Hcn HfcQ Hno Hnk Hnr Hnch Hrn Hc1 Hnx Hc0' Hfi eq_refl eq_refl eq_refl
                      Hrsx Hcr Hncr NRQ GC H) as P
      end.
      unfold is_exact in P. cbn [r_rest r_cmin] in P.
      assert (E2 : Nat.eqb m (List.length (c :: rest0)) = true) by (apply Nat.eqb_eq; lia).
      rewrite E2. destruct (Nat.eqb m (List.length (nkey c1))); exact P.
    + destruct (Bf eq_refl) as [B|B].
      2:{ exfalso. assert (skipn m (c :: rest0) = []) by (apply skipn_nil_iff; auto). congruence. }
      assert (E1 : Nat.eqb m (List.length (nkey c1)) = true) by (apply Nat.eqb_eq; lia).
      assert (E2 : Nat.eqb m (List.length (c :: rest0)) = false).
      { apply Nat.eqb_neq. intros E. assert (skipn m (c :: rest0) = []) by (apply skipn_nil_iff; auto; lia). congruence. }
      rewrite E1, E2. rewrite <- Er. rewrite B in H.
      assert (NRn : ~ In (s_root s1) (n' :: n_arr no :: List.concat fpsn)).
      { intros Hin. apply NRQ. right. right. apply InN. auto. }
      assert (Ncrn : ~ In cr (List.concat fpsn)) by (intros Hin; apply Ncr; apply InN; simpl; auto).
      assert (GC' : gctx_ok s1 method idx n' (Node kn rn kidsn) (n' :: n_arr no :: List.concat fpsn) cr (Some q)
                      (GNode q qo qch1 kidsQ fpsQ1 i)).
      { simpl. spl; auto. exists cn. auto. }
      pose proof (IH s1 n' no nch kidsn fpsn i' nx c1 fc1 c kn rn (GNode q qo qch1 kidsQ fpsQ1 i) cr rsx (Some q) gpp
                    (x :: rest'') (c :: rest0) (cm + List.length (nkey c1))%nat (S depth) out s'
                    G1 Hno Hnch Hrn NDN Hnk Hnr Hc1 Hnx Hfc1 Hc0' Hfi Hrsx Hcr Ncrn NRn GC' ltac:(discriminate) H)
        as (P1 & P2 & P3 & P).
      assert (Up : forall kids', inplace_res s1 s' n' no fpsn kids' ->
                   inplace_res s1 s' q qo fpsQ1 (set_nth kidsQ i (Node kn rn kids'))).
      { intros kids' IR. eapply ascend; eauto. }
      unfold rem_post. split; auto. split; auto. split; auto.
      destruct (rem f c1 false (x :: rest'')) as [|c' r|r|? ?].
      * destruct P as (-> & IR & Z & Rt). pose proof (Up _ IR) as X. rewrite (set_nth_same kidsQ i _ HN) in X. spl; auto.
      * destruct P as (-> & IR & Z & Rt). pose proof (Up _ IR) as X. rewrite <- set_nth_replace. spl; auto.
      * destruct P as (-> & Z & IR & Rt). cbn [g_isroot] in IR. spl; auto.
      * destruct P.
Qed.

Lemma rem_sim method idx fuel : rem_sim_stmt method idx fuel.
Proof.
  induction fuel as [|f IH]; intros s q qo qch kidsQ fpsQ i cur n fpn cn kq rq g cr rsx pp ppp rest from cm depth out s'
    G Hq Hqch HrQ NDQ Hkq Hrq HN Hcur HfN Hcn HfcQ Hrsx Hcr Ncr NRQ GC Hne H.
  - simpl in H. discriminate.
  - destruct rest as [|c rest0]; [congruence|]. rewrite cow_loop_unfold in H.
    pose proof (good1_wf _ G) as Wf.
    destruct (all3_nth _ _ _ _ _ _ HrQ HN) as (cur0 & fpn0 & Hc0 & Hf0 & Hrep).
    assert (cur0 = cur) by congruence. assert (fpn0 = fpn) by congruence. subst cur0 fpn0.
    destruct n as [kn rn kidsn].
    destruct (get_edge_rep _ _ _ _ _ _ c Hrep) as (co & cch & fpsn & Hco & Hcch & Hkids & GE).
    rewrite GE in H. rewrite rem_step. unfold find_child in *. cbn [nchildren nkey nroute] in *.
    assert (Same : inplace_res s s q qo fpsQ kidsQ) by (eapply inplace_res_refl; eauto).
    destruct (find_child_from 0 c kidsn) as [i'|] eqn:Hfi.
    2:{ unfold K_rem in H. cbn [r_matched] in H. mbind H mo s2 H2. apply get_node_ok in H2. destruct H2 as [-> _].
        unfold is_exact in H. cbn [r_rest] in H. apply ret_ok in H. destruct H as [-> ->].
        unfold rem_post. spl; auto. }
    destruct (nth_error cch i') as [nx|] eqn:Hnx.
    2:{ destruct (nth_error kidsn i') as [cc|] eqn:Hcc.
        - destruct (all3_nth _ _ _ _ _ _ Hkids Hcc) as (? & ? & Hx & _). congruence.
        - exfalso. apply find_child_from_lt in Hfi. apply nth_error_None in Hcc. lia. }
    destruct (all3_nth_a _ _ _ _ _ _ Hkids Hnx) as (c1 & fc & Hc1 & Hfc1 & Hrepc).
    rewrite Hc1.
    destruct (relink evict q cur s) as [[n' s1]| |] eqn:RL; try discriminate.
    destruct (descend evict evict_sub s q qo qch kidsQ fpsQ i cur (Node kn rn kidsn) fpn cn n' s1
                G Hq Hqch HrQ NDQ HN Hcur HfN Hcn HfcQ RL)
      as (co2 & no & cch2 & fpsn2 & Hco2 & Hcch2 & Hkids2 & Hfpn & Hn' & Hk' & Hr' & Hnch' & Hkids' & Hq1 & Hqch1 & HrQ1 & NDQ1 & Fr1 & SF1 & MS1 & G1).
    assert (co2 = co) by congruence. subst co2. assert (cch2 = cch) by congruence. subst cch2.
    cbn [nchildren nkey nroute] in *.
    destruct (all3_nth _ _ _ _ _ _ Hkids' Hc1) as (nx1 & fc1 & Hnx1 & Hfc1' & Hrepc1).
    assert (nx1 = nx) by congruence. subst nx1.
    set (fpsQ1 := set_nth fpsQ i (n' :: n_arr no :: List.concat fpsn2)) in *.
    assert (SFQ : sub_fresh s (List.concat fpsQ) (List.concat fpsQ1)).
    { intros y Hy. destruct (in_concat_set_nth _ _ _ _ Hy) as [Hi|Hi]; auto.
      destruct (SF1 y Hi) as [Hi'|Hi']; auto. left. eapply in_lconcat_nth; eauto. }
    destruct (gctx_step method idx s s1 q qo (set_nth qch i n') kq rq kidsQ fpsQ fpsQ1 cr pp g G G1 GC Fr1 SFQ MS1 Hq1 Hkq Hrq Hqch1 HrQ1 NDQ1)
      as (g1 & GC1 & Eg1 & Gback).
    destruct MS1 as (M1 & M2 & M3 & M4 & M5).
    destruct (wf_arr _ Wf _ _ Hrsx) as [VR Frsx].
    assert (Vcr : cr < s_next s) by (rewrite Forall_forall in Frsx; apply Frsx; eapply nth_error_In; eauto).
    assert (Hrsx1 : find_arr s1 (s_root s1) = Some rsx).
    { rewrite M1. rewrite (proj2 (frame_old _ _ _ (s_root s) Fr1 VR ltac:(intros [E|[]]; apply NRQ; rewrite <- E; simpl; auto))). auto. }
    assert (Ncr1 : ~ In cr (List.concat fpsQ1)).
    { intros Hin. destruct (SFQ _ Hin); auto. lia. }
    assert (NRQ1 : ~ In (s_root s1) (q :: n_arr qo :: List.concat fpsQ1)).
    { rewrite M1. intros [E|[E|Hin]]; [apply NRQ; simpl; auto|apply NRQ; simpl; auto|].
      destruct (SFQ _ Hin) as [Hi|Hi]; [apply NRQ; simpl; auto|]. unfold V in VR. lia. }
    pose proof (rem_below method idx f s1 q qo (set_nth qch i n') kidsQ fpsQ1 i n' no cch kn rn kidsn fpsn2 cn kq rq g1 cr rsx
                  i' nx c1 fc1 c rest0 pp cm depth out s' IH G1 Hq1 Hqch1 HrQ1 NDQ1 Hkq Hrq
                  ltac:(eapply nth_set_nth_eq; eauto) HN ltac:(eapply nth_set_nth_eq; eauto) Hcn HfcQ
                  Hn' Hk' Hr' Hnch' Hkids' Hc1 Hnx Hfc1' Hfi Hrsx1 Hcr Ncr1 NRQ1 GC1 H) as (P1 & P2 & P3 & P).
    assert (Back : forall kids', inplace_res s1 s' q qo fpsQ1 kids' -> inplace_res s s' q qo fpsQ kids').
    { intros kids' IR. apply (inplace_res_pre s s1 s' q qo fpsQ fpsQ1 _ [n_arr qo] Fr1); auto.
      intros y [<-|[]]. simpl. auto. }
    unfold rem_post. split; [congruence|]. split; [congruence|]. split; [congruence|].
    destruct (rem_child f (Node kn rn kidsn) i' c1 (c :: rest0)) as [|c' r|r|? ?].
    + destruct P as (-> & IR & Z & Rt). spl; auto; congruence.
    + destruct P as (-> & IR & Z & Rt). spl; auto; congruence.
    + destruct P as (-> & Z & GP). rewrite Eg1 in GP. spl; auto; congruence.
    + destruct P.
Qed.

End Rem.

(* ---------- remove at the roots level ---------- *)
Definition rem_exact_root (n : node) (i : nat) (c : node) (r : route) : rem_res :=
  let updn (c' : node) := Node (nkey n) (nroute n) (replace_nth (nchildren n) i c') in
  match nchildren c with
  | _ :: _ :: _ => RemReplace (updn (Node (nkey c) None (nchildren c))) r
  | [g] => RemReplace (updn (merge_child c g)) r
  | [] => RemRoot (rebuild n true (remove_nth (nchildren n) i) false) r
  end.

Definition rem_child_root (f : nat) (n : node) (i : nat) (c : node) (rest : bytes) : rem_res :=
  let lcp := List.length (common_prefix rest (nkey c)) in
  let updn (c' : node) := Node (nkey n) (nroute n) (replace_nth (nchildren n) i c') in
  if Nat.eqb lcp (List.length (nkey c)) then
    if Nat.eqb lcp (List.length rest) then
      match nroute c with
      | None => RemNotFound
      | Some r => rem_exact_root n i c r
      end
    else
      match rem f c false (skipn lcp rest) with
      | RemNotFound => RemNotFound
      | RemReplace c' r => RemReplace (updn c') r
      | RemSplit r => RemRoot (rebuild n true (remove_nth (nchildren n) i) true) r
      | RemRoot _ _ => RemNotFound
      end
  else RemNotFound.

Lemma rem_step_root f k r kids c0 rest0 :
  rem (S f) (Node k r kids) true (c0 :: rest0) =
  match find_child_from 0 c0 kids with
  | None => RemNotFound
  | Some i => match nth_error kids i with
              | None => RemNotFound
              | Some c => rem_child_root f (Node k r kids) i c (c0 :: rest0)
              end
  end.
Proof.
  cbn [rem]. unfold find_child, rem_child_root, rem_exact_root. cbn [nchildren nkey nroute].
  destruct (find_child_from 0 c0 kids) as [i|]; auto.
  destruct (nth_error kids i) as [c|]; auto.
  destruct (Nat.eqb _ (List.length (nkey c))); auto.
  destruct (Nat.eqb _ (List.length (c0 :: rest0))).
  - destruct (nroute c); auto. destruct (nchildren c) as [|g [|g2 l]]; auto.
    destruct (remove_nth kids i); auto. rewrite Bool.andb_false_r. auto.
  - destruct (rem f c false _); auto.
Qed.

(* the result of remove seen from the roots *)
Definition rem_top_post (s s' : st) (method : bytes) (idx : nat) (roots : list node) (res : rem_res) (out : option route) : Prop :=
  good 1 s' /\ s_maxp s' = s_maxp s /\ s_depth s' = s_depth s /\
  match res with
  | RemNotFound => out = None /\ roots_rep s' roots /\ s_size s' = s_size s
  | RemReplace root' r => out = Some r /\ roots_rep s' (set_nth roots idx root') /\ s_size s' = (s_size s - 1)%Z
  | RemRoot parent r =>
      out = Some r /\ s_size s' = (s_size s - 1)%Z /\
      if (is_nil (nchildren parent) && is_removable method)%bool then roots_rep s' (del_nth roots idx)
      else roots_rep s' (set_nth roots idx (Node method (nroute parent) (nchildren parent)))
  | RemSplit _ => False
  end.

Section RemTop.
Variable evict : N -> list addr -> list addr.
Hypothesis evict_sub : forall c w a, In a (evict c w) -> In a w.

(* the exact match at a child nx (index i') of the method root p' (in place, index idx of the roots) *)
Lemma rem_root_base method idx s rs1 roots fps1 p' co' cch kr rr kidsr fpsn i' c nx c0 r out s' :
  good 1 s ->
  find_arr s (s_root s) = Some rs1 -> reps s rs1 roots fps1 -> NoDup (List.concat fps1) ->
  ~ In (s_root s) (List.concat fps1) ->
  nth_error rs1 idx = Some p' -> nth_error roots idx = Some (Node kr rr kidsr) ->
  nth_error fps1 idx = Some (p' :: n_arr co' :: List.concat fpsn) -> method_index roots method = Some idx ->
  find_node s p' = Some co' -> n_key co' = kr -> n_route co' = rr ->
  find_arr s (n_arr co') = Some cch -> reps s cch kidsr fpsn ->
  nth_error kidsr i' = Some c -> nth_error cch i' = Some nx ->
  hd_byte (nkey c) = Some c0 -> find_child_from 0 c0 kidsr = Some i' ->
  r_matched r = nx -> r_p r = Some p' ->
  K_rem evict method idx r s = Ok (out, s') ->
  rem_top_post s s' method idx roots
    (if is_exact r (List.length (nkey c)) then
       match nroute c with Some rt => rem_exact_root (Node kr rr kidsr) i' c rt | None => RemNotFound end
     else RemNotFound) out.
Proof.
  intros G Hrs Hr ND NR Hp'i Hroot Hfpr MI Hp' Hk' Hr' Hcch Hkids Hc Hnx Hc0 Hfc Hm Hp H.
  pose proof (good1_wf _ G) as Wf.
  assert (RR0 : roots_rep s roots) by (exists rs1, fps1; auto).
  destruct (all3_nth _ _ _ _ _ _ Hkids Hc) as (nx0 & fc & Hnx0 & Hfi' & Hrepc).
  assert (nx0 = nx) by congruence. subst nx0.
  destruct c as [kc rc kidsc]. cbn [nkey nroute nchildren] in *.
  pose proof Hrepc as Hrepc0. apply rep_unfold in Hrepc.
  destruct Hrepc as (mo & mch & fpsc & Hmo & Hk & Hrr & Hmch & Hkidsc & Hfc').
  unfold K_rem in H. rewrite Hm in H. mbind H mo2 s0 H0. apply get_node_ok in H0. destruct H0 as [-> Hmo2].
  assert (mo2 = mo) by congruence. subst mo2. rewrite Hk, Hrr in H.
  unfold rem_top_post.
  destruct (is_exact r (List.length kc)).
  2:{ apply ret_ok in H. destruct H as [-> ->]. spl; auto. }
  destruct rc as [rt|].
  2:{ apply ret_ok in H. destruct H as [-> ->]. spl; auto. }
  cbn [bind bump_size] in H.
  match type of H with _ ?sm = _ => set (sb := sm) in * end.
  assert (Gb : good 1 sb) by (unfold sb; apply good_set_meta; auto).
  mbind H mch2 s0 H0. apply get_arr_ok in H0. destruct H0 as [-> Hmch2].
  assert (mch2 = mch) by (unfold sb, find_arr in Hmch2; simpl in Hmch2; unfold find_arr in Hmch; congruence). subst mch2.
  assert (Lall : Forall (V s) (List.concat fps1)) by (eapply reps_lt; eauto). rewrite Forall_forall in Lall.
  pose proof (NoDup_concat_nth _ _ _ ND Hfpr) as NDp.
  assert (Dn : NoDup (List.concat fpsn)) by (inversion NDp as [|? ? ? T]; inversion T; auto).
  pose proof (NoDup_concat_nth _ _ _ Dn Hfi') as NDc. rewrite Hfc' in NDc.
  assert (InP : forall y, In y (p' :: n_arr co' :: List.concat fpsn) -> In y (List.concat fps1)) by (intros y Hy; eapply in_lconcat_nth; eauto).
  assert (Lc : forall y, In y fc -> y < s_next s).
  { intros y Hy. apply Lall. apply InP. right. right. eapply in_lconcat_nth; eauto. }
  assert (HrsB : find_arr sb (s_root sb) = Some rs1) by exact Hrs.
  assert (HrB : reps sb rs1 roots fps1) by (eapply reps_frame; eauto; intros; split; reflexivity).
  assert (Hp'B : find_node sb p' = Some co') by exact Hp'.
  assert (HcchB : find_arr sb (n_arr co') = Some cch) by exact Hcch.
  assert (HkidsB : reps sb cch kidsr fpsn) by (eapply reps_frame; eauto; intros; split; reflexivity).
  (* after a patch inside the root p' *)
  assert (Up : forall s1 kids', (forall y, y < s_next sb -> same_at sb s1 y) -> True ->
               inplace_res sb s' p' co' fpsn kids' -> s_root s' = s_root s ->
               roots_rep s' (set_nth roots idx (Node kr rr kids')) /\ good 1 s').
  { intros s1 kids' _ _ IR Rt.
    destruct (ascend_root sb s' rs1 roots fps1 idx p' co' fpsn kr rr kidsr kids' Gb HrsB HrB ND NR Hp'i Hroot Hfpr Hk' Hr' IR)
      as (Hrs' & fps' & Hr'' & ND'' & NR'' & G').
    split; auto. exists rs1, fps'. rewrite Rt. spl; auto. }
  unfold rem_exact_root. cbn [nkey nroute nchildren].
  assert (Lk : List.length mch = List.length kidsc) by (destruct (all3_len _ _ _ _ Hkidsc); auto).
  destruct mch as [|c1 [|c2 mch]]; destruct kidsc as [|g1 [|g2 kidsc]]; simpl in Lk; try discriminate.
  - (* no children: the root is rebuilt without this edge *)
    rewrite Hp in H. mbind H p0 s0 H0. apply opt_get_ok in H0. destruct H0 as [E0 ->]. inversion E0; subst p0; clear E0.
    mbind H po s0 H0. apply get_node_ok in H0. destruct H0 as [-> Hpo].
    assert (po = co') by (unfold sb, find_node in Hpo; simpl in Hpo; unfold find_node in Hp'; congruence). subst po.
    mbind H pe s1 H1.
    destruct (recreate_rep _ _ _ _ _ _ _ _ _ _ Gb Hp'B HcchB HkidsB Dn Hnx H1) as (Epe & N1 & Fpe & Old1 & MS1 & G1 & Rpe). clear H1.
    assert (Nb : s_next sb = s_next s) by reflexivity.
    destruct MS1 as (A1 & A2 & A3 & A4 & A5).
    destruct (wf_arr _ Wf _ _ Hrs) as [VR _].
    assert (Hrs1 : find_arr s1 (s_root s1) = Some rs1).
    { rewrite A1. unfold sb at 1. simpl. rewrite (proj2 (Old1 _ ltac:(rewrite Nb; exact VR))). exact Hrs. }
    mbind H rs' s2 H2. unfold get_roots, bind, get_root, get_arr in H2.
    unfold find_arr in Hrs1. rewrite Hrs1 in H2. inversion H2; subst rs' s2; clear H2. fold (find_arr s1 (s_root s1)) in Hrs1.
    mbind H cr0 s2 H2. apply opt_get_ok in H2. destruct H2 as [E0 ->]. assert (cr0 = p') by congruence. subst cr0. clear E0.
    rewrite Pos.eqb_refl in H.
    mbind H pel s2 H2. apply get_arr_ok in H2. destruct H2 as [-> Hpel].
    simpl negb in H. rewrite Bool.andb_false_r in H.
    mbind H parent s3 H3.
    assert (Lfn : forall y, In y (List.concat fpsn) -> y < s_next s) by (intros y Hy; apply Lall; apply InP; simpl; auto).
    assert (Npe : ~ In pe (List.concat (del_nth fpsn i'))).
    { intros Hin. apply in_concat_del_nth in Hin. apply Lfn in Hin. lia. }
    destruct (rebuild_parent_rep _ _ (Node kr rr kidsr) _ _ _ _ _ _ _ _ G1 Fpe Rpe (NoDup_concat_del_nth _ i' Dn) Npe Hk' Hr' H3)
      as (fx & Rx & NDx & Subx & Ex & N3 & Old3 & MS3 & G3 & Ownx & Inx). clear H3.
    rewrite del_nth_remove in Rx. simpl negb in Rx.
    destruct MS3 as (C1 & C2 & C3 & C4 & C5).
    assert (Old03 : forall y, y < s_next s -> same_at s s3 y).
    { intros y Ly. eapply same_at_trans; [split; reflexivity|]. eapply same_at_trans; [apply Old1; rewrite Nb; auto|]. apply Old3; lia. }
    assert (Rt3 : s_root s3 = s_root s) by (rewrite C1, A1; reflexivity).
    assert (Hrs3 : find_arr s3 (s_root s3) = Some rs1) by (rewrite Rt3, (proj2 (Old03 _ VR)); auto).
    assert (Hr3 : reps s3 rs1 roots fps1).
    { eapply reps_frame; [exact Hr|]. intros y Hy. apply Old03. apply Lall. auto. }
    mbind H b s4 H4.
    destruct (rebuild (Node kr rr kidsr) true (remove_nth kidsr i') false) as [pk pr pks] eqn:Ereb.
    destruct (finish_root_rep evict evict_sub method s3 rs1 roots fps1 idx _ _ parent _ _ _ fx b s4
                G3 Hrs3 Hr3 ND ltac:(rewrite Rt3; exact NR) MI Hroot Hfpr Rx (Ownx eq_refl) NDx) as (Eb & G4 & Z4 & P4 & D4 & Ch4 & RR); auto.
    { intros Hin. apply Lall in Hin. unfold V in Hin. lia. }
    { intros y Hy. destruct (Subx y Hy) as [->|[->|Hin]].
      - right. intros Hin. apply Lall in Hin. unfold V in Hin. lia.
      - right. intros Hin. apply Lall in Hin. unfold V in Hin. lia.
      - left. right. right. eapply in_concat_del_nth; eauto. }
    { rewrite Rt3. intros Hin. destruct (Subx _ Hin) as [E|[E|Hin']].
      - unfold V in VR. lia. - unfold V in VR. lia.
      - apply NR. apply InP. right. right. eapply in_concat_del_nth; eauto. }
    subst b. apply ret_ok in H. destruct H as [-> <-].
    cbn [nroute nchildren]. unfold sb in *. cbn [s_size s_root s_maxp s_depth s_cache set_meta] in *.
    spl; auto; try congruence; try lia.
  - (* one child *)
    destruct fpsc as [|fg [|fg2 fpsc]]; simpl in Hkidsc; try tauto.
    destruct Hkidsc as [Hg1 _]. destruct g1 as [kg rg kidsg]. pose proof Hg1 as Hg10. apply rep_unfold in Hg1.
    destruct Hg1 as (co & gch & fpsg & Hco & Hkg & Hrg & Hgch & Hkidsg & Hfg).
    mbind H co2 s1 H1. apply get_node_ok in H1. destruct H1 as [-> Hco2].
    assert (co2 = co) by (unfold sb, find_node in Hco2; simpl in Hco2; unfold find_node in Hco; congruence). subst co2.
    mbind H x s1 H1. rewrite Hkg, Hrg in H1.
    assert (Hgchb : find_arr sb (n_arr co) = Some gch) by exact Hgch.
    assert (Hkidsgb : reps sb gch kidsg fpsg) by (eapply reps_frame; eauto; intros; split; reflexivity).
    destruct (nnfr_rep _ _ _ _ _ _ _ _ _ Gb Hgchb Hkidsgb H1) as (Ex & Nx & Rx & Oldx & MSx & Gx). clear H1.
    rewrite Hp in H. mbind H p0 s2 H2. apply opt_get_ok in H2. destruct H2 as [E0 ->]. inversion E0; subst p0; clear E0.
    mbind H u s2 H2. apply ret_ok in H. destruct H as [-> <-]. destruct u.
    simpl in Hfc', NDc. rewrite app_nil_r in Hfc', NDc. rewrite Hfg in NDc.
    assert (NDx : NoDup (x :: n_arr co :: List.concat fpsg)).
    { inversion NDc as [|? ? _ T]; inversion T as [|? ? _ T2]. inversion T2 as [|? ? M1 M2].
      constructor; auto. intros Hin. assert (x < s_next s).
      { apply Lc. rewrite Hfc', Hfg. right. right. right. auto. } unfold sb in Ex. simpl in Ex. lia. }
    destruct (install sb s1 p' co' cch kidsr fpsn i' (Node kc (Some rt) [Node kg rg kidsg]) fc c0 x _ _ s' Gb Hp'B HcchB
                HkidsB NDp Hc Hfi' Hc0 Hfc Oldx ltac:(lia) Gx Rx) as (IR & MS2); auto.
    { cbn [nkey]. destruct kc; [discriminate|]. exact Hc0. }
    { intros y [<-|Hin]; [right; lia|]. left. rewrite Hfc', Hfg. right. right. right. auto. }
    destruct MSx as (C1 & C2 & C3 & C4 & C5). destruct MS2 as (D1 & D2 & D3 & D4 & D5).
    destruct (Up s1 _ Oldx I IR ltac:(rewrite D1, C1; reflexivity)) as (RR & G').
    unfold merge_child. cbn [nkey nroute nchildren]. rewrite <- set_nth_replace.
    unfold sb in *. cbn [s_size s_root s_maxp s_depth s_cache set_meta] in *.
    spl; auto; try congruence; try lia.
  - (* several children *)
    mbind H x s1 H1.
    assert (Hmchb : find_arr sb (n_arr mo) = Some (c1 :: c2 :: mch)) by exact Hmch.
    assert (Hkidscb : reps sb (c1 :: c2 :: mch) (g1 :: g2 :: kidsc) fpsc) by (eapply reps_frame; eauto; intros; split; reflexivity).
    destruct (nnfr_rep _ _ _ _ _ _ _ _ _ Gb Hmchb Hkidscb H1) as (Ex & Nx & Rx & Oldx & MSx & Gx). clear H1.
    rewrite Hp in H. mbind H p0 s2 H2. apply opt_get_ok in H2. destruct H2 as [E0 ->]. inversion E0; subst p0; clear E0.
    mbind H u s2 H2. apply ret_ok in H. destruct H as [-> <-]. destruct u.
    assert (NDx : NoDup (x :: n_arr mo :: List.concat fpsc)).
    { inversion NDc as [|? ? M1 M2]. constructor; auto. intros Hin. assert (x < s_next s).
      { apply Lc. rewrite Hfc'. right. auto. } unfold sb in Ex. simpl in Ex. lia. }
    destruct (install sb s1 p' co' cch kidsr fpsn i' (Node kc (Some rt) (g1 :: g2 :: kidsc)) fc c0 x _ _ s' Gb Hp'B HcchB
                HkidsB NDp Hc Hfi' Hc0 Hfc Oldx ltac:(lia) Gx Rx) as (IR & MS2); auto.
    { intros y [<-|Hin]; [right; lia|]. left. rewrite Hfc'. right. auto. }
    destruct MSx as (C1 & C2 & C3 & C4 & C5). destruct MS2 as (D1 & D2 & D3 & D4 & D5).
    destruct (Up s1 _ Oldx I IR ltac:(rewrite D1, C1; reflexivity)) as (RR & G').
    rewrite <- set_nth_replace.
    unfold sb in *. cbn [s_size s_root s_maxp s_depth s_cache set_meta] in *.
    spl; auto; try congruence; try lia.
Qed.

End RemTop.

Section RemThm.
Variable evict : N -> list addr -> list addr.
Hypothesis evict_sub : forall c w a, In a (evict c w) -> In a w.

Lemma remove_at_root m idx path s rs roots fps rn root out s' :
  good 1 s -> find_arr s (s_root s) = Some rs -> reps s rs roots fps -> NoDup (List.concat fps) ->
  ~ In (s_root s) (List.concat fps) -> roots_wf roots ->
  method_index roots m = Some idx -> nth_error roots idx = Some root -> nth_error rs idx = Some rn ->
  (r <- cow_search evict rn path ;; K_rem evict m idx r) s = Ok (out, s') ->
  rem_top_post s s' m idx roots (rem (S (List.length path)) root true path) out.
Proof.
  intros G Hrs Hr ND NR (RO & L4 & RN) MI Hroot Hrn H.
  assert (RR0 : roots_rep s roots) by (exists rs, fps; auto).
  destruct (all3_nth _ _ _ _ _ _ Hr Hroot) as (rn0 & fpr & Hrn0 & Hfpr & Hrep).
  assert (rn0 = rn) by congruence. subst rn0.
  pose proof (RN _ (nth_error_In _ _ Hroot)) as Err.
  destruct root as [kr rr kidsr]. cbn [nroute] in Err. subst rr.
  unfold cow_search in H.
  destruct path as [|c rest0].
  - simpl in H. unfold bind at 1 in H. unfold ret at 1 in H. unfold K_rem in H. cbn [r_matched] in H.
    mbind H mo s0 H0. apply get_node_ok in H0. destruct H0 as [-> Hmo].
    destruct (rep_key _ _ _ _ Hrep) as (o & Ho & _ & Hro). assert (o = mo) by congruence. subst o. cbn [nroute] in Hro.
    rewrite Hro in H. destruct (is_exact _ _); apply ret_ok in H; destruct H as [-> ->]; unfold rem_top_post; simpl; spl; auto.
  - rewrite cow_loop_unfold_root in H.
    destruct (get_edge_rep _ _ _ _ _ _ c Hrep) as (co & cch & fpsn & Hco & Hcch & Hkids & GE).
    rewrite GE in H. simpl List.length. rewrite rem_step_root. unfold find_child in *. cbn [nchildren nkey nroute] in *.
    destruct (find_child_from 0 c kidsr) as [i'|] eqn:Hfi.
    2:{ unfold K_rem in H. cbn [r_matched] in H. mbind H mo s2 H2. apply get_node_ok in H2. destruct H2 as [-> _].
        unfold is_exact in H. cbn [r_rest] in H. apply ret_ok in H. destruct H as [-> ->]. unfold rem_top_post. spl; auto. }
    destruct (nth_error cch i') as [nx|] eqn:Hnx.
    2:{ destruct (nth_error kidsr i') as [cc|] eqn:Hcc.
        - destruct (all3_nth _ _ _ _ _ _ Hkids Hcc) as (? & ? & Hx & _). congruence.
        - exfalso. apply find_child_from_lt in Hfi. apply nth_error_None in Hcc. lia. }
    destruct (all3_nth_a _ _ _ _ _ _ Hkids Hnx) as (c1 & fc & Hc1 & Hfc1 & Hrepc).
    rewrite Hc1.
    destruct (relink_root evict rn s) as [[p' s1]| |] eqn:RL; try discriminate.
    destruct (descend_root evict evict_sub s rs roots fps idx rn (Node kr None kidsr) fpr p' s1
                G Hrs Hr ND NR Hroot Hrn Hfpr (RO _ _ Hroot) RL)
      as (co2 & co' & cch2 & fpsn2 & Hco2 & Hcch2 & Hkids2 & Hfpn & Hp' & Hk' & Hr' & Hcch' & Hkids' & Hrs1 & Hr1 & ND1 & NR1 & Old1 & Nx1 & SF1 & Z1 & P1 & D1 & G1 & NDp' & NRp').
    assert (co2 = co) by congruence. subst co2. assert (cch2 = cch) by congruence. subst cch2.
    cbn [nchildren nkey nroute] in *.
    destruct (all3_nth _ _ _ _ _ _ Hkids' Hc1) as (nx1 & fc1 & Hnx1 & Hfc1' & Hrepc1).
    assert (nx1 = nx) by congruence. subst nx1.
    set (rs1 := set_nth rs idx p') in *. set (fps1 := set_nth fps idx (p' :: n_arr co' :: List.concat fpsn2)) in *.
    assert (Hp'i : nth_error rs1 idx = Some p') by (eapply nth_set_nth_eq; eauto).
    assert (Hfp1 : nth_error fps1 idx = Some (p' :: n_arr co' :: List.concat fpsn2)) by (eapply nth_set_nth_eq; eauto).
    assert (RR1 : roots_rep s1 roots) by (exists rs1, fps1; auto).
    destruct (rep_key _ _ _ _ Hrepc1) as (nxo & Hnxo & Knx & Rnx).
    assert (KO : key_of nx s1 = Ok (nkey c1, s1)).
    { unfold key_of, bind, get_node. unfold find_node in Hnxo. rewrite Hnxo. unfold ret. rewrite Knx. auto. }
    rewrite KO in H.
    destruct (match_key (nkey c1) (c :: rest0)) as [[m0 rest'] brk] eqn:MK.
    destruct (match_key_spec _ _ _ _ _ MK) as (Em & Er & Lm1 & Lm2 & Bt & Bf).
    assert (Hc0' : hd_byte (nkey c1) = Some c) by (eapply find_child_hd; eauto).
    unfold rem_child_root. cbn [nkey nroute nchildren]. rewrite <- Em.
    assert (Conv : forall res, rem_top_post s1 s' m idx roots res out -> rem_top_post s s' m idx roots res out).
    { unfold rem_top_post. intros res (A & B & C & D). rewrite <- Z1, <- P1, <- D1. spl; auto. }
    destruct brk.
    + destruct (Bt eq_refl) as [B1 B2].
      unfold K_rem in H. cbn [r_matched] in H. mbind H mo s2 H2. apply get_node_ok in H2. destruct H2 as [-> _].
      assert (Hrest' : rest' <> []) by (rewrite Er; apply skipn_len_lt; auto).
      destruct rest' as [|x rest'']; [congruence|]. unfold is_exact in H. cbn [r_rest] in H.
      apply ret_ok in H. destruct H as [-> ->].
      assert (E1 : Nat.eqb m0 (List.length (nkey c1)) = false) by (apply Nat.eqb_neq; lia).
      rewrite E1. apply Conv. unfold rem_top_post. spl; auto.
    + destruct rest' as [|x rest''].
      * assert (Em2 : m0 = List.length (c :: rest0)) by (symmetry in Er; apply skipn_nil_iff in Er; auto).
        simpl in H. unfold bind at 1 in H. unfold ret at 1 in H.
        match type of H with K_rem _ _ _ ?rr _ = _ =>
          pose proof (rem_root_base evict evict_sub m idx s1 rs1 roots fps1 p' co' cch kr None kidsr fpsn2 i' c1 nx c rr out s'
                        G1 Hrs1 Hr1 ND1 NR1 Hp'i Hroot Hfp1 MI Hp' Hk' Hr' Hcch' Hkids' Hc1 Hnx Hc0' Hfi eq_refl eq_refl H) as P
        end.
        unfold is_exact in P. cbn [r_rest r_cmin] in P.
        assert (E2 : Nat.eqb m0 (List.length (c :: rest0)) = true) by (apply Nat.eqb_eq; lia).
        rewrite E2. apply Conv. destruct (Nat.eqb m0 (List.length (nkey c1))); exact P.
      * destruct (Bf eq_refl) as [B|B].
        2:{ exfalso. assert (skipn m0 (c :: rest0) = []) by (apply skipn_nil_iff; auto). congruence. }
        assert (E1 : Nat.eqb m0 (List.length (nkey c1)) = true) by (apply Nat.eqb_eq; lia).
        assert (E2 : Nat.eqb m0 (List.length (c :: rest0)) = false).
        { apply Nat.eqb_neq. intros E. assert (skipn m0 (c :: rest0) = []) by (apply skipn_nil_iff; auto; lia). congruence. }
        rewrite E1, E2. rewrite <- Er. rewrite B in H.
        assert (Ncr : ~ In p' (List.concat fpsn2)) by (inversion NDp' as [|? ? Hx _]; intros Hin; apply Hx; simpl; auto).
        assert (GC : gctx_ok s1 m idx p' (Node kr None kidsr) (p' :: n_arr co' :: List.concat fpsn2) p' None (GRoot rs1 roots fps1)).
        { simpl. spl; auto. }
        pose proof (rem_sim evict evict_sub m idx _ s1 p' co' cch kidsr fpsn2 i' nx c1 fc1 c kr None (GRoot rs1 roots fps1) p' rs1 None None
                      (x :: rest'') (c :: rest0) (0 + List.length (nkey c1))%nat 1%nat out s'
                      G1 Hp' Hcch' Hkids' NDp' Hk' Hr' Hc1 Hnx Hfc1' Hc0' Hfi Hrs1 Hp'i Ncr NRp' GC ltac:(discriminate) H)
          as (Q1 & Q2 & Q3 & P).
        assert (Fin : forall kids', inplace_res s1 s' p' co' fpsn2 kids' -> s_root s' = s_root s1 ->
                      roots_rep s' (set_nth roots idx (Node kr None kids')) /\ good 1 s').
        { intros kids' IR Rt.
          destruct (ascend_root s1 s' rs1 roots fps1 idx p' co' fpsn2 kr None kidsr kids' G1 Hrs1 Hr1 ND1 NR1 Hp'i Hroot Hfp1 Hk' Hr' IR)
            as (Hrs' & fps' & Hr'' & ND'' & NR'' & G').
          split; auto. exists rs1, fps'. rewrite Rt. spl; auto. }
        apply Conv. unfold rem_top_post.
        destruct (rem _ c1 false (x :: rest'')) as [|c' r|r|? ?].
        -- destruct P as (-> & IR & Z & Rt). destruct (Fin _ IR Rt) as [X Y]. rewrite (set_nth_same roots idx _ Hroot) in X. spl; auto.
        -- destruct P as (-> & IR & Z & Rt). destruct (Fin _ IR Rt) as [X Y]. rewrite <- set_nth_replace. spl; auto.
        -- destruct P as (-> & Z & (G' & GP)). cbn [g_isroot] in GP. spl; auto.
        -- destruct P.
Qed.

End RemThm.

(* ---------- the roots list stays well formed ---------- *)
Definition keys_wf (ks : list bytes) : Prop :=
  firstn 4 ks = common_verbs /\ NoDup (skipn 4 ks) /\ (forall k, In k (skipn 4 ks) -> is_removable k = true).

Definition mik (ks : list bytes) (m : bytes) : option nat :=
  if bytes_eqb m m_get then Some 0%nat
  else if bytes_eqb m m_post then Some 1%nat
  else if bytes_eqb m m_put then Some 2%nat
  else if bytes_eqb m m_delete then Some 3%nat
  else find_eq_from 4 m (skipn 4 ks).

Lemma method_index_mik rs m : method_index rs m = mik (map nkey rs) m.
Proof. unfold method_index, mik. rewrite <- find_eq_key, skipn_map. reflexivity. Qed.

Lemma is_removable_spec m : is_removable m = true <->
  bytes_eqb m m_get = false /\ bytes_eqb m m_post = false /\ bytes_eqb m m_put = false /\ bytes_eqb m m_delete = false.
Proof.
  unfold is_removable, common_verbs. simpl. rewrite Bool.orb_false_r.
  destruct (bytes_eqb m m_get), (bytes_eqb m m_post), (bytes_eqb m m_put), (bytes_eqb m m_delete); simpl; intuition congruence.
Qed.

Lemma find_eq_from_spec m ks : forall b i, find_eq_from b m ks = Some i ->
  (b <= i)%nat /\ nth_error ks (i - b) = Some m /\ (forall j, (j < i - b)%nat -> nth_error ks j <> Some m).
Proof.
  induction ks as [|k ks IH]; intros b i H; simpl in H; [discriminate|].
  destruct (bytes_eqb_spec k m) as [E|E].
  - inversion H; subst. replace (i - i)%nat with 0%nat by lia. simpl. spl; auto; try lia; try (intros j Hj; lia).
  - destruct (IH _ _ H) as (L & Hn & Hf). replace (i - b)%nat with (S (i - S b)) by lia. simpl. spl; auto; try lia.
    intros [|j] Hj; simpl; [congruence|]. apply Hf. lia.
Qed.

Lemma find_eq_from_first m ks : forall b a, nth_error ks a = Some m -> (forall j, (j < a)%nat -> nth_error ks j <> Some m) ->
  find_eq_from b m ks = Some (b + a)%nat.
Proof.
  induction ks as [|k ks IH]; intros b [|a] H Hf; simpl in *; try discriminate.
  - inversion H; subst. rewrite bytes_eqb_refl. f_equal. lia.
  - destruct (bytes_eqb_spec k m) as [E|E].
    + exfalso. apply (Hf 0%nat); [lia|]. simpl. congruence.
    + rewrite (IH (S b) a H). * f_equal. lia. * intros j Hj. apply (Hf (S j)). lia.
Qed.

Lemma nth_firstn {A} (l : list A) k i : (i < k)%nat -> nth_error (firstn k l) i = nth_error l i.
Proof. revert l i. induction k as [|k IH]; intros [|x l] [|i] L; simpl; auto; try lia. apply IH. lia. Qed.

Lemma keys_wf_mik ks : keys_wf ks -> forall i k, nth_error ks i = Some k -> mik ks k = Some i.
Proof.
  intros (F4 & ND & RM) i k Hi.
  destruct (Nat.lt_ge_cases i 4) as [L|L].
  - assert (Hk : nth_error (firstn 4 ks) i = Some k) by (rewrite nth_firstn; auto).
    rewrite F4 in Hk. unfold common_verbs in Hk.
    destruct i as [|[|[|[|i]]]]; simpl in Hk; try lia; inversion Hk; subst; reflexivity.
  - assert (Hs : nth_error (skipn 4 ks) (i - 4) = Some k) by (rewrite nth_skipn; replace (4 + (i - 4))%nat with i by lia; auto).
    pose proof (RM _ (nth_error_In _ _ Hs)) as R. apply is_removable_spec in R. destruct R as (R1 & R2 & R3 & R4).
    unfold mik. rewrite R1, R2, R3, R4.
    rewrite (find_eq_from_first k (skipn 4 ks) 4 (i - 4) Hs).
    + f_equal. lia.
    + intros j Hj Hn. rewrite NoDup_nth_error in ND.
      assert (j = (i - 4)%nat); [|lia]. apply ND; [apply nth_error_Some; congruence|congruence].
Qed.

Lemma roots_ok_keys rs : roots_ok rs -> (4 <= List.length rs)%nat -> keys_wf (map nkey rs).
Proof.
  intros RO L. unfold roots_ok in RO.
  assert (RO' : forall i k, nth_error (map nkey rs) i = Some k -> mik (map nkey rs) k = Some i).
  { intros i k Hi. rewrite nth_error_map in Hi. destruct (nth_error rs i) as [r|] eqn:Hr; [|discriminate].
    inversion Hi; subst. rewrite <- method_index_mik. auto. }
  set (ks := map nkey rs) in *. assert (Lk : (4 <= List.length ks)%nat) by (unfold ks; rewrite map_length; auto).
  clearbody ks. clear RO L rs.
  assert (Verb : forall i k, (i < 4)%nat -> nth_error ks i = Some k -> k = nth i common_verbs []).
  { intros i k Li Hi. pose proof (RO' _ _ Hi) as M. unfold mik in M.
    destruct (bytes_eqb_spec k m_get) as [->|]; [inversion M; reflexivity|].
    destruct (bytes_eqb_spec k m_post) as [->|]; [inversion M; reflexivity|].
    destruct (bytes_eqb_spec k m_put) as [->|]; [inversion M; reflexivity|].
    destruct (bytes_eqb_spec k m_delete) as [->|]; [inversion M; reflexivity|].
    apply find_eq_from_spec in M. lia. }
  split; [|split].
  - destruct ks as [|k0 [|k1 [|k2 [|k3 ks]]]]; simpl in Lk; try lia. simpl.
    rewrite (Verb 0%nat k0), (Verb 1%nat k1), (Verb 2%nat k2), (Verb 3%nat k3); auto; lia.
  - apply NoDup_nth_error. intros a b La E. rewrite !nth_skipn in E.
    destruct (nth_error ks (4 + a)) as [k|] eqn:Ha; [|apply nth_error_None in Ha; rewrite skipn_length in La; lia].
    symmetry in E. pose proof (RO' _ _ Ha) as M1. pose proof (RO' _ _ E) as M2. rewrite M1 in M2. inversion M2. lia.
  - intros k Hk. apply In_nth_error in Hk. destruct Hk as (a & Ha). rewrite nth_skipn in Ha.
    pose proof (RO' _ _ Ha) as M. apply is_removable_spec. unfold mik in M.
    destruct (bytes_eqb k m_get); [inversion M; lia|]. destruct (bytes_eqb k m_post); [inversion M; lia|].
    destruct (bytes_eqb k m_put); [inversion M; lia|]. destruct (bytes_eqb k m_delete); [inversion M; lia|]. auto.
Qed.

Lemma keys_wf_roots_ok rs : keys_wf (map nkey rs) -> roots_ok rs /\ (4 <= List.length rs)%nat.
Proof.
  intros K. split.
  - intros i r Hr. rewrite method_index_mik. apply keys_wf_mik; auto. rewrite nth_error_map, Hr. reflexivity.
  - destruct K as (F4 & _). assert (List.length (firstn 4 (map nkey rs)) = 4%nat) by (rewrite F4; reflexivity).
    rewrite firstn_length, map_length in H. lia.
Qed.

Lemma map_del_nth {A B} (f : A -> B) l i : map f (del_nth l i) = del_nth (map f l) i.
Proof. revert i. induction l as [|x l IH]; intros [|i]; simpl; auto. f_equal. auto. Qed.

Lemma del_nth_skipn {A} (l : list A) i : (4 <= i)%nat -> firstn 4 (del_nth l i) = firstn 4 l /\ skipn 4 (del_nth l i) = del_nth (skipn 4 l) (i - 4).
Proof.
  intros L. do 4 (destruct i as [|i]; [lia|]). simpl.
  destruct l as [|a [|b [|c [|d l]]]]; simpl; auto. replace (i - 0)%nat with i by lia. auto.
Qed.

Lemma NoDup_del_nth {A} (l : list A) i : NoDup l -> NoDup (del_nth l i).
Proof.
  revert i. induction l as [|x l IH]; intros [|i] H; simpl; auto; inversion H; subst; auto.
  constructor; auto. intros Hin. apply H2. clear -Hin. revert i Hin. induction l as [|y l IH]; intros [|i] Hin; simpl in *; auto.
  destruct Hin; eauto.
Qed.

Lemma in_del_nth' {A} (l : list A) i x : In x (del_nth l i) -> In x l.
Proof. revert i. induction l as [|y l IH]; intros [|i] H; simpl in *; auto. destruct H; eauto. Qed.

Lemma roots_wf_del rs i : roots_wf rs -> (4 <= i)%nat -> roots_wf (del_nth rs i).
Proof.
  intros (RO & L & RN) Li.
  pose proof (roots_ok_keys rs RO L) as (F4 & ND & RM).
  assert (K : keys_wf (map nkey (del_nth rs i))).
  { rewrite map_del_nth. destruct (del_nth_skipn (map nkey rs) i Li) as [E1 E2]. unfold keys_wf. rewrite E1, E2. spl; auto.
    - apply NoDup_del_nth. auto.
    - intros k Hk. apply RM. eapply in_del_nth'; eauto. }
  destruct (keys_wf_roots_ok _ K) as [RO' L']. split; [|split]; auto.
  intros r Hr. apply RN. eapply in_del_nth'; eauto.
Qed.

Lemma removable_index rs m i : method_index rs m = Some i -> is_removable m = true -> (4 <= i)%nat.
Proof.
  intros H R. apply is_removable_spec in R. destruct R as (R1 & R2 & R3 & R4).
  unfold method_index in H. rewrite R1, R2, R3, R4 in H. apply find_key_from_spec in H. lia.
Qed.

Lemma rem_root_shape f k r kids rest :
  match rem f (Node k r kids) true rest with
  | RemReplace n' _ => nkey n' = k /\ nroute n' = r
  | RemRoot parent _ => nroute parent = r
  | _ => True
  end.
Proof.
  destruct f as [|f]; [simpl; auto|]. destruct rest as [|c rest0]; [simpl; auto|].
  rewrite rem_step_root. destruct (find_child_from 0 c kids) as [i|]; auto.
  destruct (nth_error kids i) as [c1|]; auto.
  unfold rem_child_root, rem_exact_root. cbn [nkey nroute nchildren].
  destruct (Nat.eqb _ (List.length (nkey c1))); auto.
  destruct (Nat.eqb _ (List.length (c :: rest0))).
  - destruct (nroute c1); auto. destruct (nchildren c1) as [|g [|g2 l]]; simpl; auto.
    unfold rebuild. destruct (remove_nth kids i) as [|e [|e2 el]]; simpl; auto.
    rewrite Bool.andb_false_r. reflexivity.
  - destruct (rem f c1 false _); simpl; auto.
    unfold rebuild. destruct (remove_nth kids i) as [|e [|e2 el]]; simpl; auto.
    rewrite Bool.andb_false_r. reflexivity.
Qed.

Section RemThm2.
Variable evict : N -> list addr -> list addr.
Hypothesis evict_sub : forall c w a, In a (evict c w) -> In a w.

Theorem h_remove_refines m path s T out s' :
  good 1 s -> trep s T -> roots_wf (t_roots T) ->
  h_remove evict m path s = Ok (out, s') ->
  good 1 s' /\
  match remove T m path with
  | DOk T' r => out = Some r /\ trep s' T' /\ roots_wf (t_roots T')
  | DNotFound => out = None /\ trep s' T
  end.
Proof.
  intros G TR WF H. pose proof TR as TR0. apply trep_roots in TR. destruct TR as ((rs & fps & Hrs & Hr & ND & NR) & Zs & Ps & Ds).
  rewrite h_remove_unfold in H. unfold remove.
  mbind H idx s0 H0. rewrite (h_method_index_rep _ _ _ _ _ Hrs Hr) in H0. inversion H0; subst idx s0; clear H0.
  destruct (method_index (t_roots T) m) as [i|] eqn:MI.
  2:{ apply ret_ok in H. destruct H as [-> ->]. auto. }
  mbind H rs' s0 H0. unfold get_roots, bind, get_root, get_arr in H0. unfold find_arr in Hrs. rewrite Hrs in H0.
  inversion H0; subst rs' s0; clear H0. fold (find_arr s (s_root s)) in Hrs.
  mbind H rn s0 H0. apply opt_get_ok in H0. destruct H0 as [Hrn ->].
  destruct (all3_nth_a _ _ _ _ _ _ Hr Hrn) as (root & fpr & Hroot & Hfpr & Hrep).
  rewrite Hroot.
  pose proof (remove_at_root evict evict_sub m i path s rs (t_roots T) fps rn root out s' G Hrs Hr ND NR WF MI Hroot Hrn H)
    as (G' & Mp & Dp & P).
  split; auto.
  destruct WF as (RO & L4 & RN).
  pose proof (method_index_key _ _ _ _ RO MI Hroot) as Ekr.
  pose proof (RN _ (nth_error_In _ _ Hroot)) as Err.
  destruct root as [kr rr kidsr]. cbn [nkey nroute] in Ekr, Err. subst rr kr.
  pose proof (rem_root_shape (S (List.length path)) m None kidsr path) as Sh.
  destruct (rem (S (List.length path)) (Node m None kidsr) true path) as [|root' r|r|parent r].
  - destruct P as (-> & RR & Z). split; auto. apply trep_roots. spl; auto; congruence.
  - destruct P as (-> & RR & Z). destruct Sh as [K1 K2]. split; auto. rewrite <- set_nth_replace. split.
    + apply trep_roots. simpl. spl; auto; try congruence; try lia.
    + simpl. eapply roots_wf_set; eauto. split; auto.
  - destruct P.
  - destruct P as (-> & Z & RR).
    destruct (is_nil (nchildren parent) && is_removable m)%bool eqn:Erm; (split; [reflexivity|]).
    + rewrite <- del_nth_remove. split.
      * apply trep_roots. simpl. spl; auto; try congruence; try lia.
      * simpl. apply roots_wf_del; [split; auto|]. apply Bool.andb_true_iff in Erm. eapply removable_index; eauto. tauto.
    + rewrite <- set_nth_replace. split.
      * apply trep_roots. simpl. spl; auto; try congruence; try lia.
      * simpl. eapply roots_wf_set; eauto. split; auto.
Qed.

End RemThm2.

(* ---------- route listings (countRoutes, getRouteConflict) ---------- *)
Definition kids_height (kids : list node) : nat := fold_right (fun c acc => Nat.max (node_height c) acc) 0%nat kids.

Lemma kids_height_le kids c : In c kids -> (node_height c <= kids_height kids)%nat.
Proof. induction kids as [|x kids IH]; simpl; intros []; subst; try lia. specialize (IH H). lia. Qed.

Lemma flat_map_ext_in {A B} (f g : A -> list B) l : (forall x, In x l -> f x = g x) -> flat_map f l = flat_map g l.
Proof. induction l as [|x l IH]; simpl; intros H; auto. rewrite (H x), IH; auto. Qed.

Lemma routes_pre_mono : forall n f, (node_height n <= f)%nat -> routes_pre f n = routes_pre (node_height n) n.
Proof.
  induction n as [k r kids IH] using node_ind2. intros f L.
  change (node_height (Node k r kids)) with (S (kids_height kids)) in *.
  destruct f as [|f]; [lia|]. simpl. f_equal.
  assert (L' : (kids_height kids <= f)%nat) by lia. clear L.
  assert (E : forall c, In c kids -> routes_pre f c = routes_pre (kids_height kids) c).
  { intros c Hc. rewrite Forall_forall in IH. pose proof (kids_height_le _ _ Hc).
    rewrite (IH c Hc f) by lia. symmetry. apply IH; auto. }
  apply flat_map_ext_in. exact E.
Qed.

(* if the listing terminates, it is the pure DFS listing *)
Lemma h_routes_rep s : forall fuel a n fp r s', rep s a n fp -> h_routes fuel a s = Ok (r, s') -> r = routes_of_node n /\ s' = s.
Proof.
  induction fuel as [|f IH]; intros a n fp r s' Hrep H; simpl in H; [discriminate|].
  destruct n as [k rt kids]. apply rep_unfold in Hrep. destruct Hrep as (o & ch & fps & Ho & Hk & Hr & Hch & Hkids & Hfp).
  mbind H o2 s1 H1. apply get_node_ok in H1. destruct H1 as [-> Ho2]. assert (o2 = o) by congruence. subst o2.
  mbind H ch2 s1 H1. apply get_arr_ok in H1. destruct H1 as [-> Hch2]. assert (ch2 = ch) by congruence. subst ch2.
  mbind H rs s1 H1.
  assert (X : rs = flat_map routes_of_node kids /\ s1 = s).
  { clear H Hch Hch2 Hfp. revert kids fps rs s1 Hkids H1. induction ch as [|c ch IHc]; intros [|kd kids] [|fc fps] rs s1 Hkids H1; simpl in Hkids; try tauto.
    - apply ret_ok in H1. destruct H1 as [-> ->]. auto.
    - destruct Hkids as [Hc Hrest]. mbind H1 r0 s2 H2. destruct (IH _ _ _ _ _ Hc H2) as [-> ->].
      mbind H1 more s3 H3. destruct (IHc _ _ _ _ Hrest H3) as [-> ->]. apply ret_ok in H1. destruct H1 as [-> ->]. auto. }
  destruct X as [-> ->]. apply ret_ok in H. destruct H as [-> ->]. split; auto.
  symmetry. unfold routes_of_node at 1. change (node_height (Node k rt kids)) with (S (kids_height kids)).
  cbn [routes_pre nroute nchildren]. rewrite Hr. f_equal.
  apply flat_map_ext_in. intros c Hc. unfold routes_of_node. apply routes_pre_mono. apply kids_height_le. auto.
Qed.

(* ---------- truncate ---------- *)
Lemma new_empty_root_rep k s a s1 :
  good 1 s -> new_empty_root k s = Ok (a, s1) ->
  exists e, rep s1 a (empty_root k) [a; e] /\ e = s_next s /\ a = Pos.succ (s_next s) /\ s_next s1 = Pos.succ (Pos.succ (s_next s)) /\
            (forall y, y < s_next s -> same_at s s1 y) /\ (forall y, find_arr s1 y = find_arr s y \/ y = e) /\
            meta_same s s1 /\ good 1 s1.
Proof.
  intros G H. unfold new_empty_root in H.
  mbind H e s2 H2.
  destruct (alloc_arr_ok 1 [] _ _ _ G (Forall_nil _) H2) as (G2 & _ & V2 & _).
  destruct (alloc_arr_eff _ _ _ _ H2) as (Ee & N2 & Fe & Oe & One & MS2). clear H2.
  pose proof (fun pf => alloc_node_ok 1 _ _ _ _ G2 pf H) as X. simpl in X. destruct (X V2) as (G3 & _). clear X.
  destruct (alloc_node_eff _ _ _ _ H) as (En & N3 & Fn & On & Oa & MS3).
  exists e. spl; auto; try lia.
  - unfold empty_root. apply rep_unfold. eexists _, [], []. spl; [exact Fn| | | | |]; simpl; auto. rewrite Oa. auto.
  - intros y Ly. split; [rewrite On by lia; apply One|rewrite Oa; apply Oe; lia].
  - intros y. destruct (Pos.eq_dec y e) as [->|Hne]; auto. left. rewrite Oa. apply Oe. auto.
  - eapply meta_same_trans; eauto.
Qed.

Lemma truncate_methods_step rs size m more :
  truncate_methods rs size (m :: more) =
  match method_index rs m with
  | None => truncate_methods rs size more
  | Some idx =>
      match nth_error rs idx with
      | None => truncate_methods rs size more
      | Some root =>
          let size' := (size - Z.of_nat (List.length (routes_of_node root)))%Z in
          if negb (is_removable m)
          then truncate_methods (replace_nth rs idx (empty_root (nth idx common_verbs []))) size' more
          else truncate_methods (remove_nth rs idx) size' more
      end
  end.
Proof. reflexivity. Qed.

Lemma trunc_loop_rep fuel nr : forall methods s l rsl fpsl u s',
  good 1 s -> find_arr s nr = Some l -> reps s l rsl fpsl -> NoDup (List.concat fpsl) -> ~ In nr (List.concat fpsl) ->
  nr < s_next s ->
  trunc_loop fuel nr methods s = Ok (u, s') ->
  exists l' fpsl',
    find_arr s' nr = Some l' /\ reps s' l' (fst (truncate_methods rsl (s_size s) methods)) fpsl' /\
    NoDup (List.concat fpsl') /\ ~ In nr (List.concat fpsl') /\
    s_size s' = snd (truncate_methods rsl (s_size s) methods) /\ good 1 s' /\
    (forall y, y < s_next s -> y <> nr -> same_at s s' y) /\ s_next s <= s_next s' /\
    s_root s' = s_root s /\ s_maxp s' = s_maxp s /\ s_depth s' = s_depth s /\
    (forall y, In y (List.concat fpsl') -> In y (List.concat fpsl) \/ s_next s <= y).
Proof.
  induction methods as [|m more IH]; intros s l rsl fpsl u s' G Hnr Hr ND Nnr Vnr H; simpl trunc_loop in H.
  - apply ret_ok in H. destruct H as [_ ->]. exists l, fpsl. simpl. spl; auto; try lia. intros; split; reflexivity.
  - rewrite truncate_methods_step.
    mbind H idx s0 H0. rewrite (method_index_at_rep _ _ _ _ _ m Hnr Hr) in H0. inversion H0; subst idx s0; clear H0.
    destruct (method_index rsl m) as [i|]; [|eauto].
    mbind H l2 s0 H0. apply get_arr_ok in H0. destruct H0 as [-> Hl2]. assert (l2 = l) by congruence. subst l2.
    mbind H root s0 H0. apply opt_get_ok in H0. destruct H0 as [Hroot ->].
    destruct (all3_nth_a _ _ _ _ _ _ Hr Hroot) as (rootn & fr & Hrootn & Hfr & Hrep). rewrite Hrootn.
    mbind H rts s0 H0. destruct (h_routes_rep _ _ _ _ _ _ _ Hrep H0) as [-> ->]. clear H0.
    cbn [bind bump_size] in H. cbv zeta.
    match type of H with _ ?sm = _ => set (sb := sm) in * end.
    assert (Gb : good 1 sb) by (unfold sb; apply good_set_meta; auto).
    pose proof (good1_wf _ G) as Wf.
    assert (Lall : Forall (V s) (List.concat fpsl)) by (eapply reps_lt; eauto). rewrite Forall_forall in Lall.
    mbind H w1 s1 H1.
    assert (Zb : s_size sb = (s_size s - Z.of_nat (List.length (routes_of_node rootn)))%Z) by (unfold sb; simpl; lia).
    destruct (negb (is_removable m)).
    + (* a common verb: nr[i] = new(node) *)
      mbind H1 nn s2 H2.
      destruct (new_empty_root_rep _ _ _ _ Gb H2) as (e & Rnn & Ee & Enn & N2 & Old2 & Oarr2 & MS2 & G2). clear H2.
      assert (Vnn : V s2 nn) by (unfold V; lia).
      destruct (write_slot_ok 1 _ _ _ _ _ _ G2 (Pos.le_1_l nr) Vnn H1) as (G3 & _).
      destruct (write_slot_eff _ _ _ _ _ _ H1) as (l3 & Hl3 & Li & FW & OW & NW & NxW & MSW). clear H1.
      assert (Nb : s_next sb = s_next s) by reflexivity.
      assert (Hnr2 : find_arr s2 nr = Some l).
      { rewrite (proj2 (Old2 nr ltac:(rewrite Nb; exact Vnr))). exact Hnr. }
      assert (l3 = l) by congruence. subst l3.
      assert (Old3 : forall y, y < s_next s -> y <> nr -> same_at s s1 y).
      { intros y Ly Hne. eapply same_at_trans; [split; reflexivity|]. eapply same_at_trans; [apply Old2; rewrite Nb; auto|].
        split; [apply NW|apply OW; auto]. }
      assert (Rnn1 : rep s1 nn (empty_root (nth i common_verbs [])) [nn; e]).
      { eapply rep_frame; [exact Rnn|]. intros y Hy. split; [apply NW|apply OW]. simpl in Hy. lia. }
      assert (Hr1 : reps s1 (set_nth l i nn) (set_nth rsl i (empty_root (nth i common_verbs []))) (set_nth fpsl i [nn; e])).
      { apply all3_set; auto. eapply reps_frame; [exact Hr|]. intros y Hy. apply Old3.
        - apply Lall. auto. - intros ->. auto. }
      assert (ND1 : NoDup (List.concat (set_nth fpsl i [nn; e]))).
      { eapply NoDup_concat_set_nth; eauto.
        - constructor; [simpl; lia|]. constructor; auto. constructor.
        - intros y [<-|[<-|[]]]; right; intros Hin; apply Lall in Hin; unfold V in Hin; lia. }
      assert (Nnr1 : ~ In nr (List.concat (set_nth fpsl i [nn; e]))).
      { intros Hin. destruct (in_concat_set_nth _ _ _ _ Hin) as [[E|[E|[]]]|Hin']; auto; lia. }
      destruct MS2 as (A1 & A2 & A3 & A4 & A5). destruct MSW as (B1 & B2 & B3 & B4 & B5).
      destruct (IH s1 (set_nth l i nn) _ _ u s' G3 FW Hr1 ND1 Nnr1 ltac:(lia) H)
        as (l' & fpsl' & C1 & C2 & C3 & C4 & C5 & C6 & C7 & C8 & C9 & C10 & C11 & C12).
      exists l', fpsl'. rewrite <- set_nth_replace.
      assert (Zs1 : s_size s1 = (s_size s - Z.of_nat (List.length (routes_of_node rootn)))%Z) by congruence.
      rewrite Zs1 in C2, C5. spl; auto; try congruence; try lia.
      * intros y Ly Hne. eapply same_at_trans; [apply Old3; auto|]. apply C7; auto. lia.
      * unfold sb in *. simpl in *. congruence.
      * unfold sb in *. simpl in *. congruence.
      * unfold sb in *. simpl in *. congruence.
      * intros y Hy. destruct (C12 y Hy) as [Hin|Ly]; [|right; lia].
        destruct (in_concat_set_nth _ _ _ _ Hin) as [[E|[E|[]]]|Hin']; auto; right; lia.
    + (* a custom method: the root is cut out of nr *)
      assert (Fd : Forall (V sb) (del_nth l i)).
      { apply Forall_del_nth. apply (wf_arr _ Wf _ _ Hnr). }
      destruct (write_arr_ok 1 _ _ _ _ _ Gb (Pos.le_1_l nr) Fd H1) as (G3 & _).
      destruct (write_arr_eff _ _ _ _ _ H1) as (_ & FW & OW & NW & NxW & MSW). clear H1.
      assert (Old3 : forall y, y <> nr -> same_at s s1 y).
      { intros y Hne. eapply same_at_trans; [split; reflexivity|]. split; [apply NW|apply OW; auto]. }
      assert (Hr1 : reps s1 (del_nth l i) (del_nth rsl i) (del_nth fpsl i)).
      { eapply reps_frame; [apply all3_del; exact Hr|]. intros y Hy. apply Old3. intros ->. apply Nnr. eapply in_concat_del_nth; eauto. }
      assert (Nnr1 : ~ In nr (List.concat (del_nth fpsl i))) by (intros Hin; apply Nnr; eapply in_concat_del_nth; eauto).
      destruct MSW as (B1 & B2 & B3 & B4 & B5).
      destruct (IH s1 (del_nth l i) _ _ u s' G3 FW Hr1 (NoDup_concat_del_nth _ i ND) Nnr1 ltac:(unfold sb in *; simpl in *; lia) H)
        as (l' & fpsl' & C1 & C2 & C3 & C4 & C5 & C6 & C7 & C8 & C9 & C10 & C11 & C12).
      exists l', fpsl'. rewrite <- del_nth_remove.
      assert (Zs1 : s_size s1 = (s_size s - Z.of_nat (List.length (routes_of_node rootn)))%Z) by congruence.
      rewrite Zs1 in C2, C5. unfold sb in *. simpl in NxW, B1, B3, B4.
      spl; auto; try congruence; try lia.
      * intros y Ly Hne. eapply same_at_trans; [apply Old3; auto|]. apply C7; auto. lia.
      * intros y Hy. destruct (C12 y Hy) as [Hin|Ly]; [|right; lia]. left. eapply in_concat_del_nth; eauto.
Qed.

Lemma new_empty_roots_rep ks : forall s l s1,
  good 1 s -> new_empty_roots ks s = Ok (l, s1) ->
  exists fps, reps s1 l (map empty_root ks) fps /\ NoDup (List.concat fps) /\
    (forall y, In y (List.concat fps) -> s_next s <= y /\ y < s_next s1) /\
    (forall y, y < s_next s -> same_at s s1 y) /\ s_next s <= s_next s1 /\ meta_same s s1 /\ good 1 s1.
Proof.
  induction ks as [|k ks IH]; intros s l s1 G H; simpl in H.
  - apply ret_ok in H. destruct H as [-> ->]. exists []. simpl. spl; auto; try lia;
      try constructor; try (intros y []); try (intros; split; reflexivity); try apply meta_same_refl.
  - mbind H a s2 H2. destruct (new_empty_root_rep _ _ _ _ G H2) as (e & Ra & Ee & Ea & N2 & Old2 & _ & MS2 & G2). clear H2.
    mbind H more s3 H3. destruct (IH _ _ _ G2 H3) as (fps & Rm & NDm & Fm & Old3 & N3 & MS3 & G3). clear H3.
    apply ret_ok in H. destruct H as [-> ->].
    exists ([a; e] :: fps). simpl. spl; auto; try lia.
    + apply (rep_frame s2 s3 (empty_root k) a [a; e] Ra). intros y Hy. apply Old3. simpl in Hy. lia.
    + constructor; [|constructor].
      * intros [E|Hin]; [lia|]. apply Fm in Hin. lia.
      * intros Hin. apply Fm in Hin. lia.
      * auto.
    + intros y [<-|[<-|Hin]]; try lia. apply Fm in Hin. lia.
    + intros y Ly. eapply same_at_trans; [apply Old2; auto|]. apply Old3. lia.
    + eapply meta_same_trans; eauto.
Qed.

Lemma roots_wf_init : roots_wf (map empty_root common_verbs).
Proof.
  assert (K : keys_wf (map nkey (map empty_root common_verbs))).
  { unfold keys_wf. simpl. spl; auto; try constructor; try tauto. }
  destruct (keys_wf_roots_ok _ K) as [RO L]. split; [|split]; auto.
  intros r Hr. simpl in Hr. destruct Hr as [<-|[<-|[<-|[<-|[]]]]]; reflexivity.
Qed.

Lemma truncate_methods_wf methods : forall rs size, roots_wf rs -> roots_wf (fst (truncate_methods rs size methods)).
Proof.
  induction methods as [|m more IH]; intros rs size WF; [exact WF|].
  rewrite truncate_methods_step. destruct (method_index rs m) as [i|] eqn:MI; auto.
  destruct (nth_error rs i) as [root|] eqn:Hroot; auto. cbv zeta.
  destruct (is_removable m) eqn:Erm; simpl negb; cbv iota; apply IH.
  - rewrite <- del_nth_remove. apply roots_wf_del; auto. eapply removable_index; eauto.
  - rewrite <- set_nth_replace. eapply roots_wf_set; eauto.
    destruct WF as (RO & L & RN). cbn [empty_root nkey].
    assert (Li : (i < 4)%nat).
    { destruct (Nat.lt_ge_cases i 4) as [?|Lge]; auto. exfalso.
      destruct (method_index_custom _ _ _ MI Lge) as (r' & Hr' & Hk').
      pose proof (roots_ok_keys rs RO L) as (_ & _ & RM).
      assert (In (nkey r') (skipn 4 (map nkey rs))).
      { rewrite skipn_map. apply in_map. apply (nth_error_In _ (i - 4)). rewrite nth_skipn. replace (4 + (i - 4))%nat with i by lia. auto. }
      apply RM in H. congruence. }
    symmetry. apply (method_index_common _ rs). + apply RO. auto. + auto.
Qed.

Section TruncThm.
Variable evict : N -> list addr -> list addr.

Theorem h_truncate_refines fuel methods s T u s' :
  good 1 s -> trep s T -> roots_wf (t_roots T) ->
  h_truncate fuel methods s = Ok (u, s') ->
  good 1 s' /\ trep s' (truncate T methods) /\ roots_wf (t_roots (truncate T methods)).
Proof.
  intros G TR WF H. apply trep_roots in TR. destruct TR as ((rs & fps & Hrs & Hr & ND & NR) & Zs & Ps & Ds).
  pose proof (good1_wf _ G) as Wf.
  unfold h_truncate in H. unfold truncate.
  destruct methods as [|m ms].
  - mbind H l s1 H1. destruct (new_empty_roots_rep _ _ _ _ G H1) as (fps1 & R1 & ND1 & F1 & Old1 & N1 & MS1 & G1). clear H1.
    mbind H nr s2 H2.
    assert (Vl : Forall (V s1) l).
    { clear -R1 F1. unfold reps in R1. revert R1 F1. generalize (map empty_root common_verbs) as ns. revert fps1.
      induction l as [|x l IH]; intros [|f fps] [|n ns] R F; simpl in R; try tauto; constructor.
      - destruct R as [Rx _]. destruct (rep_head _ _ _ _ Rx) as (t & ->). apply (F x). simpl. auto.
      - destruct R as [_ R]. eapply IH; eauto. intros y Hy. apply F. simpl. apply in_or_app. auto. }
    destruct (alloc_arr_ok 1 _ _ _ _ G1 Vl H2) as (G2 & _ & V2 & _).
    destruct (alloc_arr_eff _ _ _ _ H2) as (Enr & N2 & Fnr & Onr & Onn & MS2). clear H2.
    mbind H w1 s3 H3. destruct (set_root_ok 1 _ _ _ _ G2 V2 H3) as (G3 & _).
    destruct (set_root_eff _ _ _ _ H3) as (HS3 & R3 & Z3 & P3 & D3 & C3). clear H3.
    destruct (put_size_ok 1 _ _ _ _ G3 H) as (G4 & _).
    unfold put_size in H. inversion H; subst u s'; clear H.
    split; auto. split; [|apply roots_wf_init].
    destruct MS1 as (A1 & A2 & A3 & A4 & A5). destruct MS2 as (B1 & B2 & B3 & B4 & B5).
    assert (RR3 : roots_rep s3 (map empty_root common_verbs)).
    { exists l, fps1. spl; auto.
      + rewrite R3. rewrite (proj2 (heap_same_at _ _ nr HS3)). auto.
      + eapply reps_frame; [exact R1|]. intros y Hy. eapply same_at_trans; [|apply heap_same_at; exact HS3].
        split; [apply Onn|apply Onr]. apply F1 in Hy. lia.
      + rewrite R3. intros Hin. apply F1 in Hin. lia. }
    apply trep_roots. simpl. spl; auto; try congruence.
  - mbind H rs' s0 H0. unfold get_roots, bind, get_root, get_arr in H0. unfold find_arr in Hrs. rewrite Hrs in H0.
    inversion H0; subst rs' s0; clear H0. fold (find_arr s (s_root s)) in Hrs.
    mbind H nr s1 H1.
    destruct (wf_arr _ Wf _ _ Hrs) as [VR Frs].
    destruct (alloc_arr_ok 1 _ _ _ _ G Frs H1) as (G1 & _ & V1 & _).
    destruct (alloc_arr_eff _ _ _ _ H1) as (Enr & N1 & Fnr & Onr & Onn & MS1). clear H1.
    assert (Lall : Forall (V s) (List.concat fps)) by (eapply reps_lt; eauto). rewrite Forall_forall in Lall.
    assert (Hr1 : reps s1 rs (t_roots T) fps).
    { eapply reps_frame; [exact Hr|]. intros y Hy. split; [apply Onn|apply Onr]. apply Lall in Hy. unfold V in Hy. lia. }
    assert (Nnr : ~ In nr (List.concat fps)) by (intros Hin; apply Lall in Hin; unfold V in Hin; lia).
    mbind H w1 s2 H2.
    destruct (trunc_loop_rep fuel nr (m :: ms) s1 rs (t_roots T) fps w1 s2 G1 Fnr Hr1 ND Nnr ltac:(lia) H2)
      as (l' & fpsl' & C1 & C2 & C3 & C4 & C5 & C6 & C7 & C8 & C9 & C10 & C11 & C12). clear H2.
    assert (V2 : V s2 nr) by (unfold V in *; lia).
    destruct (set_root_ok 1 _ _ _ _ C6 V2 H) as (G3 & _).
    destruct (set_root_eff _ _ _ _ H) as (HS3 & R3 & Z3 & P3 & D3 & Ch3). clear H.
    destruct MS1 as (A1 & A2 & A3 & A4 & A5).
    rewrite A2, Zs in C2, C5.
    destruct (truncate_methods (t_roots T) (t_size T) (m :: ms)) as [rs'' sz''] eqn:ET. simpl in C2, C5.
    split; auto. split.
    + apply trep_roots. simpl. spl; auto; try congruence.
      exists l', fpsl'. spl; auto.
      * rewrite R3, (proj2 (heap_same_at _ _ nr HS3)). auto.
      * eapply reps_frame; [exact C2|]. intros; apply heap_same_at; auto.
      * rewrite R3. auto.
    + simpl. pose proof (truncate_methods_wf (m :: ms) (t_roots T) (t_size T) WF) as X. rewrite ET in X. exact X.
Qed.

End TruncThm.

(* ================= Part 4: histories refine the pure histories ================= *)
Lemma good_weaken m s : good m s -> good 1 s.
Proof.
  intros [W M Wr]. constructor; auto; try lia.
  eapply Forall_impl; [|exact Wr]. intros a [L (o & Ho & La)]. split; [lia|]. exists o. split; auto. lia.
Qed.

Lemma rep_closed m s : closed m s -> forall n a fp, a < m -> rep s a n fp -> Forall (fun x => x < m) fp.
Proof.
  intros [C1 C2]. induction n as [k r kids IH] using node_ind2. intros a fp La H.
  apply rep_unfold in H. destruct H as (o & ch & fps & Ho & Hk & Hr & Hch & Hkids & ->).
  pose proof (C1 _ _ La Ho) as LA. pose proof (C2 _ _ LA Hch) as Fch.
  constructor; auto. constructor; auto.
  clear Ho Hch. unfold reps in Hkids. revert ch fps Hkids Fch.
  induction IH as [|kd kids Hkd Hrest IHk]; intros [|c ch] [|f fps] Hkids Fch; simpl in *; try tauto; auto.
  destruct Hkids as [H1 H2]. inversion Fch; subst. apply Forall_app. split; eauto.
Qed.

Definition prep (s : st) (p : pubt) (T : txn) : Prop :=
  (exists rs fps, find_arr s (p_root p) = Some rs /\ reps s rs (t_roots T) fps /\
                  NoDup (List.concat fps) /\ ~ In (p_root p) (List.concat fps)) /\
  p_size p = t_size T /\ p_maxp p = t_maxparams T /\ p_depth p = t_depth T.

Lemma prep_ext m s s' p T : closed m s -> p_root p < m -> ext m s s' -> prep s p T -> prep s' p T.
Proof.
  intros C L E ((rs & fps & Hrs & Hr & ND & NR) & Z). split; auto.
  exists rs, fps. spl; auto.
  - rewrite (e_arr _ _ _ E) by auto. auto.
  - pose proof (proj2 C _ _ L Hrs) as Frs.
    clear Hrs NR ND. unfold reps in *. revert fps Hr Frs. generalize (t_roots T) as ns.
    induction rs as [|a rs IH]; intros [|n ns] [|f fps] Hr Frs; simpl in *; try tauto.
    destruct Hr as [H1 H2]. inversion Frs; subst. split; [|apply IH; auto].
    pose proof (rep_closed m s C _ _ _ H3 H1) as Ff. rewrite Forall_forall in Ff.
    eapply rep_frame; [exact H1|]. intros x Hx. split; [apply (e_node _ _ _ E)|apply (e_arr _ _ _ E)]; auto.
Qed.

Lemma prep_begin s p c T : prep s p T -> trep (begin_st s p c) T.
Proof.
  intros ((rs & fps & Hrs & Hr & ND & NR) & Z & P & D). apply trep_roots. simpl. spl; auto.
  exists rs, fps. spl; auto. eapply reps_frame; [exact Hr|]. intros; split; reflexivity.
Qed.

Lemma trep_pub s T : trep s T -> prep (reset_wr s) (pub_of s) T.
Proof.
  intros TR. apply trep_roots in TR. destruct TR as ((rs & fps & Hrs & Hr & ND & NR) & Z & P & D).
  split; [|simpl; auto]. exists rs, fps. simpl. spl; auto. eapply reps_frame; [exact Hr|]. intros; split; reflexivity.
Qed.

Lemma prep_same_heap s s' p T : s_nodes s' = s_nodes s -> s_arrs s' = s_arrs s -> prep s p T -> prep s' p T.
Proof.
  intros Hn Ha ((rs & fps & Hrs & Hr & ND & NR) & Z). split; auto. exists rs, fps. spl; auto.
  - unfold find_arr in *. rewrite Ha. auto.
  - eapply reps_frame; [exact Hr|]. intros x _. unfold same_at, find_node, find_arr. rewrite Hn, Ha. auto.
Qed.

Lemma trep_same_heap s s' T :
  s_nodes s' = s_nodes s -> s_arrs s' = s_arrs s -> s_root s' = s_root s -> s_size s' = s_size s ->
  s_maxp s' = s_maxp s -> s_depth s' = s_depth s -> trep s T -> trep s' T.
Proof.
  intros Hn Ha Hr0 Hz Hp Hd TR. apply trep_roots in TR. destruct TR as ((rs & fps & Hrs & Hr & ND & NR) & Z & P & D).
  apply trep_roots. spl; try congruence. exists rs, fps. rewrite Hr0. spl; auto.
  - unfold find_arr in *. rewrite Ha. auto.
  - eapply reps_frame; [exact Hr|]. intros x _. unfold same_at, find_node, find_arr. rewrite Hn, Ha. auto.
Qed.

Lemma upd_key f rt n rest n' : upd f rt n rest = Some n' -> nkey n' = nkey n /\ nroute n' = nroute n.
Proof.
  destruct f as [|f]; [discriminate|]. destruct rest as [|c rest0]; [discriminate|]. destruct n as [k r kids].
  rewrite upd_step. destruct (find_child_from 0 c kids) as [i|]; [|discriminate].
  destruct (nth_error kids i) as [c1|]; [|discriminate].
  destruct (upd_child f rt c1 (c :: rest0)); [|discriminate]. simpl. intros H; inversion H; subst. auto.
Qed.

Section World.
Variable evict : N -> list addr -> list addr.
Hypothesis evict_sub : forall c w a, In a (evict c w) -> In a w.
Variable fuel : nat.

(* one operation of the open transaction against the pure operation *)
Lemma run_op_refines o s T res s' :
  good 1 s -> trep s T -> roots_wf (t_roots T) ->
  run_op evict fuel o s = Ok (res, s') ->
  good 1 s' /\ trep s' (fst (fst (pure_op T o))) /\ roots_wf (t_roots (fst (fst (pure_op T o)))) /\
  res = (snd (fst (pure_op T o)), snd (pure_op T o)).
Proof.
  intros G TR WF H. destruct o as [m pat valid psl hs rid|m pat valid psl hs rid|m pat valid|ms]; simpl in H; simpl pure_op.
  - destruct (negb (valid_method_handle m) || negb valid)%bool.
    + apply ret_ok in H. destruct H as [-> ->]. simpl. auto.
    + mbind H out s1 H1.
      destruct (h_insert_refines evict evict_sub m (mk_ri pat rid psl hs) s T out s1 G TR WF H1) as (G1 & P).
      destruct (insert T m (mk_ri pat rid psl hs)) as [T'|ex|ps|].
      * destruct P as (-> & TR' & WF'). apply ret_ok in H. destruct H as [-> ->]. simpl. auto.
      * destruct P as (-> & TR'). apply ret_ok in H. destruct H as [-> ->]. simpl. auto.
      * destruct P as (a & cn & fpa & -> & Ra & Rc & TR').
        mbind H rts s2 H2. destruct (h_routes_rep _ _ _ _ _ _ _ Ra H2) as [-> ->].
        apply ret_ok in H. destruct H as [-> ->]. simpl. unfold route_conflict in Rc. rewrite Rc. auto.
      * destruct P.
  - destruct (is_nil m || negb valid)%bool.
    + apply ret_ok in H. destruct H as [-> ->]. simpl. auto.
    + mbind H b s1 H1.
      destruct (h_update_ok evict evict_sub 1 _ _ _ _ _ G H1) as (G1 & _).
      pose proof (h_update_refines evict evict_sub m (mk_ri pat rid psl hs) s T b s1 G TR (proj1 WF) H1) as P.
      apply ret_ok in H. destruct H as [-> ->].
      unfold update in *. destruct (method_index (t_roots T) m) as [i|]; [|destruct P as (-> & TR'); simpl; auto].
      destruct (nth_error (t_roots T) i) as [root|] eqn:Hroot; [|destruct P as (-> & TR'); simpl; auto].
      destruct (upd _ _ root _) as [root'|] eqn:EU; [|destruct P as (-> & TR'); simpl; auto].
      destruct P as (-> & TR'). simpl. spl; auto.
      destruct (upd_key _ _ _ _ _ EU) as [K1 K2]. rewrite <- set_nth_replace. eapply roots_wf_set; eauto.
      rewrite K2. destruct WF as (_ & _ & RN). apply RN. eapply nth_error_In; eauto.
  - destruct (is_nil m || negb valid)%bool.
    + apply ret_ok in H. destruct H as [-> ->]. simpl. auto.
    + mbind H r s1 H1.
      destruct (h_remove_refines evict evict_sub m pat s T r s1 G TR WF H1) as (G1 & P).
      destruct (remove T m pat) as [T' rr|].
      * destruct P as (-> & TR' & WF'). apply ret_ok in H. destruct H as [-> ->]. simpl. auto.
      * destruct P as (-> & TR'). apply ret_ok in H. destruct H as [-> ->]. simpl. auto.
  - mbind H u s1 H1. destruct (h_truncate_refines fuel ms s T u s1 G TR WF H1) as (G1 & TR' & WF').
    apply ret_ok in H. destruct H as [-> ->]. simpl. auto.
Qed.

End World.

Definition wrel (w : world) (q : pworld) : Prop :=
  (exists m, winv m w) /\
  prep (w_st w) (w_pub w) (q_pub q) /\ roots_wf (t_roots (q_pub q)) /\
  (if w_open w then exists T, q_cur q = Some T /\ trep (w_st w) T /\ roots_wf (t_roots T) else q_cur q = None).

Section World2.
Variable evict : N -> list addr -> list addr.
Hypothesis evict_sub : forall c w a, In a (evict c w) -> In a w.
Variable fuel : nat.

Lemma step_refines w q e w' out rm :
  wrel w q -> step evict fuel true w e = (w', out, rm) -> out <> WPanic -> out <> WOof ->
  exists q', pstep q e = (q', out, rm) /\ wrel w' q'.
Proof.
  intros ((m & I) & PR & WFp & CUR) H NP NO.
  destruct (step_inv evict evict_sub fuel m w e I) as (m' & Lm & I' & E & _).
  rewrite H in I', E. simpl in I', E.
  pose proof (wi_good _ _ I) as Gm. pose proof (good_weaken _ _ Gm) as G1.
  pose proof (wi_closed _ _ I) as Cl. pose proof (wi_pub _ _ I) as Lp.
  assert (PR' : prep (w_st w') (w_pub w) (q_pub q)) by (eapply prep_ext; eauto).
  destruct w as [s pub opn handed]. simpl in *.
  destruct e as [| | |o|o| | |]; simpl in H.
  - (* EBegin *)
    destruct opn.
    + inversion H; subst. destruct CUR as (T & HT & TR & WFT). exists q. simpl. rewrite HT. split; auto.
      split; [eauto|]. simpl. spl; auto. eauto.
    + inversion H; subst. simpl. rewrite CUR. eexists. split; [reflexivity|].
      split; [eauto|]. simpl. spl; auto; try (eapply prep_same_heap; [| |exact PR]; reflexivity).
      exists (q_pub q). spl; auto. apply prep_begin. auto.
  - (* ECommit *)
    destruct opn.
    + inversion H; subst. destruct CUR as (T & HT & TR & WFT). simpl. rewrite HT. eexists. split; [reflexivity|].
      split; [eauto|]. simpl. spl; auto. apply trep_pub. auto.
    + inversion H; subst. simpl. rewrite CUR. eexists. split; [reflexivity|]. split; [eauto|]. simpl. spl; auto.
  - (* EAbort *)
    inversion H; subst. simpl. eexists. split; [reflexivity|]. split; [eauto|]. simpl. spl; auto.
  - (* EOp *)
    destruct opn.
    + destruct CUR as (T & HT & TR & WFT). simpl. rewrite HT.
      destruct (run_op evict fuel o s) as [[[out0 rm0] s1]| |] eqn:R.
      * inversion H; subst. destruct (run_op_refines evict evict_sub fuel o s T _ _ G1 TR WFT R) as (G' & TR' & WF' & Eres).
        destruct (pure_op T o) as [[T' out'] rm']. simpl in *. inversion Eres; subst.
        eexists. split; [reflexivity|]. split; [eauto|]. simpl. spl; auto. eauto.
      * inversion H; subst. congruence.
      * inversion H; subst. congruence.
    + inversion H; subst. simpl. rewrite CUR. eexists. split; [reflexivity|]. split; [eauto|]. simpl. spl; auto.
  - (* EDirect *)
    destruct opn.
    + inversion H; subst. destruct CUR as (T & HT & TR & WFT). simpl. rewrite HT. eexists. split; [reflexivity|].
      split; [eauto|]. simpl. spl; auto. eauto.
    + simpl. rewrite CUR.
      assert (G0 : good 1 (begin_st s pub (direct_cache o))).
      { apply (good_weaken m). apply good_begin; auto. }
      pose proof (prep_begin s pub (direct_cache o) _ PR) as TR0.
      destruct (run_op evict fuel o (begin_st s pub (direct_cache o))) as [[[out0 rm0] s1]| |] eqn:R.
      * destruct (run_op_refines evict evict_sub fuel o _ (q_pub q) _ _ G0 TR0 WFp R) as (G' & TR' & WF' & Eres).
        destruct (pure_op (q_pub q) o) as [[T' out'] rm']. simpl in *. inversion Eres; subst out0 rm0.
        destruct out'; inversion H; subst; (eexists; split; [reflexivity|]); (split; [eauto|]); simpl; spl; auto.
        apply trep_pub. auto.
      * inversion H; subst. congruence.
      * inversion H; subst. congruence.
  - (* ESnapIter *)
    destruct opn.
    + inversion H; subst. destruct CUR as (T & HT & TR & WFT). simpl. rewrite HT. eexists. split; [reflexivity|].
      split; [eauto|]. simpl. spl; auto. exists T. spl; auto. eapply trep_same_heap; [| | | | | |exact TR]; reflexivity.
    + inversion H; subst. simpl. rewrite CUR. eexists. split; [reflexivity|]. split; [eauto|]. simpl. spl; auto.
  - (* ESnapClone *)
    destruct opn.
    + inversion H; subst. destruct CUR as (T & HT & TR & WFT). simpl. rewrite HT. eexists. split; [reflexivity|].
      split; [eauto|]. simpl. spl; auto. exists T. spl; auto. eapply trep_same_heap; [| | | | | |exact TR]; reflexivity.
    + inversion H; subst. simpl. rewrite CUR. eexists. split; [reflexivity|]. split; [eauto|]. simpl. spl; auto.
  - (* EObsPub *)
    inversion H; subst. simpl. eexists. split; [reflexivity|]. split; [eauto|]. simpl. spl; auto.
Qed.

End World2.

(* ---------- whole histories ---------- *)
Section World3.
Variable evict : N -> list addr -> list addr.
Hypothesis evict_sub : forall c w a, In a (evict c w) -> In a w.
Variable fuel : nat.

(* what the callers saw, step by step *)
Fixpoint trace (w : world) (es : list ev) : list (wout * option N) :=
  match es with
  | [] => []
  | e :: r => let '(w', out, rm) := step evict fuel true w e in (out, rm) :: trace w' r
  end.
Fixpoint ptrace (q : pworld) (es : list ev) : list (wout * option N) :=
  match es with
  | [] => []
  | e :: r => let '(q', out, rm) := pstep q e in (out, rm) :: ptrace q' r
  end.

(* the model never hit a Go panic (nil dereference, failed index) nor ran out of fuel *)
Definition clean (w : world) (es : list ev) : Prop :=
  Forall (fun o => fst o <> WPanic /\ fst o <> WOof) (trace w es).

Lemma run_refines es : forall w q, wrel w q -> clean w es ->
  wrel (run evict fuel true w es) (prun q es) /\ trace w es = ptrace q es.
Proof.
  induction es as [|e r IH]; intros w q R C; simpl; auto.
  unfold clean in C. simpl in C.
  destruct (step evict fuel true w e) as [[w' out] rm] eqn:S. inversion C as [|? ? [NP NO] C']; subst. simpl in NP, NO.
  destruct (step_refines evict evict_sub fuel w q e w' out rm R S NP NO) as (q' & PS & R').
  rewrite PS. simpl. destruct (IH w' q' R' C') as [X Y]. split; auto. f_equal. auto.
Qed.

End World3.

Lemma prep_init : prep init_st (pub_of init_st) empty_txn.
Proof.
  pose proof init_run as H.
  mbind H l s1 H1. destruct (new_empty_roots_rep _ _ _ _ good_empty H1) as (fps1 & R1 & ND1 & F1 & Old1 & N1 & MS1 & G1). clear H1.
  mbind H nr s2 H2.
  destruct (alloc_arr_eff _ _ _ _ H2) as (Enr & N2 & Fnr & Onr & Onn & MS2). clear H2.
  destruct (set_root_eff _ _ _ _ H) as (HS3 & R3 & Z3 & P3 & D3 & C3). clear H.
  split; [|vm_compute; auto].
  exists l, fps1. change (p_root (pub_of init_st)) with (s_root init_st). change (t_roots empty_txn) with (map empty_root common_verbs).
  spl; auto.
  - rewrite R3. rewrite (proj2 (heap_same_at _ _ nr HS3)). auto.
  - eapply reps_frame; [exact R1|]. intros y Hy. eapply same_at_trans; [|apply heap_same_at; exact HS3].
    split; [apply Onn|apply Onr]. apply F1 in Hy. lia.
  - rewrite R3. intros Hin. apply F1 in Hin. lia.
Qed.

Lemma wrel_init : wrel init_world init_pworld.
Proof.
  split; [exists (s_next init_st); apply winv_init|]. simpl. spl; auto.
  - apply prep_init. - apply roots_wf_init.
Qed.

(* ---------- abs: the function reads what rep relates ---------- *)
Lemma abs_of_rep s : forall n a fp f, rep s a n fp -> (node_height n <= f)%nat -> abs_node f s a = Some n.
Proof.
  induction n as [k r kids IH] using node_ind2. intros a fp f H L.
  change (node_height (Node k r kids)) with (S (kids_height kids)) in L.
  destruct f as [|f]; [lia|]. apply rep_unfold in H. destruct H as (o & ch & fps & Ho & Hk & Hr & Hch & Hkids & _).
  simpl. rewrite Ho, Hch.
  assert (X : (fix go (l : list addr) : option (list node) :=
                 match l with
                 | [] => Some []
                 | x :: t => match abs_node f s x, go t with Some n, Some r => Some (n :: r) | _, _ => None end
                 end) ch = Some kids).
  { assert (L' : (kids_height kids <= f)%nat) by lia. clear L Ho Hch.
    unfold reps in Hkids. revert ch fps Hkids L'. induction IH as [|kd kids Hkd Hrest IHk]; intros [|c ch] [|fc fps] Hkids L'; simpl in *; try tauto.
    destruct Hkids as [H1 H2]. rewrite (Hkd c fc f H1) by lia. rewrite (IHk ch fps H2) by lia. reflexivity. }
  rewrite X. rewrite Hk, Hr. reflexivity.
Qed.

Definition roots_height (rs : list node) : nat := kids_height rs.

Lemma abs_list_of_reps s f : forall l ns fps, reps s l ns fps -> (roots_height ns <= f)%nat -> abs_list f s l = Some ns.
Proof.
  unfold reps, roots_height. induction l as [|a l IH]; intros [|n ns] [|fp fps] H L; simpl in *; try tauto.
  destruct H as [H1 H2]. rewrite (abs_of_rep s n a fp f H1) by lia. rewrite (IH ns fps H2) by lia. reflexivity.
Qed.

Lemma prep_abs s p T f : prep s p T -> (roots_height (t_roots T) <= f)%nat ->
  abs_txn f s (p_root p) (p_size p) (p_maxp p) (p_depth p) = Some T.
Proof.
  intros ((rs & fps & Hrs & Hr & _) & Z & P & D) L. unfold abs_txn, abs. rewrite Hrs.
  rewrite (abs_list_of_reps s f rs _ fps Hr L). destruct T; simpl in *. congruence.
Qed.

Lemma trep_abs s T f : trep s T -> (roots_height (t_roots T) <= f)%nat ->
  abs_txn f s (s_root s) (s_size s) (s_maxp s) (s_depth s) = Some T.
Proof.
  intros TR L. apply trep_roots in TR. destruct TR as ((rs & fps & Hrs & Hr & _) & Z & P & D).
  unfold abs_txn, abs. rewrite Hrs. rewrite (abs_list_of_reps s f rs _ fps Hr L). destruct T; simpl in *. congruence.
Qed.

(* snapshot-taking events are invisible to the pure history *)
Lemma prun_strip es : forall q, prun q (strip_snaps es) = prun q es.
Proof.
  induction es as [|e r IH]; intros q; simpl; auto.
  destruct e; simpl; auto; try (rewrite IH; reflexivity).
Qed.

(* outcomes of a history with the entries of the snapshot-taking events dropped *)
Fixpoint strip_tr {A} (es : list ev) (tr : list A) : list A :=
  match es, tr with
  | e :: r, x :: t => if is_snap e then strip_tr r t else x :: strip_tr r t
  | _, _ => []
  end.

Lemma pstep_snap q e : is_snap e = true -> fst (fst (pstep q e)) = q.
Proof. destruct e; simpl; try discriminate; auto. Qed.

Lemma ptrace_strip es : forall q, ptrace q (strip_snaps es) = strip_tr es (ptrace q es).
Proof.
  induction es as [|e r IH]; intros q; [reflexivity|].
  unfold strip_snaps. cbn [filter]. fold (strip_snaps r).
  cbn [ptrace strip_tr]. destruct (pstep q e) as [[q' out] rm] eqn:E.
  destruct (is_snap e) eqn:Es; cbn [negb].
  - pose proof (pstep_snap q e Es) as X. rewrite E in X. simpl in X. subst q'. apply IH.
  - cbn [ptrace]. rewrite E. f_equal. apply IH.
Qed.

Definition is_some_txn (o : option txn) : bool := match o with Some _ => true | None => false end.

(* cow_refines_pure, for whole histories: what the heap model computes is what Tree.v computes *)
Theorem cow_refines_pure_hist evict fuel es :
  evict_ok evict -> clean evict fuel init_world es ->
  let w := run evict fuel true init_world es in
  let q := prun init_pworld es in
  trace evict fuel init_world es = ptrace init_pworld es /\
  w_open w = is_some_txn (q_cur q) /\
  exists f0, forall f, (f0 <= f)%nat ->
    abs_pub f w = Some (q_pub q) /\
    match q_cur q with Some T => abs_cur f w = Some T | None => True end.
Proof.
  intros Hev C w q.
  destruct (run_refines evict Hev fuel es init_world init_pworld wrel_init C) as [(_ & PR & _ & CUR) TRC].
  fold w q in PR, CUR. split; auto.
  destruct (w_open w) eqn:Eo.
  - destruct CUR as (T & HT & TR & _). rewrite HT. split; auto.
    exists (Nat.max (roots_height (t_roots (q_pub q))) (roots_height (t_roots T))). intros f Lf. split.
    + unfold abs_pub. apply prep_abs; auto. lia.
    + unfold abs_cur. apply trep_abs; auto. lia.
  - rewrite CUR. split; auto.
    exists (roots_height (t_roots (q_pub q))). intros f Lf. split; auto. unfold abs_pub. apply prep_abs; auto.
Qed.

(* the converse clause of C03: taking snapshots (anywhere) changes neither what later calls answer nor the states they produce *)
Theorem snapshots_do_not_affect_writes_thm evict fuel es :
  evict_ok evict -> clean evict fuel init_world es -> clean evict fuel init_world (strip_snaps es) ->
  let w1 := run evict fuel true init_world es in
  let w2 := run evict fuel true init_world (strip_snaps es) in
  trace evict fuel init_world (strip_snaps es) = strip_tr es (trace evict fuel init_world es) /\
  w_open w1 = w_open w2 /\
  exists T f0, forall f, (f0 <= f)%nat ->
    abs_pub f w1 = Some T /\ abs_pub f w2 = Some T /\
    (w_open w1 = true -> exists Tc, abs_cur f w1 = Some Tc /\ abs_cur f w2 = Some Tc).
Proof.
  intros Hev C1 C2 w1 w2.
  destruct (cow_refines_pure_hist evict fuel es Hev C1) as (T1 & O1 & f1 & A1).
  destruct (cow_refines_pure_hist evict fuel (strip_snaps es) Hev C2) as (T2 & O2 & f2 & A2).
  fold w1 in O1, A1. fold w2 in O2, A2. rewrite prun_strip in *.
  split; [rewrite T2, T1; apply ptrace_strip|]. split; [congruence|].
  exists (q_pub (prun init_pworld es)), (Nat.max f1 f2). intros f Lf.
  destruct (A1 f ltac:(lia)) as [P1 Q1]. destruct (A2 f ltac:(lia)) as [P2 Q2]. spl; auto.
  intros Ho. rewrite Ho in O1. destruct (q_cur (prun init_pworld es)) as [Tc|]; [|discriminate]. eauto.
Qed.

(* non-vacuity: a concrete clean history with snapshots inside a write transaction *)
Definition refine_hist : list ev :=
  [EDirect (WHandle m_get (S2B "/a/b") true 0 0 1); EBegin; EOp (WHandle m_get (S2B "/a/c") true 0 0 2); ESnapIter;
   EOp (WDelete m_get (S2B "/a/b") true); ESnapClone; EOp (WUpdate m_get (S2B "/a/c") true 0 0 3);
   EOp (WHandle (S2B "FOO") (S2B "x.y/z") true 0 3 4); EOp (WDelete (S2B "FOO") (S2B "x.y/z") true); ECommit;
   EDirect (WTruncate [m_get])].

Example clean_example : clean (lru_evict 2) 20 init_world refine_hist /\ clean (lru_evict 2) 20 init_world (strip_snaps refine_hist).
Proof. split; unfold clean; vm_compute; repeat constructor; simpl; discriminate. Qed.
