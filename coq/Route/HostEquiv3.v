(* HostEquiv3 — C09/C08 on hostname trees, part 1 (agent p-host2).
   Part A: WF_hroot_ok — every method root of a well-formed forest (WFDef.WF_txn) satisfies
           HostEquiv.hroot_ok (the link missing in M1_eq_Spec_host_partial).
   Part B: M2ht — the structural DFS over the host part with the FIRST trailing-slash candidate
           (M2h of HostEquiv + M2t of TsrEquiv below the "/" child), and M1 (lbd) = M2ht with the
           trailing-slash registers tracked exactly.
   Part C: what a candidate of M2ht reports (route + names), and M2ht on q++"/" against M2h on q. *)
From FoxBase Require Import Bytes.
From FoxRoute Require Import Node Lookup HostPort Spec SpecFacts Tree MapSpec Corr WFDef TreeWF TreeWF2 TreeMap TreeMap2
  StaticEquiv StaticEquiv2 EndToEnd TsrEquiv TsrEquiv2 HostEquiv HostEquiv2.
From Coq Require Import Sorting.Sorted Permutation.
Open Scope char_scope.
Local Notation starts_with := Node.starts_with.

(* ================================================================== *)
(* Part A — WF_txn => hroot_ok                                          *)
(* ================================================================== *)
Lemma vstep_h_mono c h st : fst (vstep (h, st) c) = true -> h = true.
Proof.
  destruct h; [reflexivity|]. destruct st; simpl;
    repeat match goal with |- context [if ?b then _ else _] => destruct b end; simpl; auto.
Qed.

Lemma vrun_h_mono : forall k h st, fst (fold_left vstep k (h, st)) = true -> h = true.
Proof.
  induction k as [|c k IH]; intros h st H; [exact H|].
  cbn [fold_left] in H. destruct (vstep (h, st) c) as [h1 st1] eqn:E.
  apply IH in H. subst h1. apply (vstep_h_mono c h st). rewrite E. reflexivity.
Qed.

(* a '/' or a '*' read in the hostname part ends the hostname part or is illegal *)
Lemma vstep_host_sep c st : c = "/" \/ c = "*" ->
  fst (vstep (true, st) c) = false \/ snd (vstep (true, st) c) = VBad.
Proof. intros [-> | ->]; destruct st; simpl; auto. Qed.

Lemma host_stretch_nosep : forall k st, fst (fold_left vstep k (true, st)) = true ->
  snd (fold_left vstep k (true, st)) <> VBad -> forall c, In c k -> c <> "/" /\ c <> "*".
Proof.
  induction k as [|d k IH]; intros st Hh Hb c Hc; [destruct Hc|].
  cbn [fold_left] in Hh, Hb. destruct (vstep (true, st) d) as [h1 st1] eqn:E.
  pose proof (vrun_h_mono k h1 st1 Hh) as ->.
  destruct Hc as [->|Hc]; [|exact (IH st1 Hh Hb c Hc)].
  assert (Hsep : c <> "/" /\ c <> "*" \/ (c = "/" \/ c = "*")).
  { destruct (Ascii.eqb_spec c "/"); [right; auto|]. destruct (Ascii.eqb_spec c "*"); [right; auto|]. left; auto. }
  destruct Hsep as [H|H]; [exact H|]. exfalso.
  destruct (vstep_host_sep c st H) as [H1|H1]; rewrite E in H1; simpl in H1; [discriminate|].
  subst st1. rewrite vbad_abs in Hb. apply Hb. reflexivity.
Qed.

Lemma render_tok_in t kt x : In t kt -> In x (render_tok t) -> In x (render kt).
Proof. intros Ht Hx. unfold render. apply in_flat_map. exists t. auto. Qed.

(* the key of a node that lies wholly in the hostname part consists of host tokens *)
Lemma host_key_tokens pre k : closed pre = true -> closed (pre ++ k) = true ->
  hostpart (pre ++ k) = true -> forallb htok_ok (tokenize k) = true.
Proof.
  intros Hp Hk Hh. destruct (closed_render pre k Hp Hk) as [Hr Htok].
  unfold hostpart in Hh. pose proof (closed_nonbad _ Hk) as Hnb. rewrite vrun_app in Hh, Hnb.
  destruct (vrun pre) as [h st] eqn:Ep. pose proof (vrun_h_mono k h st Hh) as ->.
  pose proof (host_stretch_nosep k st Hh Hnb) as Hns.
  apply forallb_forall. intros t Ht. rewrite forallb_forall in Htok. specialize (Htok t Ht).
  destruct t as [d|nm|nm]; simpl in *.
  - rewrite Htok. simpl. apply negb_true_iff. destruct (Ascii.eqb_spec d "/") as [->|]; [|reflexivity].
    exfalso. destruct (Hns "/") as [H _]; [|congruence]. rewrite <- Hr. apply (render_tok_in (TStatic "/") _ _ Ht). left; reflexivity.
  - exact Htok.
  - exfalso. destruct (Hns "*") as [_ H]; [|congruence]. rewrite <- Hr. apply (render_tok_in (TCatch nm) _ _ Ht). left; reflexivity.
Qed.

Lemma WF_node_hostb : forall n pre, WF_node pre n -> closed pre = true -> hostpart pre = true ->
  starts_with "/" (nkey n) = false -> hostb n = true.
Proof.
  induction n as [k r ch IH] using node_ind2. intros pre Hwf Hpre Hhp Hns. cbn [nkey] in Hns.
  inversion Hwf as [? ? ? ? H1 H2 H3 H4 H5 H6 H7]; subst.
  pose proof (H3 Hhp Hns) as Hh. cbn [hostb].
  assert (r = None) as ->.
  { destruct r as [rt|]; [|reflexivity]. destruct (H5 rt eq_refl) as [_ Hf]. congruence. }
  rewrite (host_key_tokens pre k Hpre H2 Hh). cbn [andb].
  apply forallb_forall. intros c Hc. rewrite Forall_forall in IH, H7.
  destruct (starts_with "/" (nkey c)) eqn:E; [reflexivity|]. cbn [orb].
  apply (IH c Hc (pre ++ k)); auto.
Qed.

Theorem WF_root_hroot_ok root : WF_root root -> hroot_ok root.
Proof.
  intros Hwf. pose proof (WF_root_pwf root Hwf) as Hpw. destruct Hwf as (Hr & Hs & Hf).
  split; [eapply sorted_fb_heads; eauto|]. split; [exact Hpw|].
  intros c Hc. rewrite Forall_forall in Hf. destruct (starts_with "/" (nkey c)) eqn:E; [left; reflexivity|right].
  apply (WF_node_hostb c []); auto.
Qed.

Theorem WF_hroot_ok_thm t root : WF_txn t -> In root (t_roots t) -> hroot_ok root /\ nroute root = None.
Proof.
  intros [(_ & _ & _ & Hr) _] Hin. rewrite Forall_forall in Hr. specialize (Hr root Hin).
  split; [apply WF_root_hroot_ok; exact Hr|exact (proj1 Hr)].
Qed.

(* ================================================================== *)
(* Part B — M2ht, and M1 (lbd) = M2ht                                   *)
(* ================================================================== *)
Section KHT.
  Variable K : bytes -> tres.
  Fixpoint kht (kt : list token) (h : bytes) : tres :=
    match kt with
    | [] => K h
    | t :: kt' =>
      match h with
      | [] => TN None
      | c :: h' =>
        match t with
        | TStatic d => if Ascii.eqb d c && sbyte c then kht kt' h' else TN None
        | TParam nm =>
            match seg is_dot h with
            | [] => TN None
            | v => twith [(nm, v)] (kht kt' (skipn (List.length v) h))
            end
        | TCatch _ => TN None
        end
      end
    end.
End KHT.

Lemma kht_ext K K' : (forall q, K q = K' q) -> forall kt h, kht K kt h = kht K' kt h.
Proof.
  intros HK. induction kt as [|t kt IH]; intros h; cbn [kht]; auto.
  destruct h as [|c h']; auto. destruct t as [d|nm|nm]; auto.
  - destruct (Ascii.eqb d c && sbyte c); auto.
  - destruct (seg is_dot (c :: h')); auto. rewrite IH. reflexivity.
Qed.

(* sl = the request path p ends with '/'.  When the host is consumed exactly at the end of a key,
   the path is matched by M2t (TsrEquiv) below the "/" child, from a fresh state (parent = None) *)
Fixpoint m2ht (sl : bool) (p : bytes) (n : node) (h : bytes) : tres :=
  match n with
  | Node k r ch =>
    let try := fix go (cc : ascii) (l : list node) (q : bytes) {struct l} : tres :=
                 match l with
                 | [] => TN None
                 | x :: l' => if starts_with cc (nkey x) then m2ht sl p x q else go cc l' q
                 end in
    let K := fun rest =>
               match rest with
               | [] => match first_child "/" ch with Some c => m2t sl None c p | None => TN None end
               | c :: _ => talt (try c ch rest) (try "{" ch rest)
               end in
    kht K (tokenize k) h
  end.

Definition m2ht_child (sl : bool) (p : bytes) (cc : ascii) (ch : list node) (h : bytes) : tres :=
  match first_child cc ch with Some x => m2ht sl p x h | None => TN None end.

Definition Khtof (sl : bool) (p : bytes) (n : node) (rest : bytes) : tres :=
  match rest with
  | [] => match first_child "/" (nchildren n) with Some c => m2t sl None c p | None => TN None end
  | c :: _ => talt (m2ht_child sl p c (nchildren n) rest) (m2ht_child sl p "{" (nchildren n) rest)
  end.

Lemma m2ht_eq sl p k r ch h : m2ht sl p (Node k r ch) h = kht (Khtof sl p (Node k r ch)) (tokenize k) h.
Proof.
  cbn [m2ht]. apply kht_ext. intros q. unfold Khtof. cbn [nchildren]. destruct q as [|c q']; auto.
  assert (forall cc, (fix go (cc : ascii) (l : list node) (q : bytes) {struct l} : tres :=
                        match l with
                        | [] => TN None
                        | x :: l' => if starts_with cc (nkey x) then m2ht sl p x q else go cc l' q
                        end) cc ch (c :: q') = m2ht_child sl p cc ch (c :: q')) as H.
  { intros cc. unfold m2ht_child. induction ch as [|x ch IH]; simpl; auto. destruct (starts_with cc (nkey x)); auto. }
  rewrite !H. reflexivity.
Qed.

Lemma m2ht_kht sl p x h : m2ht sl p x h = kht (Khtof sl p x) (tokenize (nkey x)) h.
Proof. destruct x as [k r ch]. apply m2ht_eq. Qed.

Definition m2ht_root (sl : bool) (p : bytes) (root : node) (h : bytes) : tres :=
  match h with
  | [] => TN None
  | c :: _ => talt (m2ht_child sl p c (nchildren root) h) (m2ht_child sl p "{" (nchildren root) h)
  end.

(* lookupByPath from a fresh state below any prefix (TsrEquiv.lbp_eq_m2t is stated for pre = []) *)
Theorem lbp_eq_m2t_pre pre t path lazy fuel : pwf pre t -> path <> [] -> m2_fuel path t <= fuel ->
  tsr_res (lookup_by_path fuel t path lazy [] []) lazy (m2t (has_suffix_slash path) None t path).
Proof.
  intros Hwf Hne Hf. unfold lookup_by_path, m2_fuel in *.
  destruct path as [|c path]; [congruence|].
  pose proof (walk_m2t (has_suffix_slash (c :: path)) (List.length (c :: path)) t pre Hwf None lazy (c :: path) fuel
                (init_st t [] []) (Nat.le_refl _) eq_refl eq_refl I) as H.
  simpl cm in H. simpl skipn in H.
  specialize (H ltac:(simpl; lia) eq_refl eq_refl ltac:(lia)).
  destruct (m2t (has_suffix_slash (c :: path)) None t (c :: path)) as [l vals|cd]; cbn [tres_ok tsr_res] in *.
  - exact H.
  - destruct H as (f' & s' & -> & Hf' & Hs & _ & _ & Hu). simpl in Hs.
    destruct f' as [|f']; [lia|]. rewrite back_nil by exact Hs.
    unfold upd, rg in Hu. simpl in Hu. destruct cd as [[l v]|].
    + destruct Hu as (l' & Hu & Hl). exists l', (ps s'). split; [|exact Hl].
      destruct lazy; simpl in *; congruence.
    + exists (ps s'). congruence.
Qed.

Section HostWalkT.
  Variables host path : bytes.
  Local Notation L := (List.length path).
  Local Notation sl := (has_suffix_slash path).
  Hypothesis Hnoslash : forall c, In c host -> c <> "/".
  Hypothesis Hpne : path <> [].

  (* the run reaches Backtrack without a direct hit; the registers were updated by candidate c *)
  Definition dbackst (lazy : bool) (fuel : nat) (ph : dphase) (s : st) (cost : nat) (c : tcand) : Prop :=
    exists fuel' s', lbd fuel host path lazy ph s = lbd fuel' host path lazy DBack s' /\ fuel <= fuel' + cost /\
                     sks s' = sks s /\ extends (ps s) (ps s') /\ pkc s' = 0 /\ upd lazy (ps s) (rg s) c (rg s').

  Definition dtres_ok (lazy : bool) (fuel : nat) (ph : dphase) (s : st) (cost : nat) (r : tres) : Prop :=
    match r with
    | TD l vals => found_as (lbd fuel host path lazy ph s) l (addp lazy (ps s) vals)
    | TN c => dbackst lazy fuel ph s cost c
    end.

  Lemma dtres_step lazy fuel ph s cost fuel1 ph1 s1 cost1 k v0 r :
    lbd fuel host path lazy ph s = lbd fuel1 host path lazy ph1 s1 ->
    dtres_ok lazy fuel1 ph1 s1 cost1 r ->
    sks s1 = sks s -> ps s1 = addp lazy (ps s) v0 -> rg s1 = rg s -> fuel <= fuel1 + k -> cost1 + k <= cost ->
    dtres_ok lazy fuel ph s cost (twith v0 r).
  Proof.
    intros He Hr Hsk Hps Hrg Hf Hc. destruct r as [l vals|c]; cbn [twith dtres_ok] in *.
    - destruct Hr as (l' & tps' & E & Er). exists l', tps'. rewrite He, E, Hps, addp_addp. auto.
    - destruct Hr as (f' & s' & E & Hf' & Hs' & Hx & Hk & Hu). exists f', s'.
      split; [rewrite He; exact E|]. repeat split; auto; try congruence; try lia.
      + eapply extends_trans; [|exact Hx]. rewrite Hps. apply extends_addp_self.
      + apply upd_cwith. rewrite <- Hps, <- Hrg. exact Hu.
  Qed.

  Lemma dtres_step0 lazy fuel ph s cost fuel1 ph1 s1 cost1 k r :
    lbd fuel host path lazy ph s = lbd fuel1 host path lazy ph1 s1 ->
    dtres_ok lazy fuel1 ph1 s1 cost1 r ->
    sks s1 = sks s -> ps s1 = ps s -> rg s1 = rg s -> fuel <= fuel1 + k -> cost1 + k <= cost ->
    dtres_ok lazy fuel ph s cost r.
  Proof.
    intros He Hr Hsk Hps Hrg Hf Hc. rewrite <- (twith_nil r).
    eapply dtres_step; eauto. rewrite addp_nil. exact Hps.
  Qed.

  Lemma dbackst_after lazy fuel s cost :
    Nat.eqb (cm s) (List.length host) && Nat.eqb (cmn s) (List.length (nkey (cur s))) = false ->
    1 <= fuel -> 1 <= cost -> dbackst lazy fuel DAfter s cost None.
  Proof.
    intros Hno Hf Hc. destruct fuel as [|f]; [lia|].
    exists f, (zero_cnt s). rewrite (dafter_fail f host path lazy s Hno).
    repeat split; auto; try lia; [apply extends_refl|apply upd_none].
  Qed.

  Definition hwalk_okt (y : node) : Prop :=
    forall lazy fuel s,
    cur s = y -> cm s < List.length host -> pkc s = 0 -> pcnt s = List.length (ps s) ->
    hcost L y <= fuel ->
    dtres_ok lazy fuel DWalk s (hcost L y) (m2ht sl path y (skipn (cm s) host)).

  Lemma thalts_tfirst c ch q :
    talt (m2ht_child sl path c ch q) (m2ht_child sl path "{" ch q) =
    tfirst (map (fun x => m2ht sl path x q) (halts c ch)).
  Proof.
    unfold m2ht_child, halts.
    destruct (first_child c ch), (first_child "{" ch); simpl; rewrite ?tcons_none, ?talt_none_r, ?talt_none_l, ?tcons_none; reflexivity.
  Qed.

  Lemma dpop_alts_t lazy parent cmv ps0 sks0 : forall es fuel s2,
    sks s2 = map (fun e => {| sk_n := parent; sk_path := cmv; sk_pcnt := List.length ps0; sk_child := fst e |}) es ++ sks0 ->
    (forall e, In e es -> nth_error (nchildren parent) (fst e) = Some (snd e) /\ hwalk_okt (snd e)) ->
    extends ps0 (ps s2) -> pkc s2 = 0 -> cmv < List.length host -> es_hcost path es <= fuel ->
    match tfirst (map (fun e => m2ht sl path (snd e) (skipn cmv host)) es) with
    | TD l v2 => found_as (lbd fuel host path lazy DBack s2) l (addp lazy ps0 v2)
    | TN c => exists fuel' s3, lbd fuel host path lazy DBack s2 = lbd fuel' host path lazy DBack s3 /\
                fuel <= fuel' + es_hcost path es /\ sks s3 = sks0 /\ extends ps0 (ps s3) /\ pkc s3 = 0 /\
                upd lazy ps0 (rg s2) c (rg s3)
    end.
  Proof.
    induction es as [|e es IH]; intros fuel s2 Hsk Hes Hx Hk Hcm Hf.
    - simpl. exists fuel, s2. simpl in Hsk.
      split; [reflexivity|]. split; [lia|]. split; [exact Hsk|]. split; [exact Hx|]. split; [exact Hk|]. apply upd_none.
    - cbn [map tfirst es_hcost] in *.
      destruct (Hes e (or_introl eq_refl)) as [Hnth Hwalk].
      destruct fuel as [|f]; [lia|].
      set (sk := {| sk_n := parent; sk_path := cmv; sk_pcnt := List.length ps0; sk_child := fst e |}) in *.
      set (rest := map (fun e0 => {| sk_n := parent; sk_path := cmv; sk_pcnt := List.length ps0; sk_child := fst e0 |}) es ++ sks0) in *.
      assert (Hpop : lbd (S f) host path lazy DBack s2 = lbd f host path lazy DWalk (dpopped s2 sk rest (snd e))).
      { apply dback_pop; auto. simpl. apply extends_len. exact Hx. }
      set (s3 := dpopped s2 sk rest (snd e)) in *.
      assert (Hps3 : ps s3 = ps0) by exact Hx.
      pose proof (Hwalk lazy f s3 eq_refl Hcm Hk) as Hw. rewrite Hps3 in Hw.
      specialize (Hw eq_refl ltac:(lia)). change (cm s3) with cmv in Hw.
      destruct (m2ht sl path (snd e) (skipn cmv host)) as [l v2|c1]; cbn [talt dtres_ok] in *.
      + destruct Hw as (l' & tps' & E & Er). exists l', tps'. rewrite Hpop, E, Hps3. auto.
      + destruct Hw as (f4 & s4 & He4 & Hf4 & Hsk4 & Hx4 & Hk4 & Hu4).
        change (sks s3) with rest in Hsk4. rewrite Hps3 in Hx4, Hu4. change (rg s3) with (rg s2) in Hu4.
        specialize (IH f4 s4 Hsk4 (fun e0 H0 => Hes e0 (or_intror H0)) Hx4 Hk4 Hcm ltac:(lia)).
        destruct (tfirst (map (fun e0 => m2ht sl path (snd e0) (skipn cmv host)) es)) as [l v2|c2]; cbn [tcons].
        * destruct IH as (l' & tps' & E & Er). exists l', tps'. rewrite Hpop, He4, E. auto.
        * destruct IH as (f5 & s5 & He5 & Hf5 & Hsk5 & Hx5 & Hk5 & Hu5).
          exists f5, s5. split; [rewrite Hpop, He4; exact He5|]. repeat split; auto; try lia.
          eapply upd_cor; eauto.
  Qed.

  Definition hsel_okt (n : node) (Csel : nat) : Prop :=
    forall lazy fuel s',
    cur s' = n -> cmn s' = List.length (nkey n) -> cm s' <= List.length host ->
    pcnt s' = List.length (ps s') -> Csel <= fuel ->
    dtres_ok lazy fuel DSelect s' Csel (Khtof sl path n (skipn (cm s') host)).

  Lemma hsel_okt_node n pre :
    NoDup (heads (nchildren n)) -> Forall (pwf pre) (nchildren n) ->
    (forall x, In x (nchildren n) -> starts_with "/" (nkey x) = false -> hwalk_okt x) ->
    hsel_okt n (hsel_cost L (nchildren n)).
  Proof.
    intros Hnd Hpw Hwalk lazy f2 s' Hcur Hcmn' Hcm' Hpc' Hf2.
    set (ch := nchildren n) in *. unfold hsel_cost in *. fold ch in Hf2.
    rewrite Forall_forall in Hpw.
    destruct (skipn (cm s') host) as [|c rest'] eqn:Hrest.
    - (* the host ends with this key: the path below the "/" child *)
      apply skipn_nil_len in Hrest. cbn [Khtof]. fold ch.
      assert (Hcmeq : cm s' = List.length host) by lia.
      destruct f2 as [|[|[|f4]]]; try lia.
      pose proof (dselect_ge (S f4) host path lazy s' Hrest) as Hsel.
      destruct (first_child "/" ch) as [c0|] eqn:Ec0.
      + pose proof (first_child_in _ _ _ Ec0) as [Hin0 _].
        assert (Hfc : first_child "/" (nchildren (cur s')) = Some c0) by (rewrite Hcur; exact Ec0).
        pose proof (dafter_path f4 host path lazy s' c0 Hcmeq ltac:(rewrite Hcur; exact Hcmn') Hfc) as Haft.
        assert (Hfu : m2_fuel path c0 <= f4).
        { unfold m2_fuel. pose proof (pcost_in L c0 ch Hin0). lia. }
        pose proof (lbp_eq_m2t_pre pre c0 path lazy f4 (Hpw c0 Hin0) Hpne Hfu) as Hlbp.
        destruct (m2t sl None c0 path) as [l vals|[[l vals]|]]; cbn [tsr_res dtres_ok] in *.
        * destruct Hlbp as (l' & tps' & E & Er). exists l', (tps s').
          rewrite Hsel, Haft, E, addp_path. auto.
        * destruct Hlbp as (l' & ps' & E & Er). rewrite E in Haft.
          exists f4, (if tsr s' then zero_cnt s' else set_tsr lazy (zero_cnt s') l' (ps s' ++ addp lazy [] vals)).
          split; [rewrite Hsel; exact Haft|].
          unfold upd, rg. destruct (tsr s') eqn:Ets; cbn [sks ps pkc tsr tn tps zero_cnt set_tsr]; rewrite ?Ets.
          -- repeat split; auto; try lia. apply extends_refl.
          -- repeat split; auto; try lia; [apply extends_refl|]. exists l'. split; [|exact Er].
             destruct lazy; reflexivity.
        * destruct Hlbp as (ps' & E). rewrite E in Haft.
          exists f4, (zero_cnt s'). split; [rewrite Hsel; exact Haft|].
          repeat split; auto; try lia; [apply extends_refl|apply upd_none].
      + exists f4, (zero_cnt s'). split.
        * rewrite Hsel. apply dafter_noslash. rewrite Hcur. exact Ec0.
        * repeat split; auto; try lia; [apply extends_refl|apply upd_none].
    - (* the host continues: children, in the order static, parameter *)
      pose proof (skipn_cons_nth _ _ _ _ Hrest) as (Hnc & _ & Hlt').
      assert (Hcs : c <> "/") by (apply Hnoslash; eapply nth_error_In; eauto).
      cbn [Khtof]. fold ch.
      destruct f2 as [|f3]; [lia|].
      destruct (dselect_alts f3 host path lazy s' c Hlt' Hnc) as (es & Hmap & Hnth & Hsel).
      { rewrite Hcur. exact Hnd. }
      rewrite Hcur in Hmap, Hnth. fold ch in Hmap, Hnth.
      rewrite thalts_tfirst, <- Hmap, map_map.
      assert (Hes : forall e, In e es -> nth_error (nchildren n) (fst e) = Some (snd e) /\ hwalk_okt (snd e)).
      { intros e He0. pose proof (Hnth e He0) as Hn. split; [exact Hn|].
        assert (In (snd e) (halts c ch)) as Hh by (rewrite <- Hmap; apply in_map; exact He0).
        destruct (halts_host c ch (snd e) Hcs Hh) as [Hi1 Hi2]. apply Hwalk; auto. }
      assert (Hescost : es_hcost path es <= 2 * hcost_sum L ch).
      { apply es_hcost_le.
        - intros e He0. eapply nth_error_In. apply Hnth; exact He0.
        - rewrite <- (map_length snd), Hmap. apply (halts_len path). }
      destruct es as [|e1 rest].
      + cbn [map tfirst].
        apply (dtres_step0 lazy (S f3) DSelect s' _ f3 DAfter s' 1 2 (TN None)); auto; try lia.
        cbn [dtres_ok]. apply dbackst_after; try lia.
        replace (Nat.eqb (cm s') (List.length host)) with false by (symmetry; apply Nat.eqb_neq; lia). reflexivity.
      + cbn [map tfirst].
        set (sd := dgo (dpush_all s' (cur s') (map fst rest)) (snd e1)) in *.
        destruct (dpush_all_core s' (cur s') (map fst rest)) as (Hq1 & Hq3 & Hq4 & Hq5 & Hq6 & Hq7 & Hq8 & Hq9).
        destruct (Hes e1 (or_introl eq_refl)) as [_ Hwalk1].
        cbn [es_hcost] in Hescost.
        pose proof (Hwalk1 lazy f3 sd eq_refl) as H1.
        change (cm sd) with (cm (dpush_all s' (cur s') (map fst rest))) in H1.
        change (ps sd) with (ps (dpush_all s' (cur s') (map fst rest))) in H1.
        change (pcnt sd) with (pcnt (dpush_all s' (cur s') (map fst rest))) in H1.
        rewrite Hq3, Hq5, Hq7 in H1.
        specialize (H1 Hlt' eq_refl Hpc' ltac:(lia)). rewrite Hrest in H1.
        assert (Hrgd : rg sd = rg s').
        { unfold rg. change (tsr sd) with (tsr (dpush_all s' (cur s') (map fst rest))).
          change (tn sd) with (tn (dpush_all s' (cur s') (map fst rest))). rewrite Hq8, Hq9.
          f_equal. clear. induction (map fst rest); simpl; auto. }
        assert (Hpsd : ps sd = ps s') by (change (ps sd) with (ps (dpush_all s' (cur s') (map fst rest))); congruence).
        destruct (m2ht sl path (snd e1) (c :: rest')) as [l v2|c1]; cbn [talt dtres_ok] in *.
        * destruct H1 as (l' & tps' & E & Er). exists l', tps'. rewrite Hsel, E, Hpsd. auto.
        * destruct H1 as (f4 & s2 & He2 & Hf4 & Hsk2 & Hx2 & Hk2 & Hu2). rewrite Hrgd, Hpsd in Hu2. rewrite Hpsd in Hx2.
          change (sks sd) with (sks (dpush_all s' (cur s') (map fst rest))) in Hsk2. rewrite dpush_all_sks in Hsk2.
          pose proof (dpop_alts_t lazy (cur s') (cm s') (ps s') (sks s') rest f4 s2) as Hpop.
          assert (Hsk2' : sks s2 = map (fun e => {| sk_n := cur s'; sk_path := cm s'; sk_pcnt := List.length (ps s');
                                                     sk_child := fst e |}) rest ++ sks s').
          { rewrite Hsk2, map_map. unfold dentry. rewrite Hpc'. reflexivity. }
          specialize (Hpop Hsk2').
          assert (Hes' : forall e0, In e0 rest -> nth_error (nchildren (cur s')) (fst e0) = Some (snd e0) /\ hwalk_okt (snd e0)).
          { intros e0 H0. rewrite Hcur. apply Hes. right. exact H0. }
          specialize (Hpop Hes' Hx2 Hk2 ltac:(lia) ltac:(lia)).
          rewrite Hrest in Hpop.
          destruct (tfirst (map (fun e => m2ht sl path (snd e) (c :: rest')) rest)) as [l v2|c2]; cbn [tcons dtres_ok].
          -- destruct Hpop as (l' & tps' & E & Er). exists l', tps'. rewrite Hsel, He2, E. auto.
          -- destruct Hpop as (f5 & s5 & He5 & Hf5 & Hsk5 & Hx5 & Hk5 & Hu5).
             exists f5, s5. split; [rewrite Hsel, He2; exact He5|].
             repeat split; auto; try congruence; try lia.
             eapply upd_cor; eauto.
  Qed.

  Lemma hkey_walk_t n Csel : hsel_okt n Csel ->
    forall kt done lazy s fuel,
      cur s = n -> nkey n = render (done ++ kt) ->
      forallb ptok_ok done = true -> forallb htok_ok kt = true ->
      cmn s = List.length (render done) -> pkc s = cnt_wild done -> pcnt s = List.length (ps s) ->
      cm s <= List.length host -> hkcost Csel kt <= fuel ->
      dtres_ok lazy fuel (DInner (cmn s)) s (hkcost Csel kt) (kht (Khtof sl path n) kt (skipn (cm s) host)).
  Proof.
    intros Hsel. induction kt as [|t kt IH]; intros done lazy s fuel Hcur Hk Hokd Hokt Hcmn Hpkc Hpc Hcm Hf.
    - (* key consumed *)
      cbn [kht]. unfold hkcost in *. destruct fuel as [|f]; [simpl in Hf; lia|].
      assert (Hex : lbd (S f) host path lazy (DInner (cmn s)) s = lbd f host path lazy DSelect s).
      { apply dinner_exit. right. rewrite Hcur, Hk, app_nil_r, Hcmn. lia. }
      pose proof (Hsel lazy f s Hcur) as Hs.
      specialize (Hs ltac:(rewrite Hk, app_nil_r; exact Hcmn) Hcm Hpc ltac:(simpl in Hf; lia)).
      eapply (dtres_step0 lazy (S f) _ s _ f DSelect s Csel 1); fin.
    - assert (Hklen : List.length (nkey (cur s)) = List.length (render done) + List.length (render (t :: kt)))
        by (rewrite Hcur, Hk, render_app, app_length; reflexivity).
      pose proof (render_cons_len t kt) as Hrl. pose proof (render_tok_len_pos t) as Htl.
      assert (Hk6 : hkcost Csel (t :: kt) = 6 + hkcost Csel kt) by (unfold hkcost; simpl; lia).
      cbn [forallb] in Hokt. apply andb_prop in Hokt. destruct Hokt as [Hokt1 Hokt2].
      destruct (skipn (cm s) host) as [|c p'] eqn:Ep.
      + (* host exhausted inside the key *)
        cbn [kht]. apply skipn_nil_len in Ep.
        destruct fuel as [|[|[|f]]]; try lia.
        eapply (dtres_step0 lazy _ _ s _ f DAfter s 1 3 (TN None)).
        * rewrite dinner_exit by (left; exact Ep). rewrite dselect_ge by exact Ep. reflexivity.
        * cbn [dtres_ok]. apply dbackst_after; try lia. apply (cmn_lt_nodone host path). lia.
        * reflexivity.
        * reflexivity.
        * reflexivity.
        * lia.
        * lia.
      + pose proof (skipn_cons_nth _ _ _ _ Ep) as (Hpc0 & Hp' & Hlt).
        assert (Hkey : nth_error (nkey (cur s)) (cmn s) = hd_error (render (t :: kt))).
        { rewrite Hcur, Hk, render_app, Hcmn. apply nth_error_app_len. }
        assert (Hptk : forallb ptok_ok kt = true) by (apply forallb_htok_ptok; exact Hokt2).
        assert (Htokall : forallb tok_ok (done ++ t :: kt) = true).
        { rewrite forallb_app, (forallb_ptok_tok _ Hokd). cbn [forallb andb].
          rewrite (ptok_tok _ (htok_ptok _ Hokt1)). apply forallb_ptok_tok. exact Hptk. }
        assert (Hkc : nkey (cur s) = render (done ++ t :: kt)) by (rewrite Hcur; exact Hk).
        destruct t as [d|nm|nm]; [| |discriminate].
        * (* static byte *)
          simpl in Hkey. cbn [kht].
          assert (Hsd : sbyte d = true) by (simpl in Hokt1; apply andb_prop in Hokt1; tauto).
          destruct fuel as [|f]; [lia|].
          pose proof (dinner_static_step f host path lazy (cmn s) s d c Hkey Hpc0 Hsd) as Hstep.
          destruct (Ascii.eqb d c && sbyte c) eqn:E.
          -- assert (Hr1 : List.length (render (done ++ [TStatic d])) = S (List.length (render done)))
               by (rewrite render_app, app_length; simpl; lia).
             assert (Hcw : cnt_wild (done ++ [TStatic d]) = cnt_wild done).
             { unfold cnt_wild. rewrite filter_app, app_length. simpl. lia. }
             assert (IH' := IH (done ++ [TStatic d]) lazy (adv s 1) f).
             rewrite <- app_assoc in IH'. simpl app in IH'.
             assert (Hd1 : forallb ptok_ok (done ++ [TStatic d]) = true)
               by (rewrite forallb_app, Hokd; simpl; rewrite Hsd; reflexivity).
             specialize (IH' Hcur Hk Hd1 Hokt2).
             specialize (IH' ltac:(change (cmn (adv s 1)) with (S (cmn s)); rewrite Hr1; lia)
                             ltac:(change (pkc (adv s 1)) with (pkc s); rewrite Hcw; exact Hpkc) Hpc
                             ltac:(change (cm (adv s 1)) with (S (cm s)); lia) ltac:(lia)).
             change (cm (adv s 1)) with (S (cm s)) in IH'. rewrite Hp' in IH'.
             change (cmn (adv s 1)) with (S (cmn s)) in IH'.
             eapply (dtres_step0 lazy (S f) _ s _ f _ (adv s 1) _ 1); fin.
          -- eapply (dtres_step0 lazy (S f) _ s _ f DAfter s 1 1 (TN None)); fin.
             cbn [dtres_ok]. apply dbackst_after; try lia. apply (cm_lt_nodone host path). exact Hlt.
        * (* named parameter *)
          simpl in Hkey.
          destruct (param_info s done nm kt Hkc) as (prm & Hprm & Hpk & Hadv); auto.
          destruct fuel as [|f]; [lia|].
          pose proof (dinner_param_step f host path lazy (cmn s) s c prm Hkey Hpc0 Hprm) as Hstep.
          rewrite Hadv, Hpk, Ep in Hstep.
          pose proof (index_byte_seg_dot (c :: p')) as Hseg.
          cbn [kht].
          assert (Hgen : forall cm', cm' = cm s + List.length (seg is_dot (c :: p')) ->
                    seg is_dot (c :: p') <> [] ->
                    List.length (seg is_dot (c :: p')) <= List.length (c :: p') ->
                    slice host (cm s) cm' = seg is_dot (c :: p') ->
                    lbd (S f) host path lazy (DInner (cmn s)) s =
                    lbd f host path lazy (DInner (cmn s + (List.length nm + 2)))
                      (pstate lazy s cm' (List.length nm + 2) nm (slice host (cm s) cm')) ->
                    dtres_ok lazy (S f) (DInner (cmn s)) s (hkcost Csel (TParam nm :: kt))
                      match seg is_dot (c :: p') with
                      | [] => TN None
                      | a :: l => twith [(nm, a :: l)] (kht (Khtof sl path n) kt (skipn (List.length (a :: l)) (c :: p')))
                      end).
          { intros cm' Hcm' Hvne Hvlen Hslice Hst. clear Hseg.
            destruct (seg is_dot (c :: p')) as [|v0 vv] eqn:Ev; [congruence|]. set (v := v0 :: vv) in *.
            rewrite Hslice in Hst. set (s1 := pstate lazy s cm' (List.length nm + 2) nm v) in *.
            assert (Hr1 : List.length (render (done ++ [TParam nm])) = List.length (render done) + (List.length nm + 2)).
            { rewrite render_app, app_length. f_equal. change (render [TParam nm]) with (("{" :: nm ++ ["}"]) ++ []).
              rewrite app_nil_r. cbn [List.length]. rewrite app_length. simpl. lia. }
            assert (Hcw : cnt_wild (done ++ [TParam nm]) = S (cnt_wild done)).
            { unfold cnt_wild. rewrite filter_app, app_length. simpl. lia. }
            assert (Hlenp : List.length (c :: p') = List.length host - cm s) by (rewrite <- Ep; apply skipn_length).
            assert (IH' := IH (done ++ [TParam nm]) lazy s1 f).
            rewrite <- app_assoc in IH'. simpl app in IH'.
            assert (Hd1 : forallb ptok_ok (done ++ [TParam nm]) = true)
              by (rewrite forallb_app, Hokd; cbn [forallb]; rewrite (htok_ptok _ Hokt1); reflexivity).
            specialize (IH' Hcur Hk Hd1 Hokt2).
            specialize (IH' ltac:(change (cmn s1) with (cmn s + (List.length nm + 2)); rewrite Hr1; lia)
                            ltac:(change (pkc s1) with (S (pkc s)); rewrite Hcw, Hpkc; reflexivity)).
            assert (Hpc1 : pcnt s1 = List.length (ps s1)).
            { unfold s1, pstate; cbn [pcnt ps]. destruct lazy; auto. rewrite app_length. simpl. lia. }
            specialize (IH' Hpc1 ltac:(change (cm s1) with cm'; lia) ltac:(lia)).
            change (cm s1) with cm' in IH'.
            assert (Hsk : skipn cm' host = skipn (List.length v) (c :: p')).
            { rewrite <- Ep, skipn_skipn'. f_equal. lia. }
            rewrite Hsk in IH'.
            eapply (dtres_step lazy (S f) _ s _ f _ s1 _ 1 [(nm, v)]); fin.
            }
          destruct (index_byte (c :: p') ".") as [[|dd]|] eqn:Eidx.
          -- (* empty label *)
             destruct Hseg as (Hs1 & _ & _). rewrite Hs1. cbn [firstn].
             eapply (dtres_step0 lazy (S f) _ s _ f DAfter s 1 1 (TN None)); fin.
             cbn [dtres_ok]. apply dbackst_after; try lia. apply (cm_lt_nodone host path). exact Hlt.
          -- destruct Hseg as (Hs1 & Hs2 & Hs3). cbv zeta in Hstep.
             apply (Hgen (cm s + S dd)); auto.
             ++ rewrite Hs1. simpl. discriminate.
             ++ lia.
             ++ unfold slice. rewrite Ep, Hs1. f_equal. lia.
          -- cbv zeta in Hstep.
             assert (Hlenp : List.length (c :: p') = List.length host - cm s) by (rewrite <- Ep; apply skipn_length).
             apply (Hgen (List.length host)); auto.
             ++ rewrite Hseg, Hlenp. lia.
             ++ rewrite Hseg. discriminate.
             ++ rewrite Hseg. lia.
             ++ unfold slice. rewrite Ep, Hseg, <- Hlenp. apply firstn_all.
  Qed.

  Lemma hwalk_m2ht : forall n pre, pwf pre n -> hostb n = true -> hwalk_okt n.
  Proof.
    induction n as [k r ch IH] using node_ind'. intros pre Hwf Hhb.
    pose proof (pwf_inv _ _ _ _ Hwf) as (kt & Hne & Hk & Hok & Hr & Hnd & Hch).
    destruct (hostb_inv _ _ _ Hhb) as (Hrn & Hht & Hsplit).
    rewrite Forall_forall in IH.
    assert (Hwalk : forall x, In x ch -> starts_with "/" (nkey x) = false -> hwalk_okt x).
    { intros x Hx Hns. rewrite Forall_forall in Hch. apply (IH x Hx (pre ++ k)); auto.
      destruct (Hsplit x Hx) as [H|H]; [congruence|exact H]. }
    pose proof (hsel_okt_node (Node k r ch) (pre ++ k) Hnd Hch Hwalk) as Hsel. cbn [nchildren] in Hsel.
    intros lazy fuel s Hcur Hlt Hpkc Hpc Hfuel.
    rewrite hcost_eq in *.
    assert (Htk : tokenize k = kt) by (rewrite Hk; apply tokenize_render; eapply kt_ok_tok; eauto).
    rewrite Htk in *.
    destruct fuel as [|f1]; [lia|].
    pose proof (dwalk_lt f1 host path lazy s Hlt) as Hw.
    set (s0 := reset_cmn s) in *.
    pose proof (hkey_walk_t (Node k r ch) _ Hsel kt [] lazy s0 f1) as Hkw.
    simpl app in Hkw.
    specialize (Hkw Hcur Hk eq_refl Hht eq_refl Hpkc Hpc
                    ltac:(change (cm s0) with (cm s); lia) ltac:(lia)).
    change (cm s0) with (cm s) in Hkw. change (cmn s0) with 0 in Hkw.
    rewrite m2ht_eq, Htk.
    eapply (dtres_step0 lazy (S f1) DWalk s _ f1 _ s0 _ 1); [exact Hw|exact Hkw|reflexivity|reflexivity|reflexivity|lia|lia].
  Qed.
End HostWalkT.

(* what lookupByDomain returns: the node, the tsr flag, params or tsrParams *)
Theorem lbd_eq_m2ht host path root lazy fuel :
  nohslash host -> hroot_ok root -> host <> [] -> path <> [] -> hroot_fuel path root <= fuel ->
  tsr_res (lookup_by_domain fuel root host path lazy [] []) lazy (m2ht_root (has_suffix_slash path) path root host).
Proof.
  intros Hns (Hnd & Hpw & Hsplit) Hne Hpne Hf. unfold hroot_fuel in Hf.
  destruct host as [|h0 hrest]; [congruence|]. unfold m2ht_root. set (host := h0 :: hrest) in *.
  set (ch := nchildren root) in *.
  destruct (lbd_top_alts fuel root h0 hrest path lazy [] [] Hnd) as (es & Hmap & Hnth & Htop).
  fold host in Htop. fold ch in Hmap, Hnth.
  assert (Hh0 : h0 <> "/") by (apply Hns; left; reflexivity).
  rewrite (thalts_tfirst path), <- Hmap, map_map.
  rewrite Forall_forall in Hpw.
  assert (Hes : forall e, In e es -> nth_error (nchildren root) (fst e) = Some (snd e) /\ hwalk_okt host path (snd e)).
  { intros e He0. pose proof (Hnth e He0) as Hn. split; [exact Hn|].
    assert (In (snd e) (halts h0 ch)) as Hh by (rewrite <- Hmap; apply in_map; exact He0).
    destruct (halts_host h0 ch (snd e) Hh0 Hh) as [Hi1 Hi2].
    apply (hwalk_m2ht host path Hns Hpne (snd e) []); [apply Hpw; exact Hi1|].
    destruct (Hsplit (snd e) Hi1) as [H|H]; [congruence|exact H]. }
  assert (Hescost : es_hcost path es <= 2 * hcost_sum (List.length path) ch).
  { apply (es_hcost_le path ch es).
    - intros e He0. eapply nth_error_In. apply Hnth; exact He0.
    - rewrite <- (map_length snd), Hmap. apply (halts_len path). }
  destruct es as [|e1 rest].
  - cbn [map tfirst tsr_res]. rewrite Htop. exists []. reflexivity.
  - cbn [map tfirst].
    set (s0 := init_st root [] []) in *.
    set (sd := dgo (dpush_all s0 root (map fst rest)) (snd e1)) in *.
    destruct (dpush_all_core s0 root (map fst rest)) as (Hq1 & Hq3 & Hq4 & Hq5 & Hq6 & Hq7 & Hq8 & Hq9).
    destruct (Hes e1 (or_introl eq_refl)) as [_ Hwalk1].
    cbn [es_hcost] in Hescost.
    pose proof (Hwalk1 lazy fuel sd eq_refl) as H1.
    change (cm sd) with (cm (dpush_all s0 root (map fst rest))) in H1.
    change (ps sd) with (ps (dpush_all s0 root (map fst rest))) in H1.
    change (pcnt sd) with (pcnt (dpush_all s0 root (map fst rest))) in H1.
    rewrite Hq3, Hq5, Hq7 in H1. change (cm s0) with 0 in H1. change (ps s0) with (@nil kv) in H1.
    change (pcnt s0) with 0 in H1.
    specialize (H1 ltac:(simpl; lia) eq_refl eq_refl ltac:(lia)). cbn [skipn] in H1.
    assert (Hpsd : ps sd = []) by (change (ps sd) with (ps (dpush_all s0 root (map fst rest))); rewrite Hq7; reflexivity).
    assert (Hrgd : rg sd = (false, None, [])).
    { unfold rg. change (tsr sd) with (tsr (dpush_all s0 root (map fst rest))).
      change (tn sd) with (tn (dpush_all s0 root (map fst rest))). rewrite Hq8, Hq9.
      change (tsr s0) with false. change (tn s0) with (@None node). f_equal.
      clear. induction (map fst rest); simpl; auto. }
    destruct (m2ht (has_suffix_slash path) path (snd e1) host) as [l v2|c1]; cbn [talt dtres_ok tsr_res] in *.
    + destruct H1 as (l' & tps' & E & Er). exists l', tps'. rewrite Htop, E, Hpsd. auto.
    + destruct H1 as (f4 & s2 & He2 & Hf4 & Hsk2 & Hx2 & Hk2 & Hu2). rewrite Hrgd, Hpsd in Hu2. rewrite Hpsd in Hx2.
      change (sks sd) with (sks (dpush_all s0 root (map fst rest))) in Hsk2. rewrite dpush_all_sks in Hsk2.
      pose proof (dpop_alts_t host path lazy root 0 [] [] rest f4 s2) as Hpop.
      assert (Hsk2' : sks s2 = map (fun e => {| sk_n := root; sk_path := 0; sk_pcnt := List.length (@nil kv);
                                                 sk_child := fst e |}) rest ++ []).
      { rewrite Hsk2, map_map. reflexivity. }
      specialize (Hpop Hsk2' (fun e0 H0 => Hes e0 (or_intror H0)) Hx2 Hk2 ltac:(simpl; lia) ltac:(lia)).
      cbn [skipn] in Hpop.
      destruct (tfirst (map (fun e => m2ht (has_suffix_slash path) path (snd e) host) rest)) as [l v2|c2]; cbn [tcons tsr_res].
      * destruct Hpop as (l' & tps' & E & Er). exists l', tps'. rewrite Htop, He2, E. auto.
      * destruct Hpop as (f5 & s5 & He5 & Hf5 & Hsk5 & Hx5 & Hk5 & Hu5).
        destruct f5 as [|f5]; [lia|].
        rewrite Htop, He2, He5, (dback_nil f5 host path lazy s5 Hsk5).
        pose proof (upd_cor lazy [] _ _ _ _ _ Hu2 Hu5) as Hu. unfold upd, rg in Hu.
        destruct (cor c1 c2) as [[l v]|].
        -- destruct Hu as (l' & Hu & Hl). exists l', (ps s5). split; [|exact Hl].
           destruct lazy; simpl in *; congruence.
        -- exists (ps s5). congruence.
Qed.

(* ================================================================== *)
(* Part C — structural facts about M2ht                                 *)
(* ================================================================== *)
Lemma m2ht_child_TN sl p cc ch q l kvs :
  m2ht_child sl p cc ch q = TN (Some (l, kvs)) ->
  exists x, In x ch /\ starts_with cc (nkey x) = true /\ m2ht sl p x q = TN (Some (l, kvs)).
Proof.
  unfold m2ht_child. destruct (first_child cc ch) as [x|] eqn:E; [|discriminate].
  intros H. exists x. apply first_child_in in E. tauto.
Qed.

Lemma host_child_of cc x (Hsplit : starts_with "/" (nkey x) = true \/ hostb x = true) :
  cc <> "/" -> starts_with cc (nkey x) = true -> hostb x = true.
Proof.
  intros Hcc Hs. destruct Hsplit as [H|H]; [|exact H]. apply starts_with_hd in H, Hs. congruence.
Qed.

(* a trailing-slash candidate of M2ht is a leaf whose pattern is the branch followed, with the
   names of the branch (host labels, then path) *)
Lemma m2ht_sound sl p : forall n pre h l kvs, pwf pre n -> hostb n = true -> nohslash h ->
  m2ht sl p n h = TN (Some (l, kvs)) -> sound_res n pre l kvs.
Proof.
  induction n as [k r ch IH] using node_ind'. intros pre h l kvs Hwf Hhb Hns.
  pose proof (pwf_inv _ _ _ _ Hwf) as (kt0 & Hne & Hk & Hok & Hr & Hnd & Hch).
  destruct (hostb_inv _ _ _ Hhb) as (Hrn & Hht & Hsplit).
  rewrite Forall_forall in IH, Hch.
  set (n := Node k r ch) in *.
  assert (Htk : tokenize k = kt0) by (rewrite Hk; apply tokenize_render; eapply kt_ok_tok; eauto).
  rewrite Htk in Hht.
  assert (Hgen : forall kt done h l kvs, k = render (done ++ kt) -> forallb htok_ok kt = true -> nohslash h ->
            kht (Khtof sl p n) kt h = TN (Some (l, kvs)) ->
            exists rt bt, nroute l = Some rt /\ In rt (routes_s n) /\ rpat rt = pre ++ k ++ render bt /\
                          forallb tok_ok bt = true /\ map fst kvs = wildcard_names (kt ++ bt)).
  { induction kt as [|t kt IHkt]; intros done h0 l0 kvs0 Hkd Hokt Hns0 Hm.
    - cbn [kht] in Hm. destruct h0 as [|c h'].
      + cbn [Khtof] in Hm. unfold n in Hm at 1. cbn [nchildren] in Hm.
        destruct (first_child "/" ch) as [c0|] eqn:Ec0; [|discriminate].
        apply first_child_in in Ec0. destruct Ec0 as [Hin0 Hsl0].
        destruct (m2t_sound sl c0 (pre ++ k) None p l0 kvs0 (Hch c0 Hin0) Hm) as [(Hbad & _)|(rt & bt & H1 & H2 & H3 & H4 & H5)];
          [discriminate|].
        exists rt, bt. simpl app. repeat split; auto.
        * exact (routes_s_child c0 k r ch Hin0 rt H2).
        * rewrite H3, <- app_assoc. reflexivity.
      + cbn [Khtof] in Hm. unfold n in Hm at 1 2. cbn [nchildren] in Hm.
        assert (Hc : c <> "/") by (apply Hns0; left; reflexivity).
        assert (exists x, In x ch /\ hostb x = true /\ m2ht sl p x (c :: h') = TN (Some (l0, kvs0))) as (x & Hx & Hxb & Hmx).
        { apply talt_TN in Hm. destruct Hm as (ca & cb & Ha & Hb & Hcc).
          destruct ca as [[l1 v1]|]; simpl in Hcc.
          - inversion Hcc; subst. apply m2ht_child_TN in Ha. destruct Ha as (x & Hx & Hs & Hmx).
            exists x. repeat split; auto. apply (host_child_of c x (Hsplit x Hx) Hc Hs).
          - subst cb. apply m2ht_child_TN in Hb. destruct Hb as (x & Hx & Hs & Hmx).
            exists x. repeat split; auto. apply (host_child_of "{" x (Hsplit x Hx)); [discriminate|exact Hs]. }
        destruct (IH x Hx (pre ++ k) (c :: h') l0 kvs0 (Hch x Hx) Hxb Hns0 Hmx) as (rt & bt & H1 & H2 & H3 & H4 & H5).
        exists rt, bt. simpl app. repeat split; auto.
        * exact (routes_s_child x k r ch Hx rt H2).
        * rewrite H3, <- app_assoc. reflexivity.
    - destruct h0 as [|c h']; [discriminate|].
      cbn [forallb] in Hokt. apply andb_prop in Hokt. destruct Hokt as [Hokt1 Hokt2].
      assert (Hk1 : k = render ((done ++ [t]) ++ kt)) by (rewrite <- app_assoc; exact Hkd).
      destruct t as [d|nm|nm]; [| |discriminate]; cbn [kht] in Hm.
      + destruct (Ascii.eqb d c && sbyte c) eqn:E; [|discriminate].
        destruct (IHkt (done ++ [TStatic d]) h' l0 kvs0 Hk1 Hokt2 (nohslash_tl _ _ Hns0) Hm) as (rt & bt & H1 & H2 & H3 & H4 & H5).
        exists rt, bt. repeat split; auto.
      + destruct (seg is_dot (c :: h')) as [|v0 vv] eqn:Ev; [discriminate|]. set (v := v0 :: vv) in *.
        apply twith_TN in Hm. destruct Hm as (c' & Hm & Hc').
        destruct c' as [[l1 kvs1]|]; simpl in Hc'; [|discriminate]. inversion Hc'; subst l0 kvs0.
        destruct (IHkt (done ++ [TParam nm]) _ l1 kvs1 Hk1 Hokt2 (nohslash_skipn _ (List.length v) Hns0) Hm)
          as (rt & bt & H1 & H2 & H3 & H4 & H5).
        exists rt, bt. repeat split; auto. simpl. f_equal. exact H5. }
  intros Hm. unfold n in Hm. rewrite m2ht_eq in Hm. fold n in Hm. rewrite Htk in Hm.
  destruct (Hgen kt0 [] h l kvs Hk Hht Hns Hm) as (rt & bt & H1 & H2 & H3 & H4 & H5).
  exists rt, (kt0 ++ bt). repeat split; auto.
  - rewrite H3, render_app, <- Hk. reflexivity.
  - rewrite forallb_app, (forallb_htok_tok _ Hht), H4. reflexivity.
Qed.

Lemma m2ht_root_sound sl p root host l kvs : hroot_ok root -> nohslash host ->
  m2ht_root sl p root host = TN (Some (l, kvs)) ->
  exists rt bt, nroute l = Some rt /\ rpat rt = render bt /\ forallb tok_ok bt = true /\ map fst kvs = wildcard_names bt.
Proof.
  intros (Hnd & Hpw & Hsplit) Hns Hm. rewrite Forall_forall in Hpw.
  unfold m2ht_root in Hm. destruct host as [|c h']; [discriminate|].
  assert (Hc : c <> "/") by (apply Hns; left; reflexivity).
  assert (exists x, In x (nchildren root) /\ hostb x = true /\ m2ht sl p x (c :: h') = TN (Some (l, kvs))) as (x & Hx & Hxb & Hmx).
  { apply talt_TN in Hm. destruct Hm as (ca & cb & Ha & Hb & Hcc).
    destruct ca as [[l1 v1]|]; simpl in Hcc.
    - inversion Hcc; subst. apply m2ht_child_TN in Ha. destruct Ha as (x & Hx & Hs & Hmx).
      exists x. repeat split; auto. apply (host_child_of c x (Hsplit x Hx) Hc Hs).
    - subst cb. apply m2ht_child_TN in Hb. destruct Hb as (x & Hx & Hs & Hmx).
      exists x. repeat split; auto. apply (host_child_of "{" x (Hsplit x Hx)); [discriminate|exact Hs]. }
  destruct (m2ht_sound sl p x [] (c :: h') l kvs (Hpw x Hx) Hxb Hns Hmx) as (rt & bt & H1 & _ & H3 & H4 & H5).
  exists rt, bt. auto.
Qed.

(* ---- remove-slash: M2ht on q ++ "/" against M2h on q ---- *)
Lemma m2t_rm_fresh pre c0 q c : pwf pre c0 -> m2t true None c0 (q ++ ["/"]) = TN c -> c = m2 c0 q.
Proof.
  intros Hwf Hm. destruct (pwf_tokens _ _ Hwf) as (t & kt & Htk & _ & Hokt).
  rewrite m2t_kmt in Hm. rewrite Htk in Hm.
  apply (kmt_rm c0 pre Hwf) in Hm; [|exact Hokt].
  assert (rmc None [] (t :: kt) q = None) as Hr.
  { unfold rmc, pc. destruct (Spec.is_nil q && Spec.is_nil [] && hd_slash (t :: kt)); reflexivity. }
  rewrite Hr in Hm. cbn [cor] in Hm. rewrite m2_km, Htk. exact Hm.
Qed.

Lemma cor_alt (a b : tcand) : cor a b = alt a b.
Proof. destruct a; reflexivity. Qed.
Lemma cwith_with_vals v (c : tcand) : cwith v c = with_vals v c.
Proof. destruct c as [[l k]|]; reflexivity. Qed.

Lemma m2ht_rm q : forall n pre h c, pwf pre n -> hostb n = true -> nohslash h ->
  m2ht true (q ++ ["/"]) n h = TN c -> c = m2h q n h.
Proof.
  induction n as [k r ch IH] using node_ind'. intros pre h c Hwf Hhb Hns.
  pose proof (pwf_inv _ _ _ _ Hwf) as (kt0 & Hne & Hk & Hok & Hr & Hnd & Hch).
  destruct (hostb_inv _ _ _ Hhb) as (Hrn & Hht & Hsplit).
  rewrite Forall_forall in IH, Hch.
  set (n := Node k r ch) in *.
  assert (Hchild : forall cc h0 c0, cc <> "/" -> nohslash h0 ->
            m2ht_child true (q ++ ["/"]) cc ch h0 = TN c0 -> c0 = m2h_child q cc ch h0).
  { intros cc h0 c0 Hcc Hns0. unfold m2ht_child, m2h_child.
    destruct (first_child cc ch) as [x|] eqn:E; [|intros [= <-]; reflexivity].
    apply first_child_in in E. destruct E as [Hx Hs]. intros Hm.
    apply (IH x Hx (pre ++ k) h0 c0 (Hch x Hx) (host_child_of cc x (Hsplit x Hx) Hcc Hs) Hns0 Hm). }
  assert (Hgen : forall kt h c, forallb htok_ok kt = true -> nohslash h ->
            kht (Khtof true (q ++ ["/"]) n) kt h = TN c -> c = kh (Khof q n) kt h).
  { induction kt as [|t kt IHkt]; intros h0 c0 Hokt Hns0 Hm.
    - cbn [kht] in Hm. cbn [kh]. destruct h0 as [|cc h'].
      + cbn [Khtof] in Hm. cbn [Khof]. unfold n in Hm at 1. unfold n at 1. cbn [nchildren] in *.
        destruct (first_child "/" ch) as [x0|] eqn:E0; [|inversion Hm; reflexivity].
        apply first_child_in in E0. destruct E0 as [Hin0 _].
        apply (m2t_rm_fresh (pre ++ k) x0 q c0 (Hch x0 Hin0) Hm).
      + cbn [Khtof] in Hm. cbn [Khof]. unfold n in Hm at 1 2. unfold n at 1 2. cbn [nchildren] in *.
        assert (Hc : cc <> "/") by (apply Hns0; left; reflexivity).
        apply talt_TN in Hm. destruct Hm as (ca & cb & Ha & Hb & ->).
        rewrite (Hchild cc _ ca Hc Hns0 Ha), (Hchild "{" _ cb ltac:(discriminate) Hns0 Hb). apply cor_alt.
    - cbn [forallb] in Hokt. apply andb_prop in Hokt. destruct Hokt as [Hokt1 Hokt2].
      destruct h0 as [|cc h']; [cbn [kht] in Hm; inversion Hm; reflexivity|].
      destruct t as [d|nm|nm]; [| |discriminate]; cbn [kht] in Hm; cbn [kh].
      + destruct (Ascii.eqb d cc && sbyte cc); [|inversion Hm; reflexivity].
        apply (IHkt h' c0 Hokt2 (nohslash_tl _ _ Hns0) Hm).
      + destruct (seg is_dot (cc :: h')) as [|v0 vv] eqn:Ev; [inversion Hm; reflexivity|].
        apply twith_TN in Hm. destruct Hm as (c' & Hm & ->).
        rewrite (IHkt _ c' Hokt2 (nohslash_skipn _ _ Hns0) Hm). apply cwith_with_vals. }
  intros Hm. unfold n in Hm. rewrite m2ht_eq in Hm. fold n in Hm. unfold n. rewrite m2h_eq. fold n.
  apply Hgen; auto.
Qed.

Lemma m2ht_root_rm q root host c : hroot_ok root -> nohslash host ->
  m2ht_root true (q ++ ["/"]) root host = TN c -> c = m2h_root q root host.
Proof.
  intros (Hnd & Hpw & Hsplit) Hns Hm. rewrite Forall_forall in Hpw.
  unfold m2ht_root in Hm. unfold m2h_root. destruct host as [|cc h']; [inversion Hm; reflexivity|].
  assert (Hc : cc <> "/") by (apply Hns; left; reflexivity).
  assert (Hchild : forall c1 c0, c1 <> "/" ->
            m2ht_child true (q ++ ["/"]) c1 (nchildren root) (cc :: h') = TN c0 -> c0 = m2h_child q c1 (nchildren root) (cc :: h')).
  { intros c1 c0 Hc1. unfold m2ht_child, m2h_child.
    destruct (first_child c1 (nchildren root)) as [x|] eqn:E; [|intros [= <-]; reflexivity].
    apply first_child_in in E. destruct E as [Hx Hs]. intros Hm1.
    apply (m2ht_rm q x [] (cc :: h') c0 (Hpw x Hx) (host_child_of c1 x (Hsplit x Hx) Hc1 Hs) Hns Hm1). }
  apply talt_TN in Hm. destruct Hm as (ca & cb & Ha & Hb & ->).
  rewrite (Hchild cc ca Hc Ha), (Hchild "{" cb ltac:(discriminate) Hb). apply cor_alt.
Qed.
