(* EndToEnd2 — C01 end to end (agent p-e2e): for every history of registrations the lookup model
   selects, for a method without hostname route, exactly what the routing specification prescribes
   on the set of routes the sequential map holds.  Composition of
     C02 (TreeMap2: forest = map, WF preserved), the bridge WF => pwf (EndToEnd),
     M1 = S on pwf trees (StaticEquiv2) and order independence of S (SpecSound2). *)
From FoxBase Require Import Bytes.
From FoxRoute Require Import Node Lookup Spec SpecFacts Tree MapSpec Corr CorrHist WFDef TreeWF TreeWF2 TreeMap TreeMap2
  SpecSound SpecSound2 StaticEquiv StaticEquiv2 EndToEnd.
From Coq Require Import Sorting.Sorted Permutation.
Open Scope char_scope.
Local Notation starts_with := Node.starts_with.

(* ------------------------------------------------------------------ *)
(* definitions used by the statements                                   *)
(* ------------------------------------------------------------------ *)
Definition method_root (r : roots) (m : bytes) : option node :=
  match method_index r m with Some i => nth_error r i | None => None end.

(* closed-form fuel: StaticEquiv2.m2_fuel of the method's (first) subtree *)
Definition e2e_fuel (path : bytes) (r : roots) (m : bytes) : nat :=
  match method_root r m with
  | Some root => match nchildren root with c0 :: _ => m2_fuel path c0 | [] => 0 end
  | None => 0
  end.

(* no catch-all anywhere below the method root *)
Definition plain_method (r : roots) (m : bytes) : bool :=
  match method_root r m with Some root => forallb plain (nchildren root) | None => true end.

(* the patterns registered for a method, according to the sequential map *)
Definition reg_patterns (s : mstate) (m : bytes) : list bytes :=
  map (fun e => snd (fst e)) (filter (fun e : mkey * N => bytes_eqb (fst (fst e)) m) s).

Definition path_only (pats : list bytes) : Prop := forall p, In p pats -> is_path_pattern p = true.

(* ------------------------------------------------------------------ *)
(* small facts                                                          *)
(* ------------------------------------------------------------------ *)
Lemma spec_lookup_nil host path : spec_lookup [] host path = SNone.
Proof.
  unfold spec_lookup. simpl. unfold select_in, select_tsr_in. simpl. rewrite select_nil.
  destruct path as [|a [|b r]]; try reflexivity.
  destruct (ends_with_slash (a :: b :: r)); unfold select_in; simpl; rewrite select_nil; reflexivity.
Qed.

Lemma reg_patterns_in s m p : In p (reg_patterns s m) <-> In (m, p) (map fst s).
Proof.
  unfold reg_patterns. rewrite !in_map_iff. split.
  - intros [e [<- He]]. apply filter_In in He. destruct He as [He Hm]. apply bytes_eqb_eq in Hm.
    exists e. split; [|exact He]. destruct e as [[m' p'] v]. simpl in *. congruence.
  - intros [e [Ee He]]. exists e. destruct e as [[m' p'] v]. simpl in *. injection Ee as -> ->.
    split; [reflexivity|]. apply filter_In. split; [exact He|]. simpl. apply bytes_eqb_refl.
Qed.

(* Corr.method_patterns is the forest's route list for the method *)
Lemma method_patterns_mpats t m : WF_txn t -> method_patterns (t_roots t) m = mpats t m.
Proof.
  intros [(H4 & _ & Hnd & _) _]. unfold method_patterns.
  assert (firstn 4 (map nkey (t_roots t)) = common_verbs) as H4' by (rewrite firstn_map; exact H4).
  destruct (method_index (t_roots t) m) as [i|] eqn:Ei.
  - destruct (method_index_some _ _ _ H4' Ei) as (l1 & root & l2 & E & -> & <- & _).
    rewrite E, nth_error_app_mid, routes_of_node_rlist. symmetry. apply (mpats_root t l1 root l2); auto.
  - destruct (method_index_none _ _ H4' Ei) as [Hni _]. symmetry. apply mpats_absent. exact Hni.
Qed.

Lemma method_root_spec t m root : WF_txn t -> method_root (t_roots t) m = Some root ->
  exists i, method_index (t_roots t) m = Some i /\ nth_error (t_roots t) i = Some root /\
            WF_root root /\ method_patterns (t_roots t) m = map rpat (rlist root).
Proof.
  intros [(_ & _ & _ & Hr) _] E. unfold method_root in E. unfold method_patterns.
  destruct (method_index (t_roots t) m) as [i|]; [|discriminate]. exists i.
  split; [reflexivity|]. split; [exact E|]. split; [|rewrite E, routes_of_node_rlist; reflexivity].
  rewrite Forall_forall in Hr. apply Hr. eapply nth_error_In; eauto.
Qed.

(* ------------------------------------------------------------------ *)
(* tree level: every well-formed forest                                 *)
(* ------------------------------------------------------------------ *)
Theorem WF_M1_eq_Spec t m host path fuel : WF_txn t ->
  path_only (method_patterns (t_roots t) m) ->
  okpath path = true \/ plain_method (t_roots t) m = true ->
  e2e_fuel path (t_roots t) m <= fuel ->
  direct_obs (roots_lookup fuel (t_roots t) m host path false [] []) =
  sres_direct (spec_lookup (method_patterns (t_roots t) m) host path).
Proof.
  intros Hwf Hpo Hside Hfuel.
  destruct (method_root (t_roots t) m) as [root|] eqn:Er.
  - destruct (method_root_spec t m root Hwf Er) as (i & Hi & Hn & Hroot & Hmp).
    destruct (WF_root_path_only root Hroot) as [Hch|(c & Hch & Hsl & Hpw)].
    + intros rt Hin. apply Hpo. rewrite Hmp. apply in_map. exact Hin.
    + assert (method_patterns (t_roots t) m = []) as ->.
      { rewrite Hmp, (rlist_root_children root (proj1 Hroot)), Hch. reflexivity. }
      rewrite spec_lookup_nil. unfold roots_lookup. rewrite Hi, Hn, Hch. reflexivity.
    + apply (roots_lookup_param_eq_spec (t_roots t) m c).
      * exists i, root. repeat split; auto. exact (proj1 Hroot).
      * exact Hpw.
      * unfold e2e_fuel in Hfuel. rewrite Er, Hch in Hfuel. exact Hfuel.
      * destruct Hside as [H|H]; [left; exact H|right].
        unfold plain_method in H. rewrite Er, Hch in H. simpl in H. rewrite andb_true_r in H. exact H.
  - unfold method_root in Er. unfold method_patterns, roots_lookup.
    destruct (method_index (t_roots t) m) as [i|]; [rewrite Er|]; rewrite spec_lookup_nil; reflexivity.
Qed.

(* the roots.lookup shortcut of node.go:92-95 is always taken for such a method *)
Theorem WF_path_only_shape t m root : WF_txn t -> method_root (t_roots t) m = Some root ->
  path_only (method_patterns (t_roots t) m) ->
  nchildren root = [] \/ exists c, path_only_root (t_roots t) m c /\ pwf [] c.
Proof.
  intros Hwf Er Hpo. destruct (method_root_spec t m root Hwf Er) as (i & Hi & Hn & Hroot & Hmp).
  destruct (WF_root_path_only root Hroot) as [Hch|(c & Hch & Hsl & Hpw)].
  - intros rt Hin. apply Hpo. rewrite Hmp. apply in_map. exact Hin.
  - left. exact Hch.
  - right. exists c. split; [|exact Hpw]. exists i, root. repeat split; auto. exact (proj1 Hroot).
Qed.

(* a method without catch-all route: no side condition on the request *)
Theorem WF_plain_method t m : WF_txn t ->
  (forall p, In p (method_patterns (t_roots t) m) -> nocatch (tokenize p) = true) ->
  plain_method (t_roots t) m = true.
Proof.
  intros Hwf Hnc. unfold plain_method. destruct (method_root (t_roots t) m) as [root|] eqn:Er; [|reflexivity].
  destruct (method_root_spec t m root Hwf Er) as (i & _ & _ & Hroot & Hmp).
  apply forallb_forall. intros c Hc. destruct Hroot as (Hr & _ & Hf). rewrite Forall_forall in Hf.
  apply (WF_node_plain c [] (Hf c Hc) eq_refl). intros rt Hin. apply Hnc. rewrite Hmp. apply in_map.
  rewrite (rlist_root_children root Hr). apply in_flat_map. eauto.
Qed.

(* ------------------------------------------------------------------ *)
(* forest = map: same pattern set per method, and the set is conflict free *)
(* ------------------------------------------------------------------ *)
Lemma Rel_patterns t s m : WF_txn t -> Rel t s ->
  forall p, In p (method_patterns (t_roots t) m) <-> In p (reg_patterns s m).
Proof.
  intros Hwf Hrel p. rewrite (method_patterns_mpats t m Hwf), reg_patterns_in. apply mpats_rel. exact Hrel.
Qed.

Lemma WF_method_NoConflict t m : WF_txn t -> NoConflict (map mk_cand (method_patterns (t_roots t) m)).
Proof.
  intros Hwf. destruct (method_root (t_roots t) m) as [root|] eqn:Er.
  - destruct (method_root_spec t m root Hwf Er) as (i & _ & _ & Hroot & ->). apply WF_root_NoConflict. exact Hroot.
  - unfold method_root in Er. unfold method_patterns.
    destruct (method_index (t_roots t) m) as [i|]; [rewrite Er|]; simpl; split; intros; contradiction.
Qed.

Theorem Rel_spec_lookup t s m host path : WF_txn t -> Rel t s ->
  spec_lookup (method_patterns (t_roots t) m) host path = spec_lookup (reg_patterns s m) host path.
Proof.
  intros Hwf Hrel. apply spec_lookup_order_independent; [apply Rel_patterns; auto|apply WF_method_NoConflict; auto].
Qed.

(* ------------------------------------------------------------------ *)
(* every history                                                        *)
(* ------------------------------------------------------------------ *)
Definition final_txn (ops : list hop) : txn := visible (hrun_state init_hstate ops).
Definition final_map (ops : list hop) : mstate := svisible (srun_state sinit ops).

Lemma final_rel ops : Forall hop_ok ops -> WF_txn (final_txn ops) /\ Rel (final_txn ops) (final_map ops).
Proof. intros Hok. apply SRel_visible. apply SRel_run; [exact Hok|exact SRel_init]. Qed.

Theorem C01_end_to_end_thm ops : Forall hop_ok ops ->
  forall m host path fuel,
  path_only (reg_patterns (final_map ops) m) ->
  okpath path = true \/ plain_method (t_roots (final_txn ops)) m = true ->
  e2e_fuel path (t_roots (final_txn ops)) m <= fuel ->
  direct_obs (roots_lookup fuel (t_roots (final_txn ops)) m host path false [] []) =
  sres_direct (spec_lookup (reg_patterns (final_map ops) m) host path).
Proof.
  intros Hok m host path fuel Hpo Hside Hfuel. destruct (final_rel ops Hok) as [Hwf Hrel].
  rewrite <- (Rel_spec_lookup _ _ m host path Hwf Hrel). apply WF_M1_eq_Spec; auto.
  intros p Hp. apply Hpo. apply (Rel_patterns _ _ m Hwf Hrel). exact Hp.
Qed.

(* the fuel the harness uses suffices whenever the closed form is below it (evaluable side condition) *)
Theorem C01_end_to_end_big_fuel_thm ops : Forall hop_ok ops ->
  forall m host path,
  path_only (reg_patterns (final_map ops) m) ->
  okpath path = true \/ plain_method (t_roots (final_txn ops)) m = true ->
  Nat.leb (e2e_fuel path (t_roots (final_txn ops)) m) big_fuel = true ->
  direct_obs (roots_lookup big_fuel (t_roots (final_txn ops)) m host path false [] []) =
  sres_direct (spec_lookup (reg_patterns (final_map ops) m) host path).
Proof.
  intros Hok m host path Hpo Hside Hf. apply C01_end_to_end_thm; auto. apply Nat.leb_le. exact Hf.
Qed.

(* the tree the lookup runs on: always the path-only shortcut, always a pwf tree *)
Theorem C01_history_shape_thm ops : Forall hop_ok ops -> forall m root,
  method_root (t_roots (final_txn ops)) m = Some root ->
  path_only (reg_patterns (final_map ops) m) ->
  nchildren root = [] \/ exists c, path_only_root (t_roots (final_txn ops)) m c /\ pwf [] c.
Proof.
  intros Hok m root Er Hpo. destruct (final_rel ops Hok) as [Hwf Hrel].
  apply (WF_path_only_shape _ m root Hwf Er). intros p Hp. apply Hpo. apply (Rel_patterns _ _ m Hwf Hrel). exact Hp.
Qed.

(* every reachable state (published or inside a transaction) satisfies pwf below every root *)
Theorem C01_history_pwf_thm ops : Forall hop_ok ops -> forall root c,
  In root (t_roots (final_txn ops)) -> In c (nchildren root) -> pwf [] c.
Proof. intros Hok root c. apply WF_txn_pwf. exact (proj1 (final_rel ops Hok)). Qed.

(* no catch-all registered for the method: every request path *)
Theorem C01_end_to_end_nocatch_thm ops : Forall hop_ok ops ->
  forall m host path fuel,
  path_only (reg_patterns (final_map ops) m) ->
  (forall p, In p (reg_patterns (final_map ops) m) -> nocatch (tokenize p) = true) ->
  e2e_fuel path (t_roots (final_txn ops)) m <= fuel ->
  direct_obs (roots_lookup fuel (t_roots (final_txn ops)) m host path false [] []) =
  sres_direct (spec_lookup (reg_patterns (final_map ops) m) host path).
Proof.
  intros Hok m host path fuel Hpo Hnc Hfuel. apply C01_end_to_end_thm; auto. right.
  destruct (final_rel ops Hok) as [Hwf Hrel]. apply WF_plain_method; [exact Hwf|].
  intros p Hp. apply Hnc. apply (Rel_patterns _ _ m Hwf Hrel). exact Hp.
Qed.
