(* TreeWF2 — Tree.ins / upd / rem on well-formed nodes: the result is well formed,
   its routes are the expected ones, and errors mean what they say.
   Conflicts are described at byte level here ([clash] / [apart]); TreeMap.v
   relates them to the token-level rule of the specification. *)
From FoxBase Require Import Bytes.
From FoxRoute Require Import Node Lookup Spec Tree WFDef TreeWF.
From Coq Require Import Sorting.Sorted Permutation.
Open Scope char_scope.

(* p and q are different and diverge outside any wildcard (or one is a proper prefix of the other) *)
Definition apart (p q : bytes) : Prop :=
  (exists k, k <> [] /\ q = p ++ k /\ closed p = true) \/
  (exists k, k <> [] /\ p = q ++ k /\ closed q = true) \/
  (exists u a s b s', p = u ++ a :: s /\ q = u ++ b :: s' /\ a <> b /\ closed u = true).
(* p and q diverge inside the name of a wildcard *)
Definition clash (p q : bytes) : Prop :=
  exists u a s b s', p = u ++ a :: s /\ q = u ++ b :: s' /\ a <> b /\ snd (vrun u) = VName.

Definition WFch (pre : bytes) (ch : list node) : Prop := sorted_fb ch /\ Forall (WF_node pre) ch.
Definition pats (ch : list node) : list bytes := map rpat (flat_map rlist ch).
Definition grow (ch ch' : list node) : Prop :=
  (List.length ch' = List.length ch /\ map fb ch' = map fb ch) \/ List.length ch' = S (List.length ch).

Lemma WF_node_children pre n : WF_node pre n -> WFch (pre ++ nkey n) (nchildren n).
Proof. intros H. inversion H; subst. split; assumption. Qed.

Lemma WF_node_closed pre n : WF_node pre n -> closed (pre ++ nkey n) = true.
Proof. intros H. inversion H; subst. assumption. Qed.

Lemma WF_node_route pre n rt : WF_node pre n -> nroute n = Some rt ->
  rpat rt = pre ++ nkey n /\ hostpart (pre ++ nkey n) = false.
Proof. intros H E. inversion H; subst. cbn [nkey nroute] in *. auto. Qed.

Lemma WF_node_host pre n : WF_node pre n -> hostpart pre = true -> starts_with "/" (nkey n) = false ->
  hostpart (pre ++ nkey n) = true.
Proof. intros H. inversion H; subst. cbn [nkey]. assumption. Qed.

Lemma rlist_own n rt : nroute n = Some rt -> In rt (rlist n).
Proof. destruct n as [k r ch]. simpl. intros ->. left. reflexivity. Qed.

Lemma pats_app a b : pats (a ++ b) = pats a ++ pats b.
Proof. unfold pats. rewrite flat_map_app, map_app. reflexivity. Qed.

Lemma pats_mid l1 c l2 : Permutation (pats (l1 ++ c :: l2)) (map rpat (rlist c) ++ pats (l1 ++ l2)).
Proof. unfold pats. rewrite <- map_app. apply Permutation_map. apply rlist_children_mid. Qed.

Lemma nat_of_ascii_inj a b : nat_of_ascii a = nat_of_ascii b -> a = b.
Proof. intros H. rewrite <- (ascii_nat_embedding a), <- (ascii_nat_embedding b). f_equal. exact H. Qed.

(* routes below the children that do not start with the next byte diverge right here *)
Lemma others_apart pre ch c0 r0 q : Forall (WF_node pre) ch -> closed pre = true ->
  Forall (fun x => starts_with c0 (nkey x) = false) ch -> In q (pats ch) -> apart (pre ++ c0 :: r0) q.
Proof.
  intros Hwf Hc Hno Hin. unfold pats in Hin. apply in_map_iff in Hin. destruct Hin as [rt [<- Hin]].
  destruct (WF_children_pat ch pre rt Hwf Hin) as [c [k' [Hc1 [_ [Hne [Hp _]]]]]].
  rewrite Forall_forall in Hno. specialize (Hno c Hc1).
  destruct (nkey c) as [|b s'] eqn:Ek; [congruence|]. simpl in Hno. apply Ascii.eqb_neq in Hno.
  right. right. exists pre, c0, r0, b, (s' ++ k'). rewrite Hp. simpl. repeat split; auto.
Qed.

Lemma WFch_replace pre l1 c l2 c' :
  WFch pre (l1 ++ c :: l2) -> WF_node pre c' -> fb c' = fb c -> WFch pre (l1 ++ c' :: l2).
Proof.
  intros [Hs Hf] Hw He. split; [eapply sorted_fb_replace; eauto|].
  apply Forall_app in Hf. destruct Hf as [Ha Hb]. inversion Hb; subst.
  apply Forall_app. split; [exact Ha|]. constructor; assumption.
Qed.

Lemma rlist_replace_perm l1 c l2 c' x : Permutation (rlist c') (x :: rlist c) ->
  Permutation (flat_map rlist (l1 ++ c' :: l2)) (x :: flat_map rlist (l1 ++ c :: l2)).
Proof.
  intros H. rewrite !flat_map_app. simpl. rewrite H. simpl.
  symmetry. apply Permutation_middle.
Qed.

Lemma grow_replace l1 c l2 c' : fb c' = fb c -> grow (l1 ++ c :: l2) (l1 ++ c' :: l2).
Proof. intros H. left. rewrite !app_length, !map_app. simpl. rewrite H. auto. Qed.

Lemma WF_set_route pre c r : WF_node pre c -> rpat r = pre ++ nkey c -> hostpart (pre ++ nkey c) = false ->
  WF_node pre (Node (nkey c) (Some r) (nchildren c)).
Proof.
  intros H Hp Hh. inversion H; subst. cbn [nkey nchildren] in *. constructor; auto.
  - intros rt [= <-]. auto.
  - discriminate.
Qed.

Lemma WF_regrow pre c c' : WF_node pre c -> nkey c' = nkey c -> nroute c' = nroute c ->
  WFch (pre ++ nkey c) (nchildren c') -> grow (nchildren c) (nchildren c') -> WF_node pre c'.
Proof.
  intros H Hk Hr [Hs Hf] Hg. destruct c' as [k' r' ch']. inversion H as [? k r ch H1 H2 H3 H4 H5 H6 H7]; subst.
  cbn [nkey nroute nchildren] in *. subst. constructor; auto.
  intros E. destruct (H6 E) as [Hl|[Hh [g [-> Hg']]]].
  - left. destruct Hg as [[Hg _]|Hg]; lia.
  - destruct Hg as [[Hg1 Hg2]|Hg]; [|left; simpl in Hg; lia]. right. split; [exact Hh|].
    destruct ch' as [|g' [|? ?]]; try discriminate. exists g'. split; [reflexivity|].
    simpl in Hg2. injection Hg2 as Hg2. inversion Hf; subst.
    apply fb_eq_starts; [eapply WF_node_key_ne; eauto|]. rewrite Hg2. apply fb_starts. exact Hg'.
Qed.

(* the lower half of a node whose key is cut in two *)
Lemma WF_split_key pre k1 k2 c : WF_node pre c -> nkey c = k1 ++ k2 -> k1 <> [] -> k2 <> [] ->
  closed (pre ++ k1) = true -> WF_node (pre ++ k1) (Node k2 (nroute c) (nchildren c)).
Proof.
  intros H Hk Hk1 Hk2 Hc. inversion H as [? k r ch H1 H2 H3 H4 H5 H6 H7]; subst.
  cbn [nkey nroute nchildren] in *. subst.
  constructor; rewrite <- ?app_assoc; auto.
  intros Hh Hs. apply H3.
  - eapply hostpart_app; eauto.
  - destruct k1 as [|x k1]; [congruence|]. simpl.
    destruct (Ascii.eqb_spec x "/") as [->|]; [|reflexivity]. exfalso.
    apply hostpart_slash in Hh; [|apply closed_nonbad; exact Hc]. apply Hh. apply in_or_app. right. left. reflexivity.
Qed.

Lemma length_app_neq {A} (k s : list A) : s <> [] -> Nat.eqb (List.length k) (List.length (k ++ s)) = false.
Proof. intros H. apply Nat.eqb_neq. rewrite app_length. destruct s; [congruence|simpl; lia]. Qed.
Lemma length_app_neq_mid {A} (u : list A) a s : Nat.eqb (List.length u) (List.length (u ++ a :: s)) = false.
Proof. apply length_app_neq. discriminate. Qed.

Lemma sort_two n1 n2 : nkey n1 <> [] -> nkey n2 <> [] -> fb n1 <> fb n2 ->
  sorted_fb (sort_nodes [n1; n2]) /\ Permutation (sort_nodes [n1; n2]) [n1; n2].
Proof.
  intros H1 H2 H3. split; [|apply sort_nodes_perm]. apply sort_nodes_sorted.
  - repeat constructor; assumption.
  - simpl. constructor; [simpl; intuition|]. constructor; [simpl; tauto|constructor].
Qed.

Section Ins.
Variable ri : rinfo.
Hypothesis Hvalid : valid_rinfo ri.
Let p := rpat (ri_route ri).

Lemma p_closed : closed p = true.
Proof. destruct Hvalid as [H _]. unfold valid_patternb in H. apply andb_true_iff in H. tauto. Qed.
Lemma p_path : hostpart p = false.
Proof. destruct Hvalid as [H _]. unfold valid_patternb in H. apply andb_true_iff in H. apply negb_true_iff. tauto. Qed.

Lemma ins_spec : forall fuel n pre cm depth rest,
  WFch pre (nchildren n) -> closed pre = true -> p = pre ++ rest -> rest <> [] -> cm = List.length pre ->
  List.length rest < fuel ->
  match ins fuel ri n cm depth rest with
  | InsOk n' d =>
      nkey n' = nkey n /\ nroute n' = nroute n /\ WFch pre (nchildren n') /\
      Permutation (flat_map rlist (nchildren n')) (ri_route ri :: flat_map rlist (nchildren n)) /\
      (forall q, In q (pats (nchildren n)) -> apart p q) /\
      grow (nchildren n) (nchildren n')
  | InsErr (ErrExist e) => e = p /\ In p (pats (nchildren n))
  | InsErr (ErrConflict ps) =>
      ps <> [] /\ exists others, Permutation (pats (nchildren n)) (ps ++ others) /\
                                 Forall (clash p) ps /\ Forall (apart p) others
  end.
Proof.
  induction fuel as [|f IH]; intros n pre cm depth rest Hch Hcl Hp Hne Hcm Hfuel; [lia|].
  destruct rest as [|c0 r0]; [congruence|]. cbn [ins].
  destruct Hch as [Hsorted Hwf].
  destruct (find_child n c0) as [i|] eqn:Ef.
  2:{ (* no edge: a new leaf below n *)
    unfold find_child in Ef. apply find_child_from_none in Ef.
    pose proof (new_leaf_spec ri pre c0 r0 Hvalid Hp Hcl) as Hnl. rewrite <- Hcm in Hnl.
    destruct (new_leaf ri cm (c0 :: r0)) as [child add]. cbn [fst] in Hnl. destruct Hnl as [Hn1 [Hn2 Hn3]].
    unfold new_node. cbn [nkey nroute nchildren].
    split; [reflexivity|]. split; [reflexivity|]. split; [split|split; [|split]].
    - eapply sorted_add_child; eauto. eapply WF_children_key_ne; eauto.
    - apply (perm_Forall _ (nchildren n ++ [child])); [symmetry; apply sort_nodes_perm|].
      apply Forall_app. split; [exact Hwf|]. constructor; [exact Hn1|constructor].
    - rewrite (flat_map_rlist_perm _ _ (sort_nodes_perm _)). rewrite flat_map_app. simpl. rewrite Hn2. simpl.
      symmetry. apply Permutation_cons_append.
    - intros q Hq. rewrite Hp. eapply others_apart; eauto.
    - right. rewrite (Permutation_length (sort_nodes_perm _)), app_length. simpl. lia. }
  destruct (find_child_some n c0 i Ef) as [l1 [c [l2 [Ech [Ei [Hst [Hnth Hl1]]]]]]].
  rewrite Hnth. rewrite Ech in Hsorted, Hwf.
  assert (WF_node pre c) as Hwc.
  { apply Forall_app in Hwf. destruct Hwf as [_ Hwf]. inversion Hwf; assumption. }
  assert (Forall (fun x => starts_with c0 (nkey x) = false) (l1 ++ l2)) as Hothers
    by (eapply sorted_mid_unique; eauto).
  assert (Forall (WF_node pre) (l1 ++ l2)) as Hwf12.
  { apply Forall_app in Hwf. destruct Hwf as [Ha Hb]. inversion Hb; subst. apply Forall_app; auto. }
  assert (forall q, In q (pats (l1 ++ l2)) -> apart p q) as Hap12.
  { intros q Hq. rewrite Hp. eapply others_apart; eauto. }
  (* the common wrap-up when child c is replaced by c' *)
  assert (forall c', WF_node pre c' -> starts_with c0 (nkey c') = true ->
            Permutation (rlist c') (ri_route ri :: rlist c) ->
            (forall q, In q (map rpat (rlist c)) -> apart p q) ->
            nkey (Node (nkey n) (nroute n) (replace_nth (nchildren n) i c')) = nkey n /\
            nroute (Node (nkey n) (nroute n) (replace_nth (nchildren n) i c')) = nroute n /\
            WFch pre (nchildren (Node (nkey n) (nroute n) (replace_nth (nchildren n) i c'))) /\
            Permutation (flat_map rlist (nchildren (Node (nkey n) (nroute n) (replace_nth (nchildren n) i c'))))
                        (ri_route ri :: flat_map rlist (nchildren n)) /\
            (forall q, In q (pats (nchildren n)) -> apart p q) /\
            grow (nchildren n) (nchildren (Node (nkey n) (nroute n) (replace_nth (nchildren n) i c')))) as Hwrap.
  { intros c' Hw' Hst' Hperm Hap. cbn [nkey nroute nchildren]. rewrite Ech, Ei, replace_nth_app.
    assert (fb c' = fb c) as Hfb by (rewrite (fb_starts c0 c'), (fb_starts c0 c); auto).
    split; [reflexivity|]. split; [reflexivity|]. split; [|split; [|split]].
    - apply (WFch_replace pre l1 c l2 c'); auto. split; assumption.
    - apply rlist_replace_perm. exact Hperm.
    - intros q Hq. eapply Permutation_in in Hq; [|apply pats_mid]. apply in_app_or in Hq.
      destruct Hq as [Hq|Hq]; auto.
    - apply grow_replace. exact Hfb. }
  cbv zeta.
  destruct (cp_cases (c0 :: r0) (nkey c)) as [Hex Hcp|s Hs Hex Hcp Hsk|s Hs Hex Hcp Hsk|u a s b s' Hab Hex1 Hex2 Hcp Hsk1 Hsk2];
    rewrite Hcp.
  - (* exactMatch *)
    assert (Nat.eqb (List.length (nkey c)) (List.length (c0 :: r0)) = true) as E2 by (rewrite Hex; apply Nat.eqb_refl).
    rewrite Nat.eqb_refl, E2.
    assert (p = pre ++ nkey c) as Hp' by (rewrite Hp, Hex; reflexivity).
    destruct (nroute c) as [r|] eqn:Er.
    + destruct (WF_node_route _ _ _ Hwc Er) as [Ha Hb]. split; [congruence|].
      unfold pats. apply in_map_iff. exists r. split; [congruence|].
      rewrite Ech. apply in_flat_map. exists c. split; [apply in_or_app; right; left; reflexivity|].
      apply rlist_own. exact Er.
    + apply Hwrap.
      * apply WF_set_route; auto. rewrite <- Hp'. exact p_path.
      * exact Hst.
      * destruct c as [k rr ch]. cbn [nroute nkey nchildren] in *. subst rr. reflexivity.
      * intros q Hq. apply in_map_iff in Hq. destruct Hq as [rt [<- Hq]].
        destruct c as [k rr ch]. cbn [nroute nkey nchildren] in *. subst rr. simpl in Hq.
        destruct (WF_node_children _ _ Hwc) as [_ Hwcc]. cbn [nkey nchildren] in Hwcc.
        destruct (WF_children_pat ch (pre ++ k) rt Hwcc Hq) as [c2 [k' [_ [_ [Hne2 [Hpat _]]]]]].
        left. exists (nkey c2 ++ k'). split; [|split; [|exact p_closed]].
        -- intros E. apply app_eq_nil in E. tauto.
        -- rewrite Hpat, Hp'. reflexivity.
  - (* full key matched, more to go: descend *)
    assert (Nat.eqb (List.length (nkey c)) (List.length (c0 :: r0)) = false) as E2 by (rewrite Hex; apply length_app_neq; exact Hs).
    rewrite Nat.eqb_refl, E2, Hsk.
    assert (p = (pre ++ nkey c) ++ s) as Hp' by (rewrite Hp, Hex, app_assoc; reflexivity).
    specialize (IH c (pre ++ nkey c) (cm + List.length (nkey c)) (S depth) s
                  (WF_node_children _ _ Hwc) (WF_node_closed _ _ Hwc) Hp' Hs).
    assert (cm + List.length (nkey c) = List.length (pre ++ nkey c)) as Hcm' by (rewrite app_length; lia).
    assert (List.length s < f) as Hf'.
    { rewrite Hex in Hfuel. rewrite app_length in Hfuel. pose proof (WF_node_key_ne _ _ Hwc) as Hk.
      destruct (nkey c); [congruence|]. simpl in Hfuel. lia. }
    specialize (IH Hcm' Hf').
    destruct (ins f ri c (cm + List.length (nkey c)) (S depth) s) as [c' d|[e|ps]].
    + destruct IH as [Hk [Hr [Hch' [Hperm [Hap Hg]]]]].
      apply (Hwrap c').
      * eapply WF_regrow; eauto.
      * rewrite Hk. exact Hst.
      * destruct c' as [k' r' ch'], c as [k rr ch]. cbn [nkey nroute nchildren rlist] in *. subst.
        rewrite Hperm. destruct rr; simpl; [apply perm_swap|reflexivity].
      * intros q Hq. apply in_map_iff in Hq. destruct Hq as [rt [<- Hq]].
        destruct c as [k rr ch]. cbn [nkey nroute nchildren rlist] in *. apply in_app_or in Hq.
        destruct Hq as [Hq|Hq].
        -- destruct rr as [r|]; [|destruct Hq]. destruct Hq as [->|[]].
           destruct (WF_node_route _ _ _ Hwc eq_refl) as [Ha Hb]. cbn [nkey] in Ha.
           right. left. exists s. rewrite Ha. split; [exact Hs|]. split; [exact Hp'|]. apply (WF_node_closed _ _ Hwc).
        -- apply Hap. unfold pats. apply in_map. exact Hq.
    + destruct IH as [-> Hin]. split; [reflexivity|]. rewrite Ech.
      eapply Permutation_in; [symmetry; apply pats_mid|]. apply in_or_app. left.
      unfold pats in Hin. destruct c as [k rr ch]. cbn [nchildren rlist] in *. rewrite map_app. apply in_or_app. right. exact Hin.
    + destruct IH as [Hps [others [Hperm [Hcl' Hap']]]]. split; [exact Hps|].
      exists (map rpat (match nroute c with Some r => [r] | None => [] end) ++ others ++ pats (l1 ++ l2)).
      split; [|split; [exact Hcl'|]].
      * rewrite Ech, pats_mid. destruct c as [k rr ch]. cbn [nchildren nroute rlist] in *.
        rewrite map_app. fold (pats ch). rewrite Hperm.
        rewrite !app_assoc. apply Permutation_app_tail. rewrite <- !app_assoc.
        rewrite Permutation_app_comm. rewrite <- app_assoc. apply Permutation_app_head. apply Permutation_app_comm.
      * apply Forall_app. split; [|apply Forall_app; split; [exact Hap'|apply Forall_forall; exact Hap12]].
        destruct (nroute c) as [r|] eqn:Er; [|constructor]. constructor; [|constructor].
        destruct (WF_node_route _ _ _ Hwc Er) as [Ha Hb].
        right. left. exists s. rewrite Ha. split; [exact Hs|]. split; [exact Hp'|]. apply (WF_node_closed _ _ Hwc).
  - (* keyEndMidEdge: the new route becomes the parent of the rest of c *)
    assert (Nat.eqb (List.length (c0 :: r0)) (List.length (nkey c)) = false) as E1 by (rewrite Hex; apply length_app_neq; exact Hs).
    rewrite E1, Nat.eqb_refl, Hsk.
    assert (p = pre ++ c0 :: r0) as Hp' by exact Hp.
    unfold new_node. simpl sort_nodes.
    apply Hwrap.
    + assert (closed (pre ++ c0 :: r0) = true) as Hcl' by (rewrite <- Hp; exact p_closed).
      constructor.
      * discriminate.
      * exact Hcl'.
      * intros Hh Hs0.
        assert (hostpart (pre ++ nkey c) = true) as Hk.
        { apply (WF_node_host _ _ Hwc Hh). rewrite Hex. exact Hs0. }
        rewrite Hex, app_assoc in Hk. apply hostpart_app in Hk. exact Hk.
      * constructor; constructor.
      * intros rt [= <-]. split; [exact Hp|rewrite <- Hp; exact p_path].
      * discriminate.
      * constructor; [|constructor]. apply WF_split_key; auto; discriminate.
    + simpl. apply Ascii.eqb_refl.
    + destruct c as [k rr ch]. simpl. rewrite app_nil_r. reflexivity.
    + intros q Hq. apply in_map_iff in Hq. destruct Hq as [rt [<- Hq]].
      destruct (WF_rlist_pat c pre rt Hwc Hq) as [k' [Hpat _]].
      left. exists (s ++ k'). split; [|split; [|exact p_closed]].
      * intros E. apply app_eq_nil in E. tauto.
      * rewrite Hpat, Hex, Hp, <- !app_assoc. reflexivity.
  - (* incompleteMatchToMiddleOfEdge *)
    assert (Nat.eqb (List.length u) (List.length (nkey c)) = false) as E1 by (rewrite Hex2; apply length_app_neq_mid).
    assert (Nat.eqb (List.length u) (List.length (c0 :: r0)) = false) as E2 by (rewrite Hex1; apply length_app_neq_mid).
    rewrite E1, E2, Hsk1.
    assert (p = (pre ++ u) ++ a :: s) as Hp' by (rewrite Hp, Hex1, app_assoc; reflexivity).
    assert (snd (vrun (pre ++ u)) <> VBad) as Hnbu.
    { eapply closed_app_nonbad. rewrite <- Hp'. exact p_closed. }
    assert (cm + List.length u = List.length (pre ++ u)) as Hcm' by (rewrite app_length; lia).
    assert (Nat.leb (cm + List.length u) (ri_hostsplit ri) = hostpart (pre ++ u)) as ->.
    { rewrite Hcm'. symmetry. apply (hostpart_leb _ (a :: s)); [exact Hnbu|]. rewrite <- Hp'. apply Hvalid. }
    destruct (prefix_conflict_spec pre u Hcl Hnbu) as [Hfalse Htrue].
    assert (u <> []) as Hune.
    { intros ->. simpl in Hex1, Hex2. apply starts_with_hd in Hst. destruct Hst as [r Hr].
      rewrite Hr in Hex2. congruence. }
    assert (forall rt, In rt (rlist c) -> exists k', rpat rt = (pre ++ u) ++ b :: (s' ++ k') /\ closed (rpat rt) = true) as Hqs.
    { intros rt Hq. destruct (WF_rlist_pat c pre rt Hwc Hq) as [k' [Hpat [Hc' _]]].
      exists k'. split; [|exact Hc']. rewrite Hpat, Hex2, <- !app_assoc. reflexivity. }
    destruct (prefix_conflict (hostpart (pre ++ u)) u) eqn:Epc.
    + (* conflict: every route below c clashes with p *)
      unfold route_conflict. rewrite routes_of_node_rlist. split.
      * intros E. apply map_eq_nil in E. eapply WF_rlist_nonempty; eauto.
      * exists (pats (l1 ++ l2)). split; [rewrite Ech; apply pats_mid|]. split; [|apply Forall_forall; exact Hap12].
        apply Forall_forall. intros q Hq. apply in_map_iff in Hq. destruct Hq as [rt [<- Hq]].
        destruct (Hqs rt Hq) as [k' [Hpat Hc']].
        exists (pre ++ u), a, s, b, (s' ++ k'). split; [exact Hp'|]. split; [exact Hpat|]. split; [exact Hab|].
        assert (snd (vrun ((pre ++ u) ++ a :: s)) <> VBad) as Hnb1 by (rewrite <- Hp'; apply closed_nonbad, p_closed).
        assert (snd (vrun ((pre ++ u) ++ b :: s' ++ k')) <> VBad) as Hnb2 by (rewrite <- Hpat; apply closed_nonbad, Hc').
        destruct (diverge_states _ _ _ _ _ Hab Hnb1 Hnb2) as [Hd1 Hd2].
        destruct (Htrue eq_refl) as [H|[H|H]]; [exact H|contradiction|contradiction].
    + (* split c at the divergence *)
      specialize (Hfalse eq_refl).
      pose proof (new_leaf_spec ri (pre ++ u) a s Hvalid Hp' Hfalse) as Hnl. rewrite <- Hcm' in Hnl.
      destruct (new_leaf ri (cm + List.length u) (a :: s)) as [n1 add]. cbn [fst] in Hnl.
      destruct Hnl as [Hn1 [Hn2 Hn3]]. rewrite Hsk2.
      set (n2 := Node (b :: s') (nroute c) (nchildren c)).
      assert (WF_node (pre ++ u) n2) as Hw2 by (apply WF_split_key; auto; discriminate).
      assert (fb n1 <> fb n2) as Hfb12.
      { rewrite (fb_starts a n1 Hn3). unfold n2, fb. simpl. intros E. apply nat_of_ascii_inj in E. contradiction. }
      destruct (sort_two n1 n2 (WF_node_key_ne _ _ Hn1) (WF_node_key_ne _ _ Hw2) Hfb12) as [Hs2 Hp2].
      unfold new_node. apply Hwrap.
      * constructor.
        -- exact Hune.
        -- exact Hfalse.
        -- intros Hh Hs0. apply (hostpart_app _ (b :: s')). rewrite <- app_assoc, <- Hex2.
           apply (WF_node_host _ _ Hwc Hh). rewrite Hex2. destruct u; [congruence|exact Hs0].
        -- exact Hs2.
        -- discriminate.
        -- intros _. left. rewrite (Permutation_length Hp2). simpl. lia.
        -- apply (perm_Forall _ [n1; n2]); [symmetry; exact Hp2|]. constructor; [exact Hn1|constructor; [exact Hw2|constructor]].
      * destruct u as [|x u']; [congruence|]. simpl in Hex1. injection Hex1 as -> _. simpl. apply Ascii.eqb_refl.
      * change (rlist (Node u None (sort_nodes [n1; n2]))) with (flat_map rlist (sort_nodes [n1; n2])).
        rewrite (flat_map_rlist_perm _ _ Hp2). simpl. rewrite Hn2, app_nil_r.
        destruct c as [k rr ch]. reflexivity.
      * intros q Hq. apply in_map_iff in Hq. destruct Hq as [rt [<- Hq]].
        destruct (Hqs rt Hq) as [k' [Hpat Hc']].
        right. right. exists (pre ++ u), a, s, b, (s' ++ k'). auto.
Qed.

End Ins.

(* ---------- update ---------- *)
Lemma others_ne pre ch c0 r0 q : Forall (WF_node pre) ch ->
  Forall (fun x => starts_with c0 (nkey x) = false) ch -> In q (pats ch) -> q <> pre ++ c0 :: r0.
Proof.
  intros Hwf Hno Hin. unfold pats in Hin. apply in_map_iff in Hin. destruct Hin as [rt [<- Hin]].
  destruct (WF_children_pat ch pre rt Hwf Hin) as [c [k' [Hc1 [_ [Hne [Hp _]]]]]].
  rewrite Forall_forall in Hno. specialize (Hno c Hc1).
  destruct (nkey c) as [|b s'] eqn:Ek; [congruence|]. simpl in Hno. apply Ascii.eqb_neq in Hno.
  rewrite Hp. intros E. apply app_inv_head in E. simpl in E. congruence.
Qed.

Lemma notin_mid p l1 c l2 : (forall q, In q (map rpat (rlist c)) -> q <> p) ->
  (forall q, In q (pats (l1 ++ l2)) -> q <> p) -> ~ In p (pats (l1 ++ c :: l2)).
Proof.
  intros H1 H2 Hin. eapply Permutation_in in Hin; [|apply pats_mid]. apply in_app_or in Hin.
  destruct Hin as [Hin|Hin]; [eapply H1|eapply H2]; eauto.
Qed.

Lemma app_ne_self {A} (l k : list A) : k <> [] -> l ++ k <> l.
Proof. intros Hk E. rewrite <- (app_nil_r l) in E at 2. apply app_inv_head in E. contradiction. Qed.

Lemma upd_spec r : forall fuel n pre rest,
  WFch pre (nchildren n) -> rpat r = pre ++ rest -> rest <> [] -> List.length rest < fuel ->
  match upd fuel r n rest with
  | Some n' => nkey n' = nkey n /\ nroute n' = nroute n /\ WFch pre (nchildren n') /\
               (List.length (nchildren n') = List.length (nchildren n) /\ map fb (nchildren n') = map fb (nchildren n)) /\
               exists old l, rpat old = rpat r /\ Permutation (flat_map rlist (nchildren n)) (old :: l) /\
                             Permutation (flat_map rlist (nchildren n')) (r :: l)
  | None => ~ In (rpat r) (pats (nchildren n))
  end.
Proof.
  induction fuel as [|f IH]; intros n pre rest Hch Hp Hne Hfuel; [lia|].
  destruct rest as [|c0 r0]; [congruence|]. cbn [upd]. destruct Hch as [Hsorted Hwf].
  destruct (find_child n c0) as [i|] eqn:Ef.
  2:{ unfold find_child in Ef. apply find_child_from_none in Ef. intros Hin.
      eapply others_ne in Hin; eauto. }
  destruct (find_child_some n c0 i Ef) as [l1 [c [l2 [Ech [Ei [Hst [Hnth Hl1]]]]]]].
  rewrite Hnth. rewrite Ech in Hsorted, Hwf.
  assert (WF_node pre c) as Hwc.
  { apply Forall_app in Hwf. destruct Hwf as [_ Hwf]. inversion Hwf; assumption. }
  assert (Forall (fun x => starts_with c0 (nkey x) = false) (l1 ++ l2)) as Hothers
    by (eapply sorted_mid_unique; eauto).
  assert (Forall (WF_node pre) (l1 ++ l2)) as Hwf12.
  { apply Forall_app in Hwf. destruct Hwf as [Ha Hb]. inversion Hb; subst. apply Forall_app; auto. }
  assert (forall q, In q (pats (l1 ++ l2)) -> q <> rpat r) as Hne12.
  { intros q Hq. rewrite Hp. eapply others_ne; eauto. }
  assert (forall c' old, WF_node pre c' -> starts_with c0 (nkey c') = true -> rpat old = rpat r ->
            (exists l, Permutation (rlist c) (old :: l) /\ Permutation (rlist c') (r :: l)) ->
            nkey (Node (nkey n) (nroute n) (replace_nth (nchildren n) i c')) = nkey n /\
            nroute (Node (nkey n) (nroute n) (replace_nth (nchildren n) i c')) = nroute n /\
            WFch pre (nchildren (Node (nkey n) (nroute n) (replace_nth (nchildren n) i c'))) /\
            (List.length (nchildren (Node (nkey n) (nroute n) (replace_nth (nchildren n) i c'))) = List.length (nchildren n) /\
             map fb (nchildren (Node (nkey n) (nroute n) (replace_nth (nchildren n) i c'))) = map fb (nchildren n)) /\
            exists old l, rpat old = rpat r /\ Permutation (flat_map rlist (nchildren n)) (old :: l) /\
              Permutation (flat_map rlist (nchildren (Node (nkey n) (nroute n) (replace_nth (nchildren n) i c')))) (r :: l)) as Hwrap.
  { intros c' old Hw' Hst' Hold [l [Hpa Hpb]]. cbn [nkey nroute nchildren]. rewrite Ech, Ei, replace_nth_app.
    assert (fb c' = fb c) as Hfb by (rewrite (fb_starts c0 c'), (fb_starts c0 c); auto).
    split; [reflexivity|]. split; [reflexivity|]. split; [|split].
    - apply (WFch_replace pre l1 c l2 c'); auto. split; assumption.
    - rewrite !app_length, !map_app. simpl. rewrite Hfb. auto.
    - exists old, (l ++ flat_map rlist (l1 ++ l2)). split; [exact Hold|]. split.
      + rewrite rlist_children_mid, Hpa. reflexivity.
      + rewrite rlist_children_mid, Hpb. reflexivity. }
  cbv zeta.
  destruct (cp_cases (c0 :: r0) (nkey c)) as [Hex Hcp|s Hs Hex Hcp Hsk|s Hs Hex Hcp Hsk|u a s b s' Hab Hex1 Hex2 Hcp Hsk1 Hsk2];
    rewrite Hcp.
  - assert (Nat.eqb (List.length (nkey c)) (List.length (c0 :: r0)) = true) as E2 by (rewrite Hex; apply Nat.eqb_refl).
    rewrite Nat.eqb_refl, E2.
    assert (rpat r = pre ++ nkey c) as Hp' by (rewrite Hp, Hex; reflexivity).
    destruct (nroute c) as [old|] eqn:Er.
    + destruct (WF_node_route _ _ _ Hwc Er) as [Ha Hb].
      apply (Hwrap _ old).
      * apply WF_set_route; auto.
      * exact Hst.
      * congruence.
      * exists (flat_map rlist (nchildren c)). destruct c as [k rr ch]. cbn [nroute nkey nchildren rlist] in *.
        subst rr. split; reflexivity.
    + rewrite Ech. apply notin_mid; [|exact Hne12].
      intros q Hq. apply in_map_iff in Hq. destruct Hq as [rt [<- Hq]].
      destruct c as [k rr ch]. cbn [nroute nkey nchildren] in *. subst rr. simpl in Hq.
      destruct (WF_node_children _ _ Hwc) as [_ Hwcc]. cbn [nkey nchildren] in Hwcc.
      destruct (WF_children_pat ch (pre ++ k) rt Hwcc Hq) as [c2 [k' [_ [_ [Hne2 [Hpat _]]]]]].
      rewrite Hpat, Hp'. apply app_ne_self. intros E. apply app_eq_nil in E. tauto.
  - assert (Nat.eqb (List.length (nkey c)) (List.length (c0 :: r0)) = false) as E2 by (rewrite Hex; apply length_app_neq; exact Hs).
    rewrite Nat.eqb_refl, E2, Hsk.
    assert (rpat r = (pre ++ nkey c) ++ s) as Hp' by (rewrite Hp, Hex, app_assoc; reflexivity).
    assert (List.length s < f) as Hf'.
    { rewrite Hex in Hfuel. rewrite app_length in Hfuel. pose proof (WF_node_key_ne _ _ Hwc) as Hk.
      destruct (nkey c); [congruence|]. simpl in Hfuel. lia. }
    specialize (IH c (pre ++ nkey c) s (WF_node_children _ _ Hwc) Hp' Hs Hf').
    destruct (upd f r c s) as [c'|].
    + destruct IH as [Hk [Hr [Hch' [Hg [old [l [Hold [Hpa Hpb]]]]]]]].
      apply (Hwrap c' old).
      * eapply WF_regrow; eauto. left. exact Hg.
      * rewrite Hk. exact Hst.
      * exact Hold.
      * exists ((match nroute c with Some x => [x] | None => [] end) ++ l).
        destruct c' as [k' r' ch'], c as [k rr ch]. cbn [nkey nroute nchildren rlist] in *. subst.
        rewrite Hpa, Hpb. split; symmetry; apply Permutation_middle.
    + rewrite Ech. apply notin_mid; [|exact Hne12].
      intros q Hq. apply in_map_iff in Hq. destruct Hq as [rt [<- Hq]].
      destruct c as [k rr ch]. cbn [nkey nroute nchildren rlist] in *. apply in_app_or in Hq.
      destruct Hq as [Hq|Hq].
      * destruct rr as [x|]; [|destruct Hq]. destruct Hq as [->|[]].
        destruct (WF_node_route _ _ _ Hwc eq_refl) as [Ha Hb]. cbn [nkey] in Ha.
        rewrite Ha, Hp'. intros E. symmetry in E. revert E. apply app_ne_self. exact Hs.
      * intros E. apply IH. rewrite <- E. unfold pats. apply in_map. exact Hq.
  - assert (Nat.eqb (List.length (c0 :: r0)) (List.length (nkey c)) = false) as E1 by (rewrite Hex; apply length_app_neq; exact Hs).
    rewrite E1.
    rewrite Ech. apply notin_mid; [|exact Hne12].
    intros q Hq. apply in_map_iff in Hq. destruct Hq as [rt [<- Hq]].
    destruct (WF_rlist_pat c pre rt Hwc Hq) as [k' [Hpat _]].
    rewrite Hpat, Hex, Hp, <- !app_assoc. intros E. apply app_inv_head in E.
    revert E. change (c0 :: r0 ++ s ++ k') with ((c0 :: r0) ++ s ++ k'). apply app_ne_self.
    intros E. apply app_eq_nil in E. tauto.
  - assert (Nat.eqb (List.length u) (List.length (nkey c)) = false) as E1 by (rewrite Hex2; apply length_app_neq_mid).
    rewrite E1.
    rewrite Ech. apply notin_mid; [|exact Hne12].
    intros q Hq. apply in_map_iff in Hq. destruct Hq as [rt [<- Hq]].
    destruct (WF_rlist_pat c pre rt Hwc Hq) as [k' [Hpat _]].
    rewrite Hpat, Hex2, Hp, Hex1, <- !app_assoc. intros E. apply app_inv_head in E. apply app_inv_head in E.
    simpl in E. congruence.
Qed.

(* ---------- remove ---------- *)
Definition WFn (isroot : bool) (pre0 : bytes) (n : node) : Prop := if isroot then WF_root n else WF_node pre0 n.
Definition cpre (isroot : bool) (pre0 : bytes) (n : node) : bytes := if isroot then [] else pre0 ++ nkey n.

Lemma WFn_children isroot pre0 n : WFn isroot pre0 n -> WFch (cpre isroot pre0 n) (nchildren n).
Proof.
  destruct isroot; simpl.
  - intros [_ [H1 H2]]. split; assumption.
  - apply WF_node_children.
Qed.

Lemma WF_node_inner pre0 n : WF_node pre0 n -> nroute n = None ->
  2 <= List.length (nchildren n) \/
  (hostpart (pre0 ++ nkey n) = true /\ exists g, nchildren n = [g] /\ starts_with "/" (nkey g) = true).
Proof. intros H. inversion H; subst. cbn [nkey nroute nchildren]. assumption. Qed.

Definition inner_ok (pre : bytes) (ch : list node) : Prop :=
  2 <= List.length ch \/ (hostpart pre = true /\ exists g, ch = [g] /\ starts_with "/" (nkey g) = true).

Lemma WFn_with_children isroot pre0 n ch' :
  WFn isroot pre0 n -> WFch (cpre isroot pre0 n) ch' ->
  (isroot = false -> nroute n = None -> inner_ok (cpre isroot pre0 n) ch') ->
  WFn isroot pre0 (Node (nkey n) (nroute n) ch').
Proof.
  destruct isroot; simpl; intros H [Hs Hf] Hin.
  - destruct H as [H1 _]. split; [exact H1|]. split; assumption.
  - inversion H; subst. cbn [nkey nroute nchildren] in *. constructor; auto.
    intros E. apply Hin; auto.
Qed.

Lemma mid_singleton {A} (l1 : list A) c l2 g : l1 ++ c :: l2 = [g] -> l1 = [] /\ l2 = [] /\ c = g.
Proof.
  destruct l1 as [|x l1]; simpl; intros E.
  - injection E as -> ->. auto.
  - injection E as _ E. destruct l1; discriminate.
Qed.

Lemma WFn_replace_child isroot pre0 n l1 c l2 c' :
  WFn isroot pre0 n -> nchildren n = l1 ++ c :: l2 -> WF_node (cpre isroot pre0 n) c' -> fb c' = fb c ->
  WFn isroot pre0 (Node (nkey n) (nroute n) (l1 ++ c' :: l2)).
Proof.
  intros H Ech Hw Hfb. pose proof (WFn_children _ _ _ H) as Hch. rewrite Ech in Hch.
  apply WFn_with_children; auto.
  - eapply WFch_replace; eauto.
  - intros -> Hr. simpl in *. destruct (WF_node_inner _ _ H Hr) as [Hl|[Hh [g [Eg Hg]]]].
    + left. rewrite Ech in Hl. rewrite app_length in *. simpl in *. exact Hl.
    + right. split; [exact Hh|]. rewrite Ech in Eg. apply mid_singleton in Eg. destruct Eg as [-> [-> ->]].
      exists c'. split; [reflexivity|]. apply fb_eq_starts; [eapply WF_node_key_ne; eauto|].
      rewrite Hfb. apply fb_starts. exact Hg.
Qed.

Lemma rlist_node_replace_perm n l1 c l2 c' r : nchildren n = l1 ++ c :: l2 ->
  Permutation (rlist c) (r :: rlist c') ->
  Permutation (rlist n) (r :: rlist (Node (nkey n) (nroute n) (l1 ++ c' :: l2))).
Proof.
  intros Ech Hp. destruct n as [k rr ch]. cbn [nkey nroute nchildren rlist] in *. subst ch.
  rewrite !rlist_children_mid, Hp. simpl. rewrite <- Permutation_middle. reflexivity.
Qed.

Lemma WF_clear_route pre c : WF_node pre c -> 2 <= List.length (nchildren c) ->
  WF_node pre (Node (nkey c) None (nchildren c)).
Proof.
  intros H Hl. inversion H; subst. cbn [nkey nchildren] in *. constructor; auto. discriminate.
Qed.

Lemma WF_merge pre n g : WF_node pre n -> WF_node (pre ++ nkey n) g ->
  (hostpart (pre ++ nkey n) = true -> starts_with "/" (nkey g) = false) ->
  WF_node pre (merge_child n g).
Proof.
  intros Hn Hg Hs. unfold merge_child.
  pose proof (WF_node_key_ne _ _ Hn) as Hkn.
  inversion Hg as [? k r ch H1 H2 H3 H4 H5 H6 H7]; subst. cbn [nkey nroute nchildren] in *.
  rewrite <- app_assoc in *. constructor; auto.
  - intros E. apply app_eq_nil in E. tauto.
  - intros Hh Hsl.
    assert (hostpart (pre ++ nkey n) = true) as Hh1.
    { apply (WF_node_host _ _ Hn Hh). destruct (nkey n); [congruence|exact Hsl]. }
    apply H3; auto.
Qed.

Lemma fb_app_l n k' k r ch : nkey n = k -> k <> [] -> fb (Node (k ++ k') r ch) = fb n.
Proof. intros <- H. unfold fb. cbn [nkey]. destruct (nkey n); [congruence|reflexivity]. Qed.

(* children lists: dropping the selected child *)
Lemma WFch_remove pre l1 c l2 : WFch pre (l1 ++ c :: l2) -> WFch pre (l1 ++ l2).
Proof.
  intros [Hs Hf]. split; [eapply sorted_fb_remove; eauto|].
  apply Forall_app in Hf. destruct Hf as [Ha Hb]. inversion Hb; subst. apply Forall_app; auto.
Qed.

Lemma WFch_sort pre ch : WFch pre ch -> WFch pre (sort_nodes ch).
Proof.
  intros [Hs Hf]. split.
  - apply sort_nodes_sorted; [eapply WF_children_key_ne; eauto|apply sorted_fb_nodup; exact Hs].
  - eapply perm_Forall; [symmetry; apply sort_nodes_perm|exact Hf].
Qed.

Lemma inner_ok_sort pre ch : Forall (fun c => nkey c <> []) ch -> inner_ok pre ch -> inner_ok pre (sort_nodes ch).
Proof.
  intros Hne [H|[Hh [g [-> Hg]]]].
  - left. rewrite (Permutation_length (sort_nodes_perm ch)). exact H.
  - right. split; [exact Hh|]. exists g. simpl. auto.
Qed.

(* rebuild, as used by rem: n loses child c; edges are the remaining children *)
Lemma rebuild_new_node isroot pre0 n edges r :
  WFn isroot pre0 n -> WFch (cpre isroot pre0 n) edges ->
  (isroot = false -> nroute n = None -> inner_ok (cpre isroot pre0 n) edges) ->
  Permutation (rlist n) (r :: (match nroute n with Some x => [x] | None => [] end) ++ flat_map rlist edges) ->
  WFn isroot pre0 (new_node (nkey n) (nroute n) edges) /\
  (if isroot then nkey (new_node (nkey n) (nroute n) edges) = nkey n
   else fb (new_node (nkey n) (nroute n) edges) = fb n) /\
  Permutation (rlist n) (r :: rlist (new_node (nkey n) (nroute n) edges)).
Proof.
  intros Hn Hch Hin Hperm. unfold new_node. split; [|split].
  - apply WFn_with_children; [exact Hn|apply WFch_sort; exact Hch|].
    intros E1 E2. apply inner_ok_sort; [|auto]. destruct Hch as [_ Hch]. eapply WF_children_key_ne; eauto.
  - destruct isroot; reflexivity.
  - cbn [rlist]. rewrite (flat_map_rlist_perm _ _ (sort_nodes_perm edges)). exact Hperm.
Qed.

Lemma rebuild_merge pre0 n g r :
  WF_node pre0 n -> nroute n = None -> WF_node (pre0 ++ nkey n) g ->
  (hostpart (pre0 ++ nkey n) = true -> starts_with "/" (nkey g) = false) ->
  Permutation (rlist n) (r :: rlist g) ->
  WF_node pre0 (merge_child n g) /\ fb (merge_child n g) = fb n /\
  Permutation (rlist n) (r :: rlist (merge_child n g)).
Proof.
  intros Hn Er Hg Hs Hperm. split; [|split].
  - apply WF_merge; auto.
  - unfold merge_child. apply fb_app_l; [reflexivity|]. eapply WF_node_key_ne; eauto.
  - rewrite Hperm. unfold merge_child. destruct g as [kg rg chg]. reflexivity.
Qed.

Lemma rebuild_spec isroot pre0 n edges (slash : bool) r :
  WFn isroot pre0 n -> WFch (cpre isroot pre0 n) edges ->
  (isroot = false -> nroute n = None -> edges <> []) ->
  (isroot = false -> nroute n = None -> forall g, edges = [g] ->
     if slash then hostpart (cpre isroot pre0 n) = true
     else (hostpart (cpre isroot pre0 n) = true -> starts_with "/" (nkey g) = false)) ->
  Permutation (rlist n) (r :: (match nroute n with Some x => [x] | None => [] end) ++ flat_map rlist edges) ->
  WFn isroot pre0 (rebuild n isroot edges slash) /\
  (if isroot then nkey (rebuild n isroot edges slash) = nkey n else fb (rebuild n isroot edges slash) = fb n) /\
  Permutation (rlist n) (r :: rlist (rebuild n isroot edges slash)).
Proof.
  intros Hn Hch Hne Hone Hperm. unfold rebuild. destruct edges as [|g [|g' e]].
  - apply rebuild_new_node; auto. intros E1 E2. exfalso. apply (Hne E1 E2). reflexivity.
  - destruct (negb (is_leaf n) && negb isroot && negb (slash && starts_with "/" (nkey g))) eqn:E.
    + apply andb_true_iff in E. destruct E as [E E3]. apply andb_true_iff in E. destruct E as [E1 E2].
      destruct isroot; [discriminate|]. unfold is_leaf in E1. destruct (nroute n) eqn:Er; [discriminate|].
      simpl in Hn, Hch, Hone. destruct Hch as [_ Hch]. inversion Hch as [|? ? Hwg _]; subst.
      apply rebuild_merge; auto.
      * intros Hh. specialize (Hone eq_refl eq_refl g eq_refl). destruct slash; [|exact (Hone Hh)].
        simpl in E3. apply negb_true_iff in E3. exact E3.
      * rewrite Hperm. simpl. rewrite app_nil_r. reflexivity.
    + apply rebuild_new_node; auto. intros -> Er. unfold is_leaf in E. rewrite Er in E. simpl in E.
      apply negb_false_iff in E. apply andb_true_iff in E. destruct E as [-> Eg].
      right. split; [apply (Hone eq_refl Er g eq_refl)|]. exists g. auto.
  - apply rebuild_new_node; auto. intros _ _. left. simpl. lia.
Qed.

Lemma rlist_node_mid n l1 c l2 : nchildren n = l1 ++ c :: l2 ->
  Permutation (rlist n) (rlist c ++ (match nroute n with Some x => [x] | None => [] end) ++ flat_map rlist (l1 ++ l2)).
Proof.
  intros Ech. destruct n as [k rr ch]. cbn [nkey nroute nchildren rlist] in *. subst ch.
  rewrite rlist_children_mid. rewrite !app_assoc. apply Permutation_app_tail. apply Permutation_app_comm.
Qed.

Lemma fb_same_key n r ch : fb (Node (nkey n) r ch) = fb n.
Proof. reflexivity. Qed.

Lemma rem_spec : forall fuel n isroot pre0 rest,
  WFn isroot pre0 n -> rest <> [] -> List.length rest < fuel ->
  match rem fuel n isroot rest with
  | RemNotFound => ~ In (cpre isroot pre0 n ++ rest) (pats (nchildren n))
  | RemReplace n' r =>
      WFn isroot pre0 n' /\ (if isroot then nkey n' = nkey n else fb n' = fb n) /\
      rpat r = cpre isroot pre0 n ++ rest /\ Permutation (rlist n) (r :: rlist n') /\
      (isroot = true -> nchildren n' <> [])
  | RemSplit r =>
      isroot = false /\ nroute n = None /\ hostpart (cpre isroot pre0 n) = true /\
      rpat r = cpre isroot pre0 n ++ rest /\ rlist n = [r]
  | RemRoot n' r =>
      isroot = true /\ WF_root n' /\ nkey n' = nkey n /\ rpat r = cpre isroot pre0 n ++ rest /\
      Permutation (rlist n) (r :: rlist n')
  end.
Proof.
  induction fuel as [|f IH]; intros n isroot pre0 rest Hn Hne Hfuel; [lia|].
  destruct rest as [|c0 r0]; [congruence|]. cbn [rem].
  pose proof (WFn_children _ _ _ Hn) as Hch. set (pre := cpre isroot pre0 n) in *.
  destruct Hch as [Hsorted Hwf].
  destruct (find_child n c0) as [i|] eqn:Ef.
  2:{ unfold find_child in Ef. apply find_child_from_none in Ef. intros Hin.
      eapply others_ne in Hin; eauto. }
  destruct (find_child_some n c0 i Ef) as [l1 [c [l2 [Ech [Ei [Hst [Hnth Hl1]]]]]]].
  rewrite Hnth. rewrite Ech in Hsorted, Hwf.
  assert (WF_node pre c) as Hwc.
  { apply Forall_app in Hwf. destruct Hwf as [_ Hwf]. inversion Hwf; assumption. }
  assert (Forall (fun x => starts_with c0 (nkey x) = false) (l1 ++ l2)) as Hothers
    by (eapply sorted_mid_unique; eauto).
  assert (WFch pre (l1 ++ l2)) as Hch12 by (eapply WFch_remove; split; eauto).
  assert (forall q, In q (pats (l1 ++ l2)) -> q <> pre ++ c0 :: r0) as Hne12.
  { intros q Hq. destruct Hch12 as [_ Hf12]. eapply others_ne; eauto. }
  assert (remove_nth (nchildren n) i = l1 ++ l2) as Erm by (rewrite Ech, Ei; apply remove_nth_app).
  assert (forall c', replace_nth (nchildren n) i c' = l1 ++ c' :: l2) as Erp
    by (intros c'; rewrite Ech, Ei; apply replace_nth_app).
  (* result of a rebuild, wrapped by [out] *)
  assert (forall (slash : bool) r, rpat r = pre ++ c0 :: r0 ->
            (isroot = false -> nroute n = None -> l1 ++ l2 <> []) ->
            (isroot = false -> nroute n = None -> forall g, l1 ++ l2 = [g] ->
               if slash then hostpart pre = true else (hostpart pre = true -> starts_with "/" (nkey g) = false)) ->
            rlist c = [r] ->
            match (if isroot then RemRoot (rebuild n isroot (l1 ++ l2) slash) r
                   else RemReplace (rebuild n isroot (l1 ++ l2) slash) r) with
            | RemNotFound => ~ In (pre ++ c0 :: r0) (pats (nchildren n))
            | RemReplace n' r0' =>
                WFn isroot pre0 n' /\ (if isroot then nkey n' = nkey n else fb n' = fb n) /\
                rpat r0' = pre ++ c0 :: r0 /\ Permutation (rlist n) (r0' :: rlist n') /\
                (isroot = true -> nchildren n' <> [])
            | RemSplit r0' =>
                isroot = false /\ nroute n = None /\ hostpart pre = true /\
                rpat r0' = pre ++ c0 :: r0 /\ rlist n = [r0']
            | RemRoot n' r0' =>
                isroot = true /\ WF_root n' /\ nkey n' = nkey n /\ rpat r0' = pre ++ c0 :: r0 /\
                Permutation (rlist n) (r0' :: rlist n')
            end) as Hout.
  { intros slash r Hr Hne' Hone Hrc.
    assert (Permutation (rlist n) (r :: (match nroute n with Some x => [x] | None => [] end) ++ flat_map rlist (l1 ++ l2))) as Hperm.
    { rewrite (rlist_node_mid n l1 c l2 Ech), Hrc. reflexivity. }
    destruct (rebuild_spec isroot pre0 n (l1 ++ l2) slash r Hn Hch12 Hne' Hone Hperm) as [Ha [Hb Hc]].
    destruct isroot; simpl in *; auto. repeat split; auto. discriminate. }
  cbv zeta. rewrite Erm.
  destruct (cp_cases (c0 :: r0) (nkey c)) as [Hex Hcp|s Hs Hex Hcp Hsk|s Hs Hex Hcp Hsk|u a s b s' Hab Hex1 Hex2 Hcp Hsk1 Hsk2];
    rewrite Hcp.
  - (* the key of c is exactly the rest *)
    assert (Nat.eqb (List.length (nkey c)) (List.length (c0 :: r0)) = true) as E2 by (rewrite Hex; apply Nat.eqb_refl).
    rewrite Nat.eqb_refl, E2.
    destruct (nroute c) as [r|] eqn:Er.
    2:{ rewrite Ech. apply notin_mid; [|exact Hne12].
        intros q Hq. apply in_map_iff in Hq. destruct Hq as [rt [<- Hq]].
        destruct c as [k rr ch]. cbn [nroute nkey nchildren] in *. subst rr. simpl in Hq.
        destruct (WF_node_children _ _ Hwc) as [_ Hwcc]. cbn [nkey nchildren] in Hwcc.
        destruct (WF_children_pat ch (pre ++ k) rt Hwcc Hq) as [c2 [k' [_ [_ [Hne2 [Hpat _]]]]]].
        rewrite Hpat, Hex. apply app_ne_self. intros E. apply app_eq_nil in E. tauto. }
    destruct (WF_node_route _ _ _ Hwc Er) as [Ha Hb].
    assert (rpat r = pre ++ c0 :: r0) as Hr by (rewrite Ha, Hex; reflexivity).
    destruct (nchildren c) as [|g [|g' chc]] eqn:Ecc.
    + (* a leaf without children disappears *)
      assert (rlist c = [r]) as Hrc by (destruct c as [k rr ch]; cbn [nroute nchildren rlist] in *; subst; reflexivity).
      assert (hostpart pre = true -> c0 = "/") as Hslash.
      { intros Hh. destruct (starts_with "/" (nkey c)) eqn:Es.
        - apply starts_with_hd in Es, Hst. destruct Es as [x Es], Hst as [y Hst]. congruence.
        - rewrite (WF_node_host _ _ Hwc Hh Es) in Hb. discriminate. }
      assert (isroot = false -> nroute n = None -> forall g, l1 ++ l2 = [g] ->
              hostpart pre = true -> starts_with "/" (nkey g) = false) as Hone.
      { intros _ _ g Eg Hh. rewrite Eg in Hothers. inversion Hothers; subst. rewrite <- (Hslash Hh). assumption. }
      destruct (l1 ++ l2) as [|e es] eqn:Ee.
      * destruct (negb (is_leaf n) && negb isroot) eqn:Ec.
        -- apply andb_true_iff in Ec. destruct Ec as [Ec1 Ec2]. destruct isroot; [discriminate|].
           unfold is_leaf in Ec1. destruct (nroute n) eqn:Ern; [discriminate|].
           apply app_eq_nil in Ee. destruct Ee as [-> ->]. simpl in Ech.
           split; [reflexivity|]. split; [reflexivity|]. split; [|split; [exact Hr|]].
           ++ simpl in Hn. destruct (WF_node_inner _ _ Hn Ern) as [Hl|[Hh _]]; [rewrite Ech in Hl; simpl in Hl; lia|exact Hh].
           ++ destruct n as [kn rn chn]. cbn [nroute nchildren rlist] in *. subst. simpl. rewrite Hrc. reflexivity.
        -- apply (Hout false r Hr); auto; try (intros; discriminate).
           intros -> Ern. unfold is_leaf in Ec. rewrite Ern in Ec. discriminate.
      * apply (Hout false r Hr); auto; intros; discriminate.
    + (* one child: merge it into c *)
      rewrite Erp.
      assert (WF_node (pre ++ nkey c) g) as Hwg.
      { destruct (WF_node_children _ _ Hwc) as [_ Hf]. rewrite Ecc in Hf. inversion Hf; assumption. }
      assert (WF_node pre (merge_child c g)) as Hwm.
      { apply WF_merge; auto. intros Hh. rewrite Hh in Hb. discriminate. }
      assert (fb (merge_child c g) = fb c) as Hfb.
      { unfold merge_child. apply fb_app_l; [reflexivity|]. eapply WF_node_key_ne; eauto. }
      split; [|split; [|split; [exact Hr|split]]].
      * apply (WFn_replace_child isroot pre0 n l1 c l2); auto.
      * destruct isroot; reflexivity.
      * apply (rlist_node_replace_perm n l1 c l2); auto.
        destruct c as [k rr ch], g as [kg rg chg]. cbn [nroute nchildren rlist merge_child] in *. subst. simpl.
        rewrite app_nil_r. reflexivity.
      * intros _. cbn [nchildren]. destruct l1; discriminate.
    + (* several children: c stays as a branching node *)
      rewrite Erp. rewrite <- Ecc.
      assert (WF_node pre (Node (nkey c) None (nchildren c))) as Hwm.
      { apply WF_clear_route; auto. rewrite Ecc. simpl. lia. }
      split; [|split; [|split; [exact Hr|split]]].
      * apply (WFn_replace_child isroot pre0 n l1 c l2); auto.
      * destruct isroot; reflexivity.
      * apply (rlist_node_replace_perm n l1 c l2); auto.
        destruct c as [k rr ch]. cbn [nroute nchildren rlist] in *. subst. reflexivity.
      * intros _. cbn [nchildren]. destruct l1; discriminate.
  - (* descend *)
    assert (Nat.eqb (List.length (nkey c)) (List.length (c0 :: r0)) = false) as E2 by (rewrite Hex; apply length_app_neq; exact Hs).
    rewrite Nat.eqb_refl, E2, Hsk.
    assert (pre ++ c0 :: r0 = (pre ++ nkey c) ++ s) as Hp' by (rewrite Hex, app_assoc; reflexivity).
    assert (List.length s < f) as Hf'.
    { rewrite Hex in Hfuel. rewrite app_length in Hfuel. pose proof (WF_node_key_ne _ _ Hwc) as Hk.
      destruct (nkey c); [congruence|]. simpl in Hfuel. lia. }
    specialize (IH c false pre s Hwc Hs Hf'). cbn [cpre] in IH.
    destruct (rem f c false s) as [|c' r|r|c' r].
    + rewrite Ech. apply notin_mid; [|exact Hne12].
      intros q Hq. apply in_map_iff in Hq. destruct Hq as [rt [<- Hq]].
      destruct c as [k rr ch]. cbn [nkey nroute nchildren rlist] in *. apply in_app_or in Hq.
      destruct Hq as [Hq|Hq].
      * destruct rr as [x|]; [|destruct Hq]. destruct Hq as [->|[]].
        destruct (WF_node_route _ _ _ Hwc eq_refl) as [Ha Hb]. cbn [nkey] in Ha.
        rewrite Ha, Hp'. intros E. symmetry in E. revert E. apply app_ne_self. exact Hs.
      * intros E. apply IH. rewrite <- Hp', <- E. unfold pats. apply in_map. exact Hq.
    + destruct IH as [Hw' [Hfb [Hr [Hperm _]]]]. simpl in Hw'. rewrite Erp.
      split; [|split; [|split; [rewrite Hr; symmetry; exact Hp'|split]]].
      * apply (WFn_replace_child isroot pre0 n l1 c l2); auto.
      * destruct isroot; reflexivity.
      * apply (rlist_node_replace_perm n l1 c l2); auto.
      * intros _. cbn [nchildren]. destruct l1; discriminate.
    + destruct IH as [_ [Erc [Hh [Hr Hrc]]]].
      assert (hostpart pre = true) as Hhp by (eapply hostpart_app; eauto).
      apply (Hout true r); auto.
      * rewrite Hr. symmetry. exact Hp'.
      * intros -> Ern E12. apply app_eq_nil in E12. destruct E12 as [-> ->]. simpl in Ech, Hn.
        destruct (WF_node_inner _ _ Hn Ern) as [Hl|[_ [g [Eg Hg]]]]; [rewrite Ech in Hl; simpl in Hl; lia|].
        rewrite Ech in Eg. injection Eg as <-.
        apply hostpart_slash in Hh; [|apply closed_nonbad; eapply WF_node_closed; eauto].
        apply Hh. apply in_or_app. right. apply starts_with_hd in Hg. destruct Hg as [x ->]. left. reflexivity.
    + destruct IH as [E _]. discriminate.
  - assert (Nat.eqb (List.length (c0 :: r0)) (List.length (nkey c)) = false) as E1 by (rewrite Hex; apply length_app_neq; exact Hs).
    rewrite E1.
    rewrite Ech. apply notin_mid; [|exact Hne12].
    intros q Hq. apply in_map_iff in Hq. destruct Hq as [rt [<- Hq]].
    destruct (WF_rlist_pat c pre rt Hwc Hq) as [k' [Hpat _]].
    rewrite Hpat, Hex, <- !app_assoc. intros E. apply app_inv_head in E.
    revert E. change (c0 :: r0 ++ s ++ k') with ((c0 :: r0) ++ s ++ k'). apply app_ne_self.
    intros E. apply app_eq_nil in E. tauto.
  - assert (Nat.eqb (List.length u) (List.length (nkey c)) = false) as E1 by (rewrite Hex2; apply length_app_neq_mid).
    rewrite E1.
    rewrite Ech. apply notin_mid; [|exact Hne12].
    intros q Hq. apply in_map_iff in Hq. destruct Hq as [rt [<- Hq]].
    destruct (WF_rlist_pat c pre rt Hwc Hq) as [k' [Hpat _]].
    rewrite Hpat, Hex2, Hex1, <- !app_assoc. intros E. apply app_inv_head in E. apply app_inv_head in E.
    simpl in E. congruence.
Qed.
