(* Tree surgery of tree.go (insert / update / remove / truncate and the root
   slice operations) on pure trees.  The Go code finds the position with
   copyOnWriteSearch (recording p, pp, ppp) and patches pointers; here the same
   case analysis is done on the way back from a recursive descent:
     - classify: exactMatch / keyEndMidEdge / incompleteMatchToEndOfEdge /
       incompleteMatchToMiddleOfEdge  (tree.go:728-747)
     - p.updateEdge(n) = replace the child in place (no re-sort);
       newNode(..) = sort the children by key.
   The object-level (copy-on-write, aliasing) view of the same code is Heap.v. *)
From FoxBase Require Import Bytes.
From FoxRoute Require Import Node.
Open Scope char_scope.

(* what NewRoute computed for the pattern: psLen and hostSplit (endHost, 0 = none) *)
Record rinfo := { ri_route : route; ri_pslen : nat; ri_hostsplit : nat }.

Record txn := { t_roots : list node; t_size : Z; t_maxparams : nat; t_depth : nat }.

Inductive ins_err := ErrExist (existing : bytes) | ErrConflict (pats : list bytes).

(* ---------- helpers ---------- *)
Fixpoint common_prefix (a b : bytes) : bytes :=
  match a, b with
  | x :: a', y :: b' => if Ascii.eqb x y then x :: common_prefix a' b' else []
  | _, _ => []
  end.

Fixpoint replace_nth (l : list node) (i : nat) (n : node) : list node :=
  match l, i with
  | _ :: r, O => n :: r
  | x :: r, S i => x :: replace_nth r i n
  | [], _ => []
  end.

Fixpoint remove_nth (l : list node) (i : nat) : list node :=
  match l, i with
  | _ :: r, O => r
  | x :: r, S i => x :: remove_nth r i
  | [], _ => []
  end.

Definition new_node (k : bytes) (r : option route) (ch : list node) : node := Node k r (sort_nodes ch).

(* DFS pre-order of the routes below n (rawIterator, iter.go:28-56) *)
Fixpoint routes_pre (fuel : nat) (n : node) : list route :=
  match fuel with O => [] | S f =>
    (match nroute n with Some r => [r] | None => [] end) ++ flat_map (routes_pre f) (nchildren n)
  end.
Fixpoint node_height (n : node) : nat :=
  match n with Node _ _ ch => S (fold_right (fun c acc => Nat.max (node_height c) acc) 0 ch) end.
Definition routes_of_node (n : node) : list route := routes_pre (node_height n) n.
Definition route_conflict (n : node) : list bytes := map rpat (routes_of_node n).

(* conflict scan of the common prefix (tree.go:333-355) *)
Fixpoint scan_back (stop : ascii) (bad1 bad2 : ascii) (rp : bytes) : bool :=   (* rp = reversed prefix *)
  match rp with
  | [] => false
  | c :: r => if Ascii.eqb c stop then false
              else if Ascii.eqb c bad1 || Ascii.eqb c bad2 then true
              else scan_back stop bad1 bad2 r
  end.
Definition prefix_conflict (is_host : bool) (cprefix : bytes) : bool :=
  if negb is_host then scan_back "/" "{" "*" (rev cprefix)
  else match rev cprefix with
       | "}" :: _ => false
       | rp => scan_back "." "{" "{" rp
       end.

(* the node(s) created for a brand new suffix (host/path split rule, tree.go:275-286, 360-372) *)
Definition new_leaf (ri : rinfo) (cm : nat) (suffix : bytes) : node * nat :=
  if Nat.ltb 0 (ri_hostsplit ri) && Nat.ltb cm (ri_hostsplit ri) then
    let h := ri_hostsplit ri - cm in
    (new_node (firstn h suffix) None [new_node (skipn h suffix) (Some (ri_route ri)) []], 2)
  else (Node suffix (Some (ri_route ri)) [], 1).

Inductive ins_res :=
| InsOk (n : node) (newdepth : nat)      (* this node, rebuilt; depth candidate = result.depth + addDepth (0 = none) *)
| InsErr (e : ins_err).

(* ins fuel n cm depth rest: n is fully matched, rest (non-empty) remains; cm = charsMatched so far;
   depth = number of edges followed to reach n *)
Fixpoint ins (fuel : nat) (ri : rinfo) (n : node) (cm depth : nat) (rest : bytes) : ins_res :=
  match fuel with O => InsErr (ErrConflict []) | S f =>
  match rest with
  | [] => InsErr (ErrConflict [])                       (* unreachable: callers pass a non-empty rest *)
  | c0 :: _ =>
    match find_child n c0 with
    | None =>
        (* incompleteMatchToEndOfEdge at n *)
        let '(child, add) := new_leaf ri cm rest in
        InsOk (new_node (nkey n) (nroute n) (nchildren n ++ [child])) (depth + add)
    | Some i =>
      match nth_error (nchildren n) i with
      | None => InsErr (ErrConflict [])
      | Some c =>
        let cp := common_prefix rest (nkey c) in
        let lcp := List.length cp in
        let upd (c' : node) := Node (nkey n) (nroute n) (replace_nth (nchildren n) i c') in
        if Nat.eqb lcp (List.length (nkey c)) then
          if Nat.eqb lcp (List.length rest) then
            (* exactMatch on c *)
            match nroute c with
            | Some r => InsErr (ErrExist (rpat r))
            | None => InsOk (upd (Node (nkey c) (Some (ri_route ri)) (nchildren c))) 0
            end
          else
            match ins f ri c (cm + lcp) (S depth) (skipn lcp rest) with
            | InsOk c' d => InsOk (upd c') d
            | InsErr e => InsErr e
            end
        else if Nat.eqb lcp (List.length rest) then
          (* keyEndMidEdge: split c *)
          let child := Node (skipn lcp (nkey c)) (nroute c) (nchildren c) in
          InsOk (upd (new_node cp (Some (ri_route ri)) [child])) (S depth + 1)
        else
          (* incompleteMatchToMiddleOfEdge *)
          let cm' := cm + lcp in
          if prefix_conflict (Nat.leb cm' (ri_hostsplit ri)) cp then InsErr (ErrConflict (route_conflict c))
          else
            let '(n1, add) := new_leaf ri cm' (skipn lcp rest) in
            let n2 := Node (skipn lcp (nkey c)) (nroute c) (nchildren c) in
            InsOk (upd (new_node cp None [n1; n2])) (S depth + add)
      end
    end
  end end.

Definition empty_root (m : bytes) : node := Node m None [].

Inductive op_res :=
| ROk (t : txn)
| RExist (existing : bytes)
| RConflict (pats : list bytes)
| RNotFound.

(* tXn.insert (tree.go:173-395) *)
Definition insert (t : txn) (method : bytes) (ri : rinfo) : op_res :=
  let '(rs, index) := match method_index (t_roots t) method with
                      | Some i => (t_roots t, i)
                      | None => (t_roots t ++ [empty_root method], List.length (t_roots t))
                      end in
  match nth_error rs index with
  | None => RNotFound
  | Some root =>
    let path := rpat (ri_route ri) in
    match ins (S (List.length path)) ri root 0 0 path with
    | InsErr (ErrExist p) => RExist p
    | InsErr (ErrConflict ps) => RConflict ps
    | InsOk root' d =>
        ROk {| t_roots := replace_nth rs index root';
               t_size := (t_size t + 1)%Z;
               t_maxparams := Nat.max (t_maxparams t) (ri_pslen ri);
               t_depth := Nat.max (t_depth t) d |}
    end
  end.

(* exact-match descent used by update (tree.go:398-423) *)
Fixpoint upd (fuel : nat) (r : route) (n : node) (rest : bytes) : option node :=
  match fuel with O => None | S f =>
  match rest with
  | [] => None
  | c0 :: _ =>
    match find_child n c0 with
    | None => None
    | Some i =>
      match nth_error (nchildren n) i with
      | None => None
      | Some c =>
        let lcp := List.length (common_prefix rest (nkey c)) in
        if Nat.eqb lcp (List.length (nkey c)) then
          if Nat.eqb lcp (List.length rest) then
            match nroute c with
            | Some _ => Some (Node (nkey n) (nroute n) (replace_nth (nchildren n) i (Node (nkey c) (Some r) (nchildren c))))
            | None => None
            end
          else match upd f r c (skipn lcp rest) with
               | Some c' => Some (Node (nkey n) (nroute n) (replace_nth (nchildren n) i c'))
               | None => None end
        else None
      end
    end
  end end.

Definition update (t : txn) (method : bytes) (ri : rinfo) : op_res :=
  match method_index (t_roots t) method with
  | None => RNotFound
  | Some index =>
    match nth_error (t_roots t) index with
    | None => RNotFound
    | Some root =>
      let path := rpat (ri_route ri) in
      match upd (S (List.length path)) (ri_route ri) root path with
      | None => RNotFound
      | Some root' => ROk {| t_roots := replace_nth (t_roots t) index root'; t_size := t_size t;
                             t_maxparams := t_maxparams t; t_depth := t_depth t |}
      end
    end
  end.

(* tXn.remove (tree.go:426-557) *)
Inductive rem_res :=
| RemNotFound
| RemReplace (n' : node) (removed : route)   (* this node, with the change applied below it *)
| RemSplit (removed : route)                 (* this (host/path split) node lost its only child: the parent drops it *)
| RemRoot (parent : node) (removed : route). (* this node is the method root, rebuilt *)

Definition merge_child (n g : node) : node := Node (nkey n ++ nkey g) (nroute g) (nchildren g).

Definition rebuild (n : node) (isroot : bool) (edges : list node) (slash_rule : bool) : node :=
  match edges with
  | [g] => if negb (is_leaf n) && negb isroot && negb (slash_rule && starts_with "/" (nkey g))
           then merge_child n g else new_node (nkey n) (nroute n) edges
  | _ => new_node (nkey n) (nroute n) edges
  end.

Fixpoint rem (fuel : nat) (n : node) (isroot : bool) (rest : bytes) : rem_res :=
  match fuel with O => RemNotFound | S f =>
  match rest with
  | [] => RemNotFound
  | c0 :: _ =>
    match find_child n c0 with
    | None => RemNotFound
    | Some i =>
      match nth_error (nchildren n) i with
      | None => RemNotFound
      | Some c =>
        let lcp := List.length (common_prefix rest (nkey c)) in
        let updn (c' : node) := Node (nkey n) (nroute n) (replace_nth (nchildren n) i c') in
        let edges := remove_nth (nchildren n) i in
        let out (p : node) (r : route) := if isroot then RemRoot p r else RemReplace p r in
        if Nat.eqb lcp (List.length (nkey c)) then
          if Nat.eqb lcp (List.length rest) then
            match nroute c with
            | None => RemNotFound
            | Some r =>
              match nchildren c with
              | _ :: _ :: _ => RemReplace (updn (Node (nkey c) None (nchildren c))) r
              | [g] => RemReplace (updn (merge_child c g)) r
              | [] =>
                  match edges with
                  | [] => if negb (is_leaf n) && negb isroot then RemSplit r
                          else out (rebuild n isroot edges false) r
                  | _ => out (rebuild n isroot edges false) r
                  end
              end
            end
          else
            match rem f c false (skipn lcp rest) with
            | RemNotFound => RemNotFound
            | RemReplace c' r => RemReplace (updn c') r
            | RemSplit r => out (rebuild n isroot edges true) r
            | RemRoot _ _ => RemNotFound
            end
        else RemNotFound
      end
    end
  end end.

Definition is_nil {A} (l : list A) : bool := match l with [] => true | _ => false end.

Inductive del_res := DOk (t : txn) (removed : route) | DNotFound.

Definition remove (t : txn) (method pattern : bytes) : del_res :=
  match method_index (t_roots t) method with
  | None => DNotFound
  | Some index =>
    match nth_error (t_roots t) index with
    | None => DNotFound
    | Some root =>
      let mk (rs : list node) := {| t_roots := rs; t_size := (t_size t - 1)%Z;
                                    t_maxparams := t_maxparams t; t_depth := t_depth t |} in
      match rem (S (List.length pattern)) root true pattern with
      | RemNotFound | RemSplit _ => DNotFound
      | RemReplace root' r => DOk (mk (replace_nth (t_roots t) index root')) r
      | RemRoot parent r =>
          if is_nil (nchildren parent) && is_removable method
          then DOk (mk (remove_nth (t_roots t) index)) r
          else DOk (mk (replace_nth (t_roots t) index (Node method (nroute parent) (nchildren parent)))) r
      end
    end
  end.

(* tXn.truncate (tree.go:597-634), including the Len repair (size adjusted) *)
Fixpoint truncate_methods (rs : list node) (size : Z) (methods : list bytes) : list node * Z :=
  match methods with
  | [] => (rs, size)
  | m :: more =>
    match method_index rs m with
    | None => truncate_methods rs size more
    | Some idx =>
      match nth_error rs idx with
      | None => truncate_methods rs size more
      | Some root =>
        let size' := (size - Z.of_nat (List.length (routes_of_node root)))%Z in
        if negb (is_removable m)
        then truncate_methods (replace_nth rs idx (empty_root (nth idx common_verbs []))) size' more
        else truncate_methods (remove_nth rs idx) size' more
      end
    end
  end.

Definition truncate (t : txn) (methods : list bytes) : txn :=
  match methods with
  | [] => {| t_roots := map empty_root common_verbs; t_size := 0; t_maxparams := t_maxparams t; t_depth := t_depth t |}
  | _ => let '(rs, sz) := truncate_methods (t_roots t) (t_size t) methods in
         {| t_roots := rs; t_size := sz; t_maxparams := t_maxparams t; t_depth := t_depth t |}
  end.

Definition empty_txn : txn := {| t_roots := map empty_root common_verbs; t_size := 0; t_maxparams := 0; t_depth := 0 |}.
