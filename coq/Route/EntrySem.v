(* EntrySem - HAND-WRITTEN, TRUSTED: the meaning of the primitives that harness/cmd/entrygen emits into
   GenEntry.v (docs/GenC01.md).  Values are those of Node.v / Lookup.v (route, node, roots, kv, lres); the only
   new types are the records a wrapper reads (router, transaction, iterator, tree, request), the pooled context
   as far as a wrapper writes it, and the log of sync.Pool operations. *)
From FoxBase Require Import Bytes.
From FoxRoute Require Import Node Lookup.
Require Import List.
Import ListNotations.
Open Scope char_scope.

(* *iTree: the roots it publishes and the identity of its context pool (t.ctx) *)
Record itree := { it_root : roots; it_pool : nat }.
(* *tXn: the tree the transaction was opened on (tXn.tree) and the transaction's OWN roots (tXn.root) *)
Record rtxn := { tx_tree : itree; tx_root : roots }.
(* *Txn: rootTxn is nil once the transaction is settled *)
Record txn_v := { txn_root : option rtxn }.
(* *Router: what fox.tree.Load() returns *)
Record router_v := { rt_tree : itree }.
(* Iter *)
Record iter_v := { iter_tree : itree; iter_root : roots }.
(* *http.Request as far as Lookup reads it *)
Record req := { rq_method : bytes; rq_host : bytes; rq_path : bytes; rq_rawpath : bytes }.
Definition writer := nat.

(* *cTx: params / tsrParams (what the matcher records), route and tsr (what Lookup stores), tree (set when the
   pool creates it: the owner used by Close) *)
Record cctx := { cx_params : list kv; cx_tsrparams : list kv; cx_route : option route; cx_tsr : bool; cx_tree : itree }.
Inductive cfield := F_req | F_w | F_cachedQuery | F_scope.

Definition set_cx_params (v : list kv) (c : cctx) : cctx :=
  {| cx_params := v; cx_tsrparams := cx_tsrparams c; cx_route := cx_route c; cx_tsr := cx_tsr c; cx_tree := cx_tree c |}.
Definition set_cx_tsrparams (v : list kv) (c : cctx) : cctx :=
  {| cx_params := cx_params c; cx_tsrparams := v; cx_route := cx_route c; cx_tsr := cx_tsr c; cx_tree := cx_tree c |}.
Definition set_cx_route (v : option route) (c : cctx) : cctx :=
  {| cx_params := cx_params c; cx_tsrparams := cx_tsrparams c; cx_route := v; cx_tsr := cx_tsr c; cx_tree := cx_tree c |}.
Definition set_cx_tsr (v : bool) (c : cctx) : cctx :=
  {| cx_params := cx_params c; cx_tsrparams := cx_tsrparams c; cx_route := cx_route c; cx_tsr := v; cx_tree := cx_tree c |}.
(* req, w, cachedQuery, scope: fields the routing model does not observe *)
Definition set_cx_unobserved (f : cfield) (c : cctx) : cctx := c.

(* s[:0] *)
Definition slice_to0 {A} (l : list A) : list A := firstn 0 l.
(* cmp.Or(a, b) on strings *)
Definition go_cmp_or_str (a b : bytes) : bytes := match a with [] => b | _ => a end.
(* 0 < len(s) *)
Definition str_nonempty (s : bytes) : bool := match s with [] => false | _ => true end.
Definition ptr_not_nil {A} (p : option A) : bool := match p with Some _ => true | None => false end.

(* sync.Pool traffic, newest first *)
Inductive pev := EvGet (pool : nat) | EvPut (pool : nat).

(* the oracles of the generated wrappers *)
Record env := {
  e_lookup : itree -> roots -> bytes -> bytes -> bytes -> cctx -> bool -> lres;  (* roots.lookup(t, method, hostPort, path, c, lazy): model M1 *)
  e_split : bytes -> bytes * bytes;                                              (* SplitHostPath *)
  e_pool : itree -> cctx;                                                        (* the (stale) context t.ctx.Get() hands out *)
  e_redirect : route -> bool;                                                    (* route.redirectTrailingSlash *)
  e_ignore : route -> bool                                                       (* route.ignoreTrailingSlash *)
}.

(* t.ctx.Get().( *cTx): pool contexts are created with tree = t *)
Definition pool_get (E : env) (t : itree) (pl : list pev) : cctx * list pev :=
  (let c := e_pool E t in
   {| cx_params := cx_params c; cx_tsrparams := cx_tsrparams c; cx_route := cx_route c; cx_tsr := cx_tsr c; cx_tree := t |},
   EvGet (it_pool t) :: pl).
(* t.ctx.Put(c) *)
Definition pool_put (t : itree) (c : cctx) (pl : list pev) : list pev := EvPut (it_pool t) :: pl.

(* outcome of a wrapper: value and pool log, panic(ErrSettledTxn), a run-time panic (nil dereference or a panic of
   the matcher model), the matcher model out of fuel *)
Inductive gres (A : Type) := GRet (v : A) (pl : list pev) | GSettled | GPanic | GOutOfFuel.
Arguments GRet {A}. Arguments GSettled {A}. Arguments GPanic {A}. Arguments GOutOfFuel {A}.

Definition gbind {A B} (r : gres A) (k : A -> list pev -> gres B) : gres B :=
  match r with GRet v pl => k v pl | GSettled => GSettled | GPanic => GPanic | GOutOfFuel => GOutOfFuel end.

(* n, tsr := <lookup>: the matcher leaves params / tsrParams in c *)
Definition call_lookup {A} (r : lres) (c : cctx) (k : option node -> bool -> cctx -> gres A) : gres A :=
  match r with
  | Found n tsr ps tps => k n tsr (set_cx_tsrparams tps (set_cx_params ps c))
  | LPanic => GPanic
  | LOutOfFuel => GOutOfFuel
  end.

(* p.f through a pointer that may be nil *)
Definition deref {A B} (p : option A) (k : A -> gres B) : gres B :=
  match p with Some v => k v | None => GPanic end.

(* iterator plumbing of Iter.Reverse: the yields made so far (newest first) *)
Definition yields := list (bytes * option route).
Definition yield_rec (m : bytes) (r : option route) (ys : yields) : yields := (m, r) :: ys.
