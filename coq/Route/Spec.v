(* S — the routing specification: a matcher over the LIST of registered patterns.
   It knows nothing about radix trees.  Written from the README and the
   property texts (C01, C08, C09):
     - hostname patterns first, path-only patterns as the fallback;
     - at each position: static byte, then named parameter, then catch-all;
       backtracking when the more specific alternative fails;
     - {name}: one non-empty segment part (path: up to the next '/';
       host: up to the next '.');
     - *{name}: non-empty; ends at the end of the path or just before a '/';
       its last segment is non-empty; an infix value does not start with '/'
       (README: a suffix value may, `/src/file=*{path}` <- `/src/file=/dir/..`);
       shortest value first;
     - values are reported under the selected pattern's names, in pattern order. *)
From FoxBase Require Import Bytes.
Open Scope char_scope.

Inductive token := TStatic (c : ascii) | TParam (n : bytes) | TCatch (n : bytes).

Fixpoint take_name (s : bytes) : bytes * bytes :=
  match s with
  | [] => ([], [])
  | c :: r => if Ascii.eqb c "}" then ([], r) else let '(n, r') := take_name r in (c :: n, r')
  end.

Fixpoint tokenize_fuel (f : nat) (s : bytes) : list token :=
  match f with O => [] | S f =>
  match s with
  | [] => []
  | "{" :: r => let '(n, r') := take_name r in TParam n :: tokenize_fuel f r'
  | "*" :: "{" :: r => let '(n, r') := take_name r in TCatch n :: tokenize_fuel f r'
  | c :: r => TStatic c :: tokenize_fuel f r
  end end.
Definition tokenize (s : bytes) : list token := tokenize_fuel (S (List.length s)) s.

Definition wildcard_names (ts : list token) : list bytes :=
  flat_map (fun t => match t with TParam n | TCatch n => [n] | TStatic _ => [] end) ts.

Record cand := { pat : bytes; toks : list token }.
Definition mk_cand (p : bytes) : cand := {| pat := p; toks := tokenize p |}.

(* longest prefix without the delimiter *)
Fixpoint seg (stop : ascii -> bool) (s : bytes) : bytes :=
  match s with
  | [] => []
  | c :: r => if stop c then [] else c :: seg stop r
  end.

Definition adv_static (c : ascii) (cs : list cand) : list cand :=
  flat_map (fun k => match toks k with
                     | TStatic d :: t => if Ascii.eqb c d then [{| pat := pat k; toks := t |}] else []
                     | _ => [] end) cs.
Definition adv_param (cs : list cand) : list cand :=
  flat_map (fun k => match toks k with TParam _ :: t => [{| pat := pat k; toks := t |}] | _ => [] end) cs.
Definition adv_catch (cs : list cand) : list cand :=
  flat_map (fun k => match toks k with TCatch _ :: t => [{| pat := pat k; toks := t |}] | _ => [] end) cs.
Definition leaf (cs : list cand) : option bytes :=
  match filter (fun k => match toks k with [] => true | _ => false end) cs with
  | k :: _ => Some (pat k) | [] => None end.

Definition orelse {A} (x : option A) (y : unit -> option A) : option A :=
  match x with Some _ => x | None => y tt end.

Definition is_nil {A} (l : list A) : bool := match l with [] => true | _ => false end.

(* catch-all values: every split point of s, shortest value first.  A value is
   acceptable when it is followed by nothing (suffix value: any non-empty
   remainder) or by a '/' (infix value: then it neither starts nor ends with '/') *)
Definition split_ok (s : bytes) (i : nat) : bool :=
  let v := firstn i s in
  match skipn i s with
  | [] => true
  | "/" :: _ => negb (Ascii.eqb (last v "/") "/") && negb (Ascii.eqb (hd "/" s) "/")
  | _ => false
  end.

Fixpoint try_splits {A} (k i : nat) (s : bytes) (f : bytes -> bytes -> option A) : option A :=
  match k with
  | O => None
  | S k => orelse (if split_ok s i then f (firstn i s) (skipn i s) else None)
                  (fun _ => try_splits k (S i) s f)
  end.

(* select fuel cs s host_rem vals : the selected pattern and the captured
   values (reversed).  host_rem = number of bytes of s still in the host. *)
Fixpoint select (fuel : nat) (cs : list cand) (s : bytes) (host_rem : nat) (vals : list bytes) {struct fuel}
  : option (bytes * list bytes) :=
  match fuel with O => None | S fuel =>
  match s with
  | [] => match leaf cs with Some p => Some (p, rev vals) | None => None end
  | c :: r =>
    let in_host := negb (Nat.eqb host_rem 0) in
    orelse (if Ascii.eqb c "{" || Ascii.eqb c "*" then None
            else match adv_static c cs with
                 | [] => None
                 | cs' => select fuel cs' r (pred host_rem) vals end)
    (fun _ =>
    orelse (match adv_param cs with
            | [] => None
            | cs' =>
                let v := if in_host then seg (fun x => Ascii.eqb x ".") (firstn host_rem s)
                         else seg (fun x => Ascii.eqb x "/") s in
                match v with
                | [] => None
                | _ => select fuel cs' (skipn (List.length v) s) (host_rem - List.length v) (v :: vals)
                end
            end)
    (fun _ =>
       if in_host then None else
       match adv_catch cs with
       | [] => None
       | cs' =>
           try_splits (List.length s) 1 s (fun v rest => select fuel cs' rest 0 (v :: vals))
       end))
  end end.

Definition is_path_pattern (p : bytes) : bool := match p with "/" :: _ => true | _ => false end.

Definition spec_fuel (host path : bytes) : nat := 4 * (List.length host + List.length path) + 8.

(* direct selection for one method: patterns = the routes registered for it *)
Definition select_in (pats : list bytes) (host path : bytes) (host_mode : bool) : option (bytes * list bytes) :=
  let cs := map mk_cand (filter (fun p => if host_mode then negb (is_path_pattern p) else is_path_pattern p) pats) in
  if host_mode then
    match host with [] => None | _ => select (spec_fuel host path) cs (host ++ path) (List.length host) [] end
  else select (spec_fuel host path) cs path 0 [].

Definition name_values (p : bytes) (vals : list bytes) : list (bytes * bytes) :=
  combine (wildcard_names (tokenize p)) vals.

(* ---- trailing slash (C08): the slash-toggled path, with an added slash forced
   onto a literal '/' that ends the pattern ---- *)
Definition ends_with_slash (s : bytes) : bool := match rev s with "/" :: _ => true | _ => false end.
Definition static_slash_end (p : bytes) : bool :=
  match rev (tokenize p) with TStatic "/" :: _ => true | _ => false end.

Definition toggled (path : bytes) : bytes :=
  if ends_with_slash path then removelast path else path ++ ["/"].

Definition select_tsr_in (pats : list bytes) (host path : bytes) (host_mode : bool) : option (bytes * list bytes) :=
  match path with
  | [] | [_] => None                                           (* "/" (and "") never get a trailing-slash action *)
  | _ =>
    if ends_with_slash path then select_in pats host (removelast path) host_mode
    else select_in (filter static_slash_end pats) host (path ++ ["/"]) host_mode
  end.

Inductive sres := SNone | SDirect (p : bytes) (ps : list (bytes * bytes)) | STsr (p : bytes) (ps : list (bytes * bytes)).

Definition mk_res (tsr : bool) (x : bytes * list bytes) : sres :=
  let '(p, vals) := x in if tsr then STsr p (name_values p vals) else SDirect p (name_values p vals).

(* request-level specification: direct(host) > tsr(host) > direct(path-only) > tsr(path-only).
   has_host_routes = false means the method has no hostname route: Host is ignored. *)
Definition spec_lookup (pats : list bytes) (host path : bytes) : sres :=
  let host_routes := negb (is_nil (filter (fun p => negb (is_path_pattern p)) pats)) in
  let try_host :=
    if host_routes && negb (is_nil host) then
      match select_in pats host path true with
      | Some x => Some (mk_res false x)
      | None => match select_tsr_in pats host path true with
                | Some x => Some (mk_res true x) | None => None end
      end
    else None in
  match try_host with
  | Some r => r
  | None =>
    match select_in pats host path false with
    | Some x => mk_res false x
    | None => match select_tsr_in pats host path false with
              | Some x => mk_res true x | None => SNone end
    end
  end.

(* substituting the values back into the pattern reproduces host ++ path *)
Fixpoint subst (ts : list token) (vals : list bytes) : bytes :=
  match ts with
  | [] => []
  | TStatic c :: r => c :: subst r vals
  | (TParam _ | TCatch _) :: r => match vals with v :: vs => v ++ subst r vs | [] => subst r [] end
  end.
