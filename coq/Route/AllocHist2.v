(* C16, round 7: proofs about the context a handler is handed (AllocHist.v). *)
From Coq Require Import List Arith Lia Bool.
Import ListNotations.
From FoxBase Require Import Bytes.
From FoxRoute Require Import Node Lookup Tree Alloc Alloc2 AllocHist.

(* any context at least as large as allocateContext of the routed tree makes it (x_handed_ok) never
   grows params / tsrParams: params_bounded, monotone in the capacities *)
Theorem handed_context_params_fit : forall f (t : txn) m host path lazy tps0 caps,
  wroots (t_roots t) <= t_maxparams t ->
  hw_le (txn_caps t) caps ->
  let h := snd (roots_lookupI f (t_roots t) m host path lazy [] tps0 hw0) in
  grow_ps caps h = false /\ grow_tps caps h = false.
Proof.
  intros f t m host path lazy tps0 caps Hw [Hp [Ht _]] h.
  destruct (params_bounded f t m host path lazy tps0 Hw) as [Hgp Hgt].
  fold h in Hgp, Hgt. unfold grow_ps, grow_tps in *.
  apply Nat.ltb_ge in Hgp. apply Nat.ltb_ge in Hgt.
  split; apply Nat.ltb_ge; lia.
Qed.

(* the hypothesis is needed: a context sized by the tree published BEFORE a registration does not
   fit the tree published after it *)
Definition hist_ri (p : string) (n : nat) : rinfo :=
  {| ri_route := {| rpat := S2B p; rid := 0%N |}; ri_pslen := n; ri_hostsplit := 0 |}.
Definition hist_old : txn :=
  match insert empty_txn (S2B "GET") (hist_ri "/a/{x}" 1) with ROk t => t | _ => empty_txn end.

Definition hist_new : txn :=
  match insert hist_old (S2B "GET") (hist_ri "/b/{x}/{y}/{z}" 3) with ROk t => t | _ => empty_txn end.

Theorem foreign_context_can_grow :
  exists (t_old t_new : txn) ri m host path,
    insert t_old m ri = ROk t_new /\
    wroots (t_roots t_old) <= t_maxparams t_old /\
    wroots (t_roots t_new) <= t_maxparams t_new /\
    grow_ps (txn_caps t_old) (serve_marks (t_roots t_new) m host path []) = true /\
    grow_ps (txn_caps t_new) (serve_marks (t_roots t_new) m host path []) = false.
Proof.
  exists hist_old, hist_new, (hist_ri "/b/{x}/{y}/{z}" 3), (S2B "GET"), [], (S2B "/b/1/2/3").
  split; [vm_compute; reflexivity|].
  split; [vm_compute; apply le_n|].
  split; [vm_compute; apply le_n|].
  split; vm_compute; reflexivity.
Qed.

(* non-vacuity of x_handed_ok: an owned context with exactly the allocateContext capacities passes,
   a foreign or an undersized one does not *)
Definition hist_case (h : option (bool * hw)) : xcase :=
  {| x_base := {| a_roots := wide_roots; a_maxparams := 3; a_depth := 1; a_method := S2B "GET"; a_rawhost := [];
                  a_host := []; a_path := S2B "/x/y/z/w"; a_match := true; a_tsr := false;
                  a_pattern := S2B "/{a}/{b}/*{c}"; a_cold := (false, false, false); a_warm := false; a_allocs := 0%N |};
     x_handed := h |}.
Example handed_ok_example :
  x_agrees (hist_case (Some (true, caps_of 3 1))) = true /\
  x_handed_ok (hist_case (Some (false, caps_of 3 1))) = false /\
  x_handed_ok (hist_case (Some (true, caps_of 1 1))) = false /\
  x_handed_ok (hist_case None) = false.
Proof. vm_compute. repeat split. Qed.
