(* C16, tie A (docs/GenC16.md): the context sizing code regenerated from tree.go / context.go by harness/cmd/allocgen on
   every run (GenAlloc.v) is what the hand-written capacity model says.  Statements only; proofs in BridgeAlloc.v. *)
From FoxBase Require Import Bytes.
From FoxRoute Require Import Node Lookup Tree Alloc Alloc2 AllocSem GenAlloc BridgeAlloc.

(* the capacities allocateContext gives a context of the tree a transaction commits = Alloc.txn_caps:
   params and tsrParams from maxParams, skipNds from depth *)
Theorem gen_caps_eq : forall t, txn_caps t = gen_caps t.
Proof. exact BridgeAlloc.gen_caps_eq_l. Qed.
Print Assumptions gen_caps_eq.

Theorem gen_allocateContext_eq : forall c,
  bufs_caps (gen_iTree_allocateContext c) = caps_of (c_maxparams c) (c_depth c) /\
  s_len (b_params (gen_iTree_allocateContext c)) = 0 /\ s_len (b_tsrParams (gen_iTree_allocateContext c)) = 0 /\
  s_len (b_skipNds (gen_iTree_allocateContext c)) = 0.
Proof. exact (fun c => conj (BridgeAlloc.allocateContext_caps_eq c) (BridgeAlloc.allocateContext_empty c)). Qed.
Print Assumptions gen_allocateContext_eq.

(* txn / clone / commit hand the three counters on unchanged; the pool of the committed tree is built from its own counters *)
Theorem gen_counters_carried : forall c,
  gen_iTree_txn c = c /\ gen_tXn_clone c = c /\ fst (gen_tXn_commit c) = c /\
  snd (gen_tXn_commit c) = gen_iTree_allocateContext (fst (gen_tXn_commit c)).
Proof. exact (fun c => conj (BridgeAlloc.txn_counters_eq c) (conj (BridgeAlloc.clone_counters_eq c)
                      (conj (BridgeAlloc.commit_counters_eq c) (BridgeAlloc.commit_pool_eq c)))). Qed.
Print Assumptions gen_counters_carried.

(* fox.newTree: counters zero (Tree.empty_txn), pool built from the new tree's own counters *)
Theorem gen_newTree_eq : forall c,
  fst (gen_Router_newTree c) = txn_cnt empty_txn /\
  snd (gen_Router_newTree c) = gen_iTree_allocateContext (fst (gen_Router_newTree c)) /\
  bufs_caps (snd (gen_Router_newTree c)) = txn_caps empty_txn.
Proof. exact BridgeAlloc.newTree_eq. Qed.
Print Assumptions gen_newTree_eq.

Example gen_caps_example :
  bufs_caps (gen_iTree_allocateContext ex_cnt) = {| h_ps := 3; h_tps := 3; h_sks := 5 |} /\
  gen_tXn_commit ex_cnt = (ex_cnt, gen_iTree_allocateContext ex_cnt) /\
  gen_caps ladder_txn = txn_caps ladder_txn /\ h_sks (gen_caps ladder_txn) = 3.
Proof. exact BridgeAlloc.gen_caps_example_l. Qed.
Print Assumptions gen_caps_example.

(* updateMaxParams / updateMaxDepth are "raise to at least" *)
Theorem gen_updateMax_eq : forall n c,
  gen_tXn_updateMaxParams n c = set_maxparams (Nat.max (c_maxparams c) n) c /\
  gen_tXn_updateMaxDepth n c = set_depth (Nat.max (c_depth c) n) c.
Proof. exact (fun n c => conj (BridgeAlloc.updateMaxParams_eq n c) (BridgeAlloc.updateMaxDepth_eq n c)). Qed.
Print Assumptions gen_updateMax_eq.

(* Tree.insert: size + 1, maxParams raised to psLen, depth raised as the generated slice of tXn.insert says for the result
   type / result.depth / result.charsMatched at which the search of Tree.ins stops *)
Theorem gen_insert_counters_eq : forall t m ri t',
  insert t m ri = ROk t' ->
  exists site, insert_site t m ri = Some site /\ txn_cnt t' = gen_insert_at site ri (txn_cnt t).
Proof. exact BridgeAlloc.gen_insert_counters_eq_l. Qed.
Print Assumptions gen_insert_counters_eq.

Example gen_insert_example :
  (exists t1 t2,
    insert empty_txn (S2B "GET") (ex_ri "/a/{x}/*{y}" 2 0) = ROk t1 /\
    insert_site empty_txn (S2B "GET") (ex_ri "/a/{x}/*{y}" 2 0) = Some (incompleteMatchToEndOfEdge, 0, 0) /\
    txn_cnt t1 = {| c_size := 1; c_maxparams := 2; c_depth := 1 |} /\
    insert t1 (S2B "GET") (ex_ri "a.b/c" 0 3) = ROk t2 /\
    insert_site t1 (S2B "GET") (ex_ri "a.b/c" 0 3) = Some (incompleteMatchToEndOfEdge, 0, 0) /\
    txn_cnt t2 = {| c_size := 2; c_maxparams := 2; c_depth := 2 |}) /\
  gen_tXn_insert keyEndMidEdge 4 0 9 2 ex_cnt = {| c_size := 8; c_maxparams := 4; c_depth := 5 |} /\
  gen_tXn_insert incompleteMatchToMiddleOfEdge 1 6 2 4 ex_cnt = {| c_size := 8; c_maxparams := 3; c_depth := 6 |} /\
  gen_tXn_insert exactMatch 1 6 2 40 ex_cnt = {| c_size := 8; c_maxparams := 3; c_depth := 5 |}.
Proof. exact BridgeAlloc.gen_insert_example_l. Qed.
Print Assumptions gen_insert_example.

(* update leaves all three counters alone (whatever the search reports); remove only decrements size *)
Theorem gen_update_counters_eq : forall t m ri t' cm rd,
  update t m ri = ROk t' -> txn_cnt t' = gen_tXn_update (ri_pslen ri) (ri_hostsplit ri) cm rd (txn_cnt t).
Proof. exact BridgeAlloc.gen_update_counters_eq_l. Qed.
Print Assumptions gen_update_counters_eq.

Theorem gen_remove_counters_eq : forall t m p t' r,
  remove t m p = DOk t' r -> txn_cnt t' = gen_tXn_remove (txn_cnt t).
Proof. exact BridgeAlloc.gen_remove_counters_eq_l. Qed.
Print Assumptions gen_remove_counters_eq.

(* truncate: size as the generated branch / loop computes it from the per-method (idx < 0, countRoutes) values that
   Tree.truncate_methods meets; maxParams and depth untouched *)
Theorem gen_truncate_counters_eq : forall t methods,
  txn_cnt (truncate t methods) = gen_tXn_truncate (List.length methods) (trunc_its (t_roots t) methods) (txn_cnt t).
Proof. exact BridgeAlloc.gen_truncate_counters_eq_l. Qed.
Print Assumptions gen_truncate_counters_eq.

Example gen_update_remove_truncate_example :
  gen_tXn_update 9 0 1 1 ex_cnt = ex_cnt /\
  gen_tXn_remove ex_cnt = {| c_size := 6; c_maxparams := 3; c_depth := 5 |} /\
  gen_tXn_truncate 0 [] ex_cnt = {| c_size := 0; c_maxparams := 3; c_depth := 5 |} /\
  gen_tXn_truncate 3 [(false, 2%Z); (true, 0%Z); (false, 4%Z)] ex_cnt = {| c_size := 1; c_maxparams := 3; c_depth := 5 |} /\
  txn_cnt (truncate wide_txn [S2B "GET"]) = {| c_size := (t_size wide_txn - 1)%Z; c_maxparams := t_maxparams wide_txn; c_depth := t_depth wide_txn |} /\
  trunc_its (t_roots wide_txn) [S2B "NOPE"; S2B "GET"] = [(true, 0%Z); (false, 1%Z)].
Proof. exact BridgeAlloc.gen_update_remove_truncate_example_l. Qed.
Print Assumptions gen_update_remove_truncate_example.

(* copyWithResize: its growth event is Alloc's growth predicate (cap < length to reach); afterwards the buffer holds
   src, and its capacity is the old one or, after growth, at least len(src) *)
Theorem gen_copyWithResize_eq : forall rt dst src,
  s_len dst <= s_cap dst ->
  exists d', gen_copyWithResize rt dst src = Some (d', Nat.ltb (s_cap dst) (s_len src)) /\
             s_len d' = s_len src /\ s_data d' = s_data src /\
             s_cap d' = (if Nat.ltb (s_cap dst) (s_len src) then Nat.max rt (s_len src) else s_cap dst).
Proof. exact BridgeAlloc.copyWithResize_eq. Qed.
Print Assumptions gen_copyWithResize_eq.

Example gen_copyWithResize_example :
  gen_copyWithResize 8 {| s_len := 1; s_cap := 2; s_data := 11 |} {| s_len := 3; s_cap := 3; s_data := 22 |}
    = Some ({| s_len := 3; s_cap := 8; s_data := 22 |}, true) /\
  gen_copyWithResize 8 {| s_len := 0; s_cap := 3; s_data := 11 |} {| s_len := 3; s_cap := 9; s_data := 22 |}
    = Some ({| s_len := 3; s_cap := 3; s_data := 22 |}, false) /\
  gen_copyWithResize 8 {| s_len := 3; s_cap := 3; s_data := 11 |} {| s_len := 1; s_cap := 9; s_data := 22 |}
    = Some ({| s_len := 1; s_cap := 3; s_data := 22 |}, false).
Proof. exact BridgeAlloc.gen_copyWithResize_example_l. Qed.
Print Assumptions gen_copyWithResize_example.

(* ---------- C16's theorems over the generated capacities (rewriting with gen_caps_eq) ---------- *)
Corollary gen_params_bounded : forall f (t : txn) m host path lazy tps0,
  wroots (t_roots t) <= c_maxparams (fst (gen_tXn_commit (txn_cnt t))) ->
  let h := snd (roots_lookupI f (t_roots t) m host path lazy [] tps0 hw0) in
  grow_ps (gen_caps t) h = false /\ grow_tps (gen_caps t) h = false.
Proof. exact BridgeAlloc.gen_params_bounded_l. Qed.
Print Assumptions gen_params_bounded.

Corollary gen_cold_context_growth_only_skipnds : forall (t : txn) m host path stale,
  wroots (t_roots t) <= t_maxparams t ->
  grows (gen_caps t) (serve_marks (t_roots t) m host path stale) =
  grow_sks (gen_caps t) (serve_marks (t_roots t) m host path stale).
Proof. exact BridgeAlloc.gen_cold_growth_only_skipnds_l. Qed.
Print Assumptions gen_cold_context_growth_only_skipnds.

Corollary gen_warm_context_no_growth : forall (t : txn) m host path stale1 stale2 caps',
  hw_le (hw_max (gen_caps t) (serve_marks (t_roots t) m host path stale1)) caps' ->
  grows caps' (serve_marks (t_roots t) m host path stale2) = false.
Proof. exact BridgeAlloc.gen_warm_context_no_growth_l. Qed.
Print Assumptions gen_warm_context_no_growth.

(* the tree invariant params_bounded needs is kept by an insertion, read on the generated maxParams *)
Corollary gen_insert_keeps_wroots : forall t m ri t',
  insert t m ri = ROk t' ->
  W (rpat (ri_route ri)) <= ri_pslen ri ->
  wroots (t_roots t) <= t_maxparams t ->
  exists site, insert_site t m ri = Some site /\
               wroots (t_roots t') <= c_maxparams (gen_insert_at site ri (txn_cnt t)).
Proof. exact BridgeAlloc.gen_insert_keeps_wroots_l. Qed.
Print Assumptions gen_insert_keeps_wroots.

(* CloneWith into a fresh context of the same tree never grows params / tsrParams for at most maxParams parameters *)
Corollary gen_clone_fits : forall rt c src,
  s_len src <= c_maxparams c ->
  exists d', gen_copyWithResize rt (b_params (snd (gen_tXn_commit c))) src = Some (d', false) /\
             gen_copyWithResize rt (b_tsrParams (snd (gen_tXn_commit c))) src = Some (d', false) /\
             s_len d' = s_len src /\ s_cap d' = c_maxparams c /\ s_data d' = s_data src.
Proof. exact BridgeAlloc.gen_clone_fits_l. Qed.
Print Assumptions gen_clone_fits.

(* steady state of copyWithResize: once grown for a length, no later copy of at most that length grows it again *)
Corollary gen_copyWithResize_warm : forall rt rt' dst src d' ev dst2 src2 d2 ev2,
  s_len dst <= s_cap dst ->
  gen_copyWithResize rt dst src = Some (d', ev) ->
  s_cap dst2 = s_cap d' -> s_len dst2 <= s_cap dst2 -> s_len src2 <= s_len src ->
  gen_copyWithResize rt' dst2 src2 = Some (d2, ev2) -> ev2 = false /\ s_cap d2 = s_cap d'.
Proof. exact BridgeAlloc.gen_copyWithResize_warm_l. Qed.
Print Assumptions gen_copyWithResize_warm.
