(* Props_C09_e2e — C09 / C08 / C01 on hostname trees, end to end (agent p-host2).  Only statements closed
   by [exact], each followed by Print Assumptions, with non-vacuity examples.
   Definitions: HostEquiv.v (hroot_ok, hostb, hroot_fuel, nohslash, shortcut), HostEquiv2.v (pathok, root_fuel,
   host_tsr_agree), HostEquiv3.v (m2ht_root: structural DFS over the host with the FIRST trailing-slash
   candidate), HostEquiv4.v (spec_path, e2e_fuel_h), Guard.v (roots_lookup_g, spec_lookup_g, host_guard),
   TsrEquiv.v (tres, tsr_res), TsrEquiv2.v (lres_sres), EndToEnd2.v (final_txn, final_map, reg_patterns),
   StaticEquiv2.v (okpath, pwf), WFDef.v (WF_txn), TreeMap2.v (hop_ok), Spec.v (spec_lookup, select_tsr_in). *)
From FoxBase Require Import Bytes.
From FoxRoute Require Import Node Lookup HostPort Spec Guard Tree MapSpec Corr CorrHist WFDef TreeWF2 TreeMap TreeMap2
  SpecSound2 StaticEquiv StaticEquiv2 EndToEnd EndToEnd2 TsrEquiv TsrEquiv2 HostEquiv HostEquiv2 HostEquiv3 HostEquiv4.
Open Scope char_scope.

(* ---- 1. the invariant: every method root of a well-formed forest satisfies hroot_ok (sibling first
   bytes distinct, children pwf [], each child the "/"-subtree or a hostname node) ---- *)
Theorem C09_WF_hroot_ok : forall t root, WF_txn t -> In root (t_roots t) -> hroot_ok root /\ nroute root = None.
Proof. exact WF_hroot_ok_thm. Qed.
Print Assumptions C09_WF_hroot_ok.

Theorem C09_WF_node_hostb : forall n pre, WF_node pre n -> closed pre = true -> hostpart pre = true ->
  Node.starts_with "/" (nkey n) = false -> hostb n = true.
Proof. exact WF_node_hostb. Qed.
Print Assumptions C09_WF_node_hostb.

(* ---- 2. M1 = M2ht: lookupByDomain (state machine, skipped-node stack) returns exactly the direct match
   of the structural DFS, or its FIRST trailing-slash candidate (node, tsrParams = host values ++ path
   values at that moment), or nothing with untouched tsr registers.  Any lazy; no Panic / OutOfFuel ---- *)
Theorem C09_M1_eq_M2ht : forall host path root lazy fuel,
  nohslash host -> hroot_ok root -> host <> [] -> path <> [] -> hroot_fuel path root <= fuel ->
  tsr_res (lookup_by_domain fuel root host path lazy [] []) lazy (m2ht_root (has_suffix_slash path) path root host).
Proof. exact lbd_eq_m2ht. Qed.
Print Assumptions C09_M1_eq_M2ht.

(* ---- 3. M2ht = S: without a direct hostname match the candidate is Spec.select_tsr_in in hostname
   mode (same route, same values): remove-slash through M2h on the shortened path, add-slash through
   S on the patterns that end in a literal '/' ---- *)
Theorem C09_M2ht_eq_Spec_tsr : forall root host path c,
  hroot_ok root -> nroute root = None -> host <> [] -> nohslash host ->
  path <> [] -> pathok path = true -> okpath path = true ->
  m2ht_root (has_suffix_slash path) path root host = TN c ->
  select_tsr_in (map rpat (routes_of_node root)) host path true = res_of [] c.
Proof. exact m2ht_eq_spec_tsr. Qed.
Print Assumptions C09_M2ht_eq_Spec_tsr.

(* the hostname pass of M1 against S, full outcome *)
Theorem C09_hostpass_full_eq_Spec : forall root host path fuel,
  hroot_ok root -> nroute root = None -> host <> [] -> nohslash host ->
  path <> [] -> pathok path = true -> okpath path = true -> hroot_fuel path root <= fuel ->
  match select_in (map rpat (routes_of_node root)) host path true with
  | Some x => lres_sres (lookup_by_domain fuel root host path false [] []) = Some (mk_res false x)
  | None =>
      match select_tsr_in (map rpat (routes_of_node root)) host path true with
      | Some x => lres_sres (lookup_by_domain fuel root host path false [] []) = Some (mk_res true x)
      | None => exists ps', lookup_by_domain fuel root host path false [] [] = Found None false ps' []
      end
  end.
Proof. exact lbd_full_eq_spec. Qed.
Print Assumptions C09_hostpass_full_eq_Spec.

(* the hypothesis left open in Props_C09_host.M1_eq_Spec_host_partial / C09_guarded_eq_Spec_host_partial *)
Theorem C09_host_tsr_agree : forall root host path fuel,
  hroot_ok root -> nroute root = None -> host <> [] -> nohslash host ->
  path <> [] -> pathok path = true -> okpath path = true -> hroot_fuel path root <= fuel ->
  select_in (map rpat (routes_of_node root)) host path true = None ->
  host_tsr_agree fuel root host path.
Proof. exact host_tsr_agree_thm. Qed.
Print Assumptions C09_host_tsr_agree.

(* the path-only fallback, full outcome: exactly the path-only part of the specification *)
Theorem C09_fallback_full_eq_Spec : forall fuel root host path p,
  hroot_ok root -> nroute root = None -> path <> [] -> okpath path = true -> root_fuel path root <= fuel ->
  lres_sres (path_fallback fuel root path false p []) = Some (spec_path (map rpat (routes_of_node root)) host path).
Proof. exact fallback_full_eq_spec. Qed.
Print Assumptions C09_fallback_full_eq_Spec.

(* ---- 4. roots.lookup (repaired entry) = guarded specification, methods WITH hostname routes, EVERY
   host, full outcome (direct / trailing slash / none; route and parameter values).  In particular: a
   hostname trailing-slash match wins over every path-only route; the path-only fallback is taken
   exactly when the hostname pass yields neither (C09_hostpass_full_eq_Spec + HostEquiv.fallback_iff) ---- *)
Theorem C09_roots_lookup_eq_spec : forall r m i root host path fuel,
  method_index r m = Some i -> nth_error r i = Some root -> nroute root = None ->
  hroot_ok root -> nchildren root <> [] -> shortcut root = false ->
  path <> [] -> pathok path = true -> okpath path = true -> root_fuel path root <= fuel ->
  lres_sres (roots_lookup_g fuel r m host path false [] []) =
  Some (spec_lookup_g (method_patterns r m) host path).
Proof. exact roots_lookup_g_eq_spec. Qed.
Print Assumptions C09_roots_lookup_eq_spec.

Theorem C09_WF_roots_lookup_eq_spec : forall t m host path fuel, WF_txn t ->
  path <> [] -> pathok path = true -> okpath path = true ->
  e2e_fuel_h path (t_roots t) m <= fuel ->
  lres_sres (roots_lookup_g fuel (t_roots t) m host path false [] []) =
  Some (spec_lookup_g (method_patterns (t_roots t) m) host path).
Proof. exact WF_roots_lookup_g_eq_spec. Qed.
Print Assumptions C09_WF_roots_lookup_eq_spec.

(* ---- 5. END TO END: every history the router accepts (direct calls, committed and aborted
   transactions), EVERY method (with or without hostname routes, unknown, empty), every Host, every
   non-empty request path that starts with '/' and has no '*' byte and no empty segment, fuel >= the
   closed form: the model of the repaired roots.lookup returns exactly what the specification prescribes
   on the set of routes the sequential map holds — direct match, trailing-slash match or nothing, route
   pattern and ordered parameter values; never Panic, never OutOfFuel, never a non-leaf ---- *)
(* the unrestricted statement (false: see C09_end_to_end_unrestricted_refuted and docs/C09_e2e.md) *)
Definition C09_end_to_end_statement : Prop :=
  forall ops, Forall hop_ok ops -> forall m host path,
  exists fuel0, forall fuel, fuel0 <= fuel ->
  lres_sres (roots_lookup_g fuel (t_roots (final_txn ops)) m host path false [] []) =
  Some (spec_lookup_g (reg_patterns (final_map ops) m) host path).

Theorem C09_end_to_end : forall ops, Forall hop_ok ops ->
  forall m host path fuel,
  path <> [] -> pathok path = true -> okpath path = true ->
  e2e_fuel_h path (t_roots (final_txn ops)) m <= fuel ->
  lres_sres (roots_lookup_g fuel (t_roots (final_txn ops)) m host path false [] []) =
  Some (spec_lookup_g (reg_patterns (final_map ops) m) host path).
Proof. exact C09_end_to_end_thm. Qed.
Print Assumptions C09_end_to_end.

Theorem C09_end_to_end_big_fuel : forall ops, Forall hop_ok ops ->
  forall m host path,
  path <> [] -> pathok path = true -> okpath path = true ->
  Nat.leb (e2e_fuel_h path (t_roots (final_txn ops)) m) big_fuel = true ->
  lres_sres (roots_lookup_g big_fuel (t_roots (final_txn ops)) m host path false [] []) =
  Some (spec_lookup_g (reg_patterns (final_map ops) m) host path).
Proof. exact C09_end_to_end_big_fuel_thm. Qed.
Print Assumptions C09_end_to_end_big_fuel.

Theorem C09_history_hroot_ok : forall ops, Forall hop_ok ops -> forall root,
  In root (t_roots (final_txn ops)) -> hroot_ok root /\ nroute root = None.
Proof. exact C09_history_hroot_ok_thm. Qed.
Print Assumptions C09_history_hroot_ok.

(* ================================================================== *)
(* non-vacuity                                                          *)
(* ================================================================== *)
(* a history with a conflict, an invalid pattern, an aborted and a committed transaction, a delete *)
Definition h9 : list hop :=
  [ mkop KHandle "GET" "example.com/" 1 []; mkop KHandle "GET" "{sub}.example.com/x" 2 [];
    mkop KHandle "GET" "{s}.example.com/x" 3 [];                                                  (* conflict *)
    mkop KBegin "" "" 0 []; mkop KHandle "GET" "gone.org/" 4 []; mkop KAbort "" "" 0 [];
    mkop KHandle "GET" "a.{h}.com/{id}/y" 5 []; mkop KHandle "GET" "a.*{h}.com/" 6 [];             (* invalid *)
    mkop KBegin "" "" 0 []; mkop KHandle "GET" "a.b.com/{id}/x/" 7 []; mkop KHandle "GET" "/tmp" 8 [];
    mkop KDelete "GET" "/tmp" 0 []; mkop KCommit "" "" 0 [];
    mkop KHandle "GET" "/x" 9 []; mkop KHandle "GET" "/{v}/x" 10 []; mkop KHandle "POST" "/only/path/" 11 [] ].

Example h9_ok : Forall hop_ok h9.
Proof.
  unfold h9. repeat (constructor; [intros Hv; vm_compute in Hv; try discriminate; split; reflexivity|]).
  constructor.
Qed.

Example h9_registered :
  reg_patterns (final_map h9) (S2B "GET") =
    [S2B "example.com/"; S2B "{sub}.example.com/x"; S2B "a.{h}.com/{id}/y"; S2B "a.b.com/{id}/x/"; S2B "/x"; S2B "/{v}/x"].
Proof. vm_compute. reflexivity. Qed.

Definition h9_root : node := match t_roots (final_txn h9) with r :: _ => r | [] => Node [] None [] end.

(* the forest is well formed; the GET root has four children ("/", "a.", "example.com", "{sub}.example.com"),
   does not take the shortcut, and satisfies hroot_ok (boolean checker) *)
Example h9_shape :
  wf_txnb (final_txn h9) = true /\ map nkey (nchildren h9_root) = [S2B "/"; S2B "a."; S2B "example.com"; S2B "{sub}.example.com"]
  /\ shortcut h9_root = false /\ hroot_okb h9_root = true.
Proof. vm_compute. repeat split. Qed.

Example h9_hroot_ok : hroot_ok h9_root /\ nroute h9_root = None.
Proof. apply (C09_history_hroot_ok h9 h9_ok). vm_compute. left. reflexivity. Qed.

Definition h9_lookup (m host p : string) :=
  lres_sres (roots_lookup_g big_fuel (t_roots (final_txn h9)) (S2B m) (S2B host) (S2B p) false [] []).
Definition h9_spec (m host p : string) :=
  Some (spec_lookup_g (reg_patterns (final_map h9) (S2B m)) (S2B host) (S2B p)).
Definition h9_side (m p : string) : bool :=
  negb (Spec.is_nil (S2B p)) && pathok (S2B p) && okpath (S2B p)
  && Nat.leb (e2e_fuel_h (S2B p) (t_roots (final_txn h9)) (S2B m)) big_fuel.

(* hypotheses hold; both sides are the same non-trivial answer *)
Example h9_outcomes :
  forallb (h9_side "GET") ["/"%string; "/x"%string; "/x/"%string; "/7/x"%string; "/5/y/"%string; "/nope"%string] = true
  (* direct hostname match *)
  /\ h9_lookup "GET" "example.com" "/" = Some (SDirect (S2B "example.com/") [])
  /\ h9_lookup "GET" "www.example.com" "/x" = Some (SDirect (S2B "{sub}.example.com/x") [(S2B "sub", S2B "www")])
  (* hostname trailing slash (remove): pre-empts the path-only tsr candidate "/x" *)
  /\ h9_lookup "GET" "www.example.com" "/x/" = Some (STsr (S2B "{sub}.example.com/x") [(S2B "sub", S2B "www")])
  (* hostname trailing slash (add), found after backtracking from "b.com" ... and it pre-empts the
     path-only DIRECT match "/{v}/x" *)
  /\ h9_lookup "GET" "a.b.com" "/7/x" = Some (STsr (S2B "a.b.com/{id}/x/") [(S2B "id", S2B "7")])
  /\ h9_lookup "GET" "" "/7/x" = Some (SDirect (S2B "/{v}/x") [(S2B "v", S2B "7")])
  (* static label fails below, the parameter label is tried: remove-slash *)
  /\ h9_lookup "GET" "a.q.com" "/5/y/" = Some (STsr (S2B "a.{h}.com/{id}/y") [(S2B "h", S2B "q"); (S2B "id", S2B "5")])
  (* fallback: the hostname pass yields neither *)
  /\ h9_lookup "GET" "evil.org" "/x" = Some (SDirect (S2B "/x") [])
  /\ h9_lookup "GET" "evil.org" "/x/" = Some (STsr (S2B "/x") [])
  /\ h9_lookup "GET" "example.com.evil.org" "/" = Some SNone
  (* a Host containing '/' is no Host *)
  /\ h9_lookup "GET" "example.com/" "/x" = Some (SDirect (S2B "/x") [])
  /\ h9_lookup "GET" "example.com" "/nope" = Some SNone
  (* path-only method, unknown method *)
  /\ h9_lookup "POST" "example.com" "/only/path" = Some (STsr (S2B "/only/path/") [])
  /\ h9_lookup "PURGE" "example.com" "/x" = Some SNone
  (* the specification on the map's set gives the same answers *)
  /\ h9_spec "GET" "example.com" "/" = h9_lookup "GET" "example.com" "/"
  /\ h9_spec "GET" "www.example.com" "/x" = h9_lookup "GET" "www.example.com" "/x"
  /\ h9_spec "GET" "www.example.com" "/x/" = h9_lookup "GET" "www.example.com" "/x/"
  /\ h9_spec "GET" "a.b.com" "/7/x" = h9_lookup "GET" "a.b.com" "/7/x"
  /\ h9_spec "GET" "" "/7/x" = h9_lookup "GET" "" "/7/x"
  /\ h9_spec "GET" "a.q.com" "/5/y/" = h9_lookup "GET" "a.q.com" "/5/y/"
  /\ h9_spec "GET" "evil.org" "/x" = h9_lookup "GET" "evil.org" "/x"
  /\ h9_spec "GET" "evil.org" "/x/" = h9_lookup "GET" "evil.org" "/x/"
  /\ h9_spec "GET" "example.com.evil.org" "/" = h9_lookup "GET" "example.com.evil.org" "/"
  /\ h9_spec "GET" "example.com/" "/x" = h9_lookup "GET" "example.com/" "/x"
  /\ h9_spec "GET" "example.com" "/nope" = h9_lookup "GET" "example.com" "/nope".
Proof. vm_compute. repeat split. Qed.

(* instances of the end-to-end theorem itself *)
Example h9_instance_tsr_preempts : h9_lookup "GET" "a.b.com" "/7/x" = h9_spec "GET" "a.b.com" "/7/x".
Proof.
  apply (C09_end_to_end_big_fuel h9 h9_ok); [discriminate|reflexivity|vm_compute; reflexivity|vm_compute; reflexivity].
Qed.
Example h9_instance_post : h9_lookup "POST" "example.com" "/only/path" = h9_spec "POST" "example.com" "/only/path".
Proof.
  apply (C09_end_to_end_big_fuel h9 h9_ok); [discriminate|reflexivity|vm_compute; reflexivity|vm_compute; reflexivity].
Qed.

(* the hostname pass alone (C09_M1_eq_M2ht / C09_M2ht_eq_Spec_tsr): M2ht's candidate, M1's registers, S *)
Example h9_hostpass :
  m2ht_root false (S2B "/7/x") h9_root (S2B "a.b.com") <> TN None
  /\ (forall c, m2ht_root false (S2B "/7/x") h9_root (S2B "a.b.com") = TN c ->
        res_of [] c = Some (S2B "a.b.com/{id}/x/", [S2B "7"]))
  /\ select_tsr_in (map rpat (routes_of_node h9_root)) (S2B "a.b.com") (S2B "/7/x") true = Some (S2B "a.b.com/{id}/x/", [S2B "7"])
  /\ (exists n ps', lookup_by_domain big_fuel h9_root (S2B "a.b.com") (S2B "/7/x") false [] [] =
                    Found (Some n) true ps' [(S2B "id", S2B "7")])
  /\ Nat.leb (hroot_fuel (S2B "/7/x") h9_root) big_fuel = true.
Proof.
  split; [vm_compute; discriminate|]. split; [intros c; vm_compute; intros [= <-]; reflexivity|].
  split; [vm_compute; reflexivity|]. split; [|vm_compute; reflexivity].
  vm_compute. eexists. eexists. reflexivity.
Qed.

(* ---- the side conditions are needed: the unrestricted statement is false ---- *)
(* empty request path (C08_tsr_empty_path_refuted, replayed on /repo by p-tsr): route "/", path "":
   the matcher reports a trailing-slash match, the specification none *)
Theorem C09_end_to_end_unrestricted_refuted : ~ C09_end_to_end_statement.
Proof.
  intros H.
  destruct (H [mkop KHandle "GET" "/" 1 []]) with (m := S2B "GET") (host := @nil Ascii.ascii) (path := @nil Ascii.ascii) as [fuel0 Hf].
  - repeat (constructor; [intros Hv; vm_compute in Hv; try discriminate; split; reflexivity|]). constructor.
  - specialize (Hf (fuel0 + 20) ltac:(lia)). revert Hf.
    replace (fuel0 + 20) with (S (S (S (S (S (S (S (S (S (S (S (S (S (S (S (S (S (S (S (S fuel0)))))))))))))))))))) by lia.
    vm_compute. discriminate.
Qed.
Print Assumptions C09_end_to_end_unrestricted_refuted.
