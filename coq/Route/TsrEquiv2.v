(* TsrEquiv2 — reserved. *)
From FoxBase Require Import Bytes.
