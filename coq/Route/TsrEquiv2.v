(* TsrEquiv2 — C08, part 2: M2t's trailing-slash candidate = Spec.select_tsr_in (the selection on the
   slash-toggled path), and the request-level statement roots_lookup = spec_lookup including the
   tsr outcome, for path-only method trees.
   Owner: proof agent p-tsr. *)
From FoxBase Require Import Bytes.
From FoxRoute Require Import Node Lookup Spec SpecFacts Tree Corr StaticEquiv StaticEquiv2 TsrEquiv.
Open Scope char_scope.

(* ------------------------------------------------------------------ *)
(* small facts                                                          *)
(* ------------------------------------------------------------------ *)
Lemma talt_TN a b c : talt a b = TN c -> exists ca cb, a = TN ca /\ b = TN cb /\ c = cor ca cb.
Proof.
  destruct a as [l v|ca]; simpl; [discriminate|]. destruct b as [l v|cb]; simpl; [discriminate|].
  intros [= <-]. eauto.
Qed.
Lemma tcons_TN c0 b c : tcons c0 b = TN c -> exists cb, b = TN cb /\ c = cor c0 cb.
Proof. destruct b as [l v|cb]; simpl; [discriminate|]. intros [= <-]. eauto. Qed.
Lemma twith_TN v r c : twith v r = TN c -> exists c', r = TN c' /\ c = cwith v c'.
Proof. destruct r as [l k|c']; simpl; [discriminate|]. intros [= <-]. eauto. Qed.

Lemma seg_app_slash : forall q r, seg is_slash (q ++ "/" :: r) = seg is_slash q.
Proof.
  induction q as [|x q IH]; intros r; simpl; auto.
  destruct (is_slash x); auto. rewrite IH. reflexivity.
Qed.

Lemma index_byte_app_slash : forall q,
  index_byte (q ++ ["/"]) "/" = match index_byte q "/" with Some d => Some d | None => Some (List.length q) end.
Proof.
  induction q as [|x q IH]; simpl; auto.
  destruct (Ascii.eqb x "/"); auto. rewrite IH. destruct (index_byte q "/"); reflexivity.
Qed.

Lemma one_slash_snoc done : one_slash (done ++ [TStatic "/"]) = Spec.is_nil done.
Proof. destruct done as [|t [|t2 l]]; simpl; auto; destruct t; auto; destruct l; auto. Qed.
Lemma one_slash_snoc_catch done nm : one_slash (done ++ [TCatch nm]) = false.
Proof. destruct done as [|t [|t2 l]]; simpl; auto; destruct t; auto; destruct l; auto. Qed.

Lemma scant_fin_TD sub fin nm : (forall v, exists l k, fin v = TD l k) ->
  forall sf v q, List.length q < sf -> exists l k, scant sf sub fin nm v q = TD l k.
Proof.
  intros Hfin. induction sf as [|f IH]; intros v q Hl; [lia|]. cbn [scant].
  destruct (index_byte q "/") as [[|d]|] eqn:E; auto.
  destruct (sub (skipn (S d) q)) as [l k|c]; [eauto|].
  pose proof (index_byte_nth q (S d) E) as [_ Hd].
  destruct (IH (v ++ firstn (S d) q ++ ["/"]) (skipn 1 (skipn (S d) q))) as (l & k & ->).
  - rewrite !skipn_length. lia.
  - simpl. eauto.
Qed.

(* ------------------------------------------------------------------ *)
(* remove-slash: M2t on q ++ "/" against M2 on q                        *)
(* ------------------------------------------------------------------ *)
Definition pc (pm : option node) : tcand :=
  match pm with Some p => if is_leaf p then Some (p, []) else None | None => None end.
Definition hd_slash (kt : list token) : bool :=
  match kt with TStatic c :: _ => Ascii.eqb c "/" | _ => false end.
Definition rmc (pm : option node) (done kt : list token) (q : bytes) : tcand :=
  if Spec.is_nil q && Spec.is_nil done && hd_slash kt then pc pm else None.

Lemma par_cand_snoc pm done : par_cand pm (done ++ [TStatic "/"]) = if Spec.is_nil done then pc pm else None.
Proof.
  unfold par_cand, pc. rewrite one_slash_snoc. destruct pm as [p|]; [|destruct (Spec.is_nil done); reflexivity].
  destruct (is_leaf p), (Spec.is_nil done); reflexivity.
Qed.

Lemma scan_rm (subt : bytes -> tres) (sub : bytes -> mres) (fint : bytes -> tres) nm :
  (forall q1 c1, subt (q1 ++ ["/"]) = TN c1 -> c1 = sub q1) -> sub [] = None ->
  (forall v, fint v = TN None) ->
  forall sf sf' v q c, List.length (q ++ ["/"]) < sf -> List.length q < sf' ->
    scant sf subt fint nm v (q ++ ["/"]) = TN c -> c = scan sf' sub (fun _ => None) nm v q.
Proof.
  intros Hsub Hnil Hfin. induction sf as [|f IH]; intros sf' v q c Hl Hl' Hs; [lia|].
  destruct sf' as [|f']; [lia|]. cbn [scant scan] in *.
  rewrite index_byte_app_slash in Hs. rewrite app_length in Hl. simpl in Hl.
  destruct (index_byte q "/") as [[|d]|] eqn:E.
  - rewrite Hfin in Hs. congruence.
  - pose proof (index_byte_nth q (S d) E) as [_ Hd].
    rewrite firstn_app, skipn_app in Hs.
    replace (S d - List.length q) with 0 in Hs by lia.
    change (firstn 0 ["/"]) with (@nil ascii) in Hs. change (skipn 0 ["/"]) with ["/"] in Hs.
    rewrite !app_nil_r in Hs.
    destruct (subt (skipn (S d) q ++ ["/"])) as [l k|c1] eqn:Es; [discriminate|].
    apply Hsub in Es. apply tcons_TN in Hs. destruct Hs as (c2 & Hs & ->).
    assert (Hq' : skipn 1 (skipn (S d) q ++ ["/"]) = skipn 1 (skipn (S d) q) ++ ["/"]).
    { destruct (skipn (S d) q) as [|x r] eqn:Eq; [|reflexivity].
      apply (f_equal (@List.length ascii)) in Eq. rewrite skipn_length in Eq. simpl in Eq. lia. }
    rewrite Hq' in Hs. apply (IH f') in Hs.
    + rewrite <- Es. destruct c1 as [[l kvs]|]; simpl; auto.
    + rewrite app_length, !skipn_length. simpl. lia.
    + rewrite !skipn_length. lia.
  - destruct (List.length q) as [|d] eqn:El.
    + rewrite Hfin in Hs. congruence.
    + rewrite firstn_app, skipn_app, El in Hs.
      replace (S d - S d) with 0 in Hs by lia. rewrite <- El in Hs. rewrite skipn_all, firstn_all in Hs.
      simpl in Hs.
      destruct (subt ["/"]) as [l k|c1] eqn:Es; [discriminate|].
      apply (Hsub []) in Es. rewrite Hnil in Es. subst c1.
      apply tcons_TN in Hs. destruct Hs as (c2 & Hs & ->). simpl.
      destruct f as [|f]; simpl in Hs; [congruence|]. rewrite Hfin in Hs. congruence.
Qed.

Lemma m2_nil_pwf pre x : pwf pre x -> m2 x [] = None.
Proof.
  destruct x as [k r ch]. intros H. pose proof (pwf_inv _ _ _ _ H) as (kt & Hne & Hk & Hok & _).
  apply (m2_nil_path k r ch kt Hk Hne). eapply kt_ok_tok; eauto.
Qed.

Lemma hd_slash_start pre x : pwf pre x -> hd_slash (tokenize (nkey x)) = starts_with "/" (nkey x).
Proof.
  intros H. destruct (pwf_tokens _ _ H) as (t & kt & Htk & Hk & _). rewrite Htk, Hk.
  destruct t as [d|nm|nm]; reflexivity.
Qed.

Lemma starts_with_other a b k : starts_with a k = true -> starts_with b k = Ascii.eqb a b.
Proof. destruct k as [|x k]; simpl; [discriminate|]. intros H. apply Ascii.eqb_eq in H. subst. reflexivity. Qed.

Lemma is_leaf_nroute n : is_leaf n = match nroute n with Some _ => true | None => false end.
Proof. reflexivity. Qed.

Lemma kmt_rm : forall n pre, pwf pre n ->
  forall kt done pm q c, kt_ok (cend (nroute n) (nchildren n)) kt = true ->
    kmt true n (Kt true n) (sub0t true (nchildren n)) pm done kt (q ++ ["/"]) = TN c ->
    c = cor (rmc pm done kt q) (km n (Kof n) (sub0of (nchildren n)) kt q).
Proof.
  induction n as [k r ch IH] using node_ind'. intros pre Hwf.
  pose proof (pwf_inv _ _ _ _ Hwf) as (kt0 & Hne0 & Hk0 & Hok0 & Hr & Hnd & Hch).
  rewrite Forall_forall in IH, Hch. cbn [nroute nchildren].
  set (n := Node k r ch) in *.
  (* children *)
  assert (Hchild : forall x pm q c, In x ch -> m2t true pm x (q ++ ["/"]) = TN c ->
            c = cor (rmc pm [] (tokenize (nkey x)) q) (m2 x q)).
  { intros x pm q c Hx Hm. rewrite m2t_kmt in Hm. rewrite m2_km.
    destruct (pwf_tokens _ _ (Hch x Hx)) as (t & ktx & Htk & _ & Hokx). rewrite Htk in *.
    eapply (IH x Hx (pre ++ k)); eauto. }
  assert (Hcc : forall cc q c, m2t_child true n cc (q ++ ["/"]) = TN c ->
            c = match first_child cc ch with
                | Some x => cor (rmc (Some n) [] (tokenize (nkey x)) q) (m2 x q)
                | None => None end).
  { intros cc q c. unfold m2t_child. change (nchildren n) with ch. destruct (first_child cc ch) as [x|] eqn:Ex.
    - apply Hchild. apply first_child_in in Ex. tauto.
    - congruence. }
  induction kt as [|t kt IHkt]; intros done pm q c Hok Hm.
  - (* key consumed *)
    cbn [kmt km] in *. unfold rmc. cbn [hd_slash]. rewrite andb_false_r. cbn [cor].
    unfold Kt, Kt_gen in Hm.
    destruct q as [|c0 q'].
    + (* only "/" left *)
      cbn [app] in Hm. apply tcons_TN in Hm. destruct Hm as (cb & Hm & ->).
      apply talt_TN in Hm. destruct Hm as (c1 & c23 & H1 & Hm & ->).
      apply talt_TN in Hm. destruct Hm as (c2 & c3 & H2 & H3 & ->).
      apply (Hcc "/" []) in H1. apply (Hcc "{" []) in H2. apply (Hcc "*" []) in H3.
      cbn [Kof nroute nchildren]. unfold n at 1. cbn [nroute nchildren is_one_slash].
      rewrite Ascii.eqb_refl, andb_true_r.
      assert (Hwild : forall cc c', cc <> "/" ->
                c' = match first_child cc ch with
                     | Some x => cor (rmc (Some n) [] (tokenize (nkey x)) []) (m2 x [])
                     | None => None end -> c' = None).
      { intros cc c' Hcc' ->. destruct (first_child cc ch) as [y|] eqn:Ey; auto.
        apply first_child_in in Ey. destruct Ey as [Hy Hsy].
        rewrite (m2_nil_pwf _ _ (Hch y Hy)), cor_none_r. unfold rmc.
        rewrite (hd_slash_start _ _ (Hch y Hy)), (starts_with_other cc "/" _ Hsy).
        destruct (Ascii.eqb_spec cc "/"); [congruence|]. rewrite andb_false_r. reflexivity. }
      assert (H2' : c2 = None) by (apply (Hwild "{"); [discriminate|exact H2]).
      assert (H3' : c3 = None) by (apply (Hwild "*"); [discriminate|exact H3]).
      clear H2 H3. subst c2 c3. cbn [cor]. rewrite cor_none_r.
      rewrite H1. destruct (first_child "/" ch) as [x|] eqn:Ex; cbn [is_none andb].
      * apply first_child_in in Ex. destruct Ex as [Hx Hsx].
        rewrite (m2_nil_pwf _ _ (Hch x Hx)), cor_none_r. unfold rmc.
        rewrite (hd_slash_start _ _ (Hch x Hx)), Hsx. cbn [Spec.is_nil andb pc].
        unfold is_leaf, n. simpl. destruct r; reflexivity.
      * rewrite cor_none_r. unfold is_leaf, n. simpl. destruct r; reflexivity.
    + (* more than "/" left: no candidate here, the children see q *)
      cbn [app] in Hm. apply tcons_TN in Hm. destruct Hm as (cb & Hm & ->).
      apply talt_TN in Hm. destruct Hm as (c1 & c23 & H1 & Hm & ->).
      apply talt_TN in Hm. destruct Hm as (c2 & c3 & H2 & H3 & ->).
      change (c0 :: q' ++ ["/"]) with ((c0 :: q') ++ ["/"]) in H1, H2, H3.
      apply (Hcc c0) in H1. apply (Hcc "{") in H2. apply (Hcc "*") in H3.
      assert (Hone : is_one_slash (c0 :: q' ++ ["/"]) = false) by (destruct q'; reflexivity).
      rewrite Hone, andb_false_r. cbn [cor Kof]. unfold n at 1 2 3. cbn [nchildren].
      unfold m2_child, alt.
      assert (Hr0 : forall x, rmc (Some n) [] (tokenize (nkey x)) (c0 :: q') = None) by reflexivity.
      rewrite H1, H2, H3.
      destruct (first_child c0 ch) as [x|]; [rewrite Hr0; cbn [cor]|];
        destruct (first_child "{" ch) as [y|]; try rewrite Hr0; cbn [cor];
        destruct (first_child "*" ch) as [w|]; try rewrite Hr0; cbn [cor];
        repeat match goal with |- context [m2 ?a ?b] => destruct (m2 a b) as [[? ?]|] end; reflexivity.
  - (* a token *)
    destruct q as [|c0 q'].
    + (* the path is exactly "/" here *)
      cbn [app kmt km] in *. rewrite cor_none_r.
      destruct t as [d|nm|nm].
      * unfold rmc. cbn [Spec.is_nil andb hd_slash].
        destruct (Ascii.eqb d "/") eqn:Ed; cbn [andb] in Hm.
        -- change (sbyte "/") with true in Hm. cbn iota in Hm.
           apply Ascii.eqb_eq in Ed. subst d. rewrite andb_true_r.
           destruct kt as [|t' kt'].
           ++ cbn [kmt] in Hm. unfold Kt, Kt_gen in Hm. destruct (is_leaf n); [discriminate|].
              injection Hm as <-. apply par_cand_snoc.
           ++ cbn [kmt] in Hm. injection Hm as <-. unfold exh. apply par_cand_snoc.
        -- injection Hm as <-. rewrite andb_false_r. reflexivity.
      * cbn [seg is_slash] in Hm. change (is_slash "/") with true in Hm. cbn iota in Hm.
        injection Hm as <-. unfold rmc. cbn [hd_slash]. rewrite andb_false_r. reflexivity.
      * unfold rmc. cbn [hd_slash]. rewrite andb_false_r.
        destruct (kt_ok_cons _ _ _ Hok) as [[Hbad _]|(nm' & Hnm & _ & Hok' & Hend)]; [discriminate|].
        destruct kt as [|t' kt'].
        -- exfalso. destruct (sub0t true ch) as [sb|]; [|discriminate].
           destruct (scant_fin_TD sb (fun v => TD n [(nm, v)]) nm ltac:(eauto) (S (List.length ["/"])) [] ["/"] ltac:(simpl; lia))
             as (l & kk & E). rewrite E in Hm. discriminate.
        -- cbn [scant List.length index_byte] in Hm. change (Ascii.eqb "/" "/") with true in Hm. cbn iota in Hm.
           cbn [starts_with app] in Hm. change (Ascii.eqb "/" "/") with true in Hm. cbn iota in Hm.
           congruence.
    + (* at least one byte before the final "/" *)
      assert (Hrm : rmc pm done (t :: kt) (c0 :: q') = None) by reflexivity.
      rewrite Hrm. cbn [cor]. cbn [app kmt km] in *.
      destruct (kt_ok_cons _ _ _ Hok) as [[Hokt Hok']|(nm' & -> & Hnok & Hok' & Hend)].
      * destruct t as [d|nm|nm]; simpl in Hokt; [| |discriminate].
        -- destruct (Ascii.eqb d c0 && sbyte c0); [|congruence].
           apply IHkt in Hm; auto. rewrite Hm. unfold rmc.
           destruct (done ++ [TStatic d]) eqn:Ed; [destruct done; discriminate|].
           rewrite andb_false_r. reflexivity.
        -- change (c0 :: q' ++ ["/"]) with ((c0 :: q') ++ "/" :: []) in Hm. rewrite seg_app_slash in Hm.
           destruct (seg is_slash (c0 :: q')) as [|v0 vv] eqn:Ev; [congruence|].
           apply twith_TN in Hm. destruct Hm as (c' & Hm & ->).
           assert (Hlen : List.length (v0 :: vv) <= List.length (c0 :: q')).
           { rewrite <- Ev. clear. induction (c0 :: q') as [|x0 l0 IHl0]; simpl; auto. destruct (is_slash x0); simpl; lia. }
           rewrite skipn_app in Hm.
           replace (List.length (v0 :: vv) - List.length (c0 :: q')) with 0 in Hm by lia. simpl skipn in Hm at 2.
           apply IHkt in Hm; auto. rewrite Hm. unfold rmc.
           destruct (done ++ [TParam nm]) eqn:Ed; [destruct done; discriminate|].
           rewrite andb_false_r. cbn [cor].
           destruct (km n (Kof n) (sub0of ch) kt (skipn (List.length (v0 :: vv)) (c0 :: q'))) as [[l1 kvs1]|]; reflexivity.
      * destruct kt as [|t' kt'].
        -- exfalso. destruct (sub0t true ch) as [sb|]; [|discriminate].
           destruct (scant_fin_TD sb (fun v => TD n [(nm', v)]) nm' ltac:(eauto)
                       (S (List.length (c0 :: q' ++ ["/"]))) [] (c0 :: q' ++ ["/"]) ltac:(lia)) as (l & kk & E).
           rewrite E in Hm. discriminate.
        -- change (c0 :: q' ++ ["/"]) with ((c0 :: q') ++ ["/"]) in Hm.
           eapply (scan_rm _ (fun q0 => km n (Kof n) (sub0of ch) (t' :: kt') q0)); [| | | | |exact Hm].
           ++ intros q1 c1 H1. apply IHkt in H1; auto. rewrite H1. unfold rmc, pc.
              rewrite andb_comm. destruct (hd_slash (t' :: kt') && _); reflexivity.
           ++ reflexivity.
           ++ intros v. unfold exh, par_cand. rewrite one_slash_snoc_catch.
              destruct (starts_with "/" v); [reflexivity|]. destruct pm as [p|]; [rewrite andb_false_r|]; reflexivity.
           ++ lia.
           ++ lia.
Qed.

(* ------------------------------------------------------------------ *)
(* add-slash: S on candidates filtered by a predicate on the pattern    *)
(* ------------------------------------------------------------------ *)
Section Filt.
  Variable g : bytes -> bool.
  Definition G (k : cand) : bool := g (pat k).

  Lemma filter_adv_static c cs : adv_static c (filter G cs) = filter G (adv_static c cs).
  Proof.
    unfold adv_static. induction cs as [|k cs IH]; simpl; auto.
    rewrite filter_app, <- IH. destruct (G k) eqn:E; simpl.
    - f_equal. destruct (toks k) as [|[d|nm|nm] t]; simpl; auto.
      destruct (Ascii.eqb c d); simpl; auto. unfold G in *. simpl. rewrite E. reflexivity.
    - destruct (toks k) as [|[d|nm|nm] t]; simpl; auto.
      destruct (Ascii.eqb c d); simpl; auto. unfold G in *. simpl. rewrite E. reflexivity.
  Qed.
  Lemma filter_adv_param cs : adv_param (filter G cs) = filter G (adv_param cs).
  Proof.
    unfold adv_param. induction cs as [|k cs IH]; simpl; auto.
    rewrite filter_app, <- IH. destruct (G k) eqn:E; simpl.
    - f_equal. destruct (toks k) as [|[d|nm|nm] t]; simpl; auto. unfold G in *. simpl. rewrite E. reflexivity.
    - destruct (toks k) as [|[d|nm|nm] t]; simpl; auto. unfold G in *. simpl. rewrite E. reflexivity.
  Qed.
  Lemma filter_adv_catch cs : adv_catch (filter G cs) = filter G (adv_catch cs).
  Proof.
    unfold adv_catch. induction cs as [|k cs IH]; simpl; auto.
    rewrite filter_app, <- IH. destruct (G k) eqn:E; simpl.
    - f_equal. destruct (toks k) as [|[d|nm|nm] t]; simpl; auto. unfold G in *. simpl. rewrite E. reflexivity.
    - destruct (toks k) as [|[d|nm|nm] t]; simpl; auto. unfold G in *. simpl. rewrite E. reflexivity.
  Qed.

  Lemma leaf_filter_none cs : (forall k, In k cs -> toks k <> []) -> leaf (filter G cs) = None.
  Proof. intros H. apply StaticEquiv2.leaf_none. intros k Hk. apply filter_In in Hk. apply H. tauto. Qed.

  Lemma fsel_nil_path f cs vals :
    select (S f) cs [] 0 vals = match leaf cs with Some p => Some (p, rev vals) | None => None end.
  Proof. reflexivity. Qed.

  Lemma fsel_short f t kt r ch vals : select (S f) (filter G (cands (t :: kt) r ch)) [] 0 vals = None.
  Proof.
    rewrite fsel_nil_path, leaf_filter_none; auto.
    intros k Hk. unfold cands in Hk. apply in_map_iff in Hk. destruct Hk as (k0 & <- & _). simpl. discriminate.
  Qed.

  Lemma fsel_static f d kt r ch c p' vals :
    select (S f) (filter G (cands (TStatic d :: kt) r ch)) (c :: p') 0 vals =
    if Ascii.eqb d c && sbyte c then select f (filter G (cands kt r ch)) p' 0 vals else None.
  Proof.
    cbn [select]. rewrite filter_adv_param, filter_adv_catch, filter_adv_static.
    rewrite adv_param_cands_static, adv_catch_cands_static, adv_static_cands_static.
    cbn [filter Nat.eqb negb pred]. unfold orelse. rewrite (Ascii.eqb_sym d c).
    destruct (sbyte c) eqn:Es.
    - destruct (sbyte_split c Es) as [-> ->]. cbn [orb]. rewrite andb_true_r.
      destruct (Ascii.eqb c d); [|reflexivity].
      rewrite match_nil_select. destruct (select f (filter G (cands kt r ch)) p' 0 vals); reflexivity.
    - rewrite (sbyte_false c Es). rewrite andb_false_r. reflexivity.
  Qed.

  Lemma fsel_param f nm kt r ch c p' vals :
    select (S f) (filter G (cands (TParam nm :: kt) r ch)) (c :: p') 0 vals =
    match seg is_slash (c :: p') with
    | [] => None
    | v => select f (filter G (cands kt r ch)) (skipn (List.length v) (c :: p')) 0 (v :: vals)
    end.
  Proof.
    cbn [select]. rewrite filter_adv_param, filter_adv_catch, filter_adv_static.
    rewrite adv_param_cands_param, adv_catch_cands_param, adv_static_cands_param.
    cbn [filter Nat.eqb negb]. unfold orelse.
    assert ((if Ascii.eqb c "{" || Ascii.eqb c "*" then None else @None (bytes * list bytes)) = None) as ->
      by (destruct (Ascii.eqb c "{" || Ascii.eqb c "*"); reflexivity).
    change (seg (fun x : ascii => Ascii.eqb x "/") (c :: p')) with (seg is_slash (c :: p')).
    destruct (filter G (cands kt r ch)) as [|k0 l] eqn:E.
    - destruct (seg is_slash (c :: p')); [reflexivity|]. rewrite select_nil. reflexivity.
    - rewrite <- E. destruct (seg is_slash (c :: p')) as [|v0 v]; [reflexivity|].
      replace (0 - List.length (v0 :: v)) with 0 by lia.
      destruct (select f (filter G (cands kt r ch)) _ 0 _); reflexivity.
  Qed.

  Lemma fsel_catch f nm kt r ch c p' vals :
    select (S f) (filter G (cands (TCatch nm :: kt) r ch)) (c :: p') 0 vals =
    try_splits (List.length (c :: p')) 1 (c :: p') (fun v rest => select f (filter G (cands kt r ch)) rest 0 (v :: vals)).
  Proof.
    cbn [select]. rewrite filter_adv_param, filter_adv_catch, filter_adv_static.
    rewrite adv_param_cands_catch, adv_catch_cands_catch, adv_static_cands_catch.
    cbn [filter Nat.eqb negb]. unfold orelse at 1 2.
    assert ((if Ascii.eqb c "{" || Ascii.eqb c "*" then None else @None (bytes * list bytes)) = None) as ->
      by (destruct (Ascii.eqb c "{" || Ascii.eqb c "*"); reflexivity).
    destruct (filter G (cands kt r ch)) as [|k0 l] eqn:E; [|reflexivity].
    symmetry. apply StaticEquiv2.try_splits_none. intros v rest. apply select_nil.
  Qed.

  Lemma fbelow_adv pre r ch : NoDup (heads ch) -> (forall x, In x ch -> pwf pre x) ->
    (forall c, sbyte c = true ->
       adv_static c (filter G (below r ch)) = match first_child c ch with Some x => filter G (tl_cands x) | None => [] end) /\
    adv_param (filter G (below r ch)) = match first_child "{" ch with Some y => filter G (tl_cands y) | None => [] end /\
    adv_catch (filter G (below r ch)) = match first_child "*" ch with Some w => filter G (tl_cands w) | None => [] end.
  Proof.
    intros Hnd Hch. split; [|split].
    - intros c Hc. rewrite filter_adv_static. destruct (adv_own c r) as (Ho1 & _ & _).
      unfold below. rewrite adv_static_app, Ho1, adv_static_flat. simpl.
      rewrite (flat_map_first _ tl_cands c ch Hnd); [destruct (first_child c ch); reflexivity|].
      intros x Hx. eapply adv_static_child; eauto.
    - rewrite filter_adv_param. destruct (adv_own "a" r) as (_ & Ho2 & _).
      unfold below. rewrite adv_param_app, Ho2, adv_param_flat. simpl.
      rewrite (flat_map_first _ tl_cands "{" ch Hnd); [destruct (first_child "{" ch); reflexivity|].
      intros x Hx. eapply adv_param_child; eauto.
    - rewrite filter_adv_catch. destruct (adv_own "a" r) as (_ & _ & Ho3).
      unfold below. rewrite adv_catch_app, Ho3, adv_catch_flat. simpl.
      rewrite (flat_map_first _ tl_cands "*" ch Hnd); [destruct (first_child "*" ch); reflexivity|].
      intros x Hx. eapply adv_catch_child; eauto.
  Qed.

  Lemma fsel_below pre f r ch c p' vals :
    NoDup (heads ch) -> (forall x, In x ch -> pwf pre x) ->
    select (S f) (filter G (below r ch)) (c :: p') 0 vals =
    orelse (if sbyte c then
              match first_child c ch with Some x => select f (filter G (tl_cands x)) p' 0 vals | None => None end
            else None)
      (fun _ =>
       orelse
         (match first_child "{" ch with
          | Some y => match seg is_slash (c :: p') with
                      | [] => None
                      | a :: l => select f (filter G (tl_cands y)) (skipn (List.length (a :: l)) (c :: p')) 0 ((a :: l) :: vals)
                      end
          | None => None
          end)
         (fun _ =>
          match first_child "*" ch with
          | Some w => try_splits (List.length (c :: p')) 1 (c :: p')
                        (fun v rest => select f (filter G (tl_cands w)) rest 0 (v :: vals))
          | None => None
          end)).
  Proof.
    intros Hnd Hch. cbn [select]. cbn [Nat.eqb negb pred].
    destruct (fbelow_adv pre r ch Hnd Hch) as (Hstatic & Hparam & Hcatch).
    rewrite Hcatch, Hparam.
    change (seg (fun x : ascii => Ascii.eqb x "/") (c :: p')) with (seg is_slash (c :: p')).
    assert (HB : match match first_child "{" ch with Some y => filter G (tl_cands y) | None => [] end with
                 | [] => None
                 | c0 :: l =>
                     match seg is_slash (c :: p') with
                     | [] => None
                     | _ :: _ => select f (c0 :: l) (skipn (List.length (seg is_slash (c :: p'))) (c :: p'))
                                   (0 - List.length (seg is_slash (c :: p'))) (seg is_slash (c :: p') :: vals)
                     end
                 end =
                 match first_child "{" ch with
                 | Some y => match seg is_slash (c :: p') with
                             | [] => None
                             | a :: l => select f (filter G (tl_cands y)) (skipn (List.length (a :: l)) (c :: p')) 0 ((a :: l) :: vals)
                             end
                 | None => None
                 end).
    { destruct (first_child "{" ch) as [y|]; [|reflexivity].
      destruct (seg is_slash (c :: p')) as [|a l0].
      - destruct (filter G (tl_cands y)); reflexivity.
      - replace (0 - List.length (a :: l0)) with 0 by lia.
        destruct (filter G (tl_cands y)) eqn:E; [rewrite select_nil; reflexivity|reflexivity]. }
    assert (HC : match match first_child "*" ch with Some w => filter G (tl_cands w) | None => [] end with
                 | [] => None
                 | c0 :: l => try_splits (List.length (c :: p')) 1 (c :: p')
                                (fun v rest => select f (c0 :: l) rest 0 (v :: vals))
                 end =
                 match first_child "*" ch with
                 | Some w => try_splits (List.length (c :: p')) 1 (c :: p')
                               (fun v rest => select f (filter G (tl_cands w)) rest 0 (v :: vals))
                 | None => None
                 end).
    { destruct (first_child "*" ch) as [w|]; [|reflexivity].
      destruct (filter G (tl_cands w)) eqn:E; [|reflexivity].
      symmetry. apply StaticEquiv2.try_splits_none. intros v rest. apply select_nil. }
    rewrite HB, HC. clear HB HC.
    destruct (sbyte c) eqn:Es.
    - destruct (sbyte_split c Es) as [-> ->]. cbn [orb].
      rewrite (Hstatic c Es). destruct (first_child c ch) as [x|]; [|reflexivity].
      rewrite match_nil_select. reflexivity.
    - rewrite (sbyte_false c Es). reflexivity.
  Qed.

  Lemma leaf_fbelow pre r ch : (forall x, In x ch -> pwf pre x) ->
    leaf (filter G (below r ch)) = match r with Some rt => if g (rpat rt) then Some (rpat rt) else None | None => None end.
  Proof.
    intros Hch. unfold below. rewrite filter_app.
    assert (Hc : leaf (filter G (flat_map cands_of ch)) = None).
    { apply leaf_filter_none. intros k0 Hk0. apply in_flat_map in Hk0. destruct Hk0 as (x & Hx & Hk0).
      apply (cands_of_toks pre x k0 (Hch x Hx) Hk0). }
    destruct r as [rt|]; simpl; [|exact Hc].
    unfold G at 1. simpl. destruct (g (rpat rt)); [reflexivity|exact Hc].
  Qed.
End Filt.

Notation sse := (G static_slash_end).

Lemma res_of_cor vals a b : res_of vals (cor a b) = orelse (res_of vals a) (fun _ => res_of vals b).
Proof. destruct a as [[l kvs]|]; reflexivity. Qed.
Lemma res_of_cwith vals nm v c : res_of vals (cwith [(nm, v)] c) = res_of (v :: vals) c.
Proof. destruct c as [[l kvs]|]; simpl; auto. rewrite <- app_assoc. reflexivity. Qed.

Lemma hss_skipn_false (p : bytes) j : has_suffix_slash p = false -> has_suffix_slash (skipn j p) = false.
Proof.
  intros H. destruct (Nat.lt_ge_cases j (List.length p)) as [Hj|Hj].
  - rewrite has_suffix_slash_skipn; auto.
  - rewrite skipn_all2 by lia. reflexivity.
Qed.

Lemma hss_snoc (a : bytes) : has_suffix_slash (a ++ ["/"]) = true.
Proof. unfold has_suffix_slash. rewrite rev_app_distr. reflexivity. Qed.

Lemma nostar_app a b : nostar (a ++ b) = nostar a && nostar b.
Proof. unfold nostar. apply forallb_app. Qed.

Lemma noempty_snoc : forall p, noempty p = true -> has_suffix_slash p = false -> noempty (p ++ ["/"]) = true.
Proof.
  induction p as [|c1 p IH]; intros Hn Hs; [reflexivity|].
  destruct p as [|c2 p].
  - simpl. unfold has_suffix_slash in Hs. simpl in Hs. rewrite Hs. reflexivity.
  - change ((c1 :: c2 :: p) ++ ["/"]) with (c1 :: (c2 :: p) ++ ["/"]).
    cbn [noempty] in Hn |- *. cbn [app]. apply andb_prop in Hn. destruct Hn as [H1 H2].
    rewrite H1. cbn [andb]. apply IH; auto.
    rewrite <- (has_suffix_slash_skipn (c1 :: c2 :: p) 1) in Hs by (simpl; lia). exact Hs.
Qed.

Lemma okpath_snoc p : okpath p = true -> has_suffix_slash p = false -> okpath (p ++ ["/"]) = true.
Proof.
  unfold okpath. intros H Hs. apply andb_prop in H. destruct H as [H1 H2].
  rewrite nostar_app, H1, noempty_snoc; auto.
Qed.

Lemma orelse_congr {A} (a : option A) f f' : (a = None -> f tt = f' tt) -> orelse a f = orelse a f'.
Proof. destruct a; simpl; auto. Qed.

(* try_splits on p ++ "/" against the catch-all loop on p *)
Lemma ts_scant (F : bytes -> bytes -> option (bytes * list bytes)) (sub fin : bytes -> tres) nm vals p :
  p <> [] -> hd "/" p <> "/" -> has_suffix_slash p = false ->
  (forall j r c1, skipn j p = "/" :: r -> sub ("/" :: r) = TN c1 ->
      F (firstn j p) (("/" :: r) ++ ["/"]) = res_of (firstn j p :: vals) c1) ->
  (forall cf, fin p = TN cf -> F p ["/"] = res_of vals cf) ->
  F (p ++ ["/"]) [] = None ->
  forall sf v q i c, p = v ++ q -> i = Nat.max 1 (List.length v) -> q <> [] ->
    segstart q = true -> noempty q = true -> List.length q < sf ->
    scant sf sub fin nm v q = TN c ->
    try_splits (List.length (p ++ ["/"]) + 1 - i) i (p ++ ["/"]) F = res_of vals c.
Proof.
  intros Hne Hhd Hsl HF Hfin Hend.
  set (s := p ++ ["/"]) in *.
  assert (Hls : List.length s = List.length p + 1) by (unfold s; rewrite app_length; reflexivity).
  induction sf as [|sf IH]; intros v q i c Hp Hi Hq Hseg Hno Hsf Hsc; [lia|].
  cbn [scant] in Hsc.
  assert (Hlen : List.length p = List.length v + List.length q) by (rewrite Hp; apply app_length).
  assert (Hqpos : 1 <= List.length q) by (destruct q; [congruence|simpl; lia]).
  destruct (index_byte q "/") as [[|d]|] eqn:Eidx.
  - destruct q as [|c0 q']; [discriminate|]. simpl in Eidx, Hseg.
    destruct (Ascii.eqb c0 "/"); [discriminate|]. destruct (index_byte q' "/"); discriminate.
  - pose proof (index_byte_nth q (S d) Eidx) as [Hnth Hdl].
    remember (List.length v + S d) as j eqn:Hj.
    assert (Hskq : exists q'', skipn (S d) q = "/" :: q'').
    { destruct (skipn (S d) q) as [|x q''] eqn:Eq'; [apply skipn_nil_len in Eq'; lia|].
      pose proof (skipn_cons_nth _ _ _ _ Eq') as (H1 & _). exists q''. congruence. }
    destruct Hskq as (q'' & Eq').
    assert (Hskp : skipn j p = "/" :: q'') by (rewrite Hj, Hp, skipn_app_len; exact Eq').
    assert (Hfip : firstn j p = v ++ firstn (S d) q) by (rewrite Hj, Hp; apply firstn_app_len).
    assert (Hjl : j < List.length p) by lia.
    assert (Hsks : skipn j s = ("/" :: q'') ++ ["/"]).
    { unfold s. rewrite skipn_app. replace (j - List.length p) with 0 by lia. rewrite Hskp. reflexivity. }
    assert (Hfis : firstn j s = firstn j p).
    { unfold s. rewrite firstn_app. replace (j - List.length p) with 0 by lia. simpl. apply app_nil_r. }
    rewrite Eq' in Hsc.
    destruct (sub ("/" :: q'')) as [l k|c1] eqn:Es; [discriminate|].
    apply tcons_TN in Hsc. destruct Hsc as (c2 & Hsc & ->).
    replace (List.length s + 1 - i) with ((j - i) + S (List.length s - j)) by lia.
    rewrite ts_skip.
    2:{ intros t Ht.
        destruct (index_byte_before q (S d) Eidx (t - List.length v) ltac:(lia)) as (y & r & Hy & Hyn).
        apply (split_ok_nonslash s t y (r ++ ["/"])); auto.
        unfold s. rewrite skipn_app. replace (t - List.length p) with 0 by lia. simpl skipn at 2.
        rewrite Hp. replace t with (List.length v + (t - List.length v)) by lia. rewrite skipn_app_len, Hy. reflexivity. }
    replace (i + (j - i)) with j by lia.
    rewrite try_splits_S.
    assert (Hok : split_ok s j = true).
    { apply (split_ok_slash s j (q'' ++ ["/"])); auto.
      - rewrite Hfis, Hfip.
        destruct (index_byte_before q (S d) Eidx d ltac:(lia)) as (y & r & Hy & Hyn).
        rewrite last_app_nonnil
          by (intros Hc; apply (f_equal (@List.length ascii)) in Hc; rewrite firstn_length in Hc; cbn [List.length] in Hc; lia).
        rewrite (last_firstn_S d q y r "/" Hy). exact Hyn.
      - unfold s. destruct p; [congruence|]. exact Hhd. }
    rewrite Hok, Hsks, Hfis. rewrite (HF j q'' c1 Hskp Es). rewrite Hfip.
    rewrite res_of_cor, res_of_cwith.
    apply orelse_congr. intros _.
    assert (Hq2 : q'' <> []).
    { intros ->. rewrite <- (firstn_skipn (S d) q), Eq', app_assoc in Hp. rewrite Hp, hss_snoc in Hsl. discriminate. }
    simpl skipn in Hsc.
    assert (Hqq : q = firstn (S d) q ++ "/" :: q'') by (rewrite <- Eq'; symmetry; apply firstn_skipn).
    assert (Hl2 : List.length (v ++ firstn (S d) q ++ ["/"]) = S j).
    { rewrite !app_length, firstn_length. cbn [List.length]. lia. }
    replace (List.length s - j) with (List.length s + 1 - S j) by lia.
    apply (IH (v ++ firstn (S d) q ++ ["/"]) q'' (S j) c2); auto.
    + rewrite Hp. rewrite Hqq at 1. rewrite <- !app_assoc. reflexivity.
    + rewrite Hl2. lia.
    + apply (noempty_after_slash ("/" :: q'') q''); auto. rewrite <- Eq'. apply noempty_skipn. exact Hno.
    + assert (noempty ("/" :: q'') = true) as H by (rewrite <- Eq'; apply noempty_skipn; exact Hno).
      simpl in H. destruct q''; [congruence|]. apply andb_prop in H. tauto.
    + assert (List.length ("/" :: q'') = List.length q - S d) by (rewrite <- Eq'; apply skipn_length).
      simpl in H. lia.
  - (* no further '/' in p: the value is the rest of p, followed by the added '/' *)
    replace (List.length s + 1 - i) with ((List.length p - i) + 2) by lia.
    rewrite ts_skip.
    2:{ intros t Ht.
        destruct (index_byte_none_all q Eidx (t - List.length v) ltac:(lia)) as (y & r & Hy & Hyn).
        apply (split_ok_nonslash s t y (r ++ ["/"])); auto.
        unfold s. rewrite skipn_app. replace (t - List.length p) with 0 by lia. simpl skipn at 2.
        rewrite Hp. replace t with (List.length v + (t - List.length v)) by lia. rewrite skipn_app_len, Hy. reflexivity. }
    replace (i + (List.length p - i)) with (List.length p) by lia.
    rewrite try_splits_S.
    assert (Hskl : skipn (List.length p) s = ["/"]) by (unfold s; apply skipn_len_app).
    assert (Hfil : firstn (List.length p) s = p) by (unfold s; apply firstn_len_app).
    assert (Hok : split_ok s (List.length p) = true).
    { apply (split_ok_slash s (List.length p) []); auto.
      - rewrite Hfil, Hp. rewrite last_app_nonnil by exact Hq.
        destruct (index_byte_none_all q Eidx (List.length q - 1) ltac:(lia)) as (y & r & Hy & Hyn).
        assert (r = []) as ->.
        { apply (f_equal (@List.length ascii)) in Hy. rewrite skipn_length in Hy. simpl in Hy.
          destruct r; [reflexivity|simpl in Hy; lia]. }
        rewrite <- (firstn_skipn (List.length q - 1) q), Hy. rewrite last_app_nonnil by discriminate. exact Hyn.
      - unfold s. destruct p; [congruence|]. exact Hhd. }
    rewrite Hok, Hskl, Hfil. rewrite <- Hp in Hsc. rewrite (Hfin c Hsc).
    destruct (res_of vals c) as [x|]; [reflexivity|]. cbn [orelse].
    rewrite try_splits_S. unfold split_ok. replace (S (List.length p)) with (List.length s) by lia.
    rewrite skipn_all, firstn_all, Hend. reflexivity.
Qed.

Lemma sse_render pt lt : forallb tok_ok (pt ++ [lt]) = true ->
  static_slash_end (render (pt ++ [lt])) = match lt with TStatic c => Ascii.eqb c "/" | _ => false end.
Proof.
  intros H. unfold static_slash_end. rewrite tokenize_render by exact H. rewrite rev_app_distr. simpl.
  destruct lt as [c|nm|nm]; auto.
  destruct c as [[] [] [] [] [] [] [] []]; reflexivity.
Qed.

Lemma length_render_one kt : Nat.eqb (List.length (render (TStatic "/" :: kt))) 1 = Spec.is_nil kt.
Proof.
  destruct kt as [|t kt]; [reflexivity|]. rewrite !render_cons_len. pose proof (render_tok_len_pos t).
  simpl. apply Nat.eqb_neq. lia.
Qed.

Lemma starts_render cc t kt : starts_with cc (render (t :: kt)) = true ->
  match t with TStatic d => d = cc | TParam _ => cc = "{" | TCatch _ => cc = "*" end.
Proof.
  destruct t; cbn [starts_with render flat_map render_tok app]; intros H; apply Ascii.eqb_eq in H; auto.
Qed.

Lemma kmt_add : forall n pre pt, pwf pre n -> pre = render pt -> forallb tok_ok pt = true ->
  forall kt d0 pm done fuel p vals c,
    tokenize (nkey n) = d0 ++ kt -> kt_ok (cend (nroute n) (nchildren n)) kt = true ->
    List.length p + 2 < fuel -> okpath p = true -> has_suffix_slash p = false ->
    kmt false n (Kt false n) (sub0t false (nchildren n)) pm done kt p = TN c ->
    select fuel (filter sse (cands kt (nroute n) (nchildren n))) (p ++ ["/"]) 0 vals = res_of vals c.
Proof.
  induction n as [k r ch IH] using node_ind'. intros pre pt Hwf Hpre Hpt.
  pose proof (pwf_inv _ _ _ _ Hwf) as (kt0 & Hne0 & Hk0 & Hok0 & Hr & Hnd & Hch).
  rewrite Forall_forall in IH, Hch. cbn [nroute nchildren nkey].
  set (n := Node k r ch) in *.
  assert (Htk0 : tokenize k = kt0) by (rewrite Hk0; apply tokenize_render; eapply kt_ok_tok; eauto).
  assert (Hpre' : pre ++ k = render (pt ++ kt0)) by (rewrite render_app, Hpre, Hk0; reflexivity).
  assert (Hpt' : forallb tok_ok (pt ++ kt0) = true) by (rewrite forallb_app, Hpt; eapply kt_ok_tok; eauto).
  (* the own route of a node whose key ends with lt *)
  assert (Hown : forall x ktx lt rt, In x ch -> tokenize (nkey x) = ktx ++ [lt] -> nroute x = Some rt ->
            static_slash_end (rpat rt) = match lt with TStatic c => Ascii.eqb c "/" | _ => false end).
  { intros x ktx lt rt Hx Htx Hrx. pose proof (Hch x Hx) as Hwx. destruct x as [kx rx chx].
    pose proof (pwf_inv _ _ _ _ Hwx) as (ktx0 & _ & Hkx & Hokx & Hrx' & _). cbn [nkey nroute] in *.
    rewrite (Hrx' rt Hrx), Hpre', Hkx, <- render_app.
    assert (ktx0 = ktx ++ [lt]) as -> by (rewrite <- Htx, Hkx; symmetry; apply tokenize_render; eapply kt_ok_tok; eauto).
    rewrite app_assoc. apply sse_render. rewrite <- app_assoc, forallb_app, Hpt'. eapply kt_ok_tok; eauto. }
  assert (Hleafsel : forall f cs vals, select (S f) cs [] 0 vals =
            match leaf cs with Some p => Some (p, rev vals) | None => None end) by reflexivity.
  induction kt as [|t kt IHkt]; intros d0 pm done fuel p vals c Hd0 Hok Hf Hop Hsl Hm.
  - (* the key is consumed *)
    rewrite cands_nil. cbn [kmt] in Hm. unfold Kt, Kt_gen in Hm.
    destruct fuel as [|f]; [lia|].
    destruct p as [|c0 p'].
    + (* the path ends here: add-slash towards a leaf child "/" *)
      destruct (is_leaf n) eqn:El; [discriminate|]. injection Hm as <-.
      assert (r = None) as -> by (unfold is_leaf, n in El; simpl in El; destruct r; [discriminate|reflexivity]).
      cbn [app]. rewrite (fsel_below _ (pre ++ k)) by auto.
      change (sbyte "/") with true. cbv iota. cbn [seg is_slash]. change (is_slash "/") with true. cbv iota.
      destruct f as [|f']; [lia|].
      assert (Hcatch : match first_child "*" ch with
                       | Some w => try_splits (List.length ["/"]) 1 ["/"]
                                     (fun v rest => select (S f') (filter (G static_slash_end) (tl_cands w)) rest 0 (v :: vals))
                       | None => None end = None).
      { destruct (first_child "*" ch) as [w|] eqn:Ew; [|reflexivity].
        apply first_child_in in Ew. destruct Ew as [Hw Hsw].
        cbn [List.length try_splits]. unfold split_ok. cbn [skipn firstn orelse].
        rewrite Hleafsel. unfold tl_cands.
        destruct (pwf_tokens _ _ (Hch w Hw)) as (t & ktw & Htk & Hkw & Hokw). rewrite Htk. cbn [tl].
        assert (exists nm, t = TCatch nm) as (nm & ->).
        { rewrite Hkw in Hsw. apply starts_render in Hsw. destruct t as [d|nm|nm]; [| |eauto].
          - pose proof (kt_ok_head_static _ _ _ Hokw) as Hd. subst d. discriminate.
          - discriminate. }
        destruct ktw as [|t' ktw'].
        - rewrite cands_nil, (leaf_fbelow _ (pre ++ k ++ nkey w)).
          + destruct (nroute w) as [rtw|] eqn:Erw; [|reflexivity].
            rewrite (Hown w [] (TCatch nm) rtw Hw Htk Erw). reflexivity.
          + pose proof (Hch w Hw) as Hww. destruct w as [kw rw chw]. apply pwf_inv in Hww.
            destruct Hww as (_ & _ & _ & _ & _ & _ & Hcw). rewrite Forall_forall in Hcw. cbn [nkey nchildren].
            rewrite app_assoc. exact Hcw.
        - rewrite leaf_filter_none; [reflexivity|].
          intros k1 Hk1. unfold cands in Hk1. apply in_map_iff in Hk1. destruct Hk1 as (k2 & <- & _). simpl. discriminate. }
      rewrite Hcatch.
      assert (Hparam : match first_child "{" ch with Some _ => @None (bytes * list bytes) | None => None end = None)
        by (destruct (first_child "{" ch); reflexivity).
      rewrite Hparam. cbn [orelse]. unfold child_slash.
      match goal with |- orelse ?X _ = _ => transitivity X; [destruct X; reflexivity|] end.
      change (nchildren n) with ch.
      destruct (first_child "/" ch) as [x|] eqn:Ex; [|reflexivity].
      apply first_child_in in Ex. destruct Ex as [Hx Hsx].
      rewrite Hleafsel. unfold tl_cands.
      destruct (pwf_tokens _ _ (Hch x Hx)) as (t & ktx & Htk & Hkx & Hokx). rewrite Htk. cbn [tl].
      assert (t = TStatic "/") as ->.
      { rewrite Hkx in Hsx. apply starts_render in Hsx. destruct t as [d|nm|nm].
        - congruence.
        - discriminate.
        - discriminate. }
      rewrite Hkx, length_render_one.
      destruct ktx as [|t' ktx'].
      * rewrite cands_nil, (leaf_fbelow _ (pre ++ k ++ nkey x)).
        -- unfold is_leaf. destruct (nroute x) as [rtx|] eqn:Erx; [|reflexivity].
           rewrite (Hown x [] (TStatic "/") rtx Hx Htk Erx). cbn [Spec.is_nil andb res_of].
           unfold lpat. rewrite Erx, app_nil_r. reflexivity.
        -- pose proof (Hch x Hx) as Hxx. destruct x as [kx rx chx]. apply pwf_inv in Hxx.
           destruct Hxx as (_ & _ & _ & _ & _ & _ & Hcx). rewrite Forall_forall in Hcx. cbn [nkey nchildren].
           rewrite app_assoc. exact Hcx.
      * rewrite leaf_filter_none, andb_false_r; [reflexivity|].
        intros k1 Hk1. unfold cands in Hk1. apply in_map_iff in Hk1. destruct Hk1 as (k2 & <- & _). simpl. discriminate.
    + (* the path continues: the children, on p ++ "/" *)
      apply tcons_TN in Hm. destruct Hm as (cb & Hm & ->).
      assert (Hone : is_one_slash (c0 :: p') = false).
      { destruct p' as [|c1 p'']; [|reflexivity]. simpl. unfold has_suffix_slash in Hsl. simpl in Hsl. exact Hsl. }
      rewrite Hone, andb_false_r. cbn [cor].
      apply talt_TN in Hm. destruct Hm as (c1 & c23 & H1 & Hm & ->).
      apply talt_TN in Hm. destruct Hm as (c2 & c3 & H2 & H3 & ->).
      cbn [app]. rewrite (fsel_below _ (pre ++ k)) by auto.
      rewrite !res_of_cor.
      assert (Hsl' : has_suffix_slash p' = false \/ p' = []).
      { destruct p'; [right; reflexivity|left]. rewrite <- (has_suffix_slash_skipn (c0 :: a :: p') 1) in Hsl by (simpl; lia). exact Hsl. }
      assert (Hsl'' : has_suffix_slash p' = false) by (destruct Hsl' as [H| ->]; [exact H|reflexivity]).
      unfold m2t_child in H1, H2, H3. change (nchildren n) with ch in H1, H2, H3.
      (* static child *)
      assert (Hstat : sbyte c0 = true -> match first_child c0 ch with
                        | Some x => select f (filter (G static_slash_end) (tl_cands x)) (p' ++ ["/"]) 0 vals
                        | None => None end = res_of vals c1).
      { intros Hc. destruct (first_child c0 ch) as [x|] eqn:Ex; [|injection H1 as <-; reflexivity].
        apply first_child_in in Ex. destruct Ex as [Hx Hsx].
        destruct (pwf_tokens _ _ (Hch x Hx)) as (t & ktx & Htk & Hkx & Hokx).
        rewrite m2t_kmt, Htk in H1. unfold tl_cands. rewrite Htk. cbn [tl].
        rewrite Hkx in Hsx. apply starts_render in Hsx. destruct (sbyte_split c0 Hc) as [Hc1 Hc2].
        destruct t as [d|nm|nm].
        - subst d.
          destruct (kt_ok_cons _ _ _ Hokx) as [[_ Hokx']|(nm & Hbad & _)]; [|discriminate].
          cbn [kmt] in H1. rewrite Ascii.eqb_refl, Hc in H1. cbn [andb] in H1.
          eapply (IH x Hx (pre ++ k) (pt ++ kt0) (Hch x Hx) Hpre' Hpt' ktx [TStatic c0] (Some n) _ f p' vals c1); eauto.
          + simpl in Hf. lia.
          + eapply okpath_tl; eauto.
        - subst c0. discriminate.
        - subst c0. discriminate. }
      (* parameter child *)
      assert (Hpar : match first_child "{" ch with
                     | Some y => match seg is_slash (c0 :: p' ++ ["/"]) with
                                 | [] => None
                                 | a :: l => select f (filter (G static_slash_end) (tl_cands y))
                                               (skipn (List.length (a :: l)) (c0 :: p' ++ ["/"])) 0 ((a :: l) :: vals)
                                 end
                     | None => None
                     end = res_of vals c2).
      { destruct (first_child "{" ch) as [y|] eqn:Ey; [|injection H2 as <-; reflexivity].
        apply first_child_in in Ey. destruct Ey as [Hy Hsy].
        destruct (pwf_tokens _ _ (Hch y Hy)) as (t & kty & Htk & Hky & Hoky).
        rewrite m2t_kmt, Htk in H2. unfold tl_cands. rewrite Htk. cbn [tl].
        rewrite Hky in Hsy. apply starts_render in Hsy. destruct t as [d|nm|nm].
        - subst d. pose proof (kt_ok_head_static _ _ _ Hoky). discriminate.
        - destruct (kt_ok_cons _ _ _ Hoky) as [[_ Hoky']|(nm' & Hbad & _)]; [|discriminate].
          cbn [kmt] in H2.
          change (c0 :: p' ++ ["/"]) with ((c0 :: p') ++ "/" :: []). rewrite seg_app_slash.
          destruct (seg is_slash (c0 :: p')) as [|v0 vv] eqn:Ev; [injection H2 as <-; reflexivity|].
          apply twith_TN in H2. destruct H2 as (c' & H2 & ->).
          assert (Hlen : List.length (v0 :: vv) <= List.length (c0 :: p')).
          { rewrite <- Ev. clear. induction (c0 :: p') as [|x0 l0 IHl0]; simpl; auto. destruct (is_slash x0); simpl; lia. }
          rewrite skipn_app. replace (List.length (v0 :: vv) - List.length (c0 :: p')) with 0 by lia. simpl skipn at 2.
          rewrite res_of_cwith.
          eapply (IH y Hy (pre ++ k) (pt ++ kt0) (Hch y Hy) Hpre' Hpt' kty [TParam nm] (Some n) _ f _ _ c'); eauto.
          + rewrite skipn_length. simpl in Hf |- *. lia.
          + apply okpath_skipn. exact Hop.
          + apply hss_skipn_false. exact Hsl.
        - discriminate. }
      (* catch-all child *)
      assert (Hcat : match first_child "*" ch with
                     | Some w => try_splits (List.length (c0 :: p' ++ ["/"])) 1 (c0 :: p' ++ ["/"])
                                   (fun v rest => select f (filter (G static_slash_end) (tl_cands w)) rest 0 (v :: vals))
                     | None => None
                     end = res_of vals c3).
      { destruct (first_child "*" ch) as [w|] eqn:Ew; [|injection H3 as <-; reflexivity].
        apply first_child_in in Ew. destruct Ew as [Hw Hsw].
        destruct (pwf_tokens _ _ (Hch w Hw)) as (t & ktw & Htk & Hkw & Hokw).
        rewrite m2t_kmt, Htk in H3. unfold tl_cands. rewrite Htk. cbn [tl].
        rewrite Hkw in Hsw. apply starts_render in Hsw. destruct t as [d|nm|nm].
        - subst d. pose proof (kt_ok_head_static _ _ _ Hokw). discriminate.
        - discriminate.
        - rewrite <- (fsel_catch static_slash_end f nm ktw (nroute w) (nchildren w) c0 (p' ++ ["/"]) vals).
          apply (IH w Hw (pre ++ k) (pt ++ kt0) (Hch w Hw) Hpre' Hpt' (TCatch nm :: ktw) [] (Some n) [] (S f) (c0 :: p') vals c3); auto. }
      rewrite Hpar, Hcat.
      destruct (sbyte c0) eqn:Es.
      * rewrite (Hstat eq_refl). reflexivity.
      * unfold orelse at 1.
        apply sbyte_false in Es. apply orb_prop in Es. destruct Es as [Es|Es]; apply Ascii.eqb_eq in Es; subst c0.
        -- (* '{' : the parameter child was tried as a static edge first: same result twice *)
           rewrite H1 in H2. injection H2 as <-.
           unfold orelse. destruct (res_of vals c1); reflexivity.
        -- unfold okpath in Hop. simpl in Hop. discriminate.
  - destruct fuel as [|f]; [lia|].
    destruct p as [|c0 p'].
    + (* the path ends inside the key: add-slash when exactly "/" is left on a leaf *)
      cbn [kmt] in Hm. injection Hm as <-. unfold exh. cbn [app].
      destruct t as [d|nm|nm].
      * rewrite fsel_static. change (sbyte "/") with true. rewrite andb_true_r.
        destruct kt as [|t' kt'].
        -- cbn [one_slash]. destruct (Ascii.eqb d "/") eqn:Ed; [|rewrite andb_false_r; reflexivity].
           apply Ascii.eqb_eq in Ed. subst d. rewrite andb_true_r.
           destruct f as [|f']; [lia|]. rewrite Hleafsel, cands_nil, (leaf_fbelow _ (pre ++ k)) by auto.
           unfold is_leaf, n. cbn [nroute]. destruct r as [rt|]; [|reflexivity].
           assert (static_slash_end (rpat rt) = true) as ->.
           { rewrite (Hr rt eq_refl), Hpre'. rewrite <- Htk0, Hd0, app_assoc.
             rewrite sse_render; [reflexivity|]. rewrite <- app_assoc, <- Hd0, Htk0. exact Hpt'. }
           cbn [res_of]. unfold lpat. cbn [nroute]. rewrite app_nil_r. reflexivity.
        -- cbn [one_slash]. rewrite andb_false_r. destruct (Ascii.eqb d "/"); [|reflexivity].
           destruct f as [|f']; [lia|]. apply fsel_short.
      * rewrite fsel_param. cbn [seg]. change (is_slash "/") with true. cbv iota.
        cbn [one_slash]. rewrite andb_false_r. reflexivity.
      * cbn [one_slash]. rewrite andb_false_r.
        rewrite fsel_catch. cbn [List.length try_splits]. unfold split_ok. cbn [skipn firstn orelse].
        destruct f as [|f']; [lia|].
        destruct kt as [|t' kt'].
        -- rewrite Hleafsel, cands_nil, (leaf_fbelow _ (pre ++ k)) by auto.
           destruct r as [rt|]; [|reflexivity].
           assert (static_slash_end (rpat rt) = false) as ->; [|reflexivity].
           rewrite (Hr rt eq_refl), Hpre'. rewrite <- Htk0, Hd0, app_assoc.
           rewrite sse_render; [reflexivity|]. rewrite <- app_assoc, <- Hd0, Htk0. exact Hpt'.
        -- rewrite fsel_short. reflexivity.
    + destruct (kt_ok_cons _ _ _ Hok) as [[Hokt Hok']|(nm' & -> & Hnok & Hok' & Hend)].
      * assert (Hd0' : tokenize k = (d0 ++ [t]) ++ kt) by (rewrite <- app_assoc; exact Hd0).
        destruct t as [d|nm|nm]; simpl in Hokt; [| |discriminate]; cbn [kmt app] in Hm |- *.
        -- rewrite fsel_static.
           destruct (Ascii.eqb d c0 && sbyte c0); [|injection Hm as <-; reflexivity].
           apply (IHkt (d0 ++ [TStatic d]) pm (done ++ [TStatic d])); auto.
           ++ simpl in Hf. lia.
           ++ eapply okpath_tl; eauto.
           ++ destruct p'; [reflexivity|]. rewrite <- (has_suffix_slash_skipn (c0 :: a :: p') 1) in Hsl by (simpl; lia). exact Hsl.
        -- rewrite fsel_param.
           change (c0 :: p' ++ ["/"]) with ((c0 :: p') ++ "/" :: []). rewrite seg_app_slash.
           destruct (seg is_slash (c0 :: p')) as [|v0 vv] eqn:Ev; [injection Hm as <-; reflexivity|].
           apply twith_TN in Hm. destruct Hm as (c' & Hm & ->).
           assert (Hlen : List.length (v0 :: vv) <= List.length (c0 :: p')).
           { rewrite <- Ev. clear. induction (c0 :: p') as [|x0 l0 IHl0]; simpl; auto. destruct (is_slash x0); simpl; lia. }
           cbv zeta. rewrite skipn_app. replace (List.length (v0 :: vv) - List.length (c0 :: p')) with 0 by lia. simpl skipn at 2.
           rewrite res_of_cwith.
           apply (IHkt (d0 ++ [TParam nm]) pm (done ++ [TParam nm])); auto.
           ++ rewrite skipn_length. simpl in Hf |- *. lia.
           ++ apply okpath_skipn. exact Hop.
           ++ apply hss_skipn_false. exact Hsl.
      * (* catch-all *)
        cbn [kmt] in Hm.
        destruct kt as [|t' kt'].
        -- exfalso. destruct (sub0t false ch) as [sb|]; [|discriminate].
           destruct (scant_fin_TD sb (fun v => TD n [(nm', v)]) nm' ltac:(eauto)
                       (S (List.length (c0 :: p'))) [] (c0 :: p') ltac:(lia)) as (l & kk & E).
           rewrite E in Hm. discriminate.
        -- assert (Hd0' : tokenize k = (d0 ++ [TCatch nm']) ++ t' :: kt') by (rewrite <- app_assoc; exact Hd0).
           cbn [app]. rewrite fsel_catch.
           set (s := c0 :: p') in *.
           assert (Hf2 : 3 <= f) by (unfold s in Hf; simpl in Hf; lia).
           assert (Hend0 : forall v, select f (filter (G static_slash_end) (cands (t' :: kt') r ch)) [] 0 (v :: vals) = None).
           { intros v. destruct f as [|f']; [lia|]. apply fsel_short. }
           destruct (Ascii.eqb_spec c0 "/") as [->|Hcs].
           ++ (* value starting with '/': nothing *)
              change ("/" :: p' ++ ["/"]) with (s ++ ["/"]).
              rewrite ts_slash_start by reflexivity. cbv beta. rewrite Hend0.
              unfold s in Hm. cbn [scant List.length index_byte] in Hm. change (Ascii.eqb "/" "/") with true in Hm. cbn iota in Hm.
              cbn [app starts_with] in Hm. change (Ascii.eqb "/" "/") with true in Hm. cbn iota in Hm.
              injection Hm as <-. reflexivity.
           ++ change (c0 :: p' ++ ["/"]) with (s ++ ["/"]).
              replace (List.length (s ++ ["/"])) with (List.length (s ++ ["/"]) + 1 - 1) by lia.
              assert (Hno : noempty s = true) by (unfold okpath in Hop; apply andb_prop in Hop; tauto).
              eapply (ts_scant _ _ _ nm' vals s); [discriminate|exact Hcs|exact Hsl| | | | | | | | | |exact Hm];
                try reflexivity; try discriminate.
              ** (* a '/' inside the path: sub-lookup on the rest *)
                 intros j r0 c1 Hj Hs1. cbv beta.
                 assert (Hl : List.length ("/" :: r0) < List.length s).
                 { destruct j as [|j]; [unfold s in Hj; simpl in Hj; congruence|].
                   rewrite <- Hj, skipn_length. unfold s. simpl. lia. }
                 apply (IHkt (d0 ++ [TCatch nm']) None []); auto.
                 --- lia.
                 --- rewrite <- Hj. apply okpath_skipn. exact Hop.
                 --- rewrite <- Hj. apply hss_skipn_false. exact Hsl.
              ** (* the whole rest as the value, then the added '/' *)
                 intros cf Hcf. cbv beta. unfold s in Hcf at 1. cbn [starts_with] in Hcf.
                 destruct (Ascii.eqb_spec c0 "/") as [|_]; [congruence|]. injection Hcf as <-.
                 rewrite res_of_cwith.
                 apply (IHkt (d0 ++ [TCatch nm']) pm (done ++ [TCatch nm']) f [] (s :: vals)); auto; try (simpl; lia).
              ** cbv beta. apply Hend0.
              ** unfold s. simpl. destruct (Ascii.eqb_spec c0 "/"); [congruence|reflexivity].
              ** exact Hno.
              ** lia.
Qed.

(* ------------------------------------------------------------------ *)
(* M2t's candidate = Spec.select_tsr_in                                 *)
(* ------------------------------------------------------------------ *)
Lemma ends_with_slash_hss s : ends_with_slash s = has_suffix_slash s.
Proof.
  unfold ends_with_slash, has_suffix_slash. destruct (rev s) as [|c r]; auto.
  destruct c as [[] [] [] [] [] [] [] []]; reflexivity.
Qed.

Lemma hss_last (s : bytes) : has_suffix_slash s = true -> s = removelast s ++ ["/"].
Proof.
  intros H. unfold has_suffix_slash in H. destruct (rev s) as [|c r] eqn:E; [discriminate|].
  apply Ascii.eqb_eq in H. subst c.
  assert (s = rev r ++ ["/"]) as Hs by (rewrite <- (rev_involutive s), E; reflexivity).
  rewrite Hs at 2. rewrite removelast_last. exact Hs.
Qed.

Lemma okpath_app_l a b : okpath (a ++ b) = true -> okpath a = true.
Proof.
  unfold okpath. rewrite nostar_app. intros H. apply andb_prop in H. destruct H as [H1 H2].
  apply andb_prop in H1. destruct H1 as [H1 _]. rewrite H1. cbn [andb].
  clear H1. revert H2. induction a as [|c1 a IH]; intros H; [reflexivity|].
  destruct a as [|c2 a]; [reflexivity|].
  change ((c1 :: c2 :: a) ++ b) with (c1 :: (c2 :: a) ++ b) in H. cbn [noempty app] in H |- *.
  apply andb_prop in H. destruct H as [H1 H2]. rewrite H1. cbn [andb]. apply IH. exact H2.
Qed.

Lemma map_filter_mk g pats : map mk_cand (filter g pats) = filter (G g) (map mk_cand pats).
Proof.
  induction pats as [|p l IH]; simpl; auto. unfold G at 1. simpl. destruct (g p); simpl; rewrite IH; reflexivity.
Qed.

Lemma filter_all {A} (f : A -> bool) l : Forall (fun x => f x = true) l -> filter f l = l.
Proof. induction 1 as [|x l Hx _ IH]; simpl; auto. rewrite Hx, IH. reflexivity. Qed.

Lemma Forall_filter {A} (P : A -> Prop) f l : Forall P l -> Forall P (filter f l).
Proof. induction 1 as [|x l Hx _ IH]; simpl; auto. destruct (f x); auto. Qed.

Lemma cands_of_tree t : pwf [] t ->
  map mk_cand (map rpat (routes_of_node t)) = cands (tokenize (nkey t)) (nroute t) (nchildren t).
Proof.
  intros Hwf. rewrite routes_of_node_s, (cands_of_routes t [] [] Hwf eq_refl eq_refl).
  rewrite (map_ext _ (fun c => c)) by apply prep_nil. rewrite map_id. apply cands_of_tokens.
Qed.

Theorem m2t_eq_spec_tsr t host path c :
  pwf [] t -> starts_with "/" (nkey t) = true -> path <> [] -> okpath path = true ->
  m2t (has_suffix_slash path) None t path = TN c ->
  select_tsr_in (map rpat (routes_of_node t)) host path false = res_of [] c.
Proof.
  intros Hwf Hsl Hne Hok Hm.
  destruct (pwf_tokens _ _ Hwf) as (t0 & kt & Htk & Hk & Hokt).
  rewrite m2t_kmt, Htk in Hm.
  pose proof Hsl as Hsl0. rewrite Hk in Hsl0. apply starts_render in Hsl0.
  destruct path as [|c0 [|c1 p]]; [congruence| |].
  - (* a one-byte path never gets a trailing-slash action *)
    cbn [select_tsr_in]. destruct t0 as [d|nm|nm]; try discriminate. subst d.
    cbn [kmt] in Hm. change (sbyte c0) with (sbyte c0) in Hm.
    destruct (Ascii.eqb_spec "/" c0) as [<-|Hc].
    + change (has_suffix_slash ["/"]) with true in Hm. change (sbyte "/") with true in Hm. cbn [andb] in Hm.
      destruct kt as [|t' kt'].
      * cbn [kmt] in Hm. unfold Kt, Kt_gen in Hm. destruct (is_leaf t); [discriminate|]. injection Hm as <-. reflexivity.
      * cbn [kmt] in Hm. injection Hm as <-. reflexivity.
    + cbn [andb] in Hm. injection Hm as <-. reflexivity.
  - set (path := c0 :: c1 :: p) in *.
    assert (Hsel : select_tsr_in (map rpat (routes_of_node t)) host path false =
                   if ends_with_slash path then select_in (map rpat (routes_of_node t)) host (removelast path) false
                   else select_in (filter static_slash_end (map rpat (routes_of_node t))) host (path ++ ["/"]) false)
      by reflexivity.
    rewrite Hsel, ends_with_slash_hss. clear Hsel.
    destruct (has_suffix_slash path) eqn:Ehs.
    + (* remove-slash *)
      pose proof (hss_last path Ehs) as Hq. set (q := removelast path) in *.
      assert (Hqne : q <> []) by (unfold q, path; simpl; destruct p; discriminate).
      rewrite Hq in Hm. apply (kmt_rm t [] Hwf) in Hm; [|exact Hokt].
      assert (rmc None [] (t0 :: kt) q = None) as Hr.
      { unfold rmc. destruct q; [congruence|]. reflexivity. }
      rewrite Hr in Hm. cbn [cor] in Hm. rewrite <- Htk, <- m2_km in Hm. subst c.
      apply spec_eq_m2; auto. left. rewrite Hq in Hok. eapply okpath_app_l; eauto.
    + (* add-slash *)
      unfold select_in.
      pose proof (pwf_routes_path t Hwf Hsl) as Hpp.
      rewrite (filter_all (fun p0 => is_path_pattern p0)) by (apply Forall_filter; exact Hpp).
      rewrite map_filter_mk, (cands_of_tree t Hwf), Htk.
      apply (kmt_add t [] [] Hwf eq_refl eq_refl (t0 :: kt) [] None [] _ path [] c); auto.
      unfold spec_fuel. rewrite app_length. simpl. lia.
Qed.

(* ------------------------------------------------------------------ *)
(* what a candidate reports: a registered route with the names of its branch *)
(* ------------------------------------------------------------------ *)
Definition early (done : list token) : bool :=
  match done with [] => true | [TStatic _] => true | _ => false end.

Lemma one_slash_early done : one_slash done = true -> early done = true.
Proof. destruct done as [|[c|nm|nm] [|t2 l]]; simpl; auto; discriminate. Qed.
Lemma early_snoc done t : early (done ++ [t]) = true -> early done = true /\ is_wild t = false.
Proof. destruct done as [|t1 [|t2 l]]; simpl; destruct t; try discriminate; auto; destruct t1; try discriminate; auto; destruct l; discriminate. Qed.

Lemma scant_some sub fin nm : forall sf v q l kvs, scant sf sub fin nm v q = TN (Some (l, kvs)) ->
  (exists q' kvs' v', sub q' = TN (Some (l, kvs')) /\ kvs = (nm, v') :: kvs') \/ (exists v', fin v' = TN (Some (l, kvs))).
Proof.
  induction sf as [|sf IH]; intros v q l kvs H; [discriminate|]. cbn [scant] in H.
  destruct (index_byte q "/") as [[|d]|].
  - right. eexists; exact H.
  - destruct (sub (skipn (S d) q)) as [l' k'|c1] eqn:E; [discriminate|].
    apply tcons_TN in H. destruct H as (c2 & H & Hc).
    destruct c1 as [[l1 k1]|]; simpl in Hc.
    + inversion Hc; subst. left. do 3 eexists. split; [exact E|reflexivity].
    + subst c2. eapply IH; eauto.
  - right. eexists; exact H.
Qed.

Lemma par_cand_some pm done l kvs : par_cand pm done = Some (l, kvs) ->
  pm = Some l /\ kvs = [] /\ is_leaf l = true /\ early done = true.
Proof.
  unfold par_cand. destruct pm as [p|]; [|discriminate].
  destruct (is_leaf p) eqn:El; [|discriminate]. destruct (one_slash done) eqn:Eo; [|discriminate].
  simpl. intros [= <- <-]. auto using one_slash_early.
Qed.

Lemma render_len1_names kt : List.length (render kt) = 1 -> wildcard_names kt = [].
Proof.
  destruct kt as [|t [|t2 kt]]; auto.
  - destruct t as [c|nm|nm]; auto; simpl; rewrite !app_length; simpl; intros; lia.
  - intros H. pose proof (render_len2 t t2 kt). lia.
Qed.

Definition cand_ok (n : node) (pre : bytes) (pm : option node) (l : node) (kvs : list kv) : Prop :=
  (pm = Some l /\ kvs = [] /\ is_leaf l = true) \/ sound_res n pre l kvs.

Lemma m2t_sound sl : forall n pre pm p l kvs, pwf pre n -> m2t sl pm n p = TN (Some (l, kvs)) -> cand_ok n pre pm l kvs.
Proof.
  induction n as [k r ch IH] using node_ind'. intros pre pm p l kvs Hwf.
  pose proof (pwf_inv _ _ _ _ Hwf) as (kt0 & Hne & Hk & Hok & Hr & Hnd & Hch).
  rewrite Forall_forall in IH, Hch.
  set (n := Node k r ch) in *.
  assert (Hself : forall done, k = render done -> is_leaf n = true ->
            exists rt bt, nroute n = Some rt /\ In rt (routes_s n) /\ rpat rt = pre ++ render (done ++ [] ++ bt) /\
                          forallb tok_ok bt = true /\ @nil bytes = wildcard_names ([] ++ bt)).
  { intros done Hd Hl. unfold is_leaf, n in Hl. cbn [nroute] in Hl. destruct r as [rt|]; [|discriminate].
    exists rt, []. unfold n. simpl. rewrite app_nil_r. repeat split; auto. rewrite (Hr rt eq_refl), Hd. reflexivity. }
  assert (Hchild : forall x pm' q l kvs, In x ch -> m2t sl pm' x q = TN (Some (l, kvs)) -> pm' = Some n \/ pm' = None ->
            (pm' = Some n /\ l = n /\ kvs = [] /\ is_leaf n = true) \/
            exists rt bt, nroute l = Some rt /\ In rt (routes_s n) /\ rpat rt = (pre ++ k) ++ render bt /\
                          forallb tok_ok bt = true /\ map fst kvs = wildcard_names bt).
  { intros x pm' q l0 kvs0 Hx Hm Hpm.
    destruct (IH x Hx (pre ++ k) pm' q l0 kvs0 (Hch x Hx) Hm) as [(H1 & H2 & H3)|(rt & bt & H1 & H2 & H3 & H4 & H5)].
    - left. destruct Hpm as [->| ->]; [|discriminate]. inversion H1; subst. auto.
    - right. exists rt, bt. repeat split; auto. unfold n. cbn [routes_s]. apply in_or_app. right. apply in_flat_map. exists x; auto. }
  assert (Hgen : forall kt dk done pm p l kvs, k = render (dk ++ kt) -> forallb tok_ok dk = true ->
            kt_ok (cend r ch) kt = true ->
            kmt sl n (Kt sl n) (sub0t sl ch) pm done kt p = TN (Some (l, kvs)) ->
            (pm = Some l /\ kvs = [] /\ is_leaf l = true /\ early done = true) \/
            exists rt bt, nroute l = Some rt /\ In rt (routes_s n) /\ rpat rt = pre ++ render (dk ++ kt ++ bt) /\
                          forallb tok_ok bt = true /\ map fst kvs = wildcard_names (kt ++ bt)).
  { induction kt as [|t kt IHkt]; intros dk done pm0 p0 l0 kvs0 Hkd Hdone Hokt Hm.
    - cbn [kmt] in Hm. rewrite app_nil_r in Hkd. unfold Kt, Kt_gen in Hm. destruct p0 as [|c p'].
      + destruct (is_leaf n) eqn:El; [discriminate|]. injection Hm as Hm. destruct sl.
        * left. apply par_cand_some in Hm. tauto.
        * right. unfold child_slash in Hm. change (nchildren n) with ch in Hm.
          destruct (first_child "/" ch) as [x|] eqn:Ex; [|discriminate].
          destruct (is_leaf x && Nat.eqb (List.length (nkey x)) 1) eqn:Ec; [|discriminate].
          inversion Hm; subst l0 kvs0. apply andb_prop in Ec. destruct Ec as [Elx Elen]. apply Nat.eqb_eq in Elen.
          apply first_child_in in Ex. destruct Ex as [Hx _].
          pose proof (Hch x Hx) as Hwx. destruct x as [kx rx chx]. pose proof (pwf_inv _ _ _ _ Hwx) as (ktx & _ & Hkx & Hokx & Hrx & _).
          unfold is_leaf in Elx. cbn [nroute nkey] in *. destruct rx as [rtx|]; [|discriminate].
          exists rtx, ktx. repeat split; auto.
          -- unfold n. cbn [routes_s]. apply in_or_app. right. apply in_flat_map. exists (Node kx (Some rtx) chx). split; auto. simpl. auto.
          -- rewrite (Hrx rtx eq_refl), Hkd, Hkx. rewrite app_nil_l, render_app, app_assoc. reflexivity.
          -- eapply kt_ok_tok; eauto.
          -- simpl. symmetry. apply render_len1_names. rewrite <- Hkx. exact Elen.
      + apply tcons_TN in Hm. destruct Hm as (cb & Hm & Hc).
        apply talt_TN in Hm. destruct Hm as (c1 & c23 & H1 & Hm & ->).
        apply talt_TN in Hm. destruct Hm as (c2 & c3 & H2 & H3 & ->).
        destruct (is_none (first_child c (nchildren n)) && is_leaf n && is_one_slash (c :: p')) eqn:E4; cbn [cor] in Hc.
        * inversion Hc; subst l0 kvs0. right. apply andb_prop in E4. destruct E4 as [E4 _]. apply andb_prop in E4. destruct E4 as [_ El].
          destruct (Hself dk Hkd El) as (rt & bt & Hx). exists rt, bt. exact Hx.
        * assert (Hx : exists x, In x ch /\ m2t sl (Some n) x (c :: p') = TN (Some (l0, kvs0))).
          { unfold m2t_child in H1, H2, H3. change (nchildren n) with ch in H1, H2, H3.
            destruct c1 as [[l1 v1]|]; cbn [cor] in Hc.
            - inversion Hc; subst. destruct (first_child c ch) as [x|] eqn:Ex; [|discriminate]. exists x. split; auto. apply first_child_in in Ex; tauto.
            - destruct c2 as [[l1 v1]|]; cbn [cor] in Hc.
              + inversion Hc; subst. destruct (first_child "{" ch) as [x|] eqn:Ex; [|discriminate]. exists x. split; auto. apply first_child_in in Ex; tauto.
              + subst c3. destruct (first_child "*" ch) as [x|] eqn:Ex; [|discriminate]. exists x. split; auto. apply first_child_in in Ex; tauto. }
          destruct Hx as (x & Hx & Hmx). right.
          destruct (Hchild x _ _ _ _ Hx Hmx (or_introl eq_refl)) as [(_ & -> & -> & El)|(rt & bt & H4 & H5 & H6 & H7 & H8)].
          -- destruct (Hself dk Hkd El) as (rt & bt & Hy). exists rt, bt. exact Hy.
          -- exists rt, bt. simpl. repeat split; auto. rewrite H6, Hkd, render_app, app_assoc. reflexivity.
    - destruct p0 as [|c p'].
      + cbn [kmt] in Hm. injection Hm as Hm. unfold exh in Hm. destruct sl.
        * left. apply par_cand_some in Hm. exact Hm.
        * destruct (is_leaf n && one_slash (t :: kt)) eqn:E; [|discriminate]. inversion Hm; subst l0 kvs0.
          apply andb_prop in E. destruct E as [El Eo]. right.
          destruct (Hself (dk ++ t :: kt) Hkd El) as (rt & bt & H1 & H2 & H3 & H4 & H5). exists rt, bt.
          repeat split; auto.
          -- rewrite H3. rewrite <- !app_assoc. reflexivity.
          -- simpl in H5. rewrite wildcard_names_app, <- H5, app_nil_r.
             destruct t as [c0|nm|nm]; try discriminate. destruct kt; [reflexivity|discriminate].
      + destruct (kt_ok_cons _ _ _ Hokt) as [[Hokt1 Hokt2]|(nm & -> & Hnm & Hokt2 & Hend)].
        * assert (Hd1 : forallb tok_ok (dk ++ [t]) = true)
            by (rewrite forallb_app, Hdone; simpl; rewrite (ptok_tok _ Hokt1); reflexivity).
          assert (Hk1 : k = render ((dk ++ [t]) ++ kt)) by (rewrite <- app_assoc; exact Hkd).
          destruct t as [d|nm|nm]; simpl in Hokt1; try discriminate; cbn [kmt] in Hm.
          -- destruct (Ascii.eqb d c && sbyte c); [|discriminate].
             destruct (IHkt (dk ++ [TStatic d]) _ _ _ _ _ Hk1 Hd1 Hokt2 Hm) as [(H1 & H2 & H3 & H4)|(rt & bt & H1 & H2 & H3 & H4 & H5)].
             ++ left. apply early_snoc in H4. tauto.
             ++ right. exists rt, bt. repeat split; auto. rewrite H3, <- app_assoc. reflexivity.
          -- destruct (seg is_slash (c :: p')) as [|v0 vv]; [discriminate|].
             apply twith_TN in Hm. destruct Hm as (c' & Hm & Hc). destruct c' as [[l1 kvs1]|]; [|discriminate].
             simpl in Hc. inversion Hc; subst l0 kvs0.
             destruct (IHkt (dk ++ [TParam nm]) _ _ _ _ _ Hk1 Hd1 Hokt2 Hm) as [(H1 & H2 & H3 & H4)|(rt & bt & H1 & H2 & H3 & H4 & H5)].
             ++ apply early_snoc in H4. destruct H4 as [_ H4]. discriminate.
             ++ right. exists rt, bt. repeat split; auto.
                ** rewrite H3, <- app_assoc. reflexivity.
                ** simpl. f_equal. exact H5.
        * assert (Hd1 : forallb tok_ok (dk ++ [TCatch nm]) = true)
            by (rewrite forallb_app, Hdone; simpl; rewrite Hnm; reflexivity).
          assert (Hk1 : k = render ((dk ++ [TCatch nm]) ++ kt)) by (rewrite <- app_assoc; exact Hkd).
          cbn [kmt] in Hm. right. destruct kt as [|t' kt'].
          -- destruct (sub0t sl ch) as [sb|] eqn:Esb; [|discriminate].
             apply scant_some in Hm. destruct Hm as [(q' & kvs' & v' & Hsb & ->)|(v' & Hfin)]; [|discriminate].
             destruct ch as [|c0 ch']; [discriminate|]. cbn [sub0t] in Esb. inversion Esb; subst sb.
             destruct (Hchild c0 _ _ _ _ (or_introl eq_refl) Hsb (or_intror eq_refl)) as [(Hbad & _)|(rt1 & bt & H1 & H2 & H3 & H4 & H5)]; [discriminate|].
             exists rt1, bt. repeat split; auto.
             ++ rewrite H3, Hkd. rewrite !render_app. rewrite <- !app_assoc. reflexivity.
             ++ simpl. f_equal. exact H5.
          -- apply scant_some in Hm. destruct Hm as [(q' & kvs' & v' & Hsb & ->)|(v' & Hfin)].
             ++ destruct (IHkt (dk ++ [TCatch nm]) _ _ _ _ _ Hk1 Hd1 Hokt2 Hsb) as [(H1 & _)|(rt & bt & H1 & H2 & H3 & H4 & H5)]; [discriminate|].
                exists rt, bt. repeat split; auto.
                ** rewrite H3, <- app_assoc. reflexivity.
                ** simpl. f_equal. exact H5.
             ++ destruct (starts_with "/" v'); [discriminate|]. injection Hfin as Hfin.
                unfold exh, par_cand in Hfin. rewrite one_slash_snoc_catch in Hfin.
                destruct sl.
                ** destruct pm0 as [pp|]; [rewrite andb_false_r in Hfin|]; discriminate.
                ** destruct (is_leaf n && one_slash (t' :: kt')) eqn:E; [|discriminate]. simpl in Hfin. inversion Hfin; subst l0 kvs0.
                   apply andb_prop in E. destruct E as [El Eo].
                   destruct (Hself (dk ++ TCatch nm :: t' :: kt') Hkd El) as (rt & bt & H1 & H2 & H3 & H4 & H5). exists rt, bt.
                   repeat split; auto.
                   --- rewrite H3. rewrite <- !app_assoc. reflexivity.
                   --- simpl in H5. simpl. f_equal. rewrite wildcard_names_app, <- H5, app_nil_r.
                       destruct t' as [c0|nm0|nm0]; try discriminate. destruct kt'; [reflexivity|discriminate]. }
  intros Hm. unfold n in Hm. rewrite m2t_eq in Hm. fold n in Hm.
  rewrite Hk, tokenize_render in Hm by (eapply kt_ok_tok; eauto).
  destruct (Hgen kt0 [] [] pm p l kvs Hk eq_refl Hok Hm) as [(H1 & H2 & H3 & _)|(rt & bt & H1 & H2 & H3 & H4 & H5)].
  - left. auto.
  - right. exists rt, (kt0 ++ bt). repeat split; auto. rewrite forallb_app, (kt_ok_tok _ _ Hok), H4. reflexivity.
Qed.

(* ------------------------------------------------------------------ *)
(* request level: roots_lookup = spec_lookup, including the tsr outcome *)
(* ------------------------------------------------------------------ *)
Definition lres_sres (r : lres) : option sres :=
  match r with
  | Found None _ _ _ => Some SNone
  | Found (Some n) t pss tpss =>
      match nroute n with
      | Some rt => Some (if t then STsr (rpat rt) tpss else SDirect (rpat rt) pss)
      | None => None
      end
  | _ => None
  end.

Lemma spec_lookup_path_only pats host path :
  Forall (fun p => is_path_pattern p = true) pats ->
  spec_lookup pats host path =
  match select_in pats host path false with
  | Some x => mk_res false x
  | None => match select_tsr_in pats host path false with Some x => mk_res true x | None => SNone end
  end.
Proof.
  intros H. unfold spec_lookup.
  assert (filter (fun p => negb (is_path_pattern p)) pats = []) as ->.
  { induction H as [|p l Hp _ IH]; simpl; auto. rewrite Hp. simpl. exact IH. }
  reflexivity.
Qed.

Theorem lbp_eq_spec_tsr t host path fuel :
  pwf [] t -> starts_with "/" (nkey t) = true -> path <> [] -> okpath path = true -> m2_fuel path t <= fuel ->
  lres_sres (lookup_by_path fuel t path false [] []) = Some (spec_lookup (map rpat (routes_of_node t)) host path).
Proof.
  intros Hwf Hsl Hne Hok Hf.
  rewrite spec_lookup_path_only by (apply pwf_routes_path; auto).
  pose proof (lbp_eq_m2t t path false fuel Hwf Hne Hf) as Ht.
  pose proof (lbp_eq_m2 t path false fuel Hwf Hf) as Hd.
  pose proof (lbp_param_eq_spec t host path fuel Hwf Hsl Hf (or_introl Hok)) as Hs.
  unfold spec_direct in Hs.
  destruct (m2t (has_suffix_slash path) None t path) as [l vals|c] eqn:Em; cbn [tsr_res] in Ht.
  - (* direct *)
    destruct Ht as (l' & tps' & Er & Hl). rewrite Er in *. cbn [addp app] in *.
    destruct (m2 t path) as [[l2 v2]|] eqn:Em2.
    + destruct Hd as (l3 & tps3 & E3 & Hl3). inversion E3; subst l3 tps3.
      destruct (m2_sound _ _ _ _ _ Hwf Em2) as (rt & bt & Hrt2 & _).
      cbn [direct_obs lres_sres] in *. rewrite Hl3, Hrt2 in *.
      destruct (select_in (map rpat (routes_of_node t)) host path false) as [[p vs]|]; [|discriminate].
      inversion Hs; subst. reflexivity.
    + destruct Hd as (a & b & c & d & E & Hi). inversion E; subst. specialize (Hi eq_refl). discriminate.
  - (* no direct match: the specification has none either, and the tsr candidate is the specification's *)
    assert (Hnd : direct_obs (lookup_by_path fuel t path false [] []) = None).
    { destruct c as [[l vals]|].
      - destruct Ht as (l' & ps' & -> & _). reflexivity.
      - destruct Ht as (ps' & ->). reflexivity. }
    rewrite Hnd in Hs.
    destruct (select_in (map rpat (routes_of_node t)) host path false) as [[p vs]|]; [discriminate|].
    rewrite (m2t_eq_spec_tsr t host path c Hwf Hsl Hne Hok Em).
    destruct c as [[l vals]|]; cbn [res_of].
    + destruct Ht as (l' & ps' & -> & Hl). cbn [lres_sres addp app mk_res].
      destruct (m2t_sound _ t [] None path l vals Hwf Em) as [(Hbad & _)|(rt & bt & H1 & H2 & H3 & H4 & H5)]; [discriminate|].
      rewrite Hl, H1. unfold lpat. rewrite H1. simpl in H3. f_equal. f_equal.
      unfold name_values. rewrite H3, tokenize_render by exact H4. rewrite <- H5. simpl. symmetry. apply combine_fst_snd.
    + destruct Ht as (ps' & ->). reflexivity.
Qed.

Theorem roots_lookup_eq_spec_tsr r m t host path fuel :
  path_only_root r m t -> pwf [] t -> path <> [] -> okpath path = true -> m2_fuel path t <= fuel ->
  lres_sres (roots_lookup fuel r m host path false [] []) = Some (spec_lookup (method_patterns r m) host path).
Proof.
  intros Hr Hwf Hne Hok Hf.
  rewrite (roots_lookup_path_only _ _ _ _ _ _ _ _ t Hr), (method_patterns_path_only _ _ t Hr).
  destruct Hr as (i & root & _ & _ & _ & _ & Hsl). apply lbp_eq_spec_tsr; auto.
Qed.

(* no trailing-slash action for the path "/" (nor any one-byte path) *)
Lemma spec_lookup_short_no_tsr pats host path p ps : List.length path < 2 -> spec_lookup pats host path <> STsr p ps.
Proof.
  intros Hl. unfold spec_lookup.
  assert (Hn : forall hm, select_tsr_in pats host path hm = None)
    by (intros hm; destruct path as [|a [|b r]]; simpl in *; try lia; reflexivity).
  rewrite !Hn.
  destruct (negb (Spec.is_nil (filter (fun p0 => negb (is_path_pattern p0)) pats)) && negb (Spec.is_nil host)).
  - destruct (select_in pats host path true) as [[p1 v1]|]; [simpl; discriminate|].
    destruct (select_in pats host path false) as [[p1 v1]|]; simpl; discriminate.
  - destruct (select_in pats host path false) as [[p1 v1]|]; simpl; discriminate.
Qed.

Theorem roots_lookup_root_no_tsr r m t host fuel n pss tpss :
  path_only_root r m t -> pwf [] t -> m2_fuel ["/"] t <= fuel ->
  roots_lookup fuel r m host ["/"] false [] [] <> Found (Some n) true pss tpss.
Proof.
  intros Hr Hwf Hf E.
  pose proof (roots_lookup_eq_spec_tsr r m t host ["/"] fuel Hr Hwf ltac:(discriminate) eq_refl Hf) as H.
  rewrite E in H. cbn [lres_sres] in H. destruct (nroute n) as [rt|]; [|discriminate].
  inversion H as [H0]. symmetry in H0. revert H0. apply spec_lookup_short_no_tsr. simpl. lia.
Qed.

(* ------------------------------------------------------------------ *)
(* S: a registered route that matches neither the request nor its slash-adjusted form is irrelevant *)
(* ------------------------------------------------------------------ *)
From FoxRoute Require SpecSound SpecSound2.

Lemma select_none_acc fuel cs s h acc acc' : List.length s < fuel -> h <= List.length s ->
  select fuel cs s h acc = None -> select fuel cs s h acc' = None.
Proof.
  intros Hf Hh H. pose proof (SpecSound.select_char fuel cs s h acc Hf Hh) as H1. rewrite H in H1. cbn in H1.
  pose proof (SpecSound.select_char fuel cs s h acc' Hf Hh) as H2.
  destruct (select fuel cs s h acc') as [[p vs]|]; [|reflexivity].
  cbn in H2. destruct H2 as (k & vals & _ & _ & Hk & HM & _). destruct (H1 k vals Hk HM).
Qed.

Lemma try_splits_ext_ok {A} (F F' : bytes -> bytes -> option A) s : forall k i,
  (forall j, i <= j < i + k -> split_ok s j = true -> F (firstn j s) (skipn j s) = F' (firstn j s) (skipn j s)) ->
  try_splits k i s F = try_splits k i s F'.
Proof.
  induction k as [|k IH]; intros i H; [reflexivity|]. rewrite !try_splits_S.
  rewrite (IH (S i)) by (intros j Hj; apply H; lia).
  destruct (split_ok s i) eqn:E; [|reflexivity]. rewrite (H i) by (auto; lia). reflexivity.
Qed.

Lemma adv_static_single c k : adv_static c [k] = [] \/ exists k', adv_static c [k] = [k'].
Proof.
  unfold adv_static. simpl. destruct (toks k) as [|[d|nm|nm] t]; simpl; auto.
  destruct (Ascii.eqb c d); simpl; eauto.
Qed.
Lemma adv_param_single k : adv_param [k] = [] \/ exists k', adv_param [k] = [k'].
Proof. unfold adv_param. simpl. destruct (toks k) as [|[d|nm|nm] t]; simpl; eauto. Qed.
Lemma adv_catch_single k : adv_catch [k] = [] \/ exists k', adv_catch [k] = [k'].
Proof. unfold adv_catch. simpl. destruct (toks k) as [|[d|nm|nm] t]; simpl; eauto. Qed.

Lemma orelse_none {A} (a : option A) f : orelse a f = None -> a = None /\ f tt = None.
Proof. destruct a; simpl; [discriminate|auto]. Qed.
Lemma orelse_eq {A} (a a' : option A) f f' : a = a' -> f tt = f' tt -> orelse a f = orelse a' f'.
Proof. intros -> H. destruct a'; simpl; auto. Qed.

Lemma select_irrelevant : forall fuel cs1 k cs2 s h acc, List.length s < fuel -> h <= List.length s ->
  select fuel [k] s h [] = None ->
  select fuel (cs1 ++ k :: cs2) s h acc = select fuel (cs1 ++ cs2) s h acc.
Proof.
  induction fuel as [|f IH]; intros cs1 k cs2 s h acc Hf Hh Hk; [lia|].
  destruct s as [|c r].
  - cbn [select] in *. unfold leaf in *. rewrite !filter_app. simpl in *.
    destruct (toks k); [discriminate|]. reflexivity.
  - rewrite !SpecSound.select_unfold in *. simpl in Hf, Hh.
    apply orelse_none in Hk. destruct Hk as [HA Hk]. apply orelse_none in Hk. destruct Hk as [HB HC].
    assert (Hgen : forall (adv : list cand -> list cand) s' h' acc' acc0,
              (forall a b, adv (a ++ b) = adv a ++ adv b) ->
              (adv [k] = [] \/ exists k', adv [k] = [k']) ->
              List.length s' < f -> h' <= List.length s' ->
              select f (adv [k]) s' h' acc0 = None ->
              select f (adv (cs1 ++ k :: cs2)) s' h' acc' = select f (adv (cs1 ++ cs2)) s' h' acc').
    { intros adv s' h' acc' acc0 Happ Hs1 Hl' Hh' Hn.
      change (k :: cs2) with ([k] ++ cs2). rewrite !Happ.
      destruct Hs1 as [->|(k' & E)]; [reflexivity|]. rewrite E in *. apply IH; auto.
      eapply select_none_acc; eauto. }
    apply orelse_eq; [|apply orelse_eq].
    + destruct (Ascii.eqb c "{" || Ascii.eqb c "*"); [reflexivity|].
      apply (Hgen (adv_static c) r (pred h) acc []); auto using adv_static_app, adv_static_single; lia.
    + pose proof (SpecSound.pval_length h (c :: r)) as Hpl. simpl in Hpl.
      destruct (SpecSound.pval h (c :: r)) as [|v0 vv] eqn:Ev; [reflexivity|].
      apply (Hgen adv_param _ _ _ [v0 :: vv]); auto using adv_param_app, adv_param_single.
      * rewrite skipn_length. simpl. simpl in Hpl. lia.
      * rewrite skipn_length. cbn [List.length] in *.
        destruct (Nat.eq_dec h 0) as [->|Hn]; [lia|].
        pose proof (SpecSound.pval_length_h h (c :: r) Hn) as Hph. rewrite Ev in Hph. simpl in Hph. lia.
    + destruct (negb (Nat.eqb h 0)); [reflexivity|].
      apply try_splits_ext_ok. intros j Hj Hs.
      pose proof (SpecSound.try_splits_char (fun v rest => select f (adv_catch [k]) rest 0 [v]) (c :: r)
                    (List.length (c :: r)) 1) as Hc.
      cbv beta in HC. rewrite HC in Hc. specialize (Hc j Hj Hs). cbv beta in Hc.
      apply (Hgen adv_catch _ 0 _ [firstn j (c :: r)]); auto using adv_catch_app, adv_catch_single; try lia.
      rewrite skipn_length. cbn [List.length] in *. lia.
Qed.

Lemma mode_h_le host path hm : SpecSound2.mode_h host hm <= List.length (SpecSound2.mode_text host path hm).
Proof. unfold SpecSound2.mode_h, SpecSound2.mode_text. destruct hm; [rewrite app_length|]; lia. Qed.

Lemma mode_text_fuel host path hm : List.length (SpecSound2.mode_text host path hm) < spec_fuel host path.
Proof. unfold SpecSound2.mode_text, spec_fuel. destruct hm; [rewrite app_length|]; lia. Qed.

Lemma select_in_irrelevant pats1 p pats2 host path hm :
  select_in [p] host path hm = None ->
  select_in (pats1 ++ p :: pats2) host path hm = select_in (pats1 ++ pats2) host path hm.
Proof.
  intros Hp. destruct (SpecSound2.in_mode hm p) eqn:Em.
  2:{ unfold select_in. change (fun p0 => if hm then negb (is_path_pattern p0) else is_path_pattern p0) with (SpecSound2.in_mode hm).
      rewrite !filter_app. simpl. rewrite Em. reflexivity. }
  assert (Hcase : (hm = true /\ host = []) \/ (hm = true -> host <> [])).
  { destruct hm; [|right; discriminate]. destruct host; [left; auto|right; discriminate]. }
  destruct Hcase as [[-> ->]|Hh]; [reflexivity|].
  rewrite !SpecSound2.select_in_eq in * by exact Hh.
  rewrite !filter_app, !map_app in *. simpl in *. rewrite Em in *. simpl in *.
  apply select_irrelevant; auto using mode_h_le, mode_text_fuel.
Qed.

Theorem spec_lookup_irrelevant pats1 p pats2 host path :
  (forall hm, select_in [p] host path hm = None /\ select_tsr_in [p] host path hm = None) ->
  spec_lookup (pats1 ++ p :: pats2) host path = spec_lookup (pats1 ++ pats2) host path.
Proof.
  intros Hp.
  assert (Hd : forall hm, select_in (pats1 ++ p :: pats2) host path hm = select_in (pats1 ++ pats2) host path hm)
    by (intros hm; apply select_in_irrelevant; apply Hp).
  assert (Ht : forall hm, select_tsr_in (pats1 ++ p :: pats2) host path hm = select_tsr_in (pats1 ++ pats2) host path hm).
  { intros hm. destruct (le_lt_dec 2 (List.length path)) as [Hl|Hl].
    2:{ rewrite !SpecSound2.select_tsr_in_short by exact Hl. reflexivity. }
    destruct (Hp hm) as [_ Hpt]. rewrite !SpecSound2.select_tsr_in_eq in * by exact Hl.
    destruct (ends_with_slash path); [apply select_in_irrelevant; exact Hpt|].
    rewrite !filter_app in *. simpl in *. destruct (static_slash_end p); [|reflexivity].
    apply select_in_irrelevant. exact Hpt. }
  unfold spec_lookup. rewrite !Hd, !Ht.
  set (hr := fun l => negb (Spec.is_nil (filter (fun p0 : bytes => negb (is_path_pattern p0)) l))).
  change (negb (Spec.is_nil (filter (fun p0 : bytes => negb (is_path_pattern p0)) (pats1 ++ p :: pats2)))) with (hr (pats1 ++ p :: pats2)).
  change (negb (Spec.is_nil (filter (fun p0 : bytes => negb (is_path_pattern p0)) (pats1 ++ pats2)))) with (hr (pats1 ++ pats2)).
  destruct (hr (pats1 ++ pats2)) eqn:E2.
  - assert (hr (pats1 ++ p :: pats2) = true) as ->; [|reflexivity].
    unfold hr in *. rewrite filter_app in *. simpl.
    destruct (filter (fun p0 => negb (is_path_pattern p0)) pats1); [|reflexivity].
    simpl in *. destruct (negb (is_path_pattern p)); [reflexivity|exact E2].
  - (* no hostname route besides (possibly) p: the hostname attempt finds nothing *)
    assert (Hn : forall l, hr l = false -> forall pth, select_in l host pth true = None).
    { intros l Hl pth. unfold hr in Hl. unfold select_in.
      destruct (filter (fun p0 => negb (is_path_pattern p0)) l); [|discriminate].
      destruct host; [reflexivity|]. apply StaticEquiv2.select_nil. }
    assert (Hnt : select_tsr_in (pats1 ++ pats2) host path true = None).
    { destruct (le_lt_dec 2 (List.length path)) as [Hl|Hl].
      2:{ apply SpecSound2.select_tsr_in_short. exact Hl. }
      rewrite SpecSound2.select_tsr_in_eq by exact Hl. destruct (ends_with_slash path); apply Hn; auto.
      unfold hr in *. destruct (filter (fun p0 => negb (is_path_pattern p0)) (pats1 ++ pats2)) eqn:E; [|discriminate].
      assert (forall l g, filter (fun p0 : bytes => negb (is_path_pattern p0)) l = [] ->
                filter (fun p0 : bytes => negb (is_path_pattern p0)) (filter g l) = []) as Hff.
      { induction l as [|x l IHl]; intros g Hx; simpl in *; auto.
        destruct (negb (is_path_pattern x)) eqn:Ex; [discriminate|]. destruct (g x); simpl; rewrite ?Ex; auto. }
      rewrite Hff by exact E. reflexivity. }
    rewrite (Hn _ E2), Hnt. destruct (hr (pats1 ++ p :: pats2) && negb (Spec.is_nil host)); reflexivity.
Qed.

(* ------------------------------------------------------------------ *)
(* corollaries                                                          *)
(* ------------------------------------------------------------------ *)
Lemma m2t_tsr_sound t host path l kvs :
  pwf [] t -> starts_with "/" (nkey t) = true -> path <> [] -> okpath path = true ->
  m2t (has_suffix_slash path) None t path = TN (Some (l, kvs)) ->
  SpecSound2.TsrMatch (map rpat (routes_of_node t)) host path false (lpat l) (map snd kvs).
Proof.
  intros Hwf Hsl Hne Hok Hm. apply SpecSound2.select_tsr_in_sound.
  rewrite (m2t_eq_spec_tsr t host path _ Hwf Hsl Hne Hok Hm). reflexivity.
Qed.

Lemma m2t_tsr_complete t host path p vals :
  pwf [] t -> starts_with "/" (nkey t) = true -> path <> [] -> okpath path = true ->
  SpecSound2.TsrMatch (map rpat (routes_of_node t)) host path false p vals ->
  m2t (has_suffix_slash path) None t path <> TN None.
Proof.
  intros Hwf Hsl Hne Hok HT Hm. apply SpecSound2.select_tsr_in_complete in HT. apply HT.
  rewrite (m2t_eq_spec_tsr t host path _ Hwf Hsl Hne Hok Hm). reflexivity.
Qed.

Theorem roots_lookup_irrelevant_route r m t r' m' t' pats1 p pats2 host path fuel :
  path_only_root r m t -> pwf [] t -> path_only_root r' m' t' -> pwf [] t' ->
  method_patterns r m = pats1 ++ p :: pats2 -> method_patterns r' m' = pats1 ++ pats2 ->
  (forall hm, select_in [p] host path hm = None /\ select_tsr_in [p] host path hm = None) ->
  path <> [] -> okpath path = true -> m2_fuel path t <= fuel -> m2_fuel path t' <= fuel ->
  lres_sres (roots_lookup fuel r m host path false [] []) = lres_sres (roots_lookup fuel r' m' host path false [] []).
Proof.
  intros Hr Hwf Hr' Hwf' Hp1 Hp2 Hirr Hne Hok Hf Hf'.
  rewrite (roots_lookup_eq_spec_tsr r m t host path fuel Hr Hwf Hne Hok Hf).
  rewrite (roots_lookup_eq_spec_tsr r' m' t' host path fuel Hr' Hwf' Hne Hok Hf').
  rewrite Hp1, Hp2. f_equal. apply spec_lookup_irrelevant. exact Hirr.
Qed.
