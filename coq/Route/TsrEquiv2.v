(* TsrEquiv2 — C08, part 2: M2t's trailing-slash candidate = Spec.select_tsr_in (the selection on the
   slash-toggled path), and the request-level statement roots_lookup = spec_lookup including the
   tsr outcome, for path-only method trees.
   Owner: proof agent p-tsr. *)
From FoxBase Require Import Bytes.
From FoxRoute Require Import Node Lookup Spec SpecFacts Tree Corr StaticEquiv StaticEquiv2 TsrEquiv.
Open Scope char_scope.

(* ------------------------------------------------------------------ *)
(* small facts                                                          *)
(* ------------------------------------------------------------------ *)
Lemma talt_TN a b c : talt a b = TN c -> exists ca cb, a = TN ca /\ b = TN cb /\ c = cor ca cb.
Proof.
  destruct a as [l v|ca]; simpl; [discriminate|]. destruct b as [l v|cb]; simpl; [discriminate|].
  intros [= <-]. eauto.
Qed.
Lemma tcons_TN c0 b c : tcons c0 b = TN c -> exists cb, b = TN cb /\ c = cor c0 cb.
Proof. destruct b as [l v|cb]; simpl; [discriminate|]. intros [= <-]. eauto. Qed.
Lemma twith_TN v r c : twith v r = TN c -> exists c', r = TN c' /\ c = cwith v c'.
Proof. destruct r as [l k|c']; simpl; [discriminate|]. intros [= <-]. eauto. Qed.

Lemma seg_app_slash : forall q r, seg is_slash (q ++ "/" :: r) = seg is_slash q.
Proof.
  induction q as [|x q IH]; intros r; simpl; auto.
  destruct (is_slash x); auto. rewrite IH. reflexivity.
Qed.

Lemma index_byte_app_slash : forall q,
  index_byte (q ++ ["/"]) "/" = match index_byte q "/" with Some d => Some d | None => Some (List.length q) end.
Proof.
  induction q as [|x q IH]; simpl; auto.
  destruct (Ascii.eqb x "/"); auto. rewrite IH. destruct (index_byte q "/"); reflexivity.
Qed.

Lemma one_slash_snoc done : one_slash (done ++ [TStatic "/"]) = Spec.is_nil done.
Proof. destruct done as [|t [|t2 l]]; simpl; auto; destruct t; auto; destruct l; auto. Qed.
Lemma one_slash_snoc_catch done nm : one_slash (done ++ [TCatch nm]) = false.
Proof. destruct done as [|t [|t2 l]]; simpl; auto; destruct t; auto; destruct l; auto. Qed.

Lemma scant_fin_TD sub fin nm : (forall v, exists l k, fin v = TD l k) ->
  forall sf v q, List.length q < sf -> exists l k, scant sf sub fin nm v q = TD l k.
Proof.
  intros Hfin. induction sf as [|f IH]; intros v q Hl; [lia|]. cbn [scant].
  destruct (index_byte q "/") as [[|d]|] eqn:E; auto.
  destruct (sub (skipn (S d) q)) as [l k|c]; [eauto|].
  pose proof (index_byte_nth q (S d) E) as [_ Hd].
  destruct (IH (v ++ firstn (S d) q ++ ["/"]) (skipn 1 (skipn (S d) q))) as (l & k & ->).
  - rewrite !skipn_length. lia.
  - simpl. eauto.
Qed.

(* ------------------------------------------------------------------ *)
(* remove-slash: M2t on q ++ "/" against M2 on q                        *)
(* ------------------------------------------------------------------ *)
Definition pc (pm : option node) : tcand :=
  match pm with Some p => if is_leaf p then Some (p, []) else None | None => None end.
Definition hd_slash (kt : list token) : bool :=
  match kt with TStatic c :: _ => Ascii.eqb c "/" | _ => false end.
Definition rmc (pm : option node) (done kt : list token) (q : bytes) : tcand :=
  if Spec.is_nil q && Spec.is_nil done && hd_slash kt then pc pm else None.

Lemma par_cand_snoc pm done : par_cand pm (done ++ [TStatic "/"]) = if Spec.is_nil done then pc pm else None.
Proof.
  unfold par_cand, pc. rewrite one_slash_snoc. destruct pm as [p|]; [|destruct (Spec.is_nil done); reflexivity].
  destruct (is_leaf p), (Spec.is_nil done); reflexivity.
Qed.

Lemma scan_rm (subt : bytes -> tres) (sub : bytes -> mres) (fint : bytes -> tres) nm :
  (forall q1 c1, subt (q1 ++ ["/"]) = TN c1 -> c1 = sub q1) -> sub [] = None ->
  (forall v, fint v = TN None) ->
  forall sf sf' v q c, List.length (q ++ ["/"]) < sf -> List.length q < sf' ->
    scant sf subt fint nm v (q ++ ["/"]) = TN c -> c = scan sf' sub (fun _ => None) nm v q.
Proof.
  intros Hsub Hnil Hfin. induction sf as [|f IH]; intros sf' v q c Hl Hl' Hs; [lia|].
  destruct sf' as [|f']; [lia|]. cbn [scant scan] in *.
  rewrite index_byte_app_slash in Hs. rewrite app_length in Hl. simpl in Hl.
  destruct (index_byte q "/") as [[|d]|] eqn:E.
  - rewrite Hfin in Hs. congruence.
  - pose proof (index_byte_nth q (S d) E) as [_ Hd].
    rewrite firstn_app, skipn_app in Hs.
    replace (S d - List.length q) with 0 in Hs by lia.
    change (firstn 0 ["/"]) with (@nil ascii) in Hs. change (skipn 0 ["/"]) with ["/"] in Hs.
    rewrite !app_nil_r in Hs.
    destruct (subt (skipn (S d) q ++ ["/"])) as [l k|c1] eqn:Es; [discriminate|].
    apply Hsub in Es. apply tcons_TN in Hs. destruct Hs as (c2 & Hs & ->).
    assert (Hq' : skipn 1 (skipn (S d) q ++ ["/"]) = skipn 1 (skipn (S d) q) ++ ["/"]).
    { destruct (skipn (S d) q) as [|x r] eqn:Eq; [|reflexivity].
      apply (f_equal (@List.length ascii)) in Eq. rewrite skipn_length in Eq. simpl in Eq. lia. }
    rewrite Hq' in Hs. apply (IH f') in Hs.
    + rewrite <- Es. destruct c1 as [[l kvs]|]; simpl; auto.
    + rewrite app_length, !skipn_length. simpl. lia.
    + rewrite !skipn_length. lia.
  - destruct (List.length q) as [|d] eqn:El.
    + rewrite Hfin in Hs. congruence.
    + rewrite firstn_app, skipn_app, El in Hs.
      replace (S d - S d) with 0 in Hs by lia. rewrite <- El in Hs. rewrite skipn_all, firstn_all in Hs.
      simpl in Hs.
      destruct (subt ["/"]) as [l k|c1] eqn:Es; [discriminate|].
      apply (Hsub []) in Es. rewrite Hnil in Es. subst c1.
      apply tcons_TN in Hs. destruct Hs as (c2 & Hs & ->). simpl.
      destruct f as [|f]; simpl in Hs; [congruence|]. rewrite Hfin in Hs. congruence.
Qed.

Lemma m2_nil_pwf pre x : pwf pre x -> m2 x [] = None.
Proof.
  destruct x as [k r ch]. intros H. pose proof (pwf_inv _ _ _ _ H) as (kt & Hne & Hk & Hok & _).
  apply (m2_nil_path k r ch kt Hk Hne). eapply kt_ok_tok; eauto.
Qed.

Lemma hd_slash_start pre x : pwf pre x -> hd_slash (tokenize (nkey x)) = starts_with "/" (nkey x).
Proof.
  intros H. destruct (pwf_tokens _ _ H) as (t & kt & Htk & Hk & _). rewrite Htk, Hk.
  destruct t as [d|nm|nm]; reflexivity.
Qed.

Lemma starts_with_other a b k : starts_with a k = true -> starts_with b k = Ascii.eqb a b.
Proof. destruct k as [|x k]; simpl; [discriminate|]. intros H. apply Ascii.eqb_eq in H. subst. reflexivity. Qed.

Lemma is_leaf_nroute n : is_leaf n = match nroute n with Some _ => true | None => false end.
Proof. reflexivity. Qed.

Lemma kmt_rm : forall n pre, pwf pre n ->
  forall kt done pm q c, kt_ok (cend (nroute n) (nchildren n)) kt = true ->
    kmt true n (Kt true n) (sub0t true (nchildren n)) pm done kt (q ++ ["/"]) = TN c ->
    c = cor (rmc pm done kt q) (km n (Kof n) (sub0of (nchildren n)) kt q).
Proof.
  induction n as [k r ch IH] using node_ind'. intros pre Hwf.
  pose proof (pwf_inv _ _ _ _ Hwf) as (kt0 & Hne0 & Hk0 & Hok0 & Hr & Hnd & Hch).
  rewrite Forall_forall in IH, Hch. cbn [nroute nchildren].
  set (n := Node k r ch) in *.
  (* children *)
  assert (Hchild : forall x pm q c, In x ch -> m2t true pm x (q ++ ["/"]) = TN c ->
            c = cor (rmc pm [] (tokenize (nkey x)) q) (m2 x q)).
  { intros x pm q c Hx Hm. rewrite m2t_kmt in Hm. rewrite m2_km.
    destruct (pwf_tokens _ _ (Hch x Hx)) as (t & ktx & Htk & _ & Hokx). rewrite Htk in *.
    eapply (IH x Hx (pre ++ k)); eauto. }
  assert (Hcc : forall cc q c, m2t_child true n cc (q ++ ["/"]) = TN c ->
            c = match first_child cc ch with
                | Some x => cor (rmc (Some n) [] (tokenize (nkey x)) q) (m2 x q)
                | None => None end).
  { intros cc q c. unfold m2t_child. change (nchildren n) with ch. destruct (first_child cc ch) as [x|] eqn:Ex.
    - apply Hchild. apply first_child_in in Ex. tauto.
    - congruence. }
  induction kt as [|t kt IHkt]; intros done pm q c Hok Hm.
  - (* key consumed *)
    cbn [kmt km] in *. unfold rmc. cbn [hd_slash]. rewrite andb_false_r. cbn [cor].
    unfold Kt, Kt_gen in Hm.
    destruct q as [|c0 q'].
    + (* only "/" left *)
      cbn [app] in Hm. apply tcons_TN in Hm. destruct Hm as (cb & Hm & ->).
      apply talt_TN in Hm. destruct Hm as (c1 & c23 & H1 & Hm & ->).
      apply talt_TN in Hm. destruct Hm as (c2 & c3 & H2 & H3 & ->).
      apply (Hcc "/" []) in H1. apply (Hcc "{" []) in H2. apply (Hcc "*" []) in H3.
      cbn [Kof nroute nchildren]. unfold n at 1. cbn [nroute nchildren is_one_slash].
      rewrite Ascii.eqb_refl, andb_true_r.
      assert (Hwild : forall cc c', cc <> "/" ->
                c' = match first_child cc ch with
                     | Some x => cor (rmc (Some n) [] (tokenize (nkey x)) []) (m2 x [])
                     | None => None end -> c' = None).
      { intros cc c' Hcc' ->. destruct (first_child cc ch) as [y|] eqn:Ey; auto.
        apply first_child_in in Ey. destruct Ey as [Hy Hsy].
        rewrite (m2_nil_pwf _ _ (Hch y Hy)), cor_none_r. unfold rmc.
        rewrite (hd_slash_start _ _ (Hch y Hy)), (starts_with_other cc "/" _ Hsy).
        destruct (Ascii.eqb_spec cc "/"); [congruence|]. rewrite andb_false_r. reflexivity. }
      assert (H2' : c2 = None) by (apply (Hwild "{"); [discriminate|exact H2]).
      assert (H3' : c3 = None) by (apply (Hwild "*"); [discriminate|exact H3]).
      clear H2 H3. subst c2 c3. cbn [cor]. rewrite cor_none_r.
      rewrite H1. destruct (first_child "/" ch) as [x|] eqn:Ex; cbn [is_none andb].
      * apply first_child_in in Ex. destruct Ex as [Hx Hsx].
        rewrite (m2_nil_pwf _ _ (Hch x Hx)), cor_none_r. unfold rmc.
        rewrite (hd_slash_start _ _ (Hch x Hx)), Hsx. cbn [Spec.is_nil andb pc].
        unfold is_leaf, n. simpl. destruct r; reflexivity.
      * rewrite cor_none_r. unfold is_leaf, n. simpl. destruct r; reflexivity.
    + (* more than "/" left: no candidate here, the children see q *)
      cbn [app] in Hm. apply tcons_TN in Hm. destruct Hm as (cb & Hm & ->).
      apply talt_TN in Hm. destruct Hm as (c1 & c23 & H1 & Hm & ->).
      apply talt_TN in Hm. destruct Hm as (c2 & c3 & H2 & H3 & ->).
      change (c0 :: q' ++ ["/"]) with ((c0 :: q') ++ ["/"]) in H1, H2, H3.
      apply (Hcc c0) in H1. apply (Hcc "{") in H2. apply (Hcc "*") in H3.
      assert (Hone : is_one_slash (c0 :: q' ++ ["/"]) = false) by (destruct q'; reflexivity).
      rewrite Hone, andb_false_r. cbn [cor Kof]. unfold n at 1 2 3. cbn [nchildren].
      unfold m2_child, alt.
      assert (Hr0 : forall x, rmc (Some n) [] (tokenize (nkey x)) (c0 :: q') = None) by reflexivity.
      rewrite H1, H2, H3.
      destruct (first_child c0 ch) as [x|]; [rewrite Hr0; cbn [cor]|];
        destruct (first_child "{" ch) as [y|]; try rewrite Hr0; cbn [cor];
        destruct (first_child "*" ch) as [w|]; try rewrite Hr0; cbn [cor];
        repeat match goal with |- context [m2 ?a ?b] => destruct (m2 a b) as [[? ?]|] end; reflexivity.
  - (* a token *)
    destruct q as [|c0 q'].
    + (* the path is exactly "/" here *)
      cbn [app kmt km] in *. rewrite cor_none_r.
      destruct t as [d|nm|nm].
      * unfold rmc. cbn [Spec.is_nil andb hd_slash].
        destruct (Ascii.eqb d "/") eqn:Ed; cbn [andb] in Hm.
        -- change (sbyte "/") with true in Hm. cbn iota in Hm.
           apply Ascii.eqb_eq in Ed. subst d. rewrite andb_true_r.
           destruct kt as [|t' kt'].
           ++ cbn [kmt] in Hm. unfold Kt, Kt_gen in Hm. destruct (is_leaf n); [discriminate|].
              injection Hm as <-. apply par_cand_snoc.
           ++ cbn [kmt] in Hm. injection Hm as <-. unfold exh. apply par_cand_snoc.
        -- injection Hm as <-. rewrite andb_false_r. reflexivity.
      * cbn [seg is_slash] in Hm. change (is_slash "/") with true in Hm. cbn iota in Hm.
        injection Hm as <-. unfold rmc. cbn [hd_slash]. rewrite andb_false_r. reflexivity.
      * unfold rmc. cbn [hd_slash]. rewrite andb_false_r.
        destruct (kt_ok_cons _ _ _ Hok) as [[Hbad _]|(nm' & Hnm & _ & Hok' & Hend)]; [discriminate|].
        destruct kt as [|t' kt'].
        -- exfalso. destruct (sub0t true ch) as [sb|]; [|discriminate].
           destruct (scant_fin_TD sb (fun v => TD n [(nm, v)]) nm ltac:(eauto) (S (List.length ["/"])) [] ["/"] ltac:(simpl; lia))
             as (l & kk & E). rewrite E in Hm. discriminate.
        -- cbn [scant List.length index_byte] in Hm. change (Ascii.eqb "/" "/") with true in Hm. cbn iota in Hm.
           cbn [starts_with app] in Hm. change (Ascii.eqb "/" "/") with true in Hm. cbn iota in Hm.
           congruence.
    + (* at least one byte before the final "/" *)
      assert (Hrm : rmc pm done (t :: kt) (c0 :: q') = None) by reflexivity.
      rewrite Hrm. cbn [cor]. cbn [app kmt km] in *.
      destruct (kt_ok_cons _ _ _ Hok) as [[Hokt Hok']|(nm' & -> & Hnok & Hok' & Hend)].
      * destruct t as [d|nm|nm]; simpl in Hokt; [| |discriminate].
        -- destruct (Ascii.eqb d c0 && sbyte c0); [|congruence].
           apply IHkt in Hm; auto. rewrite Hm. unfold rmc.
           destruct (done ++ [TStatic d]) eqn:Ed; [destruct done; discriminate|].
           rewrite andb_false_r. reflexivity.
        -- change (c0 :: q' ++ ["/"]) with ((c0 :: q') ++ "/" :: []) in Hm. rewrite seg_app_slash in Hm.
           destruct (seg is_slash (c0 :: q')) as [|v0 vv] eqn:Ev; [congruence|].
           apply twith_TN in Hm. destruct Hm as (c' & Hm & ->).
           assert (Hlen : List.length (v0 :: vv) <= List.length (c0 :: q')).
           { rewrite <- Ev. clear. induction (c0 :: q') as [|x0 l0 IHl0]; simpl; auto. destruct (is_slash x0); simpl; lia. }
           rewrite skipn_app in Hm.
           replace (List.length (v0 :: vv) - List.length (c0 :: q')) with 0 in Hm by lia. simpl skipn in Hm at 2.
           apply IHkt in Hm; auto. rewrite Hm. unfold rmc.
           destruct (done ++ [TParam nm]) eqn:Ed; [destruct done; discriminate|].
           rewrite andb_false_r. cbn [cor].
           destruct (km n (Kof n) (sub0of ch) kt (skipn (List.length (v0 :: vv)) (c0 :: q'))) as [[l1 kvs1]|]; reflexivity.
      * destruct kt as [|t' kt'].
        -- exfalso. destruct (sub0t true ch) as [sb|]; [|discriminate].
           destruct (scant_fin_TD sb (fun v => TD n [(nm', v)]) nm' ltac:(eauto)
                       (S (List.length (c0 :: q' ++ ["/"]))) [] (c0 :: q' ++ ["/"]) ltac:(lia)) as (l & kk & E).
           rewrite E in Hm. discriminate.
        -- change (c0 :: q' ++ ["/"]) with ((c0 :: q') ++ ["/"]) in Hm.
           eapply (scan_rm _ (fun q0 => km n (Kof n) (sub0of ch) (t' :: kt') q0)); [| | | | |exact Hm].
           ++ intros q1 c1 H1. apply IHkt in H1; auto. rewrite H1. unfold rmc, pc.
              rewrite andb_comm. destruct (hd_slash (t' :: kt') && _); reflexivity.
           ++ reflexivity.
           ++ intros v. unfold exh, par_cand. rewrite one_slash_snoc_catch.
              destruct (starts_with "/" v); [reflexivity|]. destruct pm as [p|]; [rewrite andb_false_r|]; reflexivity.
           ++ lia.
           ++ lia.
Qed.
