(* Canon2 — bridge: the well-formedness invariant of WFDef.v (preserved by the tree
   operations, TreeWF*.v) implies Canonical; hence WF trees with the same route
   set are equal. *)
From FoxBase Require Import Bytes.
From FoxRoute Require Import Node Tree WFDef TreeMap Canon.
From Coq Require Import Sorting.Sorted Sorting.Permutation Lia.
Open Scope char_scope.

(* ---------- on legal prefixes, hostpart = "no '/' so far" ---------- *)
Lemma vstep_inv s c :
  snd (vstep s c) <> VBad ->
  snd s <> VBad /\ fst (vstep s c) = fst s && negb (Ascii.eqb c "/").
Proof.
  destruct s as [h st]. destruct (Ascii.eqb_spec c "/") as [->|N1].
  - destruct st, h; cbn; intros Hn; split; congruence.
  - apply Ascii.eqb_neq in N1. cbn [vstep fst snd]. rewrite ?N1.
    destruct st; cbn [fst snd]; rewrite ?N1;
      destruct (Ascii.eqb c "{"), (Ascii.eqb c "*"), (Ascii.eqb c "}"), (Ascii.eqb c "."), h;
      cbn; intros Hn; split; congruence.
Qed.

Lemma vrun_nobad : forall u s,
  snd (fold_left vstep u s) <> VBad ->
  snd s <> VBad /\ fst (fold_left vstep u s) = fst s && negb (has_slash u).
Proof.
  induction u as [|a u IH]; intros s Hn; cbn [fold_left] in *.
  - split; auto. cbn. rewrite andb_true_r. reflexivity.
  - destruct (IH _ Hn) as [H1 H2]. destruct (vstep_inv _ _ H1) as [H3 H4]. split; auto.
    rewrite H2, H4. cbn [has_slash existsb]. fold (has_slash u).
    rewrite negb_orb, andb_assoc. reflexivity.
Qed.

Lemma closed_hostpart u : closed u = true -> hostpart u = negb (has_slash u).
Proof.
  unfold closed, hostpart, vrun, vclosed. intros Hc.
  destruct (vrun_nobad u vinit) as [_ H].
  - intros E. rewrite E in Hc. discriminate.
  - rewrite H. reflexivity.
Qed.

(* ---------- WF -> Canonical ---------- *)
Lemma WF_CanonN : forall n pre,
  closed pre = true -> WF_node pre n -> CanonN (negb (has_slash pre)) n.
Proof.
  induction n as [k r ch IH] using cnode_ind. intros pre Hpre Hwf.
  inversion Hwf as [? ? ? ? Hk Hcl Hhost Hsort Hleaf Hinner Hch]; subst.
  rewrite (closed_hostpart _ Hpre), (closed_hostpart _ Hcl) in Hhost.
  assert (Hnext : negb (has_slash (pre ++ k)) = next_host (negb (has_slash pre)) k).
  { unfold next_host. rewrite has_slash_app, negb_orb. reflexivity. }
  constructor.
  - destruct k as [|c t]; [congruence|]. cbn [key_ok].
    destruct (has_slash pre) eqn:Hp; [reflexivity|]. cbn [negb orb].
    destruct (Ascii.eqb c "/") eqn:Hc; [reflexivity|]. cbn [orb].
    assert (Hs : negb (has_slash (pre ++ c :: t)) = true).
    { apply Hhost; [reflexivity|]. cbn [starts_with]. exact Hc. }
    rewrite has_slash_app, Hp in Hs. cbn [orb has_slash existsb] in Hs. rewrite Hc in Hs.
    exact Hs.
  - exact Hsort.
  - rewrite <- Hnext. rewrite Forall_forall in IH, Hch |- *. intros c Hc. apply IH; auto.
  - rewrite <- Hnext. destruct r as [x|]; [reflexivity|]. cbn [branch_ok].
    destruct (Hinner eq_refl) as [Hl|(Hh & g & -> & Hg)].
    + destruct ch as [|g1 [|g2 ch']]; simpl in Hl; [lia | lia | reflexivity].
    + rewrite (closed_hostpart _ Hcl) in Hh. rewrite Hh, Hg. reflexivity.
Qed.

Lemma WF_sufs_pat : forall n pre p r,
  WF_node pre n -> In (p, r) (sufs n) -> rpat r = pre ++ p.
Proof.
  induction n as [k rt ch IH] using cnode_ind. intros pre p r Hwf Hin.
  inversion Hwf as [? ? ? ? Hk Hcl Hhost Hsort Hleaf Hinner Hch]; subst.
  apply sufs_in in Hin as ([q r'] & E & Hq). unfold prepend in E. cbn [fst snd] in E.
  injection E as -> ->. apply in_app_or in Hq as [Hq|Hq].
  - destruct rt as [x|]; simpl in Hq; [|contradiction]. destruct Hq as [E|[]].
    injection E as <- <-. destruct (Hleaf x eq_refl) as [Hp _]. rewrite Hp, app_nil_r. reflexivity.
  - apply in_flat_map in Hq as (c & Hc & Hq). rewrite Forall_forall in IH, Hch.
    rewrite (IH c Hc (pre ++ k) q r' (Hch c Hc) Hq), app_assoc. reflexivity.
Qed.

Theorem WF_root_Canonical root : WF_root root -> Canonical root.
Proof.
  intros (Hr & Hs & Hch). split; [exact Hs|]. split.
  - rewrite Forall_forall in Hch |- *. intros c Hc.
    apply (WF_CanonN c [] eq_refl (Hch c Hc)).
  - intros p r Hin. unfold routes_of in Hin. rewrite Hr in Hin. cbn [own app] in Hin.
    apply in_flat_map in Hin as (c & Hc & Hin). rewrite Forall_forall in Hch.
    apply (WF_sufs_pat c [] p r (Hch c Hc) Hin).
Qed.

Lemma nodup_app_disjoint {X} (a b : list X) x : NoDup (a ++ b) -> In x a -> In x b -> False.
Proof.
  induction a as [|y a IH]; simpl; intros Hd Ha Hb; [contradiction|].
  inversion Hd as [|? ? Hn Hd']; subst. destruct Ha as [->|Ha]; auto.
  apply Hn, in_or_app; auto.
Qed.

Lemma nodup_app_r {X} (a b : list X) : NoDup (a ++ b) -> NoDup b.
Proof.
  induction a as [|y a IH]; simpl; intros Hd; auto. inversion Hd; subst. auto.
Qed.

Theorem WF_roots_CanonRoots rs : WF_roots rs -> CanonRoots rs.
Proof.
  intros (H4 & Hne & Hd & Hwf).
  assert (Hd' : NoDup (map nkey (firstn 4 rs) ++ map nkey (skipn 4 rs)))
    by (rewrite <- map_app, firstn_skipn; exact Hd).
  split; [exact H4|]. split; [|split].
  - apply (nodup_app_r _ _ Hd').
  - rewrite Forall_forall in Hne |- *. intros x Hx. split; [|auto].
    unfold is_removable. apply negb_true_iff.
    destruct (existsb (bytes_eqb (nkey x)) common_verbs) eqn:E; [|reflexivity]. exfalso.
    apply existsb_bytes_In in E. rewrite <- H4 in E.
    apply (nodup_app_disjoint _ _ _ Hd' E). apply in_map. exact Hx.
  - rewrite Forall_forall in Hwf |- *. intros x Hx. apply WF_root_Canonical; auto.
Qed.

(* ---------- route sets: WFDef.routes_of_txn vs Canon.txn_routes ---------- *)
Lemma rlist_sufs : forall n r, In r (rlist n) <-> exists p, In (p, r) (sufs n).
Proof.
  induction n as [k rt ch IH] using cnode_ind. intros r. cbn [rlist]. rewrite in_app_iff, in_flat_map.
  rewrite Forall_forall in IH. split.
  - intros [Hin|(c & Hc & Hin)].
    + destruct rt as [x|]; simpl in Hin; [|contradiction]. destruct Hin as [->|[]].
      exists (k ++ []). apply sufs_in. exists ([], r). split; auto. simpl; auto.
    + apply (IH c Hc) in Hin as [p Hp]. exists (k ++ p). apply sufs_in. exists (p, r). split; auto.
      apply in_or_app. right. apply in_flat_map. eauto.
  - intros [p Hp]. apply sufs_in in Hp as ([q r'] & E & Hq). unfold prepend in E. cbn [fst snd] in E.
    injection E as -> ->. apply in_app_or in Hq as [Hq|Hq].
    + left. destruct rt as [x|]; simpl in Hq; [|contradiction]. destruct Hq as [E|[]].
      injection E as _ <-. simpl; auto.
    + right. apply in_flat_map in Hq as (c & Hc & Hq). exists c. split; auto. apply (IH c Hc). eauto.
Qed.

Lemma rlist_root root r : In r (rlist root) <-> exists p, In (p, r) (routes_of root).
Proof.
  destruct root as [k rt ch]. unfold routes_of. cbn [rlist nroute nchildren].
  rewrite in_app_iff, in_flat_map. split.
  - intros [Hin|(c & Hc & Hin)].
    + destruct rt as [x|]; simpl in Hin; [|contradiction]. destruct Hin as [->|[]].
      exists []. simpl; auto.
    + apply rlist_sufs in Hin as [p Hp]. exists p. apply in_or_app. right. apply in_flat_map. eauto.
  - intros [p Hp]. apply in_app_or in Hp as [Hp|Hp].
    + left. destruct rt as [x|]; simpl in Hp; [|contradiction]. destruct Hp as [E|[]].
      injection E as _ <-. simpl; auto.
    + right. apply in_flat_map in Hp as (c & Hc & Hp). exists c. split; auto. apply rlist_sufs. eauto.
Qed.

Lemma route_eta (r : route) : {| rpat := rpat r; rid := rid r |} = r.
Proof. destruct r; reflexivity. Qed.

Lemma txn_routes_of_triples ra rb :
  Forall Canonical ra -> Forall Canonical rb ->
  incl (flat_map routes_of_root ra) (flat_map routes_of_root rb) ->
  incl (txn_routes ra) (txn_routes rb).
Proof.
  intros Ha Hb Hi [m [p r]] Hin.
  apply in_txn_routes in Hin as (x & Hx & <- & Hpr).
  rewrite Forall_forall in Ha, Hb.
  assert (Hp : rpat r = p) by (apply (Ha x Hx); auto).
  assert (Ht : In (nkey x, rpat r, rid r) (flat_map routes_of_root ra)).
  { apply in_flat_map. exists x. split; auto. unfold routes_of_root. apply in_map_iff.
    exists r. split; auto. apply rlist_root. eauto. }
  apply Hi, in_flat_map in Ht as (y & Hy & Ht). unfold routes_of_root in Ht.
  apply in_map_iff in Ht as (r' & E & Hr'). injection E as Ek Ep Ei.
  assert (r' = r) as -> by (rewrite <- (route_eta r'), <- (route_eta r); congruence).
  apply rlist_root in Hr' as [p' Hp']. apply in_txn_routes. exists y. repeat split; auto.
  assert (rpat r = p') by (apply (Hb y Hy); auto). congruence.
Qed.

(* two well-formed transactions holding the same set of (method, pattern, route id)
   have the same trees; only the order of the custom-method roots may differ *)
Theorem WF_txn_unique (ta tb : txn) :
  WF_txn ta -> WF_txn tb ->
  seteq (routes_of_txn ta) (routes_of_txn tb) ->
  firstn 4 (t_roots ta) = firstn 4 (t_roots tb) /\
  Permutation (skipn 4 (t_roots ta)) (skipn 4 (t_roots tb)).
Proof.
  intros [Ha _] [Hb _] E.
  apply WF_roots_CanonRoots in Ha. apply WF_roots_CanonRoots in Hb.
  apply canon_roots_unique; auto.
  pose proof Ha as (_ & _ & _ & Ca). pose proof Hb as (_ & _ & _ & Cb).
  intros x. split; apply txn_routes_of_triples; auto; intros t; apply E.
Qed.

Example WF_bridge_ex : Canonical (nth 0 (t_roots ex_txn1) (empty_root [])).
Proof. apply WF_root_Canonical, wf_rootb_spec. vm_compute. reflexivity. Qed.

(* ---------- history independence of the tree shape (uses the WF preservation theorems of TreeMap.v) ---------- *)
(* states reachable from the empty router by the model's operations (failed operations leave the state unchanged) *)
Inductive CReach : txn -> Prop :=
| CR_empty : CReach empty_txn
| CR_insert t m ri t' : CReach t -> valid_rinfo ri -> insert t m ri = ROk t' -> CReach t'
| CR_update t m ri t' : CReach t -> rpat (ri_route ri) <> [] -> update t m ri = ROk t' -> CReach t'
| CR_remove t m p t' r : CReach t -> p <> [] -> remove t m p = DOk t' r -> CReach t'
| CR_truncate t ms : CReach t -> CReach (truncate t ms).

Lemma CReach_WF t : CReach t -> WF_txn t.
Proof.
  induction 1; eauto using WF_empty, WF_insert, WF_update, WF_remove, WF_truncate.
Qed.

Theorem CReach_canonical t : CReach t -> CanonRoots (t_roots t).
Proof. intros H. apply WF_roots_CanonRoots, (CReach_WF t H). Qed.

Theorem insert_canonical t m ri t' :
  WF_txn t -> valid_rinfo ri -> insert t m ri = ROk t' -> CanonRoots (t_roots t').
Proof. intros Hw Hv E. apply WF_roots_CanonRoots, (WF_insert t m ri t' Hw Hv E). Qed.

Theorem remove_canonical t m p t' r :
  WF_txn t -> p <> [] -> remove t m p = DOk t' r -> CanonRoots (t_roots t').
Proof. intros Hw Hv E. apply WF_roots_CanonRoots, (WF_remove t m p t' r Hw Hv E). Qed.

(* any two histories that end with the same registered set end with the same trees *)
Theorem shape_history_independent ta tb :
  CReach ta -> CReach tb ->
  seteq (routes_of_txn ta) (routes_of_txn tb) ->
  firstn 4 (t_roots ta) = firstn 4 (t_roots tb) /\
  Permutation (skipn 4 (t_roots ta)) (skipn 4 (t_roots tb)).
Proof. intros Ha Hb. apply WF_txn_unique; apply CReach_WF; auto. Qed.
