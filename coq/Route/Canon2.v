(* Canon2 — reserved for the proof agent owning this topic. *)
From FoxBase Require Import Bytes.
From FoxRoute Require Import Node Lookup Spec Tree.
