(* SpecSound — what the executable specification S (Spec.select) MEANS.
   A declarative relation [Matches] ("this token list matches this request text
   with these captured values"), a preference order on matches ([trace],
   [trace_le]) and the theorem that [select] returns a match iff one exists and
   then returns the most preferred one.  Plan and reading guide: docs/C01_spec.md *)
From FoxBase Require Import Bytes.
From FoxRoute Require Import Spec SpecFacts.
Open Scope char_scope.
Local Notation length := List.length.

(* ------------------------------------------------------------------ *)
(* 1. The declarative matching relation                                *)
(* ------------------------------------------------------------------ *)

Definition starts_with (c : ascii) (s : bytes) : Prop := exists r, s = c :: r.

(* Matches ts s h vals: the token list ts consumes exactly the text s, of
   which the first h bytes are the hostname, capturing vals (in pattern order).
   - a static byte consumes itself; as in [select], a '{' or '*' of the REQUEST
     is never matched by a static token (such bytes cannot be routed literally);
   - {name} in the path (h = 0): a non-empty value without '/', maximal (followed
     by '/' or by the end);
   - {name} in the host (h <> 0): a non-empty value without '.', inside the host,
     maximal (reaches the end of the host or is followed by '.');
   - *{name} (path only): a non-empty value; followed by the end of the path, or by
     a '/' and then it neither ends nor starts with '/'. *)
Inductive Matches : list token -> bytes -> nat -> list bytes -> Prop :=
| M_nil : Matches [] [] 0 []
| M_static c ts s h vals
    (Hc1 : c <> "{") (Hc2 : c <> "*")
    (HM : Matches ts s (pred h) vals) :
    Matches (TStatic c :: ts) (c :: s) h vals
| M_param_path n ts v s vals
    (Hv : v <> []) (Hnv : ~ In "/" v) (Hnx : s = [] \/ starts_with "/" s)
    (HM : Matches ts s 0 vals) :
    Matches (TParam n :: ts) (v ++ s) 0 (v :: vals)
| M_param_host n ts v s h vals
    (Hh : h <> 0) (Hv : v <> []) (Hnv : ~ In "." v) (Hlen : length v <= h)
    (Hnx : length v = h \/ starts_with "." s)
    (HM : Matches ts s (h - length v) vals) :
    Matches (TParam n :: ts) (v ++ s) h (v :: vals)
| M_catch n ts v s vals
    (Hv : v <> [])
    (Hnx : s = [] \/ (starts_with "/" s /\ last v "/" <> "/" /\ hd "/" v <> "/"))
    (HM : Matches ts s 0 vals) :
    Matches (TCatch n :: ts) (v ++ s) 0 (v :: vals).

(* ------------------------------------------------------------------ *)
(* 2. The preference order                                             *)
(* ------------------------------------------------------------------ *)

(* what a match does at each token: static, parameter, catch-all of a given length *)
Inductive choice := CStatic | CParam | CCatch (len : nat).

Fixpoint trace (ts : list token) (vals : list bytes) : list choice :=
  match ts with
  | [] => []
  | TStatic _ :: r => CStatic :: trace r vals
  | TParam _ :: r => CParam :: trace r (tl vals)
  | TCatch _ :: r => CCatch (length (hd [] vals)) :: trace r (tl vals)
  end.

Definition choice_lt (a b : choice) : Prop :=
  match a, b with
  | CStatic, CParam | CStatic, CCatch _ | CParam, CCatch _ => True
  | CCatch i, CCatch j => i < j
  | _, _ => False
  end.

(* lexicographic; only traces of the same length with the same strict prefix
   are comparable (two matches of the same text always are) *)
Inductive trace_le : list choice -> list choice -> Prop :=
| tle_nil : trace_le [] []
| tle_lt a b l m : choice_lt a b -> trace_le (a :: l) (b :: m)
| tle_eq a l m : trace_le l m -> trace_le (a :: l) (a :: m).

Definition NoMatch (cs : list cand) (s : bytes) (h : nat) : Prop :=
  forall k vals, In k cs -> ~ Matches (toks k) s h vals.

(* (k, vals) is a match among cs and no match among cs is preferred to it *)
Definition Best (cs : list cand) (s : bytes) (h : nat) (k : cand) (vals : list bytes) : Prop :=
  In k cs /\ Matches (toks k) s h vals /\
  forall k' vals', In k' cs -> Matches (toks k') s h vals' ->
    trace_le (trace (toks k) vals) (trace (toks k') vals').

(* ------------------------------------------------------------------ *)
(* 3. Lists, seg, adv_*, leaf                                          *)
(* ------------------------------------------------------------------ *)

Lemma firstn_app_len {A} (v s : list A) : firstn (length v) (v ++ s) = v.
Proof. induction v as [|a v IH]; simpl; [destruct s; reflexivity|]. f_equal; exact IH. Qed.

Lemma skipn_app_len {A} (v s : list A) : skipn (length v) (v ++ s) = s.
Proof. induction v as [|a v IH]; simpl; auto. Qed.

Lemma seg_app stop s : s = seg stop s ++ skipn (length (seg stop s)) s.
Proof.
  induction s as [|c r IH]; simpl; [reflexivity|].
  destruct (stop c); simpl; [reflexivity|]. f_equal; exact IH.
Qed.

Lemma seg_in stop s x : In x (seg stop s) -> stop x = false.
Proof.
  induction s as [|c r IH]; simpl; [tauto|].
  destruct (stop c) eqn:E; simpl; [tauto|]. intros [<-|H]; auto.
Qed.

Lemma seg_next stop s :
  skipn (length (seg stop s)) s = [] \/
  exists c r, skipn (length (seg stop s)) s = c :: r /\ stop c = true.
Proof.
  induction s as [|c r IH]; simpl; [left; reflexivity|].
  destruct (stop c) eqn:E; simpl; [right; eauto|]. exact IH.
Qed.

Lemma seg_length stop s : length (seg stop s) <= length s.
Proof. induction s as [|c r IH]; simpl; [lia|]. destruct (stop c); simpl; lia. Qed.

Lemma seg_unique stop v r :
  (forall x, In x v -> stop x = false) ->
  (r = [] \/ exists c r', r = c :: r' /\ stop c = true) ->
  seg stop (v ++ r) = v.
Proof.
  intros Hv Hr. induction v as [|a v IH]; simpl.
  - destruct Hr as [->|(c & r' & -> & Hc)]; simpl; [reflexivity|]. rewrite Hc; reflexivity.
  - rewrite (Hv a) by (left; reflexivity). f_equal. apply IH. intros x Hx; apply Hv; right; exact Hx.
Qed.

(* the value a parameter takes at (h, s): executable form *)
Definition pval (h : nat) (s : bytes) : bytes :=
  if negb (Nat.eqb h 0) then seg (fun x => Ascii.eqb x ".") (firstn h s)
  else seg (fun x => Ascii.eqb x "/") s.

Lemma pval_length h s : length (pval h s) <= length s.
Proof.
  unfold pval. destruct (negb (Nat.eqb h 0)).
  - etransitivity; [apply seg_length|]. rewrite firstn_length; lia.
  - apply seg_length.
Qed.

Lemma pval_length_h h s : h <> 0 -> length (pval h s) <= h.
Proof.
  intros Hh. unfold pval. destruct (Nat.eqb_spec h 0); [contradiction|]. cbn [negb].
  etransitivity; [apply seg_length|]. rewrite firstn_length; lia.
Qed.

Lemma adv_static_in c cs k' :
  In k' (adv_static c cs) <->
  exists k, In k cs /\ toks k = TStatic c :: toks k' /\ pat k = pat k'.
Proof.
  unfold adv_static. rewrite in_flat_map. split.
  - intros (k & Hk & Hin). exists k. destruct (toks k) as [|[d|n|n] t]; simpl in Hin; try tauto.
    destruct (Ascii.eqb_spec c d) as [->|]; simpl in Hin; [|tauto].
    destruct Hin as [<-|[]]; simpl; auto.
  - intros (k & Hk & Ht & Hp). exists k. split; [exact Hk|]. rewrite Ht, Ascii.eqb_refl.
    left. destruct k'; simpl in *; congruence.
Qed.

Lemma adv_param_in cs k' :
  In k' (adv_param cs) <->
  exists k n, In k cs /\ toks k = TParam n :: toks k' /\ pat k = pat k'.
Proof.
  unfold adv_param. rewrite in_flat_map. split.
  - intros (k & Hk & Hin). exists k. destruct (toks k) as [|[d|n|n] t]; simpl in Hin; try tauto.
    exists n. destruct Hin as [<-|[]]; simpl; auto.
  - intros (k & n & Hk & Ht & Hp). exists k. split; [exact Hk|]. rewrite Ht.
    left. destruct k'; simpl in *; congruence.
Qed.

Lemma adv_catch_in cs k' :
  In k' (adv_catch cs) <->
  exists k n, In k cs /\ toks k = TCatch n :: toks k' /\ pat k = pat k'.
Proof.
  unfold adv_catch. rewrite in_flat_map. split.
  - intros (k & Hk & Hin). exists k. destruct (toks k) as [|[d|n|n] t]; simpl in Hin; try tauto.
    exists n. destruct Hin as [<-|[]]; simpl; auto.
  - intros (k & n & Hk & Ht & Hp). exists k. split; [exact Hk|]. rewrite Ht.
    left. destruct k'; simpl in *; congruence.
Qed.

Lemma leaf_some cs p : leaf cs = Some p -> exists k, In k cs /\ toks k = [] /\ pat k = p.
Proof.
  unfold leaf. destruct (filter _ cs) as [|k r] eqn:E; [discriminate|]. intros [= <-].
  assert (In k (filter (fun k => match toks k with [] => true | _ => false end) cs)) as H
    by (rewrite E; left; reflexivity).
  apply filter_In in H. destruct H as [H1 H2]. exists k. destruct (toks k); [auto|discriminate].
Qed.

Lemma leaf_none cs : leaf cs = None -> forall k, In k cs -> toks k <> [].
Proof.
  unfold leaf. destruct (filter _ cs) as [|k0 r] eqn:E; [|discriminate]. intros _ k Hk Ht.
  assert (In k (filter (fun k => match toks k with [] => true | _ => false end) cs)) as H
    by (apply filter_In; rewrite Ht; auto).
  rewrite E in H. exact H.
Qed.

Lemma try_splits_none {A} (f : bytes -> bytes -> option A) s :
  (forall v r, f v r = None) -> forall k i, try_splits k i s f = None.
Proof.
  intros Hf. induction k as [|k IH]; intros i; simpl; [reflexivity|].
  rewrite Hf. destruct (split_ok s i); simpl; apply IH.
Qed.

Lemma select_nil fuel : forall s h acc, select fuel [] s h acc = None.
Proof.
  induction fuel as [|fuel IH]; intros s h acc; [reflexivity|].
  destruct s as [|c r]; [reflexivity|]. cbn [select adv_static adv_param adv_catch flat_map].
  destruct (Ascii.eqb c "{" || Ascii.eqb c "*"); destruct (negb (Nat.eqb h 0)); reflexivity.
Qed.

(* one step of [select], with the "no candidate left" shortcuts removed *)
Lemma select_unfold fuel cs c r h acc :
  select (S fuel) cs (c :: r) h acc =
  orelse (if Ascii.eqb c "{" || Ascii.eqb c "*" then None
          else select fuel (adv_static c cs) r (pred h) acc)
  (fun _ =>
  orelse (match pval h (c :: r) with
          | [] => None
          | _ => select fuel (adv_param cs) (skipn (length (pval h (c :: r))) (c :: r))
                        (h - length (pval h (c :: r))) (pval h (c :: r) :: acc)
          end)
  (fun _ =>
     if negb (Nat.eqb h 0) then None
     else try_splits (length (c :: r)) 1 (c :: r)
            (fun v rest => select fuel (adv_catch cs) rest 0 (v :: acc)))).
Proof.
  cbn [select]. fold (pval h (c :: r)).
  destruct (adv_static c cs) eqn:E1; destruct (adv_param cs) eqn:E2; destruct (adv_catch cs) eqn:E3;
    rewrite ?select_nil; rewrite ?try_splits_none by (intros; apply select_nil);
    destruct (pval h (c :: r)); reflexivity.
Qed.

(* ------------------------------------------------------------------ *)
(* 4. Facts about Matches (the property's own words)                   *)
(* ------------------------------------------------------------------ *)

Lemma Matches_h_le ts s h vals : Matches ts s h vals -> h <= length s.
Proof.
  induction 1; simpl in *; try rewrite app_length; lia.
Qed.

Lemma Matches_nil_inv ts h vals : Matches ts [] h vals -> ts = [] /\ vals = [] /\ h = 0.
Proof.
  intros H. remember [] as s eqn:Es. destruct H; try discriminate; auto;
  apply app_eq_nil in Es; destruct Es; contradiction.
Qed.

(* one captured value per wildcard of the pattern *)
Lemma Matches_length ts s h vals :
  Matches ts s h vals -> length vals = length (wildcard_names ts).
Proof. induction 1; simpl; auto. Qed.

(* substituting the captured values into the pattern reproduces the request text *)
Lemma Matches_subst ts s h vals : Matches ts s h vals -> subst ts vals = s.
Proof. induction 1; simpl; congruence. Qed.

Definition is_wild (t : token) : bool := match t with TStatic _ => false | _ => true end.
Definition wilds (ts : list token) : list token := filter is_wild ts.

(* path part: a parameter value is one non-empty segment part (no '/'), a
   catch-all value is non-empty *)
Definition path_val_ok (w : token) (v : bytes) : Prop :=
  v <> [] /\ match w with TParam _ => ~ In "/" v | _ => True end.

Lemma Matches_path_values ts s vals :
  Matches ts s 0 vals -> Forall2 path_val_ok (wilds ts) vals.
Proof.
  intros H. remember 0 as h eqn:Eh. induction H; subst; simpl; try constructor; auto;
  try (split; auto); try contradiction.
Qed.

(* host part: only parameters, each one non-empty label part (no '.') *)
Definition host_val_ok (v : bytes) : Prop := v <> [] /\ ~ In "." v.
Definition no_catch (ts : list token) : Prop := forall n, ~ In (TCatch n) ts.

Lemma Matches_host_values ts s h vals :
  Matches ts s h vals -> h = length s -> no_catch ts /\ Forall host_val_ok vals.
Proof.
  induction 1; intros Eh.
  - split; [intros n []|constructor].
  - simpl in Eh. destruct IHMatches as [IH1 IH2]; [lia|]. split; [|exact IH2].
    intros n0 [Hx|Hx]; [discriminate|]. exact (IH1 n0 Hx).
  - rewrite app_length in Eh. destruct v; [contradiction|simpl in Eh; lia].
  - rewrite app_length in Eh. destruct IHMatches as [IH1 IH2]; [lia|]. split.
    + intros n0 [Hx|Hx]; [discriminate|]. exact (IH1 n0 Hx).
    + constructor; [split; auto|exact IH2].
  - rewrite app_length in Eh. destruct v; [contradiction|simpl in Eh; lia].
Qed.

(* every match splits at the host/path boundary: the first tokens consume the
   WHOLE host, the remaining ones the path *)
Lemma Matches_host_split ts s h vals :
  Matches ts s h vals ->
  exists ts1 ts2 vals1 vals2,
    ts = ts1 ++ ts2 /\ vals = vals1 ++ vals2 /\
    Matches ts1 (firstn h s) h vals1 /\ Matches ts2 (skipn h s) 0 vals2.
Proof.
  induction 1.
  - exists [], [], [], []. repeat split; constructor.
  - destruct h as [|h].
    + exists [], (TStatic c :: ts), [], vals. repeat split; try constructor; auto.
    + destruct IHMatches as (ts1 & ts2 & v1 & v2 & -> & -> & Ha & Hb). simpl in *.
      exists (TStatic c :: ts1), ts2, v1, v2. repeat split; auto. constructor; auto.
  - exists [], (TParam n :: ts), [], (v :: vals). repeat split; try constructor; auto.
  - destruct IHMatches as (ts1 & ts2 & v1 & v2 & -> & -> & Ha & Hb).
    exists (TParam n :: ts1), ts2, (v :: v1), v2.
    assert (Hf : firstn h (v ++ s) = v ++ firstn (h - length v) s).
    { rewrite firstn_app. f_equal. apply firstn_all2; lia. }
    assert (Hs : skipn h (v ++ s) = skipn (h - length v) s).
    { rewrite skipn_app. rewrite skipn_all2 by lia. reflexivity. }
    rewrite Hf, Hs. repeat split; auto. constructor; auto.
    destruct Hnx as [H3|(r & ->)].
    + left; exact H3.
    + destruct (h - length v) as [|d] eqn:Ed; [left; lia|right; simpl; eexists; reflexivity].
  - exists [], (TCatch n :: ts), [], (v :: vals). repeat split; try constructor; auto.
Qed.

(* ------------------------------------------------------------------ *)
(* 5. Matches in the vocabulary of [select] (intro / inversion)        *)
(* ------------------------------------------------------------------ *)

Lemma Matches_cons_nonempty t ts s h vals : Matches (t :: ts) s h vals -> s <> [].
Proof.
  intros H Hs. subst. apply Matches_nil_inv in H. destruct H; discriminate.
Qed.

Lemma Matches_param_intro n t s h vals' :
  h <= length s -> pval h s <> [] ->
  Matches t (skipn (length (pval h s)) s) (h - length (pval h s)) vals' ->
  Matches (TParam n :: t) s h (pval h s :: vals').
Proof.
  intros Hh Hv HM. unfold pval in *. destruct (Nat.eqb_spec h 0) as [->|Hn]; cbn [negb] in *.
  - set (st := fun x => Ascii.eqb x "/") in *.
    rewrite (seg_app st s) at 1. simpl in HM.
    apply M_param_path; auto.
    + intros Hin. apply seg_in in Hin. discriminate.
    + destruct (seg_next st s) as [E|(c & r & E & Hc)]; [left; exact E|right].
      unfold st in Hc. apply Ascii.eqb_eq in Hc. subst c. exists r; exact E.
  - set (st := fun x => Ascii.eqb x ".") in *.
    set (v := seg st (firstn h s)) in *.
    assert (Hlen : length v <= h).
    { etransitivity; [apply seg_length|]. rewrite firstn_length; lia. }
    assert (Es : s = v ++ skipn (length v) s).
    { rewrite <- (firstn_skipn h s) at 1. rewrite (seg_app st (firstn h s)) at 1. fold v.
      rewrite <- app_assoc. f_equal.
      rewrite <- (firstn_skipn h s) at 3. rewrite skipn_app.
      rewrite firstn_length. replace (length v - Nat.min h (length s)) with 0 by lia.
      reflexivity. }
    rewrite Es at 1. apply M_param_host; auto.
    + intros Hin. apply seg_in in Hin. discriminate.
    + destruct (seg_next st (firstn h s)) as [E|(c & r & E & Hc)]; fold v in E.
      * left. apply (f_equal (@List.length ascii)) in E. rewrite skipn_length, firstn_length in E.
        simpl in E. lia.
      * right. unfold st in Hc. apply Ascii.eqb_eq in Hc. subst c.
        rewrite <- (firstn_skipn h s) at 1. rewrite skipn_app, E. eexists; reflexivity.
Qed.

Lemma split_ok_intro v s0 :
  v <> [] ->
  (s0 = [] \/ (starts_with "/" s0 /\ last v "/" <> "/" /\ hd "/" v <> "/")) ->
  split_ok (v ++ s0) (length v) = true.
Proof.
  intros Hv H. unfold split_ok. rewrite skipn_app_len, firstn_app_len.
  destruct H as [->|((r & ->) & Hl & Hh)]; [reflexivity|].
  destruct v as [|a v]; [contradiction|]. simpl in Hh. cbn [app hd].
  apply Ascii.eqb_neq in Hl, Hh. rewrite Hl, Hh. reflexivity.
Qed.

Lemma Matches_catch_intro n t s j vals' :
  1 <= j <= length s -> split_ok s j = true ->
  Matches t (skipn j s) 0 vals' ->
  Matches (TCatch n :: t) s 0 (firstn j s :: vals').
Proof.
  intros Hj Hok HM. rewrite <- (firstn_skipn j s) at 1.
  unfold split_ok in Hok.
  assert (Hv : firstn j s <> []).
  { destruct s; [simpl in Hj; lia|]. destruct j; [lia|]. discriminate. }
  apply M_catch; auto.
  destruct (skipn j s) as [|d rest]; [left; reflexivity|right].
  destruct (Ascii.eqb_spec d "/") as [->|Hd].
  2:{ destruct d as [[] [] [] [] [] [] [] []]; try discriminate; contradiction Hd; reflexivity. }
  apply andb_true_iff in Hok. destruct Hok as [H1 H2].
  apply negb_true_iff, Ascii.eqb_neq in H1, H2.
  split; [eexists; reflexivity|]. split; [exact H1|].
  destruct s; [simpl in Hj; lia|]. destruct j; [lia|]. exact H2.
Qed.

Lemma Matches_inv ts s h vals : Matches ts s h vals -> s <> [] ->
  (exists c t r, ts = TStatic c :: t /\ s = c :: r /\ c <> "{" /\ c <> "*" /\
                 Matches t r (pred h) vals)
  \/ (exists n t vals', ts = TParam n :: t /\ vals = pval h s :: vals' /\ pval h s <> [] /\
        Matches t (skipn (length (pval h s)) s) (h - length (pval h s)) vals')
  \/ (exists n t j vals', ts = TCatch n :: t /\ h = 0 /\ vals = firstn j s :: vals' /\
        1 <= j <= length s /\ split_ok s j = true /\ Matches t (skipn j s) 0 vals').
Proof.
  destruct 1; intros Hne.
  - contradiction.
  - left. exists c, ts, s. auto.
  - right; left. exists n, ts, vals.
    assert (E : pval 0 (v ++ s) = v).
    { unfold pval. simpl. apply seg_unique.
      - intros x Hx. apply Ascii.eqb_neq. intros ->. contradiction.
      - destruct Hnx as [->|(r & ->)]; [left; reflexivity|right; eauto]. }
    rewrite E, skipn_app_len. auto.
  - right; left. exists n, ts, vals.
    assert (E : pval h (v ++ s) = v).
    { unfold pval. destruct (Nat.eqb_spec h 0); [contradiction|]. cbn [negb].
      rewrite firstn_app, (firstn_all2 v) by lia. apply seg_unique.
      - intros x Hx. apply Ascii.eqb_neq. intros ->. contradiction.
      - destruct Hnx as [H4|(r & ->)].
        + left. replace (h - length v) with 0 by lia. reflexivity.
        + destruct (h - length v); [left; reflexivity|right; simpl; eauto]. }
    rewrite E, skipn_app_len. auto.
  - right; right. exists n, ts, (length v), vals.
    rewrite firstn_app_len, skipn_app_len. repeat split; auto.
    + destruct v; [contradiction|simpl; lia].
    + rewrite app_length; lia.
    + apply split_ok_intro; auto.
Qed.

Lemma try_splits_char {A} (f : bytes -> bytes -> option A) s : forall k i,
  match try_splits k i s f with
  | None => forall j, i <= j < i + k -> split_ok s j = true -> f (firstn j s) (skipn j s) = None
  | Some x => exists j, i <= j < i + k /\ split_ok s j = true /\
       f (firstn j s) (skipn j s) = Some x /\
       forall j', i <= j' < j -> split_ok s j' = true -> f (firstn j' s) (skipn j' s) = None
  end.
Proof.
  induction k as [|k IH]; intros i; cbn [try_splits].
  - intros j Hj; lia.
  - unfold orelse. specialize (IH (S i)).
    destruct (split_ok s i) eqn:Es; [destruct (f (firstn i s) (skipn i s)) as [x|] eqn:Ef|].
    + exists i. split; [lia|]. split; [exact Es|]. split; [exact Ef|]. intros j' Hj'; lia.
    + destruct (try_splits k (S i) s f) as [x|].
      * destruct IH as (j & Hj & Hs & Hf & Hmin). exists j. split; [lia|]. split; [exact Hs|]. split; [exact Hf|].
        intros j' Hj' Hs'. destruct (Nat.eq_dec j' i) as [->|]; auto. apply Hmin; auto; lia.
      * intros j Hj Hs. destruct (Nat.eq_dec j i) as [->|]; auto. apply IH; auto; lia.
    + destruct (try_splits k (S i) s f) as [x|].
      * destruct IH as (j & Hj & Hs & Hf & Hmin). exists j. split; [lia|]. split; [exact Hs|]. split; [exact Hf|].
        intros j' Hj' Hs'. destruct (Nat.eq_dec j' i) as [->|]; [congruence|]. apply Hmin; auto; lia.
      * intros j Hj Hs. destruct (Nat.eq_dec j i) as [->|]; [congruence|]. apply IH; auto; lia.
Qed.

(* ------------------------------------------------------------------ *)
(* 6. Soundness, for every fuel                                        *)
(* ------------------------------------------------------------------ *)

Lemma select_sound_gen fuel : forall cs s h acc p vs,
  h <= length s ->
  select fuel cs s h acc = Some (p, vs) ->
  exists k vals, In k cs /\ pat k = p /\ vs = rev acc ++ vals /\ Matches (toks k) s h vals.
Proof.
  induction fuel as [|fuel IH]; intros cs s h acc p vs Hh; [discriminate|].
  destruct s as [|c r].
  - cbn [select]. destruct (leaf cs) as [q|] eqn:El; [|discriminate]. intros [= <- <-].
    apply leaf_some in El. destruct El as (k & Hk & Ht & Hp).
    exists k, []. rewrite app_nil_r, Ht. simpl in Hh. replace h with 0 by lia.
    repeat split; auto. constructor.
  - rewrite select_unfold. unfold orelse at 1.
    match goal with |- match ?e with Some _ => _ | None => _ end = _ -> _ => destruct e as [x|] eqn:E1 end.
    { intros [= ->]. destruct (Ascii.eqb c "{" || Ascii.eqb c "*") eqn:Ec; [discriminate|].
      apply orb_false_iff in Ec. destruct Ec as [Ec1 Ec2]. apply Ascii.eqb_neq in Ec1, Ec2.
      apply IH in E1; [|simpl in Hh; lia].
      destruct E1 as (k' & vals & Hin & Hp & Hvs & HM).
      apply adv_static_in in Hin. destruct Hin as (k & Hk & Htk & Hpk).
      exists k, vals. rewrite Htk. repeat split; auto; try congruence. constructor; auto. }
    unfold orelse at 1.
    match goal with |- match ?e with Some _ => _ | None => _ end = _ -> _ => destruct e as [x|] eqn:E2 end.
    { intros [= ->]. remember (pval h (c :: r)) as v eqn:Ev.
      assert (Hv : v <> []) by (intros ->; discriminate).
      assert (E2' : select fuel (adv_param cs) (skipn (length v) (c :: r)) (h - length v) (v :: acc)
                    = Some (p, vs)) by (destruct v; [contradiction|exact E2]).
      apply IH in E2'; [|rewrite skipn_length; lia].
      destruct E2' as (k' & vals & Hin & Hp & Hvs & HM).
      apply adv_param_in in Hin. destruct Hin as (k & n & Hk & Htk & Hpk).
      exists k, (v :: vals). rewrite Htk. repeat split; auto; try congruence.
      - rewrite Hvs. simpl. rewrite <- app_assoc. reflexivity.
      - subst v. apply Matches_param_intro; auto. }
    destruct (Nat.eqb_spec h 0) as [->|Hn]; cbn [negb]; [|discriminate].
    intros H.
    pose proof (try_splits_char (fun v rest => select fuel (adv_catch cs) rest 0 (v :: acc))
                  (c :: r) (length (c :: r)) 1) as Hc.
    rewrite H in Hc. destruct Hc as (j & Hj & Hok & Hf & _).
    apply IH in Hf; [|lia].
    destruct Hf as (k' & vals & Hin & Hp & Hvs & HM).
    apply adv_catch_in in Hin. destruct Hin as (k & n & Hk & Htk & Hpk).
    exists k, (firstn j (c :: r) :: vals). rewrite Htk. repeat split; auto; try congruence.
    + rewrite Hvs. simpl. rewrite <- app_assoc. reflexivity.
    + apply Matches_catch_intro; auto. lia.
Qed.

(* ------------------------------------------------------------------ *)
(* 7. Completeness and priority: with enough fuel, [select] answers    *)
(*    None exactly when nothing matches, and otherwise the best match  *)
(* ------------------------------------------------------------------ *)

Definition sel_ok (cs : list cand) (s : bytes) (h : nat) (acc : list bytes)
  (res : option (bytes * list bytes)) : Prop :=
  match res with
  | None => NoMatch cs s h
  | Some (p, vs) => exists k vals, pat k = p /\ vs = rev acc ++ vals /\ Best cs s h k vals
  end.

Lemma trace_static c t vals : trace (TStatic c :: t) vals = CStatic :: trace t vals.
Proof. reflexivity. Qed.
Lemma trace_param n t v vals : trace (TParam n :: t) (v :: vals) = CParam :: trace t vals.
Proof. reflexivity. Qed.
Lemma trace_catch n t v vals : trace (TCatch n :: t) (v :: vals) = CCatch (length v) :: trace t vals.
Proof. reflexivity. Qed.

Lemma select_char fuel : forall cs s h acc,
  length s < fuel -> h <= length s -> sel_ok cs s h acc (select fuel cs s h acc).
Proof.
  induction fuel as [|fuel IH]; intros cs s h acc Hf Hh; [lia|].
  destruct s as [|c r].
  - (* end of the text: a candidate with no token left *)
    cbn [select]. destruct (leaf cs) as [p|] eqn:El; cbn [sel_ok].
    + apply leaf_some in El. destruct El as (k & Hk & Ht & Hp).
      exists k, []. rewrite app_nil_r. split; [exact Hp|]. split; [reflexivity|].
      split; [exact Hk|]. simpl in Hh. replace h with 0 by lia. split.
      * rewrite Ht. constructor.
      * intros k' vals' Hk' HM. apply Matches_nil_inv in HM. destruct HM as (-> & -> & _).
        rewrite Ht. constructor.
    + intros k vals Hk HM. apply Matches_nil_inv in HM. destruct HM as (Ht & _).
      exact (leaf_none _ El k Hk Ht).
  - rewrite select_unfold.
    set (s := c :: r) in *.
    assert (Hs : s <> []) by discriminate.
    (* --- alternative 1: static byte --- *)
    unfold orelse at 1.
    match goal with |- sel_ok _ _ _ _ (match ?e with Some _ => _ | None => _ end) =>
      destruct e as [[p vs]|] eqn:E1 end.
    { destruct (Ascii.eqb c "{" || Ascii.eqb c "*") eqn:Ec; [discriminate|].
      apply orb_false_iff in Ec. destruct Ec as [Ec1 Ec2]. apply Ascii.eqb_neq in Ec1, Ec2.
      pose proof (IH (adv_static c cs) r (pred h) acc) as IH1. rewrite E1 in IH1.
      destruct IH1 as (k' & vals & Hp & Hvs & Hin & HM & Hmin); [subst s; cbn [List.length] in *; lia..|].
      apply adv_static_in in Hin. destruct Hin as (k & Hk & Htk & Hpk).
      exists k, vals. split; [congruence|]. split; [exact Hvs|]. split; [exact Hk|]. split.
      - rewrite Htk. constructor; auto.
      - intros k2 vals2 Hk2 HM2. apply Matches_inv in HM2; [|exact Hs].
        destruct HM2 as [(c2 & t2 & r2 & Ht2 & Hs2 & _ & _ & HM2)
                        |[(n2 & t2 & vals2' & Ht2 & Hv2 & _)
                         |(n2 & t2 & j & vals2' & Ht2 & _ & Hv2 & _)]].
        + injection Hs2 as <- <-. rewrite Htk, Ht2, !trace_static. apply tle_eq.
          apply (Hmin {| pat := pat k2; toks := t2 |}); [|exact HM2].
          apply adv_static_in. exists k2. auto.
        + rewrite Htk, Ht2, Hv2, trace_static, trace_param. apply tle_lt. exact I.
        + rewrite Htk, Ht2, Hv2, trace_static, trace_catch. apply tle_lt. exact I. }
    assert (HnoS : forall k c2 t r2 vals, In k cs -> toks k = TStatic c2 :: t -> s = c2 :: r2 ->
                     c2 <> "{" -> c2 <> "*" -> ~ Matches t r2 (pred h) vals).
    { intros k c2 t r2 vals Hk Ht Hs2 Hc1 Hc2 HM. injection Hs2 as <- <-.
      destruct (Ascii.eqb c "{" || Ascii.eqb c "*") eqn:Ec.
      - apply orb_true_iff in Ec. destruct Ec as [Ec|Ec]; apply Ascii.eqb_eq in Ec; contradiction.
      - pose proof (IH (adv_static c cs) r (pred h) acc) as IH1. rewrite E1 in IH1.
        apply (IH1 ltac:(subst s; cbn [List.length] in *; lia) ltac:(subst s; cbn [List.length] in *; lia)
                   {| pat := pat k; toks := t |} vals); [|exact HM].
        apply adv_static_in. exists k. auto. }
    clear E1.
    (* --- alternative 2: named parameter --- *)
    remember (pval h s) as v eqn:Ev.
    assert (Hvlen : length v <= length s) by (subst v; apply pval_length).
    unfold orelse at 1.
    match goal with |- sel_ok _ _ _ _ (match ?e with Some _ => _ | None => _ end) =>
      destruct e as [[p vs]|] eqn:E2 end.
    { assert (Hv : v <> []) by (intros ->; discriminate).
      assert (E2' : select fuel (adv_param cs) (skipn (length v) s) (h - length v) (v :: acc)
                    = Some (p, vs)) by (destruct v; [contradiction|exact E2]).
      pose proof (IH (adv_param cs) (skipn (length v) s) (h - length v) (v :: acc)) as IH2.
      rewrite E2' in IH2.
      assert (Hvl : 1 <= length v) by (destruct v; [contradiction|simpl; lia]).
      destruct IH2 as (k' & vals & Hp & Hvs & Hin & HM & Hmin);
        [rewrite skipn_length; subst s; cbn [List.length] in *; lia..|].
      apply adv_param_in in Hin. destruct Hin as (k & n & Hk & Htk & Hpk).
      exists k, (v :: vals). split; [congruence|]. split.
      { rewrite Hvs. simpl. rewrite <- app_assoc. reflexivity. }
      split; [exact Hk|]. split.
      - rewrite Htk. subst v. apply Matches_param_intro; auto.
      - intros k2 vals2 Hk2 HM2. apply Matches_inv in HM2; [|exact Hs].
        destruct HM2 as [(c2 & t2 & r2 & Ht2 & Hs2 & Hc1 & Hc2 & HM2)
                        |[(n2 & t2 & vals2' & Ht2 & Hv2 & _ & HM2)
                         |(n2 & t2 & j & vals2' & Ht2 & _ & Hv2 & _)]].
        + exfalso. exact (HnoS k2 c2 t2 r2 vals2 Hk2 Ht2 Hs2 Hc1 Hc2 HM2).
        + rewrite Htk, Ht2, Hv2, !trace_param. apply tle_eq. rewrite <- Ev in HM2.
          apply (Hmin {| pat := pat k2; toks := t2 |}); [|exact HM2].
          apply adv_param_in. exists k2, n2. auto.
        + rewrite Htk, Ht2, Hv2, trace_param, trace_catch. apply tle_lt. exact I. }
    assert (HnoP : forall k n t vals, In k cs -> toks k = TParam n :: t -> v <> [] ->
                     ~ Matches t (skipn (length v) s) (h - length v) vals).
    { intros k n t vals Hk Ht Hv HM.
      assert (E2' : select fuel (adv_param cs) (skipn (length v) s) (h - length v) (v :: acc)
                    = None) by (destruct v; [contradiction|exact E2]).
      assert (Hvl : 1 <= length v) by (destruct v; [contradiction|simpl; lia]).
      pose proof (IH (adv_param cs) (skipn (length v) s) (h - length v) (v :: acc)) as IH2.
      rewrite E2' in IH2.
      apply (IH2 ltac:(rewrite skipn_length; subst s; cbn [List.length] in *; lia)
                 ltac:(rewrite skipn_length; subst s; cbn [List.length] in *; lia)
                 {| pat := pat k; toks := t |} vals); [|exact HM].
      apply adv_param_in. exists k, n. auto. }
    clear E2.
    (* --- alternative 3: catch-all, shortest value first --- *)
    destruct (Nat.eqb_spec h 0) as [->|Hn]; cbn [negb].
    2:{ intros k vals Hk HM. apply Matches_inv in HM; [|exact Hs].
        destruct HM as [(c2 & t2 & r2 & Ht2 & Hs2 & Hc1 & Hc2 & HM2)
                       |[(n2 & t2 & vals2' & Ht2 & Hv2 & Hne & HM2)
                        |(n2 & t2 & j & vals2' & Ht2 & Hh0 & _)]].
        - exact (HnoS k c2 t2 r2 vals Hk Ht2 Hs2 Hc1 Hc2 HM2).
        - rewrite <- Ev in *. exact (HnoP k n2 t2 vals2' Hk Ht2 Hne HM2).
        - contradiction. }
    pose proof (try_splits_char (fun v rest => select fuel (adv_catch cs) rest 0 (v :: acc))
                  s (length s) 1) as Hc.
    cbv beta in Hc.
    assert (IH3 : forall j, 1 <= j <= length s ->
              sel_ok (adv_catch cs) (skipn j s) 0 (@cons bytes (firstn j s) acc)
                     (select fuel (adv_catch cs) (skipn j s) 0 (@cons bytes (firstn j s) acc))).
    { intros j Hj. apply IH; [rewrite skipn_length; subst s; cbn [List.length] in *; lia|lia]. }
    destruct (try_splits (length s) 1 s _) as [[p vs]|].
    + destruct Hc as (j & Hj & Hok & Hsel & Hfirst).
      assert (Hj' : 1 <= j <= length s) by lia.
      pose proof (IH3 j Hj') as IHj. rewrite Hsel in IHj.
      destruct IHj as (k' & vals & Hp & Hvs & Hin & HM & Hmin).
      apply adv_catch_in in Hin. destruct Hin as (k & n & Hk & Htk & Hpk).
      exists k, (firstn j s :: vals). split; [congruence|]. split.
      { rewrite Hvs. simpl. rewrite <- app_assoc. reflexivity. }
      split; [exact Hk|]. split.
      * rewrite Htk. apply Matches_catch_intro; auto.
      * intros k2 vals2 Hk2 HM2. apply Matches_inv in HM2; [|exact Hs].
        destruct HM2 as [(c2 & t2 & r2 & Ht2 & Hs2 & Hc1 & Hc2 & HM2)
                        |[(n2 & t2 & vals2' & Ht2 & Hv2 & Hne & HM2)
                         |(n2 & t2 & j2 & vals2' & Ht2 & _ & Hv2 & Hj2 & Hok2 & HM2)]].
        -- exfalso. exact (HnoS k2 c2 t2 r2 vals2 Hk2 Ht2 Hs2 Hc1 Hc2 HM2).
        -- exfalso. rewrite <- Ev in *. exact (HnoP k2 n2 t2 vals2' Hk2 Ht2 Hne HM2).
        -- rewrite Htk, Ht2, Hv2, !trace_catch, !firstn_length_le by lia.
           destruct (lt_eq_lt_dec j2 j) as [[Hlt| ->]|Hgt].
           ++ exfalso. pose proof (IH3 j2 Hj2) as IHj2.
              rewrite (Hfirst j2 ltac:(lia) Hok2) in IHj2.
              apply (IHj2 {| pat := pat k2; toks := t2 |} vals2'); [|exact HM2].
              apply adv_catch_in. exists k2, n2. auto.
           ++ apply tle_eq. apply (Hmin {| pat := pat k2; toks := t2 |}); [|exact HM2].
              apply adv_catch_in. exists k2, n2. auto.
           ++ apply tle_lt. exact Hgt.
    + intros k vals Hk HM. apply Matches_inv in HM; [|exact Hs].
      destruct HM as [(c2 & t2 & r2 & Ht2 & Hs2 & Hc1 & Hc2 & HM2)
                     |[(n2 & t2 & vals2' & Ht2 & Hv2 & Hne & HM2)
                      |(n2 & t2 & j2 & vals2' & Ht2 & _ & Hv2 & Hj2 & Hok2 & HM2)]].
      * exact (HnoS k c2 t2 r2 vals Hk Ht2 Hs2 Hc1 Hc2 HM2).
      * rewrite <- Ev in *. exact (HnoP k n2 t2 vals2' Hk Ht2 Hne HM2).
      * pose proof (IH3 j2 Hj2) as IHj2. rewrite (Hc j2 ltac:(lia) Hok2) in IHj2.
        apply (IHj2 {| pat := pat k; toks := t2 |} vals2'); [|exact HM2].
        apply adv_catch_in. exists k, n2. auto.
Qed.

(* ------------------------------------------------------------------ *)
(* 8. The theorems about [select] (vals accumulator = [])              *)
(* ------------------------------------------------------------------ *)

Theorem select_sound fuel cs s h p vals :
  h <= length s ->
  select fuel cs s h [] = Some (p, vals) ->
  exists k, In k cs /\ pat k = p /\ Matches (toks k) s h vals.
Proof.
  intros Hh H. apply select_sound_gen in H; [|exact Hh].
  destruct H as (k & vals' & Hk & Hp & -> & HM). exists k. auto.
Qed.

Theorem select_complete fuel cs s h k vals :
  In k cs -> Matches (toks k) s h vals -> length s < fuel ->
  select fuel cs s h [] <> None.
Proof.
  intros Hk HM Hf E. pose proof (select_char fuel cs s h [] Hf (Matches_h_le _ _ _ _ HM)) as H.
  rewrite E in H. exact (H k vals Hk HM).
Qed.

Theorem select_none_iff fuel cs s h :
  length s < fuel -> h <= length s ->
  (select fuel cs s h [] = None <-> NoMatch cs s h).
Proof.
  intros Hf Hh. split.
  - intros E. pose proof (select_char fuel cs s h [] Hf Hh) as H. rewrite E in H. exact H.
  - intros HN. destruct (select fuel cs s h []) as [[p vals]|] eqn:E; [|reflexivity].
    apply select_sound in E; [|exact Hh]. destruct E as (k & Hk & _ & HM).
    destruct (HN k vals Hk HM).
Qed.

Theorem select_priority fuel cs s h p vals :
  length s < fuel -> h <= length s ->
  select fuel cs s h [] = Some (p, vals) ->
  exists k, pat k = p /\ Best cs s h k vals.
Proof.
  intros Hf Hh E. pose proof (select_char fuel cs s h [] Hf Hh) as H. rewrite E in H.
  destruct H as (k & vals' & Hp & -> & HB). exists k. auto.
Qed.

(* candidates built from registered patterns *)
Lemma in_mk_cand k pats : In k (map mk_cand pats) -> In (pat k) pats /\ toks k = tokenize (pat k).
Proof. rewrite in_map_iff. intros (p & <- & Hp). auto. Qed.

Theorem select_sound_pats fuel pats s h p vals :
  h <= length s ->
  select fuel (map mk_cand pats) s h [] = Some (p, vals) ->
  In p pats /\ Matches (tokenize p) s h vals /\
  length vals = length (wildcard_names (tokenize p)) /\
  subst (tokenize p) vals = s.
Proof.
  intros Hh H. apply select_sound in H; [|exact Hh]. destruct H as (k & Hk & <- & HM).
  apply in_mk_cand in Hk. destruct Hk as [Hk Ht]. rewrite Ht in HM.
  split; [exact Hk|]. split; [exact HM|]. split.
  - eapply Matches_length; eauto.
  - eapply Matches_subst; eauto.
Qed.
