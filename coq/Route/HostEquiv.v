(* HostEquiv — C09 (hostname routes match the whole host; path-only routes are the fallback).
   Part A: strip_host_port (model of netutil.StripHostPort) = strip_spec.
   Part B: direct analysis of roots_lookup (shortcut / hostname pass / fallback).
   Part C: single-step lemmas about the state machine lbd (lookupByDomain).
   Part D: M2h, the structural DFS over the host part; M1 (lbd) = M2h.
   Part E: host_exact (soundness of a direct hostname match, on M1).
   Owner: proof agent p-host.  Notes: docs/C09_host.md *)
From FoxBase Require Import Bytes.
From FoxRoute Require Import Node Lookup HostPort Spec SpecFacts Tree Corr StaticEquiv StaticEquiv2.
From FoxRoute Require SpecSound.
Open Scope char_scope.

(* ================================================================== *)
(* Part A — StripHostPort                                              *)
(* ================================================================== *)
(* strip_host_port is a total Gallina function on lists: there is no index expression
   left in the model (the Go code's only slicing, host[:len-1], is guarded by HasSuffix),
   so "never panics" holds by construction. *)

Lemma contains_cons x r c : contains (x :: r) c = Ascii.eqb x c || contains r c.
Proof.
  unfold contains. simpl. destruct (Ascii.eqb x c); [reflexivity|].
  destruct (index_byte r c); reflexivity.
Qed.

Lemma contains_nil c : contains [] c = false.
Proof. reflexivity. Qed.

Lemma contains_app a b c : contains (a ++ b) c = contains a c || contains b c.
Proof.
  induction a as [|x a IH]; [reflexivity|]. simpl app. rewrite !contains_cons, IH. apply orb_assoc.
Qed.

Lemma index_byte_nth_gen c : forall s e, index_byte s c = Some e ->
  nth_error s e = Some c /\ contains (firstn e s) c = false.
Proof.
  induction s as [|x s IH]; intros e H; simpl in H; [discriminate|].
  destruct (Ascii.eqb x c) eqn:E.
  - inversion H; subst e. apply Ascii.eqb_eq in E. subst x. split; reflexivity.
  - destruct (index_byte s c) as [e'|] eqn:E'; [|discriminate]. inversion H; subst e.
    destruct (IH e' eq_refl) as [H1 H2]. split; [exact H1|].
    cbn [firstn]. rewrite contains_cons, E, H2. reflexivity.
Qed.

Lemma index_byte_none_contains s c : index_byte s c = None <-> contains s c = false.
Proof. unfold contains. destruct (index_byte s c); split; congruence. Qed.

Lemma index_byte_first a c r : contains a c = false -> index_byte (a ++ c :: r) c = Some (List.length a).
Proof.
  induction a as [|x a IH]; intros H.
  - simpl. rewrite Ascii.eqb_refl. reflexivity.
  - rewrite contains_cons in H. apply orb_false_elim in H. destruct H as [H1 H2].
    simpl. rewrite H1, (IH H2). reflexivity.
Qed.

(* the last occurrence *)
Lemma last_index_char c : forall s i acc,
  match last_index s c i acc with
  | None => acc = None /\ contains s c = false
  | Some j => (exists a p, s = a ++ c :: p /\ j = i + List.length a /\ contains p c = false)
              \/ (acc = Some j /\ contains s c = false)
  end.
Proof.
  induction s as [|x s IH]; intros i acc.
  - simpl. destruct acc; [right|]; auto.
  - cbn [last_index]. specialize (IH (S i) (if Ascii.eqb x c then Some i else acc)).
    destruct (last_index s c (S i) (if Ascii.eqb x c then Some i else acc)) as [j|].
    + destruct IH as [(a & p & -> & -> & Hp)|[Hacc Hs]].
      * left. exists (x :: a), p. repeat split; auto; simpl; lia.
      * destruct (Ascii.eqb x c) eqn:E.
        -- apply Ascii.eqb_eq in E. subst x. inversion Hacc; subst j.
           left. exists [], s. repeat split; auto; simpl; lia.
        -- right. rewrite contains_cons, E, Hs. auto.
    + destruct IH as [Hacc Hs]. destruct (Ascii.eqb x c) eqn:E; [discriminate|].
      rewrite contains_cons, E, Hs. auto.
Qed.

Lemma last_index_none_iff s c : last_index s c 0 None = None <-> contains s c = false.
Proof.
  pose proof (last_index_char c s 0 None) as H. destruct (last_index s c 0 None) as [j|]; split; try tauto; try discriminate.
  intros Hc. destruct H as [(a & p & -> & _ & _)|[H _]]; [|discriminate].
  rewrite contains_app, contains_cons, Ascii.eqb_refl, orb_true_r in Hc. discriminate.
Qed.

Lemma last_index_split s c j : last_index s c 0 None = Some j ->
  exists a p, s = a ++ c :: p /\ j = List.length a /\ contains p c = false.
Proof.
  intros H. pose proof (last_index_char c s 0 None) as H'. rewrite H in H'.
  destruct H' as [(a & p & H1 & H2 & H3)|[H1 _]]; [|discriminate]. exists a, p. auto.
Qed.

Lemma last_index_app a c p : contains p c = false -> last_index (a ++ c :: p) c 0 None = Some (List.length a).
Proof.
  intros Hp. pose proof (last_index_char c (a ++ c :: p) 0 None) as H.
  destruct (last_index (a ++ c :: p) c 0 None) as [j|].
  - destruct H as [(a' & p' & He & -> & Hp')|[H _]]; [|discriminate]. f_equal. simpl.
    (* both decompositions cut at the last c *)
    revert a' He. induction a as [|x a IH]; intros a' He.
    + destruct a' as [|y a']; [reflexivity|]. simpl in He. inversion He; subst y.
      rewrite H1 in Hp. rewrite contains_app, contains_cons, Ascii.eqb_refl, orb_true_r in Hp. discriminate.
    + destruct a' as [|y a'].
      * simpl in He. inversion He; subst x. rewrite <- H1 in Hp'.
        rewrite contains_app, contains_cons, Ascii.eqb_refl, orb_true_r in Hp'. discriminate.
      * simpl in He. inversion He; subst y. simpl. f_equal. apply IH. exact H1.
  - destruct H as [_ H]. rewrite contains_app, contains_cons, Ascii.eqb_refl, orb_true_r in H. discriminate.
Qed.

Lemma firstn_app_exact {A} (a b : list A) : firstn (List.length a) (a ++ b) = a.
Proof. rewrite firstn_app, Nat.sub_diag, firstn_all. simpl. apply app_nil_r. Qed.

Lemma skipn_app_exact {A} (a b : list A) : skipn (List.length a) (a ++ b) = b.
Proof. rewrite skipn_app, Nat.sub_diag, skipn_all. reflexivity. Qed.

Lemma skipn_S_app {A} (a : list A) x r : skipn (S (List.length a)) (a ++ x :: r) = r.
Proof. induction a; simpl; auto. Qed.

Lemma cut_last_colon_app a port : contains port ":" = false ->
  cut_last_colon (a ++ ":" :: port) = Some (a, port).
Proof.
  intros H. unfold cut_last_colon. rewrite (last_index_app a ":" port H).
  rewrite firstn_app_exact, skipn_S_app. reflexivity.
Qed.

Lemma starts_bracket_dec (a : bytes) : (exists a', a = "[" :: a') \/ (forall a', a <> "[" :: a').
Proof.
  destruct a as [|x a]; [right; discriminate|].
  destruct (Ascii.eqb_spec x "[") as [->|Hn]; [left; eauto|right]. intros a' [= H _]. contradiction.
Qed.

Lemma neq_colon_lb : Ascii.eqb ":" "[" = false. Proof. reflexivity. Qed.
Lemma neq_colon_rb : Ascii.eqb ":" "]" = false. Proof. reflexivity. Qed.

(* the HostPort.plain case: the text before the last colon does not start with '[' *)
Lemma split_plain a port : (forall a', a <> "[" :: a') -> contains port ":" = false ->
  split_host_port (a ++ ":" :: port) =
  if contains a ":" then None
  else if contains a "[" || contains port "[" then None
  else if contains a "]" || contains port "]" then None
  else Some (a, port).
Proof.
  intros Hnb Hp. unfold split_host_port. rewrite (last_index_app a ":" port Hp).
  assert (Hhp : forall x, Ascii.eqb ":" x = false -> contains (a ++ ":" :: port) x = contains a x || contains port x).
  { intros x Hx. rewrite contains_app, contains_cons, Hx. reflexivity. }
  assert (Hsk : skipn (S (List.length a)) (a ++ ":" :: port) = port) by apply skipn_S_app.
  assert (Hbody : (let host := firstn (List.length a) (a ++ ":" :: port) in
                   if contains host ":" then None
                   else if contains (a ++ ":" :: port) "[" then None
                   else if contains (a ++ ":" :: port) "]" then None
                   else Some (host, skipn (S (List.length a)) (a ++ ":" :: port))) =
                  (if contains a ":" then None
                   else if contains a "[" || contains port "[" then None
                   else if contains a "]" || contains port "]" then None
                   else Some (a, port))).
  { cbv zeta. rewrite firstn_app_exact, Hsk, (Hhp "[" neq_colon_lb), (Hhp "]" neq_colon_rb). reflexivity. }
  destruct a as [|x a]; [exact Hbody|].
  simpl app. destruct (Ascii.eqb_spec x "[") as [->|Hn]; [exfalso; eapply Hnb; reflexivity|].
  simpl app in Hbody.
  destruct x as [[] [] [] [] [] [] [] []]; try exact Hbody. exfalso; apply Hn; reflexivity.
Qed.

(* the bracket case *)
Lemma split_bracket a' port : contains port ":" = false ->
  split_host_port (("[" :: a') ++ ":" :: port) =
  match rev a' with
  | "]" :: ri =>
      if contains (rev ri) "]" then None
      else if contains (rev ri) "[" || contains port "[" then None
      else if contains port "]" then None
      else Some (rev ri, port)
  | _ => None
  end.
Proof.
  intros Hp. unfold split_host_port. rewrite (last_index_app ("[" :: a') ":" port Hp).
  set (hp := ("[" :: a') ++ ":" :: port). set (i := List.length ("[" :: a')).
  change (match hp with "[" :: _ => ?X | _ => ?Y end) with X.
  assert (Hlen : List.length hp = S (List.length a') + 1 + List.length port).
  { unfold hp. rewrite app_length. simpl. lia. }
  destruct (rev a') as [|x ri] eqn:Er.
  - (* a' = [] : hp = "[:port" *)
    assert (a' = []) as -> by (apply (f_equal (@rev ascii)) in Er; rewrite rev_involutive in Er; exact Er).
    unfold hp, i. simpl app. cbn [index_byte]. cbn [Ascii.eqb Bool.eqb andb]. cbn [option_map].
    destruct (index_byte port "]") as [e|] eqn:Ee; [|reflexivity]. cbn [option_map].
    cbn [List.length]. destruct (Nat.eqb (S (S (S e))) (S (S (List.length port)))); [reflexivity|]. reflexivity.
  - assert (Ha : a' = rev ri ++ [x]).
    { apply (f_equal (@rev ascii)) in Er. rewrite rev_involutive in Er. exact Er. }
    set (b := rev ri) in *.
    assert (Hhp : hp = "[" :: b ++ x :: ":" :: port).
    { unfold hp. rewrite Ha. simpl. rewrite <- app_assoc. reflexivity. }
    assert (Hi : i = S (S (List.length b))).
    { unfold i. rewrite Ha. simpl. rewrite app_length. simpl. lia. }
    destruct (index_byte hp "]") as [e|] eqn:Ee.
    + destruct (index_byte_nth_gen "]" hp e Ee) as [Hnth Hbefore].
      destruct (Nat.eqb (S e) (List.length hp)) eqn:E1.
      * (* the first ']' is the last byte: then it is after the last colon, x <> ']' or b contains none... *)
        apply Nat.eqb_eq in E1.
        destruct (Ascii.eqb_spec x "]") as [->|Hx].
        -- (* then the first ']' is at most at position i-1 < len-1 *)
           exfalso. destruct (contains b "]") eqn:Eb.
           ++ rewrite Hhp in Hbefore.
              assert (e <= S (List.length b)).
              { destruct (le_lt_dec e (S (List.length b))); auto. exfalso.
                replace e with (S (List.length b + (e - S (List.length b)))) in Hbefore by lia.
                cbn [firstn] in Hbefore. rewrite contains_cons in Hbefore. apply orb_false_elim in Hbefore.
                destruct Hbefore as [_ Hb]. rewrite firstn_app in Hb. rewrite contains_app in Hb.
                rewrite firstn_all2 in Hb by lia. rewrite Eb in Hb. discriminate. }
              rewrite Hhp in E1. simpl in E1. rewrite app_length in E1. simpl in E1. lia.
           ++ rewrite Hhp in Ee. cbn [index_byte] in Ee. cbn [Ascii.eqb Bool.eqb andb] in Ee.
              rewrite (index_byte_first b "]" _ Eb) in Ee. simpl in Ee. inversion Ee; subst e.
              rewrite Hhp in E1. simpl in E1. rewrite app_length in E1. simpl in E1. lia.
        -- destruct x as [[] [] [] [] [] [] [] []]; try reflexivity. exfalso; apply Hx; reflexivity.
      * destruct (Nat.eqb (S e) i) eqn:E2.
        -- apply Nat.eqb_eq in E2. rewrite Hi in E2. assert (e = S (List.length b)) as He by lia.
           (* the byte at position e is x *)
           assert (Hx : x = "]").
           { rewrite Hhp, He in Hnth. cbn [nth_error] in Hnth. rewrite nth_error_app2 in Hnth by lia.
             rewrite Nat.sub_diag in Hnth. simpl in Hnth. congruence. }
           subst x.
           assert (Hb : contains b "]" = false).
           { rewrite Hhp, He in Hbefore. cbn [firstn] in Hbefore. rewrite contains_cons in Hbefore.
             apply orb_false_elim in Hbefore. destruct Hbefore as [_ Hb]. rewrite firstn_app_exact in Hb. exact Hb. }
           rewrite Hb.
           assert (Hs1 : skipn 1 hp = b ++ "]" :: ":" :: port) by (rewrite Hhp; reflexivity).
           assert (Hs2 : skipn (S e) hp = ":" :: port).
           { rewrite Hhp, He.
             change (skipn (S (S (List.length b))) ("[" :: b ++ "]" :: ":" :: port))
               with (skipn (S (List.length b)) (b ++ "]" :: ":" :: port)).
             apply skipn_S_app. }
           assert (Hs3 : skipn (S i) hp = port) by (unfold hp, i; apply skipn_S_app).
           rewrite Hs1, Hs2, Hs3.
           replace (e - 1) with (List.length b) by lia. rewrite firstn_app_exact.
           rewrite contains_app, !contains_cons. cbn [Ascii.eqb Bool.eqb andb orb].
           destruct (contains b "["), (contains port "["), (contains port "]"); reflexivity.
        -- (* the first ']' is not right before the last colon *)
           destruct (Ascii.eqb_spec x "]") as [->|Hx].
           ++ destruct (contains b "]") eqn:Eb; [reflexivity|].
              exfalso. rewrite Hhp in Ee. cbn [index_byte] in Ee. cbn [Ascii.eqb Bool.eqb andb] in Ee.
              rewrite (index_byte_first b "]" _ Eb) in Ee. simpl in Ee. inversion Ee; subst e.
              apply Nat.eqb_neq in E2. lia.
           ++ destruct x as [[] [] [] [] [] [] [] []]; try reflexivity. exfalso; apply Hx; reflexivity.
    + (* no ']' at all *)
      destruct (Ascii.eqb_spec x "]") as [->|Hx].
      * exfalso. apply index_byte_none_contains in Ee. rewrite Hhp in Ee.
        rewrite contains_cons, contains_app, contains_cons in Ee. cbn [Ascii.eqb Bool.eqb andb] in Ee.
        rewrite orb_true_r in Ee. discriminate.
      * destruct x as [[] [] [] [] [] [] [] []]; try reflexivity. exfalso; apply Hx; reflexivity.
Qed.

Definition spec_body (h a port : bytes) : bytes :=
  match a with
  | "[" :: a' =>
      match rev a' with
      | "]" :: ri => if negb (contains (rev ri) "[") && negb (contains (rev ri) "]") && plain_port port
                     then trim_dot (rev ri) else h
      | _ => h
      end
  | _ => if HostPort.plain a && plain_port port then trim_dot a else h
  end.

Lemma strip_spec_body h : strip_spec h =
  match cut_last_colon h with None => trim_dot h | Some (a, port) => spec_body h a port end.
Proof. reflexivity. Qed.

Lemma spec_body_nb h a port : (forall a', a <> "[" :: a') ->
  spec_body h a port = if HostPort.plain a && plain_port port then trim_dot a else h.
Proof.
  intros Hnb. destruct a as [|x a2]; [reflexivity|].
  destruct (Ascii.eqb_spec x "[") as [->|Hn]; [exfalso; eapply Hnb; reflexivity|].
  destruct x as [[] [] [] [] [] [] [] []]; try reflexivity. exfalso; apply Hn; reflexivity.
Qed.

Theorem strip_host_port_eq_spec_thm : forall h, strip_host_port h = strip_spec h.
Proof.
  intros h. rewrite strip_spec_body. unfold strip_host_port, cut_last_colon.
  destruct h as [|h0 h1]; [reflexivity|]. set (h := h0 :: h1).
  destruct (last_index h ":" 0 None) as [j|] eqn:El.
  - assert (Hc : contains h ":" = true).
    { destruct (contains h ":") eqn:E; auto. apply last_index_none_iff in E. congruence. }
    rewrite Hc. cbn [negb].
    destruct (last_index_split h ":" j El) as (a & port & Hh & Hj & Hp).
    assert (Hf : firstn j h = a) by (rewrite Hh, Hj; apply firstn_app_exact).
    assert (Hs : skipn (S j) h = port) by (rewrite Hh, Hj; apply skipn_S_app).
    rewrite Hf, Hs, Hh.
    destruct (starts_bracket_dec a) as [(a' & ->)|Hnb].
    + rewrite (split_bracket a' port Hp). cbn [spec_body].
      destruct (rev a') as [|x ri]; [reflexivity|].
      destruct x as [[] [] [] [] [] [] [] []]; try reflexivity.
      unfold plain_port.
      destruct (contains (rev ri) "]"), (contains (rev ri) "["), (contains port "["), (contains port "]"); reflexivity.
    + rewrite (split_plain a port Hnb Hp), (spec_body_nb _ a port Hnb). unfold HostPort.plain, plain_port.
      destruct (contains a ":"), (contains a "["), (contains port "["), (contains a "]"), (contains port "]"); reflexivity.
  - apply last_index_none_iff in El. rewrite El. reflexivity.
Qed.

(* ---- corollaries in the words of the property ---- *)
Lemma trim_dot_once s : trim_dot s = s \/ s = trim_dot s ++ ["."].
Proof.
  unfold trim_dot. destruct (rev s) as [|x r] eqn:E; [left; reflexivity|].
  destruct (Ascii.eqb_spec x ".") as [->|Hn].
  - right. apply (f_equal (@rev ascii)) in E. rewrite rev_involutive in E. exact E.
  - left. destruct x as [[] [] [] [] [] [] [] []]; try reflexivity. exfalso; apply Hn; reflexivity.
Qed.

(* exactly one trailing dot goes: "a.." keeps one *)
Lemma trim_dot_app_dot s : trim_dot (s ++ ["."]) = s.
Proof. unfold trim_dot. rewrite rev_app_distr. simpl. apply rev_involutive. Qed.

Lemma trim_dot_nodot s : (forall r, s <> r ++ ["."]) -> trim_dot s = s.
Proof.
  intros H. destruct (trim_dot_once s) as [E|E]; auto. exfalso. eapply H; eauto.
Qed.

Lemma strip_no_colon h : contains h ":" = false -> strip_host_port h = trim_dot h.
Proof. intros H. unfold strip_host_port. destruct h; [reflexivity|]. rewrite H. reflexivity. Qed.

Lemma plain_no_bracket a : HostPort.plain a = true -> forall a', a <> "[" :: a'.
Proof.
  intros H a' ->. unfold HostPort.plain in H. rewrite !contains_cons in H. cbn [Ascii.eqb Bool.eqb andb orb negb] in H.
  rewrite andb_false_r in H. discriminate.
Qed.

(* host:port with a well-formed host and port: the port (and its colon) is removed *)
Lemma strip_host_colon_port a port : HostPort.plain a = true -> plain_port port = true -> contains port ":" = false ->
  strip_host_port (a ++ ":" :: port) = trim_dot a.
Proof.
  intros Ha Hp Hc. rewrite strip_host_port_eq_spec_thm, strip_spec_body, (cut_last_colon_app a port Hc).
  rewrite (spec_body_nb _ a port (plain_no_bracket a Ha)), Ha, Hp. reflexivity.
Qed.

(* [v6]:port *)
Lemma strip_v6_port v6 port : contains v6 "[" = false -> contains v6 "]" = false ->
  plain_port port = true -> contains port ":" = false ->
  strip_host_port ("[" :: v6 ++ "]" :: ":" :: port) = trim_dot v6.
Proof.
  intros H1 H2 Hp Hc. rewrite strip_host_port_eq_spec_thm, strip_spec_body.
  replace ("[" :: v6 ++ "]" :: ":" :: port) with (("[" :: v6 ++ ["]"]) ++ ":" :: port)
    by (simpl; rewrite <- app_assoc; reflexivity).
  rewrite (cut_last_colon_app _ port Hc). cbn [spec_body]. rewrite rev_app_distr. cbn [rev app].
  rewrite rev_involutive, H1, H2, Hp. reflexivity.
Qed.

Lemma trim_dot_contains s c : contains s c = false -> contains (trim_dot s) c = false.
Proof.
  intros H. destruct (trim_dot_once s) as [->|E]; auto. rewrite E, contains_app in H.
  apply orb_false_elim in H. tauto.
Qed.

(* the result of stripping host:port contains no colon (hence no port) *)
Lemma strip_host_colon_port_noport a port : HostPort.plain a = true -> plain_port port = true -> contains port ":" = false ->
  contains (strip_host_port (a ++ ":" :: port)) ":" = false.
Proof.
  intros Ha Hp Hc. rewrite strip_host_colon_port by auto. apply trim_dot_contains.
  unfold HostPort.plain in Ha. apply andb_prop in Ha. destruct Ha as [Ha _]. apply andb_prop in Ha. destruct Ha as [Ha _].
  apply negb_true_iff in Ha. exact Ha.
Qed.

(* ================================================================== *)
(* Part B — roots.lookup: shortcut, hostname pass, fallback             *)
(* ================================================================== *)
Definition shortcut (root : node) : bool :=
  match nchildren root with [c0] => starts_with "/" (nkey c0) | _ => false end.

(* the path-only pass after a hostname pass that returned no node: parameters reset to [],
   a fresh state (tsr = false, n = nil); without a "/" child the (nil) result of the hostname
   pass stands *)
Definition path_fallback (fuel : nat) (root : node) (path : bytes) (lazy : bool) (p tp : list kv) : lres :=
  match get_edge root "/" with
  | Some c => lookup_by_path fuel c path lazy [] tp
  | None => Found None false p tp
  end.

Lemma get_edge_first n c : get_edge n c = first_child c (nchildren n).
Proof.
  unfold get_edge. pose proof (find_child_first n c) as H. destruct (find_child n c) as [j|]; [tauto|auto].
Qed.

Lemma fallback_unfold fuel root path lazy p tp :
  match find_child root "/" with
  | None => Found None false p tp
  | Some _ =>
      match find_child root "/" with
      | None => Found None false [] tp
      | Some idx => match nth_error (nchildren root) idx with
                    | Some c => lookup_by_path fuel c path lazy [] tp
                    | None => LPanic end
      end
  end = path_fallback fuel root path lazy p tp.
Proof.
  unfold path_fallback, get_edge. pose proof (find_child_first root "/") as H.
  destruct (find_child root "/") as [j|]; [|reflexivity].
  destruct H as [H1 H2]. destruct (nth_error (nchildren root) j); [reflexivity|]. congruence.
Qed.

Theorem roots_lookup_shortcut fuel r m i root c0 host path lazy ps0 tps0 :
  method_index r m = Some i -> nth_error r i = Some root ->
  nchildren root = [c0] -> starts_with "/" (nkey c0) = true ->
  roots_lookup fuel r m host path lazy ps0 tps0 = lookup_by_path fuel c0 path lazy ps0 tps0.
Proof. intros H1 H2 H3 H4. unfold roots_lookup. rewrite H1, H2, H3, H4. reflexivity. Qed.

Theorem roots_lookup_hostpass fuel r m i root host path lazy ps0 tps0 :
  method_index r m = Some i -> nth_error r i = Some root ->
  nchildren root <> [] -> shortcut root = false -> host <> [] ->
  roots_lookup fuel r m host path lazy ps0 tps0 =
  match lookup_by_domain fuel root host path lazy ps0 tps0 with
  | Found (Some n) t p tp => Found (Some n) t p tp
  | Found None _ p tp => path_fallback fuel root path lazy p tp
  | LPanic => LPanic
  | LOutOfFuel => LOutOfFuel
  end.
Proof.
  intros H1 H2 H3 H4 H5. unfold roots_lookup. rewrite H1, H2. unfold shortcut in H4.
  destruct (nchildren root) as [|c0 rest] eqn:Ech; [congruence|].
  assert ((match rest with [] => starts_with "/" (nkey c0) | _ :: _ => false end) = false) as ->
    by (destruct rest; auto).
  destruct host as [|h0 host']; [congruence|].
  destruct (lookup_by_domain fuel root (h0 :: host') path lazy ps0 tps0) as [[n|] t p tp| |]; try reflexivity.
  rewrite <- Ech. apply fallback_unfold.
Qed.

Theorem roots_lookup_nohost fuel r m i root path lazy ps0 tps0 :
  method_index r m = Some i -> nth_error r i = Some root ->
  nchildren root <> [] -> shortcut root = false ->
  roots_lookup fuel r m [] path lazy ps0 tps0 = path_fallback fuel root path lazy ps0 tps0.
Proof.
  intros H1 H2 H3 H4. unfold roots_lookup. rewrite H1, H2. unfold shortcut in H4.
  destruct (nchildren root) as [|c0 rest] eqn:Ech; [congruence|].
  assert ((match rest with [] => starts_with "/" (nkey c0) | _ :: _ => false end) = false) as ->
    by (destruct rest; auto).
  rewrite <- Ech. apply fallback_unfold.
Qed.

(* the fallback is taken exactly when the hostname pass returned no node *)
Theorem fallback_iff fuel r m i root host path lazy ps0 tps0 :
  method_index r m = Some i -> nth_error r i = Some root ->
  nchildren root <> [] -> shortcut root = false -> host <> [] ->
  ((exists t p tp, lookup_by_domain fuel root host path lazy ps0 tps0 = Found None t p tp /\
                   roots_lookup fuel r m host path lazy ps0 tps0 = path_fallback fuel root path lazy p tp)
   \/
   (lookup_by_domain fuel root host path lazy ps0 tps0 = roots_lookup fuel r m host path lazy ps0 tps0 /\
    forall t p tp, lookup_by_domain fuel root host path lazy ps0 tps0 <> Found None t p tp)).
Proof.
  intros H1 H2 H3 H4 H5. rewrite (roots_lookup_hostpass fuel r m i root host path lazy ps0 tps0 H1 H2 H3 H4 H5).
  destruct (lookup_by_domain fuel root host path lazy ps0 tps0) as [[n|] t p tp| |].
  - right. split; [reflexivity|]. intros; discriminate.
  - left. exists t, p, tp. auto.
  - right. split; [reflexivity|]. intros; discriminate.
  - right. split; [reflexivity|]. intros; discriminate.
Qed.

(* a method root whose children all start with '/' (no hostname route; sibling keys start with
   distinct bytes): the Host is ignored *)
Theorem host_ignored fuel r m host host' path lazy ps0 tps0 :
  (forall i root, method_index r m = Some i -> nth_error r i = Some root ->
     NoDup (heads (nchildren root)) /\ forall c, In c (nchildren root) -> starts_with "/" (nkey c) = true) ->
  roots_lookup fuel r m host path lazy ps0 tps0 = roots_lookup fuel r m host' path lazy ps0 tps0.
Proof.
  intros H. unfold roots_lookup. destruct (method_index r m) as [i|] eqn:E1; [|reflexivity].
  destruct (nth_error r i) as [root|] eqn:E2; [|reflexivity].
  destruct (H i root eq_refl E2) as [Hnd Hall].
  destruct (nchildren root) as [|c0 rest]; [reflexivity|].
  destruct rest as [|c1 rest].
  - rewrite (Hall c0 (or_introl eq_refl)). reflexivity.
  - exfalso. pose proof (Hall c0 (or_introl eq_refl)) as A. pose proof (Hall c1 (or_intror (or_introl eq_refl))) as B.
    apply starts_with_hd in A, B. simpl in Hnd. inversion Hnd as [|? ? Hni _]; subst. apply Hni. left. congruence.
Qed.

(* ================================================================== *)
(* Part C — single steps of lbd (lookupByDomain)                        *)
(* ================================================================== *)
Lemma dwalk_lt f host path lazy s : cm s < List.length host ->
  lbd (S f) host path lazy DWalk s = lbd f host path lazy (DInner 0) (reset_cmn s).
Proof. intros H. cbn [lbd]. apply Nat.ltb_lt in H. rewrite H. reflexivity. Qed.

Lemma dwalk_ge f host path lazy s : List.length host <= cm s ->
  lbd (S f) host path lazy DWalk s = lbd f host path lazy DAfter s.
Proof. intros H. cbn [lbd]. apply Nat.ltb_ge in H. rewrite H. reflexivity. Qed.

Lemma dinner_exit f host path lazy i s :
  List.length host <= cm s \/ List.length (nkey (cur s)) <= i ->
  lbd (S f) host path lazy (DInner i) s = lbd f host path lazy DSelect s.
Proof.
  intros H. cbn [lbd]. destruct (Nat.ltb (cm s) (List.length host)) eqn:E1; cbn [negb]; [|reflexivity].
  destruct H as [H|H]; [apply Nat.ltb_lt in E1; lia|]. apply Nat.ltb_ge in H. rewrite H. reflexivity.
Qed.

Lemma dselect_ge f host path lazy s : List.length host <= cm s ->
  lbd (S (S f)) host path lazy DSelect s = lbd f host path lazy DAfter s.
Proof. intros H. cbn [lbd]. pose proof H as H'. apply Nat.ltb_ge in H'. rewrite H'. reflexivity. Qed.

Lemma dinner_static_step f host path lazy i s d c :
  nth_error (nkey (cur s)) i = Some d -> nth_error host (cm s) = Some c -> sbyte d = true ->
  lbd (S f) host path lazy (DInner i) s =
  if Ascii.eqb d c && sbyte c then lbd f host path lazy (DInner (S i)) (adv s 1) else lbd f host path lazy DAfter s.
Proof.
  intros Hk Hp Hd. cbn [lbd].
  assert (i < List.length (nkey (cur s))) as Hi by (apply nth_error_Some; congruence).
  assert (cm s < List.length host) as Hc by (apply nth_error_Some; congruence).
  apply Nat.ltb_lt in Hi, Hc. rewrite Hi, Hc. cbn [negb]. rewrite Hk, Hp.
  pose proof Hd as Hd'. unfold sbyte in Hd. apply andb_prop in Hd. destruct Hd as [H1 H2]. apply negb_true_iff in H1, H2.
  rewrite H1.
  destruct (Ascii.eqb d c) eqn:E; cbn [negb orb andb].
  - apply Ascii.eqb_eq in E. subst c. rewrite H1, Hd'. reflexivity.
  - reflexivity.
Qed.

Lemma dinner_param_step f host path lazy i s c prm :
  nth_error (nkey (cur s)) i = Some "{" -> nth_error host (cm s) = Some c ->
  nth_error (nparams (cur s)) (pkc s) = Some prm ->
  lbd (S f) host path lazy (DInner i) s =
  match index_byte (skipn (cm s) host) "." with
  | Some O => lbd f host path lazy DAfter s
  | idx =>
    let cm' := match idx with Some d => cm s + d | None => List.length host end in
    lbd f host path lazy (DInner (i + adv_of prm s))
      (pstate lazy s cm' (adv_of prm s) (pkey prm) (slice host (cm s) cm'))
  end.
Proof.
  intros Hk Hp Hprm. cbn [lbd].
  assert (i < List.length (nkey (cur s))) as Hi by (apply nth_error_Some; congruence).
  assert (cm s < List.length host) as Hc by (apply nth_error_Some; congruence).
  apply Nat.ltb_lt in Hi, Hc. rewrite Hi, Hc. cbn [negb]. rewrite Hk, Hp.
  assert (negb (Ascii.eqb "{" c) || Ascii.eqb c "{" = true) as ->.
  { rewrite (Ascii.eqb_sym "{" c). destruct (Ascii.eqb c "{"); reflexivity. }
  cbn [Ascii.eqb Bool.eqb andb]. rewrite Hprm.
  destruct (index_byte (skipn (cm s) host) ".") as [[|d]|]; reflexivity.
Qed.

Lemma dafter_fail f host path lazy s :
  Nat.eqb (cm s) (List.length host) && Nat.eqb (cmn s) (List.length (nkey (cur s))) = false ->
  lbd (S f) host path lazy DAfter s = lbd f host path lazy DBack (zero_cnt s).
Proof. intros H. cbn [lbd]. cbn [cm cmn cur]. rewrite H. reflexivity. Qed.

Lemma dafter_noslash f host path lazy s :
  first_child "/" (nchildren (cur s)) = None ->
  lbd (S f) host path lazy DAfter s = lbd f host path lazy DBack (zero_cnt s).
Proof.
  intros H. cbn [lbd]. cbn [cm cmn cur].
  destruct (Nat.eqb (cm s) (List.length host) && Nat.eqb (cmn s) (List.length (nkey (cur s)))); [|reflexivity].
  pose proof (find_child_first (cur s) "/") as Hf. destruct (find_child (cur s) "/") as [j|]; [|reflexivity].
  destruct Hf as [_ Hf]. congruence.
Qed.

Lemma dafter_path f host path lazy s c :
  cm s = List.length host -> cmn s = List.length (nkey (cur s)) ->
  first_child "/" (nchildren (cur s)) = Some c ->
  lbd (S f) host path lazy DAfter s =
  match lookup_by_path f c path lazy [] [] with
  | Found None _ _ _ => lbd f host path lazy DBack (zero_cnt s)
  | Found (Some sn) true _ stps =>
      lbd f host path lazy DBack (if tsr s then zero_cnt s else set_tsr lazy (zero_cnt s) sn (ps s ++ stps))
  | Found (Some sn) false sps _ => Found (Some sn) false (if lazy then ps s else ps s ++ sps) (tps s)
  | LPanic => LPanic
  | LOutOfFuel => LOutOfFuel
  end.
Proof.
  intros H1 H2 H3. cbn [lbd]. cbn [cm cmn cur].
  assert (Nat.eqb (cm s) (List.length host) && Nat.eqb (cmn s) (List.length (nkey (cur s))) = true) as ->
    by (apply andb_true_intro; split; apply Nat.eqb_eq; assumption).
  pose proof (find_child_first (cur s) "/") as Hf. destruct (find_child (cur s) "/") as [j|].
  - destruct Hf as [Hf _]. rewrite Hf, H3. reflexivity.
  - congruence.
Qed.

Definition dpopped (s : st) (sk : skipped) (rest : list skipped) (y : node) : st :=
  {| cur := y; par := None; cm := sk_path sk; cmn := cmn s; pcnt := sk_pcnt sk; pkc := pkc s;
     sks := rest; ps := firstn (sk_pcnt sk) (ps s); tsr := tsr s; tn := tn s; tps := tps s |}.

Lemma dback_pop f host path lazy s sk rest y :
  sks s = sk :: rest -> nth_error (nchildren (sk_n sk)) (sk_child sk) = Some y ->
  sk_pcnt sk <= List.length (ps s) ->
  lbd (S f) host path lazy DBack s = lbd f host path lazy DWalk (dpopped s sk rest y).
Proof.
  intros Hs Hy Hle. cbn [lbd]. rewrite Hs, Hy. apply Nat.ltb_ge in Hle. rewrite Hle. reflexivity.
Qed.

Lemma dback_nil f host path lazy s : sks s = [] ->
  lbd (S f) host path lazy DBack s = Found (tn s) (tsr s) (ps s) (tps s).
Proof. intros H. cbn [lbd]. rewrite H. reflexivity. Qed.

(* ---- child selection: the static edge first (the parameter child is pushed), else the parameter child ---- *)
Fixpoint dpush_all (s : st) (n : node) (idxs : list nat) : st :=
  match idxs with [] => s | i :: r => dpush (dpush_all s n r) n i end.

Definition dentry (s : st) (n : node) (i : nat) : skipped :=
  {| sk_n := n; sk_path := cm s; sk_pcnt := pcnt s; sk_child := i |}.

Lemma dpush_all_core s n idxs :
  cur (dpush_all s n idxs) = cur s /\ cm (dpush_all s n idxs) = cm s /\
  cmn (dpush_all s n idxs) = cmn s /\ pcnt (dpush_all s n idxs) = pcnt s /\ pkc (dpush_all s n idxs) = pkc s /\
  ps (dpush_all s n idxs) = ps s /\ tsr (dpush_all s n idxs) = tsr s /\ tn (dpush_all s n idxs) = tn s.
Proof. induction idxs as [|i r IH]; simpl; tauto. Qed.

Lemma dpush_all_sks s n idxs : sks (dpush_all s n idxs) = map (dentry s n) idxs ++ sks s.
Proof.
  induction idxs as [|i r IH]; simpl; auto.
  destruct (dpush_all_core s n r) as (_ & H3 & _ & H5 & _).
  rewrite IH, H3, H5. reflexivity.
Qed.

Definition halts (c : ascii) (ch : list node) : list node := optl (first_child c ch) ++ optl (first_child "{" ch).

Lemma dselect_alts f host path lazy s c :
  cm s < List.length host -> nth_error host (cm s) = Some c ->
  NoDup (heads (nchildren (cur s))) ->
  exists es, map snd es = halts c (nchildren (cur s)) /\
    (forall e, In e es -> nth_error (nchildren (cur s)) (fst e) = Some (snd e)) /\
    lbd (S f) host path lazy DSelect s =
    match es with
    | [] => lbd f host path lazy DAfter s
    | e1 :: rest => lbd f host path lazy DWalk (dgo (dpush_all s (cur s) (map fst rest)) (snd e1))
    end.
Proof.
  intros Hlt Hc Hnd. cbn [lbd]. apply Nat.ltb_lt in Hlt. rewrite Hlt, Hc.
  pose proof (find_child_first (cur s) c) as Hfc.
  pose proof (index_first "{" (cur s) Hnd) as Hpc.
  change (last_index_from 0 "{" (nchildren (cur s)) None) with (param_child_index (cur s)) in Hpc.
  unfold halts.
  destruct (find_child (cur s) c) as [i|].
  - destruct Hfc as [Hfi Hfn]. destruct (first_child c (nchildren (cur s))) as [x|] eqn:Ex; [|congruence].
    rewrite Hfi.
    destruct (param_child_index (cur s)) as [pi|].
    + destruct Hpc as [Hp1 Hp2].
      destruct (first_child "{" (nchildren (cur s))) as [y|] eqn:Ey; [|congruence].
      exists [(i, x); (pi, y)]. simpl. repeat split; auto.
      intros e [<-|[<-|[]]]; auto.
    + rewrite Hpc. exists [(i, x)]. simpl. repeat split; auto.
      intros e [<-|[]]; auto.
  - rewrite Hfc.
    destruct (param_child_index (cur s)) as [pi|].
    + destruct Hpc as [Hp1 Hp2].
      destruct (first_child "{" (nchildren (cur s))) as [y|] eqn:Ey; [|congruence].
      rewrite Hp1. exists [(pi, y)]. simpl. repeat split; auto.
      intros e [<-|[]]; auto.
    + rewrite Hpc. exists []. simpl. repeat split; auto. intros e [].
Qed.

Lemma lbd_top_alts fuel target h0 hrest path lazy ps0 tps0 :
  NoDup (heads (nchildren target)) ->
  exists es, map snd es = halts h0 (nchildren target) /\
    (forall e, In e es -> nth_error (nchildren target) (fst e) = Some (snd e)) /\
    lookup_by_domain fuel target (h0 :: hrest) path lazy ps0 tps0 =
    match es with
    | [] => Found None false ps0 tps0
    | e1 :: rest => lbd fuel (h0 :: hrest) path lazy DWalk
                      (dgo (dpush_all (init_st target ps0 tps0) target (map fst rest)) (snd e1))
    end.
Proof.
  intros Hnd. unfold lookup_by_domain.
  pose proof (find_child_first target h0) as Hfc.
  pose proof (index_first "{" target Hnd) as Hpc.
  change (last_index_from 0 "{" (nchildren target) None) with (param_child_index target) in Hpc.
  unfold halts.
  destruct (find_child target h0) as [i|].
  - destruct Hfc as [Hfi Hfn]. destruct (first_child h0 (nchildren target)) as [x|] eqn:Ex; [|congruence].
    rewrite Hfi.
    destruct (param_child_index target) as [pi|].
    + destruct Hpc as [Hp1 Hp2].
      destruct (first_child "{" (nchildren target)) as [y|] eqn:Ey; [|congruence].
      exists [(i, x); (pi, y)]. simpl. repeat split; auto.
      intros e [<-|[<-|[]]]; auto.
    + rewrite Hpc. exists [(i, x)]. simpl. repeat split; auto.
      intros e [<-|[]]; auto.
  - rewrite Hfc.
    destruct (param_child_index target) as [pi|].
    + destruct Hpc as [Hp1 Hp2].
      destruct (first_child "{" (nchildren target)) as [y|] eqn:Ey; [|congruence].
      rewrite Hp1. exists [(pi, y)]. simpl. repeat split; auto.
      intros e [<-|[]]; auto.
    + rewrite Hpc. exists []. simpl. repeat split; auto. intros e [].
Qed.

(* ================================================================== *)
(* Part D — M2h: structural DFS over the host part; M1 (lbd) = M2h      *)
(* ================================================================== *)
Definition is_dot (x : ascii) : bool := Ascii.eqb x ".".

(* host tokens: static bytes other than '{' '*' '/', and {name}; no catch-all *)
Definition htok_ok (t : token) : bool :=
  match t with
  | TStatic c => sbyte c && negb (Ascii.eqb c "/")
  | TParam n => name_ok n
  | TCatch _ => false
  end.

Lemma htok_ptok t : htok_ok t = true -> ptok_ok t = true.
Proof. destruct t; simpl; auto. intros H. apply andb_prop in H. tauto. Qed.

Lemma forallb_htok_ptok kt : forallb htok_ok kt = true -> forallb ptok_ok kt = true.
Proof. intros H. apply forallb_forall. intros t Ht. apply htok_ptok. rewrite forallb_forall in H. auto. Qed.

(* host/path split: a hostname node carries no route, its key consists of host tokens, and each
   child is either the "/"-subtree (the path part) or again a hostname node *)
Fixpoint hostb (n : node) : bool :=
  match n with
  | Node k r ch =>
      match r with None => true | Some _ => false end
      && forallb htok_ok (tokenize k)
      && forallb (fun c => starts_with "/" (nkey c) || hostb c) ch
  end.

Lemma hostb_inv k r ch : hostb (Node k r ch) = true ->
  r = None /\ forallb htok_ok (tokenize k) = true /\
  forall c, In c ch -> starts_with "/" (nkey c) = true \/ hostb c = true.
Proof.
  cbn [hostb]. intros H. apply andb_prop in H. destruct H as [H H3]. apply andb_prop in H. destruct H as [H1 H2].
  split; [destruct r; [discriminate|reflexivity]|]. split; [exact H2|].
  intros c Hc. rewrite forallb_forall in H3. specialize (H3 c Hc). apply orb_prop in H3. exact H3.
Qed.

(* matching the tokens of one host key against the rest of the host *)
Section KH.
  Variable K : bytes -> mres.
  Fixpoint kh (kt : list token) (h : bytes) : mres :=
    match kt with
    | [] => K h
    | t :: kt' =>
      match h with
      | [] => None
      | c :: h' =>
        match t with
        | TStatic d => if Ascii.eqb d c && sbyte c then kh kt' h' else None
        | TParam nm =>
            match seg is_dot h with
            | [] => None
            | v => with_vals [(nm, v)] (kh kt' (skipn (List.length v) h))
            end
        | TCatch _ => None
        end
      end
    end.
End KH.

Lemma kh_ext K K' : (forall q, K q = K' q) -> forall kt h, kh K kt h = kh K' kt h.
Proof.
  intros HK. induction kt as [|t kt IH]; intros h; cbn [kh]; auto.
  destruct h as [|c h']; auto. destruct t as [d|nm|nm]; auto.
  - destruct (Ascii.eqb d c && sbyte c); auto.
  - destruct (seg is_dot (c :: h')); auto. rewrite IH. reflexivity.
Qed.

(* M2h: p = the request path (fixed), h = the rest of the host.  When the host is consumed
   exactly at the end of a key, the path is matched by M2 (StaticEquiv2) below the "/" child. *)
Fixpoint m2h (p : bytes) (n : node) (h : bytes) : mres :=
  match n with
  | Node k r ch =>
    let try := fix go (cc : ascii) (l : list node) (q : bytes) {struct l} : mres :=
                 match l with
                 | [] => None
                 | x :: l' => if starts_with cc (nkey x) then m2h p x q else go cc l' q
                 end in
    let K := fun rest =>
               match rest with
               | [] => match first_child "/" ch with Some c => m2 c p | None => None end
               | c :: _ => alt (try c ch rest) (try "{" ch rest)
               end in
    kh K (tokenize k) h
  end.

Definition m2h_child (p : bytes) (cc : ascii) (ch : list node) (h : bytes) : mres :=
  match first_child cc ch with Some x => m2h p x h | None => None end.

Definition Khof (p : bytes) (n : node) (rest : bytes) : mres :=
  match rest with
  | [] => match first_child "/" (nchildren n) with Some c => m2 c p | None => None end
  | c :: _ => alt (m2h_child p c (nchildren n) rest) (m2h_child p "{" (nchildren n) rest)
  end.

Lemma m2h_eq p k r ch h : m2h p (Node k r ch) h = kh (Khof p (Node k r ch)) (tokenize k) h.
Proof.
  cbn [m2h]. apply kh_ext. intros q. unfold Khof. cbn [nchildren]. destruct q as [|c q']; auto.
  assert (forall cc, (fix go (cc : ascii) (l : list node) (q : bytes) {struct l} : mres :=
                        match l with
                        | [] => None
                        | x :: l' => if starts_with cc (nkey x) then m2h p x q else go cc l' q
                        end) cc ch (c :: q') = m2h_child p cc ch (c :: q')) as H.
  { intros cc. unfold m2h_child. induction ch as [|x ch IH]; simpl; auto. destruct (starts_with cc (nkey x)); auto. }
  rewrite !H. reflexivity.
Qed.

Lemma m2h_kh p x h : m2h p x h = kh (Khof p x) (tokenize (nkey x)) h.
Proof. destruct x as [k r ch]. apply m2h_eq. Qed.

(* the hostname pass from the method root *)
Definition m2h_root (p : bytes) (root : node) (h : bytes) : mres :=
  match h with
  | [] => None
  | c :: _ => alt (m2h_child p c (nchildren root) h) (m2h_child p "{" (nchildren root) h)
  end.

(* ---- fuel ---- *)
Definition hkcost (Csel : nat) (kt : list token) : nat := 6 * List.length kt + Csel + 4.

Fixpoint hcost (L : nat) (n : node) : nat :=
  match n with
  | Node k r ch =>
      6 + hkcost (3 * (fix sum (l : list node) : nat :=
                         match l with [] => 0 | x :: l' => S (hcost L x) + sum l' end) ch
                  + (fix pc (l : list node) : nat :=
                       match l with [] => 0 | x :: l' => ncost L x + pc l' end) ch + 24) (tokenize k)
  end.
Fixpoint hcost_sum (L : nat) (l : list node) : nat :=
  match l with [] => 0 | x :: l' => S (hcost L x) + hcost_sum L l' end.
Fixpoint pcost_sum (L : nat) (l : list node) : nat :=
  match l with [] => 0 | x :: l' => ncost L x + pcost_sum L l' end.
Definition hsel_cost (L : nat) (ch : list node) : nat := 3 * hcost_sum L ch + pcost_sum L ch + 24.

Lemma hcost_eq L k r ch : hcost L (Node k r ch) = 6 + hkcost (hsel_cost L ch) (tokenize k).
Proof.
  cbn [hcost]. unfold hsel_cost.
  assert ((fix sum (l : list node) : nat := match l with [] => 0 | x :: l' => S (hcost L x) + sum l' end) ch = hcost_sum L ch) as ->
    by (induction ch as [|x ch IH]; simpl; auto).
  assert ((fix pc (l : list node) : nat := match l with [] => 0 | x :: l' => ncost L x + pc l' end) ch = pcost_sum L ch) as ->
    by (induction ch as [|x ch IH]; simpl; auto).
  reflexivity.
Qed.
Lemma hcost_in L x ch : In x ch -> S (hcost L x) <= hcost_sum L ch.
Proof. induction ch as [|y ch IH]; simpl; [tauto|]. intros [->|H]; [lia|]. apply IH in H. lia. Qed.
Lemma pcost_in L x ch : In x ch -> ncost L x <= pcost_sum L ch.
Proof. induction ch as [|y ch IH]; simpl; [tauto|]. intros [->|H]; [lia|]. apply IH in H. lia. Qed.

(* the path lookup below a "/" child, for any accumulated prefix (StaticEquiv2.lbp_eq_m2 is stated for
   pre = []; same proof) *)
Theorem lbp_eq_m2_pre pre t path lazy fuel : pwf pre t -> m2_fuel path t <= fuel ->
  match m2 t path with
  | Some (l, vals) => found_as (lookup_by_path fuel t path lazy [] []) l (addp lazy [] vals)
  | None => nodirect2 (lookup_by_path fuel t path lazy [] [])
  end.
Proof.
  intros Hwf Hf. unfold lookup_by_path, m2_fuel in *.
  destruct path as [|c path].
  - destruct t as [k r ch]. pose proof (pwf_inv _ _ _ _ Hwf) as (kt & Hne & Hk & Hok & _).
    rewrite (m2_nil_path k r ch kt Hk Hne (kt_ok_tok _ _ Hok)).
    destruct fuel as [|[|[|f]]]; try lia.
    rewrite walk_ge by (simpl; lia).
    set (s := init_st (Node k r ch) [] []).
    destruct (after_fail (S f) [] lazy s) as (s' & -> & Hc & Ht' & _).
    + apply cmn_lt_nofound. change (cmn s) with 0. change (nkey (cur s)) with k. rewrite Hk.
      destruct kt as [|t kt]; [congruence|]. rewrite render_cons_len. pose proof (render_tok_len_pos t). lia.
    + unfold tinv; simpl; auto.
    + destruct Hc as (_ & _ & _ & _ & Hs & _). rewrite back_nil by (rewrite Hs; reflexivity).
      do 4 eexists. split; [reflexivity|exact Ht'].
  - pose proof (walk_m2 (List.length (c :: path)) t pre Hwf lazy (c :: path) fuel (init_st t [] []) (Nat.le_refl _) eq_refl) as H.
    simpl cm in H. simpl skipn in H.
    specialize (H ltac:(simpl; lia) eq_refl eq_refl ltac:(unfold tinv; simpl; auto) ltac:(lia)).
    destruct (m2 t (c :: path)) as [[l vals]|]; [exact H|].
    destruct H as (f' & s' & -> & Hf' & Hs & _ & Ht' & _). simpl in Hs.
    destruct f' as [|f']; [lia|]. rewrite back_nil by exact Hs.
    do 4 eexists. split; [reflexivity|exact Ht'].
Qed.

Lemma index_byte_seg_dot : forall p,
  match index_byte p "." with
  | Some d => seg is_dot p = firstn d p /\ d < List.length p /\ List.length (seg is_dot p) = d
  | None => seg is_dot p = p
  end.
Proof.
  induction p as [|x p IH]; simpl; auto.
  assert (is_dot x = Ascii.eqb x ".") as Hx by reflexivity. rewrite Hx.
  destruct (Ascii.eqb x "."); simpl.
  - repeat split. lia.
  - destruct (index_byte p ".") as [d|]; simpl.
    + destruct IH as (H1 & H2 & H3). rewrite H1 at 1. repeat split; auto. lia.
    + rewrite IH. reflexivity.
Qed.

Section HostWalk.
  Variables host path : bytes.
  Let L := List.length path.
  Hypothesis Hnoslash : forall c, In c host -> c <> "/".

  (* the run reaches Backtrack without having produced a result *)
  Definition dbacks (lazy : bool) (fuel : nat) (ph : dphase) (s : st) (cost : nat) : Prop :=
    exists fuel' s', lbd fuel host path lazy ph s = lbd fuel' host path lazy DBack s' /\ fuel <= fuel' + cost /\
                     sks s' = sks s /\ extends (ps s) (ps s') /\ tinv s' /\ pkc s' = 0.

  Lemma dbacks_step lazy fuel ph s cost fuel1 ph1 s1 cost1 k :
    lbd fuel host path lazy ph s = lbd fuel1 host path lazy ph1 s1 ->
    dbacks lazy fuel1 ph1 s1 cost1 ->
    sks s1 = sks s -> extends (ps s) (ps s1) -> fuel <= fuel1 + k -> cost1 + k <= cost ->
    dbacks lazy fuel ph s cost.
  Proof.
    intros He (fuel' & s' & He' & Hf & Hs & Hx & Ht & Hk) Hs1 Hx1 Hf1 Hc.
    exists fuel', s'. repeat split; auto; try congruence; try lia. eapply extends_trans; eauto.
  Qed.

  Lemma dfound_step lazy fuel ph s l v0 vals1 fuel1 ph1 s1 :
    lbd fuel host path lazy ph s = lbd fuel1 host path lazy ph1 s1 ->
    found_as (lbd fuel1 host path lazy ph1 s1) l (addp lazy (ps s1) vals1) ->
    ps s1 = addp lazy (ps s) v0 ->
    found_as (lbd fuel host path lazy ph s) l (addp lazy (ps s) (v0 ++ vals1)).
  Proof.
    intros He (l' & tps' & Hf & Hr) Hps. exists l', tps'. rewrite He, Hf, Hps, addp_addp. auto.
  Qed.

  Lemma dbacks_after lazy fuel s cost :
    Nat.eqb (cm s) (List.length host) && Nat.eqb (cmn s) (List.length (nkey (cur s))) = false ->
    tinv s -> 1 <= fuel -> 1 <= cost -> dbacks lazy fuel DAfter s cost.
  Proof.
    intros Hno Ht Hf Hc. destruct fuel as [|f]; [lia|].
    exists f, (zero_cnt s). rewrite (dafter_fail f host path lazy s Hno).
    repeat split; auto; try lia. apply extends_refl.
  Qed.

  Definition hwalk_ok (y : node) : Prop :=
    forall lazy fuel s,
    cur s = y -> cm s < List.length host -> pkc s = 0 -> pcnt s = List.length (ps s) -> tinv s ->
    hcost L y <= fuel ->
    match m2h path y (skipn (cm s) host) with
    | Some (l, vals) => found_as (lbd fuel host path lazy DWalk s) l (addp lazy (ps s) vals)
    | None => dbacks lazy fuel DWalk s (hcost L y)
    end.

  Fixpoint es_hcost (es : list (nat * node)) : nat :=
    match es with [] => 0 | e :: r => S (hcost L (snd e)) + es_hcost r end.

  Lemma halts_first_some c ch q :
    alt (m2h_child path c ch q) (m2h_child path "{" ch q) =
    first_some (map (fun x => m2h path x q) (halts c ch)).
  Proof.
    unfold m2h_child, halts.
    destruct (first_child c ch), (first_child "{" ch); simpl; rewrite ?alt_none_r; reflexivity.
  Qed.

  (* Backtrack through the remaining alternatives of one node *)
  Lemma dpop_alts lazy parent cmv ps0 sks0 : forall es fuel s2,
    sks s2 = map (fun e => {| sk_n := parent; sk_path := cmv; sk_pcnt := List.length ps0; sk_child := fst e |}) es ++ sks0 ->
    (forall e, In e es -> nth_error (nchildren parent) (fst e) = Some (snd e) /\ hwalk_ok (snd e)) ->
    extends ps0 (ps s2) -> tinv s2 -> pkc s2 = 0 -> cmv < List.length host -> es_hcost es <= fuel ->
    match first_some (map (fun e => m2h path (snd e) (skipn cmv host)) es) with
    | Some (l, v2) => found_as (lbd fuel host path lazy DBack s2) l (addp lazy ps0 v2)
    | None => exists fuel' s3, lbd fuel host path lazy DBack s2 = lbd fuel' host path lazy DBack s3 /\
                fuel <= fuel' + es_hcost es /\ sks s3 = sks0 /\ extends ps0 (ps s3) /\ tinv s3 /\ pkc s3 = 0
    end.
  Proof.
    induction es as [|e es IH]; intros fuel s2 Hsk Hes Hx Ht Hk Hcm Hf.
    - simpl. exists fuel, s2. simpl in Hsk. repeat split; auto. simpl; lia.
    - cbn [map first_some es_hcost] in *.
      destruct (Hes e (or_introl eq_refl)) as [Hnth Hwalk].
      destruct fuel as [|f]; [lia|].
      set (sk := {| sk_n := parent; sk_path := cmv; sk_pcnt := List.length ps0; sk_child := fst e |}) in *.
      set (rest := map (fun e0 => {| sk_n := parent; sk_path := cmv; sk_pcnt := List.length ps0; sk_child := fst e0 |}) es ++ sks0) in *.
      assert (Hpop : lbd (S f) host path lazy DBack s2 = lbd f host path lazy DWalk (dpopped s2 sk rest (snd e))).
      { apply dback_pop; auto. simpl. apply extends_len. exact Hx. }
      set (s3 := dpopped s2 sk rest (snd e)) in *.
      assert (Hps3 : ps s3 = ps0) by exact Hx.
      pose proof (Hwalk lazy f s3 eq_refl Hcm Hk) as Hw. rewrite Hps3 in Hw.
      specialize (Hw eq_refl Ht ltac:(lia)). change (cm s3) with cmv in Hw.
      destruct (m2h path (snd e) (skipn cmv host)) as [[l v2]|].
      + cbn [alt]. destruct Hw as (l' & tps' & E & Er). exists l', tps'. rewrite Hpop, E. auto.
      + cbn [alt]. destruct Hw as (f4 & s4 & He4 & Hf4 & Hsk4 & Hx4 & Ht4 & Hk4).
        change (sks s3) with rest in Hsk4. rewrite Hps3 in Hx4.
        specialize (IH f4 s4 Hsk4 (fun e0 H0 => Hes e0 (or_intror H0)) Hx4 Ht4 Hk4 Hcm ltac:(lia)).
        destruct (first_some (map (fun e0 => m2h path (snd e0) (skipn cmv host)) es)) as [[l v2]|].
        * destruct IH as (l' & tps' & E & Er). exists l', tps'. rewrite Hpop, He4, E. auto.
        * destruct IH as (f5 & s5 & He5 & Hf5 & Hsk5 & Hx5 & Ht5 & Hk5).
          exists f5, s5. split; [rewrite Hpop, He4; exact He5|]. repeat split; auto. lia.
  Qed.

  Lemma es_hcost_le ch : forall es, (forall e, In e es -> In (snd e) ch) ->
    List.length es <= 2 -> es_hcost es <= 2 * hcost_sum L ch.
  Proof.
    intros es Hin Hlen.
    assert (forall e, In e es -> S (hcost L (snd e)) <= hcost_sum L ch) as H by (intros e He; apply hcost_in; auto).
    destruct es as [|e1 [|e2 [|e3 es]]]; simpl in *; try lia.
    - pose proof (H e1 (or_introl eq_refl)). lia.
    - pose proof (H e1 (or_introl eq_refl)). pose proof (H e2 (or_intror (or_introl eq_refl))). lia.
  Qed.

  Lemma halts_len c ch : List.length (halts c ch) <= 2.
  Proof. unfold halts. destruct (first_child c ch), (first_child "{" ch); simpl; lia. Qed.

  (* the alternatives at a host byte other than '/' are hostname children *)
  Lemma halts_host c ch x : c <> "/" -> In x (halts c ch) -> In x ch /\ starts_with "/" (nkey x) = false.
  Proof.
    intros Hc Hin. unfold halts in Hin. apply in_app_or in Hin.
    assert (forall cc, cc <> "/" -> In x (optl (first_child cc ch)) -> In x ch /\ starts_with "/" (nkey x) = false) as H.
    { intros cc Hcc Hi. destruct (first_child cc ch) as [y|] eqn:E; simpl in Hi; [|tauto]. destruct Hi as [<-|[]].
      apply first_child_in in E. destruct E as [E1 E2]. split; auto.
      apply starts_with_hd in E2. destruct (starts_with "/" (nkey y)) eqn:E3; auto.
      apply starts_with_hd in E3. congruence. }
    destruct Hin as [Hin|Hin]; [apply (H c Hc Hin)|apply (H "{" ltac:(discriminate) Hin)].
  Qed.

  (* what happens at DSelect once the key of the current node has been consumed *)
  Definition hsel_ok (n : node) (Csel : nat) : Prop :=
    forall lazy fuel s',
    cur s' = n -> cmn s' = List.length (nkey n) -> cm s' <= List.length host ->
    pcnt s' = List.length (ps s') -> tinv s' -> Csel <= fuel ->
    match Khof path n (skipn (cm s') host) with
    | Some (l, v2) => found_as (lbd fuel host path lazy DSelect s') l (addp lazy (ps s') v2)
    | None => dbacks lazy fuel DSelect s' Csel
    end.

  Lemma addp_path (lazy : bool) (pss vals : list kv) : (if lazy then pss else pss ++ addp lazy [] vals) = addp lazy pss vals.
  Proof. destruct lazy; reflexivity. Qed.

  Lemma hsel_ok_node n pre :
    NoDup (heads (nchildren n)) -> Forall (pwf pre) (nchildren n) ->
    (forall x, In x (nchildren n) -> starts_with "/" (nkey x) = false -> hwalk_ok x) ->
    hsel_ok n (hsel_cost L (nchildren n)).
  Proof.
    intros Hnd Hpw Hwalk lazy f2 s' Hcur Hcmn' Hcm' Hpc' Ht' Hf2.
    set (ch := nchildren n) in *. unfold hsel_cost in *. fold ch in Hf2.
    rewrite Forall_forall in Hpw.
    destruct (skipn (cm s') host) as [|c rest'] eqn:Hrest.
    - (* the host ends with this key: the path below the "/" child *)
      apply skipn_nil_len in Hrest. cbn [Khof]. fold ch.
      assert (Hcmeq : cm s' = List.length host) by lia.
      destruct f2 as [|[|[|f4]]]; try lia.
      pose proof (dselect_ge (S f4) host path lazy s' Hrest) as Hsel.
      destruct (first_child "/" ch) as [c0|] eqn:Ec0.
      + pose proof (first_child_in _ _ _ Ec0) as [Hin0 _].
        assert (Hfc : first_child "/" (nchildren (cur s')) = Some c0) by (rewrite Hcur; exact Ec0).
        pose proof (dafter_path f4 host path lazy s' c0 Hcmeq ltac:(rewrite Hcur; exact Hcmn') Hfc) as Haft.
        pose proof (lbp_eq_m2_pre pre c0 path lazy f4 (Hpw c0 Hin0)) as Hlbp.
        assert (Hfu : m2_fuel path c0 <= f4).
        { unfold m2_fuel. fold L. pose proof (pcost_in L c0 ch Hin0). lia. }
        specialize (Hlbp Hfu).
        destruct (m2 c0 path) as [[l vals]|].
        * destruct Hlbp as (l' & tps' & E & Er). exists l', (tps s').
          rewrite Hsel, Haft, E, addp_path. auto.
        * destruct Hlbp as (tn' & tsr' & ps' & tps' & E & Hi).
          rewrite E in Haft.
          destruct tn' as [sn|].
          -- destruct tsr'; [|specialize (Hi eq_refl); discriminate].
             exists f4, (if tsr s' then zero_cnt s' else set_tsr lazy (zero_cnt s') sn (ps s' ++ tps')).
             split; [rewrite Hsel; exact Haft|].
             destruct (tsr s') eqn:Ets; repeat split; auto; try lia; try apply extends_refl;
               try apply set_tsr_tinv; try (unfold tinv; simpl; rewrite Ets; discriminate).
          -- exists f4, (zero_cnt s'). split; [rewrite Hsel; exact Haft|].
             repeat split; auto; try lia. apply extends_refl.
      + exists f4, (zero_cnt s'). split.
        * rewrite Hsel. apply dafter_noslash. rewrite Hcur. exact Ec0.
        * repeat split; auto; try lia. apply extends_refl.
    - (* the host continues: children, in the order static, parameter *)
      pose proof (skipn_cons_nth _ _ _ _ Hrest) as (Hnc & _ & Hlt').
      assert (Hcs : c <> "/") by (apply Hnoslash; eapply nth_error_In; eauto).
      cbn [Khof]. fold ch.
      destruct f2 as [|f3]; [lia|].
      destruct (dselect_alts f3 host path lazy s' c Hlt' Hnc) as (es & Hmap & Hnth & Hsel).
      { rewrite Hcur. exact Hnd. }
      rewrite Hcur in Hmap, Hnth. fold ch in Hmap, Hnth.
      rewrite halts_first_some, <- Hmap, map_map.
      assert (Hes : forall e, In e es -> nth_error (nchildren n) (fst e) = Some (snd e) /\ hwalk_ok (snd e)).
      { intros e He0. pose proof (Hnth e He0) as Hn. split; [exact Hn|].
        assert (In (snd e) (halts c ch)) as Hh by (rewrite <- Hmap; apply in_map; exact He0).
        destruct (halts_host c ch (snd e) Hcs Hh) as [Hi1 Hi2]. apply Hwalk; auto. }
      assert (Hescost : es_hcost es <= 2 * hcost_sum L ch).
      { apply es_hcost_le.
        - intros e He0. eapply nth_error_In. apply Hnth; exact He0.
        - rewrite <- (map_length snd), Hmap. apply halts_len. }
      destruct es as [|e1 rest].
      + cbn [map first_some].
        eapply (dbacks_step lazy (S f3) DSelect s' _ f3 DAfter s' 1 2).
        * exact Hsel.
        * apply dbacks_after; auto; try lia.
          replace (Nat.eqb (cm s') (List.length host)) with false by (symmetry; apply Nat.eqb_neq; lia). reflexivity.
        * reflexivity.
        * apply extends_refl.
        * lia.
        * lia.
      + cbn [map first_some].
        set (sd := dgo (dpush_all s' (cur s') (map fst rest)) (snd e1)) in *.
        destruct (dpush_all_core s' (cur s') (map fst rest)) as (Hq1 & Hq3 & Hq4 & Hq5 & Hq6 & Hq7 & Hq8 & Hq9).
        destruct (Hes e1 (or_introl eq_refl)) as [_ Hwalk1].
        cbn [es_hcost] in Hescost.
        pose proof (Hwalk1 lazy f3 sd eq_refl) as H1.
        change (cm sd) with (cm (dpush_all s' (cur s') (map fst rest))) in H1.
        change (ps sd) with (ps (dpush_all s' (cur s') (map fst rest))) in H1.
        change (pcnt sd) with (pcnt (dpush_all s' (cur s') (map fst rest))) in H1.
        rewrite Hq3, Hq5, Hq7 in H1.
        assert (Htd : tinv sd).
        { unfold tinv. change (tsr sd) with (tsr (dpush_all s' (cur s') (map fst rest))).
          change (tn sd) with (tn (dpush_all s' (cur s') (map fst rest))). rewrite Hq8, Hq9. exact Ht'. }
        specialize (H1 Hlt' eq_refl Hpc' Htd ltac:(lia)). rewrite Hrest in H1.
        destruct (m2h path (snd e1) (c :: rest')) as [[l v2]|].
        * cbn [alt]. destruct H1 as (l' & tps' & E & Er). exists l', tps'. rewrite Hsel, E. auto.
        * cbn [alt].
          destruct H1 as (f4 & s2 & He2 & Hf4 & Hsk2 & Hx2 & Ht2 & Hk2).
          change (sks sd) with (sks (dpush_all s' (cur s') (map fst rest))) in Hsk2. rewrite dpush_all_sks in Hsk2.
          change (ps sd) with (ps (dpush_all s' (cur s') (map fst rest))) in Hx2. rewrite Hq7 in Hx2.
          pose proof (dpop_alts lazy (cur s') (cm s') (ps s') (sks s') rest f4 s2) as Hpop.
          assert (Hsk2' : sks s2 = map (fun e => {| sk_n := cur s'; sk_path := cm s'; sk_pcnt := List.length (ps s');
                                                     sk_child := fst e |}) rest ++ sks s').
          { rewrite Hsk2, map_map. unfold dentry. rewrite Hpc'. reflexivity. }
          specialize (Hpop Hsk2').
          assert (Hes' : forall e0, In e0 rest -> nth_error (nchildren (cur s')) (fst e0) = Some (snd e0) /\ hwalk_ok (snd e0)).
          { intros e0 H0. rewrite Hcur. apply Hes. right. exact H0. }
          specialize (Hpop Hes' Hx2 Ht2 Hk2 ltac:(lia) ltac:(lia)).
          rewrite Hrest in Hpop.
          destruct (first_some (map (fun e => m2h path (snd e) (c :: rest')) rest)) as [[l v2]|].
          -- destruct Hpop as (l' & tps' & E & Er). exists l', tps'. rewrite Hsel, He2, E. auto.
          -- destruct Hpop as (f5 & s5 & He5 & Hf5 & Hsk5 & Hx5 & Ht5 & Hk5).
             exists f5, s5. split; [rewrite Hsel, He2; exact He5|].
             repeat split; auto; try congruence; try lia.
  Qed.

  Lemma cm_lt_nodone s : cm s < List.length host ->
    Nat.eqb (cm s) (List.length host) && Nat.eqb (cmn s) (List.length (nkey (cur s))) = false.
  Proof. intros H. replace (Nat.eqb (cm s) (List.length host)) with false by (symmetry; apply Nat.eqb_neq; lia). reflexivity. Qed.

  Lemma cmn_lt_nodone s : cmn s < List.length (nkey (cur s)) ->
    Nat.eqb (cm s) (List.length host) && Nat.eqb (cmn s) (List.length (nkey (cur s))) = false.
  Proof.
    intros H. replace (Nat.eqb (cmn s) (List.length (nkey (cur s)))) with false by (symmetry; apply Nat.eqb_neq; lia).
    apply andb_false_r.
  Qed.

  Lemma hkey_walk n Csel : hsel_ok n Csel ->
    forall kt done lazy s fuel,
      cur s = n -> nkey n = render (done ++ kt) ->
      forallb ptok_ok done = true -> forallb htok_ok kt = true ->
      cmn s = List.length (render done) -> pkc s = cnt_wild done -> pcnt s = List.length (ps s) -> tinv s ->
      cm s <= List.length host -> hkcost Csel kt <= fuel ->
      match kh (Khof path n) kt (skipn (cm s) host) with
      | Some (l, vals) => found_as (lbd fuel host path lazy (DInner (cmn s)) s) l (addp lazy (ps s) vals)
      | None => dbacks lazy fuel (DInner (cmn s)) s (hkcost Csel kt)
      end.
  Proof.
    intros Hsel. induction kt as [|t kt IH]; intros done lazy s fuel Hcur Hk Hokd Hokt Hcmn Hpkc Hpc Ht Hcm Hf.
    - (* key consumed *)
      cbn [kh]. unfold hkcost in *. destruct fuel as [|f]; [simpl in Hf; lia|].
      assert (Hex : lbd (S f) host path lazy (DInner (cmn s)) s = lbd f host path lazy DSelect s).
      { apply dinner_exit. right. rewrite Hcur, Hk, app_nil_r, Hcmn. lia. }
      pose proof (Hsel lazy f s Hcur) as Hs.
      specialize (Hs ltac:(rewrite Hk, app_nil_r; exact Hcmn) Hcm Hpc Ht ltac:(simpl in Hf; lia)).
      destruct (Khof path n (skipn (cm s) host)) as [[l v2]|].
      + destruct Hs as (l' & tps' & E & Er). exists l', tps'. rewrite Hex, E. auto.
      + eapply (dbacks_step lazy (S f) _ s _ f DSelect s Csel 1); fin.
    - assert (Hklen : List.length (nkey (cur s)) = List.length (render done) + List.length (render (t :: kt)))
        by (rewrite Hcur, Hk, render_app, app_length; reflexivity).
      pose proof (render_cons_len t kt) as Hrl. pose proof (render_tok_len_pos t) as Htl.
      assert (Hk6 : hkcost Csel (t :: kt) = 6 + hkcost Csel kt) by (unfold hkcost; simpl; lia).
      cbn [forallb] in Hokt. apply andb_prop in Hokt. destruct Hokt as [Hokt1 Hokt2].
      destruct (skipn (cm s) host) as [|c p'] eqn:Ep.
      + (* host exhausted inside the key *)
        cbn [kh]. apply skipn_nil_len in Ep.
        destruct fuel as [|[|[|f]]]; try lia.
        eapply dbacks_step with (k := 3) (cost1 := 1).
        * rewrite dinner_exit by (left; exact Ep). rewrite dselect_ge by exact Ep. reflexivity.
        * apply dbacks_after; auto; try lia. apply cmn_lt_nodone. lia.
        * reflexivity.
        * apply extends_refl.
        * lia.
        * lia.
      + pose proof (skipn_cons_nth _ _ _ _ Ep) as (Hpc0 & Hp' & Hlt).
        assert (Hkey : nth_error (nkey (cur s)) (cmn s) = hd_error (render (t :: kt))).
        { rewrite Hcur, Hk, render_app, Hcmn. apply nth_error_app_len. }
        assert (Hptk : forallb ptok_ok kt = true) by (apply forallb_htok_ptok; exact Hokt2).
        assert (Htokall : forallb tok_ok (done ++ t :: kt) = true).
        { rewrite forallb_app, (forallb_ptok_tok _ Hokd). cbn [forallb andb].
          rewrite (ptok_tok _ (htok_ptok _ Hokt1)). apply forallb_ptok_tok. exact Hptk. }
        assert (Hkc : nkey (cur s) = render (done ++ t :: kt)) by (rewrite Hcur; exact Hk).
        destruct t as [d|nm|nm]; [| |discriminate].
        * (* static byte *)
          simpl in Hkey. cbn [kh].
          assert (Hsd : sbyte d = true) by (simpl in Hokt1; apply andb_prop in Hokt1; tauto).
          destruct fuel as [|f]; [lia|].
          pose proof (dinner_static_step f host path lazy (cmn s) s d c Hkey Hpc0 Hsd) as Hstep.
          destruct (Ascii.eqb d c && sbyte c) eqn:E.
          -- assert (Hr1 : List.length (render (done ++ [TStatic d])) = S (List.length (render done)))
               by (rewrite render_app, app_length; simpl; lia).
             assert (Hcw : cnt_wild (done ++ [TStatic d]) = cnt_wild done).
             { unfold cnt_wild. rewrite filter_app, app_length. simpl. lia. }
             assert (IH' := IH (done ++ [TStatic d]) lazy (adv s 1) f).
             rewrite <- app_assoc in IH'. simpl app in IH'.
             assert (Hd1 : forallb ptok_ok (done ++ [TStatic d]) = true)
               by (rewrite forallb_app, Hokd; simpl; rewrite Hsd; reflexivity).
             specialize (IH' Hcur Hk Hd1 Hokt2).
             specialize (IH' ltac:(change (cmn (adv s 1)) with (S (cmn s)); rewrite Hr1; lia)
                             ltac:(change (pkc (adv s 1)) with (pkc s); rewrite Hcw; exact Hpkc) Hpc Ht
                             ltac:(change (cm (adv s 1)) with (S (cm s)); lia) ltac:(lia)).
             change (cm (adv s 1)) with (S (cm s)) in IH'. rewrite Hp' in IH'.
             change (cmn (adv s 1)) with (S (cmn s)) in IH'.
             destruct (kh (Khof path n) kt p') as [[l vals]|].
             ++ replace vals with ([] ++ vals) by reflexivity.
                eapply (dfound_step lazy (S f) _ s _ [] vals f _ (adv s 1)); fin.
             ++ eapply (dbacks_step lazy (S f) _ s _ f _ (adv s 1) _ 1); fin.
          -- eapply (dbacks_step lazy (S f) _ s _ f DAfter s 1 1); fin.
             apply dbacks_after; auto; try lia. apply cm_lt_nodone. exact Hlt.
        * (* named parameter *)
          simpl in Hkey.
          destruct (param_info s done nm kt Hkc) as (prm & Hprm & Hpk & Hadv); auto.
          destruct fuel as [|f]; [lia|].
          pose proof (dinner_param_step f host path lazy (cmn s) s c prm Hkey Hpc0 Hprm) as Hstep.
          rewrite Hadv, Hpk, Ep in Hstep.
          pose proof (index_byte_seg_dot (c :: p')) as Hseg.
          cbn [kh].
          assert (Hgen : forall cm', cm' = cm s + List.length (seg is_dot (c :: p')) ->
                    seg is_dot (c :: p') <> [] ->
                    List.length (seg is_dot (c :: p')) <= List.length (c :: p') ->
                    slice host (cm s) cm' = seg is_dot (c :: p') ->
                    lbd (S f) host path lazy (DInner (cmn s)) s =
                    lbd f host path lazy (DInner (cmn s + (List.length nm + 2)))
                      (pstate lazy s cm' (List.length nm + 2) nm (slice host (cm s) cm')) ->
                    match match seg is_dot (c :: p') with
                          | [] => None
                          | a :: l => with_vals [(nm, a :: l)] (kh (Khof path n) kt (skipn (List.length (a :: l)) (c :: p')))
                          end with
                    | Some (l, vals) => found_as (lbd (S f) host path lazy (DInner (cmn s)) s) l (addp lazy (ps s) vals)
                    | None => dbacks lazy (S f) (DInner (cmn s)) s (hkcost Csel (TParam nm :: kt))
                    end).
          { intros cm' Hcm' Hvne Hvlen Hslice Hst. clear Hseg.
            destruct (seg is_dot (c :: p')) as [|v0 vv] eqn:Ev; [congruence|]. set (v := v0 :: vv) in *.
            rewrite Hslice in Hst. set (s1 := pstate lazy s cm' (List.length nm + 2) nm v) in *.
            assert (Hr1 : List.length (render (done ++ [TParam nm])) = List.length (render done) + (List.length nm + 2)).
            { rewrite render_app, app_length. f_equal. change (render [TParam nm]) with (("{" :: nm ++ ["}"]) ++ []).
              rewrite app_nil_r. cbn [List.length]. rewrite app_length. simpl. lia. }
            assert (Hcw : cnt_wild (done ++ [TParam nm]) = S (cnt_wild done)).
            { unfold cnt_wild. rewrite filter_app, app_length. simpl. lia. }
            assert (Hlenp : List.length (c :: p') = List.length host - cm s) by (rewrite <- Ep; apply skipn_length).
            assert (IH' := IH (done ++ [TParam nm]) lazy s1 f).
            rewrite <- app_assoc in IH'. simpl app in IH'.
            assert (Hd1 : forallb ptok_ok (done ++ [TParam nm]) = true)
              by (rewrite forallb_app, Hokd; cbn [forallb]; rewrite (htok_ptok _ Hokt1); reflexivity).
            specialize (IH' Hcur Hk Hd1 Hokt2).
            specialize (IH' ltac:(change (cmn s1) with (cmn s + (List.length nm + 2)); rewrite Hr1; lia)
                            ltac:(change (pkc s1) with (S (pkc s)); rewrite Hcw, Hpkc; reflexivity)).
            assert (Hpc1 : pcnt s1 = List.length (ps s1)).
            { unfold s1, pstate; cbn [pcnt ps]. destruct lazy; auto. rewrite app_length. simpl. lia. }
            specialize (IH' Hpc1 Ht ltac:(change (cm s1) with cm'; lia) ltac:(lia)).
            change (cm s1) with cm' in IH'.
            assert (Hsk : skipn cm' host = skipn (List.length v) (c :: p')).
            { rewrite <- Ep, skipn_skipn'. f_equal. lia. }
            rewrite Hsk in IH'.
            assert (Hx : extends (ps s) (ps s1)).
            { unfold s1, pstate; cbn [ps]. destruct lazy; [apply extends_refl|].
              unfold extends. rewrite firstn_app, Nat.sub_diag, firstn_all. simpl. apply app_nil_r. }
            destruct (kh (Khof path n) kt (skipn (List.length v) (c :: p'))) as [[l vals]|]; cbn [with_vals].
            - eapply (dfound_step lazy (S f) _ s _ [(nm, v)] vals f _ s1); fin.
            - eapply (dbacks_step lazy (S f) _ s _ f _ s1 _ 1); fin. }
          destruct (index_byte (c :: p') ".") as [[|dd]|] eqn:Eidx.
          -- (* empty label *)
             destruct Hseg as (Hs1 & _ & _). rewrite Hs1. cbn [firstn].
             eapply (dbacks_step lazy (S f) _ s _ f DAfter s 1 1); fin.
             apply dbacks_after; auto; try lia. apply cm_lt_nodone. exact Hlt.
          -- destruct Hseg as (Hs1 & Hs2 & Hs3). cbv zeta in Hstep.
             apply (Hgen (cm s + S dd)); auto.
             ++ rewrite Hs1. simpl. discriminate.
             ++ lia.
             ++ unfold slice. rewrite Ep, Hs1. f_equal. lia.
          -- cbv zeta in Hstep.
             assert (Hlenp : List.length (c :: p') = List.length host - cm s) by (rewrite <- Ep; apply skipn_length).
             apply (Hgen (List.length host)); auto.
             ++ rewrite Hseg, Hlenp. lia.
             ++ rewrite Hseg. discriminate.
             ++ rewrite Hseg. lia.
             ++ unfold slice. rewrite Ep, Hseg, <- Hlenp. apply firstn_all.
  Qed.

  Lemma hwalk_m2h : forall n pre, pwf pre n -> hostb n = true -> hwalk_ok n.
  Proof.
    induction n as [k r ch IH] using node_ind'. intros pre Hwf Hhb.
    pose proof (pwf_inv _ _ _ _ Hwf) as (kt & Hne & Hk & Hok & Hr & Hnd & Hch).
    destruct (hostb_inv _ _ _ Hhb) as (Hrn & Hht & Hsplit).
    rewrite Forall_forall in IH.
    assert (Hwalk : forall x, In x ch -> starts_with "/" (nkey x) = false -> hwalk_ok x).
    { intros x Hx Hns. rewrite Forall_forall in Hch. apply (IH x Hx (pre ++ k)); auto.
      destruct (Hsplit x Hx) as [H|H]; [congruence|exact H]. }
    pose proof (hsel_ok_node (Node k r ch) (pre ++ k) Hnd Hch Hwalk) as Hsel. cbn [nchildren] in Hsel.
    intros lazy fuel s Hcur Hlt Hpkc Hpc Ht Hfuel.
    rewrite hcost_eq in *.
    assert (Htk : tokenize k = kt) by (rewrite Hk; apply tokenize_render; eapply kt_ok_tok; eauto).
    rewrite Htk in *.
    destruct fuel as [|f1]; [lia|].
    pose proof (dwalk_lt f1 host path lazy s Hlt) as Hw.
    set (s0 := reset_cmn s) in *.
    pose proof (hkey_walk (Node k r ch) _ Hsel kt [] lazy s0 f1) as Hkw.
    simpl app in Hkw.
    specialize (Hkw Hcur Hk eq_refl Hht eq_refl Hpkc Hpc Ht
                    ltac:(change (cm s0) with (cm s); lia) ltac:(lia)).
    change (cm s0) with (cm s) in Hkw. change (cmn s0) with 0 in Hkw. change (ps s0) with (ps s) in Hkw.
    rewrite m2h_eq, Htk.
    destruct (kh (Khof path (Node k r ch)) kt (skipn (cm s) host)) as [[l vals]|].
    - destruct Hkw as (l' & tps' & E & Er). exists l', tps'. rewrite Hw, E. auto.
    - eapply (dbacks_step lazy (S f1) DWalk s _ f1 _ s0 _ 1); [exact Hw|exact Hkw|reflexivity|apply extends_refl|lia|lia].
  Qed.
End HostWalk.

(* the method root of a tree with hostname routes: sibling keys start with distinct bytes; every
   child satisfies the token invariant pwf of StaticEquiv2; a child is the "/"-subtree (path-only
   routes) or a hostname node *)
Definition hroot_ok (root : node) : Prop :=
  NoDup (heads (nchildren root)) /\ Forall (pwf []) (nchildren root) /\
  forall c, In c (nchildren root) -> starts_with "/" (nkey c) = true \/ hostb c = true.

Definition hroot_fuel (path : bytes) (root : node) : nat :=
  2 * hcost_sum (List.length path) (nchildren root) + 2.

Definition nohslash (host : bytes) : Prop := forall c, In c host -> c <> "/".

(* M1 = M2h: the hostname pass of the matcher, with its explicit skipped-node stack, is the DFS M2h.
   No side condition on the request other than: the host is non-empty and contains no '/'. *)
Theorem lbd_eq_m2h host path root lazy fuel :
  nohslash host -> hroot_ok root -> host <> [] -> hroot_fuel path root <= fuel ->
  match m2h_root path root host with
  | Some (l, vals) => found_as (lookup_by_domain fuel root host path lazy [] []) l (addp lazy [] vals)
  | None => nodirect2 (lookup_by_domain fuel root host path lazy [] [])
  end.
Proof.
  intros Hns (Hnd & Hpw & Hsplit) Hne Hf. unfold hroot_fuel in Hf.
  destruct host as [|h0 hrest]; [congruence|]. set (host := h0 :: hrest) in *.
  set (ch := nchildren root) in *.
  destruct (lbd_top_alts fuel root h0 hrest path lazy [] [] Hnd) as (es & Hmap & Hnth & Htop).
  fold host in Htop. fold ch in Hmap, Hnth.
  assert (Hh0 : h0 <> "/") by (apply Hns; left; reflexivity).
  unfold m2h_root. unfold host at 1. fold host. fold ch.
  rewrite halts_first_some, <- Hmap, map_map.
  rewrite Forall_forall in Hpw.
  assert (Hes : forall e, In e es -> nth_error (nchildren root) (fst e) = Some (snd e) /\ hwalk_ok host path (snd e)).
  { intros e He0. pose proof (Hnth e He0) as Hn. split; [exact Hn|].
    assert (In (snd e) (halts h0 ch)) as Hh by (rewrite <- Hmap; apply in_map; exact He0).
    destruct (halts_host h0 ch (snd e) Hh0 Hh) as [Hi1 Hi2].
    apply (hwalk_m2h host path Hns (snd e) []); [apply Hpw; exact Hi1|].
    destruct (Hsplit (snd e) Hi1) as [H|H]; [congruence|exact H]. }
  assert (Hescost : es_hcost path es <= 2 * hcost_sum (List.length path) ch).
  { apply (es_hcost_le path ch es).
    - intros e He0. eapply nth_error_In. apply Hnth; exact He0.
    - rewrite <- (map_length snd), Hmap. apply (halts_len path). }
  destruct es as [|e1 rest].
  - cbn [map first_some]. rewrite Htop. exists None, false, [], []. split; [reflexivity|auto].
  - cbn [map first_some].
    set (s0 := init_st root [] []) in *.
    set (sd := dgo (dpush_all s0 root (map fst rest)) (snd e1)) in *.
    destruct (dpush_all_core s0 root (map fst rest)) as (Hq1 & Hq3 & Hq4 & Hq5 & Hq6 & Hq7 & Hq8 & Hq9).
    destruct (Hes e1 (or_introl eq_refl)) as [_ Hwalk1].
    cbn [es_hcost] in Hescost.
    pose proof (Hwalk1 lazy fuel sd eq_refl) as H1.
    change (cm sd) with (cm (dpush_all s0 root (map fst rest))) in H1.
    change (ps sd) with (ps (dpush_all s0 root (map fst rest))) in H1.
    change (pcnt sd) with (pcnt (dpush_all s0 root (map fst rest))) in H1.
    rewrite Hq3, Hq5, Hq7 in H1. change (cm s0) with 0 in H1. change (ps s0) with (@nil kv) in H1.
    change (pcnt s0) with 0 in H1.
    assert (Htd : tinv sd).
    { unfold tinv. change (tsr sd) with (tsr (dpush_all s0 root (map fst rest))).
      change (tn sd) with (tn (dpush_all s0 root (map fst rest))). rewrite Hq8, Hq9. reflexivity. }
    specialize (H1 ltac:(simpl; lia) eq_refl eq_refl Htd ltac:(lia)). cbn [skipn] in H1.
    destruct (m2h path (snd e1) host) as [[l v2]|].
    + cbn [alt]. destruct H1 as (l' & tps' & E & Er). exists l', tps'. rewrite Htop, E. auto.
    + cbn [alt].
      destruct H1 as (f4 & s2 & He2 & Hf4 & Hsk2 & Hx2 & Ht2 & Hk2).
      change (sks sd) with (sks (dpush_all s0 root (map fst rest))) in Hsk2. rewrite dpush_all_sks in Hsk2.
      change (ps sd) with (ps (dpush_all s0 root (map fst rest))) in Hx2. rewrite Hq7 in Hx2.
      change (ps s0) with (@nil kv) in Hx2.
      pose proof (dpop_alts host path lazy root 0 [] [] rest f4 s2) as Hpop.
      assert (Hsk2' : sks s2 = map (fun e => {| sk_n := root; sk_path := 0; sk_pcnt := List.length (@nil kv);
                                                 sk_child := fst e |}) rest ++ []).
      { rewrite Hsk2, map_map. reflexivity. }
      specialize (Hpop Hsk2' (fun e0 H0 => Hes e0 (or_intror H0)) Hx2 Ht2 Hk2 ltac:(simpl; lia) ltac:(lia)).
      cbn [skipn] in Hpop.
      destruct (first_some (map (fun e => m2h path (snd e) host) rest)) as [[l v2]|].
      * destruct Hpop as (l' & tps' & E & Er). exists l', tps'. rewrite Htop, He2, E. auto.
      * destruct Hpop as (f5 & s5 & He5 & Hf5 & Hsk5 & Hx5 & Ht5 & Hk5).
        destruct f5 as [|f5]; [lia|].
        rewrite Htop, He2, He5, (dback_nil f5 host path lazy s5 Hsk5).
        do 4 eexists. split; [reflexivity|exact Ht5].
Qed.

(* ================================================================== *)
(* Part E — host_exact: what a direct hostname match means              *)
(* ================================================================== *)
Lemma routes_s_child x k r ch : In x ch -> incl (routes_s x) (routes_s (Node k r ch)).
Proof.
  intros Hx rt Hrt. cbn [routes_s]. apply in_or_app. right. apply in_flat_map. exists x. auto.
Qed.

Lemma seg_dot_nodot h x : In x (seg is_dot h) -> x <> ".".
Proof.
  intros H ->. apply SpecSound.seg_in in H. discriminate.
Qed.

(* M2h is sound: a match consumes the WHOLE remaining host with host tokens (label for label:
   static bytes equal, a parameter takes one non-empty label part up to the next '.' or the end),
   and only then the path is matched below the "/" child *)
Definition hsound (p : bytes) (n : node) (pre h : bytes) (l : node) (kvs : list kv) : Prop :=
  exists ht hvals x kvp,
    forallb htok_ok ht = true /\
    SpecSound.Matches ht h (List.length h) hvals /\
    List.length hvals = List.length (wildcard_names ht) /\
    starts_with "/" (nkey x) = true /\ pwf (pre ++ render ht) x /\ incl (routes_s x) (routes_s n) /\
    m2 x p = Some (l, kvp) /\
    kvs = combine (wildcard_names ht) hvals ++ kvp.

Lemma m2h_child_some p cc ch q l v2 :
  m2h_child p cc ch q = Some (l, v2) -> exists x, In x ch /\ starts_with cc (nkey x) = true /\ m2h p x q = Some (l, v2).
Proof.
  unfold m2h_child. destruct (first_child cc ch) as [x|] eqn:E; [|discriminate].
  intros H. exists x. apply first_child_in in E. tauto.
Qed.

Lemma nohslash_skipn h j : nohslash h -> nohslash (skipn j h).
Proof. intros H c Hc. apply H. rewrite <- (firstn_skipn j h). apply in_or_app. right. exact Hc. Qed.

Lemma nohslash_tl c h : nohslash (c :: h) -> nohslash h.
Proof. intros H x Hx. apply H. right. exact Hx. Qed.

Ltac splits := repeat match goal with |- _ /\ _ => split end.

Lemma m2h_sound p : forall n pre h l kvs, pwf pre n -> hostb n = true -> nohslash h ->
  m2h p n h = Some (l, kvs) -> hsound p n pre h l kvs.
Proof.
  induction n as [k r ch IH] using node_ind'. intros pre h l kvs Hwf Hhb Hns.
  pose proof (pwf_inv _ _ _ _ Hwf) as (kt0 & Hne & Hk & Hok & Hr & Hnd & Hch).
  destruct (hostb_inv _ _ _ Hhb) as (Hrn & Hht & Hsplit).
  rewrite Forall_forall in IH, Hch.
  set (n := Node k r ch) in *.
  assert (Htk : tokenize k = kt0) by (rewrite Hk; apply tokenize_render; eapply kt_ok_tok; eauto).
  rewrite Htk in Hht.
  assert (Hgen : forall kt done h l kvs, k = render (done ++ kt) -> forallb htok_ok kt = true -> nohslash h ->
            kh (Khof p n) kt h = Some (l, kvs) ->
            exists ht hvals x kvp,
              forallb htok_ok ht = true /\
              SpecSound.Matches (kt ++ ht) h (List.length h) hvals /\
              List.length hvals = List.length (wildcard_names (kt ++ ht)) /\
              starts_with "/" (nkey x) = true /\ pwf (pre ++ k ++ render ht) x /\ incl (routes_s x) (routes_s n) /\
              m2 x p = Some (l, kvp) /\
              kvs = combine (wildcard_names (kt ++ ht)) hvals ++ kvp).
  { induction kt as [|t kt IHkt]; intros done h0 l0 kvs0 Hkd Hokt Hns0 Hm.
    - cbn [kh] in Hm. destruct h0 as [|c h'].
      + cbn [Khof] in Hm. unfold n in Hm at 1. cbn [nchildren] in Hm.
        destruct (first_child "/" ch) as [c0|] eqn:Ec0; [|discriminate].
        apply first_child_in in Ec0. destruct Ec0 as [Hin0 Hsl0].
        exists [], [], c0, kvs0. simpl. rewrite !app_nil_r. splits; auto.
        * constructor.
        * exact (routes_s_child c0 k r ch Hin0).
      + cbn [Khof] in Hm. unfold n in Hm at 1 2. cbn [nchildren] in Hm.
        assert (Hc : c <> "/") by (apply Hns0; left; reflexivity).
        assert (exists x, In x ch /\ starts_with "/" (nkey x) = false /\ m2h p x (c :: h') = Some (l0, kvs0)) as (x & Hx & Hxs & Hmx).
        { unfold alt in Hm. destruct (m2h_child p c ch (c :: h')) as [[l1 v1]|] eqn:E1.
          - inversion Hm; subst. apply m2h_child_some in E1. destruct E1 as (x & Hx & Hs & Hmx).
            exists x. splits; auto. apply starts_with_hd in Hs.
            destruct (starts_with "/" (nkey x)) eqn:E3; auto. apply starts_with_hd in E3. congruence.
          - apply m2h_child_some in Hm. destruct Hm as (x & Hx & Hs & Hmx).
            exists x. splits; auto. apply starts_with_hd in Hs.
            destruct (starts_with "/" (nkey x)) eqn:E3; auto. apply starts_with_hd in E3. congruence. }
        assert (Hxb : hostb x = true) by (destruct (Hsplit x Hx) as [H|H]; [congruence|exact H]).
        destruct (IH x Hx (pre ++ k) (c :: h') l0 kvs0 (Hch x Hx) Hxb Hns0 Hmx)
          as (ht & hvals & x' & kvp & H1 & H2 & H3 & H4 & H5 & H6 & H7 & H8).
        exists ht, hvals, x', kvp. simpl. splits; auto.
        * rewrite <- app_assoc in H5. exact H5.
        * intros rt Hrt. apply (routes_s_child x k r ch Hx). apply H6. exact Hrt.
    - destruct h0 as [|c h']; [discriminate|].
      cbn [forallb] in Hokt. apply andb_prop in Hokt. destruct Hokt as [Hokt1 Hokt2].
      assert (Hk1 : k = render ((done ++ [t]) ++ kt)) by (rewrite <- app_assoc; exact Hkd).
      destruct t as [d|nm|nm]; [| |discriminate]; cbn [kh] in Hm.
      + destruct (Ascii.eqb d c && sbyte c) eqn:E; [|discriminate].
        apply andb_prop in E. destruct E as [E1 E2]. apply Ascii.eqb_eq in E1. subst d.
        destruct (IHkt (done ++ [TStatic c]) h' l0 kvs0 Hk1 Hokt2 (nohslash_tl _ _ Hns0) Hm)
          as (ht & hvals & x' & kvp & H1 & H2 & H3 & H4 & H5 & H6 & H7 & H8).
        exists ht, hvals, x', kvp. splits; auto.
        unfold sbyte in E2. apply andb_prop in E2. destruct E2 as [Ea Eb]. apply negb_true_iff in Ea, Eb.
        simpl app. constructor.
        * intros ->. discriminate.
        * intros ->. discriminate.
        * exact H2.
      + destruct (seg is_dot (c :: h')) as [|v0 vv] eqn:Ev; [discriminate|]. set (v := v0 :: vv) in *.
        destruct (kh (Khof p n) kt (skipn (List.length v) (c :: h'))) as [[l1 kvs1]|] eqn:E; [|discriminate].
        simpl in Hm. inversion Hm; subst l0 kvs0.
        destruct (IHkt (done ++ [TParam nm]) _ l1 kvs1 Hk1 Hokt2 (nohslash_skipn _ (List.length v) Hns0) E)
          as (ht & hvals & x' & kvp & H1 & H2 & H3 & H4 & H5 & H6 & H7 & H8).
        exists ht, (v :: hvals), x', kvp. splits; auto.
        * pose proof (SpecSound.seg_app is_dot (c :: h')) as Hsa. rewrite Ev in Hsa. fold v in Hsa.
          set (rest := skipn (List.length v) (c :: h')) in *.
          simpl app. rewrite Hsa at 1.
          assert (Hlen : List.length (c :: h') = List.length v + List.length rest)
            by (rewrite Hsa at 1; apply app_length).
          rewrite Hlen. apply SpecSound.M_param_host.
          -- unfold v; simpl; lia.
          -- discriminate.
          -- intros Hin. apply (seg_dot_nodot (c :: h') "."); [rewrite Ev; exact Hin|reflexivity].
          -- lia.
          -- pose proof (SpecSound.seg_next is_dot (c :: h')) as Hnx. rewrite Ev in Hnx. fold v in Hnx. fold rest in Hnx.
             destruct Hnx as [Hn|(c1 & r1 & Hn & Hst)].
             ++ left. rewrite Hn. simpl. lia.
             ++ right. exists r1. rewrite Hn. f_equal. unfold is_dot in Hst. apply Ascii.eqb_eq in Hst. exact Hst.
          -- replace (List.length v + List.length rest - List.length v) with (List.length rest) by lia. exact H2.
        * simpl. f_equal. exact H3.
        * rewrite H8. reflexivity. }
  intros Hm. unfold n in Hm. rewrite m2h_eq in Hm. fold n in Hm. rewrite Htk in Hm.
  destruct (Hgen kt0 [] h l kvs Hk Hht Hns Hm) as (ht & hvals & x' & kvp & H1 & H2 & H3 & H4 & H5 & H6 & H7 & H8).
  exists (kt0 ++ ht), hvals, x', kvp. splits; auto.
  - rewrite forallb_app, Hht, H1. reflexivity.
  - rewrite render_app, <- Hk. exact H5.
Qed.

(* host_exact, on M1 directly: a DIRECT match of the hostname pass returns a route whose pattern
   splits into host tokens that match the WHOLE host (label for label) and a path part, starting
   with '/', that matched the path below the host->path split node.  [Matches] is the declarative
   matching relation of SpecSound. *)
Theorem host_exact_thm host path root lazy fuel n pss tpss :
  nohslash host -> hroot_ok root -> host <> [] -> hroot_fuel path root <= fuel ->
  lookup_by_domain fuel root host path lazy [] [] = Found (Some n) false pss tpss ->
  exists rt ht bt hvals x l kvp,
    nroute n = Some rt /\ In rt (flat_map routes_s (nchildren root)) /\
    rpat rt = render ht ++ render bt /\
    forallb htok_ok ht = true /\ forallb tok_ok bt = true /\ (exists q, render bt = "/" :: q) /\
    SpecSound.Matches ht host (List.length host) hvals /\
    List.length hvals = List.length (wildcard_names ht) /\
    starts_with "/" (nkey x) = true /\ pwf (render ht) x /\ m2 x path = Some (l, kvp) /\ nroute l = Some rt /\
    map fst kvp = wildcard_names bt /\
    pss = addp lazy [] (combine (wildcard_names ht) hvals ++ kvp).
Proof.
  intros Hns Hroot Hne Hf Hfound.
  pose proof (lbd_eq_m2h host path root lazy fuel Hns Hroot Hne Hf) as Heq.
  destruct Hroot as (Hnd & Hpw & Hsplit). rewrite Forall_forall in Hpw.
  destruct (m2h_root path root host) as [[l vals]|] eqn:Em.
  - destruct Heq as (l' & tps' & E & Er). rewrite E in Hfound. inversion Hfound; subst l' pss tps'. clear Hfound.
    unfold m2h_root in Em. destruct host as [|h0 hrest]; [discriminate|]. set (host := h0 :: hrest) in *.
    assert (Hh0 : h0 <> "/") by (apply Hns; left; reflexivity).
    assert (exists x0, In x0 (nchildren root) /\ starts_with "/" (nkey x0) = false /\ m2h path x0 host = Some (l, vals))
      as (x0 & Hx0 & Hx0s & Hmx).
    { unfold alt in Em. destruct (m2h_child path h0 (nchildren root) host) as [[l1 v1]|] eqn:E1.
      - inversion Em; subst. apply m2h_child_some in E1. destruct E1 as (x0 & Hx & Hs & Hmx).
        exists x0. splits; auto. apply starts_with_hd in Hs.
        destruct (starts_with "/" (nkey x0)) eqn:E3; auto. apply starts_with_hd in E3. congruence.
      - apply m2h_child_some in Em. destruct Em as (x0 & Hx & Hs & Hmx).
        exists x0. splits; auto. apply starts_with_hd in Hs.
        destruct (starts_with "/" (nkey x0)) eqn:E3; auto. apply starts_with_hd in E3. congruence. }
    assert (Hxb : hostb x0 = true) by (destruct (Hsplit x0 Hx0) as [H|H]; [congruence|exact H]).
    destruct (m2h_sound path x0 [] host l vals (Hpw x0 Hx0) Hxb Hns Hmx)
      as (ht & hvals & x' & kvp & H1 & H2 & H3 & H4 & H5 & H6 & H7 & H8).
    simpl app in H5.
    destruct (m2_sound x' (render ht) path l kvp H5 H7) as (rt & bt & G1 & G2 & G3 & G4 & G5).
    destruct (pwf_routes_prefix x' (render ht) rt H5 G2) as [q Hq].
    exists rt, ht, bt, hvals, x', l, kvp. splits; auto.
    + congruence.
    + apply in_flat_map. exists x0. split; [exact Hx0|]. apply H6. exact G2.
    + rewrite G3 in Hq. apply app_inv_head in Hq.
      destruct (nkey x') as [|d kk]; [discriminate|]. simpl in H4. apply Ascii.eqb_eq in H4. subst d.
      exists (kk ++ q). exact Hq.
    + rewrite H8. reflexivity.
  - destruct Heq as (a & b & c & d & E & Hi). rewrite E in Hfound. inversion Hfound; subst.
    specialize (Hi eq_refl). discriminate.
Qed.

(* ================================================================== *)
(* Part F — what the guard charsMatched == len(host) protects           *)
(* ================================================================== *)
(* lbd_v true is lbd (proved below); lbd_v false is lbd with the conjunct
   [Nat.eqb (cm s) n] (Go: charsMatched == len(host), node.go, after the Walk loop) removed from
   the decision in DAfter.  Everything else is copied verbatim from Lookup.v. *)
Fixpoint lbd_v (fixed : bool) (fuel : nat) (host path : bytes) (lazy : bool) (ph : dphase) (s : st) {struct fuel} : lres :=
  match fuel with O => LOutOfFuel | S f =>
  let n := List.length host in
  let key := nkey (cur s) in
  match ph with
  | DWalk =>
      if Nat.ltb (cm s) n
      then lbd_v fixed f host path lazy (DInner 0)
             {| cur := cur s; par := par s; cm := cm s; cmn := 0; pcnt := pcnt s; pkc := pkc s; sks := sks s;
                ps := ps s; tsr := tsr s; tn := tn s; tps := tps s |}
      else lbd_v fixed f host path lazy DAfter s
  | DInner i =>
      if negb (Nat.ltb (cm s) n) then lbd_v fixed f host path lazy DSelect s
      else if negb (Nat.ltb i (List.length key)) then lbd_v fixed f host path lazy DSelect s
      else
      match nth_error key i, nth_error host (cm s) with
      | Some k, Some p =>
        if negb (Ascii.eqb k p) || Ascii.eqb p "{" then
          if Ascii.eqb k "{" then
            match index_byte (skipn (cm s) host) "." with
            | Some O => lbd_v fixed f host path lazy DAfter s
            | idx =>
              let cm' := match idx with Some d => cm s + d | None => n end in
              match nth_error (nparams (cur s)) (pkc s) with
              | None => LPanic
              | Some prm =>
                let rest := List.length key - cmn s in
                let adv := match pend prm with
                           | Some e => if Nat.leb (cmn s) e then e - cmn s else rest
                           | None => rest end in
                lbd_v fixed f host path lazy (DInner (i + adv))
                  {| cur := cur s; par := par s; cm := cm'; cmn := cmn s + adv;
                     pcnt := if lazy then pcnt s else S (pcnt s); pkc := S (pkc s); sks := sks s;
                     ps := if lazy then ps s else ps s ++ [(pkey prm, slice host (cm s) cm')];
                     tsr := tsr s; tn := tn s; tps := tps s |}
              end
            end
          else lbd_v fixed f host path lazy DAfter s
        else
          lbd_v fixed f host path lazy (DInner (S i))
            {| cur := cur s; par := par s; cm := S (cm s); cmn := S (cmn s); pcnt := pcnt s; pkc := pkc s;
               sks := sks s; ps := ps s; tsr := tsr s; tn := tn s; tps := tps s |}
      | _, _ => LPanic
      end
  | DSelect =>
      if Nat.ltb (cm s) n then
        match nth_error host (cm s) with
        | None => LPanic
        | Some p =>
          match find_child (cur s) p with
          | None =>
            match param_child_index (cur s) with
            | Some pi =>
              match nth_error (nchildren (cur s)) pi with
              | Some c => lbd_v fixed f host path lazy DWalk (dgo s c)
              | None => LPanic end
            | None => lbd_v fixed f host path lazy DAfter s
            end
          | Some idx =>
            let s1 := match param_child_index (cur s) with Some pi => dpush s (cur s) pi | None => s end in
            match nth_error (nchildren (cur s)) idx with
            | Some c => lbd_v fixed f host path lazy DWalk (dgo s1 c)
            | None => LPanic end
          end
        end
      else lbd_v fixed f host path lazy DWalk s
  | DAfter =>
      let s := {| cur := cur s; par := par s; cm := cm s; cmn := cmn s; pcnt := 0; pkc := 0; sks := sks s;
                  ps := ps s; tsr := tsr s; tn := tn s; tps := tps s |} in
      if (if fixed then Nat.eqb (cm s) n else true) && Nat.eqb (cmn s) (List.length key) then
        match find_child (cur s) "/" with
        | None => lbd_v fixed f host path lazy DBack s
        | Some idx =>
          match nth_error (nchildren (cur s)) idx with
          | None => LPanic
          | Some c =>
            match lookup_by_path f c path lazy [] [] with
            | Found None _ _ _ => lbd_v fixed f host path lazy DBack s
            | Found (Some sn) true _ stps =>
                lbd_v fixed f host path lazy DBack (if tsr s then s else set_tsr lazy s sn (ps s ++ stps))
            | Found (Some sn) false sps _ =>
                Found (Some sn) false (if lazy then ps s else ps s ++ sps) (tps s)
            | LPanic => LPanic
            | LOutOfFuel => LOutOfFuel
            end
          end
        end
      else lbd_v fixed f host path lazy DBack s
  | DBack =>
      match sks s with
      | sk :: rest =>
        match nth_error (nchildren (sk_n sk)) (sk_child sk) with
        | None => LPanic
        | Some c =>
          if Nat.ltb (List.length (ps s)) (sk_pcnt sk) then LPanic
          else
          lbd_v fixed f host path lazy DWalk
            {| cur := c; par := None; cm := sk_path sk; cmn := cmn s; pcnt := sk_pcnt sk; pkc := pkc s;
               sks := rest; ps := firstn (sk_pcnt sk) (ps s); tsr := tsr s; tn := tn s; tps := tps s |}
        end
      | [] => Found (tn s) (tsr s) (ps s) (tps s)
      end
  end end.

Definition lookup_by_domain_v (fixed : bool) (fuel : nat) (target : node) (host path : bytes) (lazy : bool) (ps0 tps0 : list kv) : lres :=
  match host with
  | [] => LPanic                                            (* host[0] *)
  | h0 :: _ =>
    let s0 := init_st target ps0 tps0 in
    match find_child target h0 with
    | None =>
      match param_child_index target with
      | Some pi => match nth_error (nchildren target) pi with
                   | Some c => lbd_v fixed fuel host path lazy DWalk (dgo s0 c)
                   | None => LPanic end
      | None => Found None false ps0 tps0
      end
    | Some idx =>
      let s1 := match param_child_index target with Some pi => dpush s0 target pi | None => s0 end in
      match nth_error (nchildren target) idx with
      | Some c => lbd_v fixed fuel host path lazy DWalk (dgo s1 c)
      | None => LPanic end
    end
  end.

Lemma lbd_v_fixed : forall fuel host path lazy ph s, lbd_v true fuel host path lazy ph s = lbd fuel host path lazy ph s.
Proof.
  induction fuel as [|f IH]; intros host path lazy ph s; [reflexivity|].
  destruct ph; cbn [lbd_v lbd]; cbv zeta;
    repeat match goal with
           | |- context [lbd_v true f ?h ?p ?l ?ph ?s] => rewrite (IH h p l ph s)
           | |- (if ?b then _ else _) = _ => destruct b
           | |- match ?x with _ => _ end = _ => destruct x
           end; reflexivity.
Qed.

(* ---- boolean checker for hroot_ok, and example trees built with Tree.insert ---- *)
Definition hroot_okb (root : node) : bool :=
  nodupb (heads (nchildren root)) && forallb (pwfb []) (nchildren root)
  && forallb (fun c => starts_with "/" (nkey c) || hostb c) (nchildren root).

Lemma hroot_okb_sound root : hroot_okb root = true -> hroot_ok root.
Proof.
  unfold hroot_okb, hroot_ok. intros H. apply andb_prop in H. destruct H as [H H3]. apply andb_prop in H. destruct H as [H1 H2].
  split; [apply nodupb_sound; exact H1|]. split.
  - rewrite Forall_forall. intros x Hx. apply pwfb_sound. rewrite forallb_forall in H2. auto.
  - intros c Hc. rewrite forallb_forall in H3. apply orb_prop. auto.
Qed.

Definition nohslashb (host : bytes) : bool := negb (contains host "/").
Lemma nohslashb_sound host : nohslashb host = true -> nohslash host.
Proof.
  unfold nohslashb. intros H c Hc ->. apply negb_true_iff in H.
  apply in_split in Hc. destruct Hc as (a & b & ->). rewrite contains_app, contains_cons, Ascii.eqb_refl, orb_true_r in H.
  discriminate.
Qed.

Definition mk_rih (p : string) (id : N) (npar : nat) : rinfo :=
  {| ri_route := {| rpat := S2B p; rid := id |}; ri_pslen := npar;
     ri_hostsplit := match index_byte (S2B p) "/" with Some i => i | None => 0 end |}.
Definition get_root (t : txn) : node := match t_roots t with r :: _ => r | [] => Node [] None [] end.
