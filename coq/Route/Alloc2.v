(* C16 — proofs about the buffer-capacity view (Alloc.v). *)
From Coq Require Import Lia Arith.
From FoxBase Require Import Bytes.
From FoxRoute Require Import Node Lookup Tree Guard Alloc.
Open Scope char_scope.

(* ---------- 1. the instrumented functions compute M1 ---------- *)

Ltac sim_step IH :=
  match goal with
  | |- fst (lbpI _ _ _ _ _ _) = lbp _ _ _ _ _ => apply IH
  | |- fst (lbdI _ _ _ _ _ _ _) = lbd _ _ _ _ _ _ => apply IH
  | |- ?a = ?a => reflexivity
  | |- fst (_, _) = _ => reflexivity
  | |- context [match lbpI ?f ?p ?l ?ph ?s ?h with _ => _ end] =>
       let r := fresh "r" in let h1 := fresh "h" in let E := fresh "E" in
       pose proof (IH p l ph s h) as E; destruct (lbpI f p l ph s h) as [r h1]; cbn [fst] in E; rewrite <- E; clear E;
       destruct r as [[?|] [|] ? ?| |]
  | |- context [if ?c then _ else _] => destruct c eqn:?
  | |- context [match ?x with _ => _ end] => destruct x eqn:?
  end; cbn [fst snd].

Lemma lbpI_sim : forall f path lazy ph s h, fst (lbpI f path lazy ph s h) = lbp f path lazy ph s.
Proof.
  induction f as [|f IH]; intros path lazy ph s h; [reflexivity|].
  destruct ph; cbn [lbpI lbp]; repeat sim_step IH.
Qed.

Lemma lbdI_sim : forall f host path lazy ph s h, fst (lbdI f host path lazy ph s h) = lbd f host path lazy ph s.
Proof.
  induction f as [|f IH]; intros host path lazy ph s h; [reflexivity|].
  pose proof (lbpI_sim f) as IHp.
  destruct ph; cbn [lbdI lbd]; unfold lookup_by_pathI, lookup_by_path;
    repeat first [sim_step IHp | sim_step IH].
Qed.

Lemma lookup_by_pathI_sim : forall f t path lazy ps0 tps0 h,
  fst (lookup_by_pathI f t path lazy ps0 tps0 h) = lookup_by_path f t path lazy ps0 tps0.
Proof. intros; apply lbpI_sim. Qed.

Lemma lookup_by_domainI_sim : forall f t host path lazy ps0 tps0 h,
  fst (lookup_by_domainI f t host path lazy ps0 tps0 h) = lookup_by_domain f t host path lazy ps0 tps0.
Proof.
  intros; unfold lookup_by_domainI, lookup_by_domain; repeat sim_step lbdI_sim.
Qed.

Theorem roots_lookupI_sim : forall f r m host path lazy ps0 tps0 h,
  fst (roots_lookupI f r m host path lazy ps0 tps0 h) = roots_lookup f r m host path lazy ps0 tps0.
Proof.
  intros; unfold roots_lookupI, roots_lookup.
  repeat (match goal with
  | |- ?a = ?a => reflexivity
  | |- fst (lookup_by_pathI _ _ _ _ _ _ _) = _ => apply lookup_by_pathI_sim
  | |- context [match lookup_by_domainI ?f ?t ?ho ?p ?l ?a ?b ?h with _ => _ end] =>
       let r := fresh "r" in let h1 := fresh "h" in let E := fresh "E" in
       pose proof (lookup_by_domainI_sim f t ho p l a b h) as E; destruct (lookup_by_domainI f t ho p l a b h) as [r h1];
       cbn [fst] in E; rewrite <- E; clear E; destruct r as [[?|] [|] ? ?| |]
  | |- context [if ?c then _ else _] => destruct c eqn:?
  | |- context [match ?x with _ => _ end] => destruct x eqn:?
  end; cbn [fst snd]).
Qed.

(* ---------- 2. arithmetic of the static bounds ---------- *)
Lemma maxl_nth : forall (f : node -> nat) l i c, nth_error l i = Some c -> f c <= maxl f l.
Proof.
  intros f l; unfold maxl; induction l as [|x l IH]; intros [|i] c H; cbn in *; try discriminate.
  - injection H as ->. lia.
  - specialize (IH _ _ H). lia.
Qed.

Lemma wdepth_eq : forall n, wdepth n = List.length (nparams n) + maxc n.
Proof. intros [k r ch]; reflexivity. Qed.

Lemma sneed_eq : forall n, sneed n = alts n + maxl sneed (nchildren n).
Proof. intros [k r ch]; reflexivity. Qed.

Lemma child_wdepth : forall n i c, nth_error (nchildren n) i = Some c -> wdepth c <= maxc n.
Proof. intros; unfold maxc; eapply maxl_nth; eauto. Qed.

Lemma child_sneed : forall n i c, nth_error (nchildren n) i = Some c -> alts n + sneed c <= sneed n.
Proof. intros n i c H; rewrite (sneed_eq n). pose proof (maxl_nth sneed _ _ _ H). lia. Qed.

Lemma alts_w : forall n wi, wildcard_child_index n = Some wi -> 1 <= alts n.
Proof. intros n wi H; unfold alts; rewrite H; destruct (param_child_index n); lia. Qed.
Lemma alts_p : forall n pi, param_child_index n = Some pi -> 1 <= alts n.
Proof. intros n wi H; unfold alts; rewrite H; destruct (wildcard_child_index n); lia. Qed.
Lemma alts_wp : forall n wi pi, wildcard_child_index n = Some wi -> param_child_index n = Some pi -> 2 <= alts n.
Proof. intros n wi pi H1 H2; unfold alts; rewrite H1, H2; lia. Qed.

(* ---------- 3. parseWildcard against the walk over a key ---------- *)
Local Notation pw := parse_wildcard_go.

Lemma pw_len : forall s p q st nm nm', List.length (pw s p st nm) = List.length (pw s q st nm').
Proof.
  induction s as [|c r IH]; intros p q st nm nm'; [reflexivity|].
  destruct st; cbn [parse_wildcard_go].
  - destruct (Ascii.eqb c "*"); [apply IH|]. destruct (Ascii.eqb c "{"); apply IH.
  - destruct (Ascii.eqb c "}"); cbn [List.length]; [f_equal|]; apply IH.
  - destruct (Ascii.eqb c "}"); cbn [List.length]; [f_equal|]; apply IH.
  - apply IH.
Qed.

Lemma skipn_nth_cons : forall (A : Type) (l : list A) i x, nth_error l i = Some x -> skipn i l = x :: skipn (S i) l.
Proof.
  induction l as [|y l IH]; intros [|i] x H; cbn in *; try discriminate.
  - injection H as ->; reflexivity.
  - apply IH; assumption.
Qed.

Lemma skipn_skipn : forall (A : Type) x y (l : list A), skipn x (skipn y l) = skipn (x + y) l.
Proof.
  intros A x y; induction y as [|y IH]; intros l.
  - rewrite Nat.add_0_r; reflexivity.
  - rewrite Nat.add_succ_r. destruct l as [|a l]; cbn [skipn]; [destruct x; reflexivity|apply IH].
Qed.

(* inside a name: the parameter being collected ends at the first '}' *)
Lemma pw_collect : forall s pos st name prm rest0,
  st = PwParam \/ st = PwCatch ->
  pw s pos st name = prm :: rest0 ->
  pcatch prm = (match st with PwCatch => true | _ => false end) /\
  match pend prm with
  | Some e => pos < e /\ pw (skipn (e - pos) s) e PwDefault [] = rest0
  | None => rest0 = []
  end.
Proof.
  induction s as [|c r IH]; intros pos st name prm rest0 Hst H.
  - destruct Hst as [-> | ->]; discriminate.
  - assert (Hc : (if Ascii.eqb c "}" then
                    {| pkey := rev name; pend := match r with [] => None | _ => Some (S pos) end;
                       pcatch := match st with PwCatch => true | _ => false end |} :: pw r (S pos) PwDefault []
                  else pw r (S pos) st (c :: name)) = prm :: rest0)
      by (destruct Hst as [-> | ->]; exact H).
    clear H. destruct (Ascii.eqb c "}").
    + injection Hc as <- <-. cbn [pcatch pend]. split; [reflexivity|].
      destruct r as [|c' r']; [reflexivity|]. split; [lia|].
      replace (S pos - pos) with 1 by lia. reflexivity.
    + specialize (IH _ _ _ _ _ Hst Hc). destruct IH as [Hp He]. split; [exact Hp|].
      destruct (pend prm) as [e|]; [|exact He]. destruct He as [Hlt He]. split; [lia|].
      replace (e - pos) with (S (e - S pos)) by lia. exact He.
Qed.

Definition synced (n : node) (i pkc : nat) : Prop :=
  pw (skipn i (nkey n)) i PwDefault [] = skipn pkc (nparams n).
Definition nocatch (n : node) (pkc : nat) : Prop :=
  first_infix_catch (nparams n) = first_infix_catch (skipn pkc (nparams n)).

Lemma synced_0 : forall n, synced n 0 0 /\ nocatch n 0.
Proof. intros n; split; reflexivity. Qed.

Lemma nth_skipn_cons : forall (A : Type) (l : list A) k x, nth_error l k = Some x -> skipn k l = x :: skipn (S k) l.
Proof. intros; apply skipn_nth_cons; assumption. Qed.

(* a static byte of the key *)
Lemma synced_static : forall n i pkc k,
  synced n i pkc -> nth_error (nkey n) i = Some k -> Ascii.eqb k "{" = false -> Ascii.eqb k "*" = false ->
  synced n (S i) pkc.
Proof.
  unfold synced; intros n i pkc k H Hk H1 H2.
  rewrite (skipn_nth_cons _ _ _ _ Hk) in H. cbn [parse_wildcard_go] in H. rewrite H1, H2 in H. exact H.
Qed.

(* the '{' of a named parameter *)
Lemma synced_brace : forall n i pkc prm,
  synced n i pkc -> nth_error (nkey n) i = Some "{" -> nth_error (nparams n) pkc = Some prm ->
  pcatch prm = false /\
  match pend prm with
  | Some e => i < e /\ synced n e (S pkc)
  | None => skipn (S pkc) (nparams n) = []
  end.
Proof.
  unfold synced; intros n i pkc prm H Hk Hp.
  rewrite (skipn_nth_cons _ _ _ _ Hk), (skipn_nth_cons _ _ _ _ Hp) in H.
  cbn [parse_wildcard_go] in H. change (Ascii.eqb "{" "*") with false in H. change (Ascii.eqb "{" "{") with true in H.
  cbv iota in H. apply pw_collect in H; [|left; reflexivity]. destruct H as [Hc He]. split; [exact Hc|].
  destruct (pend prm) as [e|]; [|exact He]. destruct He as [Hlt He]. split; [lia|].
  rewrite skipn_skipn in He. replace (e - S i + S i) with e in He by lia. exact He.
Qed.

(* the '*' of a catch-all *)
Lemma synced_star : forall n i pkc prm,
  synced n i pkc -> nth_error (nkey n) i = Some "*" -> nth_error (nparams n) pkc = Some prm ->
  pcatch prm = true /\
  match pend prm with
  | Some e => i < e /\ synced n e (S pkc)
  | None => skipn (S pkc) (nparams n) = []
  end.
Proof.
  unfold synced; intros n i pkc prm H Hk Hp.
  rewrite (skipn_nth_cons _ _ _ _ Hk), (skipn_nth_cons _ _ _ _ Hp) in H.
  cbn [parse_wildcard_go] in H. change (Ascii.eqb "*" "*") with true in H. cbv iota in H.
  destruct (skipn (S i) (nkey n)) as [|c r'] eqn:Hr; [discriminate|].
  cbn [parse_wildcard_go] in H. apply pw_collect in H; [|right; reflexivity]. destruct H as [Hc He]. split; [exact Hc|].
  destruct (pend prm) as [e|]; [|exact He]. destruct He as [Hlt He]. split; [lia|].
  assert (Hr' : r' = skipn (S (S i)) (nkey n)).
  { replace (S (S i)) with (1 + S i) by lia. rewrite <- skipn_skipn, Hr. reflexivity. }
  rewrite Hr', skipn_skipn in He. replace (e - S (S i) + S (S i)) with e in He by lia. exact He.
Qed.

(* the inode of a node whose first infix catch-all is the pkc-th parameter holds the parameters after it *)
Lemma inode_params : forall n pkc prm e ino,
  nocatch n pkc -> nth_error (nparams n) pkc = Some prm -> pcatch prm = true -> pend prm = Some e ->
  synced n e (S pkc) -> inode n = Some ino ->
  List.length (nparams ino) + S pkc = List.length (nparams n) /\ nchildren ino = nchildren n.
Proof.
  unfold nocatch, synced, inode; intros n pkc prm e ino Hn Hp Hc He Hs Hi.
  rewrite (skipn_nth_cons _ _ _ _ Hp) in Hn. cbn [first_infix_catch] in Hn. rewrite Hc, He in Hn.
  rewrite Hn in Hi. injection Hi as <-. split; [|reflexivity].
  unfold nparams at 1, parse_wildcard. cbn [nkey].
  rewrite (pw_len _ 0 e PwDefault [] []), Hs, skipn_length.
  apply nth_error_Some_lt in Hp || (assert (pkc < List.length (nparams n)) by (apply nth_error_Some; congruence)); lia.
Qed.

(* ---------- 4. the invariant of the walk ---------- *)
Fixpoint sks_ok (B Bs : nat) (l : list skipped) : Prop :=
  match l with
  | [] => True
  | sk :: rest =>
      (forall c, nth_error (nchildren (sk_n sk)) (sk_child sk) = Some c ->
                 sk_pcnt sk + wdepth c <= B /\ List.length rest + sneed c <= Bs) /\ sks_ok B Bs rest
  end.

Definition common (B Bs : nat) (lazy : bool) (s : st) : Prop :=
  pcnt s <= List.length (ps s) /\ sks_ok B Bs (sks s) /\ List.length (sks s) + sneed (cur s) <= Bs /\
  (tsr s = true -> lazy = false -> List.length (tps s) <= B) /\ List.length (ps s) <= B.

Definition budget (B : nat) (s : st) : Prop :=
  List.length (ps s) + (List.length (nparams (cur s)) - pkc s) + maxc (cur s) <= B.

Definition inv (B Bs : nat) (lazy : bool) (path : bytes) (ph : phase) (s : st) : Prop :=
  common B Bs lazy s /\
  match ph with
  | PWalk => budget B s /\ (cm s < List.length path -> pkc s = 0)
  | PInner i => budget B s /\ i = cmn s /\ synced (cur s) i (pkc s) /\ nocatch (cur s) (pkc s)
  | PSelect => budget B s
  | PAfter => True
  | PBack => pkc s = 0
  | PCatch ino start => List.length (ps s) + 1 + wdepth ino <= B /\ sneed ino <= Bs
  end.

Definition res_ok (B : nat) (lazy : bool) (r : lres) : Prop :=
  match r with
  | Found _ t p tp => List.length p <= B /\ (t = true -> lazy = false -> List.length tp <= B)
  | _ => True
  end.

Definition good (C : hw) (B : nat) (lazy : bool) (x : lres * hw) : Prop :=
  hw_le (snd x) C /\ res_ok B lazy (fst x).

Lemma bump_le : forall C B Bs lazy s h,
  B <= h_ps C -> B <= h_tps C -> Bs <= h_sks C -> common B Bs lazy s -> hw_le h C -> hw_le (bump lazy h s) C.
Proof.
  unfold hw_le, bump, common; intros C B Bs lazy s h H1 H2 H3 (Hc1 & Hc2 & Hc3 & Hc4 & Hc5) (Ha & Hb & Hc); cbn [h_ps h_tps h_sks].
  repeat split; try lia.
  destruct (tsr s) eqn:Et, lazy eqn:El; cbn [andb negb]; try lia;
  try (specialize (Hc4 eq_refl eq_refl); lia).
Qed.

Lemma hp_le : forall C h p, hw_le h C -> List.length p <= h_ps C -> hw_le (hp h p) C.
Proof. unfold hw_le, hp; intros C h p (Ha & Hb & Hc) Hp; cbn [h_ps h_tps h_sks]; repeat split; lia. Qed.

Ltac prj := cbn [cur par cm cmn pcnt pkc sks ps tsr tn tps set_tsr push descend init_st dpush dgo
                 sk_n sk_path sk_pcnt sk_child sks_ok fst snd List.length] in *.

Lemma common_set_tsr : forall B Bs lazy s n tp,
  common B Bs lazy s -> (lazy = false -> List.length tp <= B) -> common B Bs lazy (set_tsr lazy s n tp).
Proof.
  unfold common; intros B Bs lazy s n tp (H1 & H2 & H3 & H4 & H5) Htp; prj.
  repeat split; try assumption. intros _ El. rewrite El. apply Htp; exact El.
Qed.

Definition pre (B Bs : nat) (lazy : bool) (s : st) (k : nat) : Prop :=
  pcnt s <= List.length (ps s) /\ sks_ok B Bs (sks s) /\
  List.length (sks s) + k + maxl sneed (nchildren (cur s)) <= Bs /\
  (tsr s = true -> lazy = false -> List.length (tps s) <= B) /\ List.length (ps s) <= B /\
  List.length (ps s) + maxc (cur s) <= B.

Lemma pre_of_common : forall B Bs lazy s, common B Bs lazy s -> budget B s -> pre B Bs lazy s (alts (cur s)).
Proof.
  unfold common, pre, budget; intros B Bs lazy s (H1 & H2 & H3 & H4 & H5) Hb. rewrite sneed_eq in H3.
  repeat split; try assumption; lia.
Qed.

Lemma pre_push : forall B Bs lazy s k idx, pre B Bs lazy s (S k) -> pre B Bs lazy (push s idx) k.
Proof.
  unfold pre, budget; intros B Bs lazy s k idx (H1 & H2 & H3 & H4 & H5 & Hb); prj.
  repeat split; try assumption; try lia.
  - pose proof (child_wdepth _ _ _ H). lia.
  - pose proof (maxl_nth sneed _ _ _ H). lia.
Qed.

Lemma pre_set_tsr : forall B Bs lazy s k n tp,
  pre B Bs lazy s k -> (lazy = false -> List.length tp <= B) -> pre B Bs lazy (set_tsr lazy s n tp) k.
Proof.
  unfold pre, budget; intros B Bs lazy s k n tp (H1 & H2 & H3 & H4 & H5 & Hb) Htp; prj.
  repeat split; try assumption. intros _ El. rewrite El. apply Htp; exact El.
Qed.

Lemma pre_descend : forall B Bs lazy path s k i c,
  pre B Bs lazy s k -> nth_error (nchildren (cur s)) i = Some c -> inv B Bs lazy path PWalk (descend s c).
Proof.
  unfold pre, inv, common, budget; intros B Bs lazy path s k i c (H1 & H2 & H3 & H4 & H5 & Hb) Hc; prj.
  pose proof (child_wdepth _ _ _ Hc) as Hw. pose proof (maxl_nth sneed _ _ _ Hc) as Hs. rewrite wdepth_eq in Hw.
  repeat split; try assumption; try lia.
Qed.

Lemma pre_common : forall B Bs lazy s, pre B Bs lazy s (alts (cur s)) -> common B Bs lazy s.
Proof.
  unfold common, pre; intros B Bs lazy s (H1 & H2 & H3 & H4 & H5 & Hb). rewrite sneed_eq.
  repeat split; try assumption; lia.
Qed.

  Ltac rec_call := match goal with
    | IH : _, HB1 : _ <= h_ps ?C, HB2 : _ <= h_tps ?C, HB3 : ?Bs <= h_sks ?C |- good ?C ?B _ (lbpI _ _ _ _ _ _) =>
        apply (IH C _ _ _ _ _ B Bs HB1 HB2 HB3); [|assumption]
    end.
  Ltac leaf_res := split; cbn [fst snd]; [assumption || (apply hp_le; [assumption|]) | cbn [res_ok]].


Section Step.
  Variable f : nat.
  Hypothesis IH : forall C path lazy ph s h B Bs,
    B <= h_ps C -> B <= h_tps C -> Bs <= h_sks C ->
    inv B Bs lazy path ph s -> hw_le h C -> good C B lazy (lbpI f path lazy ph s h).

  Variables (C : hw) (path : bytes) (lazy : bool) (s : st) (h : hw) (B Bs : nat).
  Hypothesis HB1 : B <= h_ps C.
  Hypothesis HB2 : B <= h_tps C.
  Hypothesis HB3 : Bs <= h_sks C.
  Hypothesis Hh : hw_le h C.

  Lemma step_PWalk : inv B Bs lazy path PWalk s -> good C B lazy (lbpI (S f) path lazy PWalk s h).
  Proof.
    intros (Hc & Hb & Hk). pose proof (bump_le _ _ _ _ _ _ HB1 HB2 HB3 Hc Hh) as Hh1.
    cbn [lbpI]. destruct (Nat.ltb (cm s) (List.length path)) eqn:E.
    - apply Nat.ltb_lt in E. apply (IH C _ _ _ _ _ B Bs HB1 HB2 HB3); [|assumption]. unfold inv, common, budget in *; prj.
      rewrite (Hk E) in *. destruct (synced_0 (cur s)). repeat split; tauto || lia.
    - apply (IH C _ _ _ _ _ B Bs HB1 HB2 HB3); [|assumption]. split; [assumption|exact I].
  Qed.
  Lemma step_PBack : inv B Bs lazy path PBack s -> good C B lazy (lbpI (S f) path lazy PBack s h).
  Proof.
    intros (Hc & Hk). pose proof (bump_le _ _ _ _ _ _ HB1 HB2 HB3 Hc Hh) as Hh1.
    destruct Hc as (H1 & H2 & H3 & H4 & H5).
    cbn [lbpI]. destruct (sks s) as [|sk rest] eqn:Es.
    - leaf_res. split; assumption.
    - destruct (nth_error (nchildren (sk_n sk)) (sk_child sk)) as [c|] eqn:Ec; [|leaf_res; exact I].
      destruct (Nat.ltb (List.length (ps s)) (sk_pcnt sk)) eqn:El; [leaf_res; exact I|].
      apply Nat.ltb_ge in El. rec_call.
      cbn [sks_ok List.length] in H2, H3. destruct H2 as [Hsk H2]. destruct (Hsk _ Ec) as [Ha Hb].
      unfold inv, common, budget; prj. rewrite firstn_length, Hk. rewrite (wdepth_eq c) in Ha.
      repeat split; try assumption; try lia.
  Qed.

  Lemma step_PAfter : inv B Bs lazy path PAfter s -> good C B lazy (lbpI (S f) path lazy PAfter s h).
  Proof.
    intros (Hc & _). pose proof (bump_le _ _ _ _ _ _ HB1 HB2 HB3 Hc Hh) as Hh1.
    assert (Hc' : common B Bs lazy {| cur := cur s; par := par s; cm := cm s; cmn := cmn s; pcnt := 0; pkc := 0; sks := sks s;
                  ps := ps s; tsr := tsr s; tn := tn s; tps := tps s |}).
    { destruct Hc as (H1 & H2 & H3 & H4 & H5). unfold common; prj. repeat split; try assumption; lia. }
    assert (H5 : List.length (ps s) <= B) by (destruct Hc as (_ & _ & _ & _ & H5); exact H5).
    assert (H4 : tsr s = true -> lazy = false -> List.length (tps s) <= B) by (destruct Hc as (_ & _ & _ & H4 & _); exact H4).
    cbn [lbpI]. prj.
    repeat match goal with
    | |- good _ _ _ (lbpI _ _ _ PBack _ _) =>
        rec_call; (split; [|reflexivity]); first [exact Hc' | apply common_set_tsr; [exact Hc'|intros; prj; exact H5]]
    | |- good _ _ _ (Found _ _ _ _, _) => leaf_res; split; [exact H5|intros; discriminate]
    | |- context [if ?c then _ else _] => destruct c eqn:?
    | |- context [match ?x with _ => _ end] => destruct x eqn:?
    end.
  Qed.
  Lemma step_PSelect : inv B Bs lazy path PSelect s -> good C B lazy (lbpI (S f) path lazy PSelect s h).
  Proof.
    intros (Hc & Hb). pose proof (bump_le _ _ _ _ _ _ HB1 HB2 HB3 Hc Hh) as Hh1.
    pose proof (pre_of_common _ _ _ _ Hc Hb) as Hp.
    assert (H5 : List.length (ps s) <= B) by (destruct Hc as (_ & _ & _ & _ & H5); exact H5).
    cbn [lbpI]. destruct (Nat.ltb (cm s) (List.length path)) eqn:E.
    2:{ apply Nat.ltb_ge in E. rec_call. split; [exact Hc|]. split; [exact Hb|]. intros; lia. }
    destruct (nth_error path (cm s)) as [p|] eqn:Ep; [|leaf_res; exact I].
    destruct (find_child (cur s) p) as [idx|] eqn:Ef.
    - unfold alts in Hp.
      destruct (wildcard_child_index (cur s)) as [wi|] eqn:Ew; destruct (param_child_index (cur s)) as [pi|] eqn:Epi;
        cbn [Nat.add] in Hp;
        (destruct (nth_error (nchildren (cur s)) idx) as [c|] eqn:Ec; [|leaf_res; exact I]); rec_call.
      + eapply pre_descend; [apply pre_push, pre_push; exact Hp|prj; exact Ec].
      + eapply pre_descend; [apply pre_push; exact Hp|prj; exact Ec].
      + eapply pre_descend; [apply pre_push; exact Hp|prj; exact Ec].
      + eapply pre_descend; [exact Hp|exact Ec].
    - match goal with |- context [if ?c then set_tsr lazy s (cur s) (ps s) else s] =>
        assert (Hp' : pre B Bs lazy (if c then set_tsr lazy s (cur s) (ps s) else s) (alts (cur s)));
        [destruct c; [apply pre_set_tsr; [exact Hp|intros; exact H5]|exact Hp]|];
        assert (Ecur : cur (if c then set_tsr lazy s (cur s) (ps s) else s) = cur s) by (destruct c; reflexivity);
        generalize dependent (if c then set_tsr lazy s (cur s) (ps s) else s) end.
      intros s' Hp' Ecur. rewrite !Ecur. unfold alts in Hp'.
      destruct (param_child_index (cur s)) as [pi|] eqn:Epi; destruct (wildcard_child_index (cur s)) as [wi|] eqn:Ew;
        cbn [Nat.add] in Hp'.
      + destruct (nth_error (nchildren (cur s)) pi) as [c|] eqn:Ec; [|leaf_res; exact I]. rec_call.
        eapply pre_descend; [apply pre_push; eapply Hp'|prj; rewrite Ecur; exact Ec].
      + destruct (nth_error (nchildren (cur s)) pi) as [c|] eqn:Ec; [|leaf_res; exact I]. rec_call.
        eapply pre_descend; [eapply Hp'|rewrite Ecur; exact Ec].
      + destruct (nth_error (nchildren (cur s)) wi) as [c|] eqn:Ec; [|leaf_res; exact I]. rec_call.
        eapply pre_descend; [eapply Hp'|rewrite Ecur; exact Ec].
      + rec_call. split; [|exact I]. apply pre_common. unfold alts. rewrite Ecur, Epi, Ew. exact Hp'.
  Qed.
  Lemma step_PCatch : forall ino start, inv B Bs lazy path (PCatch ino start) s ->
    good C B lazy (lbpI (S f) path lazy (PCatch ino start) s h).
  Proof.
    intros ino start (Hc & K1 & K2). pose proof (bump_le _ _ _ _ _ _ HB1 HB2 HB3 Hc Hh) as Hh1.
    pose proof Hc as (H1 & H2 & H3 & H4 & H5).
    cbn [lbpI]. destruct (nth_error (nparams (cur s)) (pkc s)) as [prm|] eqn:Ep; [|leaf_res; exact I].
    destruct (index_byte (skipn (cm s) path) "/") as [[|d]|] eqn:Ei.
    2:{ (* a further segment: sub-lookup on another context *)
      assert (Hsub : good C (wdepth ino) false
                (lbpI f (skipn (cm s + S d) path) false PWalk (init_st ino [] []) (bump lazy h s))).
      { apply (IH C _ _ _ _ _ (wdepth ino) Bs); try assumption; try lia.
        unfold inv, common, budget; prj. rewrite (wdepth_eq ino). repeat split; try lia; try exact I; try (intros; discriminate). }
      destruct (lbpI f (skipn (cm s + S d) path) false PWalk (init_st ino [] []) (bump lazy h s)) as [r h1].
      destruct Hsub as [Hh2 Hr]; cbn [fst snd] in Hh2, Hr.
      destruct r as [[sn|] [|] sps stps| |]; cbn [res_ok] in Hr.
      - destruct (tsr s) eqn:Et; rec_call; (split; [|split; prj; assumption]).
        + unfold common; prj. repeat split; try assumption. intros; apply H4; solve [reflexivity | assumption].
        + assert (Hc' : common B Bs lazy (set_tsr lazy s sn (ps s ++ [(pkey prm, slice path start (cm s + S d))] ++ stps))).
          { apply common_set_tsr; [exact Hc|]. intros El. destruct Hr as [_ Hr]. specialize (Hr eq_refl eq_refl).
            rewrite !app_length; cbn [List.length]. unfold kv in *; lia. }
          unfold common in *; prj. exact Hc'.
      - leaf_res.
        + destruct lazy; [lia|]. rewrite !app_length; cbn [List.length]. destruct Hr as [Hr _]. unfold kv in *; lia.
        + split; [|intros; discriminate]. destruct lazy; [lia|]. rewrite !app_length; cbn [List.length]. destruct Hr as [Hr _]. unfold kv in *; lia.
      - rec_call. split; [|split; assumption]. unfold common; prj. repeat split; assumption.
      - rec_call. split; [|split; assumption]. unfold common; prj. repeat split; assumption.
      - leaf_res; exact I.
      - leaf_res; exact I. }
    all: assert (Hps' : List.length (if lazy then ps s else ps s ++ [(pkey prm, skipn start path)]) <= B)
           by (destruct lazy; [lia|rewrite app_length; cbn [List.length]; unfold kv in *; lia]).
    all: assert (Hps'' : pcnt s <= List.length (if lazy then ps s else ps s ++ [(pkey prm, skipn start path)]))
           by (destruct lazy; [lia|rewrite app_length; cbn [List.length]; unfold kv in *; lia]).
    all: destruct (pend prm) as [e|] eqn:Ee; [|leaf_res; [lia|split; [exact Hps'|intros; discriminate]]].
    all: destruct (nth_error path start) as [c0|] eqn:Ec0; [|leaf_res; exact I].
    all: destruct (Ascii.eqb c0 "/"); rec_call; (split; [|exact I]); try exact Hc.
    all: unfold common; prj; repeat split; assumption.
  Qed.
  Lemma brace_inv : forall i prm cm' v,
    inv B Bs lazy path (PInner i) s -> i < List.length (nkey (cur s)) ->
    nth_error (nkey (cur s)) i = Some "{" -> nth_error (nparams (cur s)) (pkc s) = Some prm ->
    inv B Bs lazy path
      (PInner (i + match pend prm with
                   | Some e => if Nat.leb (cmn s) e then e - cmn s else List.length (nkey (cur s)) - cmn s
                   | None => List.length (nkey (cur s)) - cmn s end))
      {| cur := cur s; par := par s; cm := cm';
         cmn := cmn s + match pend prm with
                        | Some e => if Nat.leb (cmn s) e then e - cmn s else List.length (nkey (cur s)) - cmn s
                        | None => List.length (nkey (cur s)) - cmn s end;
         pcnt := if lazy then pcnt s else S (pcnt s); pkc := S (pkc s); sks := sks s;
         ps := if lazy then ps s else ps s ++ [(pkey prm, v)];
         tsr := tsr s; tn := tn s; tps := tps s |}.
  Proof.
    intros i prm cm' v ((H1 & H2 & H3 & H4 & H5) & Hb & Hi & Hs & Hn) Hlt Hk Hp.
    destruct (synced_brace _ _ _ _ Hs Hk Hp) as [Hpc Hpe].
    assert (Hpk : pkc s < List.length (nparams (cur s))) by (apply nth_error_Some; congruence).
    unfold inv, common, budget in *; prj. subst i.
    repeat split; try assumption.
    - destruct lazy; [lia|]. rewrite app_length; cbn [List.length]. lia.
    - destruct lazy; [lia|]. rewrite app_length; cbn [List.length]. unfold kv in *; lia.
    - destruct lazy; [lia|]. rewrite app_length; cbn [List.length]. unfold kv in *; lia.
    - destruct (pend prm) as [e|].
      + destruct Hpe as [Hlt' Hs']. assert (El : Nat.leb (cmn s) e = true) by (apply Nat.leb_le; lia). rewrite El.
        replace (cmn s + (e - cmn s)) with e by lia. exact Hs'.
      + replace (cmn s + (List.length (nkey (cur s)) - cmn s)) with (List.length (nkey (cur s))) by lia.
        unfold synced. rewrite skipn_all, Hpe. reflexivity.
    - unfold nocatch in *. rewrite Hn, (skipn_nth_cons _ _ _ _ Hp). cbn [first_infix_catch]. rewrite Hpc. reflexivity.
  Qed.

  Lemma step_PInner : forall i, inv B Bs lazy path (PInner i) s -> good C B lazy (lbpI (S f) path lazy (PInner i) s h).
  Proof.
    intros i Hinv. pose proof Hinv as (Hc & Hb & Hi & Hs & Hn).
    pose proof (bump_le _ _ _ _ _ _ HB1 HB2 HB3 Hc Hh) as Hh1.
    pose proof Hc as (H1 & H2 & H3 & H4 & H5).
    cbn [lbpI].
    destruct (negb (Nat.ltb (cm s) (List.length path))) eqn:E1; [rec_call; split; assumption|].
    destruct (negb (Nat.ltb i (List.length (nkey (cur s))))) eqn:E2; [rec_call; split; assumption|].
    apply Bool.negb_false_iff, Nat.ltb_lt in E2.
    destruct (nth_error (nkey (cur s)) i) as [k|] eqn:Ek; [|leaf_res; exact I].
    destruct (nth_error path (cm s)) as [p|] eqn:Epth; [|leaf_res; exact I].
    destruct (negb (Ascii.eqb k p) || Ascii.eqb p "{" || Ascii.eqb p "*") eqn:Econd.
    2:{ apply Bool.orb_false_iff in Econd as [Econd Ep2]. apply Bool.orb_false_iff in Econd as [Ekp Ep1].
        apply Bool.negb_false_iff, Ascii.eqb_eq in Ekp. subst p.
        rec_call. unfold inv, common, budget in *; prj. subst i.
        repeat split; try assumption. eapply synced_static; eauto. }
    destruct (Ascii.eqb k "{") eqn:Ekb.
    - apply Ascii.eqb_eq in Ekb. subst k.
      destruct (index_byte (skipn (cm s) path) "/") as [[|d]|] eqn:Eidx.
      + rec_call. split; [exact Hc|exact I].
      + destruct (nth_error (nparams (cur s)) (pkc s)) as [prm|] eqn:Eprm; [|leaf_res; exact I].
        rec_call. apply brace_inv; assumption.
      + destruct (nth_error (nparams (cur s)) (pkc s)) as [prm|] eqn:Eprm; [|leaf_res; exact I].
        rec_call. apply brace_inv; assumption.
    - destruct (Ascii.eqb k "*") eqn:Eks; [|rec_call; split; [exact Hc|exact I]].
      apply Ascii.eqb_eq in Eks. subst k.
      destruct (nth_error (nparams (cur s)) (pkc s)) as [prm|] eqn:Eprm; [|leaf_res; exact I].
      assert (Hpk : pkc s < List.length (nparams (cur s))) by (apply nth_error_Some; congruence).
      assert (Hcm : forall x, common B Bs lazy {| cur := cur s; par := par s; cm := cm s; cmn := x; pcnt := pcnt s;
                      pkc := pkc s; sks := sks s; ps := ps s; tsr := tsr s; tn := tn s; tps := tps s |})
        by (intros x; unfold common; prj; repeat split; assumption).
      assert (Hnone : good C B lazy
        match nchildren (cur s) with
        | [] => (Found (Some (cur s)) false (if lazy then ps s else ps s ++ [(pkey prm, skipn (cm s) path)]) (tps s),
                 hp (bump lazy h s) (if lazy then ps s else ps s ++ [(pkey prm, skipn (cm s) path)]))
        | c0 :: _ => lbpI f path lazy (PCatch c0 (cm s))
              {| cur := cur s; par := par s; cm := cm s; cmn := cmn s + (List.length (nkey (cur s)) - cmn s); pcnt := pcnt s;
                 pkc := pkc s; sks := sks s; ps := ps s; tsr := tsr s; tn := tn s; tps := tps s |} (bump lazy h s)
        end).
      { unfold budget in Hb. destruct (nchildren (cur s)) as [|c0 rest] eqn:Ech.
        - assert (Hl : List.length (if lazy then ps s else ps s ++ [(pkey prm, skipn (cm s) path)]) <= B)
            by (destruct lazy; [lia|rewrite app_length; cbn [List.length]; unfold kv in *; lia]).
          leaf_res; [lia|split; [exact Hl|intros; discriminate]].
        - assert (E0 : nth_error (nchildren (cur s)) 0 = Some c0) by (rewrite Ech; reflexivity).
          pose proof (child_wdepth _ _ _ E0). pose proof (child_sneed _ _ _ E0).
          rec_call. split; [apply Hcm|]. prj. split; lia. }
      destruct (pend prm) as [e|] eqn:Ee; [|exact Hnone].
      destruct (Nat.leb (cmn s) e) eqn:El; [|exact Hnone].
      destruct (inode (cur s)) as [ino|] eqn:Eino; [|leaf_res; exact I].
      destruct (synced_star _ _ _ _ Hs Ek Eprm) as [Hpc Hpe]. rewrite Ee in Hpe. destruct Hpe as [Hlt Hs'].
      destruct (inode_params _ _ _ _ _ Hn Eprm Hpc Ee Hs' Eino) as [Hlen Hch].
      rec_call. split; [apply Hcm|]. prj. unfold budget in Hb.
      split.
      + rewrite wdepth_eq. unfold maxc in *. rewrite Hch. lia.
      + rewrite sneed_eq. rewrite (sneed_eq (cur s)) in H3.
        unfold alts, wildcard_child_index, param_child_index in *. rewrite Hch. lia.
  Qed.
End Step.

Lemma lbpI_inv : forall f C path lazy ph s h B Bs,
  B <= h_ps C -> B <= h_tps C -> Bs <= h_sks C ->
  inv B Bs lazy path ph s -> hw_le h C -> good C B lazy (lbpI f path lazy ph s h).
Proof.
  induction f as [|f IH]; intros C path lazy ph s h B Bs HB1 HB2 HB3 Hinv Hh.
  - split; [exact Hh|exact I].
  - destruct ph.
    + eapply step_PWalk; eauto.
    + eapply step_PInner; eauto.
    + eapply step_PSelect; eauto.
    + eapply step_PAfter; eauto.
    + eapply step_PBack; eauto.
    + eapply step_PCatch; eauto.
Qed.

(* lookupByPath from a context holding ps0 *)
Lemma lookup_by_pathI_inv : forall f C target path lazy ps0 tps0 h B Bs,
  B <= h_ps C -> B <= h_tps C -> Bs <= h_sks C ->
  List.length ps0 + wdepth target <= B -> sneed target <= Bs -> hw_le h C ->
  good C B lazy (lookup_by_pathI f target path lazy ps0 tps0 h).
Proof.
  intros f C target path lazy ps0 tps0 h B Bs HB1 HB2 HB3 Hw Hs Hh.
  unfold lookup_by_pathI. eapply lbpI_inv; eauto.
  unfold inv, common, budget; prj. rewrite wdepth_eq in Hw.
  repeat split; try lia; try exact I; try (intros; discriminate).
Qed.

(* ---------- 5. lookupByDomain ---------- *)
Definition dinv (B Bs : nat) (lazy : bool) (ph : dphase) (s : st) : Prop :=
  common B Bs lazy s /\ match ph with DBack => pkc s = 0 | _ => budget B s end.

Lemma pre_dgo : forall B Bs lazy s k i c,
  pre B Bs lazy s k -> nth_error (nchildren (cur s)) i = Some c -> dinv B Bs lazy DWalk (dgo s c).
Proof.
  unfold pre, dinv, common, budget; intros B Bs lazy s k i c (H1 & H2 & H3 & H4 & H5 & Hb) Hc; prj.
  pose proof (child_wdepth _ _ _ Hc) as Hw. pose proof (maxl_nth sneed _ _ _ Hc) as Hs. rewrite wdepth_eq in Hw.
  repeat split; try assumption; try lia.
Qed.

Section DStep.
  Variable f : nat.
  Hypothesis IH : forall C host path lazy ph s h B Bs,
    B <= h_ps C -> B <= h_tps C -> Bs <= h_sks C ->
    dinv B Bs lazy ph s -> hw_le h C -> good C B lazy (lbdI f host path lazy ph s h).

  Variables (C : hw) (host path : bytes) (lazy : bool) (s : st) (h : hw) (B Bs : nat).
  Hypothesis HB1 : B <= h_ps C.
  Hypothesis HB2 : B <= h_tps C.
  Hypothesis HB3 : Bs <= h_sks C.
  Hypothesis Hh : hw_le h C.

  Ltac drec_call := match goal with
    | IH : _, HB1 : _ <= h_ps ?C, HB2 : _ <= h_tps ?C, HB3 : ?Bs <= h_sks ?C |- good ?C ?B _ (lbdI _ _ _ _ _ _ _) =>
        apply (IH C _ _ _ _ _ _ B Bs HB1 HB2 HB3); [|assumption]
    end.

  Lemma step_DWalk : dinv B Bs lazy DWalk s -> good C B lazy (lbdI (S f) host path lazy DWalk s h).
  Proof.
    intros (Hc & Hb). pose proof (bump_le _ _ _ _ _ _ HB1 HB2 HB3 Hc Hh) as Hh1.
    cbn [lbdI]. destruct (Nat.ltb (cm s) (List.length host)); drec_call.
    - unfold dinv, common, budget in *; prj. tauto.
    - split; assumption.
  Qed.

  Lemma step_DInner : forall i, dinv B Bs lazy (DInner i) s -> good C B lazy (lbdI (S f) host path lazy (DInner i) s h).
  Proof.
    intros i (Hc & Hb). pose proof (bump_le _ _ _ _ _ _ HB1 HB2 HB3 Hc Hh) as Hh1.
    pose proof Hc as (H1 & H2 & H3 & H4 & H5).
    cbn [lbdI].
    destruct (negb (Nat.ltb (cm s) (List.length host))); [drec_call; split; assumption|].
    destruct (negb (Nat.ltb i (List.length (nkey (cur s))))); [drec_call; split; assumption|].
    destruct (nth_error (nkey (cur s)) i) as [k|]; [|leaf_res; exact I].
    destruct (nth_error host (cm s)) as [p|]; [|leaf_res; exact I].
    destruct (negb (Ascii.eqb k p) || Ascii.eqb p "{").
    2:{ drec_call. unfold dinv, common, budget in *; prj. tauto. }
    destruct (Ascii.eqb k "{"); [|drec_call; split; assumption].
    assert (Hstep : forall prm cm' adv v, nth_error (nparams (cur s)) (pkc s) = Some prm ->
      dinv B Bs lazy (DInner (i + adv))
        {| cur := cur s; par := par s; cm := cm'; cmn := cmn s + adv;
           pcnt := if lazy then pcnt s else S (pcnt s); pkc := S (pkc s); sks := sks s;
           ps := if lazy then ps s else ps s ++ [(pkey prm, v)]; tsr := tsr s; tn := tn s; tps := tps s |}).
    { intros prm cm' adv v Hp.
      assert (Hpk : pkc s < List.length (nparams (cur s))) by (apply nth_error_Some; congruence).
      unfold dinv, common, budget in *; prj.
      repeat split; try assumption; (destruct lazy; [lia|]); rewrite app_length; cbn [List.length]; unfold kv in *; lia. }
    destruct (index_byte (skipn (cm s) host) ".") as [[|d]|].
    - drec_call; split; assumption.
    - destruct (nth_error (nparams (cur s)) (pkc s)) as [prm|] eqn:Eprm; [|leaf_res; exact I].
      drec_call. apply Hstep; reflexivity.
    - destruct (nth_error (nparams (cur s)) (pkc s)) as [prm|] eqn:Eprm; [|leaf_res; exact I].
      drec_call. apply Hstep; reflexivity.
  Qed.

  Lemma step_DSelect : dinv B Bs lazy DSelect s -> good C B lazy (lbdI (S f) host path lazy DSelect s h).
  Proof.
    intros (Hc & Hb). pose proof (bump_le _ _ _ _ _ _ HB1 HB2 HB3 Hc Hh) as Hh1.
    pose proof (pre_of_common _ _ _ _ Hc Hb) as Hp.
    cbn [lbdI]. destruct (Nat.ltb (cm s) (List.length host)); [|drec_call; split; assumption].
    destruct (nth_error host (cm s)) as [p|]; [|leaf_res; exact I].
    destruct (find_child (cur s) p) as [idx|].
    - destruct (param_child_index (cur s)) as [pi|] eqn:Epi.
      + destruct (nth_error (nchildren (cur s)) idx) as [c|] eqn:Ec; [|leaf_res; exact I]. drec_call.
        change (dpush s (cur s) pi) with (push s pi).
        eapply pre_dgo; [apply (pre_push _ _ _ _ 0)|prj; exact Ec].
        pose proof (alts_p _ _ Epi). destruct Hp as (P1 & P2 & P3 & P4 & P5 & P6).
        unfold pre. repeat split; try assumption. lia.
      + destruct (nth_error (nchildren (cur s)) idx) as [c|] eqn:Ec; [|leaf_res; exact I]. drec_call.
        eapply pre_dgo; [exact Hp|exact Ec].
    - destruct (param_child_index (cur s)) as [pi|] eqn:Epi; [|drec_call; split; assumption].
      destruct (nth_error (nchildren (cur s)) pi) as [c|] eqn:Ec; [|leaf_res; exact I]. drec_call.
      eapply pre_dgo; [exact Hp|exact Ec].
  Qed.

  Lemma step_DBack : dinv B Bs lazy DBack s -> good C B lazy (lbdI (S f) host path lazy DBack s h).
  Proof.
    intros (Hc & Hk). pose proof (bump_le _ _ _ _ _ _ HB1 HB2 HB3 Hc Hh) as Hh1.
    destruct Hc as (H1 & H2 & H3 & H4 & H5).
    cbn [lbdI]. destruct (sks s) as [|sk rest] eqn:Es.
    - leaf_res. split; assumption.
    - destruct (nth_error (nchildren (sk_n sk)) (sk_child sk)) as [c|] eqn:Ec; [|leaf_res; exact I].
      destruct (Nat.ltb (List.length (ps s)) (sk_pcnt sk)) eqn:El; [leaf_res; exact I|].
      apply Nat.ltb_ge in El. drec_call.
      cbn [sks_ok List.length] in H2, H3. destruct H2 as [Hsk H2]. destruct (Hsk _ Ec) as [Ha Hb].
      unfold dinv, common, budget; prj. rewrite firstn_length, Hk. rewrite (wdepth_eq c) in Ha.
      repeat split; try assumption; try lia.
  Qed.

  Lemma step_DAfter : dinv B Bs lazy DAfter s -> good C B lazy (lbdI (S f) host path lazy DAfter s h).
  Proof.
    intros (Hc & Hb). pose proof (bump_le _ _ _ _ _ _ HB1 HB2 HB3 Hc Hh) as Hh1.
    pose proof Hc as (H1 & H2 & H3 & H4 & H5).
    assert (Hc' : common B Bs lazy {| cur := cur s; par := par s; cm := cm s; cmn := cmn s; pcnt := 0; pkc := 0; sks := sks s;
                  ps := ps s; tsr := tsr s; tn := tn s; tps := tps s |}).
    { unfold common; prj. repeat split; try assumption; lia. }
    cbn [lbdI]. prj.
    destruct (Nat.eqb (cm s) (List.length host) && Nat.eqb (cmn s) (List.length (nkey (cur s))));
      [|drec_call; split; [exact Hc'|reflexivity]].
    destruct (find_child (cur s) "/") as [idx|]; [|drec_call; split; [exact Hc'|reflexivity]].
    destruct (nth_error (nchildren (cur s)) idx) as [c|] eqn:Ec; [|leaf_res; exact I].
    pose proof (child_wdepth _ _ _ Ec) as Hw. pose proof (child_sneed _ _ _ Ec) as Hs. unfold budget in Hb.
    assert (Hsub : good C (wdepth c) lazy (lookup_by_pathI f c path lazy [] [] (bump lazy h s))).
    { eapply lookup_by_pathI_inv; try eassumption; try lia. cbn [List.length]. lia. }
    destruct (lookup_by_pathI f c path lazy [] [] (bump lazy h s)) as [r h1].
    destruct Hsub as [Hh2 Hr]; cbn [fst snd] in Hh2, Hr.
    destruct r as [[sn|] [|] sps stps| |]; cbn [res_ok] in Hr.
    - drec_call. split; [|destruct (tsr s); reflexivity].
      destruct (tsr s) eqn:Et; [exact Hc'|].
      apply common_set_tsr; [exact Hc'|]. intros El. destruct Hr as [_ Hr]. specialize (Hr eq_refl El).
      prj. rewrite app_length. unfold kv in *; lia.
    - assert (Hl : List.length (if lazy then ps s else ps s ++ sps) <= B)
        by (destruct lazy; [lia|rewrite app_length; destruct Hr as [Hr _]; unfold kv in *; lia]).
      leaf_res; [lia|split; [exact Hl|intros; discriminate]].
    - drec_call; split; [exact Hc'|reflexivity].
    - drec_call; split; [exact Hc'|reflexivity].
    - leaf_res; exact I.
    - leaf_res; exact I.
  Qed.
End DStep.

Lemma lbdI_inv : forall f C host path lazy ph s h B Bs,
  B <= h_ps C -> B <= h_tps C -> Bs <= h_sks C ->
  dinv B Bs lazy ph s -> hw_le h C -> good C B lazy (lbdI f host path lazy ph s h).
Proof.
  induction f as [|f IH]; intros C host path lazy ph s h B Bs HB1 HB2 HB3 Hinv Hh.
  - split; [exact Hh|exact I].
  - destruct ph.
    + eapply step_DWalk; eauto.
    + eapply step_DInner; eauto.
    + eapply step_DSelect; eauto.
    + eapply step_DAfter; eauto.
    + eapply step_DBack; eauto.
Qed.

Lemma lookup_by_domainI_inv : forall f C target host path lazy ps0 tps0 h B Bs,
  B <= h_ps C -> B <= h_tps C -> Bs <= h_sks C ->
  List.length ps0 + maxc target <= B -> sneed target <= Bs -> hw_le h C ->
  good C B lazy (lookup_by_domainI f target host path lazy ps0 tps0 h).
Proof.
  intros f C target host path lazy ps0 tps0 h B Bs HB1 HB2 HB3 Hw Hs Hh.
  assert (Hp : pre B Bs lazy (init_st target ps0 tps0) (alts target)).
  { unfold pre; prj. rewrite sneed_eq in Hs. repeat split; try lia; try exact I; try (intros; discriminate). }
  unfold lookup_by_domainI. destruct host as [|h0 host']; [leaf_res; exact I|].
  destruct (find_child target h0) as [idx|].
  - destruct (param_child_index target) as [pi|] eqn:Epi.
    + destruct (nth_error (nchildren target) idx) as [c|] eqn:Ec; [|leaf_res; exact I].
      apply (lbdI_inv _ C _ _ _ _ _ _ B Bs HB1 HB2 HB3); [|assumption].
      change (dpush (init_st target ps0 tps0) target pi) with (push (init_st target ps0 tps0) pi).
      eapply pre_dgo; [apply (pre_push _ _ _ _ 0)|prj; exact Ec].
      pose proof (alts_p _ _ Epi). destruct Hp as (P1 & P2 & P3 & P4 & P5 & P6).
      unfold pre. prj. repeat split; try assumption. lia.
    + destruct (nth_error (nchildren target) idx) as [c|] eqn:Ec; [|leaf_res; exact I].
      apply (lbdI_inv _ C _ _ _ _ _ _ B Bs HB1 HB2 HB3); [|assumption].
      eapply pre_dgo; [exact Hp|exact Ec].
  - destruct (param_child_index target) as [pi|] eqn:Epi.
    + destruct (nth_error (nchildren target) pi) as [c|] eqn:Ec; [|leaf_res; exact I].
      apply (lbdI_inv _ C _ _ _ _ _ _ B Bs HB1 HB2 HB3); [|assumption].
      eapply pre_dgo; [exact Hp|exact Ec].
    + leaf_res. split; [lia|intros; discriminate].
Qed.

(* ---------- 6. roots.lookup on a reset context (ServeHTTP: c.reset => params[:0]) ---------- *)
Lemma roots_lookupI_good : forall f r m host path lazy tps0 h C,
  wroots r <= h_ps C -> wroots r <= h_tps C -> sroots r <= h_sks C -> hw_le h C ->
  good C (wroots r) lazy (roots_lookupI f r m host path lazy [] tps0 h).
Proof.
  intros f r m host path lazy tps0 h C HB1 HB2 HB3 Hh.
  unfold roots_lookupI.
  destruct (method_index r m) as [index|]; [|leaf_res; split; [cbn; lia|intros; discriminate]].
  destruct (nth_error r index) as [root|] eqn:Er; [|leaf_res; exact I].
  assert (Hw : maxc root <= wroots r) by (unfold wroots; eapply maxl_nth; eauto).
  assert (Hs : sneed root <= sroots r) by (unfold sroots; eapply maxl_nth; eauto).
  assert (Hchild : forall i c hh, nth_error (nchildren root) i = Some c -> hw_le hh C -> forall tp,
            good C (wroots r) lazy (lookup_by_pathI f c path lazy [] tp hh)).
  { intros i c hh Ec Hhh tp. pose proof (child_wdepth _ _ _ Ec). pose proof (child_sneed _ _ _ Ec).
    eapply lookup_by_pathI_inv; try eassumption; cbn [List.length]; lia. }
  assert (Hfb : forall hh tp, hw_le hh C ->
            good C (wroots r) lazy
              match find_child root "/" with
              | Some idx => match nth_error (nchildren root) idx with
                            | Some c => lookup_by_pathI f c path lazy [] tp hh
                            | None => (LPanic, hh)
                            end
              | None => (Found None false [] tp, hh)
              end).
  { intros hh tp Hhh. destruct (find_child root "/") as [idx|].
    - destruct (nth_error (nchildren root) idx) as [c|] eqn:Ec; [eapply Hchild; eauto|leaf_res; exact I].
    - leaf_res; split; [cbn; lia|intros; discriminate]. }
  destruct (nchildren root) as [|c0 rest] eqn:Ech; [leaf_res; split; [cbn; lia|intros; discriminate]|].
  match goal with |- context [if ?c then _ else _] => destruct c end.
  - apply (Hchild 0 c0); [reflexivity|assumption].
  - destruct host as [|h0 host'].
    + generalize (Hfb h tps0 Hh).
      destruct (find_child root "/") as [idx|]; [intros Hf; exact Hf|intros _; leaf_res; split; [cbn; lia|intros; discriminate]].
    + assert (Hd : good C (wroots r) lazy (lookup_by_domainI f root (h0 :: host') path lazy [] tps0 h)).
      { eapply lookup_by_domainI_inv; try eassumption; cbn [List.length]; lia. }
      destruct (lookup_by_domainI f root (h0 :: host') path lazy [] tps0 h) as [res h1].
      destruct Hd as [Hh1 Hr]; cbn [fst snd] in Hh1, Hr.
      destruct res as [[n|] t p tp| |].
      * split; cbn [fst snd]; assumption.
      * generalize (Hfb h1 tp Hh1). destruct (find_child root "/") as [idx|]; intros Hf.
        -- exact Hf.
        -- split; cbn [fst snd]; [assumption|]. cbn [res_ok] in *. split; [tauto|intros; discriminate].
      * leaf_res; exact I.
      * leaf_res; exact I.
Qed.

(* ---------- 7. the theorems of C16 ---------- *)

(* (a) the instrumented lookup is M1 *)
Theorem lookupI_simulates : forall f r m host path lazy ps0 tps0 h,
  fst (roots_lookupI f r m host path lazy ps0 tps0 h) = roots_lookup f r m host path lazy ps0 tps0.
Proof. exact roots_lookupI_sim. Qed.

(* (b) params / tsrParams never hold more entries than the most wildcards on a root-to-leaf path,
       the skipped-node stack never more than sroots, in any context taking part, at any time *)
Theorem marks_bounded : forall f r m host path lazy tps0,
  hw_le (snd (roots_lookupI f r m host path lazy [] tps0 hw0))
        {| h_ps := wroots r; h_tps := wroots r; h_sks := sroots r |}.
Proof.
  intros. eapply (roots_lookupI_good f r m host path lazy tps0 hw0
                    {| h_ps := wroots r; h_tps := wroots r; h_sks := sroots r |}); cbn; try lia.
  unfold hw_le; cbn; lia.
Qed.

(* on a tree whose paths hold at most maxParams wildcards, params and tsrParams never grow:
   not even on a cold context *)
Theorem params_bounded : forall f (t : txn) m host path lazy tps0,
  wroots (t_roots t) <= t_maxparams t ->
  let h := snd (roots_lookupI f (t_roots t) m host path lazy [] tps0 hw0) in
  grow_ps (txn_caps t) h = false /\ grow_tps (txn_caps t) h = false.
Proof.
  intros f t m host path lazy tps0 Hw h.
  destruct (marks_bounded f (t_roots t) m host path lazy tps0) as (H1 & H2 & H3). cbn [h_ps h_tps h_sks] in *.
  unfold grow_ps, grow_tps, txn_caps, caps_of; cbn [h_ps h_tps h_sks]. fold h in H1, H2.
  split; apply Nat.ltb_ge; lia.
Qed.

Theorem skipped_bounded : forall f (t : txn) m host path lazy tps0,
  h_sks (snd (roots_lookupI f (t_roots t) m host path lazy [] tps0 hw0)) <= sroots (t_roots t).
Proof. intros. destruct (marks_bounded f (t_roots t) m host path lazy tps0) as (H1 & H2 & H3). exact H3. Qed.

(* ---------- 8. what the previous request left in tsrParams does not matter ---------- *)
Definition with_tps (s : st) (x : list kv) : st :=
  {| cur := cur s; par := par s; cm := cm s; cmn := cmn s; pcnt := pcnt s; pkc := pkc s; sks := sks s;
     ps := ps s; tsr := tsr s; tn := tn s; tps := x |}.

Definition rres (lazy : bool) (a b : lres * hw) : Prop :=
  snd a = snd b /\
  match fst a, fst b with
  | Found n t p tp, Found n' t' p' tp' => n = n' /\ t = t' /\ p = p' /\ (t = true -> lazy = false -> tp = tp')
  | LPanic, LPanic => True
  | LOutOfFuel, LOutOfFuel => True
  | _, _ => False
  end.

Definition trel (lazy : bool) (s : st) (x : list kv) : Prop := tsr s = true -> lazy = false -> x = tps s.

Lemma bump_with_tps : forall lazy h s x, trel lazy s x -> bump lazy h (with_tps s x) = bump lazy h s.
Proof.
  unfold trel, bump, with_tps; intros lazy h s x H; cbn [ps tsr tps sks].
  destruct (tsr s), lazy; cbn [andb negb]; try reflexivity. rewrite (H eq_refl eq_refl). reflexivity.
Qed.

Lemma rres_refl : forall lazy a, rres lazy a a.
Proof. intros lazy [[n t p tp| |] h]; unfold rres; cbn; auto. Qed.

Ltac tps_leaf Hrel :=
  first
  [ apply rres_refl
  | split; cbn [fst snd]; [reflexivity|]; repeat split; try reflexivity;
    first [ intros; discriminate | exact Hrel
          | (intros _ El; rewrite El; reflexivity)
          | (intros Et El; unfold trel in Hrel; prj; auto) ] ].

Ltac tps_step IH Hrel :=
  match goal with
  | |- rres _ (lbpI ?f ?p ?l ?ph ?sl ?h) (lbpI ?f ?p ?l ?ph ?sr ?h) =>
      let x := eval cbn [tps set_tsr] in (tps sl) in
      let E := fresh "E" in
      assert (E : sl = with_tps sr x) by (unfold with_tps; prj; congruence);
      rewrite E; clear E; apply IH; unfold trel in *; prj;
      first [ exact Hrel | (intros _ El; rewrite El; reflexivity) | (intros; discriminate) | auto | (intros; congruence) ]
  | |- rres _ (lbdI ?f ?ho ?p ?l ?ph ?sl ?h) (lbdI ?f ?ho ?p ?l ?ph ?sr ?h) =>
      let x := eval cbn [tps set_tsr] in (tps sl) in
      let E := fresh "E" in
      assert (E : sl = with_tps sr x) by (unfold with_tps; prj; congruence);
      rewrite E; clear E; apply IH; unfold trel in *; prj;
      first [ exact Hrel | (intros _ El; rewrite El; reflexivity) | (intros; discriminate) | auto | (intros; congruence) ]
  | |- rres _ (_, _) (_, _) => tps_leaf Hrel
  | |- context [if ?c then _ else _] => destruct c eqn:?; prj
  | |- context [match ?x with _ => _ end] => destruct x eqn:?; prj
  end.

Lemma lbpI_tps : forall f path lazy ph s x h,
  trel lazy s x -> rres lazy (lbpI f path lazy ph (with_tps s x) h) (lbpI f path lazy ph s h).
Proof.
  induction f as [|f IH]; intros path lazy ph s x h Hrel; [apply rres_refl|].
  destruct ph; cbn [lbpI]; rewrite (bump_with_tps _ _ _ _ Hrel); unfold with_tps, par_is_leaf, descend, push, set_tsr; prj.
  all: repeat tps_step IH Hrel.
Qed.

Lemma lbdI_tps : forall f host path lazy ph s x h,
  trel lazy s x -> rres lazy (lbdI f host path lazy ph (with_tps s x) h) (lbdI f host path lazy ph s h).
Proof.
  induction f as [|f IH]; intros host path lazy ph s x h Hrel; [apply rres_refl|].
  destruct ph; cbn [lbdI]; rewrite (bump_with_tps _ _ _ _ Hrel);
    unfold with_tps, par_is_leaf, dgo, dpush, set_tsr, lookup_by_pathI; prj.
  all: repeat tps_step IH Hrel.
Qed.

Lemma lookup_by_pathI_tps : forall f t path lazy ps0 x y h,
  rres lazy (lookup_by_pathI f t path lazy ps0 x h) (lookup_by_pathI f t path lazy ps0 y h).
Proof.
  intros. unfold lookup_by_pathI. change (init_st t ps0 x) with (with_tps (init_st t ps0 y) x).
  apply lbpI_tps. unfold trel; prj. intros; discriminate.
Qed.

Lemma lookup_by_domainI_tps : forall f t host path lazy ps0 x y h,
  rres lazy (lookup_by_domainI f t host path lazy ps0 x h) (lookup_by_domainI f t host path lazy ps0 y h).
Proof.
  intros. unfold lookup_by_domainI, dpush, dgo, init_st; prj.
  repeat match goal with
  | |- rres _ (lbdI ?f ?ho ?p ?l ?ph ?sl ?h) (lbdI ?f ?ho ?p ?l ?ph ?sr ?h) =>
      change sl with (with_tps sr x); apply lbdI_tps; unfold trel; prj; intros; discriminate
  | |- rres _ (_, _) (_, _) => split; cbn [fst snd]; [reflexivity|]; repeat split; try reflexivity; intros; discriminate
  | |- context [match ?z with _ => _ end] => destruct z eqn:?
  end.
Qed.

(* the marks of a lookup do not depend on the stale content of tsrParams *)
Theorem marks_ignore_stale_tsrparams : forall f r m host path lazy ps0 x y h,
  snd (roots_lookupI f r m host path lazy ps0 x h) = snd (roots_lookupI f r m host path lazy ps0 y h).
Proof.
  intros. unfold roots_lookupI.
  repeat match goal with
  | |- ?a = ?a => reflexivity
  | |- snd (lookup_by_pathI _ _ _ _ _ _ _) = snd (lookup_by_pathI _ _ _ _ _ _ _) => apply lookup_by_pathI_tps
  | |- context [lookup_by_domainI ?f ?t ?ho ?p ?l ?ps0 x ?h] =>
      let R := fresh "R" in
      pose proof (lookup_by_domainI_tps f t ho p l ps0 x y h) as R;
      destruct (lookup_by_domainI f t ho p l ps0 x h) as [[n1 t1 p1 tp1| |] h1];
      destruct (lookup_by_domainI f t ho p l ps0 y h) as [[n2 t2 p2 tp2| |] h2];
      destruct R as [R1 R2]; cbn [fst snd] in R1, R2; try contradiction; subst;
      [destruct R2 as (-> & -> & -> & R2)| |]; cbn [fst snd]
  | |- context [match ?z with _ => _ end] => destruct z eqn:?; cbn [fst snd]
  | |- context [if ?z then _ else _] => destruct z eqn:?; cbn [fst snd]
  end.
Qed.

(* (c) steady state: serving the same request again — whatever the request in between left in
   tsrParams — on contexts whose capacities are at least what the first run needed (capacities
   only grow, and at least to the length reached) has no growth event in any of the three buffers *)
Theorem warm_context_no_growth : forall r m host path stale1 stale2 caps caps',
  hw_le (hw_max caps (serve_marks r m host path stale1)) caps' ->
  grows caps' (serve_marks r m host path stale2) = false.
Proof.
  intros r m host path stale1 stale2 caps caps' (H1 & H2 & H3).
  unfold serve_marks in *. rewrite (marks_ignore_stale_tsrparams _ _ _ _ _ _ _ stale2 stale1).
  set (h := snd (roots_lookupI big_fuel r m host path false [] stale1 hw0)) in *.
  unfold hw_max in *; cbn [h_ps h_tps h_sks] in *.
  unfold grows, grow_ps, grow_tps, grow_sks.
  rewrite !Bool.orb_false_iff. repeat split; apply Nat.ltb_ge; lia.
Qed.

(* a cold context (capacities of allocateContext) already suffices for params and tsrParams;
   only the skipped-node stack may have to grow, and at most up to sroots *)
Theorem cold_context_growth_only_skipnds : forall (t : txn) m host path stale,
  wroots (t_roots t) <= t_maxparams t ->
  grows (txn_caps t) (serve_marks (t_roots t) m host path stale) =
  grow_sks (txn_caps t) (serve_marks (t_roots t) m host path stale).
Proof.
  intros t m host path stale Hw. unfold grows, serve_marks.
  destruct (params_bounded big_fuel t m (host_guard host) path false stale Hw) as [-> ->]. reflexivity.
Qed.

(* depth does NOT bound the skipped-node stack: every level of the descent can push two entries *)
Definition rt (p : string) : option route := Some {| rpat := S2B p; rid := 0%N |}.
Definition ladder_roots : roots :=
  [Node (S2B "GET") None
     [Node (S2B "/a/") None
        [Node (S2B "*{q}") (rt "/a/*{q}") [];
         Node (S2B "b/") None
           [Node (S2B "*{y}") (rt "/a/b/*{y}") []; Node (S2B "c") (rt "/a/b/c") []; Node (S2B "{x}") (rt "/a/b/{x}") []];
         Node (S2B "{p}") (rt "/a/{p}") []]]].
Definition ladder_txn : txn := {| t_roots := ladder_roots; t_size := 5; t_maxparams := 1; t_depth := 3 |}.

Theorem skipped_bounded_by_depth_refuted :
  exists (t : txn) m host path,
    wroots (t_roots t) <= t_maxparams t /\
    grow_sks (txn_caps t) (serve_marks (t_roots t) m host path []) = true.
Proof. exists ladder_txn, (S2B "GET"), [], (S2B "/a/b/c"). vm_compute. split; [lia|reflexivity]. Qed.

(* ---------- non-vacuity ---------- *)
Definition wide_roots : roots :=
  [Node (S2B "GET") None [Node (S2B "/{a}/{b}/*{c}") (rt "/{a}/{b}/*{c}") []]].
Definition wide_txn : txn := {| t_roots := wide_roots; t_size := 1; t_maxparams := 3; t_depth := 1 |}.

(* the bound of params_bounded is attained: three wildcards, three entries *)
Example params_bound_attained :
  wroots (t_roots wide_txn) <= t_maxparams wide_txn /\
  h_ps (serve_marks (t_roots wide_txn) (S2B "GET") [] (S2B "/x/y/z/w") []) = 3 /\
  fst (roots_lookupI big_fuel wide_roots (S2B "GET") [] (S2B "/x/y/z/w") false [] [] hw0) =
    Found (Some (Node (S2B "/{a}/{b}/*{c}") (rt "/{a}/{b}/*{c}") [])) false
          [(S2B "a", S2B "x"); (S2B "b", S2B "y"); (S2B "c", S2B "z/w")] [].
Proof. vm_compute. repeat split; lia. Qed.

(* the bound of skipped_bounded is attained on the ladder (4 = sroots), above depth = 3 *)
Example skipped_bound_attained :
  h_sks (serve_marks ladder_roots (S2B "GET") [] (S2B "/a/b/c") []) = 4 /\ sroots ladder_roots = 4 /\ t_depth ladder_txn = 3.
Proof. vm_compute. repeat split. Qed.

(* warm_context_no_growth on the ladder: the cold run grows skipNds, the next one grows nothing *)
Example warm_after_cold_growth :
  let cold := txn_caps ladder_txn in
  let h := serve_marks ladder_roots (S2B "GET") [] (S2B "/a/b/c") [] in
  grows cold h = true /\
  grows (hw_max cold h) (serve_marks ladder_roots (S2B "GET") [] (S2B "/a/b/c") [(S2B "stale", S2B "entry")]) = false.
Proof. vm_compute. split; reflexivity. Qed.

(* a request with a trailing-slash recommendation writes tsrParams (so its mark is exercised) *)
Definition tsr_roots : roots :=
  [Node (S2B "GET") None [Node (S2B "/{a}/x/") (rt "/{a}/x/") []]].
Example tsr_marks_exercised :
  h_tps (serve_marks tsr_roots (S2B "GET") [] (S2B "/v/x") []) = 1 /\
  model_outcome (fst (roots_lookupI big_fuel tsr_roots (S2B "GET") [] (S2B "/v/x") false [] [] hw0)) =
    Some (true, true, S2B "/{a}/x/").
Proof. vm_compute. split; reflexivity. Qed.

(* ---------- 9. Tree.insert keeps "no path holds more wildcards than maxParams" ---------- *)
Definition W (k : bytes) : nat := List.length (parse_wildcard k).

(* counts from the three kinds of parser state *)
Lemma pw_state_counts : forall b p nm,
  let D := List.length (pw b p PwDefault nm) in
  let P := List.length (pw b p PwParam nm) in
  let Q := List.length (pw b p PwCatch nm) in
  let K := List.length (pw b p PwSkip nm) in
  P = Q /\ D <= P /\ P <= S D /\ D <= K /\ K <= P /\ P <= S K.
Proof.
  induction b as [|c r IH]; intros p nm; cbn [parse_wildcard_go List.length]; [lia|].
  destruct (Ascii.eqb c "}") eqn:E1; destruct (Ascii.eqb c "*") eqn:E2; destruct (Ascii.eqb c "{") eqn:E3;
    cbn [List.length];
    pose proof (IH (S p) []) as I1; pose proof (IH (S p) (c :: nm)) as I2; cbn zeta in I1, I2;
    repeat match goal with
    | |- context [List.length (pw r ?q ?st ?n)] =>
        lazymatch n with
        | [] => fail
        | _ => rewrite (pw_len r q (S p) st n [])
        end
    end;
    repeat match goal with
    | H : context [List.length (pw r ?q ?st ?n)] |- _ =>
        lazymatch n with
        | [] => fail
        | _ => rewrite (pw_len r q (S p) st n []) in H
        end
    end; lia.
Qed.

Lemma pw_app : forall a b p st nm,
  List.length (pw a p st nm) + W b <= List.length (pw (a ++ b) p st nm).
Proof.
  induction a as [|c a IH]; intros b p st nm.
  - cbn [app parse_wildcard_go List.length]. unfold W, parse_wildcard.
    pose proof (pw_state_counts b p nm) as H; cbn zeta in H.
    rewrite (pw_len b 0 p PwDefault [] nm). destruct st; lia.
  - cbn [app]. destruct st; cbn [parse_wildcard_go].
    + destruct (Ascii.eqb c "*"); [apply IH|]. destruct (Ascii.eqb c "{"); apply IH.
    + destruct (Ascii.eqb c "}"); cbn [List.length]; [specialize (IH b (S p) PwDefault []); lia|apply IH].
    + destruct (Ascii.eqb c "}"); cbn [List.length]; [specialize (IH b (S p) PwDefault []); lia|apply IH].
    + apply IH.
Qed.

Lemma W_app : forall a b, W a + W b <= W (a ++ b).
Proof. intros; unfold W at 1 3, parse_wildcard. apply pw_app. Qed.

Lemma W_split : forall k n, W (firstn n k) + W (skipn n k) <= W k.
Proof. intros. rewrite <- (firstn_skipn n k) at 3. apply W_app. Qed.

(* ---------- maxl under the list operations of tree.go ---------- *)
Lemma maxl_insert_sorted : forall f n l, maxl f (insert_sorted n l) = Nat.max (f n) (maxl f l).
Proof.
  intros f n l; unfold maxl; induction l as [|m l IH]; cbn [insert_sorted fold_right]; [reflexivity|].
  destruct (bytes_ltb (nkey m) (nkey n)); cbn [fold_right]; [rewrite IH|]; lia.
Qed.

Lemma maxl_sort : forall f l, maxl f (sort_nodes l) = maxl f l.
Proof.
  intros f l; induction l as [|m l IH]; [reflexivity|].
  cbn [sort_nodes fold_right]. fold (sort_nodes l). rewrite maxl_insert_sorted, IH. reflexivity.
Qed.

Lemma maxl_app1 : forall f l c, maxl f (l ++ [c]) = Nat.max (maxl f l) (f c).
Proof. intros f l c; unfold maxl; induction l as [|m l IH]; cbn [app fold_right]; [lia|rewrite IH; lia]. Qed.

Lemma maxl_replace : forall f l i c, maxl f (replace_nth l i c) <= Nat.max (maxl f l) (f c).
Proof.
  intros f l; unfold maxl; induction l as [|m l IH]; intros [|i] c; cbn [replace_nth fold_right]; try lia.
  specialize (IH i c). lia.
Qed.

Lemma wdepth_node : forall k r ch, wdepth (Node k r ch) = W k + maxl wdepth ch.
Proof. reflexivity. Qed.

Lemma wdepth_new_node : forall k r ch, wdepth (new_node k r ch) = W k + maxl wdepth ch.
Proof. intros; unfold new_node; rewrite wdepth_node, maxl_sort; reflexivity. Qed.

(* common_prefix is a prefix of both *)
Lemma common_prefix_l : forall a b, firstn (List.length (common_prefix a b)) a = common_prefix a b.
Proof.
  induction a as [|x a IH]; intros [|y b]; cbn [common_prefix List.length firstn]; try reflexivity.
  destruct (Ascii.eqb x y); cbn [List.length firstn]; [rewrite IH|]; reflexivity.
Qed.
Lemma common_prefix_r : forall a b, firstn (List.length (common_prefix a b)) b = common_prefix a b.
Proof.
  induction a as [|x a IH]; intros [|y b]; cbn [common_prefix List.length firstn]; try reflexivity.
  destruct (Ascii.eqb x y) eqn:E; cbn [List.length firstn]; [|reflexivity].
  apply Ascii.eqb_eq in E; subst y. rewrite IH; reflexivity.
Qed.

Lemma new_leaf_wdepth : forall ri cm suffix n add, new_leaf ri cm suffix = (n, add) -> wdepth n <= W suffix.
Proof.
  unfold new_leaf; intros ri cm suffix n add H.
  destruct (Nat.ltb 0 (ri_hostsplit ri) && Nat.ltb cm (ri_hostsplit ri)); injection H as <- _.
  - rewrite !wdepth_new_node. unfold maxl; cbn [fold_right]. rewrite wdepth_new_node. unfold maxl; cbn [fold_right].
    pose proof (W_split suffix (ri_hostsplit ri - cm)). lia.
  - rewrite wdepth_node. unfold maxl; cbn [fold_right]. lia.
Qed.

Lemma maxc_node : forall k r ch, maxc (Node k r ch) = maxl wdepth ch.
Proof. reflexivity. Qed.
Lemma maxc_new_node : forall k r ch, maxc (new_node k r ch) = maxl wdepth ch.
Proof. intros; unfold new_node; rewrite maxc_node, maxl_sort; reflexivity. Qed.

Lemma maxl_1 : forall f (a : node), maxl f [a] = Nat.max (f a) 0.
Proof. reflexivity. Qed.
Lemma maxl_2 : forall f (a b : node), maxl f [a; b] = Nat.max (f a) (Nat.max (f b) 0).
Proof. reflexivity. Qed.

Lemma ins_wdepth : forall f ri n cm depth rest n' d,
  ins f ri n cm depth rest = InsOk n' d ->
  nkey n' = nkey n /\ maxc n' <= Nat.max (maxc n) (W rest).
Proof.
  induction f as [|f IH]; intros ri n cm depth rest n' d H; [discriminate|].
  cbn [ins] in H. destruct rest as [|c0 rest0]; [discriminate|]. set (rest := c0 :: rest0) in *.
  destruct (find_child n c0) as [i|].
  2:{ destruct (new_leaf ri cm rest) as [child add] eqn:El. injection H as <- _.
      pose proof (new_leaf_wdepth _ _ _ _ _ El). split; [reflexivity|].
      rewrite maxc_new_node, maxl_app1. unfold maxc. lia. }
  destruct (nth_error (nchildren n) i) as [c|] eqn:Ec; [|discriminate].
  pose proof (child_wdepth _ _ _ Ec) as Hcw.
  set (cp := common_prefix rest (nkey c)) in *. set (lcp := List.length cp) in *.
  assert (Hupd : forall c', maxc (Node (nkey n) (nroute n) (replace_nth (nchildren n) i c')) <= Nat.max (maxc n) (wdepth c')).
  { intros c'. rewrite maxc_node. apply maxl_replace. }
  assert (Hrest : W cp + W (skipn lcp rest) <= W rest).
  { pose proof (W_split rest lcp) as Hs. unfold lcp, cp in *. rewrite common_prefix_l in Hs. exact Hs. }
  assert (Hkey : W cp + W (skipn lcp (nkey c)) <= W (nkey c)).
  { pose proof (W_split (nkey c) lcp) as Hs. unfold lcp, cp in *. rewrite common_prefix_r in Hs. exact Hs. }
  rewrite (wdepth_eq c) in Hcw. fold (W (nkey c)) in Hcw. change (List.length (nparams c)) with (W (nkey c)) in Hcw.
  destruct (Nat.eqb lcp (List.length (nkey c))) eqn:E1.
  - apply Nat.eqb_eq in E1.
    assert (Hcp : cp = nkey c).
    { unfold lcp, cp in *. rewrite <- (common_prefix_r rest (nkey c)), E1. apply firstn_all. }
    destruct (Nat.eqb lcp (List.length rest)) eqn:E2.
    + destruct (nroute c); [discriminate|]. injection H as <- _. split; [reflexivity|].
      specialize (Hupd (Node (nkey c) (Some (ri_route ri)) (nchildren c))).
      rewrite wdepth_node in Hupd. fold (maxc c) in Hupd. lia.
    + destruct (ins f ri c (cm + lcp) (S depth) (skipn lcp rest)) as [c' d'|] eqn:Ei; [|discriminate].
      injection H as <- _. split; [reflexivity|].
      destruct (IH _ _ _ _ _ _ _ Ei) as [Hk Hm].
      specialize (Hupd c'). rewrite (wdepth_eq c') in Hupd. change (List.length (nparams c')) with (W (nkey c')) in Hupd.
      rewrite Hk in Hupd. rewrite Hcp in Hrest. lia.
  - destruct (Nat.eqb lcp (List.length rest)) eqn:E2.
    + injection H as <- _. split; [reflexivity|].
      specialize (Hupd (new_node cp (Some (ri_route ri)) [Node (skipn lcp (nkey c)) (nroute c) (nchildren c)])).
      rewrite wdepth_new_node, maxl_1 in Hupd.
      rewrite wdepth_node in Hupd. fold (maxc c) in Hupd. lia.
    + destruct (prefix_conflict (Nat.leb (cm + lcp) (ri_hostsplit ri)) cp); [discriminate|].
      destruct (new_leaf ri (cm + lcp) (skipn lcp rest)) as [n1 add] eqn:El. injection H as <- _.
      pose proof (new_leaf_wdepth _ _ _ _ _ El) as Hn1. split; [reflexivity|].
      specialize (Hupd (new_node cp None [n1; Node (skipn lcp (nkey c)) (nroute c) (nchildren c)])).
      rewrite wdepth_new_node, maxl_2 in Hupd.
      rewrite wdepth_node in Hupd. fold (maxc c) in Hupd. lia.
Qed.

Lemma wroots_replace : forall rs i root', wroots (replace_nth rs i root') <= Nat.max (wroots rs) (maxc root').
Proof. intros; unfold wroots; apply maxl_replace. Qed.

(* psLen (computed by NewRoute) counts the wildcards of the pattern; then insert keeps the invariant
   "no root-to-leaf path holds more wildcards than maxParams", which params_bounded assumes *)
Theorem insert_keeps_wroots : forall t m ri t',
  insert t m ri = ROk t' ->
  W (rpat (ri_route ri)) <= ri_pslen ri ->
  wroots (t_roots t) <= t_maxparams t ->
  wroots (t_roots t') <= t_maxparams t'.
Proof.
  unfold insert; intros t m ri t' H Hps Hinv.
  destruct (method_index (t_roots t) m) as [i|].
  - destruct (nth_error (t_roots t) i) as [root|] eqn:Er; [|discriminate].
    destruct (ins (S (List.length (rpat (ri_route ri)))) ri root 0 0 (rpat (ri_route ri))) as [root' d|[p|ps]] eqn:Ei;
      try discriminate.
    injection H as <-. cbn [t_roots t_maxparams].
    destruct (ins_wdepth _ _ _ _ _ _ _ _ Ei) as [_ Hm].
    pose proof (wroots_replace (t_roots t) i root').
    assert (maxc root <= wroots (t_roots t)) by (unfold wroots; eapply maxl_nth; eauto). lia.
  - destruct (nth_error (t_roots t ++ [empty_root m]) (List.length (t_roots t))) as [root|] eqn:Er; [|discriminate].
    destruct (ins (S (List.length (rpat (ri_route ri)))) ri root 0 0 (rpat (ri_route ri))) as [root' d|[p|ps]] eqn:Ei;
      try discriminate.
    injection H as <-. cbn [t_roots t_maxparams].
    destruct (ins_wdepth _ _ _ _ _ _ _ _ Ei) as [_ Hm].
    pose proof (wroots_replace (t_roots t ++ [empty_root m]) (List.length (t_roots t)) root') as Hr.
    assert (Hw : wroots (t_roots t ++ [empty_root m]) = wroots (t_roots t)).
    { unfold wroots. rewrite maxl_app1. cbn. lia. }
    assert (maxc root <= wroots (t_roots t ++ [empty_root m])) by (unfold wroots; eapply maxl_nth; eauto). lia.
Qed.

(* non-vacuity: inserting /a/{x}/*{y} into the empty tree *)
Example insert_keeps_wroots_example :
  exists t', insert empty_txn (S2B "GET") {| ri_route := {| rpat := S2B "/a/{x}/*{y}"; rid := 0%N |}; ri_pslen := 2; ri_hostsplit := 0 |} = ROk t'
             /\ wroots (t_roots t') = 2 /\ t_maxparams t' = 2.
Proof. eexists. vm_compute. repeat split. Qed.
