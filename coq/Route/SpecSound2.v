(* SpecSound2 — consequences of SpecSound.select_char:
   A. the preference order is a (partial) order; first-difference reading;
   B. an exact static route always wins;
   C. independence of the order of the candidates (registration order) under
      the C02 no-conflict invariant;
   D. lifting to select_in / select_tsr_in / spec_lookup. *)
From FoxBase Require Import Bytes.
From FoxRoute Require Import Spec SpecFacts SpecSound.
Open Scope char_scope.
Local Notation length := List.length.

(* ------------------------------------------------------------------ *)
(* A. the order                                                        *)
(* ------------------------------------------------------------------ *)

Lemma choice_lt_irrefl a : ~ choice_lt a a.
Proof. destruct a; simpl; auto. lia. Qed.

Lemma choice_lt_asym a b : choice_lt a b -> choice_lt b a -> False.
Proof. destruct a, b; simpl; auto. lia. Qed.

Lemma trace_le_cons_inv a l b m :
  trace_le (a :: l) (b :: m) -> choice_lt a b \/ (a = b /\ trace_le l m).
Proof. intros H; inversion H; subst; auto. Qed.

Lemma trace_le_antisym l m : trace_le l m -> trace_le m l -> l = m.
Proof.
  induction 1 as [|a b l m Hab|a l m Hlm IH]; intros H2; [reflexivity| |];
    apply trace_le_cons_inv in H2; destruct H2 as [Hba|[Hba H2]].
  - destruct (choice_lt_asym _ _ Hab Hba).
  - subst. destruct (choice_lt_irrefl _ Hab).
  - destruct (choice_lt_irrefl _ Hba).
  - f_equal. auto.
Qed.

(* at the first position where two traces differ, the smaller does the preferred thing *)
Lemma trace_le_first_diff l a x b y :
  trace_le (l ++ a :: x) (l ++ b :: y) -> a = b \/ choice_lt a b.
Proof.
  induction l as [|c l IH]; simpl; intros H; apply trace_le_cons_inv in H.
  - destruct H as [H|[H _]]; auto.
  - destruct H as [H|[_ H]]; auto. destruct (choice_lt_irrefl _ H).
Qed.

Theorem best_first_difference cs s h k vals k' vals' l a x b y :
  Best cs s h k vals -> In k' cs -> Matches (toks k') s h vals' ->
  trace (toks k) vals = l ++ a :: x -> trace (toks k') vals' = l ++ b :: y ->
  a = b \/ choice_lt a b.
Proof.
  intros (_ & _ & Hmin) Hk' HM' E1 E2. specialize (Hmin k' vals' Hk' HM').
  rewrite E1, E2 in Hmin. eapply trace_le_first_diff; eauto.
Qed.

(* (a): the selected match never uses a wildcard where, after the same choices so
   far, another candidate's match uses a static byte *)
Theorem wildcard_not_preferred_to_static cs s h k vals k' vals' l a x y :
  Best cs s h k vals -> In k' cs -> Matches (toks k') s h vals' ->
  trace (toks k) vals = l ++ a :: x -> trace (toks k') vals' = l ++ CStatic :: y ->
  a = CStatic.
Proof.
  intros HB Hk' HM' E1 E2.
  destruct (best_first_difference _ _ _ _ _ _ _ _ _ _ _ _ HB Hk' HM' E1 E2) as [->|Hlt]; auto.
  destruct a; simpl in Hlt; contradiction.
Qed.

(* ------------------------------------------------------------------ *)
(* B. an exact static route wins                                       *)
(* ------------------------------------------------------------------ *)

Definition all_static (n : nat) : list choice := repeat CStatic n.

Lemma trace_le_all_static t n : trace_le t (all_static n) -> t = all_static n.
Proof.
  revert t. induction n as [|n IH]; intros t H.
  - inversion H. reflexivity.
  - change (all_static (S n)) with (CStatic :: all_static n) in *.
    destruct t as [|a t]; [inversion H|]. apply trace_le_cons_inv in H.
    destruct H as [H|[-> H]]; [destruct a; simpl in H; contradiction|].
    f_equal. apply IH. exact H.
Qed.

Lemma trace_map_static s vals : trace (map TStatic s) vals = all_static (length s).
Proof.
  induction s as [|c s IH]; [reflexivity|].
  change (CStatic :: trace (map TStatic s) vals = CStatic :: all_static (length s)).
  f_equal. exact IH.
Qed.

Lemma Matches_all_static ts s h vals n :
  Matches ts s h vals -> trace ts vals = all_static n -> ts = map TStatic s /\ vals = [].
Proof.
  intros HM. revert n. induction HM; intros m E.
  - auto.
  - destruct m; [discriminate|]. change (all_static (S m)) with (CStatic :: all_static m) in E.
    rewrite trace_static in E. injection E as E.
    destruct (IHHM _ E) as [-> ->]. auto.
  - destruct m; discriminate.
  - destruct m; discriminate.
  - destruct m; discriminate.
Qed.

Theorem exact_static_wins fuel cs s h k' :
  length s < fuel -> In k' cs -> toks k' = map TStatic s -> Matches (toks k') s h [] ->
  exists k, In k cs /\ toks k = map TStatic s /\ select fuel cs s h [] = Some (pat k, []).
Proof.
  intros Hf Hk' Ht HM.
  pose proof (Matches_h_le _ _ _ _ HM) as Hh.
  destruct (select fuel cs s h []) as [[p vals]|] eqn:E.
  2:{ exfalso. eapply select_complete; eauto. }
  destruct (select_priority _ _ _ _ _ _ Hf Hh E) as (k & Hp & Hk & HMk & Hmin).
  specialize (Hmin k' [] Hk' HM). rewrite Ht, trace_map_static in Hmin.
  apply trace_le_all_static in Hmin.
  destruct (Matches_all_static _ _ _ _ _ HMk Hmin) as [Htk ->].
  exists k. subst p. auto.
Qed.

(* ------------------------------------------------------------------ *)
(* C. independence of the order of the candidates                      *)
(* ------------------------------------------------------------------ *)

(* same kind of token, same static byte; wildcard names may differ *)
Inductive tok_sim : token -> token -> Prop :=
| sim_s c : tok_sim (TStatic c) (TStatic c)
| sim_p n m : tok_sim (TParam n) (TParam m)
| sim_c n m : tok_sim (TCatch n) (TCatch m).

(* the C02 registration invariant, on candidates: no two candidates with the same
   token list, and two candidates that share a token prefix agree on the name of
   a wildcard that follows it *)
Definition NoConflict (cs : list cand) : Prop :=
  (forall k1 k2, In k1 cs -> In k2 cs -> toks k1 = toks k2 -> k1 = k2) /\
  (forall k1 k2 pre w1 w2 r1 r2, In k1 cs -> In k2 cs ->
     toks k1 = pre ++ w1 :: r1 -> toks k2 = pre ++ w2 :: r2 -> tok_sim w1 w2 -> w1 = w2).

Lemma NoConflict_incl cs cs' : (forall k, In k cs' -> In k cs) -> NoConflict cs -> NoConflict cs'.
Proof.
  intros Hi [H1 H2]. split.
  - intros k1 k2 Hk1 Hk2. apply H1; auto.
  - intros k1 k2 pre w1 w2 r1 r2 Hk1 Hk2. apply (H2 k1 k2); auto.
Qed.

(* two matches of the same text with the same trace: same values, similar tokens *)
Lemma same_trace_sim : forall ts1 ts2 s h v1 v2,
  Matches ts1 s h v1 -> Matches ts2 s h v2 -> trace ts1 v1 = trace ts2 v2 ->
  Forall2 tok_sim ts1 ts2 /\ v1 = v2.
Proof.
  induction ts1 as [|t1 ts1 IH]; intros ts2 s h v1 v2 M1 M2 E.
  - inversion M1; subst. apply Matches_nil_inv in M2. destruct M2 as (-> & -> & _). auto.
  - pose proof (Matches_cons_nonempty _ _ _ _ _ M1) as Hs.
    apply Matches_inv in M1; [|exact Hs]. apply Matches_inv in M2; [|exact Hs].
    destruct M1 as [(c1 & t1' & r1 & Ht1 & Hs1 & _ & _ & M1)
                   |[(n1 & t1' & vals1 & Ht1 & Hv1 & _ & M1)
                    |(n1 & t1' & j1 & vals1 & Ht1 & Hh1 & Hv1 & Hj1 & _ & M1)]];
    destruct M2 as [(c2 & t2' & r2 & Ht2 & Hs2 & _ & _ & M2)
                   |[(n2 & t2' & vals2 & Ht2 & Hv2 & _ & M2)
                    |(n2 & t2' & j2 & vals2 & Ht2 & Hh2 & Hv2 & Hj2 & _ & M2)]];
    injection Ht1 as -> ->; subst ts2; try subst v1; try subst v2;
    rewrite ?trace_static, ?trace_param, ?trace_catch in E; try discriminate.
    + rewrite Hs1 in Hs2. injection Hs2 as <- <-. injection E as E.
      destruct (IH _ _ _ _ _ M1 M2 E) as [HF ->]. split; [constructor; [constructor|exact HF]|reflexivity].
    + injection E as E.
      destruct (IH _ _ _ _ _ M1 M2 E) as [HF ->]. split; [constructor; [constructor|exact HF]|reflexivity].
    + injection E as Ej E. rewrite !firstn_length_le in Ej by lia. subst j2.
      destruct (IH _ _ _ _ _ M1 M2 E) as [HF ->]. split; [constructor; [constructor|exact HF]|reflexivity].
Qed.

Lemma sim_eq ts1 ts2 :
  Forall2 tok_sim ts1 ts2 ->
  (forall pre w1 w2 r1 r2, ts1 = pre ++ w1 :: r1 -> ts2 = pre ++ w2 :: r2 -> tok_sim w1 w2 -> w1 = w2) ->
  ts1 = ts2.
Proof.
  induction 1 as [|a b l1 l2 Hab HF IH]; intros Hc; [reflexivity|].
  assert (a = b) by (apply (Hc [] a b l1 l2); auto). subst b. f_equal.
  apply IH. intros pre w1 w2 r1 r2 -> -> Hw. apply (Hc (a :: pre) w1 w2 r1 r2); auto.
Qed.

(* (b): the answer depends only on the SET of candidates *)
Theorem select_order_independent fuel1 fuel2 cs1 cs2 s h :
  (forall k, In k cs1 <-> In k cs2) -> NoConflict cs1 ->
  length s < fuel1 -> length s < fuel2 -> h <= length s ->
  select fuel1 cs1 s h [] = select fuel2 cs2 s h [].
Proof.
  intros Hset [Huniq Hname] Hf1 Hf2 Hh.
  pose proof (select_char fuel1 cs1 s h [] Hf1 Hh) as C1.
  pose proof (select_char fuel2 cs2 s h [] Hf2 Hh) as C2.
  destruct (select fuel1 cs1 s h []) as [[p1 vs1]|], (select fuel2 cs2 s h []) as [[p2 vs2]|];
    cbn [sel_ok] in C1, C2.
  - destruct C1 as (k1 & v1 & <- & -> & Hk1 & M1 & Hmin1).
    destruct C2 as (k2 & v2 & <- & -> & Hk2 & M2 & Hmin2).
    assert (E : trace (toks k1) v1 = trace (toks k2) v2).
    { apply trace_le_antisym; [apply Hmin1|apply Hmin2]; auto; apply Hset; auto. }
    destruct (same_trace_sim _ _ _ _ _ _ M1 M2 E) as [HF ->].
    apply Hset in Hk2.
    assert (toks k1 = toks k2) as Et.
    { apply sim_eq; [exact HF|]. intros pre w1 w2 r1 r2. apply (Hname k1 k2); auto. }
    rewrite (Huniq k1 k2 Hk1 Hk2 Et). reflexivity.
  - destruct C1 as (k1 & v1 & _ & _ & Hk1 & M1 & _). destruct (C2 k1 v1); auto. apply Hset; auto.
  - destruct C2 as (k2 & v2 & _ & _ & Hk2 & M2 & _). destruct (C1 k2 v2); auto. apply Hset; auto.
  - reflexivity.
Qed.

(* a boolean check of NoConflict, for concrete route sets *)
Definition token_eqb (a b : token) : bool :=
  match a, b with
  | TStatic c, TStatic d => Ascii.eqb c d
  | TParam n, TParam m | TCatch n, TCatch m => bytes_eqb n m
  | _, _ => false
  end.
Definition sim_b (a b : token) : bool :=
  match a, b with
  | TStatic c, TStatic d => Ascii.eqb c d
  | TParam _, TParam _ | TCatch _, TCatch _ => true
  | _, _ => false
  end.
Fixpoint compat (ts1 ts2 : list token) : bool :=
  match ts1, ts2 with
  | t1 :: r1, t2 :: r2 => if token_eqb t1 t2 then compat r1 r2 else negb (sim_b t1 t2)
  | _, _ => true
  end.
Definition no_conflict_b (cs : list cand) : bool :=
  forallb (fun k1 => forallb (fun k2 =>
     compat (toks k1) (toks k2) &&
     (negb (list_eqb token_eqb (toks k1) (toks k2)) || bytes_eqb (pat k1) (pat k2))) cs) cs.

Lemma token_eqb_eq a b : token_eqb a b = true <-> a = b.
Proof.
  destruct a, b; simpl; try (split; [discriminate|congruence]).
  - rewrite Ascii.eqb_eq. split; congruence.
  - rewrite bytes_eqb_eq. split; congruence.
  - rewrite bytes_eqb_eq. split; congruence.
Qed.

Lemma tokens_eqb_eq l m : list_eqb token_eqb l m = true <-> l = m.
Proof.
  revert m. induction l as [|a l IH]; intros [|b m]; simpl; try (split; [discriminate|congruence]).
  - tauto.
  - rewrite andb_true_iff, token_eqb_eq, IH. split; [intros [-> ->]; reflexivity|intros [= -> ->]; auto].
Qed.

Lemma sim_b_of_sim a b : tok_sim a b -> sim_b a b = true.
Proof. destruct 1; simpl; auto. apply Ascii.eqb_refl. Qed.

Lemma compat_ok pre : forall ts1 ts2 w1 w2 r1 r2,
  compat ts1 ts2 = true -> ts1 = pre ++ w1 :: r1 -> ts2 = pre ++ w2 :: r2 -> tok_sim w1 w2 -> w1 = w2.
Proof.
  induction pre as [|a pre IH]; intros ts1 ts2 w1 w2 r1 r2 Hc -> -> Hs; simpl in Hc.
  - destruct (token_eqb w1 w2) eqn:E; [apply token_eqb_eq; exact E|].
    rewrite (sim_b_of_sim _ _ Hs) in Hc. discriminate.
  - assert (token_eqb a a = true) as Ea by (apply token_eqb_eq; reflexivity).
    rewrite Ea in Hc. eapply IH; eauto.
Qed.

Lemma no_conflict_b_ok cs : no_conflict_b cs = true -> NoConflict cs.
Proof.
  unfold no_conflict_b. rewrite forallb_forall. intros H. split.
  - intros k1 k2 H1 H2 Et. specialize (H k1 H1). rewrite forallb_forall in H. specialize (H k2 H2).
    apply andb_true_iff in H. destruct H as [_ H].
    assert (list_eqb token_eqb (toks k1) (toks k2) = true) as E by (apply tokens_eqb_eq; exact Et).
    rewrite E in H. simpl in H. apply bytes_eqb_eq in H.
    destruct k1, k2; simpl in *; congruence.
  - intros k1 k2 pre w1 w2 r1 r2 H1 H2 E1 E2 Hs. specialize (H k1 H1). rewrite forallb_forall in H.
    specialize (H k2 H2). apply andb_true_iff in H. destruct H as [H _].
    eapply compat_ok; eauto.
Qed.

(* ------------------------------------------------------------------ *)
(* D. select_in, select_tsr_in, spec_lookup                            *)
(* ------------------------------------------------------------------ *)

(* hostname mode matches host ++ path with the first |host| bytes in the host;
   path-only mode matches the path *)
Definition mode_text (host path : bytes) (hm : bool) : bytes := if hm then host ++ path else path.
Definition mode_h (host : bytes) (hm : bool) : nat := if hm then length host else 0.
Definition in_mode (hm : bool) (p : bytes) : bool :=
  if hm then negb (is_path_pattern p) else is_path_pattern p.

(* a registered pattern of the given mode matches the request *)
Definition DirectMatch (pats : list bytes) (host path : bytes) (hm : bool)
  (p : bytes) (vals : list bytes) : Prop :=
  In p pats /\ in_mode hm p = true /\ (hm = true -> host <> []) /\
  Matches (tokenize p) (mode_text host path hm) (mode_h host hm) vals.

Lemma select_in_eq pats host path hm :
  (hm = true -> host <> []) ->
  select_in pats host path hm =
  select (spec_fuel host path) (map mk_cand (filter (in_mode hm) pats))
         (mode_text host path hm) (mode_h host hm) [].
Proof.
  unfold select_in, mode_text, mode_h. destruct hm; [|reflexivity].
  intros H. destruct host; [destruct (H eq_refl); reflexivity|reflexivity].
Qed.

Lemma select_in_nohost pats path : select_in pats [] path true = None.
Proof. reflexivity. Qed.

Lemma spec_fuel_ok host path hm : length (mode_text host path hm) < spec_fuel host path.
Proof. unfold mode_text, spec_fuel. destruct hm; rewrite ?app_length; lia. Qed.

Lemma mode_h_le host path hm : mode_h host hm <= length (mode_text host path hm).
Proof. unfold mode_text, mode_h. destruct hm; rewrite ?app_length; lia. Qed.

Lemma host_of_some pats host path hm x :
  select_in pats host path hm = Some x -> hm = true -> host <> [].
Proof. intros H -> ->. discriminate. Qed.

Theorem select_in_sound pats host path hm p vals :
  select_in pats host path hm = Some (p, vals) -> DirectMatch pats host path hm p vals.
Proof.
  intros H. pose proof (host_of_some _ _ _ _ _ H) as Hhost.
  rewrite select_in_eq in H by exact Hhost.
  apply select_sound_pats in H; [|apply mode_h_le].
  destruct H as (Hin & HM & _). apply filter_In in Hin. destruct Hin as [Hin Hmode].
  repeat split; auto.
Qed.

Theorem select_in_complete pats host path hm p vals :
  DirectMatch pats host path hm p vals -> select_in pats host path hm <> None.
Proof.
  intros (Hin & Hmode & Hhost & HM). rewrite select_in_eq by exact Hhost.
  apply (select_complete _ _ _ _ (mk_cand p) vals).
  - apply in_map. apply filter_In. auto.
  - exact HM.
  - apply spec_fuel_ok.
Qed.

Definition NoDirect pats host path hm : Prop := forall p vals, ~ DirectMatch pats host path hm p vals.

Theorem select_in_none_iff pats host path hm :
  select_in pats host path hm = None <-> NoDirect pats host path hm.
Proof.
  split.
  - intros E p vals HD. exact (select_in_complete _ _ _ _ _ _ HD E).
  - intros HN. destruct (select_in pats host path hm) as [[p vals]|] eqn:E; [|reflexivity].
    destruct (HN p vals (select_in_sound _ _ _ _ _ _ E)).
Qed.

Theorem select_in_priority pats host path hm p vals p' vals' :
  select_in pats host path hm = Some (p, vals) -> DirectMatch pats host path hm p' vals' ->
  trace_le (trace (tokenize p) vals) (trace (tokenize p') vals').
Proof.
  intros H (Hin & Hmode & Hhost & HM). rewrite select_in_eq in H by exact Hhost.
  apply select_priority in H; [|apply spec_fuel_ok|apply mode_h_le].
  destruct H as (k & <- & Hk & _ & Hmin). apply in_mk_cand in Hk. destruct Hk as [_ Ht].
  rewrite <- Ht. apply (Hmin (mk_cand p') vals'); [|exact HM].
  apply in_map. apply filter_In. auto.
Qed.

Theorem select_in_order_independent pats1 pats2 host path hm :
  (forall p, In p pats1 <-> In p pats2) -> NoConflict (map mk_cand pats1) ->
  select_in pats1 host path hm = select_in pats2 host path hm.
Proof.
  intros Hset HNC.
  assert (Hcase : (hm = true /\ host = []) \/ (hm = true -> host <> [])).
  { destruct hm; [|right; discriminate]. destruct host; [left; auto|right; discriminate]. }
  destruct Hcase as [[-> ->]|Hhost]; [reflexivity|].
  rewrite !select_in_eq by exact Hhost.
  apply select_order_independent; try apply spec_fuel_ok; try apply mode_h_le.
  - intros k. rewrite !in_map_iff. split; intros (p & <- & Hp); exists p; split; auto;
      apply filter_In in Hp; apply filter_In; destruct Hp; split; auto; apply Hset; auto.
  - eapply NoConflict_incl; [|exact HNC]. intros k. rewrite !in_map_iff.
    intros (p & <- & Hp). exists p. apply filter_In in Hp. tauto.
Qed.

(* what a DirectMatch says, in the words of the property *)
Lemma combine_fst_snd {A B} (l : list A) (m : list B) :
  length l = length m -> map fst (combine l m) = l /\ map snd (combine l m) = m.
Proof.
  revert m. induction l as [|a l IH]; intros [|b m]; simpl; try discriminate; auto.
  intros [= E]. destruct (IH m E) as [-> ->]. auto.
Qed.

Theorem DirectMatch_meaning pats host path hm p vals :
  DirectMatch pats host path hm p vals ->
  In p pats /\
  map fst (name_values p vals) = wildcard_names (tokenize p) /\
  map snd (name_values p vals) = vals /\
  subst (tokenize p) vals = mode_text host path hm /\
  (hm = false -> Forall2 path_val_ok (wilds (tokenize p)) vals) /\
  (hm = true ->
     exists ts1 ts2 v1 v2, tokenize p = ts1 ++ ts2 /\ vals = v1 ++ v2 /\
       Matches ts1 host (length host) v1 /\ Matches ts2 path 0 v2 /\
       no_catch ts1 /\ Forall host_val_ok v1 /\ Forall2 path_val_ok (wilds ts2) v2).
Proof.
  intros (Hin & Hmode & Hhost & HM). split; [exact Hin|].
  pose proof (Matches_length _ _ _ _ HM) as Hlen.
  destruct (combine_fst_snd (wildcard_names (tokenize p)) vals (eq_sym Hlen)) as [E1 E2].
  split; [exact E1|]. split; [exact E2|]. split; [eapply Matches_subst; eauto|]. split.
  - intros ->. apply Matches_path_values in HM. exact HM.
  - intros ->. unfold mode_text, mode_h in HM. apply Matches_host_split in HM.
    destruct HM as (ts1 & ts2 & v1 & v2 & Et & Ev & M1 & M2).
    rewrite firstn_app_len in M1. rewrite skipn_app_len in M2.
    exists ts1, ts2, v1, v2. split; [exact Et|]. split; [exact Ev|].
    split; [exact M1|]. split; [exact M2|].
    destruct (Matches_host_values _ _ _ _ M1 eq_refl) as [Hc Hv].
    split; [exact Hc|]. split; [exact Hv|]. exact (Matches_path_values _ _ _ M2).
Qed.

(* ---- trailing slash ---- *)

Definition TsrMatch (pats : list bytes) (host path : bytes) (hm : bool)
  (p : bytes) (vals : list bytes) : Prop :=
  2 <= length path /\
  if ends_with_slash path then DirectMatch pats host (removelast path) hm p vals
  else static_slash_end p = true /\ DirectMatch pats host (path ++ ["/"]) hm p vals.

Definition NoTsr pats host path hm : Prop := forall p vals, ~ TsrMatch pats host path hm p vals.

Lemma DirectMatch_filter f pats host path hm p vals :
  DirectMatch (filter f pats) host path hm p vals <->
  f p = true /\ DirectMatch pats host path hm p vals.
Proof. unfold DirectMatch. rewrite filter_In. tauto. Qed.

Lemma select_tsr_in_eq pats host path hm :
  2 <= length path ->
  select_tsr_in pats host path hm =
  if ends_with_slash path then select_in pats host (removelast path) hm
  else select_in (filter static_slash_end pats) host (path ++ ["/"]) hm.
Proof.
  intros H. unfold select_tsr_in. destruct path as [|a [|b r]]; simpl in H; try lia. reflexivity.
Qed.

Lemma select_tsr_in_short pats host path hm : length path < 2 -> select_tsr_in pats host path hm = None.
Proof. destruct path as [|a [|b r]]; simpl; try lia; reflexivity. Qed.

Theorem select_tsr_in_sound pats host path hm p vals :
  select_tsr_in pats host path hm = Some (p, vals) -> TsrMatch pats host path hm p vals.
Proof.
  intros H. destruct (le_lt_dec 2 (length path)) as [Hl|Hl].
  2:{ rewrite select_tsr_in_short in H by exact Hl. discriminate. }
  rewrite select_tsr_in_eq in H by exact Hl. split; [exact Hl|].
  destruct (ends_with_slash path); apply select_in_sound in H; [exact H|].
  apply DirectMatch_filter in H. exact H.
Qed.

Theorem select_tsr_in_complete pats host path hm p vals :
  TsrMatch pats host path hm p vals -> select_tsr_in pats host path hm <> None.
Proof.
  intros [Hl H]. rewrite select_tsr_in_eq by exact Hl.
  destruct (ends_with_slash path).
  - eapply select_in_complete; eauto.
  - apply (select_in_complete _ _ _ _ p vals). apply DirectMatch_filter. exact H.
Qed.

Theorem select_tsr_in_none_iff pats host path hm :
  select_tsr_in pats host path hm = None <-> NoTsr pats host path hm.
Proof.
  split.
  - intros E p vals HD. exact (select_tsr_in_complete _ _ _ _ _ _ HD E).
  - intros HN. destruct (select_tsr_in pats host path hm) as [[p vals]|] eqn:E; [|reflexivity].
    destruct (HN p vals (select_tsr_in_sound _ _ _ _ _ _ E)).
Qed.

Theorem select_tsr_in_order_independent pats1 pats2 host path hm :
  (forall p, In p pats1 <-> In p pats2) -> NoConflict (map mk_cand pats1) ->
  select_tsr_in pats1 host path hm = select_tsr_in pats2 host path hm.
Proof.
  intros Hset HNC. destruct (le_lt_dec 2 (length path)) as [Hl|Hl].
  2:{ rewrite !select_tsr_in_short by exact Hl. reflexivity. }
  rewrite !select_tsr_in_eq by exact Hl. destruct (ends_with_slash path).
  - apply select_in_order_independent; auto.
  - apply select_in_order_independent.
    + intros p. rewrite !filter_In, Hset. tauto.
    + eapply NoConflict_incl; [|exact HNC]. intros k. rewrite !in_map_iff.
      intros (p & <- & Hp). exists p. apply filter_In in Hp. tauto.
Qed.

(* the added slash is consumed by the literal '/' that ends the pattern: the
   pattern without that '/' matches the request as it is *)
Lemma Matches_snoc_static c : forall ts s' h vals,
  Matches (ts ++ [TStatic c]) s' h vals ->
  exists s, s' = s ++ [c] /\ (h <= length s -> Matches ts s h vals).
Proof.
  induction ts as [|t ts IH]; intros s' h vals M.
  - simpl in M. inversion M; subst. inversion HM; subst.
    exists []. split; [reflexivity|]. simpl. intros Hh. replace h with 0 by lia. constructor.
  - simpl in M. inversion M; subst.
    + destruct (IH _ _ _ HM) as (s1 & -> & H1). exists (c0 :: s1). split; [reflexivity|].
      simpl. intros Hh. constructor; auto. apply H1. lia.
    + destruct (IH _ _ _ HM) as (s1 & -> & H1). exists (v ++ s1). split; [apply app_assoc|].
      intros _. constructor; auto; [|apply H1; lia].
      destruct s1 as [|a s1]; [left; reflexivity|right].
      destruct Hnx as [Hnx|(r & Hnx)]; [discriminate|]. injection Hnx as -> _. eexists; reflexivity.
    + destruct (IH _ _ _ HM) as (s1 & -> & H1). exists (v ++ s1). split; [apply app_assoc|].
      rewrite app_length. intros Hle. constructor; auto; [|apply H1; lia].
      destruct Hnx as [Hnx|(r & Hnx)]; [left; exact Hnx|].
      destruct s1 as [|a s1]; [left; simpl in Hle; lia|right].
      injection Hnx as -> _. eexists; reflexivity.
    + destruct (IH _ _ _ HM) as (s1 & -> & H1). exists (v ++ s1). split; [apply app_assoc|].
      intros _. constructor; auto; [|apply H1; lia].
      destruct s1 as [|a s1]; [left; reflexivity|right].
      destruct Hnx as [Hnx|((r & Hnx) & Hl & Hd)]; [discriminate|]. injection Hnx as -> _.
      split; [eexists; reflexivity|auto].
Qed.

Lemma static_slash_end_split p :
  static_slash_end p = true -> exists ts, tokenize p = ts ++ [TStatic "/"].
Proof.
  unfold static_slash_end. destruct (rev (tokenize p)) as [|[c|n|n] l] eqn:E; try discriminate.
  destruct (Ascii.eqb_spec c "/") as [->|Hd].
  2:{ destruct c as [[] [] [] [] [] [] [] []]; try discriminate; contradiction Hd; reflexivity. }
  intros _. exists (rev l). rewrite <- (rev_involutive (tokenize p)), E. reflexivity.
Qed.

Theorem tsr_added_slash_is_literal pats host path hm p vals :
  TsrMatch pats host path hm p vals -> ends_with_slash path = false ->
  exists ts, tokenize p = ts ++ [TStatic "/"] /\
             Matches ts (mode_text host path hm) (mode_h host hm) vals.
Proof.
  intros [Hl H] Hs. rewrite Hs in H. destruct H as (Hsse & _ & _ & _ & HM).
  destruct (static_slash_end_split p Hsse) as (ts & Et). exists ts. split; [exact Et|].
  rewrite Et in HM. apply Matches_snoc_static in HM. destruct HM as (s & Es & HM).
  assert (s = mode_text host path hm) as ->.
  { unfold mode_text in *. destruct hm; [rewrite app_assoc in Es|]; apply app_inj_tail in Es; destruct Es as [<- _]; reflexivity. }
  apply HM. apply mode_h_le.
Qed.

(* ---- the request-level specification ---- *)

Lemma filter_nil_sub {A} (f : A -> bool) l l' :
  (forall x, In x l' -> In x l) -> filter f l = [] -> filter f l' = [].
Proof.
  intros Hs E. destruct (filter f l') as [|a r] eqn:E'; [reflexivity|].
  assert (In a (filter f l')) as H by (rewrite E'; left; reflexivity).
  apply filter_In in H. destruct H as [H1 H2].
  assert (In a (filter f l)) as H by (apply filter_In; auto). rewrite E in H. destruct H.
Qed.

Lemma no_host_mode pats host :
  negb (is_nil (filter (fun p => negb (is_path_pattern p)) pats)) && negb (is_nil host) = false ->
  forall pats' path, (forall p, In p pats' -> In p pats) -> select_in pats' host path true = None.
Proof.
  intros G pats' path Hs. apply andb_false_iff in G. destruct G as [G|G].
  - unfold select_in. destruct host; [reflexivity|].
    destruct (filter (fun p => negb (is_path_pattern p)) pats) eqn:E; [|discriminate].
    rewrite (filter_nil_sub _ _ _ Hs E). apply select_nil.
  - destruct host; [reflexivity|discriminate].
Qed.

(* spec_lookup is: the first of direct(host), tsr(host), direct(path-only), tsr(path-only) *)
Theorem spec_lookup_eq pats host path :
  spec_lookup pats host path =
  match select_in pats host path true with Some x => mk_res false x | None =>
  match select_tsr_in pats host path true with Some x => mk_res true x | None =>
  match select_in pats host path false with Some x => mk_res false x | None =>
  match select_tsr_in pats host path false with Some x => mk_res true x | None => SNone
  end end end end.
Proof.
  unfold spec_lookup.
  destruct (negb (is_nil (filter (fun p => negb (is_path_pattern p)) pats)) && negb (is_nil host)) eqn:G.
  - destruct (select_in pats host path true); [reflexivity|].
    destruct (select_tsr_in pats host path true); reflexivity.
  - pose proof (no_host_mode _ _ G) as HN.
    rewrite (HN pats path) by auto.
    assert (select_tsr_in pats host path true = None) as ->; [|reflexivity].
    destruct (le_lt_dec 2 (length path)) as [Hl|Hl]; [|apply select_tsr_in_short; exact Hl].
    rewrite select_tsr_in_eq by exact Hl. destruct (ends_with_slash path); apply HN; auto.
    intros p Hp. apply filter_In in Hp. tauto.
Qed.

Theorem spec_lookup_direct pats host path p ps :
  spec_lookup pats host path = SDirect p ps ->
  exists hm vals, ps = name_values p vals /\ DirectMatch pats host path hm p vals /\
    (hm = false -> NoDirect pats host path true /\ NoTsr pats host path true).
Proof.
  rewrite spec_lookup_eq.
  destruct (select_in pats host path true) as [[q vs]|] eqn:E1.
  { simpl. intros [= -> <-]. exists true, vs. split; [reflexivity|].
    split; [apply select_in_sound; exact E1|discriminate]. }
  destruct (select_tsr_in pats host path true) as [[q vs]|] eqn:E2; [discriminate|].
  destruct (select_in pats host path false) as [[q vs]|] eqn:E3.
  { simpl. intros [= -> <-]. exists false, vs. split; [reflexivity|].
    split; [apply select_in_sound; exact E3|]. intros _.
    split; [apply select_in_none_iff; exact E1|apply select_tsr_in_none_iff; exact E2]. }
  destruct (select_tsr_in pats host path false) as [[q vs]|]; discriminate.
Qed.

Theorem spec_lookup_tsr pats host path p ps :
  spec_lookup pats host path = STsr p ps ->
  exists hm vals, ps = name_values p vals /\ TsrMatch pats host path hm p vals /\
    NoDirect pats host path hm /\
    (hm = false -> NoDirect pats host path true /\ NoTsr pats host path true).
Proof.
  rewrite spec_lookup_eq.
  destruct (select_in pats host path true) as [[q vs]|] eqn:E1; [discriminate|].
  destruct (select_tsr_in pats host path true) as [[q vs]|] eqn:E2.
  { simpl. intros [= -> <-]. exists true, vs. split; [reflexivity|].
    split; [apply select_tsr_in_sound; exact E2|].
    split; [apply select_in_none_iff; exact E1|discriminate]. }
  destruct (select_in pats host path false) as [[q vs]|] eqn:E3; [discriminate|].
  destruct (select_tsr_in pats host path false) as [[q vs]|] eqn:E4; [|discriminate].
  simpl. intros [= -> <-]. exists false, vs. split; [reflexivity|].
  split; [apply select_tsr_in_sound; exact E4|].
  split; [apply select_in_none_iff; exact E3|]. intros _.
  split; [apply select_in_none_iff; exact E1|apply select_tsr_in_none_iff; exact E2].
Qed.

Theorem spec_lookup_none_iff pats host path :
  spec_lookup pats host path = SNone <->
  forall hm, NoDirect pats host path hm /\ NoTsr pats host path hm.
Proof.
  rewrite spec_lookup_eq. split.
  - destruct (select_in pats host path true) as [[q vs]|] eqn:E1; [discriminate|].
    destruct (select_tsr_in pats host path true) as [[q vs]|] eqn:E2; [discriminate|].
    destruct (select_in pats host path false) as [[q vs]|] eqn:E3; [discriminate|].
    destruct (select_tsr_in pats host path false) as [[q vs]|] eqn:E4; [discriminate|].
    intros _ [|]; split;
      first [apply select_in_none_iff; assumption|apply select_tsr_in_none_iff; assumption].
  - intros H.
    rewrite (proj2 (select_in_none_iff pats host path true) (proj1 (H true))).
    rewrite (proj2 (select_tsr_in_none_iff pats host path true) (proj2 (H true))).
    rewrite (proj2 (select_in_none_iff pats host path false) (proj1 (H false))).
    rewrite (proj2 (select_tsr_in_none_iff pats host path false) (proj2 (H false))).
    reflexivity.
Qed.

(* hostname routes first: when a hostname pattern matches, the answer is a direct
   hostname match (the best one) *)
Theorem spec_lookup_hostname_first pats host path p vals :
  DirectMatch pats host path true p vals ->
  exists p' vals', spec_lookup pats host path = SDirect p' (name_values p' vals') /\
                   DirectMatch pats host path true p' vals'.
Proof.
  intros HD. rewrite spec_lookup_eq.
  destruct (select_in pats host path true) as [[q vs]|] eqn:E1.
  - exists q, vs. split; [reflexivity|apply select_in_sound; exact E1].
  - destruct (select_in_complete _ _ _ _ _ _ HD E1).
Qed.

(* path-only fallback: when nothing matches in hostname mode (directly or by a
   trailing-slash action), a matching path-only pattern is served directly *)
Theorem spec_lookup_fallback pats host path p vals :
  NoDirect pats host path true -> NoTsr pats host path true ->
  DirectMatch pats host path false p vals ->
  exists p' vals', spec_lookup pats host path = SDirect p' (name_values p' vals') /\
                   DirectMatch pats host path false p' vals'.
Proof.
  intros H1 H2 HD. rewrite spec_lookup_eq.
  rewrite (proj2 (select_in_none_iff _ _ _ _) H1), (proj2 (select_tsr_in_none_iff _ _ _ _) H2).
  destruct (select_in pats host path false) as [[q vs]|] eqn:E3.
  - exists q, vs. split; [reflexivity|apply select_in_sound; exact E3].
  - destruct (select_in_complete _ _ _ _ _ _ HD E3).
Qed.

Theorem spec_lookup_order_independent pats1 pats2 host path :
  (forall p, In p pats1 <-> In p pats2) -> NoConflict (map mk_cand pats1) ->
  spec_lookup pats1 host path = spec_lookup pats2 host path.
Proof.
  intros Hset HNC. rewrite !spec_lookup_eq.
  rewrite !(select_in_order_independent pats1 pats2) by assumption.
  rewrite !(select_tsr_in_order_independent pats1 pats2) by assumption.
  reflexivity.
Qed.

(* ------------------------------------------------------------------ *)
(* E. Non-vacuity: the hypotheses of the theorems above hold on concrete *)
(*    route sets (README examples), and the conclusions are what the     *)
(*    README says                                                        *)
(* ------------------------------------------------------------------ *)

Definition ex_fs : list bytes := map S2B ["/fs/avengers.txt"; "/fs/{filename}"; "/fs/*{filepath}"]%string.
Definition ex_host : list bytes := map S2B ["{sub}.example.com/"; "/x"; "/foo/"; "/{v}"]%string.

(* select_sound / select_sound_pats: README priority example, parameter *)
Example select_sound_ex :
  select 40 (map mk_cand ex_fs) (S2B "/fs/ironman.txt") 0 [] =
    Some (S2B "/fs/{filename}", [S2B "ironman.txt"]) /\
  Matches (tokenize (S2B "/fs/{filename}")) (S2B "/fs/ironman.txt") 0 [S2B "ironman.txt"].
Proof.
  assert (E : select 40 (map mk_cand ex_fs) (S2B "/fs/ironman.txt") 0 [] =
              Some (S2B "/fs/{filename}", [S2B "ironman.txt"])) by (vm_compute; reflexivity).
  split; [exact E|]. apply select_sound_pats in E; [tauto|simpl; lia].
Qed.

(* infix catch-all (README): the value spans several segments *)
Example Matches_catch_ex :
  Matches (tokenize (S2B "/assets/*{path}/thumbnail")) (S2B "/assets/photos/2021/thumbnail") 0
          [S2B "photos/2021"].
Proof.
  assert (E : select 40 (map mk_cand [S2B "/assets/*{path}/thumbnail"])
                (S2B "/assets/photos/2021/thumbnail") 0 [] =
              Some (S2B "/assets/*{path}/thumbnail", [S2B "photos/2021"])) by (vm_compute; reflexivity).
  apply select_sound_pats in E; [tauto|simpl; lia].
Qed.

(* hostname parameter: 13 host bytes, then the path *)
Example Matches_host_ex :
  Matches (tokenize (S2B "{sub}.example.com/")) (S2B "a.example.com/") 13 [S2B "a"].
Proof.
  assert (E : select 40 (map mk_cand [S2B "{sub}.example.com/"]) (S2B "a.example.com/") 13 [] =
              Some (S2B "{sub}.example.com/", [S2B "a"])) by (vm_compute; reflexivity).
  apply select_sound_pats in E; [tauto|simpl; lia].
Qed.

(* the corollaries on that match: one value per wildcard, subst reproduces the text,
   the host part is matched as a whole *)
Example Matches_meaning_ex :
  length [S2B "a"] = length (wildcard_names (tokenize (S2B "{sub}.example.com/"))) /\
  subst (tokenize (S2B "{sub}.example.com/")) [S2B "a"] = S2B "a.example.com/" /\
  exists ts1 ts2 v1 v2, tokenize (S2B "{sub}.example.com/") = ts1 ++ ts2 /\ [S2B "a"] = v1 ++ v2 /\
    Matches ts1 (S2B "a.example.com") 13 v1 /\ Matches ts2 (S2B "/") 0 v2.
Proof.
  pose proof Matches_host_ex as M. split; [exact (Matches_length _ _ _ _ M)|].
  split; [exact (Matches_subst _ _ _ _ M)|].
  destruct (Matches_host_split _ _ _ _ M) as (ts1 & ts2 & v1 & v2 & H). exists ts1, ts2, v1, v2. exact H.
Qed.

(* select_complete: its hypotheses are satisfiable (and then the answer is not None) *)
Example select_complete_ex :
  select 40 (map mk_cand ex_fs) (S2B "/fs/ironman.txt") 0 [] <> None.
Proof.
  apply (select_complete _ _ _ _ (mk_cand (S2B "/fs/{filename}")) [S2B "ironman.txt"]).
  - vm_compute. tauto.
  - exact (proj2 select_sound_ex).
  - simpl; lia.
Qed.

(* select_none_iff: README "/avengers/{name}" does not match "/avengers/" *)
Example select_none_ex :
  NoMatch (map mk_cand [S2B "/avengers/{name}"]) (S2B "/avengers/") 0.
Proof. apply (select_none_iff 40); [simpl; lia|simpl; lia|vm_compute; reflexivity]. Qed.

(* select_priority: the catch-all is selected only because nothing better matches *)
Example select_priority_ex :
  exists k, pat k = S2B "/fs/*{filepath}" /\
    Best (map mk_cand ex_fs) (S2B "/fs/avengers/ironman.txt") 0 k [S2B "avengers/ironman.txt"].
Proof. apply (select_priority 40); [simpl; lia|simpl; lia|vm_compute; reflexivity]. Qed.

(* exact_static_wins: the static route beats {filename} and *{filepath} *)
Example exact_static_wins_ex :
  exists k, In k (map mk_cand ex_fs) /\ toks k = map TStatic (S2B "/fs/avengers.txt") /\
    select 40 (map mk_cand ex_fs) (S2B "/fs/avengers.txt") 0 [] = Some (pat k, []).
Proof.
  apply (exact_static_wins 40 _ _ _ (mk_cand (S2B "/fs/avengers.txt"))).
  - simpl; lia.
  - vm_compute. tauto.
  - vm_compute. reflexivity.
  - assert (E : select 40 (map mk_cand [S2B "/fs/avengers.txt"]) (S2B "/fs/avengers.txt") 0 [] =
                Some (S2B "/fs/avengers.txt", [])) by (vm_compute; reflexivity).
    apply select_sound_pats in E; [tauto|simpl; lia].
Qed.

(* order independence: the route set satisfies NoConflict, and reversing it changes nothing *)
Example NoConflict_ex : NoConflict (map mk_cand ex_fs) /\ NoConflict (map mk_cand ex_host).
Proof. split; apply no_conflict_b_ok; vm_compute; reflexivity. Qed.

Example select_order_independent_ex :
  select 40 (map mk_cand ex_fs) (S2B "/fs/ironman.txt") 0 [] =
  select 30 (rev (map mk_cand ex_fs)) (S2B "/fs/ironman.txt") 0 [].
Proof.
  apply select_order_independent; try (simpl; lia).
  - intros k. apply in_rev.
  - exact (proj1 NoConflict_ex).
Qed.

(* ... and the no-conflict hypothesis is needed: /{a} and /{b} cannot both be registered;
   if they were, the answer would depend on their order *)
Example order_matters_without_NoConflict :
  let cs := map mk_cand [S2B "/{a}"; S2B "/{b}"] in
  select 10 cs (S2B "/v") 0 [] <> select 10 (rev cs) (S2B "/v") 0 [].
Proof. vm_compute. congruence. Qed.

(* request level: hostname first, path-only fallback, trailing slash *)
Example spec_lookup_ex :
  spec_lookup ex_host (S2B "a.example.com") (S2B "/") = SDirect (S2B "{sub}.example.com/") [(S2B "sub", S2B "a")] /\
  spec_lookup ex_host (S2B "a.example.com") (S2B "/x") = SDirect (S2B "/x") [] /\
  spec_lookup ex_host (S2B "a.example.com") (S2B "/foo") = SDirect (S2B "/{v}") [(S2B "v", S2B "foo")] /\
  spec_lookup ex_host (S2B "") (S2B "/foo/bar") = SNone /\
  spec_lookup ex_host (S2B "") (S2B "/x/") = STsr (S2B "/x") [] /\
  spec_lookup (map S2B ["/foo/"; "/a/{v}/"]%string) (S2B "") (S2B "/a/b") = STsr (S2B "/a/{v}/") [(S2B "v", S2B "b")].
Proof. repeat split; vm_compute; reflexivity. Qed.

Example DirectMatch_ex :
  DirectMatch ex_host (S2B "a.example.com") (S2B "/") true (S2B "{sub}.example.com/") [S2B "a"] /\
  DirectMatch ex_host (S2B "a.example.com") (S2B "/x") false (S2B "/x") [] /\
  NoDirect ex_host (S2B "a.example.com") (S2B "/x") true /\ NoTsr ex_host (S2B "a.example.com") (S2B "/x") true.
Proof.
  split; [apply select_in_sound; vm_compute; reflexivity|].
  split; [apply select_in_sound; vm_compute; reflexivity|].
  split; [apply select_in_none_iff|apply select_tsr_in_none_iff]; vm_compute; reflexivity.
Qed.

Example TsrMatch_ex :
  TsrMatch (map S2B ["/foo/"; "/a/{v}/"]%string) (S2B "") (S2B "/a/b") false (S2B "/a/{v}/") [S2B "b"] /\
  ends_with_slash (S2B "/a/b") = false /\
  TsrMatch ex_host (S2B "") (S2B "/x/") false (S2B "/x") [].
Proof.
  split; [apply select_tsr_in_sound; vm_compute; reflexivity|].
  split; [reflexivity|apply select_tsr_in_sound; vm_compute; reflexivity].
Qed.

(* the added slash only ever lands on a literal '/': /a/*{w} is not a trailing-slash
   candidate for /a, although "/a/" ++ value would match for a non-empty value *)
Example tsr_literal_ex :
  spec_lookup [S2B "/a/*{w}"] (S2B "") (S2B "/a") = SNone /\
  spec_lookup [S2B "/a{x}"] (S2B "") (S2B "/a") = SNone.
Proof. split; vm_compute; reflexivity. Qed.

Example spec_lookup_order_independent_ex :
  spec_lookup ex_host (S2B "a.example.com") (S2B "/foo") =
  spec_lookup (rev ex_host) (S2B "a.example.com") (S2B "/foo").
Proof.
  apply spec_lookup_order_independent; [intros p; apply in_rev|exact (proj2 NoConflict_ex)].
Qed.

(* select_sound needs h <= |s| (true of every call made by select_in: h = |host|,
   s = host ++ path): with more "host bytes" than text, [select] still answers, but
   the value is not a whole-host label *)
Example select_sound_needs_h_le :
  select 5 [mk_cand (S2B "{a}")] (S2B "x") 5 [] = Some (S2B "{a}", [S2B "x"]) /\
  ~ Matches (tokenize (S2B "{a}")) (S2B "x") 5 [S2B "x"].
Proof.
  split; [vm_compute; reflexivity|]. intros M. apply Matches_h_le in M. simpl in M. lia.
Qed.
