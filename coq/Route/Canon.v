(* Canon — canonical form of a method tree (C07).
   A method tree is a compressed trie over the registered patterns with one
   extra rule, the host/path split: while no '/' has been read on the way down
   ("host mode"; path-only patterns leave it with their first byte) a key either
   starts with '/' or contains none, i.e. the first '/' of every pattern
   sits at the start of a key.  The price is the only exception to "an inner
   node that carries no route has at least two children": a '/'-free hostname
   node in host mode may have the single child that starts with '/'.
   Seen this way the method root is the hostname node of the empty hostname.
   Definitions, boolean checker, uniqueness (canonical_unique), lifting to the
   root slice / txn, examples.  The bridge from p-tree's WF invariant is Canon2.v. *)
From FoxBase Require Import Bytes.
From FoxRoute Require Import Node Tree.
From Coq Require Import Sorting.Sorted Sorting.Permutation Lia.
Open Scope char_scope.

(* ---------- the route set of a tree ---------- *)
Definition own (r : option route) : list (bytes * route) :=
  match r with Some x => [([], x)] | None => [] end.
Definition prepend (k : bytes) (p : bytes * route) : bytes * route := (k ++ fst p, snd p).

(* (concatenated keys from n downwards, route) for every node below n that carries a route *)
Fixpoint sufs (n : node) : list (bytes * route) :=
  match n with Node k r ch => map (prepend k) (own r ++ flat_map sufs ch) end.

(* the same for a method root: its key is the method, not part of the pattern *)
Definition routes_of (root : node) : list (bytes * route) :=
  own (nroute root) ++ flat_map sufs (nchildren root).

(* hostSplit of a pattern as NewRoute computes it (fox.go:664): index of the first '/' *)
Definition host_split (pat : bytes) : nat :=
  match index_byte pat "/" with Some i => i | None => 0 end.

(* ---------- shape ---------- *)
Definition has_slash (k : bytes) : bool := existsb (fun x => Ascii.eqb x "/") k.

(* host = no '/' read so far *)
Definition key_ok (host : bool) (k : bytes) : bool :=
  match k with [] => false | c :: t => negb host || Ascii.eqb c "/" || negb (has_slash t) end.
Definition next_host (host : bool) (k : bytes) : bool := host && negb (has_slash k).

Definition fbyte (n : node) : nat := match nkey n with c :: _ => nat_of_ascii c | [] => 0 end.
Definition fb_lt (a b : node) : Prop := fbyte a < fbyte b.

Definition branch_ok (host' : bool) (r : option route) (ch : list node) : bool :=
  match r with
  | Some _ => true
  | None => match ch with
            | [] => false
            | [g] => host' && starts_with "/" (nkey g)
            | _ :: _ :: _ => true
            end
  end.

Inductive CanonN : bool -> node -> Prop :=
| CanonN_intro host k r ch :
    key_ok host k = true ->
    StronglySorted fb_lt ch ->
    Forall (CanonN (next_host host k)) ch ->
    branch_ok (next_host host k) r ch = true ->
    CanonN host (Node k r ch).

Definition pats_ok (root : node) : Prop :=
  forall p r, In (p, r) (routes_of root) -> rpat r = p.

Definition Canonical (root : node) : Prop :=
  StronglySorted fb_lt (nchildren root) /\
  Forall (CanonN true) (nchildren root) /\
  pats_ok root.

(* ---------- boolean checker ---------- *)
Fixpoint ssortedb (l : list node) : bool :=
  match l with
  | [] => true
  | x :: r => forallb (fun y => Nat.ltb (fbyte x) (fbyte y)) r && ssortedb r
  end.

Fixpoint canonb (host : bool) (n : node) : bool :=
  match n with Node k r ch =>
    key_ok host k && ssortedb ch && forallb (canonb (next_host host k)) ch
    && branch_ok (next_host host k) r ch
  end.

Definition pats_okb (root : node) : bool :=
  forallb (fun pr => bytes_eqb (rpat (snd pr)) (fst pr)) (routes_of root).

Definition canonicalb (root : node) : bool :=
  ssortedb (nchildren root) && forallb (canonb true) (nchildren root) && pats_okb root.

(* ---------- roots / txn ---------- *)
Definition txn_routes (rs : list node) : list (bytes * (bytes * route)) :=
  flat_map (fun root => map (fun pr => (nkey root, pr)) (routes_of root)) rs.

Definition CanonRoots (rs : list node) : Prop :=
  map nkey (firstn 4 rs) = common_verbs /\
  NoDup (map nkey (skipn 4 rs)) /\
  Forall (fun root => is_removable (nkey root) = true /\ nchildren root <> []) (skipn 4 rs) /\
  Forall Canonical rs.

Definition nodupb (l : list bytes) : bool :=
  (fix go (l : list bytes) : bool :=
     match l with [] => true | x :: r => negb (existsb (bytes_eqb x) r) && go r end) l.

Definition canon_rootsb (rs : list node) : bool :=
  list_eqb bytes_eqb (map nkey (firstn 4 rs)) common_verbs &&
  nodupb (map nkey (skipn 4 rs)) &&
  forallb (fun root => is_removable (nkey root) && negb (is_nil (nchildren root))) (skipn 4 rs) &&
  forallb canonicalb rs.

(* ---------- building trees with the model (tests, examples) ---------- *)
Definition mk_rinfo (pat : bytes) (id : N) : rinfo :=
  {| ri_route := {| rpat := pat; rid := id |}; ri_pslen := 0; ri_hostsplit := host_split pat |}.

Inductive hist_op := HIns (m pat : bytes) (id : N) | HDel (m pat : bytes).

Definition hist_step (t : txn) (o : hist_op) : txn :=
  match o with
  | HIns m p id => match insert t m (mk_rinfo p id) with ROk t' => t' | _ => t end
  | HDel m p => match remove t m p with DOk t' _ => t' | DNotFound => t end
  end.
Definition run_hist (l : list hist_op) : txn := fold_left hist_step l empty_txn.

(* ====================================================================== *)
(* the checker decides Canonical; a canonical tree is determined by its route set *)

(* ---------- induction on nodes ---------- *)
Lemma cnode_ind (P : node -> Prop) :
  (forall k r ch, Forall P ch -> P (Node k r ch)) -> forall n, P n.
Proof.
  intros H. fix IH 1. intros [k r ch]. apply H.
  induction ch as [|c ch IHch]; constructor; [apply IH | exact IHch].
Qed.

Lemma CanonN_inv h k r ch :
  CanonN h (Node k r ch) ->
  key_ok h k = true /\ StronglySorted fb_lt ch /\
  Forall (CanonN (next_host h k)) ch /\ branch_ok (next_host h k) r ch = true.
Proof. intros Hc; inversion Hc; subst; auto. Qed.

(* ---------- the checker is exact ---------- *)
Lemma ssortedb_spec l : ssortedb l = true <-> StronglySorted fb_lt l.
Proof.
  induction l as [|x r IH]; simpl.
  - split; auto. constructor.
  - rewrite andb_true_iff, forallb_forall, IH. split.
    + intros [Ha Hs]. constructor; auto. apply Forall_forall. intros y Hy.
      apply Nat.ltb_lt, Ha, Hy.
    + intros Hs. apply StronglySorted_inv in Hs as [Hs Ha]. split; auto.
      intros y Hy. apply Nat.ltb_lt. rewrite Forall_forall in Ha. exact (Ha y Hy).
Qed.

Lemma canonb_spec n : forall h, canonb h n = true <-> CanonN h n.
Proof.
  induction n as [k r ch IH] using cnode_ind. intros h. cbn [canonb].
  rewrite Forall_forall in IH.
  rewrite !andb_true_iff, ssortedb_spec, forallb_forall. split.
  - intros [[[Hk Hs] Hc] Hb]. constructor; auto. apply Forall_forall. intros x Hx.
    apply IH; auto.
  - intros Hc. apply CanonN_inv in Hc as (Hk & Hs & Hc & Hb). repeat split; auto.
    intros x Hx. apply IH; auto. rewrite Forall_forall in Hc. auto.
Qed.

Lemma pats_okb_spec root : pats_okb root = true <-> pats_ok root.
Proof.
  unfold pats_okb, pats_ok. rewrite forallb_forall. split.
  - intros Hf p r Hin. apply bytes_eqb_eq. exact (Hf (p, r) Hin).
  - intros Hp [p r] Hin. apply bytes_eqb_eq. simpl. auto.
Qed.

Lemma forallb_canonb h l : forallb (canonb h) l = true <-> Forall (CanonN h) l.
Proof.
  rewrite forallb_forall, Forall_forall.
  split; intros Hf x Hx; apply canonb_spec; auto.
Qed.

Theorem canonicalb_spec root : canonicalb root = true <-> Canonical root.
Proof.
  unfold canonicalb, Canonical.
  rewrite !andb_true_iff, ssortedb_spec, forallb_canonb, pats_okb_spec. tauto.
Qed.

Lemma list_eqb_bytes a b : list_eqb bytes_eqb a b = true <-> a = b.
Proof.
  revert b; induction a as [|x a IH]; intros [|y b]; simpl; try (split; congruence).
  rewrite andb_true_iff, bytes_eqb_eq, IH. split; [intros [-> ->]; auto | intros E; injection E; auto].
Qed.

Lemma nodupb_spec l : nodupb l = true <-> NoDup l.
Proof.
  unfold nodupb. induction l as [|x r IH].
  - split; auto. constructor.
  - rewrite andb_true_iff, negb_true_iff, IH. split.
    + intros [Hn Hd]. constructor; auto. intros Hin.
      assert (existsb (bytes_eqb x) r = true) as E
        by (apply existsb_exists; exists x; split; auto; apply bytes_eqb_refl).
      congruence.
    + intros Hd. inversion Hd as [|? ? Hn Hd']; subst. split; auto.
      destruct (existsb (bytes_eqb x) r) eqn:E; auto.
      apply existsb_exists in E as (y & Hy & Ey). apply bytes_eqb_eq in Ey. subst. contradiction.
Qed.

Theorem canon_rootsb_spec rs : canon_rootsb rs = true <-> CanonRoots rs.
Proof.
  unfold canon_rootsb, CanonRoots.
  rewrite !andb_true_iff, list_eqb_bytes, nodupb_spec, !forallb_forall, !Forall_forall.
  split.
  - intros [[[H1 H2] H3] H4]. split; [exact H1|]. split; [exact H2|]. split.
    + intros x Hx. apply H3 in Hx. apply andb_true_iff in Hx as [Hr Hn]. split; [exact Hr|].
      intros E. rewrite E in Hn. discriminate.
    + intros x Hx. apply canonicalb_spec; auto.
  - intros (H1 & H2 & H3 & H4). split; [split; [split; [exact H1 | exact H2] |] |].
    + intros x Hx. destruct (H3 x Hx) as [Hr Hn]. rewrite Hr. simpl.
      destruct (nchildren x); [congruence | reflexivity].
    + intros x Hx. apply canonicalb_spec; auto.
Qed.

(* ---------- facts about sufs ---------- *)
Definition seteq {X} (A B : list X) : Prop := forall x, In x A <-> In x B.

Lemma seteq_sym {X} (A B : list X) : seteq A B -> seteq B A.
Proof. intros E x. symmetry. apply E. Qed.

Lemma Permutation_seteq {X} (A B : list X) : Permutation A B -> seteq A B.
Proof. intros Hp x. split; apply Permutation_in; auto. symmetry; auto. Qed.

Definition pfb (p : bytes * route) : nat :=
  match fst p with c :: _ => nat_of_ascii c | [] => 0 end.

Lemma key_ok_nonempty h k : key_ok h k = true -> exists c t, k = c :: t.
Proof. destruct k as [|c t]; [discriminate | eauto]. Qed.

Lemma sufs_in k r ch p :
  In p (sufs (Node k r ch)) <-> exists q, p = prepend k q /\ In q (own r ++ flat_map sufs ch).
Proof.
  cbn [sufs]. rewrite in_map_iff. split; intros [q [H1 H2]]; exists q; split; auto.
Qed.

Lemma sufs_head h z p :
  CanonN h z -> In p (sufs z) -> exists c t u, nkey z = c :: t /\ fst p = c :: u.
Proof.
  intros Hc Hp. destruct z as [k r ch]. apply CanonN_inv in Hc as (Hk & _).
  apply sufs_in in Hp as (q & -> & _).
  destruct (key_ok_nonempty _ _ Hk) as (c & t & ->).
  exists c, t, (t ++ fst q). split; reflexivity.
Qed.

Lemma sufs_pfb h z p : CanonN h z -> In p (sufs z) -> pfb p = fbyte z /\ fst p <> [].
Proof.
  intros Hc Hp. destruct (sufs_head _ _ _ Hc Hp) as (c & t & u & Hk & Hf).
  unfold pfb, fbyte. rewrite Hk, Hf. split; [reflexivity | discriminate].
Qed.

Lemma sufs_inhab : forall z h, CanonN h z -> exists p, In p (sufs z).
Proof.
  induction z as [k r ch IH] using cnode_ind. intros h Hc.
  apply CanonN_inv in Hc as (Hk & Hs & Hch & Hb).
  destruct r as [x|].
  - exists (prepend k ([], x)). apply sufs_in. exists ([], x). split; auto. simpl. auto.
  - destruct ch as [|g ch'].
    + simpl in Hb. discriminate.
    + inversion IH as [|? ? IHg _]; subst. inversion Hch as [|? ? Hg _]; subst.
      destruct (IHg _ Hg) as [q Hq]. exists (prepend k q). apply sufs_in. exists q.
      split; auto. cbn [own app flat_map]. apply in_or_app. left. exact Hq.
Qed.

Lemma flat_fst h l p : Forall (CanonN h) l -> In p (flat_map sufs l) -> fst p <> [].
Proof.
  intros Hc Hp. apply in_flat_map in Hp as (z & Hz & Hpz). rewrite Forall_forall in Hc.
  apply (sufs_pfb _ _ _ (Hc z Hz) Hpz).
Qed.

Lemma flat_gt h x l p :
  Forall (CanonN h) l -> Forall (fb_lt x) l -> In p (flat_map sufs l) -> fbyte x < pfb p.
Proof.
  intros Hc Hl Hp. apply in_flat_map in Hp as (z & Hz & Hpz).
  rewrite Forall_forall in Hc, Hl.
  destruct (sufs_pfb _ _ _ (Hc z Hz) Hpz) as [E _]. rewrite E. apply Hl, Hz.
Qed.

(* ---------- children are determined ---------- *)
Lemma children_eq h : forall ca cb,
  StronglySorted fb_lt ca -> StronglySorted fb_lt cb ->
  Forall (CanonN h) ca -> Forall (CanonN h) cb ->
  Forall (fun x => forall y, CanonN h y -> seteq (sufs x) (sufs y) -> x = y) ca ->
  seteq (flat_map sufs ca) (flat_map sufs cb) -> ca = cb.
Proof.
  induction ca as [|x ca' IHl]; intros [|y cb'] Hsa Hsb Hca Hcb IH E.
  - reflexivity.
  - exfalso. inversion Hcb as [|? ? Hy _]; subst. destruct (sufs_inhab _ _ Hy) as [p Hp].
    apply (proj2 (E p)). cbn [flat_map]. apply in_or_app; auto.
  - exfalso. inversion Hca as [|? ? Hx _]; subst. destruct (sufs_inhab _ _ Hx) as [p Hp].
    apply (proj1 (E p)). cbn [flat_map]. apply in_or_app; auto.
  - apply StronglySorted_inv in Hsa as [Hsa Hla]. apply StronglySorted_inv in Hsb as [Hsb Hlb].
    inversion Hca as [|? ? Hx Hca']; subst. inversion Hcb as [|? ? Hy Hcb']; subst.
    inversion IH as [|? ? IHx IH']; subst.
    cbn [flat_map] in E.
    assert (Ex : forall p, In p (sufs x) \/ In p (flat_map sufs ca') <->
                           In p (sufs y) \/ In p (flat_map sufs cb')).
    { intros p. rewrite <- !in_app_iff. apply E. }
    assert (Hfb : fbyte x = fbyte y).
    { destruct (sufs_inhab _ _ Hx) as [px Hpx]. destruct (sufs_inhab _ _ Hy) as [py Hpy].
      destruct (sufs_pfb _ _ _ Hx Hpx) as [E1 _]. destruct (sufs_pfb _ _ _ Hy Hpy) as [E2 _].
      destruct (proj1 (Ex px) (or_introl Hpx)) as [H1|H1];
      destruct (proj2 (Ex py) (or_introl Hpy)) as [H2|H2].
      - destruct (sufs_pfb _ _ _ Hy H1). lia.
      - destruct (sufs_pfb _ _ _ Hy H1). lia.
      - destruct (sufs_pfb _ _ _ Hx H2). lia.
      - pose proof (flat_gt _ _ _ _ Hcb' Hlb H1). pose proof (flat_gt _ _ _ _ Hca' Hla H2). lia. }
    assert (Exy : seteq (sufs x) (sufs y)).
    { intros p. split; intros Hp.
      - destruct (proj1 (Ex p) (or_introl Hp)) as [H1|H1]; auto.
        destruct (sufs_pfb _ _ _ Hx Hp). pose proof (flat_gt _ _ _ _ Hcb' Hlb H1). lia.
      - destruct (proj2 (Ex p) (or_introl Hp)) as [H1|H1]; auto.
        destruct (sufs_pfb _ _ _ Hy Hp). pose proof (flat_gt _ _ _ _ Hca' Hla H1). lia. }
    assert (Et : seteq (flat_map sufs ca') (flat_map sufs cb')).
    { intros p. split; intros Hp.
      - destruct (proj1 (Ex p) (or_intror Hp)) as [H1|H1]; auto.
        destruct (sufs_pfb _ _ _ Hy H1). pose proof (flat_gt _ _ _ _ Hca' Hla Hp). lia.
      - destruct (proj2 (Ex p) (or_intror Hp)) as [H1|H1]; auto.
        destruct (sufs_pfb _ _ _ Hx H1). pose proof (flat_gt _ _ _ _ Hcb' Hlb Hp). lia. }
    rewrite (IHx y Hy Exy). f_equal. apply IHl; auto.
Qed.

Lemma body_incl_ch h ra ca rb cb :
  Forall (CanonN h) ca ->
  incl (own ra ++ flat_map sufs ca) (own rb ++ flat_map sufs cb) ->
  incl (flat_map sufs ca) (flat_map sufs cb).
Proof.
  intros Hca Hi p Hp. pose proof (flat_fst _ _ _ Hca Hp) as Hne.
  assert (Hin : In p (own rb ++ flat_map sufs cb)) by (apply Hi, in_or_app; auto).
  apply in_app_or in Hin as [Hin|Hin]; auto.
  destruct rb as [y|]; simpl in Hin; [|contradiction].
  destruct Hin as [<-|[]]. simpl in Hne. congruence.
Qed.

Lemma body_incl_own h ra ca rb cb x :
  Forall (CanonN h) cb ->
  incl (own ra ++ flat_map sufs ca) (own rb ++ flat_map sufs cb) ->
  ra = Some x -> rb = Some x.
Proof.
  intros Hcb Hi ->.
  assert (Hin : In ([], x) (own rb ++ flat_map sufs cb)) by (apply Hi; simpl; auto).
  apply in_app_or in Hin as [Hin|Hin].
  - destruct rb as [y|]; simpl in Hin; [|contradiction]. destruct Hin as [E|[]]. congruence.
  - apply (flat_fst _ _ _ Hcb) in Hin. simpl in Hin. congruence.
Qed.

Lemma body_unique h ra ca rb cb :
  StronglySorted fb_lt ca -> StronglySorted fb_lt cb ->
  Forall (CanonN h) ca -> Forall (CanonN h) cb ->
  Forall (fun x => forall y, CanonN h y -> seteq (sufs x) (sufs y) -> x = y) ca ->
  seteq (own ra ++ flat_map sufs ca) (own rb ++ flat_map sufs cb) ->
  ra = rb /\ ca = cb.
Proof.
  intros Hsa Hsb Hca Hcb IH E.
  assert (Iab : incl (own ra ++ flat_map sufs ca) (own rb ++ flat_map sufs cb))
    by (intros p; apply E).
  assert (Iba : incl (own rb ++ flat_map sufs cb) (own ra ++ flat_map sufs ca))
    by (intros p; apply E).
  split.
  - destruct ra as [x|].
    + symmetry. exact (body_incl_own h (Some x) ca rb cb x Hcb Iab eq_refl).
    + destruct rb as [y|]; auto. exact (body_incl_own h (Some y) cb None ca y Hca Iba eq_refl).
  - apply (children_eq h); auto. intros p. split.
    + apply (body_incl_ch _ _ _ _ _ Hca Iab).
    + apply (body_incl_ch _ _ _ _ _ Hcb Iba).
Qed.

(* ---------- the key is determined ---------- *)
Lemma has_slash_app a b : has_slash (a ++ b) = has_slash a || has_slash b.
Proof. apply existsb_app. Qed.

Lemma prefix_cmp {X} (a b u v : list X) :
  a ++ u = b ++ v -> exists w, a = b ++ w \/ b = a ++ w.
Proof.
  revert b; induction a as [|x a IH]; intros b E.
  - exists b. right. reflexivity.
  - destruct b as [|y b].
    + exists (x :: a). left. reflexivity.
    + simpl in E. injection E as -> E. destruct (IH _ E) as [w [-> | ->]]; exists w; auto.
Qed.

Lemma key_longer_absurd h ka ra ca kb rb cb w :
  CanonN h (Node ka ra ca) -> CanonN h (Node kb rb cb) ->
  incl (sufs (Node kb rb cb)) (sufs (Node ka ra ca)) ->
  ka = kb ++ w -> w = [].
Proof.
  intros Ha Hb Hincl ->. destruct w as [|c w']; auto. exfalso.
  apply CanonN_inv in Ha as (Hka & _). apply CanonN_inv in Hb as (Hkb & Hsb & Hcb & Hbb).
  assert (Hq : forall q, In q (own rb ++ flat_map sufs cb) -> exists u, fst q = c :: u).
  { intros q Hq.
    assert (Hin : In (prepend kb q) (sufs (Node kb rb cb))) by (apply sufs_in; eauto).
    apply Hincl in Hin. apply sufs_in in Hin as (q' & E & _).
    unfold prepend in E. injection E as E1 _. rewrite <- app_assoc in E1.
    apply app_inv_head in E1. exists (w' ++ fst q'). rewrite E1. reflexivity. }
  destruct rb as [x|].
  { destruct (Hq ([], x)) as [u Hu]; [simpl; auto | discriminate]. }
  cbn [own app] in Hq.
  assert (Hfb : forall g, In g cb -> exists t, nkey g = c :: t).
  { intros g Hg. rewrite Forall_forall in Hcb.
    destruct (sufs_inhab _ _ (Hcb g Hg)) as [p Hp].
    destruct (sufs_head _ _ _ (Hcb g Hg) Hp) as (c1 & t & u & Hk & Hf).
    destruct (Hq p) as [u' Hu']; [apply in_flat_map; eauto|].
    rewrite Hf in Hu'. injection Hu' as -> _. eauto. }
  destruct cb as [|g1 [|g2 cb']].
  - discriminate Hbb.
  - cbn [branch_ok] in Hbb. apply andb_true_iff in Hbb as [Hh Hst].
    destruct (Hfb g1) as [t Ht]; [simpl; auto|]. rewrite Ht in Hst. simpl in Hst.
    apply Ascii.eqb_eq in Hst. subst c.
    unfold next_host in Hh. apply andb_true_iff in Hh as [-> Hns]. apply negb_true_iff in Hns.
    destruct kb as [|c0 kb']; [discriminate Hkb|].
    cbn [has_slash existsb] in Hns. apply orb_false_iff in Hns as [Hc0 Hns'].
    cbn [app key_ok] in Hka. fold (has_slash kb') in Hns'.
    rewrite has_slash_app, Hc0, Hns' in Hka. cbn in Hka. discriminate.
  - apply StronglySorted_inv in Hsb as [_ Hlt]. inversion Hlt as [|? ? H12 _]; subst.
    unfold fb_lt, fbyte in H12.
    destruct (Hfb g1) as [t1 Ht1]; [simpl; auto|]. destruct (Hfb g2) as [t2 Ht2]; [simpl; auto|].
    rewrite Ht1, Ht2 in H12. lia.
Qed.

Lemma body_incl k ra ca rb cb :
  incl (sufs (Node k ra ca)) (sufs (Node k rb cb)) ->
  incl (own ra ++ flat_map sufs ca) (own rb ++ flat_map sufs cb).
Proof.
  intros Hi q Hq.
  assert (Hin : In (prepend k q) (sufs (Node k ra ca))) by (apply sufs_in; eauto).
  apply Hi in Hin. apply sufs_in in Hin as (q' & E & Hq').
  assert (q = q') as ->; auto.
  destruct q as [p1 r1], q' as [p2 r2]. unfold prepend in E. simpl in E.
  injection E as E1 E2. apply app_inv_head in E1. congruence.
Qed.

(* ---------- uniqueness ---------- *)
Theorem canonN_unique : forall a h b,
  CanonN h a -> CanonN h b -> seteq (sufs a) (sufs b) -> a = b.
Proof.
  induction a as [ka ra ca IH] using cnode_ind. intros h [kb rb cb] Ha Hb E.
  assert (Iab : incl (sufs (Node ka ra ca)) (sufs (Node kb rb cb))) by (intros p; apply E).
  assert (Iba : incl (sufs (Node kb rb cb)) (sufs (Node ka ra ca))) by (intros p; apply E).
  assert (Hk : ka = kb).
  { destruct (sufs_inhab _ _ Ha) as [p Hp]. pose proof (Iab p Hp) as Hp'.
    apply sufs_in in Hp as (q & Ep & _). apply sufs_in in Hp' as (q' & Ep' & _).
    assert (E2 : ka ++ fst q = kb ++ fst q')
      by (rewrite Ep in Ep'; unfold prepend in Ep'; congruence).
    destruct (prefix_cmp _ _ _ _ E2) as [w [Hw|Hw]].
    - pose proof (key_longer_absurd _ _ _ _ _ _ _ _ Ha Hb Iba Hw) as ->.
      rewrite app_nil_r in Hw. exact Hw.
    - pose proof (key_longer_absurd _ _ _ _ _ _ _ _ Hb Ha Iab Hw) as ->.
      rewrite app_nil_r in Hw. auto. }
  subst kb.
  apply CanonN_inv in Ha as (_ & Hsa & Hca & _). apply CanonN_inv in Hb as (_ & Hsb & Hcb & _).
  destruct (body_unique (next_host h ka) ra ca rb cb) as [-> ->]; auto.
  - rewrite Forall_forall in IH |- *. intros x Hx y Hy Exy.
    rewrite Forall_forall in Hca. eapply IH; eauto.
  - intros p. split; [apply (body_incl ka ra ca rb cb Iab) | apply (body_incl ka rb cb ra ca Iba)].
Qed.

Theorem canonical_unique a b :
  Canonical a -> Canonical b -> seteq (routes_of a) (routes_of b) -> nkey a = nkey b -> a = b.
Proof.
  destruct a as [ka ra ca], b as [kb rb cb]. unfold Canonical, routes_of. cbn [nkey nroute nchildren].
  intros (Hsa & Hca & _) (Hsb & Hcb & _) E ->.
  destruct (body_unique true ra ca rb cb) as [-> ->]; auto.
  rewrite Forall_forall in Hca |- *. intros x Hx y Hy Exy. eapply canonN_unique; eauto.
Qed.

Corollary canonical_unique_perm a b :
  Canonical a -> Canonical b -> Permutation (routes_of a) (routes_of b) -> nkey a = nkey b -> a = b.
Proof. intros Ha Hb Hp. apply canonical_unique; auto. apply Permutation_seteq; auto. Qed.

(* patterns are part of the routes: it is enough to compare the sets of route values *)
Definition routes (root : node) : list route := map snd (routes_of root).

Lemma routes_seteq a b :
  pats_ok a -> pats_ok b -> seteq (routes a) (routes b) -> seteq (routes_of a) (routes_of b).
Proof.
  enough (Hi : forall a b, pats_ok a -> pats_ok b -> incl (routes a) (routes b) ->
                           incl (routes_of a) (routes_of b)).
  { intros Ha Hb E p. split; apply Hi; auto; intros r; apply E. }
  clear a b. intros a b Ha Hb Hi [p r] Hin.
  assert (Hr : In r (routes b)) by (apply Hi; unfold routes; apply in_map_iff; exists (p, r); auto).
  unfold routes in Hr. apply in_map_iff in Hr as ([p' r'] & Er & Hin'). simpl in Er. subst r'.
  rewrite <- (Ha _ _ Hin). rewrite <- (Hb _ _ Hin') in Hin'. exact Hin'.
Qed.

Theorem canonical_unique_routes a b :
  Canonical a -> Canonical b -> seteq (routes a) (routes b) -> nkey a = nkey b -> a = b.
Proof.
  intros Ha Hb E. apply canonical_unique; auto.
  apply routes_seteq; auto; [apply Ha | apply Hb].
Qed.

(* ---------- roots / txn ---------- *)
Lemma in_txn_routes rs m pr :
  In (m, pr) (txn_routes rs) <-> exists root, In root rs /\ nkey root = m /\ In pr (routes_of root).
Proof.
  unfold txn_routes. rewrite in_flat_map. split.
  - intros (root & Hr & Hin). apply in_map_iff in Hin as (pr' & E & Hin). injection E as <- <-. eauto.
  - intros (root & Hr & <- & Hin). exists root. split; auto. apply in_map_iff. eauto.
Qed.

Lemma nodup_map_inj {X Y} (f : X -> Y) l x y :
  NoDup (map f l) -> In x l -> In y l -> f x = f y -> x = y.
Proof.
  induction l as [|z l IH]; simpl; intros Hd Hx Hy E; [contradiction|].
  inversion Hd as [|? ? Hn Hd']; subst.
  destruct Hx as [->|Hx], Hy as [->|Hy]; auto.
  - exfalso. apply Hn. rewrite E. apply in_map; auto.
  - exfalso. apply Hn. rewrite <- E. apply in_map; auto.
Qed.

Lemma common_verbs_not_removable m : In m common_verbs -> is_removable m = false.
Proof.
  intros Hin. unfold is_removable. apply negb_false_iff. apply existsb_exists.
  exists m. split; auto. apply bytes_eqb_refl.
Qed.

Lemma nodup_app {X} (a b : list X) :
  NoDup a -> NoDup b -> (forall x, In x a -> ~ In x b) -> NoDup (a ++ b).
Proof.
  induction a as [|x a IH]; simpl; intros Ha Hb Hd; auto.
  inversion Ha as [|? ? Hn Ha']; subst. constructor.
  - intros Hin. apply in_app_or in Hin as [Hin|Hin]; auto. apply (Hd x); auto.
  - apply IH; auto.
Qed.

Lemma common_verbs_nodup : NoDup common_verbs.
Proof.
  apply nodupb_spec. vm_compute. reflexivity.
Qed.

Lemma roots_keys_nodup rs : CanonRoots rs -> NoDup (map nkey rs).
Proof.
  intros (H4 & Hd & Hr & _). rewrite <- (firstn_skipn 4 rs), map_app, H4.
  assert (Hdis : forall m, In m common_verbs -> ~ In m (map nkey (skipn 4 rs))).
  { intros m Hm Hin. apply in_map_iff in Hin as (x & <- & Hx). rewrite Forall_forall in Hr.
    destruct (Hr x Hx) as [Hrem _]. rewrite (common_verbs_not_removable _ Hm) in Hrem. discriminate. }
  apply nodup_app; auto. apply common_verbs_nodup.
Qed.

Lemma roots_same_key ra rb x y :
  CanonRoots ra -> CanonRoots rb -> seteq (txn_routes ra) (txn_routes rb) ->
  In x ra -> In y rb -> nkey x = nkey y -> x = y.
Proof.
  intros Ha Hb E Hx Hy Ek.
  assert (Hi : forall ra rb x y, CanonRoots rb -> incl (txn_routes ra) (txn_routes rb) ->
             In x ra -> In y rb -> nkey x = nkey y -> incl (routes_of x) (routes_of y)).
  { clear. intros ra rb x y Hb Hi Hx Hy Ek pr Hpr.
    assert (Hin : In (nkey x, pr) (txn_routes ra)) by (apply in_txn_routes; eauto).
    apply Hi, in_txn_routes in Hin as (y' & Hy' & Ek' & Hpr').
    rewrite (nodup_map_inj nkey rb y y' (roots_keys_nodup _ Hb) Hy Hy'); auto. congruence. }
  destruct Ha as (Ha1 & Ha2 & Ha3 & Ha4), Hb as (Hb1 & Hb2 & Hb3 & Hb4).
  apply canonical_unique; auto.
  - rewrite Forall_forall in Ha4; auto.
  - rewrite Forall_forall in Hb4; auto.
  - intros pr. split.
    + eapply (Hi ra rb); eauto; [repeat split; auto | intros p; apply E].
    + eapply (Hi rb ra); eauto; [repeat split; auto | intros p; apply E].
Qed.

Lemma canonical_inhab root :
  Canonical root -> nchildren root <> [] -> exists pr, In pr (routes_of root).
Proof.
  intros (_ & Hc & _) Hne. unfold routes_of. destruct (nchildren root) as [|g ch]; [congruence|].
  inversion Hc as [|? ? Hg _]; subst. destruct (sufs_inhab _ _ Hg) as [p Hp].
  exists p. apply in_or_app. right. cbn [flat_map]. apply in_or_app. auto.
Qed.

Lemma custom_incl ra rb :
  CanonRoots ra -> CanonRoots rb -> seteq (txn_routes ra) (txn_routes rb) ->
  incl (skipn 4 ra) (skipn 4 rb).
Proof.
  intros Ha Hb E x Hx.
  assert (Hxa : In x ra) by (rewrite <- (firstn_skipn 4 ra); apply in_or_app; auto).
  pose proof Ha as (_ & _ & Ha3 & Ha4). rewrite Forall_forall in Ha3, Ha4.
  destruct (Ha3 x Hx) as [Hrem Hne].
  destruct (canonical_inhab x (Ha4 x Hxa) Hne) as [pr Hpr].
  assert (Hin : In (nkey x, pr) (txn_routes ra)) by (apply in_txn_routes; eauto).
  apply E, in_txn_routes in Hin as (y & Hy & Ek & _).
  assert (x = y) as -> by (apply (roots_same_key ra rb x y Ha Hb E Hxa Hy); auto).
  rewrite <- (firstn_skipn 4 rb) in Hy. apply in_app_or in Hy as [Hy|Hy]; auto.
  exfalso. pose proof Hb as (Hb1 & _).
  assert (Hm : In (nkey y) common_verbs) by (rewrite <- Hb1; apply in_map; auto).
  rewrite (common_verbs_not_removable _ Hm) in Hrem. discriminate.
Qed.

Theorem canon_roots_unique ra rb :
  CanonRoots ra -> CanonRoots rb -> seteq (txn_routes ra) (txn_routes rb) ->
  firstn 4 ra = firstn 4 rb /\ Permutation (skipn 4 ra) (skipn 4 rb).
Proof.
  intros Ha Hb E. split.
  - pose proof Ha as (Ha1 & _). pose proof Hb as (Hb1 & _).
    assert (Hfa : incl (firstn 4 ra) ra)
      by (intros x Hx; rewrite <- (firstn_skipn 4 ra); apply in_or_app; auto).
    assert (Hfb : incl (firstn 4 rb) rb)
      by (intros x Hx; rewrite <- (firstn_skipn 4 rb); apply in_or_app; auto).
    assert (Hsk : forall x y, In x (firstn 4 ra) -> In y (firstn 4 rb) -> nkey x = nkey y -> x = y)
      by (intros x y Hx Hy; apply (roots_same_key ra rb x y Ha Hb E); auto).
    destruct (firstn 4 ra) as [|a0 [|a1 [|a2 [|a3 [|? ?]]]]]; try discriminate Ha1.
    destruct (firstn 4 rb) as [|b0 [|b1 [|b2 [|b3 [|? ?]]]]]; try discriminate Hb1.
    simpl in Ha1, Hb1. rewrite <- Hb1 in Ha1. injection Ha1 as E0 E1 E2 E3.
    rewrite (Hsk a0 b0), (Hsk a1 b1), (Hsk a2 b2), (Hsk a3 b3); simpl; auto 6.
  - apply NoDup_Permutation.
    + destruct Ha as (_ & Hd & _). eapply NoDup_map_inv; eauto.
    + destruct Hb as (_ & Hd & _). eapply NoDup_map_inv; eauto.
    + intros x. split; apply custom_incl; auto. apply seteq_sym; auto.
Qed.

Corollary canon_txn_unique (ta tb : txn) :
  CanonRoots (t_roots ta) -> CanonRoots (t_roots tb) ->
  seteq (txn_routes (t_roots ta)) (txn_routes (t_roots tb)) ->
  firstn 4 (t_roots ta) = firstn 4 (t_roots tb) /\
  Permutation (skipn 4 (t_roots ta)) (skipn 4 (t_roots tb)).
Proof. apply canon_roots_unique. Qed.

(* ---------- examples (non-vacuity) ---------- *)
Local Open Scope string_scope.
Definition G := S2B "GET".
(* history 1: with an update-free delete/re-insert detour and a host node that is split and re-merged *)
Definition ex_h1 : list hist_op :=
  [HIns G (S2B "a.b/x") 1; HIns G (S2B "/foo") 2; HIns G (S2B "a.b.c/") 3; HIns G (S2B "a.bc/x") 9;
   HIns G (S2B "a.b/") 4; HIns G (S2B "/foobar") 5; HIns G (S2B "a.c/{p}/z") 6;
   HIns (S2B "FOO") (S2B "/q") 7; HDel G (S2B "a.bc/x"); HIns (S2B "BAR") (S2B "h/") 8;
   HDel G (S2B "a.b/x"); HIns G (S2B "a.b/x") 1; HIns (S2B "ZAP") (S2B "/") 10; HDel (S2B "ZAP") (S2B "/")].
(* history 2: the final set inserted in another order *)
Definition ex_h2 : list hist_op :=
  [HIns (S2B "BAR") (S2B "h/") 8; HIns G (S2B "/foobar") 5; HIns G (S2B "a.c/{p}/z") 6;
   HIns G (S2B "a.b/") 4; HIns G (S2B "a.b.c/") 3; HIns (S2B "FOO") (S2B "/q") 7;
   HIns G (S2B "/foo") 2; HIns G (S2B "a.b/x") 1].

Example ex_h1_canonical : CanonRoots (t_roots (run_hist ex_h1)).
Proof. apply canon_rootsb_spec. vm_compute. reflexivity. Qed.
Example ex_h2_canonical : CanonRoots (t_roots (run_hist ex_h2)).
Proof. apply canon_rootsb_spec. vm_compute. reflexivity. Qed.
Example ex_same_set :
  seteq (txn_routes (t_roots (run_hist ex_h1))) (txn_routes (t_roots (run_hist ex_h2))).
Proof.
  set (A := txn_routes (t_roots (run_hist ex_h1))). vm_compute in A.
  set (B := txn_routes (t_roots (run_hist ex_h2))). vm_compute in B.
  intros x; split; intros Hin; simpl in Hin;
    repeat (destruct Hin as [<-|Hin]; [simpl; auto 12|]); destruct Hin.
Qed.
(* the theorem applies: same four fixed roots, custom roots up to order ... *)
Example ex_unique :
  firstn 4 (t_roots (run_hist ex_h1)) = firstn 4 (t_roots (run_hist ex_h2)) /\
  Permutation (skipn 4 (t_roots (run_hist ex_h1))) (skipn 4 (t_roots (run_hist ex_h2))).
Proof. exact (canon_roots_unique _ _ ex_h1_canonical ex_h2_canonical ex_same_set). Qed.
(* ... and the order of the custom roots does depend on the history *)
Example ex_custom_order :
  map nkey (skipn 4 (t_roots (run_hist ex_h1))) = [S2B "FOO"; S2B "BAR"] /\
  map nkey (skipn 4 (t_roots (run_hist ex_h2))) = [S2B "BAR"; S2B "FOO"].
Proof. split; vm_compute; reflexivity. Qed.
(* the GET tree is non-trivial: 7 routes, host nodes with a single '/' child *)
Example ex_get_tree :
  nth 0 (t_roots (run_hist ex_h1)) (empty_root []) =
  Node G None
    [Node (S2B "/foo") (Some {| rpat := S2B "/foo"; rid := 2 |})
       [Node (S2B "bar") (Some {| rpat := S2B "/foobar"; rid := 5 |}) []];
     Node (S2B "a.") None
       [Node (S2B "b") None
          [Node (S2B ".c") None [Node (S2B "/") (Some {| rpat := S2B "a.b.c/"; rid := 3 |}) []];
           Node (S2B "/") (Some {| rpat := S2B "a.b/"; rid := 4 |})
             [Node (S2B "x") (Some {| rpat := S2B "a.b/x"; rid := 1 |}) []]];
        Node (S2B "c") None
          [Node (S2B "/{p}/z") (Some {| rpat := S2B "a.c/{p}/z"; rid := 6 |}) []]]].
Proof. vm_compute. reflexivity. Qed.
(* the checker rejects the same route set stored without the host/path boundary,
   an uncompressed chain, and unsorted children *)
Example ex_reject_merged :
  canonicalb (Node G None [Node (S2B "a.b/x") (Some {| rpat := S2B "a.b/x"; rid := 1 |}) []]) = false.
Proof. vm_compute. reflexivity. Qed.
Example ex_reject_chain :
  canonicalb (Node G None [Node (S2B "/fo") None
                             [Node (S2B "o") (Some {| rpat := S2B "/foo"; rid := 1 |}) []]]) = false.
Proof. vm_compute. reflexivity. Qed.
Example ex_reject_unsorted :
  canonicalb (Node G None [Node (S2B "b") None [Node (S2B "/") (Some {| rpat := S2B "b/"; rid := 1 |}) []];
                           Node (S2B "/") (Some {| rpat := S2B "/"; rid := 2 |}) []]) = false.
Proof. vm_compute. reflexivity. Qed.
Example ex_canon_summary :
  CanonRoots (t_roots (run_hist ex_h1)) /\ CanonRoots (t_roots (run_hist ex_h2)) /\
  firstn 4 (t_roots (run_hist ex_h1)) = firstn 4 (t_roots (run_hist ex_h2)) /\
  Permutation (skipn 4 (t_roots (run_hist ex_h1))) (skipn 4 (t_roots (run_hist ex_h2))) /\
  map nkey (skipn 4 (t_roots (run_hist ex_h1))) <> map nkey (skipn 4 (t_roots (run_hist ex_h2))).
Proof.
  split; [exact ex_h1_canonical|]. split; [exact ex_h2_canonical|].
  split; [apply ex_unique|]. split; [apply ex_unique|].
  destruct ex_custom_order as [-> ->]. discriminate.
Qed.
