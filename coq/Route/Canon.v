(* Canon — canonical form of a method tree (C07).
   A method tree is a compressed trie over the registered patterns with one
   extra rule, the host/path split: while no '/' has been read on the way down
   ("host mode"; path-only patterns leave it with their first byte) a key either
   starts with '/' or contains none, i.e. the first '/' of every pattern
   sits at the start of a key.  The price is the only exception to "an inner
   node that carries no route has at least two children": a '/'-free hostname
   node in host mode may have the single child that starts with '/'.
   Seen this way the method root is the hostname node of the empty hostname.
   Definitions + boolean checker here; uniqueness in Canon2.v. *)
From FoxBase Require Import Bytes.
From FoxRoute Require Import Node Tree.
From Coq Require Import Sorting.Sorted.
Open Scope char_scope.

(* ---------- the route set of a tree ---------- *)
Definition own (r : option route) : list (bytes * route) :=
  match r with Some x => [([], x)] | None => [] end.
Definition prepend (k : bytes) (p : bytes * route) : bytes * route := (k ++ fst p, snd p).

(* (concatenated keys from n downwards, route) for every node below n that carries a route *)
Fixpoint sufs (n : node) : list (bytes * route) :=
  match n with Node k r ch => map (prepend k) (own r ++ flat_map sufs ch) end.

(* the same for a method root: its key is the method, not part of the pattern *)
Definition routes_of (root : node) : list (bytes * route) :=
  own (nroute root) ++ flat_map sufs (nchildren root).

(* hostSplit of a pattern as NewRoute computes it (fox.go:664): index of the first '/' *)
Definition host_split (pat : bytes) : nat :=
  match index_byte pat "/" with Some i => i | None => 0 end.

(* ---------- shape ---------- *)
Definition has_slash (k : bytes) : bool := existsb (fun x => Ascii.eqb x "/") k.

(* host = no '/' read so far *)
Definition key_ok (host : bool) (k : bytes) : bool :=
  match k with [] => false | c :: t => negb host || Ascii.eqb c "/" || negb (has_slash t) end.
Definition next_host (host : bool) (k : bytes) : bool := host && negb (has_slash k).

Definition fb (n : node) : nat := match nkey n with c :: _ => nat_of_ascii c | [] => 0 end.
Definition fb_lt (a b : node) : Prop := fb a < fb b.

Definition branch_ok (host' : bool) (r : option route) (ch : list node) : bool :=
  match r with
  | Some _ => true
  | None => match ch with
            | [] => false
            | [g] => host' && starts_with "/" (nkey g)
            | _ :: _ :: _ => true
            end
  end.

Inductive CanonN : bool -> node -> Prop :=
| CanonN_intro host k r ch :
    key_ok host k = true ->
    StronglySorted fb_lt ch ->
    Forall (CanonN (next_host host k)) ch ->
    branch_ok (next_host host k) r ch = true ->
    CanonN host (Node k r ch).

Definition pats_ok (root : node) : Prop :=
  forall p r, In (p, r) (routes_of root) -> rpat r = p.

Definition Canonical (root : node) : Prop :=
  StronglySorted fb_lt (nchildren root) /\
  Forall (CanonN true) (nchildren root) /\
  pats_ok root.

(* ---------- boolean checker ---------- *)
Fixpoint ssortedb (l : list node) : bool :=
  match l with
  | [] => true
  | x :: r => forallb (fun y => Nat.ltb (fb x) (fb y)) r && ssortedb r
  end.

Fixpoint canonb (host : bool) (n : node) : bool :=
  match n with Node k r ch =>
    key_ok host k && ssortedb ch && forallb (canonb (next_host host k)) ch
    && branch_ok (next_host host k) r ch
  end.

Definition pats_okb (root : node) : bool :=
  forallb (fun pr => bytes_eqb (rpat (snd pr)) (fst pr)) (routes_of root).

Definition canonicalb (root : node) : bool :=
  ssortedb (nchildren root) && forallb (canonb true) (nchildren root) && pats_okb root.

(* ---------- roots / txn ---------- *)
Definition txn_routes (rs : list node) : list (bytes * (bytes * route)) :=
  flat_map (fun root => map (fun pr => (nkey root, pr)) (routes_of root)) rs.

Definition CanonRoots (rs : list node) : Prop :=
  map nkey (firstn 4 rs) = common_verbs /\
  NoDup (map nkey (skipn 4 rs)) /\
  Forall (fun root => is_removable (nkey root) = true /\ nchildren root <> []) (skipn 4 rs) /\
  Forall Canonical rs.

Definition nodupb (l : list bytes) : bool :=
  (fix go (l : list bytes) : bool :=
     match l with [] => true | x :: r => negb (existsb (bytes_eqb x) r) && go r end) l.

Definition canon_rootsb (rs : list node) : bool :=
  list_eqb bytes_eqb (map nkey (firstn 4 rs)) common_verbs &&
  nodupb (map nkey (skipn 4 rs)) &&
  forallb (fun root => is_removable (nkey root) && negb (is_nil (nchildren root))) (skipn 4 rs) &&
  forallb canonicalb rs.

(* ---------- building trees with the model (tests, examples) ---------- *)
Definition mk_rinfo (pat : bytes) (id : N) : rinfo :=
  {| ri_route := {| rpat := pat; rid := id |}; ri_pslen := 0; ri_hostsplit := host_split pat |}.

Inductive hist_op := HIns (m pat : bytes) (id : N) | HDel (m pat : bytes).

Definition hist_step (t : txn) (o : hist_op) : txn :=
  match o with
  | HIns m p id => match insert t m (mk_rinfo p id) with ROk t' => t' | _ => t end
  | HDel m p => match remove t m p with DOk t' _ => t' | DNotFound => t end
  end.
Definition run_hist (l : list hist_op) : txn := fold_left hist_step l empty_txn.
