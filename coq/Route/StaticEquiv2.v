(* StaticEquiv2 — C01, M1 = S, stage 2 (named parameters, backtracking).
   M2 = structurally recursive DFS matcher over the tree; M1 = M2 (the explicit
   skipped-node stack is the DFS continuation); M2 = S by induction on the tree.
   Owner: proof agent p-equiv. *)
From FoxBase Require Import Bytes.
From FoxRoute Require Import Node Lookup Spec SpecFacts Tree Corr StaticEquiv.
Open Scope char_scope.

(* ------------------------------------------------------------------ *)
(* keys as token lists                                                  *)
(* ------------------------------------------------------------------ *)
Definition render_tok (t : token) : bytes :=
  match t with
  | TStatic c => [c]
  | TParam n => "{" :: n ++ ["}"]
  | TCatch n => "*" :: "{" :: n ++ ["}"]
  end.
Definition render (ts : list token) : bytes := flat_map render_tok ts.

Definition name_ok (n : bytes) : bool := negb (existsb (Ascii.eqb "}") n).

(* stage 2 tokens: static bytes other than '{' '*', and named parameters *)
Definition ptok_ok (t : token) : bool :=
  match t with TStatic c => sbyte c | TParam n => name_ok n | TCatch _ => false end.

Lemma render_app a b : render (a ++ b) = render a ++ render b.
Proof. unfold render. apply flat_map_app. Qed.

Lemma render_tok_nonnil t : render_tok t <> [].
Proof. destruct t; simpl; discriminate. Qed.

Lemma render_nil kt : render kt = [] -> kt = [].
Proof.
  destruct kt as [|t kt]; auto. simpl. intros H. apply app_eq_nil in H. destruct H as [H _].
  exfalso. eapply render_tok_nonnil; eauto.
Qed.

(* ---- parse_wildcard on a rendered key ---- *)
Lemma pw_name : forall nm rest pos acc st, (st = PwParam \/ st = PwCatch) -> name_ok nm = true ->
  parse_wildcard_go (nm ++ "}" :: rest) pos st acc =
  {| pkey := rev acc ++ nm;
     pend := match rest with [] => None | _ => Some (S (pos + List.length nm)) end;
     pcatch := match st with PwCatch => true | _ => false end |}
  :: parse_wildcard_go rest (S (pos + List.length nm)) PwDefault [].
Proof.
  induction nm as [|c nm IH]; intros rest pos acc st Hst Hok.
  - simpl. rewrite app_nil_r, Nat.add_0_r. destruct Hst as [-> | ->]; reflexivity.
  - unfold name_ok in Hok. simpl in Hok. apply negb_true_iff in Hok. apply orb_false_elim in Hok.
    destruct Hok as [Hc Hok].
    assert (Ascii.eqb c "}" = false) as Hc' by (rewrite Ascii.eqb_sym; exact Hc).
    assert (name_ok nm = true) as Hok' by (unfold name_ok; rewrite Hok; reflexivity).
    specialize (IH rest (S pos) (c :: acc) st Hst Hok').
    simpl app. destruct Hst as [-> | ->]; cbn [parse_wildcard_go]; rewrite Hc'; rewrite IH;
      simpl; rewrite <- app_assoc; simpl; replace (pos + S (List.length nm)) with (S (pos + List.length nm)) by lia;
      reflexivity.
Qed.

Fixpoint pw_spec (kt : list token) (pos : nat) : list param :=
  match kt with
  | [] => []
  | TStatic _ :: r => pw_spec r (S pos)
  | TParam nm :: r =>
      {| pkey := nm; pend := match r with [] => None | _ => Some (pos + List.length nm + 2) end; pcatch := false |}
      :: pw_spec r (pos + List.length nm + 2)
  | TCatch nm :: r =>
      {| pkey := nm; pend := match r with [] => None | _ => Some (pos + List.length nm + 3) end; pcatch := true |}
      :: pw_spec r (pos + List.length nm + 3)
  end.

Definition tok_ok (t : token) : bool :=
  match t with TStatic c => sbyte c | TParam n => name_ok n | TCatch n => name_ok n end.

Lemma ptok_tok t : ptok_ok t = true -> tok_ok t = true.
Proof. destruct t; simpl; auto; discriminate. Qed.

Lemma pw_render : forall kt pos, forallb tok_ok kt = true ->
  parse_wildcard_go (render kt) pos PwDefault [] = pw_spec kt pos.
Proof.
  induction kt as [|t kt IH]; intros pos Hok; [reflexivity|].
  simpl in Hok. apply andb_prop in Hok. destruct Hok as [Ht Hok].
  destruct t as [c|nm|nm]; simpl in Ht.
  - unfold sbyte in Ht. apply andb_prop in Ht. destruct Ht as [H1 H2]. apply negb_true_iff in H1, H2.
    simpl. rewrite H2, H1. apply IH; auto.
  - change (render (TParam nm :: kt)) with ("{" :: (nm ++ ["}"]) ++ render kt). rewrite <- app_assoc.
    cbn [parse_wildcard_go]. cbn [Ascii.eqb Bool.eqb andb app].
    rewrite pw_name by auto. simpl. rewrite IH by auto.
    replace (S (S (pos + List.length nm))) with (pos + List.length nm + 2) by lia.
    f_equal. f_equal. destruct kt as [|t' kt]; [reflexivity|].
    destruct (render (t' :: kt)) eqn:E; [apply render_nil in E; discriminate|reflexivity].
  - change (render (TCatch nm :: kt)) with ("*" :: "{" :: (nm ++ ["}"]) ++ render kt). rewrite <- app_assoc.
    cbn [parse_wildcard_go]. cbn [Ascii.eqb Bool.eqb andb app].
    rewrite pw_name by auto. simpl. rewrite IH by auto.
    replace (S (S (S (pos + List.length nm)))) with (pos + List.length nm + 3) by lia.
    f_equal. f_equal. destruct kt as [|t' kt]; [reflexivity|].
    destruct (render (t' :: kt)) eqn:E; [apply render_nil in E; discriminate|reflexivity].
Qed.

Definition is_wild (t : token) : bool := match t with TStatic _ => false | _ => true end.
Definition cnt_wild (kt : list token) : nat := List.length (filter is_wild kt).

Lemma nth_error_0 {A} (l : list A) : nth_error l 0 = hd_error l.
Proof. destruct l; reflexivity. Qed.

Lemma pw_spec_nth : forall done t kt pos q, is_wild t = true -> q = pos + List.length (render done) ->
  nth_error (pw_spec (done ++ t :: kt) pos) (cnt_wild done) = hd_error (pw_spec (t :: kt) q).
Proof.
  induction done as [|d done IH]; intros t kt pos q Hw Hq.
  - simpl in Hq. rewrite Nat.add_0_r in Hq. subst q. apply nth_error_0.
  - destruct d as [c|nm|nm].
    + change (pw_spec ((TStatic c :: done) ++ t :: kt) pos) with (pw_spec (done ++ t :: kt) (S pos)).
      change (cnt_wild (TStatic c :: done)) with (cnt_wild done).
      apply IH; auto. simpl in Hq. lia.
    + change (cnt_wild (TParam nm :: done)) with (S (cnt_wild done)).
      simpl app. cbn [pw_spec nth_error]. apply IH; auto.
      subst q. simpl. rewrite !app_length. simpl. lia.
    + change (cnt_wild (TCatch nm :: done)) with (S (cnt_wild done)).
      simpl app. cbn [pw_spec nth_error]. apply IH; auto.
      subst q. simpl. rewrite !app_length. simpl. lia.
Qed.

(* ------------------------------------------------------------------ *)
(* matching one key (token list) against the remaining path             *)
(* ------------------------------------------------------------------ *)
Definition is_slash (x : ascii) : bool := Ascii.eqb x "/".

Inductive kres := KDone (rest : bytes) (vals : list kv) | KShort | KFail.

Fixpoint kmatch (kt : list token) (p : bytes) (vals : list kv) : kres :=
  match kt with
  | [] => KDone p vals
  | t :: kt' =>
    match p with
    | [] => KShort
    | c :: p' =>
      match t with
      | TStatic d => if Ascii.eqb d c && sbyte c then kmatch kt' p' vals else KFail
      | TParam nm =>
          match seg is_slash p with
          | [] => KFail
          | v => kmatch kt' (skipn (List.length v) p) (vals ++ [(nm, v)])
          end
      | TCatch _ => KFail
      end
    end
  end.

Definition kres_pre (pre : list kv) (r : kres) : kres :=
  match r with KDone rest vals => KDone rest (pre ++ vals) | x => x end.

Lemma kmatch_acc : forall kt p vals, kmatch kt p vals = kres_pre vals (kmatch kt p []).
Proof.
  induction kt as [|t kt IH]; intros p vals.
  - simpl. rewrite app_nil_r. reflexivity.
  - destruct p as [|c p']; [reflexivity|]. destruct t as [d|nm|nm]; cbn [kmatch].
    + destruct (Ascii.eqb d c && sbyte c); [apply IH|reflexivity].
    + destruct (seg is_slash (c :: p')) as [|v0 v]; [reflexivity|].
      rewrite IH. rewrite (IH _ ([] ++ _)). destruct (kmatch kt _ []); simpl; auto. rewrite <- app_assoc. reflexivity.
    + reflexivity.
Qed.

Lemma index_byte_seg : forall p,
  match index_byte p "/" with
  | Some d => seg is_slash p = firstn d p /\ d < List.length p /\ List.length (seg is_slash p) = d
  | None => seg is_slash p = p
  end.
Proof.
  induction p as [|x p IH]; simpl; auto.
  assert (is_slash x = Ascii.eqb x "/") as Hx by reflexivity. rewrite Hx.
  destruct (Ascii.eqb x "/"); simpl.
  - repeat split. lia.
  - destruct (index_byte p "/") as [d|]; simpl.
    + destruct IH as (H1 & H2 & H3). rewrite H1 at 1. repeat split; auto. lia.
    + rewrite IH. reflexivity.
Qed.

Lemma nth_error_app_len {A} (a b : list A) : nth_error (a ++ b) (List.length a) = hd_error b.
Proof. induction a; simpl; auto. Qed.

(* parameter lists only grow below a choice point *)
Definition extends (a l : list kv) : Prop := firstn (List.length a) l = a.
Lemma extends_refl a : extends a a.
Proof. unfold extends. apply firstn_all. Qed.
Lemma extends_app a b l : extends (a ++ b) l -> extends a l.
Proof.
  unfold extends. intros H. rewrite app_length in H.
  assert (firstn (List.length a) (firstn (List.length a + List.length b) l) = firstn (List.length a) (a ++ b)) as H'
    by (rewrite H; reflexivity).
  rewrite firstn_firstn in H'. replace (Nat.min (List.length a) (List.length a + List.length b)) with (List.length a) in H' by lia.
  rewrite H'. rewrite firstn_app, Nat.sub_diag, firstn_all. simpl. apply app_nil_r.
Qed.
Lemma extends_len a l : extends a l -> List.length a <= List.length l.
Proof. unfold extends. intros H. rewrite <- H at 1. rewrite firstn_length. lia. Qed.

Definition addp (lazy : bool) (pss vals : list kv) : list kv := if lazy then pss else pss ++ vals.
Lemma addp_nil lazy pss : addp lazy pss [] = pss.
Proof. destruct lazy; simpl; auto. apply app_nil_r. Qed.
Lemma addp_addp lazy pss a b : addp lazy (addp lazy pss a) b = addp lazy pss (a ++ b).
Proof. destruct lazy; simpl; auto. rewrite app_assoc. reflexivity. Qed.
Lemma extends_addp lazy a v l : extends (addp lazy a v) l -> extends a l.
Proof. destruct lazy; simpl; auto. apply extends_app. Qed.

(* the run reaches Backtrack without having produced a result *)
Definition backs (path : bytes) (lazy : bool) (fuel : nat) (ph : phase) (s : st) (cost : nat) : Prop :=
  exists fuel' s', lbp fuel path lazy ph s = lbp fuel' path lazy PBack s' /\ fuel <= fuel' + cost /\
                   sks s' = sks s /\ extends (ps s) (ps s') /\ tinv s' /\ pkc s' = 0.

Lemma backs_after path lazy fuel s cost :
  is_leaf (cur s) && Nat.eqb (cm s) (List.length path) && Nat.eqb (cmn s) (List.length (nkey (cur s))) = false ->
  tinv s -> 1 <= fuel -> 1 <= cost -> backs path lazy fuel PAfter s cost.
Proof.
  intros Hno Ht Hf Hc. destruct fuel as [|f]; [lia|].
  destruct (after_fail f path lazy s Hno Ht) as (s' & He & Hcore & Ht' & _ & Hk).
  destruct Hcore as (_ & _ & _ & _ & Hs & Hp).
  exists f, s'. repeat split; auto; try lia. unfold extends. rewrite Hp. apply firstn_all.
Qed.

Lemma cm_lt_nofound (path : bytes) s : cm s < List.length path ->
  is_leaf (cur s) && Nat.eqb (cm s) (List.length path) && Nat.eqb (cmn s) (List.length (nkey (cur s))) = false.
Proof.
  intros H. replace (Nat.eqb (cm s) (List.length path)) with false by (symmetry; apply Nat.eqb_neq; lia).
  rewrite andb_false_r. reflexivity.
Qed.

Lemma cmn_lt_nofound (path : bytes) s : cmn s < List.length (nkey (cur s)) ->
  is_leaf (cur s) && Nat.eqb (cm s) (List.length path) && Nat.eqb (cmn s) (List.length (nkey (cur s))) = false.
Proof.
  intros H. replace (Nat.eqb (cmn s) (List.length (nkey (cur s)))) with false by (symmetry; apply Nat.eqb_neq; lia).
  apply andb_false_r.
Qed.

(* ------------------------------------------------------------------ *)
(* single steps of the inner key loop                                   *)
(* ------------------------------------------------------------------ *)
Lemma inner_exit f path lazy i s :
  List.length path <= cm s \/ List.length (nkey (cur s)) <= i ->
  lbp (S f) path lazy (PInner i) s = lbp f path lazy PSelect s.
Proof.
  intros H. cbn [lbp]. destruct (Nat.ltb (cm s) (List.length path)) eqn:E1; cbn [negb]; [|reflexivity].
  destruct H as [H|H]; [apply Nat.ltb_lt in E1; lia|]. apply Nat.ltb_ge in H. rewrite H. reflexivity.
Qed.

Lemma inner_static_step f path lazy i s d c :
  nth_error (nkey (cur s)) i = Some d -> nth_error path (cm s) = Some c -> sbyte d = true ->
  lbp (S f) path lazy (PInner i) s =
  if Ascii.eqb d c && sbyte c then lbp f path lazy (PInner (S i)) (adv s 1) else lbp f path lazy PAfter s.
Proof.
  intros Hk Hp Hd. cbn [lbp].
  assert (i < List.length (nkey (cur s))) as Hi by (apply nth_error_Some; congruence).
  assert (cm s < List.length path) as Hc by (apply nth_error_Some; congruence).
  apply Nat.ltb_lt in Hi, Hc. rewrite Hi, Hc. cbn [negb]. rewrite Hk, Hp.
  unfold sbyte in Hd. apply andb_prop in Hd. destruct Hd as [H1 H2]. apply negb_true_iff in H1, H2.
  rewrite H1, H2. unfold sbyte.
  destruct (Ascii.eqb d c); cbn [negb orb andb].
  - destruct (Ascii.eqb c "{"); cbn [negb orb andb]; [reflexivity|].
    destruct (Ascii.eqb c "*"); cbn [negb orb andb]; reflexivity.
  - reflexivity.
Qed.

Definition pstate (lazy : bool) (s : st) (cm' adv : nat) (nm v : bytes) : st :=
  {| cur := cur s; par := par s; cm := cm'; cmn := cmn s + adv;
     pcnt := if lazy then pcnt s else S (pcnt s); pkc := S (pkc s); sks := sks s;
     ps := if lazy then ps s else ps s ++ [(nm, v)];
     tsr := tsr s; tn := tn s; tps := tps s |}.

Definition adv_of (prm : param) (s : st) : nat :=
  let rest := List.length (nkey (cur s)) - cmn s in
  match pend prm with
  | Some e => if Nat.leb (cmn s) e then e - cmn s else rest
  | None => rest end.

Lemma inner_param_step f path lazy i s c prm :
  nth_error (nkey (cur s)) i = Some "{" -> nth_error path (cm s) = Some c ->
  nth_error (nparams (cur s)) (pkc s) = Some prm ->
  lbp (S f) path lazy (PInner i) s =
  match index_byte (skipn (cm s) path) "/" with
  | Some O => lbp f path lazy PAfter s
  | idx =>
    let cm' := match idx with Some d => cm s + d | None => List.length path end in
    lbp f path lazy (PInner (i + adv_of prm s))
      (pstate lazy s cm' (adv_of prm s) (pkey prm) (slice path (cm s) cm'))
  end.
Proof.
  intros Hk Hp Hprm. cbn [lbp].
  assert (i < List.length (nkey (cur s))) as Hi by (apply nth_error_Some; congruence).
  assert (cm s < List.length path) as Hc by (apply nth_error_Some; congruence).
  apply Nat.ltb_lt in Hi, Hc. rewrite Hi, Hc. cbn [negb]. rewrite Hk, Hp.
  assert (negb (Ascii.eqb "{" c) || Ascii.eqb c "{" || Ascii.eqb c "*" = true) as ->.
  { rewrite (Ascii.eqb_sym "{" c). destruct (Ascii.eqb c "{"); reflexivity. }
  cbn [Ascii.eqb Bool.eqb andb]. rewrite Hprm.
  destruct (index_byte (skipn (cm s) path) "/") as [[|d]|]; reflexivity.
Qed.

Lemma extends_trans a b c : extends a b -> extends b c -> extends a c.
Proof.
  intros Hab Hbc. pose proof (extends_len _ _ Hab) as Hl. unfold extends in *.
  transitivity (firstn (List.length a) (firstn (List.length b) c)).
  - rewrite firstn_firstn. f_equal. lia.
  - rewrite Hbc. exact Hab.
Qed.

Lemma backs_step path lazy fuel ph s cost fuel1 ph1 s1 cost1 k :
  lbp fuel path lazy ph s = lbp fuel1 path lazy ph1 s1 ->
  backs path lazy fuel1 ph1 s1 cost1 ->
  sks s1 = sks s -> extends (ps s) (ps s1) -> fuel <= fuel1 + k -> cost1 + k <= cost ->
  backs path lazy fuel ph s cost.
Proof.
  intros He (fuel' & s' & He' & Hf & Hs & Hx & Ht & Hk) Hs1 Hx1 Hf1 Hc.
  exists fuel', s'. repeat split; auto; try congruence; try lia. eapply extends_trans; eauto.
Qed.

(* the key of the current node has been matched completely *)
Definition inner_ok (path : bytes) (lazy : bool) (fuel : nat) (s : st) (rest : bytes) (vals : list kv) (cost : nat) : Prop :=
  exists fuel' s', lbp fuel path lazy (PInner (cmn s)) s = lbp fuel' path lazy PSelect s' /\ fuel <= fuel' + cost /\
    cur s' = cur s /\ par s' = par s /\ skipn (cm s') path = rest /\ cm s' <= List.length path /\
    cmn s' = List.length (nkey (cur s)) /\ sks s' = sks s /\ ps s' = addp lazy (ps s) vals /\
    pcnt s' = List.length (ps s') /\ tinv s'.

Lemma inner_ok_step path lazy fuel s rest v0 vals1 cost fuel1 s1 cost1 k :
  lbp fuel path lazy (PInner (cmn s)) s = lbp fuel1 path lazy (PInner (cmn s1)) s1 ->
  inner_ok path lazy fuel1 s1 rest vals1 cost1 ->
  cur s1 = cur s -> par s1 = par s -> sks s1 = sks s -> ps s1 = addp lazy (ps s) v0 ->
  fuel <= fuel1 + k -> cost1 + k <= cost ->
  inner_ok path lazy fuel s rest (v0 ++ vals1) cost.
Proof.
  intros He (fuel' & s' & He' & Hf & H1 & H2 & H3 & H4 & H5 & H6 & H7 & H8 & H9) Hc Hp Hs Hps Hf1 Hk.
  exists fuel', s'. repeat split; auto; try congruence; try lia.
  rewrite H7, Hps. apply addp_addp.
Qed.

Lemma forallb_ptok_tok kt : forallb ptok_ok kt = true -> forallb tok_ok kt = true.
Proof.
  intros H. apply forallb_forall. intros t Ht. apply ptok_tok. rewrite forallb_forall in H. auto.
Qed.

Lemma param_info s done nm kt' :
  nkey (cur s) = render (done ++ TParam nm :: kt') -> forallb tok_ok (done ++ TParam nm :: kt') = true ->
  cmn s = List.length (render done) -> pkc s = cnt_wild done ->
  exists prm, nth_error (nparams (cur s)) (pkc s) = Some prm /\ pkey prm = nm /\
              adv_of prm s = List.length nm + 2.
Proof.
  intros Hk Hok Hcmn Hpkc. unfold nparams, parse_wildcard. rewrite Hk, pw_render by exact Hok.
  rewrite Hpkc. rewrite (pw_spec_nth done (TParam nm) kt' 0 (List.length (render done))) by auto.
  cbn [pw_spec hd_error]. eexists. split; [reflexivity|]. split; [reflexivity|].
  unfold adv_of. cbn [pend]. rewrite Hk, Hcmn, render_app, app_length.
  destruct kt' as [|t kt'].
  - change (render [TParam nm]) with (("{" :: nm ++ ["}"]) ++ []). rewrite app_nil_r.
    cbn [List.length]. rewrite app_length. simpl. lia.
  - replace (Nat.leb (List.length (render done)) (List.length (render done) + List.length nm + 2)) with true
      by (symmetry; apply Nat.leb_le; lia). lia.
Qed.

Lemma render_cons_len t kt : List.length (render (t :: kt)) = List.length (render_tok t) + List.length (render kt).
Proof. simpl. apply app_length. Qed.

Lemma render_tok_len_pos t : 1 <= List.length (render_tok t).
Proof. destruct t; simpl; lia. Qed.

Lemma forallb_app_l {A} (f : A -> bool) a b : forallb f (a ++ b) = true -> forallb f a = true /\ forallb f b = true.
Proof. rewrite forallb_app. intros H. apply andb_prop in H. exact H. Qed.

Ltac fin := eauto; try lia; try apply extends_refl; try (rewrite addp_nil; reflexivity); try reflexivity.

Lemma inner_tok path lazy : forall kt done s fuel,
  nkey (cur s) = render (done ++ kt) -> forallb ptok_ok (done ++ kt) = true ->
  cmn s = List.length (render done) -> pkc s = cnt_wild done ->
  pcnt s = List.length (ps s) -> tinv s -> cm s <= List.length path ->
  List.length (render kt) + 4 <= fuel ->
  match kmatch kt (skipn (cm s) path) [] with
  | KDone rest vals => inner_ok path lazy fuel s rest vals (List.length (render kt) + 1)
  | _ => backs path lazy fuel (PInner (cmn s)) s (List.length (render kt) + 4)
  end.
Proof.
  induction kt as [|t kt IH]; intros done s fuel Hk Hok Hcmn Hpkc Hpc Ht Hcm Hf.
  - (* key exhausted *)
    cbn [kmatch]. destruct fuel as [|f]; [lia|]. exists f, s.
    rewrite inner_exit by (right; rewrite Hk, app_nil_r, Hcmn; lia).
    repeat split; auto; try lia.
    + rewrite Hk, app_nil_r. exact Hcmn.
    + rewrite addp_nil. reflexivity.
  - assert (Hklen : List.length (nkey (cur s)) = List.length (render done) + List.length (render (t :: kt)))
      by (rewrite Hk, render_app, app_length; reflexivity).
    pose proof (render_cons_len t kt) as Hrl. pose proof (render_tok_len_pos t) as Htl.
    destruct (skipn (cm s) path) as [|c p'] eqn:Ep.
    + (* path exhausted inside the key *)
      cbn [kmatch]. apply skipn_nil_len in Ep.
      destruct fuel as [|[|[|f]]]; try lia.
      eapply backs_step with (k := 3) (cost1 := 1).
      * rewrite inner_exit by (left; exact Ep). rewrite select_ge by exact Ep. reflexivity.
      * apply backs_after; auto; try lia. apply cmn_lt_nofound. lia.
      * reflexivity.
      * apply extends_refl.
      * lia.
      * lia.
    + pose proof (skipn_cons_nth _ _ _ _ Ep) as (Hpc0 & Hp' & Hlt).
      assert (Hkey : nth_error (nkey (cur s)) (cmn s) = hd_error (render (t :: kt))).
      { rewrite Hk, render_app, Hcmn. apply nth_error_app_len. }
      apply forallb_app_l in Hok. destruct Hok as [Hokd Hokt].
      pose proof Hokt as Hokt0. simpl in Hokt. apply andb_prop in Hokt. destruct Hokt as [Hokt1 Hokt2].
      destruct t as [d|nm|nm]; [| |discriminate].
      * (* static byte *)
        simpl in Hkey, Hokt1. cbn [kmatch].
        destruct fuel as [|f]; [lia|].
        pose proof (inner_static_step f path lazy (cmn s) s d c Hkey Hpc0 Hokt1) as Hstep.
        destruct (Ascii.eqb d c && sbyte c) eqn:E.
        -- assert (Hr1 : List.length (render (done ++ [TStatic d])) = S (List.length (render done)))
             by (rewrite render_app, app_length; simpl; lia).
           assert (Hcw : cnt_wild (done ++ [TStatic d]) = cnt_wild done).
           { unfold cnt_wild. rewrite filter_app, app_length. simpl. lia. }
           change (List.length (render_tok (TStatic d))) with 1 in Hrl.
           assert (IH' := IH (done ++ [TStatic d]) (adv s 1) f).
           rewrite <- app_assoc in IH'. simpl app in IH'.
           specialize (IH' Hk).
           rewrite forallb_app in IH'. rewrite Hokd in IH'. specialize (IH' Hokt0).
           specialize (IH' ltac:(change (cmn (adv s 1)) with (S (cmn s)); rewrite Hr1; lia) ltac:(change (pkc (adv s 1)) with (pkc s); rewrite Hcw; exact Hpkc) Hpc Ht
                           ltac:(change (cm (adv s 1)) with (S (cm s)); lia) ltac:(lia)).
           change (cm (adv s 1)) with (S (cm s)) in IH'. rewrite Hp' in IH'.
           change (cmn (adv s 1)) with (S (cmn s)) in IH'.
           clear IH. rename IH' into IH.
           destruct (kmatch kt p' []) as [rest vals| |].
           ++ replace vals with ([] ++ vals) by reflexivity.
              eapply (inner_ok_step path lazy (S f) s rest [] vals _ f (adv s 1) _ 1); fin.
           ++ eapply (backs_step path lazy (S f) _ s _ f _ (adv s 1) _ 1); fin.
           ++ eapply (backs_step path lazy (S f) _ s _ f _ (adv s 1) _ 1); fin.
        -- eapply (backs_step path lazy (S f) _ s _ f PAfter s 1 1); fin.
           apply backs_after; auto; try lia. apply cm_lt_nofound. exact Hlt.
      * (* named parameter *)
        simpl in Hkey.
        destruct (param_info s done nm kt Hk) as (prm & Hprm & Hpk & Hadv); auto.
        { rewrite forallb_app. rewrite (forallb_ptok_tok _ Hokd), (forallb_ptok_tok _ Hokt0). reflexivity. }
        destruct fuel as [|f]; [lia|].
        pose proof (inner_param_step f path lazy (cmn s) s c prm Hkey Hpc0 Hprm) as Hstep.
        rewrite Hadv, Hpk, Ep in Hstep.
        pose proof (index_byte_seg (c :: p')) as Hseg.
        cbn [kmatch].
        assert (Hgen : forall cm', cm' = cm s + List.length (seg is_slash (c :: p')) ->
                  seg is_slash (c :: p') <> [] ->
                  List.length (seg is_slash (c :: p')) <= List.length (c :: p') ->
                  slice path (cm s) cm' = seg is_slash (c :: p') ->
                  lbp (S f) path lazy (PInner (cmn s)) s =
                  lbp f path lazy (PInner (cmn s + (List.length nm + 2)))
                    (pstate lazy s cm' (List.length nm + 2) nm (slice path (cm s) cm')) ->
                  match match seg is_slash (c :: p') with
                        | [] => KFail
                        | a :: l => kmatch kt (skipn (List.length (a :: l)) (c :: p')) ([] ++ [(nm, a :: l)])
                        end with
                  | KDone rest vals => inner_ok path lazy (S f) s rest vals (List.length (render (TParam nm :: kt)) + 1)
                  | _ => backs path lazy (S f) (PInner (cmn s)) s (List.length (render (TParam nm :: kt)) + 4)
                  end).
        { intros cm' Hcm' Hvne Hvlen Hslice Hst. clear Hseg.
          destruct (seg is_slash (c :: p')) as [|v0 vv] eqn:Ev; [congruence|]. set (v := v0 :: vv) in *.
          rewrite Hslice in Hst. set (s1 := pstate lazy s cm' (List.length nm + 2) nm v) in *.
          assert (Hr1 : List.length (render (done ++ [TParam nm])) = List.length (render done) + (List.length nm + 2)).
          { rewrite render_app, app_length. f_equal. change (render [TParam nm]) with (("{" :: nm ++ ["}"]) ++ []).
            rewrite app_nil_r. cbn [List.length]. rewrite app_length. simpl. lia. }
          assert (Hcw : cnt_wild (done ++ [TParam nm]) = S (cnt_wild done)).
          { unfold cnt_wild. rewrite filter_app, app_length. simpl. lia. }
          assert (Hlenp : List.length (c :: p') = List.length path - cm s) by (rewrite <- Ep; apply skipn_length).
          assert (IH' := IH (done ++ [TParam nm]) s1 f).
          rewrite <- app_assoc in IH'. simpl app in IH'.
          specialize (IH' Hk).
          rewrite forallb_app in IH'. rewrite Hokd in IH'. specialize (IH' Hokt0).
          assert (Hrl' : List.length (render (TParam nm :: kt)) = List.length nm + 2 + List.length (render kt)).
          { rewrite Hrl. f_equal. simpl. rewrite app_length. simpl. lia. }
          specialize (IH' ltac:(change (cmn s1) with (cmn s + (List.length nm + 2)); rewrite Hr1; lia)
                          ltac:(change (pkc s1) with (S (pkc s)); rewrite Hcw, Hpkc; reflexivity)).
          assert (Hpc1 : pcnt s1 = List.length (ps s1)).
          { unfold s1, pstate; cbn [pcnt ps]. destruct lazy; auto. rewrite app_length. simpl. lia. }
          specialize (IH' Hpc1 Ht ltac:(change (cm s1) with cm'; lia) ltac:(lia)).
          change (cm s1) with cm' in IH'.
          assert (Hsk : skipn cm' path = skipn (List.length v) (c :: p')).
          { rewrite <- Ep, skipn_skipn'. f_equal. lia. }
          rewrite Hsk in IH'.
          rewrite kmatch_acc. simpl app.
          assert (Hx : extends (ps s) (ps s1)).
          { unfold s1, pstate; cbn [ps]. destruct lazy; [apply extends_refl|].
            unfold extends. rewrite firstn_app, Nat.sub_diag, firstn_all. simpl. apply app_nil_r. }
          destruct (kmatch kt (skipn (List.length v) (c :: p')) []) as [rest vals| |]; cbn [kres_pre].
          - eapply (inner_ok_step path lazy (S f) s rest [(nm, v)] vals _ f s1 _ 1); fin.
          - eapply (backs_step path lazy (S f) _ s _ f _ s1 _ 1); fin.
          - eapply (backs_step path lazy (S f) _ s _ f _ s1 _ 1); fin. }
        destruct (index_byte (c :: p') "/") as [[|dd]|] eqn:Eidx.
        -- (* empty segment *)
           destruct Hseg as (Hs1 & _ & _). rewrite Hs1. cbn [firstn].
           eapply (backs_step path lazy (S f) _ s _ f PAfter s 1 1); fin.
           apply backs_after; auto; try lia. apply cm_lt_nofound. exact Hlt.
        -- destruct Hseg as (Hs1 & Hs2 & Hs3). cbv zeta in Hstep.
           apply (Hgen (cm s + S dd)); auto.
           ++ rewrite Hs1. simpl. discriminate.
           ++ lia.
           ++ unfold slice. rewrite Ep, Hs1. f_equal. lia.
        -- cbv zeta in Hstep.
           assert (Hlenp : List.length (c :: p') = List.length path - cm s) by (rewrite <- Ep; apply skipn_length).
           apply (Hgen (List.length path)); auto.
           ++ rewrite Hseg, Hlenp. lia.
           ++ rewrite Hseg. discriminate.
           ++ rewrite Hseg. lia.
           ++ unfold slice. rewrite Ep, Hseg, <- Hlenp. apply firstn_all.
Qed.

(* ------------------------------------------------------------------ *)
(* child selection and Backtrack steps                                  *)
(* ------------------------------------------------------------------ *)
Definition heads (l : list node) : list (option ascii) := map (fun c => hd_byte (nkey c)) l.

Lemma starts_with_hd c k : starts_with c k = true <-> hd_byte k = Some c.
Proof.
  destruct k as [|x k]; simpl; split; try discriminate.
  - intros H. apply Ascii.eqb_eq in H. congruence.
  - intros [= ->]. apply Ascii.eqb_refl.
Qed.

Lemma last_index_find c : forall l i acc, NoDup (heads l) ->
  last_index_from i c l acc = match find_child_from i c l with Some j => Some j | None => acc end.
Proof.
  induction l as [|x l IH]; intros i acc Hnd; simpl; auto.
  inversion Hnd as [|? ? Hni Hnd']; subst.
  destruct (starts_with c (nkey x)) eqn:E.
  - apply last_index_none. intros y Hy. destruct (starts_with c (nkey y)) eqn:Ey; auto.
    exfalso. apply Hni. apply starts_with_hd in E, Ey. rewrite E, <- Ey. exact (in_map (fun c0 => hd_byte (nkey c0)) l y Hy).
  - apply IH; auto.
Qed.

Lemma index_first c n : NoDup (heads (nchildren n)) ->
  match last_index_from 0 c (nchildren n) None with
  | Some j => nth_error (nchildren n) j = first_child c (nchildren n) /\ first_child c (nchildren n) <> None
  | None => first_child c (nchildren n) = None
  end.
Proof.
  intros Hnd. rewrite last_index_find by exact Hnd.
  pose proof (find_child_first n c) as H. unfold find_child in H.
  destruct (find_child_from 0 c (nchildren n)); auto.
Qed.

Lemma select_static_push f path lazy s c x pi :
  cm s < List.length path -> nth_error path (cm s) = Some c ->
  first_child c (nchildren (cur s)) = Some x ->
  param_child_index (cur s) = Some pi -> wildcard_child_index (cur s) = None ->
  lbp (S f) path lazy PSelect s = lbp f path lazy PWalk (descend (push s pi) x).
Proof.
  intros Hlt Hc Hx Hp Hw. cbn [lbp]. apply Nat.ltb_lt in Hlt. rewrite Hlt, Hc.
  pose proof (find_child_first (cur s) c) as Hf. destruct (find_child (cur s) c) as [j|].
  - destruct Hf as [Hj _]. rewrite Hp, Hw, Hj, Hx. reflexivity.
  - congruence.
Qed.

Lemma select_param f path lazy s c y pi :
  cm s < List.length path -> nth_error path (cm s) = Some c ->
  first_child c (nchildren (cur s)) = None ->
  param_child_index (cur s) = Some pi -> nth_error (nchildren (cur s)) pi = Some y ->
  wildcard_child_index (cur s) = None -> tinv s ->
  exists s1, lbp (S f) path lazy PSelect s = lbp f path lazy PWalk (descend s1 y)
             /\ same_core s s1 /\ tinv s1 /\ pcnt s1 = pcnt s.
Proof.
  intros Hlt Hc Hx Hp Hy Hw Ht. cbn [lbp]. apply Nat.ltb_lt in Hlt. rewrite Hlt, Hc.
  pose proof (find_child_first (cur s) c) as Hf. destruct (find_child (cur s) c) as [j|].
  - destruct Hf as [_ Hj]. congruence.
  - match goal with |- context [if ?b then set_tsr lazy s (cur s) (ps s) else s] => destruct b end.
    + change (cur (set_tsr lazy s (cur s) (ps s))) with (cur s). rewrite Hp, Hw, Hy.
      eexists; split; [reflexivity|]. split; [apply set_tsr_core|]. split; [apply set_tsr_tinv|reflexivity].
    + rewrite Hp, Hw, Hy. eexists; split; [reflexivity|]. split; [apply same_core_refl|]. split; auto.
Qed.

Definition popped (s : st) (sk : skipped) (rest : list skipped) (y : node) : st :=
  {| cur := y; par := Some (sk_n sk); cm := sk_path sk; cmn := cmn s; pcnt := sk_pcnt sk; pkc := pkc s;
     sks := rest; ps := firstn (sk_pcnt sk) (ps s); tsr := tsr s; tn := tn s; tps := tps s |}.

Lemma back_pop f path lazy s sk rest y :
  sks s = sk :: rest -> nth_error (nchildren (sk_n sk)) (sk_child sk) = Some y ->
  sk_pcnt sk <= List.length (ps s) ->
  lbp (S f) path lazy PBack s = lbp f path lazy PWalk (popped s sk rest y).
Proof.
  intros Hs Hy Hle. cbn [lbp]. rewrite Hs, Hy. apply Nat.ltb_ge in Hle. rewrite Hle. reflexivity.
Qed.

(* ------------------------------------------------------------------ *)
(* tokenize inverts render                                              *)
(* ------------------------------------------------------------------ *)
Lemma take_name_render : forall nm rest, name_ok nm = true -> take_name (nm ++ "}" :: rest) = (nm, rest).
Proof.
  induction nm as [|c nm IH]; intros rest Hok.
  - reflexivity.
  - unfold name_ok in Hok. simpl in Hok. apply negb_true_iff in Hok. apply orb_false_elim in Hok.
    destruct Hok as [Hc Hok].
    assert (Ascii.eqb c "}" = false) as Hc' by (rewrite Ascii.eqb_sym; exact Hc).
    cbn [app take_name]. rewrite Hc'. rewrite IH; [reflexivity|]. unfold name_ok. rewrite Hok. reflexivity.
Qed.

Lemma tokenize_fuel_render : forall kt f, forallb tok_ok kt = true -> List.length kt <= f ->
  tokenize_fuel f (render kt) = kt.
Proof.
  induction kt as [|t kt IH]; intros f Hok Hf.
  - destruct f; reflexivity.
  - destruct f as [|f]; [simpl in Hf; lia|]. simpl in Hok. apply andb_prop in Hok. destruct Hok as [Ht Hok].
    simpl in Hf. destruct t as [c|nm|nm]; simpl in Ht.
    + change (render (TStatic c :: kt)) with (c :: render kt). rewrite tokenize_step by exact Ht.
      f_equal. apply IH; auto. lia.
    + change (render (TParam nm :: kt)) with ("{" :: (nm ++ ["}"]) ++ render kt). rewrite <- app_assoc.
      cbn [tokenize_fuel]. simpl app. rewrite take_name_render by exact Ht. f_equal. apply IH; auto. lia.
    + change (render (TCatch nm :: kt)) with ("*" :: "{" :: (nm ++ ["}"]) ++ render kt). rewrite <- app_assoc.
      cbn [tokenize_fuel]. simpl app. rewrite take_name_render by exact Ht. f_equal. apply IH; auto. lia.
Qed.

Lemma render_len_ge kt : List.length kt <= List.length (render kt).
Proof.
  induction kt as [|t kt IH]; simpl; auto. rewrite app_length. pose proof (render_tok_len_pos t). lia.
Qed.

Lemma tokenize_render kt : forallb tok_ok kt = true -> tokenize (render kt) = kt.
Proof. intros H. apply tokenize_fuel_render; auto. pose proof (render_len_ge kt). lia. Qed.

(* ------------------------------------------------------------------ *)
(* M2: DFS matcher without an explicit stack                            *)
(* ------------------------------------------------------------------ *)
Definition mres := option (node * list kv).
Definition with_vals (vals : list kv) (r : mres) : mres :=
  match r with Some (l, v2) => Some (l, vals ++ v2) | None => None end.
Definition alt (a b : mres) : mres := match a with Some _ => a | None => b end.

Fixpoint m2 (n : node) (p : bytes) : mres :=
  match n with
  | Node k r ch =>
    match kmatch (tokenize k) p [] with
    | KDone [] vals => match r with Some _ => Some (n, vals) | None => None end
    | KDone (c :: rest) vals =>
        let try := fix go (cc : ascii) (l : list node) {struct l} : mres :=
                     match l with
                     | [] => None
                     | x :: l' => if starts_with cc (nkey x) then m2 x (c :: rest) else go cc l'
                     end in
        with_vals vals (alt (try c ch) (try "{" ch))
    | _ => None
    end
  end.

Definition m2_child (cc : ascii) (ch : list node) (p : bytes) : mres :=
  match first_child cc ch with Some x => m2 x p | None => None end.

Lemma m2_eq k r ch p :
  m2 (Node k r ch) p =
  match kmatch (tokenize k) p [] with
  | KDone [] vals => match r with Some _ => Some (Node k r ch, vals) | None => None end
  | KDone (c :: rest) vals => with_vals vals (alt (m2_child c ch (c :: rest)) (m2_child "{" ch (c :: rest)))
  | _ => None
  end.
Proof.
  cbn [m2]. destruct (kmatch (tokenize k) p []) as [[|c rest] vals| |]; auto.
  assert (forall cc, (fix go (cc : ascii) (l : list node) {struct l} : mres :=
                        match l with
                        | [] => None
                        | x :: l' => if starts_with cc (nkey x) then m2 x (c :: rest) else go cc l'
                        end) cc ch = m2_child cc ch (c :: rest)) as H.
  { intros cc. unfold m2_child. induction ch as [|x ch IH]; simpl; auto. destruct (starts_with cc (nkey x)); auto. }
  rewrite !H. reflexivity.
Qed.

(* stage-2 invariant: keys are whole tokens (static bytes, {name}); sibling keys start with
   pairwise distinct bytes (hence at most one parameter child); a leaf's pattern is the
   concatenation of the keys on its branch *)
Inductive pwf : bytes -> node -> Prop :=
| PWF pre k r ch kt :
    kt <> [] -> k = render kt -> forallb ptok_ok kt = true ->
    (forall rt, r = Some rt -> rpat rt = pre ++ k) ->
    NoDup (heads ch) ->
    Forall (pwf (pre ++ k)) ch ->
    pwf pre (Node k r ch).

Lemma pwf_inv pre k r ch : pwf pre (Node k r ch) ->
  exists kt, kt <> [] /\ k = render kt /\ forallb ptok_ok kt = true /\
             (forall rt, r = Some rt -> rpat rt = pre ++ k) /\ NoDup (heads ch) /\ Forall (pwf (pre ++ k)) ch.
Proof. inversion 1; subst. exists kt. auto 7. Qed.

Lemma pwf_head_not_star pre x : pwf pre x -> starts_with "*" (nkey x) = false.
Proof.
  destruct x as [k r ch]. intros H. apply pwf_inv in H. destruct H as (kt & Hne & -> & Hok & _).
  destruct kt as [|t kt]; [congruence|]. simpl in Hok. apply andb_prop in Hok. destruct Hok as [Ht _].
  destruct t as [c|nm|nm]; simpl in *; try discriminate; auto.
  unfold sbyte in Ht. apply andb_prop in Ht. destruct Ht as [_ H2]. apply negb_true_iff in H2. exact H2.
Qed.

Lemma pwf_no_wildcard pre n : pwf pre n -> wildcard_child_index n = None.
Proof.
  destruct n as [k r ch]. intros H. apply pwf_inv in H. destruct H as (kt & _ & _ & _ & _ & _ & Hch).
  unfold wildcard_child_index. simpl. apply last_index_none. intros x Hx.
  rewrite Forall_forall in Hch. eapply pwf_head_not_star; eauto.
Qed.

Fixpoint ncost (n : node) : nat :=
  match n with
  | Node k r ch => List.length k + 12 + 2 * (fix sum (l : list node) : nat :=
                                                match l with [] => 0 | x :: l' => ncost x + sum l' end) ch
  end.
Fixpoint ncost_sum (l : list node) : nat := match l with [] => 0 | x :: l' => ncost x + ncost_sum l' end.
Lemma ncost_eq k r ch : ncost (Node k r ch) = List.length k + 12 + 2 * ncost_sum ch.
Proof.
  cbn [ncost].
  assert ((fix sum (l : list node) : nat := match l with [] => 0 | x :: l' => ncost x + sum l' end) ch = ncost_sum ch) as ->.
  { induction ch as [|x ch IH]; simpl; auto. }
  reflexivity.
Qed.
Lemma ncost_in x ch : In x ch -> ncost x <= ncost_sum ch.
Proof. induction ch as [|y ch IH]; simpl; [tauto|]. intros [->|H]; [lia|]. apply IH in H. lia. Qed.

(* ------------------------------------------------------------------ *)
(* M1 = M2                                                              *)
(* ------------------------------------------------------------------ *)
Definition reset_cmn (s : st) : st :=
  {| cur := cur s; par := par s; cm := cm s; cmn := 0; pcnt := pcnt s; pkc := pkc s; sks := sks s;
     ps := ps s; tsr := tsr s; tn := tn s; tps := tps s |}.

Lemma walk_lt' f path lazy s : cm s < List.length path ->
  lbp (S f) path lazy PWalk s = lbp f path lazy (PInner 0) (reset_cmn s).
Proof. exact (walk_lt f path lazy s). Qed.

Definition found_as (r : lres) (l : node) (pss : list kv) : Prop :=
  exists tps', r = Found (Some l) false pss tps'.

Lemma extends_addp_self lazy a v : extends a (addp lazy a v).
Proof.
  destruct lazy; simpl; [apply extends_refl|].
  unfold extends. rewrite firstn_app, Nat.sub_diag, firstn_all. simpl. apply app_nil_r.
Qed.
Lemma walk_m2 path lazy : forall n pre, pwf pre n ->
  forall fuel s, cur s = n -> cm s < List.length path -> pkc s = 0 -> pcnt s = List.length (ps s) -> tinv s ->
  ncost n <= fuel ->
  match m2 n (skipn (cm s) path) with
  | Some (l, vals) => found_as (lbp fuel path lazy PWalk s) l (addp lazy (ps s) vals)
  | None => backs path lazy fuel PWalk s (ncost n)
  end.
Proof.
  induction n as [k r ch IH] using node_ind'. intros pre Hwf fuel s Hcur Hlt Hpkc Hpc Ht Hfuel.
  pose proof (pwf_no_wildcard _ _ Hwf) as Hnw.
  apply pwf_inv in Hwf. destruct Hwf as (kt & Hne & Hk & Hok & Hr & Hnd & Hch).
  rewrite ncost_eq in *.
  assert (Hkl : List.length k = List.length (render kt)) by (rewrite Hk; reflexivity).
  destruct fuel as [|f1]; [lia|].
  pose proof (walk_lt' f1 path lazy s Hlt) as Hw.
  set (s0 := reset_cmn s) in *.
  pose proof (inner_tok path lazy kt [] s0 f1) as Hin.
  simpl app in Hin. change (cur s0) with (cur s) in Hin. rewrite Hcur in Hin. simpl nkey in Hin.
  specialize (Hin Hk Hok eq_refl Hpkc Hpc Ht ltac:(change (cm s0) with (cm s); lia) ltac:(lia)).
  change (cm s0) with (cm s) in Hin. change (cmn s0) with 0 in Hin.
  rewrite m2_eq, Hk, tokenize_render by (apply forallb_ptok_tok; exact Hok).
  destruct (kmatch kt (skipn (cm s) path) []) as [rest vals| |].
  - destruct Hin as (f2 & s' & He & Hf2 & Hc' & Hp' & Hrest & Hcm' & Hcmn' & Hsk' & Hps' & Hpc' & Ht').
    change (cmn s0) with 0 in He. change (cur s0) with (cur s) in *. change (sks s0) with (sks s) in *. change (ps s0) with (ps s) in *.
    rewrite Hcur in Hc', Hcmn'. simpl nkey in Hcmn'.
    assert (Hx0 : extends (ps s) (ps s')) by (rewrite Hps'; apply extends_addp_self).
    destruct rest as [|c rest'].
    + (* the path ends with this key *)
      apply skipn_nil_len in Hrest.
      destruct f2 as [|[|f3]]; try lia.
      pose proof (select_ge f3 path lazy s' Hrest) as Hsel.
      destruct r as [rt|].
      * destruct f3 as [|f4]; [lia|].
        exists (tps s'). rewrite Hw, He, Hsel.
        rewrite after_found; [| rewrite Hc'; reflexivity | lia | rewrite Hc'; simpl; lia].
        rewrite Hc', Hps', <- Hk. reflexivity.
      * eapply (backs_step path lazy (S f1) PWalk s _ f3 PAfter s' 1 (List.length k + 4)).
        -- rewrite Hw, He, Hsel. reflexivity.
        -- apply backs_after; auto; try lia. rewrite Hc'. reflexivity.
        -- exact Hsk'.
        -- exact Hx0.
        -- lia.
        -- lia.
    + pose proof (skipn_cons_nth _ _ _ _ Hrest) as (Hnc & _ & Hlt').
      pose proof (index_first "{" (cur s')) as Hpci. rewrite Hc' in Hpci. simpl nchildren in Hpci.
      specialize (Hpci Hnd). change (last_index_from 0 "{" ch None) with (param_child_index (Node k r ch)) in Hpci.
      rewrite <- Hc' in Hpci, Hnw.
      assert (Hch' : nchildren (cur s') = ch) by (rewrite Hc'; reflexivity).
      rewrite Forall_forall in IH, Hch.
      unfold m2_child.
      destruct (first_child c ch) as [x|] eqn:Efx.
      * pose proof (first_child_in _ _ _ Efx) as [Hinx _].
        pose proof (IH x Hinx (pre ++ k) (Hch x Hinx)) as IHx.
        pose proof (ncost_in x ch Hinx) as Hcx.
        destruct f2 as [|f3]; [lia|].
        destruct (param_child_index (cur s')) as [pi|] eqn:Epi.
        -- destruct Hpci as [Hny Hyne]. destruct (first_child "{" ch) as [y|] eqn:Efy; [|congruence].
           pose proof (first_child_in _ _ _ Efy) as [Hiny _].
           pose proof (ncost_in y ch Hiny) as Hcy.
           assert (Hsel : lbp (S f3) path lazy PSelect s' = lbp f3 path lazy PWalk (descend (push s' pi) x)).
           { apply (select_static_push f3 path lazy s' c x pi); auto. rewrite Hch'. exact Efx. }
           set (sd := descend (push s' pi) x) in *.
           specialize (IHx f3 sd eq_refl Hlt' eq_refl Hpc' Ht' ltac:(lia)).
           change (cm sd) with (cm s') in IHx. rewrite Hrest in IHx.
           destruct (m2 x (c :: rest')) as [[l v2]|].
           ++ destruct IHx as [tps' E]. exists tps'. rewrite Hw, He, Hsel, E.
              change (ps sd) with (ps s'). rewrite Hps', addp_addp. reflexivity.
           ++ destruct IHx as (f4 & s2 & He2 & Hf4 & Hsk2 & Hx2 & Ht2 & Hk2).
              set (sk := {| sk_n := cur s'; sk_path := cm s'; sk_pcnt := pcnt s'; sk_child := pi |}) in *.
              change (sks sd) with (sk :: sks s') in Hsk2. change (ps sd) with (ps s') in Hx2.
              destruct f4 as [|f5]; [lia|].
              assert (Hpop : lbp (S f5) path lazy PBack s2 = lbp f5 path lazy PWalk (popped s2 sk (sks s') y)).
              { apply back_pop; auto.
                - simpl. rewrite Hch'. exact Hny.
                - simpl. rewrite Hpc'. apply extends_len. exact Hx2. }
              set (s3 := popped s2 sk (sks s') y) in *.
              assert (Hps3 : ps s3 = ps s').
              { unfold s3, popped, sk; cbn [ps sk_pcnt]. rewrite Hpc'. exact Hx2. }
              pose proof (IH y Hiny (pre ++ k) (Hch y Hiny) f5 s3 eq_refl Hlt' Hk2) as IHy.
              rewrite Hps3 in IHy. specialize (IHy Hpc' Ht2 ltac:(lia)).
              change (cm s3) with (cm s') in IHy. rewrite Hrest in IHy.
              destruct (m2 y (c :: rest')) as [[l v2]|].
              ** destruct IHy as [tps' E]. exists tps'. rewrite Hw, He, Hsel, He2, Hpop, E.
                 rewrite Hps', addp_addp. reflexivity.
              ** destruct IHy as (f6 & s4 & He4 & Hf6 & Hsk4 & Hx4 & Ht4 & Hk4).
                 exists f6, s4. split; [rewrite Hw, He, Hsel, He2, Hpop; exact He4|].
                 change (sks s3) with (sks s') in Hsk4. rewrite Hps3 in Hx4.
                 repeat split; auto; try congruence; try lia.
                 eapply extends_trans; eauto.
        -- rewrite Hpci.
           assert (Hsel : lbp (S f3) path lazy PSelect s' = lbp f3 path lazy PWalk (descend s' x)).
           { apply (select_child f3 path lazy s' c x); auto. rewrite Hch'. exact Efx. }
           set (sd := descend s' x) in *.
           specialize (IHx f3 sd eq_refl Hlt' eq_refl Hpc' Ht' ltac:(lia)).
           change (cm sd) with (cm s') in IHx. rewrite Hrest in IHx.
           destruct (m2 x (c :: rest')) as [[l v2]|].
           ++ destruct IHx as [tps' E]. exists tps'. rewrite Hw, He, Hsel, E.
              change (ps sd) with (ps s'). rewrite Hps', addp_addp. reflexivity.
           ++ destruct IHx as (f4 & s2 & He2 & Hf4 & Hsk2 & Hx2 & Ht2 & Hk2).
              exists f4, s2. split; [rewrite Hw, He, Hsel; exact He2|].
              change (sks sd) with (sks s') in Hsk2. change (ps sd) with (ps s') in Hx2.
              repeat split; auto; try congruence; try lia.
              eapply extends_trans; eauto.
      * destruct f2 as [|f3]; [lia|].
        destruct (param_child_index (cur s')) as [pi|] eqn:Epi.
        -- destruct Hpci as [Hny Hyne]. destruct (first_child "{" ch) as [y|] eqn:Efy; [|congruence].
           pose proof (first_child_in _ _ _ Efy) as [Hiny _].
           pose proof (ncost_in y ch Hiny) as Hcy.
           destruct (select_param f3 path lazy s' c y pi) as (s1 & Hsel & Hcore & Ht1 & Hpc1); auto.
           { rewrite Hch'. exact Efx. }
           { rewrite Hch'. exact Hny. }
           destruct Hcore as (Hc1 & _ & Hcm1 & _ & Hsk1 & Hps1).
           set (sd := descend s1 y) in *.
           pose proof (IH y Hiny (pre ++ k) (Hch y Hiny) f3 sd eq_refl) as IHy.
           change (cm sd) with (cm s1) in IHy. rewrite Hcm1 in IHy.
           change (ps sd) with (ps s1) in IHy. change (pcnt sd) with (pcnt s1) in IHy.
           rewrite Hps1, Hpc1 in IHy.
           specialize (IHy Hlt' eq_refl Hpc' Ht1 ltac:(lia)). rewrite Hrest in IHy.
           destruct (m2 y (c :: rest')) as [[l v2]|].
           ++ destruct IHy as [tps' E]. exists tps'. rewrite Hw, He, Hsel, E.
              rewrite Hps', addp_addp. reflexivity.
           ++ destruct IHy as (f4 & s2 & He2 & Hf4 & Hsk2 & Hx2 & Ht2 & Hk2).
              exists f4, s2. split; [rewrite Hw, He, Hsel; exact He2|].
              change (sks sd) with (sks s1) in Hsk2. change (ps sd) with (ps s1) in Hx2. rewrite Hps1 in Hx2.
              repeat split; auto; try congruence; try lia.
              eapply extends_trans; eauto.
        -- rewrite Hpci.
           destruct (select_none f3 path lazy s' c) as (s1 & Hsel & Hcore & Ht1); auto.
           { rewrite Hch'. exact Efx. }
           destruct Hcore as (Hc1 & _ & Hcm1 & _ & Hsk1 & Hps1).
           eapply (backs_step path lazy (S f1) PWalk s _ f3 PAfter s1 1 (List.length k + 4)).
           ++ rewrite Hw, He, Hsel. reflexivity.
           ++ apply backs_after; auto; try lia. apply cm_lt_nofound. lia.
           ++ congruence.
           ++ rewrite Hps1. exact Hx0.
           ++ lia.
           ++ lia.
  - eapply (backs_step path lazy (S f1) PWalk s _ f1 _ s0 _ 1); [exact Hw|exact Hin|reflexivity|apply extends_refl|lia|lia].
  - eapply (backs_step path lazy (S f1) PWalk s _ f1 _ s0 _ 1); [exact Hw|exact Hin|reflexivity|apply extends_refl|lia|lia].
Qed.

(* a result that is not a direct hit *)
Definition nodirect2 (r : lres) : Prop :=
  exists tn' tsr' ps' tps', r = Found tn' tsr' ps' tps' /\ (tsr' = false -> tn' = None).

Definition m2_fuel (t : node) : nat := ncost t + 4.

Theorem lbp_eq_m2 t path lazy fuel : pwf [] t -> m2_fuel t <= fuel ->
  match m2 t path with
  | Some (l, vals) => found_as (lookup_by_path fuel t path lazy [] []) l (addp lazy [] vals)
  | None => nodirect2 (lookup_by_path fuel t path lazy [] [])
  end.
Proof.
  intros Hwf Hf. unfold lookup_by_path, m2_fuel in *.
  destruct path as [|c path].
  - destruct t as [k r ch]. pose proof (pwf_inv _ _ _ _ Hwf) as (kt & Hne & Hk & Hok & _).
    subst k. rewrite m2_eq, tokenize_render by (apply forallb_ptok_tok; exact Hok).
    destruct kt as [|t0 kt]; [congruence|]. cbn [kmatch].
    rewrite ncost_eq in Hf. destruct fuel as [|[|[|f]]]; try lia.
    rewrite walk_ge by (simpl; lia).
    set (s := init_st (Node (render (t0 :: kt)) r ch) [] []).
    destruct (after_fail (S f) [] lazy s) as (s' & -> & Hc & Ht' & _).
    + apply cmn_lt_nofound. change (cmn s) with 0. change (nkey (cur s)) with (render (t0 :: kt)).
      rewrite render_cons_len. pose proof (render_tok_len_pos t0). lia.
    + unfold tinv; simpl; auto.
    + destruct Hc as (_ & _ & _ & _ & Hs & _). rewrite back_nil by (rewrite Hs; reflexivity).
      do 4 eexists. split; [reflexivity|exact Ht'].
  - pose proof (walk_m2 (c :: path) lazy t [] Hwf fuel (init_st t [] []) eq_refl) as H.
    simpl cm in H. simpl skipn in H.
    specialize (H ltac:(simpl; lia) eq_refl eq_refl ltac:(unfold tinv; simpl; auto) ltac:(lia)).
    destruct (m2 t (c :: path)) as [[l vals]|]; [exact H|].
    destruct H as (f' & s' & -> & Hf' & Hs & _ & Ht' & _). simpl in Hs.
    destruct f' as [|f']; [lia|]. rewrite back_nil by exact Hs.
    do 4 eexists. split; [reflexivity|exact Ht'].
Qed.

(* ------------------------------------------------------------------ *)
(* M2 = S: candidates of a subtree                                      *)
(* ------------------------------------------------------------------ *)
Definition prep (kt : list token) (c : cand) : cand := {| pat := pat c; toks := kt ++ toks c |}.
Definition own (r : option route) : list cand :=
  match r with Some rt => [{| pat := rpat rt; toks := [] |}] | None => [] end.

Fixpoint cands_of (n : node) : list cand :=
  match n with
  | Node k r ch => map (prep (tokenize k)) (own r ++ flat_map cands_of ch)
  end.
Definition below (r : option route) (ch : list node) : list cand := own r ++ flat_map cands_of ch.
Definition cands (kt : list token) (r : option route) (ch : list node) : list cand := map (prep kt) (below r ch).

Lemma cands_of_eq k r ch : cands_of (Node k r ch) = cands (tokenize k) r ch.
Proof. reflexivity. Qed.

Lemma prep_nil c : prep [] c = c.
Proof. destruct c; reflexivity. Qed.
Lemma cands_nil r ch : cands [] r ch = below r ch.
Proof. unfold cands. rewrite (map_ext _ (fun c => c)) by apply prep_nil. apply map_id. Qed.

Lemma select_nil : forall fuel s h vals, select fuel [] s h vals = None.
Proof.
  destruct fuel as [|fuel]; intros s h vals; [reflexivity|]. cbn [select]. destruct s as [|c r]; [reflexivity|].
  simpl. unfold orelse. destruct (Ascii.eqb c "{" || Ascii.eqb c "*"); simpl; destruct (negb (Nat.eqb h 0)); reflexivity.
Qed.

Lemma match_nil_select fuel (cs : list cand) s h vals :
  match cs with [] => None | c0 :: l => select fuel (c0 :: l) s h vals end = select fuel cs s h vals.
Proof. destruct cs; auto. rewrite select_nil. reflexivity. Qed.

(* advancing a candidate list whose members all start with the same token *)
Lemma adv_static_cands_static c d kt r ch :
  adv_static c (cands (TStatic d :: kt) r ch) = if Ascii.eqb c d then cands kt r ch else [].
Proof.
  unfold cands, adv_static. induction (below r ch) as [|k l IH]; simpl.
  - destruct (Ascii.eqb c d); reflexivity.
  - rewrite IH. destruct (Ascii.eqb c d); reflexivity.
Qed.
Lemma adv_static_cands_param c nm kt r ch : adv_static c (cands (TParam nm :: kt) r ch) = [].
Proof. unfold cands, adv_static. induction (below r ch) as [|k l IH]; simpl; auto. Qed.
Lemma adv_param_cands_static d kt r ch : adv_param (cands (TStatic d :: kt) r ch) = [].
Proof. unfold cands, adv_param. induction (below r ch) as [|k l IH]; simpl; auto. Qed.
Lemma adv_param_cands_param nm kt r ch : adv_param (cands (TParam nm :: kt) r ch) = cands kt r ch.
Proof. unfold cands, adv_param. induction (below r ch) as [|k l IH]; simpl; auto. rewrite IH. reflexivity. Qed.
Lemma adv_catch_cands_static d kt r ch : adv_catch (cands (TStatic d :: kt) r ch) = [].
Proof. unfold cands, adv_catch. induction (below r ch) as [|k l IH]; simpl; auto. Qed.
Lemma adv_catch_cands_param nm kt r ch : adv_catch (cands (TParam nm :: kt) r ch) = [].
Proof. unfold cands, adv_catch. induction (below r ch) as [|k l IH]; simpl; auto. Qed.

Lemma leaf_cands_cons t kt r ch : leaf (cands (t :: kt) r ch) = None.
Proof. unfold cands, leaf. induction (below r ch) as [|k l IH]; simpl; auto. Qed.

Lemma sbyte_split c : sbyte c = true -> Ascii.eqb c "{" = false /\ Ascii.eqb c "*" = false.
Proof. unfold sbyte. intros H. apply andb_prop in H. destruct H as [H1 H2]. apply negb_true_iff in H1, H2. auto. Qed.

Lemma sbyte_false c : sbyte c = false -> Ascii.eqb c "{" || Ascii.eqb c "*" = true.
Proof. unfold sbyte. destruct (Ascii.eqb c "{"), (Ascii.eqb c "*"); simpl; auto. Qed.

Lemma select_cands_short f t kt r ch vals : select (S f) (cands (t :: kt) r ch) [] 0 vals = None.
Proof. cbn [select]. rewrite leaf_cands_cons. reflexivity. Qed.

Lemma select_cands_static f d kt r ch c p' vals :
  select (S f) (cands (TStatic d :: kt) r ch) (c :: p') 0 vals =
  if Ascii.eqb d c && sbyte c then select f (cands kt r ch) p' 0 vals else None.
Proof.
  cbn [select]. rewrite adv_param_cands_static, adv_catch_cands_static, adv_static_cands_static.
  cbn [Nat.eqb negb pred]. unfold orelse. rewrite (Ascii.eqb_sym d c).
  destruct (sbyte c) eqn:Es.
  - destruct (sbyte_split c Es) as [-> ->]. cbn [orb]. rewrite andb_true_r.
    destruct (Ascii.eqb c d); [|reflexivity].
    rewrite match_nil_select. destruct (select f (cands kt r ch) p' 0 vals); reflexivity.
  - rewrite (sbyte_false c Es). rewrite andb_false_r. reflexivity.
Qed.

Lemma select_cands_param f nm kt r ch c p' vals :
  select (S f) (cands (TParam nm :: kt) r ch) (c :: p') 0 vals =
  match seg is_slash (c :: p') with
  | [] => None
  | v => select f (cands kt r ch) (skipn (List.length v) (c :: p')) 0 (v :: vals)
  end.
Proof.
  cbn [select]. rewrite adv_param_cands_param, adv_catch_cands_param, adv_static_cands_param.
  cbn [Nat.eqb negb]. unfold orelse.
  assert ((if Ascii.eqb c "{" || Ascii.eqb c "*" then None else @None (bytes * list bytes)) = None) as ->
    by (destruct (Ascii.eqb c "{" || Ascii.eqb c "*"); reflexivity).
  change (seg (fun x : ascii => Ascii.eqb x "/") (c :: p')) with (seg is_slash (c :: p')).
  destruct (cands kt r ch) as [|k0 l] eqn:E.
  - destruct (seg is_slash (c :: p')); [reflexivity|]. rewrite select_nil. reflexivity.
  - rewrite <- E. destruct (seg is_slash (c :: p')) as [|v0 v]; [reflexivity|].
    replace (0 - List.length (v0 :: v)) with 0 by lia.
    destruct (select f (cands kt r ch) _ 0 _); reflexivity.
Qed.

(* ---- advancing the candidates below a node ---- *)
Lemma adv_static_app c a b : adv_static c (a ++ b) = adv_static c a ++ adv_static c b.
Proof. unfold adv_static. apply flat_map_app. Qed.
Lemma adv_param_app a b : adv_param (a ++ b) = adv_param a ++ adv_param b.
Proof. unfold adv_param. apply flat_map_app. Qed.
Lemma adv_catch_app a b : adv_catch (a ++ b) = adv_catch a ++ adv_catch b.
Proof. unfold adv_catch. apply flat_map_app. Qed.

Lemma adv_static_flat c {A} (g : A -> list cand) l :
  adv_static c (flat_map g l) = flat_map (fun x => adv_static c (g x)) l.
Proof. induction l as [|x l IH]; simpl; auto. rewrite adv_static_app, IH. reflexivity. Qed.
Lemma adv_param_flat {A} (g : A -> list cand) l :
  adv_param (flat_map g l) = flat_map (fun x => adv_param (g x)) l.
Proof. induction l as [|x l IH]; simpl; auto. rewrite adv_param_app, IH. reflexivity. Qed.
Lemma adv_catch_flat {A} (g : A -> list cand) l :
  adv_catch (flat_map g l) = flat_map (fun x => adv_catch (g x)) l.
Proof. induction l as [|x l IH]; simpl; auto. rewrite adv_catch_app, IH. reflexivity. Qed.

Lemma flat_map_nil {A B} (f : A -> list B) l : (forall x, In x l -> f x = []) -> flat_map f l = [].
Proof. induction l as [|x l IH]; simpl; auto. intros H. rewrite (H x) by auto. apply IH. auto. Qed.

Lemma flat_map_first (f g : node -> list cand) c ch :
  NoDup (heads ch) ->
  (forall x, In x ch -> f x = if starts_with c (nkey x) then g x else []) ->
  flat_map f ch = match first_child c ch with Some x => g x | None => [] end.
Proof.
  induction ch as [|x ch IH]; intros Hnd Hf; simpl; auto.
  inversion Hnd as [|? ? Hni Hnd']; subst.
  rewrite (Hf x) by (left; reflexivity). destruct (starts_with c (nkey x)) eqn:E.
  - rewrite flat_map_nil; [apply app_nil_r|]. intros y Hy. rewrite (Hf y) by (right; exact Hy).
    destruct (starts_with c (nkey y)) eqn:Ey; auto. exfalso. apply Hni.
    apply starts_with_hd in E, Ey. rewrite E, <- Ey. exact (in_map (fun c0 => hd_byte (nkey c0)) ch y Hy).
  - simpl. apply IH; auto. intros y Hy. apply Hf. right; exact Hy.
Qed.

Definition tl_cands (x : node) : list cand := cands (tl (tokenize (nkey x))) (nroute x) (nchildren x).

Lemma pwf_tokens pre x : pwf pre x ->
  exists t kt, tokenize (nkey x) = t :: kt /\ nkey x = render (t :: kt) /\ forallb ptok_ok (t :: kt) = true.
Proof.
  destruct x as [k r ch]. intros H. apply pwf_inv in H. destruct H as (kt & Hne & -> & Hok & _).
  destruct kt as [|t kt]; [congruence|]. exists t, kt. cbn [nkey]. rewrite tokenize_render by (apply forallb_ptok_tok; auto). auto.
Qed.

Lemma cands_of_tokens x : cands_of x = cands (tokenize (nkey x)) (nroute x) (nchildren x).
Proof. destruct x; reflexivity. Qed.

Lemma adv_static_child c pre x : pwf pre x -> sbyte c = true ->
  adv_static c (cands_of x) = if starts_with c (nkey x) then tl_cands x else [].
Proof.
  intros Hwf Hc. destruct (pwf_tokens _ _ Hwf) as (t & kt & Ht & Hk & Hok).
  unfold tl_cands. rewrite cands_of_tokens, Ht, Hk. simpl tl.
  simpl in Hok. apply andb_prop in Hok. destruct Hok as [Hok _].
  destruct t as [d|nm|nm]; simpl in Hok; [| |discriminate].
  - rewrite adv_static_cands_static. change (render (TStatic d :: kt)) with (d :: render kt).
    cbn [starts_with]. rewrite (Ascii.eqb_sym d c). reflexivity.
  - rewrite adv_static_cands_param. change (render (TParam nm :: kt)) with ("{" :: (nm ++ ["}"]) ++ render kt).
    cbn [starts_with]. destruct (sbyte_split c Hc) as [H1 _].
    rewrite Ascii.eqb_sym, H1. reflexivity.
Qed.

Lemma adv_param_child pre x : pwf pre x ->
  adv_param (cands_of x) = if starts_with "{" (nkey x) then tl_cands x else [].
Proof.
  intros Hwf. destruct (pwf_tokens _ _ Hwf) as (t & kt & Ht & Hk & Hok).
  unfold tl_cands. rewrite cands_of_tokens, Ht, Hk. simpl tl.
  simpl in Hok. apply andb_prop in Hok. destruct Hok as [Hok _].
  destruct t as [d|nm|nm]; simpl in Hok; [| |discriminate].
  - rewrite adv_param_cands_static. change (render (TStatic d :: kt)) with (d :: render kt).
    cbn [starts_with]. destruct (sbyte_split d Hok) as [H1 _]. rewrite H1. reflexivity.
  - rewrite adv_param_cands_param. reflexivity.
Qed.

Lemma adv_catch_child pre x : pwf pre x -> adv_catch (cands_of x) = [].
Proof.
  intros Hwf. destruct (pwf_tokens _ _ Hwf) as (t & kt & Ht & Hk & Hok).
  rewrite cands_of_tokens, Ht.
  simpl in Hok. apply andb_prop in Hok. destruct Hok as [Hok _].
  destruct t as [d|nm|nm]; simpl in Hok; [| |discriminate].
  - apply adv_catch_cands_static.
  - apply adv_catch_cands_param.
Qed.

Lemma leaf_none cs : (forall k, In k cs -> toks k <> []) -> leaf cs = None.
Proof.
  unfold leaf. induction cs as [|k cs IH]; intros H; simpl; auto.
  destruct (toks k) eqn:E; [exfalso; apply (H k); auto; left; reflexivity|].
  apply IH. intros k' Hk'. apply H. right; exact Hk'.
Qed.

Lemma cands_of_toks pre x k : pwf pre x -> In k (cands_of x) -> toks k <> [].
Proof.
  intros Hwf Hin. destruct (pwf_tokens _ _ Hwf) as (t & kt & Ht & _ & _).
  rewrite cands_of_tokens, Ht in Hin. unfold cands in Hin. apply in_map_iff in Hin.
  destruct Hin as (k0 & <- & _). simpl. discriminate.
Qed.

Lemma adv_own c r : adv_static c (own r) = [] /\ adv_param (own r) = [] /\ adv_catch (own r) = [].
Proof. destruct r; simpl; auto. Qed.

(* one step of S on the candidates below a node whose key has been consumed *)
Lemma select_below pre f r ch c p' vals :
  NoDup (heads ch) -> (forall x, In x ch -> pwf pre x) ->
  select (S f) (below r ch) (c :: p') 0 vals =
  orelse (if sbyte c then
            match first_child c ch with Some x => select f (tl_cands x) p' 0 vals | None => None end
          else None)
    (fun _ =>
       match first_child "{" ch with
       | Some y => match seg is_slash (c :: p') with
                   | [] => None
                   | v => select f (tl_cands y) (skipn (List.length v) (c :: p')) 0 (v :: vals)
                   end
       | None => None
       end).
Proof.
  intros Hnd Hch. cbn [select]. cbn [Nat.eqb negb pred].
  destruct (adv_own c r) as (Ho1 & Ho2 & Ho3).
  assert (Hcatch : adv_catch (below r ch) = []).
  { unfold below. rewrite adv_catch_app, Ho3, adv_catch_flat. simpl. apply flat_map_nil.
    intros x Hx. eapply adv_catch_child; eauto. }
  assert (Hparam : adv_param (below r ch) = match first_child "{" ch with Some y => tl_cands y | None => [] end).
  { unfold below. rewrite adv_param_app, Ho2, adv_param_flat. simpl. apply flat_map_first; auto.
    intros x Hx. eapply adv_param_child; eauto. }
  rewrite Hcatch, Hparam.
  change (seg (fun x : ascii => Ascii.eqb x "/") (c :: p')) with (seg is_slash (c :: p')).
  assert (HB : match match first_child "{" ch with Some y => tl_cands y | None => [] end with
               | [] => None
               | c0 :: l =>
                   match seg is_slash (c :: p') with
                   | [] => None
                   | _ :: _ => select f (c0 :: l) (skipn (List.length (seg is_slash (c :: p'))) (c :: p'))
                                 (0 - List.length (seg is_slash (c :: p'))) (seg is_slash (c :: p') :: vals)
                   end
               end =
               match first_child "{" ch with
               | Some y => match seg is_slash (c :: p') with
                           | [] => None
                           | v => select f (tl_cands y) (skipn (List.length v) (c :: p')) 0 (v :: vals)
                           end
               | None => None
               end).
  { destruct (first_child "{" ch) as [y|]; [|reflexivity].
    destruct (seg is_slash (c :: p')) as [|a l0].
    - destruct (tl_cands y); reflexivity.
    - replace (0 - List.length (a :: l0)) with 0 by lia.
      destruct (tl_cands y) eqn:E; [rewrite select_nil; reflexivity|reflexivity]. }
  unfold orelse at 2.
  assert (HC : forall (x : option (bytes * list bytes)), match x with Some _ => x | None => None end = x)
    by (intros [?|]; reflexivity).
  rewrite HC, HB. clear HB HC.
  destruct (sbyte c) eqn:Es.
  - destruct (sbyte_split c Es) as [-> ->]. cbn [orb].
    assert (Hstatic : adv_static c (below r ch) = match first_child c ch with Some x => tl_cands x | None => [] end).
    { unfold below. rewrite adv_static_app, Ho1, adv_static_flat. simpl. apply flat_map_first; auto.
      intros x Hx. eapply adv_static_child; eauto. }
    rewrite Hstatic. destruct (first_child c ch) as [x|]; [|reflexivity].
    rewrite match_nil_select. reflexivity.
  - rewrite (sbyte_false c Es). reflexivity.
Qed.
